package main

// C12, kinds of output path.  "When the output cannot be created ... the call returns" is a
// statement about EVERY path the caller may hand to ToSTL / To3MF / ToDXF / ToSVG, not only about
// a missing directory.  The paths differ in WHERE they are turned down: by the entry point's own
// handling of the name (empty string, NUL byte: rejected before any system call), by path
// resolution (parent is a file, symlink loop, dangling symlink, name or path too long, trailing
// slash), by permission (read-only directory, read-only file), by the kind of object found (a
// directory: ".", "..", "/"), or not at all although the name is unusual (/dev/null, a name with
// blanks / newline / quotes / non-ASCII / leading dash, no extension, a relative or unclean path).
// Each kind is a Target of a fault case and of a history step; the path is built (and whatever it
// needs on disk is set up) in the child, from the kind alone, so that a Spec replays by itself.
//
// Oracles: the call returns within the time limit (model: Pipeline.predicted with create_ok =
// what a probing os.Create of the same path says); over a history of such calls the settled
// goroutine count stays where it was after the warm-up.

import (
	"fmt"
	"os"
	"path/filepath"
	"strings"
	"sync"
	"syscall"

	. "verifharness/kit"
)

type oddKind struct {
	name string
	what string // for messages: what the path is
}

var oddKinds = []oddKind{
	{"empty", `the empty string ""`},
	{"slash", "<dir>/out.<ext>/ (trailing slash, nothing there)"},
	{"dot", `"." (the working directory)`},
	{"dotdot", `".."`},
	{"rootdir", `"/"`},
	{"parentfile", "<dir>/afile/out.<ext> where afile is a regular file"},
	{"longname", "<dir>/aaa...(300 bytes, beyond NAME_MAX).<ext>"},
	{"longpath", "<dir>/(200 bytes/)x30/out.<ext> (beyond PATH_MAX)"},
	{"nul", `<dir>/out\x00.<ext> (a NUL byte in the name)`},
	{"rodir", "a file in a read-only directory (mode 0555; for root: below /sys/kernel)"},
	{"rofile", "an existing read-only file (mode 0444; for root: a read-only file of /sys/kernel)"},
	{"procfile", "/proc/version (opens for writing as root, every write fails with EIO)"},
	{"symloop", "<dir>/loop, a symbolic link to itself"},
	{"symloop2", "<dir>/a/out.<ext> where a -> b and b -> a"},
	{"dangling", "<dir>/dangling, a symbolic link into a directory that does not exist"},
	{"devnull", "/dev/null"},
	{"oddname", "<dir>/ -odd name<newline><tab>(non-ASCII)'\"*?.<ext> (creatable)"},
	{"noext", "<dir>/output-without-extension (creatable)"},
	{"relative", "out-relative.<ext> relative to the working directory (creatable)"},
	{"unclean", ".//sub/..//./out-unclean.<ext> (creatable)"},
}

func isOdd(target string) bool {
	for _, k := range oddKinds {
		if k.name == target {
			return true
		}
	}
	return false
}

func oddNames() []string {
	var ns []string
	for _, k := range oddKinds {
		ns = append(ns, k.name)
	}
	return ns
}

// targetDisplay: the path of a target, for messages (no side effects)
func targetDisplay(target, sink string) string {
	for _, k := range oddKinds {
		if k.name == target {
			return strings.ReplaceAll(k.what, "<ext>", sink)
		}
	}
	return targetPath(&Spec{Target: target, Sink: sink, Dir: "<dir>"}, 0)
}

var (
	oddMu    sync.Mutex
	oddCache = map[string]string{}
)

// writable: can this existing file be opened for writing (no truncation, nothing created)?
func writable(p string) bool {
	f, err := os.OpenFile(p, os.O_WRONLY, 0)
	if err != nil {
		return false
	}
	f.Close()
	return true
}

// oddPath builds the path of an odd target below dir (child process; the working directory of the
// child is dir) and sets up what it needs on disk.  Idempotent; one path per (target, sink).
func oddPath(target, dir, sink string) string {
	oddMu.Lock()
	defer oddMu.Unlock()
	ck := target + "/" + sink + "/" + dir
	if p, ok := oddCache[ck]; ok {
		return p
	}
	ext := "." + sink
	p := ""
	switch target {
	case "empty":
		p = ""
	case "slash":
		p = filepath.Join(dir, "out"+ext) + "/"
	case "dot":
		p = "."
	case "dotdot":
		p = ".."
	case "rootdir":
		p = "/"
	case "parentfile":
		a := filepath.Join(dir, "afile")
		if _, err := os.Lstat(a); err != nil {
			os.WriteFile(a, []byte("a regular file\n"), 0o644)
		}
		p = filepath.Join(a, "out"+ext)
	case "longname":
		p = filepath.Join(dir, strings.Repeat("a", 300)+ext)
	case "longpath":
		p = filepath.Join(dir, strings.Repeat(strings.Repeat("b", 200)+"/", 30), "out"+ext)
	case "nul":
		p = filepath.Join(dir, "out\x00"+ext)
	case "rodir":
		d := filepath.Join(dir, "rodir")
		os.Mkdir(d, 0o555)
		os.Chmod(d, 0o555)
		p = filepath.Join(d, "out"+ext)
		// root (CAP_DAC_OVERRIDE) creates files there all the same: then a directory that turns root down too
		t := filepath.Join(d, "probe")
		if f, err := os.OpenFile(t, os.O_WRONLY|os.O_CREATE|os.O_EXCL, 0o600); err == nil {
			f.Close()
			os.Remove(t)
			p = "/proc/out-c12" + ext // ENOENT
			if fi, err := os.Stat("/sys/kernel"); err == nil && fi.IsDir() {
				p = "/sys/kernel/out-c12" + ext // EACCES
			}
		}
	case "rofile":
		p = filepath.Join(dir, "rofile"+ext)
		if _, err := os.Lstat(p); err != nil {
			os.WriteFile(p, []byte("read-only\n"), 0o444)
		}
		if writable(p) {
			// root: a file root may not open for writing either
			for _, c := range []string{"/sys/kernel/notes", "/sys/kernel/uevent_seqnum", "/sys/kernel/fscaps", "/sys/kernel/kexec_loaded", "/sys/kernel/vmcoreinfo"} {
				if fi, err := os.Stat(c); err == nil && fi.Mode().IsRegular() && !writable(c) {
					p = c
					break
				}
			}
		}
	case "procfile":
		p = "/proc/version"
		if _, err := os.Stat(p); err != nil {
			p = "/dev/full"
		}
	case "symloop":
		p = filepath.Join(dir, "loop")
		os.Symlink(p, p)
	case "symloop2":
		a, b := filepath.Join(dir, "a"), filepath.Join(dir, "b")
		os.Symlink(b, a)
		os.Symlink(a, b)
		p = filepath.Join(a, "out"+ext)
	case "dangling":
		p = filepath.Join(dir, "dangling")
		os.Symlink(filepath.Join(dir, "nowhere", "out"+ext), p)
	case "devnull":
		p = "/dev/null"
	case "oddname":
		p = filepath.Join(dir, " -odd name\n\t✓é'\"*?"+ext)
	case "noext":
		p = filepath.Join(dir, "output-without-extension")
	case "relative":
		p = "out-relative" + ext
	case "unclean":
		os.MkdirAll(filepath.Join(dir, "sub"), 0o755)
		p = ".//sub/..//./out-unclean" + ext
	default:
		panic("unknown odd target " + target)
	}
	oddCache[ck] = p
	return p
}

func errClass(err error) string {
	if err == nil {
		return "ok"
	}
	if pe, ok := err.(*os.PathError); ok {
		if en, ok := pe.Err.(syscall.Errno); ok {
			return fmt.Sprintf("%s (errno %d)", en.Error(), int(en))
		}
		return pe.Err.Error()
	}
	s := err.Error()
	if len(s) > 80 {
		s = s[len(s)-80:]
	}
	return s
}

// probeCreate: what os.Create of the path and a first block written to it say, just before the
// call under test.  A file the probe itself created is removed again; one that existed is left
// (truncated, as the call under test is about to do itself).
func probeCreate(path string) (create, write string) {
	_, lerr := os.Lstat(path)
	existed := lerr == nil
	f, err := os.Create(path)
	if err != nil {
		return errClass(err), ""
	}
	_, werr := f.Write(make([]byte, 4096))
	if werr == nil {
		f.Truncate(0)
	}
	f.Close()
	if !existed {
		os.Remove(path)
	}
	return "ok", errClass(werr)
}

func shortPath(p string) string {
	q := fmt.Sprintf("%q", p)
	if len(q) > 120 {
		q = fmt.Sprintf("%s...%s (%d bytes)", q[:50], q[len(q)-40:], len(p))
	}
	return q
}

// ---- generators (parent)

// oddFaultSpecs: every path-taking entry point x every odd kind x scripted renderers (several
// batches; one batch sent by Close) and one real renderer
func oddFaultSpecs(tier string, tN, lN int) []Spec {
	var out []Spec
	rep := func(n, k int) []int {
		w := make([]int, k)
		for i := range w {
			w[i] = n
		}
		return w
	}
	for _, tg := range oddNames() {
		for _, sink := range []string{"stl", "3mf", "dxf", "svg"} {
			n := tN
			real, cells := "mcu", 10
			if !is3D("", sink) {
				n = lN
				real, cells = "ms", 24
			}
			out = append(out, Spec{Kind: "fault", Sink: sink, Renderer: "script", Writes: rep(n, 3), Target: tg})
			out = append(out, Spec{Kind: "fault", Sink: sink, Renderer: "script", Writes: []int{7}, Target: tg})
			out = append(out, Spec{Kind: "fault", Sink: sink, Renderer: real, Cells: cells, Target: tg})
			if tier != "quick" {
				out = append(out, Spec{Kind: "fault", Sink: sink, Renderer: "script", Writes: []int{}, Target: tg})
				out = append(out, Spec{Kind: "fault", Sink: sink, Renderer: "script", Writes: rep(1, 2*n+3), Target: tg})
				other := map[bool]string{true: "octree", false: "quadtree"}[is3D("", sink)]
				out = append(out, Spec{Kind: "fault", Sink: sink, Renderer: other, Cells: cells + 6, Target: tg})
			}
		}
	}
	return out
}

// oddHistories: one process calls an entry point with odd paths over and over.
//
//	(a) per entry point and kind: a good call, the odd call (warm-up), the odd call R more times,
//	    then good calls of every entry point of the dimension;
//	(b) per entry point: all kinds in turn, the whole round repeated (warm-up: two rounds);
//	(c) per dimension: entry point and kind drawn at random after a warm-up round over all of them,
//	    some steps with several concurrent calls.
func oddHistories(tier string, rng *Rng) []Spec {
	R := TierN(tier, 24, 100, 40)
	P := TierN(tier, 4, 12, 6)
	var out []Spec
	goods := map[bool][]string{true: {"stl", "3mf", "tri"}, false: {"dxf", "svg"}}
	kinds := oddNames()
	for _, sink := range []string{"stl", "3mf", "dxf", "svg"} {
		d3 := is3D("", sink)
		for ki, tg := range kinds {
			renderer, cells := "script", 0
			if ki%4 == 3 { // a real renderer now and then
				renderer, cells = map[bool]string{true: "mcu", false: "ms"}[d3], 10
			}
			f := Step{Sink: sink, Renderer: renderer, Cells: cells, Target: tg}
			steps := []Step{{Sink: sink, Renderer: renderer, Cells: cells, Target: "ok"}, f}
			for k := 0; k < R; k++ {
				steps = append(steps, f)
			}
			for _, g := range goods[d3] {
				steps = append(steps, Step{Sink: g, Renderer: renderer, Cells: cells, Target: "ok"})
			}
			out = append(out, Spec{Kind: "history", Label: "odd-path/" + tg, Steps: steps, Warmup: 2})
		}
		var round []Step
		round = append(round, Step{Sink: sink, Renderer: "script", Target: "ok"})
		for _, tg := range kinds {
			round = append(round, Step{Sink: sink, Renderer: "script", Target: tg})
		}
		out = append(out, Spec{Kind: "history", Label: "odd-path/all-kinds-in-turn", Steps: cyc(round, 2+P), Warmup: 2 * len(round), WarmMax: true, TimeoutMs: 20000})
	}
	for _, d3 := range []bool{true, false} {
		var warm []Step
		for _, g := range goods[d3] {
			warm = append(warm, Step{Sink: g, Renderer: "script", Target: "ok"})
			if g == "tri" {
				continue
			}
			for _, tg := range kinds {
				warm = append(warm, Step{Sink: g, Renderer: "script", Target: tg})
			}
		}
		warm = append(warm, Step{Sink: goods[d3][0], Renderer: "script", Target: "empty", Par: 3})
		steps := append([]Step{}, warm...)
		for k := 0; k < 3*R; k++ {
			st := Step{Sink: goods[d3][rng.Intn(2)], Renderer: "script", Target: kinds[rng.Intn(len(kinds))]}
			if rng.Intn(6) == 0 {
				st.Par = 2 + rng.Intn(2)
			}
			if rng.Intn(8) == 0 {
				st.Target = "ok"
			}
			steps = append(steps, st)
		}
		out = append(out, Spec{Kind: "history", Label: "odd-path/random", Steps: steps, Warmup: len(warm), WarmMax: true, TimeoutMs: 20000})
	}
	return out
}
