package main

// Verbatim copies of the pure-Go (non-assembly) bodies of exp, expmulti, log, log2,
// hypot and pow from $GOROOT/src/math (Go 1.23.5: exp.go, log.go, log10.go, hypot.go,
// pow.go).  On amd64 math.Exp, math.Log and math.Hypot dispatch to assembly
// (exp_amd64.s, log_amd64.s, hypot_amd64.s) and math.Pow / math.Log2 call those, so the
// pure-Go functions are not reachable through the public API; the Coq port
// (coq/Num/GoMath.v) is compared bit for bit with these copies and, within a stated
// number of ulp, with the public functions.  Frexp, Ldexp, Modf, Sqrt, Abs are the
// same code (or exact operations) on every platform and are called from package math.

import "math"

func pureExp(x float64) float64 {
	const (
		Ln2Hi = 6.93147180369123816490e-01
		Ln2Lo = 1.90821492927058770002e-10
		Log2e = 1.44269504088896338700e+00

		Overflow  = 7.09782712893383973096e+02
		Underflow = -7.45133219101941108420e+02
		NearZero  = 1.0 / (1 << 28) // 2**-28
	)

	// special cases
	switch {
	case math.IsNaN(x) || math.IsInf(x, 1):
		return x
	case math.IsInf(x, -1):
		return 0
	case x > Overflow:
		return math.Inf(1)
	case x < Underflow:
		return 0
	case -NearZero < x && x < NearZero:
		return 1 + x
	}

	// reduce; computed as r = hi - lo for extra precision.
	var k int
	switch {
	case x < 0:
		k = int(Log2e*x - 0.5)
	case x > 0:
		k = int(Log2e*x + 0.5)
	}
	hi := x - float64(k)*Ln2Hi
	lo := float64(k) * Ln2Lo

	// compute
	return pureExpmulti(hi, lo, k)
}

// exp1 returns e**r × 2**k where r = hi - lo and |r| ≤ ln(2)/2.
func pureExpmulti(hi, lo float64, k int) float64 {
	const (
		P1 = 1.66666666666666657415e-01  /* 0x3FC55555; 0x55555555 */
		P2 = -2.77777777770155933842e-03 /* 0xBF66C16C; 0x16BEBD93 */
		P3 = 6.61375632143793436117e-05  /* 0x3F11566A; 0xAF25DE2C */
		P4 = -1.65339022054652515390e-06 /* 0xBEBBBD41; 0xC5D26BF1 */
		P5 = 4.13813679705723846039e-08  /* 0x3E663769; 0x72BEA4D0 */
	)

	r := hi - lo
	t := r * r
	c := r - t*(P1+t*(P2+t*(P3+t*(P4+t*P5))))
	y := 1 - ((lo - (r*c)/(2-c)) - hi)
	// TODO(rsc): make sure Ldexp can handle boundary k
	return math.Ldexp(y, k)
}

func pureLog(x float64) float64 {
	const (
		Ln2Hi = 6.93147180369123816490e-01 /* 3fe62e42 fee00000 */
		Ln2Lo = 1.90821492927058770002e-10 /* 3dea39ef 35793c76 */
		L1    = 6.666666666666735130e-01   /* 3FE55555 55555593 */
		L2    = 3.999999999940941908e-01   /* 3FD99999 9997FA04 */
		L3    = 2.857142874366239149e-01   /* 3FD24924 94229359 */
		L4    = 2.222219843214978396e-01   /* 3FCC71C5 1D8E78AF */
		L5    = 1.818357216161805012e-01   /* 3FC74664 96CB03DE */
		L6    = 1.531383769920937332e-01   /* 3FC39A09 D078C69F */
		L7    = 1.479819860511658591e-01   /* 3FC2F112 DF3E5244 */
	)

	// special cases
	switch {
	case math.IsNaN(x) || math.IsInf(x, 1):
		return x
	case x < 0:
		return math.NaN()
	case x == 0:
		return math.Inf(-1)
	}

	// reduce
	f1, ki := math.Frexp(x)
	if f1 < math.Sqrt2/2 {
		f1 *= 2
		ki--
	}
	f := f1 - 1
	k := float64(ki)

	// compute
	s := f / (2 + f)
	s2 := s * s
	s4 := s2 * s2
	t1 := s2 * (L1 + s4*(L3+s4*(L5+s4*L7)))
	t2 := s4 * (L2 + s4*(L4+s4*L6))
	R := t1 + t2
	hfsq := 0.5 * f * f
	return k*Ln2Hi - ((hfsq - (s*(hfsq+R) + k*Ln2Lo)) - f)
}

func pureLog2(x float64) float64 {
	frac, exp := math.Frexp(x)
	// Make sure exact powers of two give an exact answer.
	// Don't depend on Log(0.5)*(1/Ln2)+exp being exactly exp-1.
	if frac == 0.5 {
		return float64(exp - 1)
	}
	return pureLog(frac)*(1/math.Ln2) + float64(exp)
}

func pureHypot(p, q float64) float64 {
	p, q = math.Abs(p), math.Abs(q)
	// special cases
	switch {
	case math.IsInf(p, 1) || math.IsInf(q, 1):
		return math.Inf(1)
	case math.IsNaN(p) || math.IsNaN(q):
		return math.NaN()
	}
	if p < q {
		p, q = q, p
	}
	if p == 0 {
		return 0
	}
	q = q / p
	return p * math.Sqrt(1+q*q)
}

func isOddInt(x float64) bool {
	if math.Abs(x) >= (1 << 53) {
		// 1 << 53 is the largest exact integer in the float64 format.
		// Any number outside this range will be truncated before the decimal point and therefore will always be
		// an even integer.
		// Without this check and if x overflows int64 the int64(xi) conversion below may produce incorrect results
		// on some architectures (and does so on arm64). See issue #57465.
		return false
	}

	xi, xf := math.Modf(x)
	return xf == 0 && int64(xi)&1 == 1
}

// purePow is pow.go's pow with Exp and Log replaced by the pure-Go exp and log.
func purePow(x, y float64) float64 {
	switch {
	case y == 0 || x == 1:
		return 1
	case y == 1:
		return x
	case math.IsNaN(x) || math.IsNaN(y):
		return math.NaN()
	case x == 0:
		switch {
		case y < 0:
			if math.Signbit(x) && isOddInt(y) {
				return math.Inf(-1)
			}
			return math.Inf(1)
		case y > 0:
			if math.Signbit(x) && isOddInt(y) {
				return x
			}
			return 0
		}
	case math.IsInf(y, 0):
		switch {
		case x == -1:
			return 1
		case (math.Abs(x) < 1) == math.IsInf(y, 1):
			return 0
		default:
			return math.Inf(1)
		}
	case math.IsInf(x, 0):
		if math.IsInf(x, -1) {
			return purePow(1/x, -y) // Pow(-0, -y)
		}
		switch {
		case y < 0:
			return 0
		case y > 0:
			return math.Inf(1)
		}
	case y == 0.5:
		return math.Sqrt(x)
	case y == -0.5:
		return 1 / math.Sqrt(x)
	}

	yi, yf := math.Modf(math.Abs(y))
	if yf != 0 && x < 0 {
		return math.NaN()
	}
	if yi >= 1<<63 {
		// yi is a large even int that will lead to overflow (or underflow to 0)
		// for all x except -1 (x == 1 was handled earlier)
		switch {
		case x == -1:
			return 1
		case (math.Abs(x) < 1) == (y > 0):
			return 0
		default:
			return math.Inf(1)
		}
	}

	// ans = a1 * 2**ae (= 1 for now).
	a1 := 1.0
	ae := 0

	// ans *= x**yf
	if yf != 0 {
		if yf > 0.5 {
			yf--
			yi++
		}
		a1 = pureExp(yf * pureLog(x))
	}

	// ans *= x**yi
	// by multiplying in successive squarings
	// of x according to bits of yi.
	// accumulate powers of two into exp.
	x1, xe := math.Frexp(x)
	for i := int64(yi); i != 0; i >>= 1 {
		if xe < -1<<12 || 1<<12 < xe {
			// catch xe before it overflows the left shift below
			// Since i !=0 it has at least one bit still set, so ae will accumulate xe
			// on at least one more iteration, ae += xe is a lower bound on ae
			// the lower bound on ae exceeds the size of a float64 exp
			// so the final call to math.Ldexp will produce under/overflow (0/Inf)
			ae += xe
			break
		}
		if i&1 == 1 {
			a1 *= x1
			ae += xe
		}
		x1 *= x1
		xe <<= 1
		if x1 < .5 {
			x1 += x1
			xe--
		}
	}

	// ans = a1*2**ae
	// if y < 0 { ans = 1 / ans }
	// but in the opposite order
	if y < 0 {
		a1 = 1 / a1
		ae = -ae
	}
	return math.Ldexp(a1, ae)
}
