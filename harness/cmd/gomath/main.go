package main

// GOMATH: correspondence of the Gallina port coq/Num/GoMath.v with Go's float64 math
// package.  For every ported function the real Go function is run on generated
// arguments (multiples and near-multiples of Pi/4, tiny, subnormal, huge, negative,
// +-0, +-Inf, NaN, random 53-bit mantissas, the neighbourhood of every branch
// constant, integers and half-integers, pairs in all quadrants ...) and the argument(s)
// and the 64 result bits are written as exact literals into cases_<fn>_<k>.v, which
// evaluate the port with vm_compute and print the ids where the bits differ.
//
// exp, log, log2, pow: the port follows the pure-Go functions, amd64 runs assembly for
// Exp and Log.  Each case carries both the bits of the pure-Go function (purego.go,
// must be equal) and the bits of the public function (must be within tolUlp).  The
// distance pure-Go vs public is also measured here on the same arguments.

import (
	"fmt"
	"math"
	"os"
	"path/filepath"
	"sort"
	"strings"

	. "verifharness/kit"
)

func main() { Main("GOMATH", checkGoMath) }

// ------------------------------------------------------------------ helpers

const nanBits = 0x7FF8000000000001

func fbits(x float64) uint64 {
	if math.IsNaN(x) {
		return nanBits
	}
	return math.Float64bits(x)
}
func zb(b uint64) string { return fmt.Sprintf("0x%x", b) }

// zlit prints an int64 as a Coq Z literal (hexadecimal: Coq parses it faster than decimal)
func zlit(z int64) string {
	if z < 0 {
		return fmt.Sprintf("(-0x%x)", -uint64(z))
	}
	return fmt.Sprintf("0x%x", z)
}

func okey(x float64) int64 {
	b := fbits(x)
	if b>>63 == 1 {
		return -int64(b &^ (1 << 63))
	}
	return int64(b)
}
func ulpDist(a, b float64) uint64 {
	d := okey(a) - okey(b)
	if d < 0 {
		return uint64(-d)
	}
	return uint64(d)
}

type arg struct {
	s    string // stratum
	x, y float64
}

type gen struct {
	rng *Rng
	out []arg
}

func (g *gen) add(s string, x float64)     { g.out = append(g.out, arg{s, x, 0}) }
func (g *gen) add2(s string, x, y float64) { g.out = append(g.out, arg{s, x, y}) }
func (g *gen) sign(x float64) float64      { return math.Copysign(x, float64(1-2*g.rng.Intn(2))) }
func (g *gen) mant() float64               { return 1 + float64(g.rng.U64()>>12)/(1<<52) } // random 53-bit significand in [1,2)
func (g *gen) rexp(lo, hi int) float64     { return math.Ldexp(g.mant(), g.rng.Range(lo, hi)) }
func (g *gen) srexp(lo, hi int) float64    { return g.sign(g.rexp(lo, hi)) }
func (g *gen) subnormal() float64 {
	return math.Float64frombits(g.rng.U64() >> uint(12+g.rng.Intn(52)))
}
func (g *gen) nudge(x float64, k int) float64 { return nudge(x, g.rng.Range(-k, k)) }

// nudge moves x by n units in the last place
func nudge(x float64, n int) float64 {
	for ; n > 0; n-- {
		x = math.Nextafter(x, math.Inf(1))
	}
	for ; n < 0; n++ {
		x = math.Nextafter(x, math.Inf(-1))
	}
	return x
}

var negZero = math.Copysign(0, -1)

func specials() []float64 {
	p := []float64{0, 1, 0.5, 2, 3, 0.25, 1.5, 2.5, 10, 100, 1e-14, 1e-7, 0.66, 0.7, 0.75, math.Sqrt2, math.Sqrt2 / 2,
		2.41421356237309504880, math.Pi, math.Pi / 2, math.Pi / 4, 3 * math.Pi / 4, 2 * math.Pi, math.E, math.Ln2,
		math.MaxFloat64, math.SmallestNonzeroFloat64, 0x1p-1022, nudge(0x1p-1022, -1), 0x1p-1074 * 3, 0x1p-28, 0x1p-27, 0x1p-26,
		0x1p29, nudge(0x1p29, -1), nudge(0x1p29, 1), 0x1p30, 0x1p31, 0x1p32, 0x1p52, 0x1p52 - 0.5, 0x1p52 + 1, 0x1p53, 0x1p53 - 1, 0x1p53 + 2,
		0x1p62, 0x1p63, nudge(0x1p63, -1), nudge(0x1p63, 1), 0x1p64, 1e300, 1e-300, 709.78, 709.79, 709.4361393, 745.13, 745.14, 1023, 1024, 1074, 1075,
		math.Inf(1)}
	var o []float64
	for _, x := range p {
		o = append(o, x, -x)
	}
	return append(o, math.NaN())
}

// common strata of one-argument functions
func (g *gen) common(n int) {
	for _, x := range specials() {
		g.add("special", x)
	}
	for i := 0; i < n; i++ {
		switch i % 8 {
		case 0:
			g.add("random(exp -60..40)", g.srexp(-60, 40))
		case 1:
			g.add("random(exp -4..10)", g.srexp(-4, 10))
		case 2:
			g.add("tiny", g.srexp(-1022, -27))
		case 3:
			g.add("subnormal", g.sign(g.subnormal()))
		case 4:
			g.add("huge", g.srexp(41, 1023))
		case 5:
			g.add("uniform(+-1000)", g.rng.Uniform(-1000, 1000))
		case 6:
			k := float64(g.rng.Range(-1<<20, 1<<20))
			switch g.rng.Intn(3) {
			case 0:
				g.add("integer", k)
			case 1:
				g.add("half-integer", k+0.5)
			default:
				g.add("integer+-ulps", g.nudge(k, 2))
			}
		default:
			g.add("random(all exponents)", g.srexp(-1022, 1023))
		}
	}
}

func (g *gen) trig(n int) {
	g.common(n / 3)
	for k := 0; k <= 64; k++ {
		for d := -2; d <= 2; d++ {
			g.add("k*Pi/4 (k<=64) +-2ulp", nudge(float64(k)*(math.Pi/4), d))
			g.add("k*Pi/4 (k<=64) +-2ulp", -nudge(float64(k)*math.Pi/4, d))
		}
	}
	m := n - len(g.out)
	for i := 0; i < m; i++ {
		switch i % 6 {
		case 0: // multiples of Pi/4 up to the Cody-Waite limit
			k := float64(g.rng.Range(0, 683565275)) // 2^29/(Pi/4)
			g.add("k*Pi/4 (k<2^29.3) +-3ulp", g.sign(g.nudge(k*(math.Pi/4), 3)))
		case 1:
			k := float64(g.rng.Range(0, 4000))
			g.add("k*Pi/4 (k<4000) +-3ulp", g.sign(g.nudge(k*math.Pi/4, 3)))
		case 2:
			g.add("near 2^29", g.sign(g.nudge(0x1p29, 40)))
		case 3:
			g.add("2^28..2^31", g.srexp(28, 30))
		case 4: // Payne-Hanek: multiples of Pi/4 far out
			k := float64(g.rng.U64() >> uint(11+g.rng.Intn(20)))
			g.add("k*Pi/4 (huge k) Payne-Hanek", g.sign(g.nudge(k*(math.Pi/4), 2)))
		default:
			g.add("Payne-Hanek all exponents", g.srexp(29, 1023))
		}
	}
}

func (g *gen) around(s string, c float64, n int) {
	for i := 0; i < n; i++ {
		if i%2 == 0 {
			g.add(s, g.nudge(c, 6))
		} else {
			g.add(s, c*(1+g.rng.Uniform(-1e-3, 1e-3)))
		}
	}
}

func (g *gen) atanArgs(n int) {
	g.common(n / 2)
	m := n - len(g.out)
	for i := 0; i < m; i++ {
		switch i % 5 {
		case 0:
			g.add("near 0.66", g.sign(g.nudge(0.66, 20)))
		case 1:
			g.add("near tan(3Pi/8)", g.sign(g.nudge(2.41421356237309504880, 20)))
		case 2:
			g.add("uniform(+-4)", g.rng.Uniform(-4, 4))
		case 3:
			g.add("near 1", g.sign(g.nudge(1, 20)))
		default:
			g.add("random(exp -30..30)", g.srexp(-30, 30))
		}
	}
}

func (g *gen) asinArgs(n int) {
	g.common(n / 4)
	m := n - len(g.out)
	for i := 0; i < m; i++ {
		switch i % 5 {
		case 0:
			g.add("uniform(+-1)", g.rng.Uniform(-1, 1))
		case 1:
			g.add("near 1", g.sign(g.nudge(1, 30)))
		case 2:
			g.add("near 0.7", g.sign(g.nudge(0.7, 30)))
		case 3:
			g.add("1-2^-k", g.sign(1-g.rexp(-52, -2)))
		default:
			g.add("small", g.srexp(-60, -1))
		}
	}
}

func (g *gen) roundArgs(n int) {
	g.common(n / 4)
	m := n - len(g.out)
	for i := 0; i < m; i++ {
		var k float64
		switch g.rng.Intn(4) {
		case 0:
			k = float64(g.rng.Range(-100, 100))
		case 1:
			k = float64(int64(g.rng.U64()>>uint(11+g.rng.Intn(52)))) * float64(1-2*g.rng.Intn(2))
		case 2:
			k = g.sign(0x1p52 - float64(g.rng.Range(0, 5)))
		default:
			k = g.sign(math.Ldexp(1, g.rng.Range(0, 54)))
		}
		switch i % 5 {
		case 0:
			g.add("integer", k)
		case 1:
			g.add("half-integer", k+0.5)
		case 2:
			g.add("integer+-ulps", g.nudge(k, 3))
		case 3:
			g.add("half-integer+-ulps", g.nudge(k+0.5, 3))
		default:
			g.add("uniform(-3..3)", g.rng.Uniform(-3, 3))
		}
	}
}

func (g *gen) sqrtArgs(n int) {
	g.common(n / 3)
	m := n - len(g.out)
	for i := 0; i < m; i++ {
		switch i % 3 {
		case 0:
			g.add("positive(all exponents)", g.rexp(-1022, 1023))
		case 1:
			k := float64(g.rng.U64() >> uint(38+g.rng.Intn(20)))
			g.add("perfect square +-ulp", g.nudge(k*k, 1))
		default:
			g.add("positive subnormal", g.subnormal())
		}
	}
}

func (g *gen) expArgs(n int) {
	g.common(n / 4)
	g.around("near Overflow", 7.09782712893383973096e+02, 40)
	g.around("near Underflow", -7.45133219101941108420e+02, 40)
	g.around("near amd64 +Inf threshold", 709.436139303104, 40)
	g.around("near 2^-28", 0x1p-28, 20)
	g.around("near -2^-28", -0x1p-28, 20)
	m := n - len(g.out)
	for i := 0; i < m; i++ {
		switch i % 5 {
		case 0:
			g.add("uniform(-746..710)", g.rng.Uniform(-746, 710))
		case 1:
			g.add("uniform(-20..20)", g.rng.Uniform(-20, 20))
		case 2:
			g.add("uniform(-746..-700) subnormal results", g.rng.Uniform(-746, -700))
		case 3:
			g.add("k*ln2/2 +-ulps", g.nudge(float64(g.rng.Range(-2150, 2050))*math.Ln2/2, 3))
		default:
			g.add("random(exp -40..9)", g.srexp(-40, 9))
		}
	}
}

func (g *gen) logArgs(n int) {
	g.common(n / 4)
	for k := -1021; k <= 1024; k += 1 {
		g.add("Sqrt2/2*2^k", math.Ldexp(math.Sqrt2/2, k))
	}
	m := n - len(g.out)
	for i := 0; i < m || i < 600; i++ {
		switch i % 6 {
		case 0:
			g.add("positive(all exponents)", g.rexp(-1022, 1023))
		case 1:
			g.add("1+-2^-k", 1+g.srexp(-52, -2))
		case 2:
			g.add("power of two +-ulps", g.nudge(math.Ldexp(1, g.rng.Range(-1022, 1023)), 2))
		case 3:
			g.add("positive subnormal", g.subnormal())
		case 4:
			g.add("Sqrt2/2*2^k +-ulps", g.nudge(math.Ldexp(math.Sqrt2/2, g.rng.Range(-1021, 1024)), 3))
		default:
			g.add("uniform(0..10)", g.rng.Uniform(0, 10))
		}
	}
}

// pairs
func (g *gen) pairsCommon(n int) {
	sp := specials()
	// every pair of the most special values, then sampled pairs of the rest
	core := []float64{0, negZero, 1, -1, 0.5, -0.5, 2, -2, 3, -3, math.Inf(1), math.Inf(-1), math.NaN(), math.MaxFloat64, -math.MaxFloat64,
		math.SmallestNonzeroFloat64, -math.SmallestNonzeroFloat64, 0x1p53, -0x1p53, 0x1p63, -0x1p63, 0x1p64, 1e300, 2.5, -2.5}
	for _, a := range core {
		for _, b := range core {
			g.add2("special x special", a, b)
		}
	}
	for i := 0; i < n/8; i++ {
		g.add2("special x special", sp[g.rng.Intn(len(sp))], sp[g.rng.Intn(len(sp))])
	}
	m := n/2 - len(g.out)
	for i := 0; i < m; i++ {
		switch i % 6 {
		case 0:
			g.add2("random quadrants (exp -60..40)", g.srexp(-60, 40), g.srexp(-60, 40))
		case 1:
			g.add2("random quadrants (exp -4..8)", g.srexp(-4, 8), g.srexp(-4, 8))
		case 2:
			a := g.srexp(-20, 20)
			g.add2("|x|=|y| +-ulps", a, g.sign(g.nudge(math.Abs(a), 2)))
		case 3:
			g.add2("special x random", sp[g.rng.Intn(len(sp))], g.srexp(-60, 40))
		case 4:
			g.add2("random x special", g.srexp(-60, 40), sp[g.rng.Intn(len(sp))])
		default:
			g.add2("random (all exponents)", g.srexp(-1022, 1023), g.srexp(-1022, 1023))
		}
	}
}

func (g *gen) pairArgs(n int) {
	g.pairsCommon(n)
	m := n - len(g.out)
	for i := 0; i < m; i++ {
		switch i % 4 {
		case 0:
			g.add2("uniform(+-100)^2", g.rng.Uniform(-100, 100), g.rng.Uniform(-100, 100))
		case 1:
			g.add2("subnormal x subnormal", g.sign(g.subnormal()), g.sign(g.subnormal()))
		case 2:
			g.add2("random x tiny", g.srexp(-10, 10), g.srexp(-1074, -500))
		default:
			g.add2("dyadic grid", g.rng.Dyadic(64, 3), g.rng.Dyadic(64, 3))
		}
	}
}

func (g *gen) fmodArgs(n int) {
	g.pairsCommon(n)
	m := n - len(g.out)
	for i := 0; i < m; i++ {
		switch i % 6 {
		case 0:
			g.add2("uniform(+-1000) mod uniform(+-10)", g.rng.Uniform(-1000, 1000), g.rng.Uniform(-10, 10))
		case 1:
			y := g.srexp(-10, 10)
			g.add2("x = k*y +-ulps", g.sign(g.nudge(float64(g.rng.Range(0, 1<<20))*math.Abs(y), 2)), y)
		case 2:
			g.add2("large quotient", g.srexp(100, 1023), g.srexp(-1074, 0))
		case 3:
			g.add2("subnormal divisor", g.srexp(-1060, -900), g.sign(g.subnormal()))
		case 4:
			g.add2("dyadic grid", g.rng.Dyadic(1024, 3), g.rng.Dyadic(16, 3))
		default:
			g.add2("mod 2Pi / Pi", g.rng.Uniform(-1e6, 1e6), []float64{2 * math.Pi, math.Pi, 360, 1}[g.rng.Intn(4)])
		}
	}
}

func (g *gen) powArgs(n int) {
	g.pairsCommon(n)
	m := n - len(g.out)
	for i := 0; i < m; i++ {
		switch i % 8 {
		case 0:
			g.add2("x>0 ^ uniform(+-8)", g.rexp(-8, 8), g.rng.Uniform(-8, 8))
		case 1:
			g.add2("x ^ small integer", g.srexp(-8, 8), float64(g.rng.Range(-40, 40)))
		case 2:
			g.add2("x ^ half-integer", g.srexp(-8, 8), float64(g.rng.Range(-40, 40))+0.5)
		case 3:
			g.add2("x ^ large integer", g.sign(1+g.rexp(-30, -1)), g.sign(float64(g.rng.U64()>>uint(1+g.rng.Intn(63)))))
		case 4:
			g.add2("overflow/underflow region", g.srexp(-100, 100), float64(g.rng.Range(-30, 30)))
		case 5:
			g.add2("x>0 ^ random(exp -10..10)", g.rexp(-30, 30), g.srexp(-10, 10))
		case 6:
			g.add2("x ^ y>=2^63", g.srexp(-2, 2), g.srexp(62, 70))
		default:
			g.add2("uniform(0..4) ^ uniform(0..4)", g.rng.Uniform(0, 4), g.rng.Uniform(0, 4))
		}
	}
}

// ------------------------------------------------------------------ cases files

type caseFile struct {
	kind, typ, fn, ufn string
	perShard           int
	items              []string
}

func (c *caseFile) write(dir string) error {
	for k, i := 0, 0; i < len(c.items) || k == 0; k, i = k+1, i+c.perShard {
		j := i + c.perShard
		if j > len(c.items) {
			j = len(c.items)
		}
		var b strings.Builder
		b.WriteString("From Coq Require Import List ZArith NArith Floats.\nImport ListNotations.\nFrom Sdfx Require Import Num.GoMath.\nOpen Scope Z_scope.\n")
		fmt.Fprintf(&b, "Definition cases : list (%s) := [\n", c.typ)
		b.WriteString(strings.Join(c.items[i:j], ";\n"))
		b.WriteString("\n].\n")
		fmt.Fprintf(&b, "Definition M_%s := Eval vm_compute in (%s cases).\nPrint M_%s.\n", c.kind, c.fn, c.kind)
		if c.ufn != "" {
			// (largest distance in ulp to the function amd64 really runs, number of differing cases)
			fmt.Fprintf(&b, "Definition U_%s := Eval vm_compute in (%s cases).\nPrint U_%s.\n", c.kind, c.ufn, c.kind)
		}
		if err := os.WriteFile(filepath.Join(dir, fmt.Sprintf("cases_%s_%d.v", c.kind, k)), []byte(b.String()), 0o644); err != nil {
			return err
		}
	}
	return nil
}

// ------------------------------------------------------------------ the check

type ulpStat struct {
	N       int     `json:"cases"`
	Differ  int     `json:"differing"`
	Max     uint64  `json:"max_ulp"`
	At      string  `json:"max_at"`
	Tol     uint64  `json:"tolerance_ulp"`
	Skipped int     `json:"outside_claimed_domain"`
	Hist    [10]int `json:"histogram_0_to_8_then_more"`
}

func checkGoMath(c *Ctx, r *Report) error {
	rng := NewRng(c.Seed)
	n := TierN(c.Tier, 3000, 50000, 12000)
	shard := TierN(c.Tier, 4000, 10000, 6000) // cases per file: coqc start-up and the compilation of the list dominate, not the evaluation
	id := 0
	var files []*caseFile
	nontrivial := func(xs ...float64) bool {
		for _, x := range xs {
			if x == 0 || math.IsNaN(x) || math.IsInf(x, 0) {
				return false
			}
		}
		return true
	}
	ulps := map[string]*ulpStat{}

	// one-argument functions, bit for bit
	type f1 struct {
		name string
		f    func(float64) float64
		gen  func(g *gen, n int)
	}
	exact1 := []f1{
		{"sin", math.Sin, (*gen).trig}, {"cos", math.Cos, (*gen).trig}, {"tan", math.Tan, (*gen).trig},
		{"atan", math.Atan, (*gen).atanArgs}, {"asin", math.Asin, (*gen).asinArgs}, {"acos", math.Acos, (*gen).asinArgs},
		{"floor", math.Floor, (*gen).roundArgs}, {"ceil", math.Ceil, (*gen).roundArgs}, {"trunc", math.Trunc, (*gen).roundArgs},
		{"round", math.Round, (*gen).roundArgs}, {"sqrt", math.Sqrt, (*gen).sqrtArgs}, {"fabs", math.Abs, (*gen).common},
		{"log_amd64", math.Log, (*gen).logArgs}, {"log2_amd64", math.Log2, (*gen).logArgs},
	}
	for _, f := range exact1 {
		g := &gen{rng: rng}
		f.gen(g, n)
		cf := &caseFile{kind: f.name, typ: "GoMath.case1", fn: "GoMath.mm_" + f.name, perShard: shard}
		for _, a := range g.out {
			id++
			res := f.f(a.x)
			cf.items = append(cf.items, fmt.Sprintf("(%d%%N, %s, %s)", id, CF(a.x), CF(res)))
			r.Case(f.name+"/"+a.s, fmt.Sprintf("%s:%x", f.name, a.x), nontrivial(a.x))
			if id%9973 == 1 {
				r.Sample(map[string]interface{}{"fn": f.name, "x": fmt.Sprintf("%x", a.x), "go_result": fmt.Sprintf("%x", res)})
			}
		}
		files = append(files, cf)
	}

	// exp, log, log2: pure-Go bits (exact) and public bits (within tol ulp)
	type f1u struct {
		name   string
		pure   func(float64) float64
		real   func(float64) float64
		gen    func(g *gen, n int)
		tol    uint64
		domain func(x float64) bool // where the public function is claimed to agree within tol
	}
	normalOrSpecial := func(x float64) bool { return !(x > 0 && x < 0x1p-1022) }
	ulp1 := []f1u{
		// math.Exp on amd64 rounds k = x*log2(e) to nearest and returns +Inf once k = 1024, i.e. for
		// x > 1023.5/log2(e) = 709.4361393..., although e^x is finite up to 709.78
		{"exp", pureExp, math.Exp, (*gen).expArgs, 2, func(x float64) bool { return !(x > 709.436139303 && x <= 7.09782712893383973096e+02) }},
		// math.Log on amd64 does not normalise subnormal arguments
		{"log", pureLog, math.Log, (*gen).logArgs, 1, normalOrSpecial},
		{"log2", pureLog2, math.Log2, (*gen).logArgs, 1, normalOrSpecial},
	}
	for _, f := range ulp1 {
		g := &gen{rng: rng}
		f.gen(g, n)
		cf := &caseFile{kind: f.name, typ: "GoMath.case1u", fn: "GoMath.mm_" + f.name, ufn: "GoMath.uu_" + f.name, perShard: shard}
		st := &ulpStat{Tol: f.tol}
		ulps[f.name] = st
		for _, a := range g.out {
			id++
			rp, rr := f.pure(a.x), f.real(a.x)
			stratum := f.name + "/" + a.s
			if !f.domain(a.x) {
				// outside the domain where the public function is claimed to agree: only the pure-Go bits are compared
				rr = rp
				st.Skipped++
				stratum = f.name + "/outside claimed agreement with amd64 assembly"
			} else {
				d := ulpDist(rp, rr)
				st.N++
				if d != 0 {
					st.Differ++
				}
				if d > 8 {
					st.Hist[9]++
				} else {
					st.Hist[d]++
				}
				if d > st.Max {
					st.Max, st.At = d, fmt.Sprintf("%x", a.x)
				}
				if d > f.tol {
					r.Violate(fmt.Sprintf("ulp:%s:%x", f.name, a.x), fmt.Sprintf("pure-Go %s(%x) = %x and math.%s = %x differ by %d ulp (> %d claimed)", f.name, a.x, rp, f.name, rr, d, f.tol),
						map[string]interface{}{"fn": f.name, "x": fmt.Sprintf("%x", a.x)})
				}
			}
			cf.items = append(cf.items, fmt.Sprintf("(%d%%N, %s, %s, %s)", id, CF(a.x), CF(rp), CF(rr)))
			r.Case(stratum, fmt.Sprintf("%s:%x", f.name, a.x), nontrivial(a.x))
		}
		files = append(files, cf)
	}

	// two-argument functions, bit for bit
	type f2 struct {
		name string
		f    func(float64, float64) float64
		gen  func(g *gen, n int)
	}
	exact2 := []f2{
		{"atan2", math.Atan2, (*gen).pairArgs}, {"fmin", math.Min, (*gen).pairArgs}, {"fmax", math.Max, (*gen).pairArgs},
		{"fmod", math.Mod, (*gen).fmodArgs}, {"hypot", math.Hypot, (*gen).pairArgs},
	}
	for _, f := range exact2 {
		g := &gen{rng: rng}
		f.gen(g, n)
		cf := &caseFile{kind: f.name, typ: "GoMath.case2", fn: "GoMath.mm_" + f.name, perShard: shard}
		for _, a := range g.out {
			id++
			res := f.f(a.x, a.y)
			if f.name == "hypot" && fbits(res) != fbits(pureHypot(a.x, a.y)) {
				r.Violate(fmt.Sprintf("hypot:%x,%x", a.x, a.y), "pure-Go hypot and math.Hypot (amd64 assembly) differ", map[string]interface{}{"x": a.x, "y": a.y})
			}
			cf.items = append(cf.items, fmt.Sprintf("(%d%%N, %s, %s, %s)", id, CF(a.x), CF(a.y), CF(res)))
			r.Case(f.name+"/"+a.s, fmt.Sprintf("%s:%x,%x", f.name, a.x, a.y), nontrivial(a.x, a.y))
			if id%9973 == 1 {
				r.Sample(map[string]interface{}{"fn": f.name, "x": fmt.Sprintf("%x", a.x), "y": fmt.Sprintf("%x", a.y), "go_result": fmt.Sprintf("%x", res)})
			}
		}
		files = append(files, cf)
	}

	// pow: pure-Go bits exact, math.Pow (which calls the assembly Exp and Log) within tol
	{
		const tol = 8
		g := &gen{rng: rng}
		g.powArgs(n)
		cf := &caseFile{kind: "pow", typ: "GoMath.case2u", fn: "GoMath.mm_pow", ufn: "GoMath.uu_pow", perShard: shard}
		st := &ulpStat{Tol: tol}
		ulps["pow"] = st
		for _, a := range g.out {
			id++
			rp, rr := purePow(a.x, a.y), math.Pow(a.x, a.y)
			stratum := "pow/" + a.s
			d := ulpDist(rp, rr)
			// the amd64 Exp/Log deviations (Exp = +Inf above 709.436, Log of a subnormal) reach Pow
			// only through Exp(yf*Log(x)) with |yf| <= 1/2: a subnormal x with a fractional y
			if a.x > 0 && a.x < 0x1p-1022 && a.y != math.Trunc(a.y) {
				rr = rp
				st.Skipped++
				stratum = "pow/outside claimed agreement with amd64 assembly"
			} else {
				st.N++
				if d != 0 {
					st.Differ++
				}
				if d > 8 {
					st.Hist[9]++
				} else {
					st.Hist[d]++
				}
				if d > st.Max {
					st.Max, st.At = d, fmt.Sprintf("%x,%x", a.x, a.y)
				}
				if d > tol {
					r.Violate(fmt.Sprintf("ulp:pow:%x,%x", a.x, a.y), fmt.Sprintf("pure-Go pow = %x and math.Pow = %x differ by %d ulp (> %d claimed)", rp, rr, d, tol),
						map[string]interface{}{"x": fmt.Sprintf("%x", a.x), "y": fmt.Sprintf("%x", a.y)})
				}
			}
			cf.items = append(cf.items, fmt.Sprintf("(%d%%N, %s, %s, %s, %s)", id, CF(a.x), CF(a.y), CF(rp), CF(rr)))
			r.Case(stratum, fmt.Sprintf("pow:%x,%x", a.x, a.y), nontrivial(a.x, a.y))
		}
		files = append(files, cf)
	}

	// float64(int64)
	{
		cf := &caseFile{kind: "of_Z", typ: "GoMath.caseZF", fn: "GoMath.mm_of_Z", perShard: shard}
		zs := []int64{0, 1, -1, 2, -2, math.MaxInt64, math.MinInt64, math.MaxInt64 - 1, math.MinInt64 + 1, 1 << 53, 1<<53 + 1, 1<<53 + 2, 1<<53 + 3, -(1<<53 + 1), -(1<<53 + 3),
			1<<54 + 2, 1<<54 + 6, 1<<62 + 1<<9, 1<<62 + 1<<9 + 1, 1<<63 - 512, 1<<63 - 513, 1<<63 - 1024, 1<<63 - 1025}
		strata := make([]string, len(zs))
		for i := range strata {
			strata[i] = "special"
		}
		for i := 0; len(zs) < n; i++ {
			var z int64
			var s string
			switch i % 4 {
			case 0:
				z, s = int64(rng.U64()>>uint(1+rng.Intn(63))), "random bit length"
			case 1: // round-to-even ties and their neighbours above 2^53
				sh := uint(rng.Range(1, 10))
				m := int64(rng.U64()>>11) | 1<<52
				z, s = m<<sh+(int64(1)<<(sh-1))+int64(rng.Range(-1, 1)), "tie +-1 above 2^53"
			case 2:
				z, s = int64(rng.Range(-1000000, 1000000)), "small"
			default:
				z, s = int64(rng.U64()>>1), "63 bits"
			}
			if rng.Bool() {
				z = -z
			}
			zs, strata = append(zs, z), append(strata, s)
		}
		for i, z := range zs {
			id++
			cf.items = append(cf.items, fmt.Sprintf("(%d%%N, %s, %s)", id, zlit(z), CF(float64(z))))
			r.Case("of_Z/"+strata[i], fmt.Sprintf("of_Z:%d", z), z != 0)
		}
		files = append(files, cf)
	}

	// int64(float64), classification, bit encoding
	{
		cz := &caseFile{kind: "to_Z", typ: "GoMath.caseFZ", fn: "GoMath.mm_to_Z", perShard: shard}
		cc := &caseFile{kind: "class", typ: "GoMath.caseFZ", fn: "GoMath.mm_class", perShard: shard}
		cb := &caseFile{kind: "bits", typ: "GoMath.caseFZ", fn: "GoMath.mm_bits", perShard: shard}
		g := &gen{rng: rng}
		g.common(n / 2)
		m := n - len(g.out)
		for i := 0; i < m; i++ {
			switch i % 3 {
			case 0:
				g.add("random(exp -2..62)", g.srexp(-2, 62))
			case 1:
				g.add("near +-2^63", g.sign(g.nudge(0x1p63, 3)))
			default:
				g.add("uniform(+-1e6)", g.rng.Uniform(-1e6, 1e6))
			}
		}
		for _, a := range g.out {
			id++
			x := a.x
			// int64(x): Go leaves the result implementation-defined outside the int64 range; amd64's
			// CVTTSD2SQ gives -2^63 there, which is what the port models
			z := int64(x)
			cz.items = append(cz.items, fmt.Sprintf("(%d%%N, %s, %s)", id, CF(x), zlit(z)))
			k := 0
			if math.IsNaN(x) {
				k = 1
			} else if math.IsInf(x, 0) {
				k = 2
			}
			cc.items = append(cc.items, fmt.Sprintf("(%d%%N, %s, %d)", id, CF(x), k))
			cb.items = append(cb.items, fmt.Sprintf("(%d%%N, %s, %s)", id, CF(x), zb(fbits(x))))
			r.Case("to_Z,class,bits/"+a.s, fmt.Sprintf("conv:%x", x), nontrivial(x))
		}
		files = append(files, cz, cc, cb)
	}

	for _, cf := range files {
		if err := cf.write(c.Out); err != nil {
			return err
		}
	}
	kinds := make([]string, 0, len(files))
	counts := map[string]int{}
	for _, cf := range files {
		kinds = append(kinds, cf.kind)
		counts[cf.kind] = len(cf.items)
	}
	sort.Strings(kinds)
	r.Coverage["cases_per_function"] = counts
	r.Coverage["pure_go_vs_public_function_ulp"] = ulps
	r.Rule = "per ported function: specials (+-0, +-Inf, NaN, +-1, MaxFloat64, smallest subnormal, every branch constant of the Go source and its neighbours), multiples of Pi/4 +- a few ulp up to and beyond the Cody-Waite limit 2^29, Payne-Hanek arguments over all exponents, tiny / subnormal / huge, random 53-bit significands with exponents -60..40 and -1022..1023, integers and half-integers +- ulps, pairs in all quadrants (special x special in full), exact multiples for fmod, integer / half-integer / huge exponents for pow, round-to-even ties for float64(int64). Non-trivial = all arguments finite and non-zero; distinct by (function, argument bits)."
	r.Trusted = append(r.Trusted,
		"hand port coq/Num/GoMath.v of Go 1.23.5 math (pure-Go sources) tied to the compiled library by differential execution, bit for bit (cases_<fn>_*.v)",
		"harness/cmd/gomath/purego.go: verbatim copies of the pure-Go exp, log, log2, pow, hypot bodies (amd64 dispatches math.Exp/Log/Hypot to assembly)",
		"the Go toolchain and CPU this check runs on: GOAMD64=v1 (no fused multiply-add in compiled Go code); math.Exp uses FMA instructions when the CPU has them")
	r.Assumptions = append(r.Assumptions,
		"exp, log, log2, pow follow the pure-Go algorithms: equal bit for bit to the pure-Go functions; against the public functions on amd64: exp <= 2 ulp for x <= 709.436 (math.Exp returns +Inf above although e^x is finite up to 709.78), log and log2 <= 1 ulp on normal arguments (math.Log mishandles subnormals on amd64; log_amd64 / log2_amd64 model the assembly bit for bit on every argument), pow <= 8 ulp (normally <= 2; the fractional-exponent branch calls Exp)",
		"to_Z models amd64's CVTTSD2SQ (-2^63 for NaN and out-of-range arguments); of_Z is float64(int64)",
		"NaN payloads and signs are not modelled: every NaN is compared as Go's canonical NaN")
	return nil
}
