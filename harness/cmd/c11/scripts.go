package main

// Scripted producers of the C11 harness that own the slice they hand to Write.
//
// pipe.Script3 / Script2 build a fresh slice for every Write and never look at it again, so a
// buffer (or a consumer) that keeps a reference to the caller's slice instead of copying the
// items cannot be told from one that copies.  The producers here behave like clients of an
// io.Writer: the slice belongs to the producer and is used again as soon as Write has returned.
//
//	refill   one scratch slice per producer: scratch = scratch[:0]; append the next items; Write(scratch)
//	poison   as refill, and after every Write the whole scratch array (up to its capacity) is
//	         overwritten with items that were never written (valid pointers, not nil)
//	windows  all items of a producer are laid out in ONE array up front; every Write passes the next
//	         window arr[off:off+n] - its spare capacity holds the producer's FUTURE items, so a
//	         buffer that appends into a slice it adopted destroys items that are yet to be written
//
// The items themselves (*sdf.Triangle3, *sdf.Line2) are never modified: the pointers are
// shared with the sink by design.  Base shifts the numbering (items ID(p, Base+k)): the file
// histories use it to tell the items of one step from the stale items of an earlier one.

import (
	"github.com/deadsy/sdfx/render"
	"github.com/deadsy/sdfx/sdf"
	"verifharness/kit/pipe"
)

var reuseModes = []string{"refill", "poison", "windows"}

// items that no producer ever writes (TriID / LineID reject them)
var poisonTri = &sdf.Triangle3{{X: 0.5, Y: 0.5, Z: 0.5}, {X: 0.625, Y: 0.5, Z: 0.5}, {X: 0.5, Y: 0.625, Z: 0.5}}
var poisonLine = &sdf.Line2{{X: 0.25, Y: 0.25}, {X: 0.375, Y: 0.125}}

const spareCap = 7 // unused capacity behind the longest batch of a scratch slice

// drive performs the Writes `sizes` of one producer in the given mode; mk builds item k (0-based
// within the producer), poison is the never-written item.
func drive[T any](sizes []int, mode string, mk func(k int) T, poison T, write func([]T) error) {
	total, longest := 0, 0
	for _, n := range sizes {
		total += n
		if n > longest {
			longest = n
		}
	}
	k := 0
	switch mode {
	case "windows":
		arr := make([]T, total)
		for i := range arr {
			arr[i] = mk(i)
		}
		for _, n := range sizes {
			write(arr[k : k+n]) // capacity reaches to the end of arr
			k += n
		}
	case "refill", "poison":
		scratch := make([]T, 0, longest+spareCap)
		for _, n := range sizes {
			scratch = scratch[:0]
			for i := 0; i < n; i++ {
				scratch = append(scratch, mk(k))
				k++
			}
			write(scratch)
			if mode == "poison" {
				full := scratch[:cap(scratch)]
				for i := range full {
					full[i] = poison
				}
			}
		}
	default: // a fresh slice per Write, nil for an empty one (what pipe.Script3 does)
		for _, n := range sizes {
			var b []T
			if n > 0 {
				b = make([]T, n)
				for i := range b {
					b[i] = mk(k)
					k++
				}
			}
			write(b)
		}
	}
}

// producers runs every producer (one: in the calling goroutine, several: concurrently)
func producers(n int, run func(p int)) {
	if n == 1 {
		run(0)
		return
	}
	done := make(chan struct{})
	for p := 0; p < n; p++ {
		go func(p int) { run(p); done <- struct{}{} }(p)
	}
	for p := 0; p < n; p++ {
		<-done
	}
}

type script3 struct {
	Producers [][]int
	Base      int
	Mode      string
}

func (r *script3) Info(sdf.SDF3) string { return "scripted (" + r.Mode + ")" }
func (r *script3) Render(_ sdf.SDF3, out sdf.Triangle3Writer) {
	producers(len(r.Producers), func(p int) {
		drive(r.Producers[p], r.Mode, func(k int) *sdf.Triangle3 { return pipe.Tri(pipe.ID(p, r.Base+k)) }, poisonTri, out.Write)
	})
	out.Close()
}

type script2 struct {
	Producers [][]int
	Base      int
	Mode      string
}

func (r *script2) Info(sdf.SDF2) string { return "scripted (" + r.Mode + ")" }
func (r *script2) Render(_ sdf.SDF2, out sdf.Line2Writer) {
	producers(len(r.Producers), func(p int) {
		drive(r.Producers[p], r.Mode, func(k int) *sdf.Line2 { return pipe.Line(pipe.ID(p, r.Base+k)) }, poisonLine, out.Write)
	})
	out.Close()
}

// render3 / render2: the renderer of a deliver case
func render3(sp Spec) render.Render3 {
	if sp.Reuse == "" {
		return &pipe.Script3{Producers: sp.Producers}
	}
	return &script3{Producers: sp.Producers, Mode: sp.Reuse}
}

func render2(sp Spec) render.Render2 {
	if sp.Reuse == "" {
		return &pipe.Script2{Producers: sp.Producers}
	}
	return &script2{Producers: sp.Producers, Mode: sp.Reuse}
}

// directLate3 / directLate2: the real buffer writes into a channel owned by the harness, whose
// consumer KEEPS the batches it receives and looks at their contents only after the renderer
// has finished and the channel is closed.  A batch that was sent belongs to the consumer
// ("fresh buffer after each send"): whatever the producer does to its own slices afterwards
// must not show.  This makes a retained reference visible without relying on a thread
// interleaving (pipe.Direct3 decodes a batch at once, usually before the producer gets to
// overwrite it).
func directLate3(r render.Render3) (batches [][]int, bad int) {
	c := make(chan []*sdf.Triangle3)
	done := make(chan struct{})
	var held [][]*sdf.Triangle3
	go func() {
		for ts := range c {
			held = append(held, ts)
		}
		close(done)
	}()
	r.Render(nil, sdf.NewTriangle3Buffer(c))
	close(c)
	<-done
	for _, ts := range held {
		b := make([]int, 0, len(ts))
		for _, t := range ts {
			id, ok := -1, false
			if t != nil {
				id, ok = pipe.TriID(t[0], t[1], t[2])
			}
			if !ok {
				id = -1
				bad++
			}
			b = append(b, id)
		}
		batches = append(batches, b)
	}
	return
}

func directLate2(r render.Render2) (batches [][]int, bad int) {
	c := make(chan []*sdf.Line2)
	done := make(chan struct{})
	var held [][]*sdf.Line2
	go func() {
		for ls := range c {
			held = append(held, ls)
		}
		close(done)
	}()
	r.Render(nil, sdf.NewLine2Buffer(c))
	close(c)
	<-done
	for _, ls := range held {
		b := make([]int, 0, len(ls))
		for _, l := range ls {
			id, ok := -1, false
			if l != nil {
				id, ok = pipe.LineID(l[0], l[1])
			}
			if !ok {
				id = -1
				bad++
			}
			b = append(b, id)
		}
		batches = append(batches, b)
	}
	return
}

// reuseSpecs: the producer-owned-slice stratum.  Write sizes below, at and above the threshold
// n, arriving at an empty and at a non-empty buffer, for every mode.
func reuseWrites(rng interface{ Intn(int) int }, n int) [][]int {
	pick := func() int {
		return []int{1, 2, n / 2, n - 1, n, n + 1, n + n/4, 2 * n, 2*n + 1, 3 * n}[rng.Intn(10)]
	}
	ws := [][]int{
		{n, n, n},                   // at the threshold, buffer empty every time
		{n + n/6, n + n/6, n + n/6}, // above, buffer empty every time (three "layers")
		{3, n, n, n - 3},            // at the threshold, buffer never empty
		{n - 1, n - 1, n - 1, 3},    // below; the second Write straddles
		{5, 5, 5, 5, 5, 5, 5},       // far below: everything sits in the buffer until Close
		{1, 2*n + 1, 1, 2*n + 1, n}, // large batches on a non-empty buffer
		{n, 0, n + 1, 0, 1, n, 2},   // empty Writes in between, flush then remainder
		{2 * n, n / 2, 2 * n, n / 2, 0},
	}
	for i := 0; i < 2; i++ {
		var w []int
		for k, m := 0, 3+rng.Intn(4); k < m; k++ {
			w = append(w, pick())
		}
		ws = append(ws, w)
	}
	return ws
}
