package main

// C11: whatever a renderer writes reaches the sink exactly once and (per producer) in
// order.  Model: coq/Sys/Buffer.v.  Scripted renderers write numbered triangles / lines
// through the REAL sdf.NewTriangle3Buffer / sdf.NewLine2Buffer into
//   - a channel owned by the harness (the batches themselves are visible),
//   - render.ToTriangles, ToSTL, To3MF, ToDXF, ToSVG (files decoded independently).

import (
	"encoding/json"
	"fmt"
	"hash/fnv"
	"os"
	"path/filepath"
	"sort"
	"strings"

	"github.com/deadsy/sdfx/render"
	"github.com/deadsy/sdfx/sdf"
	. "verifharness/kit"
	"verifharness/kit/pipe"
	"verifharness/sysgen"
)

func main() { Main("C11", checkC11, stateGen, GenBufferConsts, sysgen.Gen) }

type Spec struct {
	Sink      string  `json:"sink"`            // direct3 tri stl 3mf | direct2 dxf svg
	Producers [][]int `json:"producers"`       // sizes of the Writes of each producer goroutine
	Reuse     string  `json:"reuse,omitempty"` // "" fresh slice per Write | refill | poison | windows: the producer owns and re-uses the slice it hands to Write (scripts.go)
}

// OpSpec is a raw operation sequence on the real buffer: n >= 0 Write of n items, -1 Close.
type OpSpec struct {
	Dim int   `json:"dim"`
	Ops []int `json:"ops"`
}

// GeoSpec is a stream of segments with free geometry (chained, collinear, overlapping, repeated,
// zero-length ...) written in the given Write sizes by one producer: sinks direct2 dxf svg.
type GeoSpec struct {
	Sink    string     `json:"sink"`
	Pattern string     `json:"pattern,omitempty"` // how the stream was generated (information only)
	Segs    []pipe.Seg `json:"segs"`
	Writes  []int      `json:"writes"`
}

type corpusC11 struct {
	Specs []Spec     `json:"specs"`
	Ops   []OpSpec   `json:"ops"`
	Geo   []GeoSpec  `json:"geo"`
	Hist  []HistSpec `json:"hist"`
}

type replayFile struct {
	Failing []struct {
		Input json.RawMessage `json:"input"`
	} `json:"failing_inputs"`
}

func is3D(sink string) bool {
	switch sink {
	case "direct3", "tri", "stl", "3mf":
		return true
	}
	return false
}

// runs codes a list of ids as maximal runs of consecutive numbers
func runs(ids []int) string {
	var parts []string
	for i := 0; i < len(ids); {
		j := i + 1
		for j < len(ids) && ids[j] == ids[j-1]+1 {
			j++
		}
		parts = append(parts, fmt.Sprintf("(%d%%N, %d)", ids[i], j-i))
		i = j
	}
	return CList(parts)
}

func sizesKey(xs []int) string {
	var parts []string
	for i := 0; i < len(xs); {
		j := i
		for j < len(xs) && xs[j] == xs[i] {
			j++
		}
		if j-i == 1 {
			parts = append(parts, fmt.Sprint(xs[i]))
		} else {
			parts = append(parts, fmt.Sprintf("%dx%d", xs[i], j-i))
		}
		i = j
	}
	s := strings.Join(parts, ",")
	if len(s) > 40 {
		total := 0
		for _, n := range xs {
			total += n
		}
		h := fnv.New32a()
		h.Write([]byte(s))
		s = fmt.Sprintf("#%d-writes/%d-items/%08x", len(xs), total, h.Sum32())
	}
	return s
}

func specKey(sp Spec) string {
	ps := make([]string, len(sp.Producers))
	for i, p := range sp.Producers {
		ps[i] = sizesKey(p)
	}
	reuse := ""
	if sp.Reuse != "" {
		reuse = " slice=" + sp.Reuse
	}
	return fmt.Sprintf("deliver sink=%s%s producers=%d [%s]", sp.Sink, reuse, len(sp.Producers), strings.Join(ps, " | "))
}

// deliver runs one spec through the real code: delivered ids, batch lengths (direct sinks), count field (stl)
func deliver(sp Spec, dir string) (ids []int, batches []int, hasBatches bool, count int64, problem string) {
	count = -1
	path := filepath.Join(dir, "out."+sp.Sink)
	defer os.Remove(path)
	restore := pipe.Silence()
	defer restore()
	var err error
	switch sp.Sink {
	case "direct3":
		var bs [][]int
		var bad int
		if sp.Reuse == "" {
			bs, bad = pipe.Direct3(nil, render3(sp))
		} else { // the consumer keeps the batches and reads them when everything is over
			bs, bad = directLate3(render3(sp))
		}
		for _, b := range bs {
			batches = append(batches, len(b))
			ids = append(ids, b...)
		}
		hasBatches = true
		if bad > 0 {
			problem = fmt.Sprintf("%d triangles on the channel are not among those written", bad)
		}
	case "direct2":
		var bs [][]int
		var bad int
		if sp.Reuse == "" {
			bs, bad = pipe.Direct2(nil, render2(sp))
		} else {
			bs, bad = directLate2(render2(sp))
		}
		for _, b := range bs {
			batches = append(batches, len(b))
			ids = append(ids, b...)
		}
		hasBatches = true
		if bad > 0 {
			problem = fmt.Sprintf("%d lines on the channel are not among those written", bad)
		}
	case "tri":
		ts := render.ToTriangles(nil, render3(sp))
		for _, t := range ts {
			if t == nil { // a racing Write can leave a hole in a shared backing array: not among those written
				ids = append(ids, -1)
				continue
			}
			id, ok := pipe.TriID(t[0], t[1], t[2])
			if !ok {
				id = -1
			}
			ids = append(ids, id)
		}
	case "stl":
		render.ToSTL(nil, path, render3(sp))
		var c uint32
		var size int64
		ids, c, size, err = pipe.DecodeSTL(path)
		count = int64(c)
		if err == nil && size != 84+50*int64(c) {
			problem = fmt.Sprintf("STL header says %d triangles but the file holds %d bytes = %d records", c, size, (size-84)/50)
		}
	case "3mf":
		render.To3MF(nil, path, render3(sp))
		ids, err = pipe.Decode3MF(path)
	case "dxf":
		render.ToDXF(nil, path, render2(sp))
		ids, err = pipe.DecodeDXF(path)
	case "svg":
		render.ToSVG(nil, path, render2(sp))
		var all []int
		for p, ws := range sp.Producers {
			n := 0
			for _, w := range ws {
				n += w
			}
			for i := 0; i < n; i++ {
				all = append(all, pipe.ID(p, i))
			}
		}
		minX, maxY := pipe.Bounds2(all)
		ids, err = pipe.DecodeSVG(path, minX, maxY)
	default:
		problem = "unknown sink " + sp.Sink
	}
	if err != nil {
		problem = "cannot decode the output: " + err.Error()
	}
	return
}

// oracle: the property itself, decided in Go.  Returns "" or the first thing that is wrong.
func oracle(sp Spec, ids []int) string {
	want := make([]int, len(sp.Producers)) // items per producer
	for p, ws := range sp.Producers {
		for _, w := range ws {
			want[p] += w
		}
	}
	next := make([]int, len(sp.Producers)) // next expected sequence number per producer
	for pos, id := range ids {
		if id < 0 {
			return fmt.Sprintf("item at position %d of the delivered sequence is not one that was written", pos)
		}
		p, s := id>>pipe.TagShift, id&(1<<pipe.TagShift-1)
		if p >= len(next) || s >= want[p] {
			return fmt.Sprintf("delivered item (producer %d, index %d) at position %d was never written", p, s, pos)
		}
		switch {
		case s < next[p]:
			return fmt.Sprintf("item (producer %d, index %d) delivered again or out of order at position %d", p, s, pos)
		case s > next[p]:
			return fmt.Sprintf("item (producer %d, index %d) is missing or reordered: index %d arrived first, at position %d", p, next[p], s, pos)
		}
		next[p]++
	}
	for p := range next {
		if next[p] != want[p] {
			return fmt.Sprintf("lost: producer %d wrote %d items, only the first %d were delivered (%d items delivered in all)", p, want[p], next[p], len(ids))
		}
	}
	return ""
}

// runOps drives the real buffer with a raw operation sequence; returns the batches seen on the channel
func runOps(o OpSpec) [][]int {
	next := 0
	if o.Dim == 3 {
		c := make(chan []*sdf.Triangle3)
		done := make(chan [][]int)
		go func() {
			var bs [][]int
			for ts := range c {
				b := []int{}
				for _, t := range ts {
					id, ok := pipe.TriID(t[0], t[1], t[2])
					if !ok {
						id = -1
					}
					b = append(b, id)
				}
				bs = append(bs, b)
			}
			done <- bs
		}()
		w := sdf.NewTriangle3Buffer(c)
		for _, n := range o.Ops {
			if n < 0 {
				w.Close()
				continue
			}
			b := make([]*sdf.Triangle3, n)
			for i := range b {
				b[i] = pipe.Tri(next)
				next++
			}
			w.Write(b)
		}
		close(c)
		return <-done
	}
	c := make(chan []*sdf.Line2)
	done := make(chan [][]int)
	go func() {
		var bs [][]int
		for ls := range c {
			b := []int{}
			for _, l := range ls {
				id, ok := pipe.LineID(l[0], l[1])
				if !ok {
					id = -1
				}
				b = append(b, id)
			}
			bs = append(bs, b)
		}
		done <- bs
	}()
	w := sdf.NewLine2Buffer(c)
	for _, n := range o.Ops {
		if n < 0 {
			w.Close()
			continue
		}
		b := make([]*sdf.Line2, n)
		for i := range b {
			b[i] = pipe.Line(next)
			next++
		}
		w.Write(b)
	}
	close(c)
	return <-done
}

// deliverGeo runs a segment stream through the real code and returns what the sink holds
func deliverGeo(g GeoSpec, dir string) (got []pipe.Seg, batches []int, hasBatches bool, problem string) {
	path := filepath.Join(dir, "geo."+g.Sink)
	defer os.Remove(path)
	restore := pipe.Silence()
	defer restore()
	var err error
	rd := &pipe.GeoScript2{Segs: g.Segs, Writes: g.Writes}
	switch g.Sink {
	case "direct2":
		for _, b := range pipe.DirectSegs2(rd) {
			batches = append(batches, len(b))
			got = append(got, b...)
		}
		hasBatches = true
	case "dxf":
		render.ToDXF(nil, path, rd)
		got, err = pipe.DecodeDXFSegs(path)
	case "svg":
		render.ToSVG(nil, path, rd)
		minX, maxY := pipe.BoundsSegs(g.Segs)
		got, err = pipe.DecodeSVGSegs(path, minX, maxY)
	default:
		problem = "unknown sink " + g.Sink
	}
	if err != nil {
		problem = "cannot decode the output: " + err.Error()
	}
	return
}

// geoStream generates n segments of the named kind on the quarter grid (exact in the 2 decimals of
// the SVG writer and in DXF); (ox, oy) is the start.
func geoStream(rng *Rng, kind string, n int) []pipe.Seg {
	ox, oy := float64(rng.Range(-8, 8)), float64(rng.Range(-8, 8))
	q := func() float64 { return float64(rng.Range(-40, 40)) / 4 }
	var s []pipe.Seg
	x, y := ox, oy
	step := func(dx, dy float64) {
		s = append(s, pipe.Seg{x, y, x + dx, y + dy})
		x, y = x+dx, y+dy
	}
	switch kind {
	case "chain-x": // unit steps along an axis-aligned edge, end to end
		for i := 0; i < n; i++ {
			step(1, 0)
		}
	case "chain-y":
		for i := 0; i < n; i++ {
			step(0, -0.5)
		}
	case "chain-diag": // collinear, same direction, varying lengths
		for i := 0; i < n; i++ {
			k := float64(rng.Range(1, 3))
			step(0.5*k, 0.25*k)
		}
	case "outline": // closed rectangle walked in unit steps (what marching squares gives on a box)
		w := n/4 + 1
		for _, d := range [][2]float64{{1, 0}, {0, 1}, {-1, 0}, {0, -1}} {
			for i := 0; i < w && len(s) < n; i++ {
				step(d[0], d[1])
			}
		}
	case "reversed": // chained in space, but every segment points backwards
		for i := 0; i < n; i++ {
			s = append(s, pipe.Seg{x + 1, y, x, y})
			x++
		}
	case "back-forth": // a-b, b-a, a-b ...
		for i := 0; i < n; i++ {
			if i%2 == 0 {
				step(1.5, 0.5)
			} else {
				step(-1.5, -0.5)
			}
		}
	case "overlap": // collinear, each starts inside / at the start of the previous one
		for i := 0; i < n; i++ {
			l := float64(rng.Range(1, 4))
			s = append(s, pipe.Seg{x, y, x + l, y})
			x += float64(rng.Range(0, 2)) / 2
		}
	case "repeated": // identical segments, consecutively and again later
		a := pipe.Seg{ox, oy, ox + 1, oy + 0.25}
		b := pipe.Seg{ox + 1, oy + 0.25, ox + 2, oy + 0.5}
		for i := 0; i < n; i++ {
			if rng.Intn(4) == 0 {
				s = append(s, b)
			} else {
				s = append(s, a)
			}
		}
	case "zero": // zero-length segments alone, repeated and inside a chain
		for i := 0; i < n; i++ {
			switch rng.Intn(3) {
			case 0:
				step(0, 0)
			case 1:
				step(1, 0)
			default:
				s = append(s, pipe.Seg{x, y, x, y}, pipe.Seg{x, y, x, y})
			}
		}
		s = s[:n]
	case "grid": // random segments between few grid points: shared end points, collinear pairs, duplicates
		for i := 0; i < n; i++ {
			s = append(s, pipe.Seg{ox + float64(rng.Intn(3)), oy + float64(rng.Intn(3)), ox + float64(rng.Intn(3)), oy + float64(rng.Intn(3))})
		}
	case "zigzag": // chained, never collinear
		for i := 0; i < n; i++ {
			step(1, float64(1-2*(i%2)))
		}
	default: // "random"
		for i := 0; i < n; i++ {
			s = append(s, pipe.Seg{q(), q(), q(), q()})
		}
	}
	return s
}

var geoKinds = []string{"chain-x", "chain-y", "chain-diag", "outline", "reversed", "back-forth", "overlap", "repeated", "zero", "grid", "zigzag", "random"}

func checkC11(c *Ctx, r *Report) error {
	rng := NewRng(c.Seed)
	tN, lN, err := BufferConsts(c.Repo)
	if err != nil {
		return err
	}
	if tN < 1 || lN < 1 {
		return fmt.Errorf("thresholds %d %d: the model needs 1 <= N", tN, lN)
	}
	scratch := filepath.Join(c.Out, "scratch")
	if err := os.MkdirAll(scratch, 0o755); err != nil {
		return err
	}
	defer os.RemoveAll(scratch)
	imports := "From Sdfx Require Import Sys.Buffer Generated.BufferConsts.\nOpen Scope nat_scope."
	cd := &Cases{Kind: "deliver", Imports: imports, Type: "Buffer.case", Fn: "Buffer.mismatches", PerShard: 60}
	co := &Cases{Kind: "ops", Imports: imports, Type: "Buffer.opcase", Fn: "Buffer.mismatches_ops", PerShard: 150}
	id := 0
	bySink := map[string]int{}
	multi := 0

	// once the report is full (Violate keeps 50) further cases add nothing: a broken tree is not driven on
	full := func() bool { return len(r.Violations) >= 50 }

	doSpec := func(stratum string, sp Spec) {
		if full() {
			return
		}
		id++
		ids, batches, hasB, count, problem := deliver(sp, scratch)
		key := specKey(sp)
		total := 0
		for _, ws := range sp.Producers {
			for _, w := range ws {
				total += w
			}
		}
		r.Case(stratum, key, total > 0)
		bySink[sp.Sink]++
		if len(sp.Producers) > 1 {
			multi++
		}
		if problem == "" {
			problem = oracle(sp, ids)
		}
		if problem == "" && count >= 0 && count != int64(len(ids)) {
			problem = fmt.Sprintf("STL count field %d but %d triangles written", count, len(ids))
		}
		if problem != "" {
			r.Violate(key, fmt.Sprintf("%s: %s (%d items written by %d producer(s))", sp.Sink, problem, total, len(sp.Producers)), sp)
		}
		// the same case for the model
		thr := "tBufferSize"
		if !is3D(sp.Sink) {
			thr = "lBufferSize"
		}
		pss := make([]string, len(sp.Producers))
		for p, ws := range sp.Producers {
			seq := 0
			wl := make([]string, len(ws))
			for i, w := range ws {
				if w == 0 {
					wl[i] = "[]"
				} else {
					wl[i] = fmt.Sprintf("[(%d%%N, %d)]", pipe.ID(p, seq), w)
				}
				seq += w
			}
			pss[p] = CList(wl)
		}
		for i := range ids {
			if ids[i] < 0 {
				ids[i] = 1<<40 + i // not an item of any producer: the model's checker rejects it
			}
		}
		bterm := "None"
		if hasB {
			bs := make([]string, len(batches))
			for i, b := range batches {
				bs[i] = fmt.Sprint(b)
			}
			bterm = "(Some " + CList(bs) + ")"
		}
		cterm := "None"
		if count >= 0 {
			cterm = fmt.Sprintf("(Some %d%%N)", count)
		}
		cd.Add(fmt.Sprintf("(%d%%N, %s, %s, %s, %s, %s)", id, thr, CList(pss), runs(ids), bterm, cterm))
		if id%61 == 1 {
			r.Sample(map[string]interface{}{"case": key, "delivered": len(ids), "batches": batches, "count_field": count})
		}
	}
	doOps := func(stratum string, o OpSpec) {
		if full() {
			return
		}
		id++
		bs := runOps(o)
		n, thr := tN, "tBufferSize"
		if o.Dim != 3 {
			n, thr = lN, "lBufferSize"
		}
		key := fmt.Sprintf("ops dim=%d %s", o.Dim, sizesKey(o.Ops))
		r.Case(stratum, key, len(o.Ops) > 1)
		// oracle: nothing lost/duplicated/reordered among what was handed over; after a Close nothing pending
		pos, written, closedAt := 0, 0, -1
		for i, op := range o.Ops {
			if op >= 0 {
				written += op
			} else {
				closedAt = written
				_ = i
			}
		}
		for _, b := range bs {
			for _, x := range b {
				if x != pos {
					r.Violate(key, fmt.Sprintf("item %d expected at position %d of the channel traffic, found %d", pos, pos, x), o)
					pos = -1 << 30
				}
				pos++
			}
			if len(b) == 0 {
				r.Violate(key, "an empty batch was sent on the channel", o)
			}
		}
		if pos >= 0 && (pos < closedAt || pos > written || written-pos >= n) {
			r.Violate(key, fmt.Sprintf("%d items written (%d before the last Close), %d handed over", written, closedAt, pos), o)
		}
		ops := make([]string, len(o.Ops))
		for i, op := range o.Ops {
			if op < 0 {
				ops[i] = "None"
			} else {
				ops[i] = fmt.Sprintf("Some %d", op)
			}
		}
		obs := make([]string, len(bs))
		for i, b := range bs {
			obs[i] = runs(b)
		}
		co.Add(fmt.Sprintf("(%d%%N, %s, %s, %s)", id, thr, CList(ops), CList(obs)))
	}

	geoCases := 0
	doGeo := func(stratum string, g GeoSpec) {
		if full() {
			return
		}
		id++
		geoCases++
		got, batches, hasB, problem := deliverGeo(g, scratch)
		h := fnv.New32a()
		for _, sg := range g.Segs {
			fmt.Fprintf(h, "%v", sg)
		}
		key := fmt.Sprintf("segments sink=%s pattern=%s n=%d writes=[%s] #%08x", g.Sink, g.Pattern, len(g.Segs), sizesKey(g.Writes), h.Sum32())
		r.Case(stratum, key, len(g.Segs) > 1)
		bySink[g.Sink]++
		// the property: the sink holds exactly the segments written, each once, in order
		ids := make([]int, len(got))
		used := make([]bool, len(g.Segs))
		firstBad := -1
		for i, sg := range got {
			ids[i] = 1<<40 + i
			if i < len(g.Segs) && g.Segs[i] == sg {
				ids[i], used[i] = i, true
				continue
			}
			if firstBad < 0 {
				firstBad = i
			}
		}
		for i := range got { // items that arrived out of place: match them to an unused written one (for the model)
			if ids[i] < 1<<40 {
				continue
			}
			for j, sg := range g.Segs {
				if !used[j] && sg == got[i] {
					ids[i], used[j] = j, true
					break
				}
			}
		}
		if problem == "" && (firstBad >= 0 || len(got) != len(g.Segs)) {
			k := firstBad
			if k < 0 {
				k = len(got)
			}
			problem = fmt.Sprintf("%d segments written, %d in the sink; first difference at position %d:", len(g.Segs), len(got), k)
			if k < len(g.Segs) {
				problem += fmt.Sprintf(" written %v", g.Segs[k])
			} else {
				problem += " nothing written"
			}
			if k < len(got) {
				problem += fmt.Sprintf(", found %v", got[k])
			} else {
				problem += ", nothing found"
			}
		}
		if problem != "" {
			r.Violate(key, fmt.Sprintf("%s: %s", g.Sink, problem), g)
		}
		// the same case for the model: one producer, items numbered by position
		wl := []string{}
		seq := 0
		ws := append([]int{}, g.Writes...)
		ws = append(ws, len(g.Segs)) // the left-over Write of GeoScript2
		for _, w := range ws {
			if w > len(g.Segs)-seq {
				w = len(g.Segs) - seq
			}
			if w == 0 {
				wl = append(wl, "[]")
			} else {
				wl = append(wl, fmt.Sprintf("[(%d%%N, %d)]", seq, w))
			}
			seq += w
		}
		bterm := "None"
		if hasB {
			bs := make([]string, len(batches))
			for i, b := range batches {
				bs[i] = fmt.Sprint(b)
			}
			bterm = "(Some " + CList(bs) + ")"
		}
		cd.Add(fmt.Sprintf("(%d%%N, lBufferSize, %s, %s, %s, None)", id, CList([]string{CList(wl)}), runs(ids), bterm))
		if geoCases%97 == 1 {
			r.Sample(map[string]interface{}{"case": key, "written": len(g.Segs), "in_sink": len(got), "first_segments": g.Segs[:min(3, len(g.Segs))]})
		}
	}

	histCases, histSteps := 0, 0
	doHist := func(stratum string, h HistSpec) {
		if full() {
			return
		}
		obs := runHist(h, scratch)
		key := histKey(h)
		histCases++
		nontrivial := false
		for k, st := range h.Steps {
			if k > 0 && st.Via != "bytes" {
				nontrivial = true
			}
		}
		r.Case(stratum, key, nontrivial)
		bySink["history-"+h.Format]++
		thr := "tBufferSize"
		if h.Format == "dxf" || h.Format == "svg" {
			thr = "lBufferSize"
		}
		for _, o := range obs {
			id++
			histSteps++
			if o.Bad != "" {
				before := "a fresh path"
				if o.Step > 0 {
					before = "the file left by the steps before"
				}
				r.Violate(key, fmt.Sprintf("%s: step %d (%s over %s): %s", h.Format, o.Step, h.Steps[o.Step].Via, before, o.Bad), h)
			}
			if o.Want != nil {
				cd.Add(histTerm(id, thr, o))
			}
		}
		if histCases%53 == 1 && len(obs) > 0 {
			last := obs[len(obs)-1]
			r.Sample(map[string]interface{}{"case": key, "written_by_last_step": len(last.Want), "found_in_file": len(last.Got), "count_field": last.Count})
		}
	}

	var corpus corpusC11
	if b, err := os.ReadFile(filepath.Join(c.Verif, "corpus", "C11.json")); err == nil {
		if err := json.Unmarshal(b, &corpus); err != nil {
			return fmt.Errorf("corpus/C11.json: %v", err)
		}
	}
	if c.Replay != "" {
		var rf replayFile
		b, err := os.ReadFile(c.Replay)
		if err != nil {
			return err
		}
		if err := json.Unmarshal(b, &rf); err != nil {
			return err
		}
		for _, f := range rf.Failing {
			var sp Spec
			var o OpSpec
			var g GeoSpec
			var h HistSpec
			if json.Unmarshal(f.Input, &h) == nil && h.Format != "" && h.Steps != nil {
				doHist("replay", h)
			} else if json.Unmarshal(f.Input, &g) == nil && g.Sink != "" && g.Segs != nil {
				doGeo("replay", g)
			} else if json.Unmarshal(f.Input, &sp) == nil && sp.Sink != "" {
				doSpec("replay", sp)
			} else if json.Unmarshal(f.Input, &o) == nil && o.Dim != 0 {
				doOps("replay", o)
			}
		}
	} else {
		for _, sp := range corpus.Specs {
			doSpec("corpus", sp)
		}
		for _, o := range corpus.Ops {
			doOps("corpus", o)
		}
		for _, g := range corpus.Geo {
			doGeo("corpus", g)
		}
		for _, h := range corpus.Hist {
			doHist("corpus", h)
		}

		// ---- generated
		partition := func(kind string, total, n int) []int {
			var w []int
			switch kind {
			case "one-write":
				w = []int{total}
			case "singles":
				for i := 0; i < total; i++ {
					w = append(w, 1)
				}
			case "mc-like": // 0..5 items per write, most writes empty (marching cubes / squares)
				for s := 0; s < total; {
					k := 0
					if rng.Intn(3) == 0 {
						k = rng.Range(1, 5)
						if k > total-s {
							k = total - s
						}
					}
					w = append(w, k)
					s += k
				}
				w = append(w, 0, 0)
			case "straddle": // pieces around the threshold
				for s := 0; s < total; {
					k := []int{n - 1, 1, n, n + 1, 2, n - 2, 2*n + 1}[rng.Intn(7)]
					if k < 0 {
						k = 0
					}
					if k > total-s {
						k = total - s
					}
					if k == 0 {
						k = 1
					}
					w = append(w, k)
					s += k
				}
			case "chunks":
				for s := 0; s < total; {
					k := rng.Range(0, 2*n)
					if k > total-s {
						k = total - s
					}
					w = append(w, k)
					s += k
				}
			case "empties":
				w = []int{0, 0}
				for s := 0; s < total; {
					k := rng.Range(1, n)
					if k > total-s {
						k = total - s
					}
					w = append(w, k, 0)
					s += k
				}
			}
			return w
		}
		kinds := []string{"one-write", "singles", "mc-like", "straddle", "chunks", "empties"}
		sinks3 := []string{"direct3", "tri", "stl", "3mf"}
		sinks2 := []string{"direct2", "dxf", "svg"}
		large := TierN(c.Tier, 12, 60, 30)
		countsFor := func(n int) []int {
			return []int{0, 1, 2, n - 1, n, n + 1, 2*n - 1, 2 * n, 2*n + 1, 3 * n, 5*n - 1, 5 * n, 5*n + 1, large*n + rng.Intn(n)}
		}
		// single producer: every count x every partition shape x every sink
		for _, dim := range []int{3, 2} {
			n, sinks := tN, sinks3
			if dim == 2 {
				n, sinks = lN, sinks2
			}
			for _, total := range countsFor(n) {
				for _, kind := range kinds {
					if kind == "singles" && total > 6*n {
						continue
					}
					for _, sink := range sinks {
						if (sink == "3mf" || sink == "dxf") && total > 6*n && c.Tier == "quick" && kind != "mc-like" {
							continue
						}
						doSpec(fmt.Sprintf("single/%s/%s", sink, kind), Spec{Sink: sink, Producers: [][]int{partition(kind, total, n)}})
					}
				}
			}
		}
		// producers that own the slice they hand to Write and use it again afterwards (refill / overwrite /
		// windows of one array): batches below, at and above the threshold, on an empty and a non-empty buffer
		for _, dim := range []int{3, 2} {
			n, sinks := tN, sinks3
			if dim == 2 {
				n, sinks = lN, sinks2
			}
			for _, mode := range reuseModes {
				for _, ws := range reuseWrites(rng, n) {
					for _, sink := range sinks {
						doSpec(fmt.Sprintf("slice-reuse/%s/%s", sink, mode), Spec{Sink: sink, Producers: [][]int{ws}, Reuse: mode})
					}
				}
			}
		}
		// several producers
		nm := TierN(c.Tier, 300, 1500, 600)
		for k := 0; k < nm; k++ {
			dim := 3
			n, sinks := tN, sinks3
			if k%3 == 2 {
				dim, n, sinks = 2, lN, sinks2
			}
			np := rng.Range(2, 8)
			ps := make([][]int, np)
			for p := range ps {
				total := []int{0, 1, n - 1, n, n + 1, rng.Range(0, 3*n), rng.Range(0, 40), 2*n + 1}[rng.Intn(8)]
				ps[p] = partition(kinds[rng.Intn(len(kinds))], total, n)
			}
			sink := sinks[k%len(sinks)]
			if dim == 2 { // k = 2, 5, 8, ...: k % 3 is constant
				sink = sinks[(k/3)%len(sinks)]
			}
			sp := Spec{Sink: sink, Producers: ps}
			if k%5 == 4 { // some of the concurrent producers own and re-use their slices
				sp.Reuse = reuseModes[(k/5)%len(reuseModes)]
			}
			doSpec(fmt.Sprintf("multi/%s/producers<=%d", sink, (np+3)/4*4), sp)
		}
		// file histories: the target path is not fresh, a drawing object is saved again
		for _, hc := range genHist(rng, c.Tier, tN, lN, scratch) {
			doHist(hc.Stratum, hc.Spec)
		}
		// segment streams with free geometry (end-to-end collinear chains, reversed, overlapping,
		// repeated, zero-length ...) to every 2D sink
		geoN := []int{1, 2, 3, 7, lN - 1, lN + 2}
		if c.Tier != "quick" {
			geoN = append(geoN, lN, 2*lN+1, 5*lN+3)
		}
		for _, kind := range geoKinds {
			for _, n := range geoN {
				segs := geoStream(rng, kind, n)
				for k, sink := range sinks2 {
					var ws []int
					switch (k + n) % 3 {
					case 0: // one Write
					case 1: // one by one
						for i := 0; i < len(segs); i++ {
							ws = append(ws, 1)
						}
					default: // chunks, empty Writes in between
						for left := len(segs); left > 0; {
							w := rng.Range(0, lN/2+2)
							ws = append(ws, w)
							left -= w
						}
					}
					doGeo(fmt.Sprintf("segments/%s/%s", sink, kind), GeoSpec{Sink: sink, Pattern: kind, Segs: segs, Writes: ws})
				}
			}
		}
		// raw operation sequences: writes after Close, repeated Close, nothing but Close, no Close at all
		no := TierN(c.Tier, 400, 2000, 800)
		for k := 0; k < no; k++ {
			dim, n := 3, tN
			if k%2 == 1 {
				dim, n = 2, lN
			}
			var ops []int
			for i, m := 0, rng.Range(0, 14); i < m; i++ {
				switch rng.Intn(6) {
				case 0:
					ops = append(ops, -1)
				case 1:
					ops = append(ops, 0)
				case 2:
					ops = append(ops, []int{n - 1, n, n + 1, 2 * n, 2*n + 1}[rng.Intn(5)])
				default:
					ops = append(ops, rng.Range(1, n/2+1))
				}
			}
			if k%4 != 3 {
				ops = append(ops, -1)
			}
			doOps(fmt.Sprintf("ops/dim%d", dim), OpSpec{Dim: dim, Ops: ops})
		}
	}
	if err := cd.Write(c.Out); err != nil {
		return err
	}
	if err := co.Write(c.Out); err != nil {
		return err
	}
	sk := make([]string, 0, len(bySink))
	for s := range bySink {
		sk = append(sk, s)
	}
	sort.Strings(sk)
	r.Coverage["cases_by_sink"] = bySink
	r.Coverage["multi_producer_cases"] = multi
	r.Coverage["segment_stream_cases"] = geoCases
	r.Coverage["file_history_cases"] = histCases
	r.Coverage["file_history_steps_read_back"] = histSteps
	r.Coverage["thresholds"] = map[string]int{"tBufferSize": tN, "lBufferSize": lN}
	r.Rule = "deliver cases: scripted Render3/Render2 writing numbered items (id = producer<<20 | index) through the real sdf.NewTriangle3Buffer / NewLine2Buffer into a harness-owned channel (batches visible) or render.ToTriangles / ToSTL / To3MF / ToDXF / ToSVG (files decoded by an own STL reader, go3mf's reader, yofu/dxf's parser, encoding/xml); item counts 0,1,2,N-1,N,N+1,2N-1,2N,2N+1,3N,5N-1,5N,5N+1,large; Write partitions one-write / singles / marching-cubes-like (0..5, mostly empty) / straddling the threshold / random chunks up to 2N / empty writes in between; 1..8 concurrent producers. segment cases: streams of segments with free geometry on the quarter grid (unit steps end to end along an axis, along a diagonal, a closed box outline, chained but reversed, back and forth, collinear overlapping, identical repeated, zero-length, random on 3x3 grid points, zig-zag, random) of 1,2,3,7,N-1,N+2 segments written in one Write / one by one / random chunks to the Line2Buffer collector, ToDXF and ToSVG: the sink must hold exactly the written segments, each once, in order. slice-reuse cases: the same sinks fed by producers that OWN the slice they hand to Write and use it again as soon as Write has returned - one scratch slice refilled for the next batch (refill), the whole scratch array overwritten with never-written items after every Write (poison), consecutive windows of one array holding all items so that a window's spare capacity is the producer's future items (windows) - with batches below, at and above the threshold arriving at an empty and at a non-empty buffer; the direct sinks of these cases keep the batches they receive and read them only after the channel is closed (a sent batch belongs to the consumer), so a buffer or collector that keeps the caller's slice instead of the items shows without relying on an interleaving; some multi-producer cases use these producers too. history cases: every file sink (STL, 3MF, DXF, SVG) through its streaming entry point To* and its batch entry points SaveSTL / SaveDXF / SaveSVG / NewDXF..Save / NewSVG..Save writing to a path that is NOT fresh: an earlier valid file of the same format that is longer / shorter / equally long, written by the same or by another entry point in the same process; an empty output over a non-empty file; arbitrary bytes (zero, 0xff, text, pseudo-random) that are absent / shorter / as long / one byte longer / much longer than the new output; histories of 3..6 such steps; one DXF / SVG drawing object saved twice, with lines added after a save, with another entry point or garbage writing the path in between; after EVERY writing step the file is decoded and must hold exactly the items of that step (for a drawing object: everything added to it so far), each once, in order - for STL also count field = records present = items written. ops cases: random Write/Close sequences on the real buffers (writes after Close, repeated Close, no Close). Non-trivial = at least one item (deliver) or at least two operations (ops); distinct by the spec."
	r.Trusted = append(r.Trusted,
		"model coq/Sys/Buffer.v of Triangle3Buffer/Line2Buffer Write/Close and the consumer loops, tied twice: by translation (harness/sysgen extracts the statement skeleton of the four methods, of WriteTriangles / writeSTL / write3MF / writeDXF / writeSVG and of the To* drivers from the current source into Generated/SysProgs.v; Sys/BufferProg.v and Sys/PipeProg.v give those programs a small-step meaning and the C11_source_* theorems prove it equal to Buffer.step resp. a refinement of Pipeline.v) and by differential execution (cases_deliver_*.v, cases_ops_*.v): delivered sequence, batch lengths on the channel, STL count field",
		"harness/sysgen: the classification of a Go statement as a protocol statement or as a Data statement (mentions no tracked object, no channel / lock / WaitGroup / go / defer / return / branch), the inlining of unexported helpers, and the reading of each primitive statement (Lock, append, send, ...) by the interpreters of BufferProg.v / PipeProg.v",
		"decoders: own binary-STL reader, github.com/hpinc/go3mf reader, github.com/yofu/dxf parser, encoding/xml (harness/kit/pipe)",
		"the Go scheduler chooses the interleavings of concurrent producers; the theorems cover all of them, the runs sample them")
	r.Assumptions = append(r.Assumptions,
		"atomicity of Write / Close is no longer assumed: C11_source_*_calls_atomic derives it from the extracted programs (Lock; body; Unlock around buffer statements only) for every schedule; what remains assumed is that sync.Mutex provides mutual exclusion and that a renderer touches the buffer only through Write / Close",
		"count field modulo 2^32 is proved; files with 2^32 triangles are not produced")
	return nil
}
