package main

// File histories: what a reader finds in the file a sink wrote must be exactly the written
// sequence ALSO when the target path was not fresh - it already holds a longer / shorter /
// equally long valid file of the same format (written before, in this process, by the same or
// by another entry point), arbitrary bytes, or it is written several times in a row; and when
// a drawing object (render.DXF, render.SVG) is saved more than once, with lines added after a
// save.  After every writing step the file is decoded (independent decoders of kit/pipe) and
// compared with the sequence the step wrote: each item exactly once, in order, nothing else.
//
// Entry points per format
//
//	stl  to = render.ToSTL (streaming)   save = render.SaveSTL (batch)
//	3mf  to = render.To3MF
//	dxf  to = render.ToDXF               save = render.SaveDXF    obj = NewDXF; Lines; Save   obj+ = more Lines on that object; Save
//	svg  to = render.ToSVG               save = render.SaveSVG    obj = NewSVG; Line...; Save obj+ = more Lines on that object; Save
//
// and "bytes": the harness itself puts n bytes of a given pattern at the path.

import (
	"fmt"
	"os"
	"path/filepath"
	"strings"

	"github.com/deadsy/sdfx/render"
	"github.com/deadsy/sdfx/sdf"
	. "verifharness/kit"
	"verifharness/kit/pipe"
)

type HistStep struct {
	Via    string `json:"via"`              // to | save | obj | obj+ | bytes
	Writes []int  `json:"writes,omitempty"` // to: sizes of the renderer's Writes; save / obj / obj+: sum = number of items
	Reuse  string `json:"reuse,omitempty"`  // to: how the producer treats its slice (see scripts.go)
	Bytes  int    `json:"bytes,omitempty"`  // bytes: length of the content
	Fill   string `json:"fill,omitempty"`   // bytes: zero | ff | text | random
}

type HistSpec struct {
	Format string     `json:"format"` // stl 3mf dxf svg
	Steps  []HistStep `json:"steps"`
}

// step k writes the items histStride*k, histStride*k+1, ... (producer 0): items of different
// steps are different, a stale item is recognised as such
const histStride = 50000

var histVias = map[string][]string{
	"stl": {"to", "save"},
	"3mf": {"to"},
	"dxf": {"to", "save", "obj"},
	"svg": {"to", "save", "obj"},
}
var histFormats = []string{"stl", "3mf", "dxf", "svg"}
var histFills = []string{"zero", "ff", "text", "random"}

func sum(xs []int) int {
	t := 0
	for _, x := range xs {
		t += x
	}
	return t
}

func histKey(h HistSpec) string {
	parts := make([]string, len(h.Steps))
	for i, s := range h.Steps {
		switch s.Via {
		case "bytes":
			parts[i] = fmt.Sprintf("bytes:%s/%d", s.Fill, s.Bytes)
		case "to":
			parts[i] = "to:" + sizesKey(s.Writes)
			if s.Reuse != "" {
				parts[i] += "/" + s.Reuse
			}
		default:
			parts[i] = fmt.Sprintf("%s:%d", s.Via, sum(s.Writes))
		}
	}
	return fmt.Sprintf("history format=%s [%s]", h.Format, strings.Join(parts, " | "))
}

func fillBytes(kind string, n int) []byte {
	b := make([]byte, n)
	switch kind {
	case "ff":
		for i := range b {
			b[i] = 0xff
		}
	case "text":
		const t = "0\nSECTION\n<line x1=\"1\" y1=\"2\"/> solid facet normal 0 0 0\nEOF\n"
		for i := range b {
			b[i] = t[i%len(t)]
		}
	case "random":
		x := uint64(n)*0x9E3779B97F4A7C15 + 12345
		for i := range b {
			x = x*6364136223846793005 + 1442695040888963407
			b[i] = byte(x >> 56)
		}
	}
	return b
}

// histObs: what the file held after one writing step
type histObs struct {
	Step   int
	Want   []int    // the sequence a reader must find
	Writes [][2]int // the Writes that make up Want: (first id, length); length 0 = empty Write
	Got    []int    // the sequence found (-1: not an item of ours)
	Count  int64    // STL count field, -1 for the other formats
	Bad    string   // "" or what is wrong
}

func idRange(base, n int) []int {
	ids := make([]int, n)
	for i := range ids {
		ids[i] = base + i
	}
	return ids
}

func tris(ids []int) []*sdf.Triangle3 {
	m := make([]*sdf.Triangle3, len(ids))
	for i, id := range ids {
		m[i] = pipe.Tri(id)
	}
	return m
}

func lines(ids []int) []*sdf.Line2 {
	m := make([]*sdf.Line2, len(ids))
	for i, id := range ids {
		m[i] = pipe.Line(id)
	}
	return m
}

const histLineStyle = "fill:none;stroke:black;stroke-width:0.1"

// describe names an item found in the file: which step wrote it, or that nobody did
func describe(id int) string {
	if id < 0 || id >= 1<<pipe.TagShift {
		return "something that is not an item that was written"
	}
	return fmt.Sprintf("item %d of step %d", id%histStride, id/histStride)
}

// seqDiff compares what a reader finds with what was written
func seqDiff(want, got []int) string {
	k := 0
	for k < len(want) && k < len(got) && want[k] == got[k] {
		k++
	}
	if k == len(want) && k == len(got) {
		return ""
	}
	s := fmt.Sprintf("%d items written, a reader finds %d; first difference at position %d:", len(want), len(got), k)
	if k < len(want) {
		s += " written " + describe(want[k])
	} else {
		s += " nothing written"
	}
	if k < len(got) {
		s += ", found " + describe(got[k])
	} else {
		s += ", nothing found"
	}
	return s
}

// runHist plays the history through the real entry points; one observation per writing step
func runHist(h HistSpec, dir string) []histObs {
	path := filepath.Join(dir, "hist."+h.Format)
	os.Remove(path)
	defer os.Remove(path)
	restore := pipe.Silence()
	defer restore()
	var obs []histObs
	// the drawing object of the last "obj" step and what has been added to it so far
	var objDXF *render.DXF
	var objSVG *render.SVG
	var objIDs []int
	var objWrites [][2]int
	for k, st := range h.Steps {
		base := k * histStride
		n := sum(st.Writes)
		ids := idRange(base, n)
		o := histObs{Step: k, Count: -1}
		var err error
		switch st.Via {
		case "bytes":
			if err := os.WriteFile(path, fillBytes(st.Fill, st.Bytes), 0o644); err != nil {
				obs = append(obs, histObs{Step: k, Count: -1, Bad: "harness cannot prepare the file: " + err.Error()})
				return obs
			}
			continue
		case "to":
			o.Want = ids
			at := base
			for _, w := range st.Writes {
				o.Writes = append(o.Writes, [2]int{at, w})
				at += w
			}
			ps := [][]int{st.Writes}
			switch h.Format {
			case "stl":
				render.ToSTL(nil, path, &script3{Producers: ps, Base: base, Mode: st.Reuse})
			case "3mf":
				render.To3MF(nil, path, &script3{Producers: ps, Base: base, Mode: st.Reuse})
			case "dxf":
				render.ToDXF(nil, path, &script2{Producers: ps, Base: base, Mode: st.Reuse})
			case "svg":
				render.ToSVG(nil, path, &script2{Producers: ps, Base: base, Mode: st.Reuse})
			}
		case "save":
			o.Want = ids
			o.Writes = [][2]int{{base, n}}
			switch h.Format {
			case "stl":
				err = render.SaveSTL(path, tris(ids))
			case "dxf":
				err = render.SaveDXF(path, lines(ids))
			case "svg":
				err = render.SaveSVG(path, histLineStyle, lines(ids))
			default:
				err = fmt.Errorf("no batch entry point for %s", h.Format)
			}
		case "obj", "obj+":
			if st.Via == "obj" || (objDXF == nil && objSVG == nil) {
				objDXF, objSVG, objIDs, objWrites = nil, nil, nil, nil
				switch h.Format {
				case "dxf":
					objDXF = render.NewDXF(path)
				case "svg":
					objSVG = render.NewSVG(path, histLineStyle)
				}
			}
			objIDs = append(objIDs, ids...)
			objWrites = append(objWrites, [2]int{base, n})
			o.Want = append([]int{}, objIDs...)
			o.Writes = append([][2]int{}, objWrites...)
			switch {
			case objDXF != nil:
				if k%2 == 0 {
					objDXF.Lines(lines(ids))
				} else {
					for _, l := range lines(ids) {
						objDXF.Line(l)
					}
				}
				err = objDXF.Save()
			case objSVG != nil:
				for _, l := range lines(ids) {
					objSVG.Line(l[0], l[1])
				}
				err = objSVG.Save()
			default:
				err = fmt.Errorf("no drawing object for %s", h.Format)
			}
		default:
			err = fmt.Errorf("unknown step %q", st.Via)
		}
		if err != nil {
			o.Bad = fmt.Sprintf("%s returned an error: %v", st.Via, err)
			obs = append(obs, o)
			return obs
		}
		// what does a reader find now?
		switch h.Format {
		case "stl":
			var c uint32
			var size int64
			o.Got, c, size, err = pipe.DecodeSTL(path)
			o.Count = int64(c)
			if err == nil && size != 84+50*int64(c) {
				o.Bad = fmt.Sprintf("STL header says %d triangles but the file holds %d bytes = %d records (%d written)", c, size, (size-84)/50, len(o.Want))
			} else if err == nil && int(c) != len(o.Want) {
				o.Bad = fmt.Sprintf("STL count field %d but %d triangles written", c, len(o.Want))
			}
		case "3mf":
			o.Got, err = pipe.Decode3MF(path)
		case "dxf":
			o.Got, err = pipe.DecodeDXF(path)
		case "svg":
			minX, maxY := pipe.Bounds2(o.Want)
			o.Got, err = pipe.DecodeSVG(path, minX, maxY)
		}
		if err != nil {
			o.Bad = "cannot decode the file: " + err.Error()
		}
		if o.Bad == "" {
			o.Bad = seqDiff(o.Want, o.Got)
		}
		obs = append(obs, o)
		if o.Bad != "" {
			return obs
		}
	}
	return obs
}

// histTerm: the observation as a Buffer.case for the model (one producer)
func histTerm(id int, thr string, o histObs) string {
	wl := make([]string, len(o.Writes))
	for i, w := range o.Writes {
		if w[1] == 0 {
			wl[i] = "[]"
		} else {
			wl[i] = fmt.Sprintf("[(%d%%N, %d)]", w[0], w[1])
		}
	}
	got := append([]int{}, o.Got...)
	for i := range got {
		if got[i] < 0 {
			got[i] = 1<<40 + i
		}
	}
	cterm := "None"
	if o.Count >= 0 {
		cterm = fmt.Sprintf("(Some %d%%N)", o.Count)
	}
	return fmt.Sprintf("(%d%%N, %s, %s, %s, None, %s)", id, thr, CList([]string{CList(wl)}), runs(got), cterm)
}

// freshSize: how long is the file the step writes to a fresh path (to size the garbage around it)
func freshSize(format string, st HistStep, dir string) int {
	n := sum(st.Writes)
	if format == "stl" {
		return 84 + 50*n
	}
	restore := pipe.Silence()
	defer restore()
	p2 := filepath.Join(dir, "size."+format)
	os.Remove(p2)
	defer os.Remove(p2)
	switch format {
	case "3mf":
		render.To3MF(nil, p2, &script3{Producers: [][]int{{n}}})
	case "dxf":
		render.SaveDXF(p2, lines(idRange(0, n)))
	case "svg":
		render.SaveSVG(p2, histLineStyle, lines(idRange(0, n)))
	}
	if fi, err := os.Stat(p2); err == nil {
		return int(fi.Size())
	}
	return 0
}

type histCase struct {
	Stratum string
	Spec    HistSpec
}

// genHist: the generated histories.  n3 / n2 are the buffer thresholds.
func genHist(rng *Rng, tier string, n3, n2 int, dir string) []histCase {
	var out []histCase
	thr := func(format string) int {
		if format == "stl" || format == "3mf" {
			return n3
		}
		return n2
	}
	// the Writes of a streaming step with n items
	writesFor := func(n, N int) []int {
		switch rng.Intn(4) {
		case 0:
			return []int{n}
		case 1: // marching-cubes like
			var w []int
			for s := 0; s < n; {
				k := 0
				if rng.Intn(3) == 0 {
					k = rng.Range(1, 5)
					if k > n-s {
						k = n - s
					}
				}
				w = append(w, k)
				s += k
			}
			return append(w, 0)
		case 2: // around the threshold
			var w []int
			for s := 0; s < n; {
				k := []int{N - 1, 1, N, N + 1, 2}[rng.Intn(5)]
				if k > n-s {
					k = n - s
				}
				if k < 1 {
					k = 1
				}
				w = append(w, k)
				s += k
			}
			return w
		}
		var w []int
		for s := 0; s < n; {
			k := rng.Range(0, N)
			if k > n-s {
				k = n - s
			}
			w = append(w, k)
			s += k
		}
		return w
	}
	step := func(via string, n, N int) HistStep {
		if via == "to" {
			st := HistStep{Via: via, Writes: writesFor(n, N)}
			if rng.Intn(4) == 0 {
				st.Reuse = reuseModes[rng.Intn(len(reuseModes))]
			}
			return st
		}
		return HistStep{Via: via, Writes: []int{n}}
	}
	reps := TierN(tier, 1, 4, 2)
	for rep := 0; rep < reps; rep++ {
		for _, f := range histFormats {
			N := thr(f)
			counts := []int{1, 3, N - 1, N, N + 1, 2*N + 1}
			// A. an earlier valid file of the same format, written by the same / another entry point
			for _, v1 := range histVias[f] {
				for _, v2 := range histVias[f] {
					for _, rel := range []string{"longer", "shorter", "equal"} {
						n2 := counts[rng.Intn(len(counts))]
						n1 := n2
						switch rel {
						case "longer":
							n1 = n2 + []int{1, 2, N, N + 44, 3 * N}[rng.Intn(5)]
						case "shorter":
							n1 = n2 - []int{1, 2, N, n2}[rng.Intn(4)]
							if n1 < 0 {
								n1 = 0
							}
						}
						out = append(out, histCase{fmt.Sprintf("history/%s/valid-%s/%s-then-%s", f, rel, v1, v2),
							HistSpec{Format: f, Steps: []HistStep{step(v1, n1, N), step(v2, n2, N)}}})
					}
				}
			}
			// an EMPTY output over an earlier non-empty one
			for _, v := range histVias[f] {
				out = append(out, histCase{fmt.Sprintf("history/%s/valid-longer/%s-then-%s", f, v, v),
					HistSpec{Format: f, Steps: []HistStep{step(v, rng.Range(1, N+1), N), step(v, 0, N)}}})
			}
			// B. arbitrary bytes at the path: none, fewer, as many, one more, many more than the output
			for vi, v := range histVias[f] {
				for ri, rel := range []string{"empty", "shorter", "equal", "one-longer", "longer"} {
					fills := []string{histFills[(vi+ri+rep)%len(histFills)]}
					if tier != "quick" {
						fills = histFills
					}
					for _, fill := range fills {
						st := step(v, counts[rng.Intn(len(counts))], N)
						S := freshSize(f, st, dir)
						b := 0
						switch rel {
						case "shorter":
							b = S / 2
						case "equal":
							b = S
						case "one-longer":
							b = S + 1
						case "longer":
							b = 2*S + 50*rng.Range(1, 300) + rng.Intn(50)
						}
						out = append(out, histCase{fmt.Sprintf("history/%s/bytes-%s/%s", f, rel, v),
							HistSpec{Format: f, Steps: []HistStep{{Via: "bytes", Bytes: b, Fill: fill}, st}}})
					}
				}
			}
			// C. longer histories: 3..6 steps over all entry points and garbage
			for k, m := 0, TierN(tier, 8, 30, 16); k < m; k++ {
				var steps []HistStep
				for i, l := 0, rng.Range(3, 6); i < l; i++ {
					vias := append([]string{"bytes"}, histVias[f]...)
					if f == "dxf" || f == "svg" {
						vias = append(vias, "obj+", "obj+")
					}
					v := vias[rng.Intn(len(vias))]
					if v == "bytes" {
						steps = append(steps, HistStep{Via: "bytes", Bytes: []int{0, 83, 84, 134, 1000, 84 + 50*N, 100000}[rng.Intn(7)], Fill: histFills[rng.Intn(len(histFills))]})
						continue
					}
					n := []int{0, 1, 2, N - 1, N, N + 1, rng.Range(0, 3*N)}[rng.Intn(7)]
					steps = append(steps, step(v, n, N))
				}
				if steps[len(steps)-1].Via == "bytes" {
					steps = append(steps, step(histVias[f][rng.Intn(len(histVias[f]))], rng.Range(0, N+1), N))
				}
				out = append(out, histCase{fmt.Sprintf("history/%s/several-steps", f), HistSpec{Format: f, Steps: steps}})
			}
			// D. one drawing object saved more than once
			if f == "dxf" || f == "svg" {
				a, b, c := rng.Range(1, N+1), rng.Range(1, N+1), rng.Range(1, 2*N)
				for _, steps := range [][]HistStep{
					{step("obj", a, N), step("obj+", 0, N)},                                         // saved twice, nothing added
					{step("obj", a, N), step("obj+", b, N)},                                         // lines added after a save
					{step("obj", 0, N), step("obj+", 0, N), step("obj+", c, N)},                     // empty drawing saved first
					{step("obj", a, N), step("obj+", b, N), step("obj+", c, N), step("obj+", 0, N)}, // again and again
					{step("obj", a, N), step("to", c, N), step("obj+", b, N)},                       // the streaming entry point writes the path in between
					{step("obj", c, N), step("save", a, N), step("obj+", 0, N)},                     // the batch entry point in between, then the same drawing again
					{step("obj", a, N), step("obj", b, N), step("obj+", c, N)},                      // a second object for the same path
					{step("obj", c, N), {Via: "bytes", Bytes: 100000, Fill: "text"}, step("obj+", 1, N)},
				} {
					out = append(out, histCase{fmt.Sprintf("history/%s/object-saved-again", f), HistSpec{Format: f, Steps: steps}})
				}
			}
		}
	}
	return out
}
