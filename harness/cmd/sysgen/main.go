// Command sysgen prints coq/Generated/SysProgs.v for the source tree given as argument
// (default /repo); used to inspect what harness/sysgen extracts from an edited tree.
package main

import (
	"fmt"
	"os"

	"verifharness/sysgen"
)

func main() {
	repo := "/repo"
	if len(os.Args) > 1 {
		repo = os.Args[1]
	}
	b, err := sysgen.Translate(repo)
	if err != nil {
		fmt.Fprintln(os.Stderr, err)
		os.Exit(1)
	}
	os.Stdout.Write(b)
}
