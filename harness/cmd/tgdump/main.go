package main

import (
	"fmt"
	"os"

	"verifharness/threadgen"
)

func main() {
	var b []byte
	var err error
	if len(os.Args) > 2 && os.Args[2] == "expr" {
		b, err = threadgen.GenerateExpr(os.Args[1])
	} else if len(os.Args) > 2 && os.Args[2] == "obj" {
		b, err = threadgen.GenerateObj(os.Args[1])
	} else {
		b, _, err = threadgen.Generate(os.Args[1])
	}
	if err != nil {
		fmt.Println("ERR:", err)
		os.Exit(1)
	}
	os.Stdout.Write(b)
}
