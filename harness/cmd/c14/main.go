package main

// C14: render.LoadSTL (and obj.ImportSTL) is total: error or mesh for every byte
// string; no panic, no hang, no allocation out of proportion to the file size.
// Model: coq/Io/StlLoad.v.
//
// Every file is loaded in a child process (this binary, mode "child") under
// recover(), a per-file watchdog and an address-space limit, so that a panic, a
// fatal error (out of memory), or a hang of the code under test is an observation,
// not the end of the run.

import (
	"bufio"
	"bytes"
	"encoding/binary"
	"encoding/json"
	"fmt"
	"math"
	"os"
	"os/exec"
	"path/filepath"
	"runtime"
	"strconv"
	"strings"
	"syscall"
	"time"

	"github.com/deadsy/sdfx/obj"
	"github.com/deadsy/sdfx/render"
	"verifharness/iogen"
	. "verifharness/kit"
)

func main() {
	if len(os.Args) > 1 && os.Args[1] == "child" {
		child(os.Args[2:])
		return
	}
	Main("C14", checkC14, stateGen, iogen.Gen)
}

type tri = [3][3]float64

// ---------------------------------------------------------------- child

type result struct {
	I      int      `json:"i"`
	Cls    int      `json:"cls"`  // 0 error, 1 mesh, 2 panic
	ICls   int      `json:"icls"` // same for obj.ImportSTL
	Tris   []string `json:"tris"` // 9 float64 bit patterns per triangle, hex
	Alloc  uint64   `json:"alloc"`
	IAlloc uint64   `json:"ialloc"`
	Msg    string   `json:"msg"`
	IMsg   string   `json:"imsg"`
}

const (
	perFileTimeout = 10 * time.Second
	addressLimit   = 6 << 30
)

func child(args []string) {
	dir := args[0]
	start, _ := strconv.Atoi(args[1])
	end, _ := strconv.Atoi(args[2])
	lim := syscall.Rlimit{Cur: addressLimit, Max: addressLimit}
	syscall.Setrlimit(syscall.RLIMIT_AS, &lim)
	out := bufio.NewWriter(os.Stdout)
	// the library prints nothing on these paths, but keep stdout clean anyway
	for i := start; i < end; i++ {
		fmt.Fprintf(out, "BEGIN %d\n", i)
		out.Flush()
		path := filepath.Join(dir, fmt.Sprintf("%06d.stl", i))
		res := result{I: i}
		wd := time.AfterFunc(perFileTimeout, func() {
			fmt.Fprintf(os.Stdout, "\nHANG %d\n", i)
			os.Exit(3)
		})
		var m0, m1, m2 runtime.MemStats
		runtime.GC()
		runtime.ReadMemStats(&m0)
		func() {
			defer func() {
				if e := recover(); e != nil {
					res.Cls, res.Msg = 2, fmt.Sprint(e)
				}
			}()
			mesh, err := render.LoadSTL(path)
			if err != nil {
				res.Cls, res.Msg = 0, err.Error()
				return
			}
			res.Cls = 1
			for _, t := range mesh {
				for v := 0; v < 3; v++ {
					res.Tris = append(res.Tris, strconv.FormatUint(math.Float64bits(t[v].X), 16),
						strconv.FormatUint(math.Float64bits(t[v].Y), 16), strconv.FormatUint(math.Float64bits(t[v].Z), 16))
				}
			}
		}()
		runtime.ReadMemStats(&m1)
		res.Alloc = m1.TotalAlloc - m0.TotalAlloc
		func() {
			defer func() {
				if e := recover(); e != nil {
					res.ICls, res.IMsg = 2, fmt.Sprint(e)
				}
			}()
			_, err := obj.ImportSTL(path, 20, 3, 5)
			if err != nil {
				res.ICls, res.IMsg = 0, err.Error()
				return
			}
			res.ICls = 1
		}()
		runtime.ReadMemStats(&m2)
		res.IAlloc = m2.TotalAlloc - m1.TotalAlloc
		wd.Stop()
		b, _ := json.Marshal(res)
		out.Write(b)
		out.WriteByte('\n')
		out.Flush()
	}
}

// runAll loads files 0..n-1 of dir in child processes; a child that dies or hangs is an
// observation about the file it had begun
func runAll(dir string, n int) ([]result, error) {
	res := make([]result, n)
	self, err := os.Executable()
	if err != nil {
		return nil, err
	}
	for start := 0; start < n; {
		cmd := exec.Command(self, "child", dir, strconv.Itoa(start), strconv.Itoa(n))
		var stderr bytes.Buffer
		cmd.Stderr = &stderr
		pipe, err := cmd.StdoutPipe()
		if err != nil {
			return nil, err
		}
		if err := cmd.Start(); err != nil {
			return nil, err
		}
		sc := bufio.NewScanner(pipe)
		sc.Buffer(make([]byte, 1<<20), 1<<28)
		begun, done := -1, start-1
		hang := false
		for sc.Scan() {
			line := sc.Text()
			switch {
			case strings.HasPrefix(line, "BEGIN "):
				begun, _ = strconv.Atoi(line[6:])
			case strings.HasPrefix(line, "HANG "):
				hang = true
			case strings.HasPrefix(line, "{"):
				var r result
				if err := json.Unmarshal([]byte(line), &r); err == nil && r.I == begun {
					res[r.I] = r
					done = r.I
				}
			}
		}
		cmd.Wait()
		if done >= n-1 {
			break
		}
		// the child ended while working on file `begun`
		if begun <= done {
			return nil, fmt.Errorf("child process failed before file %d: %s", done+1, tail(stderr.String(), 400))
		}
		what := "the process died: " + firstLine(stderr.String())
		if hang {
			what = fmt.Sprintf("no answer within %v", perFileTimeout)
		}
		res[begun] = result{I: begun, Cls: 2, ICls: 2, Msg: what, IMsg: what}
		start = begun + 1
	}
	return res, nil
}

func firstLine(s string) string {
	for _, l := range strings.Split(s, "\n") {
		if strings.TrimSpace(l) != "" {
			if len(l) > 200 {
				l = l[:200]
			}
			return l
		}
	}
	return ""
}
func tail(s string, n int) string {
	if len(s) > n {
		return s[len(s)-n:]
	}
	return s
}

// ---------------------------------------------------------------- generators

func binarySTL(rng *Rng, n int) []byte {
	b := make([]byte, 84+50*n)
	copy(b, "binary stl")
	binary.LittleEndian.PutUint32(b[80:], uint32(n))
	for i := 0; i < n; i++ {
		rec := b[84+50*i:]
		for w := 0; w < 12; w++ {
			var f float32
			switch rng.Intn(6) {
			case 0:
				f = math.Float32frombits(uint32(rng.U64())) // any pattern: NaN, Inf, subnormal
			case 1:
				f = float32(rng.Range(-3, 3))
			default:
				f = float32(rng.Uniform(-10, 10))
			}
			binary.LittleEndian.PutUint32(rec[4*w:], math.Float32bits(f))
		}
		if rng.Intn(4) == 0 {
			binary.LittleEndian.PutUint16(rec[48:], uint16(rng.U64()))
		}
	}
	return b
}

var numbers = []string{"0", "1", "-1", "0.5", "1e3", "-2.5e-3", "1.0", "3.14159", "+7", "1e38", "1e-45", ".5", "5."}
var badNumbers = []string{"1.2.3", "abc", "1e999", "-1e999", "0x", "1,5", "--1", "1e", "NaN", "Inf", "-inf", "0x1p-2", "1_0", "0x1_0p0", "\xff\xfe", "1e+", "١٢", "1\x00"}

func num(rng *Rng) string {
	if rng.Intn(3) == 0 {
		return strconv.FormatFloat(rng.Uniform(-100, 100), 'g', rng.Range(1, 17), 64)
	}
	return numbers[rng.Intn(len(numbers))]
}

// asciiLines returns a well-formed ASCII STL as lines (without terminators)
func asciiLines(rng *Rng, n int) []string {
	ls := []string{"solid part"}
	for i := 0; i < n; i++ {
		ls = append(ls, " facet normal "+num(rng)+" "+num(rng)+" "+num(rng), "  outer loop")
		for v := 0; v < 3; v++ {
			ls = append(ls, "   vertex "+num(rng)+" "+num(rng)+" "+num(rng))
		}
		ls = append(ls, "  endloop", " endfacet")
	}
	return append(ls, "endsolid part")
}

func vertexLineIdx(ls []string) []int {
	var idx []int
	for i, l := range ls {
		if strings.HasPrefix(strings.TrimSpace(l), "vertex") {
			idx = append(idx, i)
		}
	}
	return idx
}

func insertLine(ls []string, at int, l string) []string {
	o := append([]string{}, ls[:at]...)
	o = append(o, l)
	return append(o, ls[at:]...)
}

// mutateASCII applies one named mutation to a well-formed listing
func mutateASCII(rng *Rng, k int) ([]byte, string) {
	n := rng.Range(0, 4)
	if k%9 == 0 {
		n = rng.Range(5, 25)
	}
	ls := asciiLines(rng, n)
	eol := "\n"
	vi := vertexLineIdx(ls)
	pick := func() int { return vi[rng.Intn(len(vi))] }
	kinds := []string{"valid", "extra-vertex-1", "extra-vertex-2", "missing-vertex-1", "missing-vertex-2", "bad-number", "stray-token",
		"short-vertex", "long-line", "crlf", "cr-only", "no-final-newline", "upper-case", "unicode-space", "nul-bytes", "bom",
		"delete-line", "duplicate-line", "truncate", "garbage-tail", "tabs", "blank-lines", "vertex-only", "long-line-then-vertices"}
	kind := kinds[k%len(kinds)]
	if len(vi) == 0 {
		switch kind {
		case "missing-vertex-1", "missing-vertex-2", "bad-number", "stray-token", "short-vertex", "upper-case", "unicode-space":
			kind = "extra-vertex-1"
		}
	}
	switch kind {
	case "extra-vertex-1", "extra-vertex-2":
		m := 1
		if kind == "extra-vertex-2" {
			m = 2
		}
		for j := 0; j < m; j++ {
			ls = insertLine(ls, rng.Range(1, len(ls)-1), "   vertex "+num(rng)+" "+num(rng)+" "+num(rng))
		}
	case "missing-vertex-1", "missing-vertex-2":
		m := 1
		if kind == "missing-vertex-2" && len(vi) >= 2 {
			m = 2
		}
		for j := 0; j < m; j++ {
			vi = vertexLineIdx(ls)
			at := pick()
			ls = append(ls[:at:at], ls[at+1:]...)
		}
	case "bad-number":
		at := pick()
		f := strings.Fields(ls[at])
		f[rng.Range(1, 3)] = badNumbers[rng.Intn(len(badNumbers))]
		ls[at] = "   " + strings.Join(f, " ")
	case "stray-token":
		at := pick()
		ls[at] = ls[at] + " " + []string{"7", "x", "vertex", "#c"}[rng.Intn(4)]
	case "short-vertex":
		at := pick()
		f := strings.Fields(ls[at])
		ls[at] = strings.Join(f[:rng.Range(1, 3)], " ")
	case "long-line":
		// bufio.Scanner gives up at 64 KiB: just below, at, and above the limit; as a comment line or a vertex line
		ln := []int{65534, 65535, 65536, 65537, 70000, 140000}[rng.Intn(6)]
		at := rng.Range(0, len(ls))
		if rng.Bool() {
			ls = insertLine(ls, at, strings.Repeat("a", ln))
		} else {
			ls = insertLine(ls, at, "vertex 1 2 "+strings.Repeat("3", ln-11))
		}
	case "long-line-then-vertices":
		// one or two vertex lines, then a line the scanner cannot deliver
		m := rng.Range(1, 2)
		ls = []string{"solid x"}
		for j := 0; j < m; j++ {
			ls = append(ls, "vertex 1 2 3")
		}
		ls = append(ls, strings.Repeat("b", 70000), "vertex 4 5 6")
	case "crlf":
		eol = "\r\n"
	case "cr-only":
		eol = "\r"
	case "upper-case":
		at := pick()
		ls[at] = strings.ToUpper(ls[at])
	case "unicode-space":
		at := pick()
		ls[at] = strings.Replace(ls[at], " ", []string{"\u00a0", "\u2003", "\u0085", "\u3000", "\v", "\f"}[rng.Intn(6)], rng.Range(1, 3))
	case "nul-bytes":
		at := rng.Range(0, len(ls)-1)
		ls[at] = ls[at] + "\x00\x00"
	case "bom":
		ls[0] = "\xef\xbb\xbf" + ls[0]
	case "delete-line":
		at := rng.Range(0, len(ls)-1)
		ls = append(ls[:at:at], ls[at+1:]...)
	case "duplicate-line":
		at := rng.Range(0, len(ls)-1)
		ls = insertLine(ls, at, ls[at])
	case "tabs":
		for i := range ls {
			ls[i] = strings.ReplaceAll(ls[i], " ", "\t")
		}
	case "blank-lines":
		for j := 0; j < 3; j++ {
			ls = insertLine(ls, rng.Range(0, len(ls)), []string{"", "   ", "\t"}[rng.Intn(3)])
		}
	case "vertex-only":
		ls = nil
		for j := 0; j < rng.Range(0, 7); j++ {
			ls = append(ls, "vertex "+num(rng)+" "+num(rng)+" "+num(rng))
		}
	}
	content := strings.Join(ls, eol)
	if kind != "no-final-newline" && len(ls) > 0 {
		content += eol
	}
	b := []byte(content)
	switch kind {
	case "truncate":
		if len(b) > 0 {
			b = b[:rng.Intn(len(b))]
		}
	case "garbage-tail":
		for j := 0; j < rng.Range(1, 60); j++ {
			b = append(b, byte(rng.U64()))
		}
	}
	return b, "ascii/" + kind
}

func mutateBinary(rng *Rng, k int) ([]byte, string) {
	n := rng.Range(0, 6)
	if k%7 == 0 {
		n = rng.Range(7, 60)
	}
	b := binarySTL(rng, n)
	kinds := []string{"valid", "truncate-boundary", "truncate-any", "over-long", "count+1", "count-1", "count=ffffffff", "count=80000000",
		"count=0", "count-random", "flip-byte", "recount-after-truncate", "ascii-looking-header"}
	kind := kinds[k%len(kinds)]
	setCount := func(c uint32) {
		if len(b) >= 84 {
			binary.LittleEndian.PutUint32(b[80:], c)
		}
	}
	switch kind {
	case "truncate-boundary":
		cuts := []int{0, 1, 79, 80, 81, 83, 84, 85}
		for i := 0; i <= n; i++ {
			cuts = append(cuts, 84+50*i-1, 84+50*i, 84+50*i+1, 84+50*i+12, 84+50*i+48)
		}
		c := cuts[rng.Intn(len(cuts))]
		if c < 0 {
			c = 0
		}
		if c < len(b) {
			b = b[:c]
		}
	case "truncate-any":
		b = b[:rng.Intn(len(b)+1)]
	case "over-long":
		extra := []int{1, 2, 49, 50, 51, 100}[rng.Intn(6)]
		for j := 0; j < extra; j++ {
			b = append(b, byte(rng.U64()))
		}
	case "count+1":
		setCount(uint32(n + 1))
	case "count-1":
		setCount(uint32(n - 1)) // n = 0 gives ffffffff
	case "count=ffffffff":
		setCount(0xffffffff)
	case "count=80000000":
		setCount(0x80000000)
	case "count=0":
		setCount(0)
	case "count-random":
		setCount(uint32(rng.U64()))
	case "flip-byte":
		for j := 0; j < rng.Range(1, 4); j++ {
			b[rng.Intn(len(b))] ^= byte(1 << uint(rng.Intn(8)))
		}
	case "recount-after-truncate":
		// cut whole records off and make the count agree again: a consistent, shorter binary file
		if n > 0 {
			m := rng.Intn(n)
			b = b[:84+50*m]
			setCount(uint32(m))
		}
	case "ascii-looking-header":
		copy(b, "solid looks like ascii\nvertex 1 2 3\nvertex 1 2\n")
	}
	return b, "binary/" + kind
}

func rawFile(rng *Rng, k int) ([]byte, string) {
	switch k % 6 {
	case 0: // arbitrary bytes, short
		b := make([]byte, rng.Range(0, 200))
		for i := range b {
			b[i] = byte(rng.U64())
		}
		return b, "raw/random-bytes"
	case 1: // arbitrary bytes of a binary-consistent size with the matching count
		n := rng.Range(0, 5)
		b := make([]byte, 84+50*n)
		for i := range b {
			b[i] = byte(rng.U64())
		}
		binary.LittleEndian.PutUint32(b[80:], uint32(n))
		return b, "raw/random-bytes-consistent-size"
	case 2: // text that is exactly 84+50n bytes long with a count word that matches: read as binary
		n := rng.Range(0, 3)
		s := "solid " + strings.Repeat("x", 73) + "\n"
		b := []byte(s)
		b = append(b, byte(n), 0, 0, 0)
		for len(b) < 84+50*n {
			l := "vertex 1 2 3\n"
			if len(b)+len(l) > 84+50*n {
				l = strings.Repeat(" ", 84+50*n-len(b))
			}
			b = append(b, l...)
		}
		return b, "raw/text-of-binary-size"
	case 3: // exactly 84 bytes
		b := bytes.Repeat([]byte{[]byte{0, ' ', 'a', 0xff}[rng.Intn(4)]}, 84)
		if rng.Bool() {
			binary.LittleEndian.PutUint32(b[80:], uint32(rng.Intn(3)))
		}
		return b, "raw/exactly-84-bytes"
	case 4: // text tokens in random order
		toks := []string{"vertex", "facet", "normal", "outer", "loop", "endloop", "endfacet", "solid", "endsolid", "1", "2.5", "-3", "x", "\n", "\n", "\n", " ", "\t", "vertex 1 2 3\n"}
		var sb strings.Builder
		for j := 0; j < rng.Range(0, 80); j++ {
			sb.WriteString(toks[rng.Intn(len(toks))])
			sb.WriteByte(' ')
		}
		return []byte(sb.String()), "raw/token-soup"
	}
	// many vertex lines, count not a multiple of 3
	var sb strings.Builder
	m := rng.Range(1, 50)
	for j := 0; j < m; j++ {
		sb.WriteString("vertex 1 2 3\n")
	}
	return []byte(sb.String()), fmt.Sprintf("raw/vertex-lines-mod3=%d", m%3)
}

// longLineFiles: files with one line of a given length, around bufio.Scanner's default limit
// (a line of 65536 bytes or more is "token too long") and far beyond it, in three shapes: no newline at
// all, a newline only at the end, the long line in the middle of an otherwise valid listing.  The loader
// must answer (error or mesh) on each of them within the deadline.
func longLineFiles(rng *Rng, tier string) (out []struct {
	stratum string
	content []byte
}) {
	add := func(s string, b []byte) {
		out = append(out, struct {
			stratum string
			content []byte
		}{s, b})
	}
	lens := []int{1<<16 - 1, 1 << 16, 1<<16 + 1, 1 << 20, 1<<20 + 1, 3 << 20}
	if tier != "quick" {
		lens = append(lens, 1<<17, 1<<19+1, 1<<21, 1<<22+1, rng.Range(1<<16, 1<<22), rng.Range(1<<20, 1<<23))
	}
	fill := []byte{0, 'a', ' ', '1', 0xff}
	for i, n := range lens {
		f := fill[(i+rng.Intn(len(fill)))%len(fill)]
		if tier == "quick" && i >= 3 {
			f = fill[i-3] // 1 MiB and above: zeros, letters, blanks
		}
		line := bytes.Repeat([]byte{f}, n)
		add(fmt.Sprintf("longline/no-newline/len=%d", n), line)
		add(fmt.Sprintf("longline/newline-at-end/len=%d", n), append(append([]byte{}, line...), '\n'))
		// in the middle of a valid listing: as a comment line after k complete vertex lines
		ls := asciiLines(rng, 2)
		vi := vertexLineIdx(ls)
		k := 3 // after a complete facet; thorough also after 4 or 5 vertex lines (then the count is not a multiple of 3)
		if tier != "quick" {
			k += rng.Intn(3)
		}
		at := vi[k-1] + 1
		var b bytes.Buffer
		for j, l := range ls {
			if j == at {
				b.WriteString("solid ")
				b.Write(bytes.Repeat([]byte{'x'}, n-6))
				b.WriteByte('\n')
			}
			b.WriteString(l)
			b.WriteByte('\n')
		}
		add(fmt.Sprintf("longline/inside-listing/len=%d", n), b.Bytes())
	}
	return out
}

// hasLongLine: some line (maximal run of bytes other than '\n') has at least n bytes
func hasLongLine(b []byte, n int) bool {
	run := 0
	for _, c := range b {
		if c == '\n' {
			run = 0
			continue
		}
		run++
		if run >= n {
			return true
		}
	}
	return false
}

// rle: runs of equal bytes, for a compact replayable description of large generated files
func rle(b []byte) [][2]int {
	var rs [][2]int
	for i := 0; i < len(b); {
		j := i
		for j < len(b) && b[j] == b[i] {
			j++
		}
		rs = append(rs, [2]int{int(b[i]), j - i})
		i = j
	}
	return rs
}

// ---------------------------------------------------------------- the check

type c14Corpus struct {
	Files []struct {
		Name   string `json:"name"`
		Text   string `json:"text"`   // file content as text, or
		Hex    string `json:"hex"`    // as hex bytes
		Repeat int    `json:"repeat"` // text repeated this many times
	} `json:"files"`
}

func checkC14(c *Ctx, r *Report) error {
	rng := NewRng(c.Seed)
	tmp, err := os.MkdirTemp("", "c14")
	if err != nil {
		return err
	}
	defer os.RemoveAll(tmp)
	var corpus c14Corpus
	if b, err := os.ReadFile(filepath.Join(c.Verif, "corpus", "C14.json")); err == nil {
		if err := json.Unmarshal(b, &corpus); err != nil {
			return err
		}
	}
	type item struct {
		stratum string
		content []byte
	}
	var items []item
	for _, f := range corpus.Files {
		var b []byte
		if f.Hex != "" {
			b = make([]byte, len(f.Hex)/2)
			for i := range b {
				v, _ := strconv.ParseUint(f.Hex[2*i:2*i+2], 16, 8)
				b[i] = byte(v)
			}
		} else {
			b = []byte(f.Text)
			if f.Repeat > 1 {
				b = bytes.Repeat(b, f.Repeat)
			}
		}
		items = append(items, item{"corpus/" + f.Name, b})
	}
	// fixed boundary files
	items = append(items, item{"raw/empty", nil}, item{"raw/exactly-84-bytes", make([]byte, 84)})
	n := TierN(c.Tier, 3000, 30000, 6000)
	if c.Replay != "" {
		// re-run only the inputs recorded in a replay file
		var rp struct {
			Failing []struct {
				Input struct {
					Hex string   `json:"hex"`
					Rle [][2]int `json:"rle"`
				} `json:"input"`
			} `json:"failing_inputs"`
		}
		b, err := os.ReadFile(c.Replay)
		if err != nil {
			return err
		}
		if err := json.Unmarshal(b, &rp); err != nil {
			return err
		}
		items, n = nil, 0
		for _, f := range rp.Failing {
			b := make([]byte, len(f.Input.Hex)/2)
			for i := range b {
				v, _ := strconv.ParseUint(f.Input.Hex[2*i:2*i+2], 16, 8)
				b[i] = byte(v)
			}
			for _, r := range f.Input.Rle {
				b = append(b, bytes.Repeat([]byte{byte(r[0])}, r[1])...)
			}
			items = append(items, item{"replay", b})
		}
	}
	if c.Replay == "" {
		for _, f := range longLineFiles(rng, c.Tier) {
			items = append(items, item{f.stratum, f.content})
		}
	}
	for k := 0; k < n; k++ {
		var b []byte
		var s string
		switch k % 5 {
		case 0, 1:
			b, s = mutateASCII(rng, k/5*2+k%5)
		case 2, 3:
			b, s = mutateBinary(rng, k/5*2+k%5-2)
		default:
			b, s = rawFile(rng, k/5)
		}
		items = append(items, item{s, b})
	}
	for i, it := range items {
		if err := os.WriteFile(filepath.Join(tmp, fmt.Sprintf("%06d.stl", i)), it.content, 0o644); err != nil {
			return err
		}
	}
	results, err := runAll(tmp, len(items))
	if err != nil {
		return err
	}
	imports := "From Coq Require String.\nFrom Coq Require Import Uint63.\nFrom Sdfx Require Import Io.F32 Io.Stl Io.StlLoad.\nImport String.StringSyntax.\nOpen Scope N_scope."
	cs := &Cases{Kind: "load", Imports: imports, Type: "StlLoad.case", Fn: "StlLoad.mismatches", PerShard: 60}
	small := &Cases{Kind: "loadbig", Imports: imports, Type: "StlLoad.case", Fn: "StlLoad.mismatches", PerShard: 4}
	var maxRatio, maxIRatio float64
	directOnly := 0
	for i, it := range items {
		res := results[i]
		size := len(it.content)
		key := fileKey(it.content)
		r.Case(it.stratum, key, size > 0)
		input := map[string]interface{}{"size": size}
		if rs := rle(it.content); size > 100000 && len(rs) <= 5000 {
			input["rle"] = rs // [byte, count] runs
		} else {
			input["hex"] = fmt.Sprintf("%x", it.content)
		}
		// the tokenisation oracle itself: bufio.Scanner fails exactly when a line has 64 KiB or more
		if _, serr := StlTokens(it.content); serr != hasLongLine(it.content, bufio.MaxScanTokenSize) {
			return fmt.Errorf("tokenisation oracle: scanner error %v on a file with longest-line>=65536 %v (%s)", serr, !serr, it.stratum)
		}
		if size <= 400 && printable(it.content) {
			input["text"] = string(it.content)
		}
		var tris []tri
		for j := 0; j+8 < len(res.Tris); j += 9 {
			var t tri
			for q := 0; q < 9; q++ {
				u, _ := strconv.ParseUint(res.Tris[j+q], 16, 64)
				t[q/3][q%3] = math.Float64frombits(u)
			}
			tris = append(tris, t)
		}
		if size > 200000 {
			// too large to ship to coqc: direct oracles only (answer within the deadline, no panic, allocation)
			directOnly++
		} else if term := StlLoadCase(i+1, it.content, res.Cls, tris, res.ICls); size > 20000 {
			small.Add(term)
		} else {
			cs.Add(term)
		}
		if i%211 == 3 {
			r.Sample(map[string]interface{}{"stratum": it.stratum, "size": size, "class": res.Cls, "triangles": len(tris), "loadstl_alloc_bytes": res.Alloc})
		}
		// direct oracles
		if res.Cls == 2 {
			r.Violate(key, fmt.Sprintf("LoadSTL does not return (%s) on a %d-byte file [%s]", res.Msg, size, it.stratum), input)
		} else if res.ICls == 2 {
			r.Violate(key, fmt.Sprintf("obj.ImportSTL does not return (%s) on a %d-byte file [%s]", res.IMsg, size, it.stratum), input)
		}
		// allocation in proportion to the size of the file
		if lim := uint64(allocBase + allocPerByte*size); res.Cls != 2 && res.Alloc > lim {
			r.Violate(key, fmt.Sprintf("LoadSTL allocates %d bytes for a %d-byte file (limit %d + %d per byte) [%s]", res.Alloc, size, allocBase, allocPerByte, it.stratum), input)
		}
		if lim := uint64(iallocBase + iallocPerByte*size); res.ICls != 2 && res.IAlloc > lim {
			r.Violate(key, fmt.Sprintf("obj.ImportSTL allocates %d bytes for a %d-byte file (limit %d + %d per byte) [%s]", res.IAlloc, size, iallocBase, iallocPerByte, it.stratum), input)
		}
		if size >= 100 {
			maxRatio = math.Max(maxRatio, float64(res.Alloc)/float64(size))
			maxIRatio = math.Max(maxIRatio, float64(res.IAlloc)/float64(size))
		}
		if (res.Cls == 0) != (res.ICls == 0) && res.Cls != 2 && res.ICls != 2 {
			r.Violate(key, fmt.Sprintf("LoadSTL class %d but obj.ImportSTL class %d on the same file [%s]", res.Cls, res.ICls, it.stratum), input)
		}
	}
	r.Coverage["files_over_200000_bytes_checked_by_direct_oracles_only"] = directOnly
	r.Coverage["max_alloc_per_byte_loadstl(files>=100B)"] = maxRatio
	r.Coverage["max_alloc_per_byte_importstl(files>=100B)"] = maxIRatio
	if err := cs.Write(c.Out); err != nil {
		return err
	}
	if small.Len() > 0 {
		if err := small.Write(c.Out); err != nil {
			return err
		}
	}
	r.Rule = "files: (a) well-formed ASCII listings of 0..25 facets with one named mutation (1-2 extra or missing vertex lines, malformed numbers, stray tokens, short vertex lines, lines of 65534..140000 bytes around bufio.Scanner's limit, CR/CRLF, NUL, BOM, unicode spaces, deleted/duplicated lines, truncation, garbage tail, vertex lines only); (b) binary files of 0..60 records with one mutation (truncation at and around every field/record boundary, 1..100 extra bytes, count +-1 / 0 / 0x80000000 / 0xffffffff / random, bit flips, consistent re-count, text in the header); (c) long lines: one line of 65535, 65536, 65537, 2^20, 2^20+1 and 3*2^20 bytes (thorough: more, up to 8 MiB) as the whole file without newline, with a newline only at the end, and as a comment line inside a valid listing after 3..5 vertex lines - each must be answered within the per-file deadline; (d) raw: random bytes, random bytes of a consistent binary size, text of exactly a binary size, exactly 84 bytes, token soup, k vertex lines for k mod 3 = 0,1,2; plus the corpus. Each file is loaded by render.LoadSTL and obj.ImportSTL in a child process. non-trivial = non-empty file; distinct by content."
	r.Trusted = append(r.Trusted,
		"hand model coq/Io/StlLoad.v of LoadSTL/loadSTLAscii/loadSTLBinary tied by differential execution inside coqc (outcome class of LoadSTL and ImportSTL, and every loaded coordinate bit for bit, NaN as one class)",
		"tokenisation oracle: bufio.Scanner (default 64 KiB limit), strings.Fields, strconv.ParseFloat are run by the harness on the same bytes and given to the model",
		fmt.Sprintf("child-process measurement: recover(), %v watchdog per file, RLIMIT_AS %d GiB, runtime.MemStats.TotalAlloc (limits: LoadSTL %d + %d/byte, ImportSTL %d + %d/byte)", perFileTimeout, addressLimit>>30, allocBase, allocPerByte, iallocBase, iallocPerByte))
	r.Assumptions = append(r.Assumptions,
		"the binary path with a very large count needs a file of that size (84+50*count bytes); counts up to 60 are executed, larger ones are covered by the theorem alloc_proportional only",
		"termination of bufio.Scanner / ParseFloat / binary.Read on finite input is assumed (standard library); observed through the watchdog",
		"I/O errors other than end of file are outside the model",
		"files larger than 200000 bytes are checked by the direct oracles only (deadline, panic, allocation), not by the model; the scanner limit the model relies on (scanner error iff some line has 65536 bytes or more) is asserted on every generated file")
	return nil
}

const (
	allocBase     = 1 << 20 // scanner buffer (up to 64 KiB, doubled while growing), bufio reader, file structures
	allocPerByte  = 64
	iallocBase    = 1 << 20
	iallocPerByte = 256 // ImportSTL also builds an R-tree over the triangles
)

func printable(b []byte) bool {
	for _, c := range b {
		if (c < 0x20 && c != '\n' && c != '\r' && c != '\t') || c > 0x7e {
			return false
		}
	}
	return true
}

func fileKey(b []byte) string {
	if len(b) <= 120 {
		if printable(b) {
			return "file:" + strconv.Quote(string(b))
		}
		return fmt.Sprintf("file:hex:%x", b)
	}
	// FNV-1a over the content
	h := uint64(14695981039346656037)
	for _, c := range b {
		h ^= uint64(c)
		h *= 1099511628211
	}
	return fmt.Sprintf("file:%d bytes,fnv=%016x", len(b), h)
}
