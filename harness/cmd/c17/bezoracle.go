package main

// Direct oracle on Bezier.Polygon().Vertices(): the control polygon is expanded here
// independently (handles -> control points, closure, spans), every emitted vertex must be the
// de Casteljau point of its span at a dyadic parameter k/512, parameters strictly increasing
// along the curve, end control points hit, straight spans reproduced by their two endpoints.

import (
	"fmt"
	"math"
	"math/big"

	v2 "github.com/deadsy/sdfx/vec/v2"
)

type ctrl struct {
	p   v2.Vec
	mid bool
}

// expected outcome class and spans (control points of each spline) of a specification
func bezExpand(s bezSpec) (outcome int, spans [][]v2.Vec) {
	var cl []ctrl
	for _, v := range s.V {
		mid := false
		var fwd, rev [2]float64 // r, theta
		for _, o := range v.Ops {
			switch o.Op {
			case "mid":
				mid = true
			case "hfwd":
				if mid {
					return outPanic, nil
				}
				fwd = [2]float64{math.Abs(o.B), o.A}
			case "hrev":
				if mid {
					return outPanic, nil
				}
				rev = [2]float64{math.Abs(o.B), o.A}
			case "handle":
				if mid {
					return outPanic, nil
				}
				fwd = [2]float64{math.Abs(o.B), o.A}
				rev = [2]float64{math.Abs(o.C), o.A + math.Pi}
			}
		}
		p := v2.Vec{X: v.X, Y: v.Y}
		if rev[0] != 0 {
			cl = append(cl, ctrl{v2.Vec{X: p.X + rev[0]*math.Cos(rev[1]), Y: p.Y + rev[0]*math.Sin(rev[1])}, true})
		}
		cl = append(cl, ctrl{p, mid})
		if fwd[0] != 0 {
			cl = append(cl, ctrl{v2.Vec{X: p.X + fwd[0]*math.Cos(fwd[1]), Y: p.Y + fwd[0]*math.Sin(fwd[1])}, true})
		}
	}
	// leading midpoints go to the end
	i := 0
	for i < len(cl) && cl[i].mid {
		i++
	}
	if i == len(cl) {
		return outError, nil // no endpoint at all
	}
	cl = append(append([]ctrl{}, cl[i:]...), cl[:i]...)
	if s.Closed {
		if len(cl) < 2 {
			return outError, nil
		}
		first, last := cl[0], cl[len(cl)-1]
		if last.mid || math.Abs(last.p.X-first.p.X) > 1e-9 || math.Abs(last.p.Y-first.p.Y) > 1e-9 {
			cl = append(cl, first)
		}
	}
	if len(cl) < 2 || cl[len(cl)-1].mid {
		return outError, nil
	}
	var cur []v2.Vec
	for k, c := range cl {
		cur = append(cur, c.p)
		if !c.mid && k > 0 {
			spans = append(spans, cur)
			cur = []v2.Vec{c.p}
		}
	}
	for _, sp := range spans {
		if len(sp) > 5 {
			return outPanic, nil
		}
	}
	return outVerts, spans
}

func deCasteljau(cp []v2.Vec, t float64) v2.Vec {
	w := append([]v2.Vec{}, cp...)
	for m := len(w) - 1; m > 0; m-- {
		for i := 0; i < m; i++ {
			w[i] = v2.Vec{X: (1-t)*w[i].X + t*w[i+1].X, Y: (1-t)*w[i].Y + t*w[i+1].Y}
		}
	}
	return w[0]
}

// exact de Casteljau at k/512
func deCasteljauRat(cp []v2.Vec, k int) (x, y *big.Rat) {
	t := big.NewRat(int64(k), 512)
	u := new(big.Rat).Sub(big.NewRat(1, 1), t)
	ev := func(c []float64) *big.Rat {
		w := make([]*big.Rat, len(c))
		for i, f := range c {
			w[i] = new(big.Rat).SetFloat64(f)
		}
		for m := len(w) - 1; m > 0; m-- {
			for i := 0; i < m; i++ {
				a := new(big.Rat).Mul(u, w[i])
				b := new(big.Rat).Mul(t, w[i+1])
				w[i] = a.Add(a, b)
			}
		}
		return w[0]
	}
	xs, ys := make([]float64, len(cp)), make([]float64, len(cp))
	for i, p := range cp {
		xs[i], ys[i] = p.X, p.Y
	}
	return ev(xs), ev(ys)
}

func isPoint(sp []v2.Vec) bool {
	for _, p := range sp[1:] {
		if p != sp[0] {
			return false
		}
	}
	return true
}

type bezStats struct {
	lastInexact int // last vertex equal to the end control point only within rounding
	verts       int
}

// bezOracle returns the oracle stratum
func bezOracle(s bezSpec, vs []v2.Vec, outcome int, st *bezStats, viol violFn) string {
	want, all := bezExpand(s)
	if outcome != want {
		names := []string{"vertices", "error", "panic"}
		viol(fmt.Sprintf("outcome %s, expected %s", names[outcome], names[want]))
		return "outcome"
	}
	if want != outVerts {
		return []string{"", "error", "panic"}[want]
	}
	var spans [][]v2.Vec
	for _, sp := range all {
		if !isPoint(sp) {
			spans = append(spans, sp)
		}
	}
	if len(spans) == 0 {
		if len(vs) != 0 {
			viol("a curve whose spans are all points must produce no vertices")
		}
		return "allpoints"
	}
	name := fmt.Sprintf("spans%d", len(spans))
	if len(spans) > 4 {
		name = "spans5+"
	}
	var pts []v2.Vec
	for _, sp := range spans {
		pts = append(pts, sp...)
	}
	scale := maxAbs(pts...)
	tol := 1e-9 * scale
	q := len(spans)
	m := len(vs) - 1
	if m < 1 {
		viol(fmt.Sprintf("%d vertices for %d curved spans", len(vs), q))
		return name
	}
	for _, v := range vs {
		if !finite(v) {
			viol(fmt.Sprintf("non-finite vertex %v", v))
			return name
		}
	}
	st.verts += len(vs)
	P0, Pn := spans[0][0], spans[q-1][len(spans[q-1])-1]
	on := func(pos int, v v2.Vec) bool { // pos = span*512 + k, k in 0..512
		i, k := pos/512, pos%512
		if i == q {
			i, k = q-1, 512
		}
		if !(norm(sub(deCasteljau(spans[i], float64(k)/512), v)) <= tol) {
			return false
		}
		if s.Exact {
			x, y := deCasteljauRat(spans[i], k)
			return x.Cmp(new(big.Rat).SetFloat64(v.X)) == 0 && y.Cmp(new(big.Rat).SetFloat64(v.Y)) == 0
		}
		return true
	}
	// start and end exactly at the end control points
	{
		if vs[0] != P0 && (s.Exact || norm(sub(vs[0], P0)) > 1e-11*scale) {
			viol(fmt.Sprintf("first vertex %v is not the first control point %v", vs[0], P0))
			return name
		}
		if vs[m] != Pn {
			if s.Exact || norm(sub(vs[m], Pn)) > 1e-11*scale {
				viol(fmt.Sprintf("last vertex %v is not the last control point %v", vs[m], Pn))
				return name
			}
			st.lastInexact++
		}
	}
	if s.Closed && (s.Exact && vs[m] != vs[0] || norm(sub(vs[m], vs[0])) > 2e-9*math.Max(scale, 1)) {
		viol(fmt.Sprintf("closed curve: last vertex %v differs from the first %v", vs[m], vs[0]))
		return name
	}
	// greedy recovery of strictly increasing parameters
	pos := 0
	if !on(0, vs[0]) {
		viol("first vertex is not the curve point at parameter 0")
		return name
	}
	hit := map[int]bool{0: true}
	for j := 1; j <= m; j++ {
		found := -1
		for c := pos + 1; c <= q*512; c++ {
			if on(c, vs[j]) {
				found = c
				break
			}
		}
		if found < 0 {
			viol(fmt.Sprintf("vertex %d = %v is not a point of the curve at any dyadic parameter beyond span %d, t = %d/512 (the parameter of the vertex before it): off the curve or out of order", j, vs[j], pos/512, pos%512))
			return name
		}
		pos = found
		hit[pos] = true
	}
	if !on(q*512, vs[m]) {
		viol("last vertex is not the curve point at parameter 1 of the last span")
		return name
	}
	// every span boundary (end control point) is a vertex; straight spans have nothing in between
	for i := 1; i < q; i++ {
		ok := false
		for _, v := range vs {
			if on(i*512, v) {
				ok = true
				break
			}
		}
		if !ok {
			viol(fmt.Sprintf("the polyline does not pass through the end control point between spans %d and %d", i-1, i))
			return name
		}
	}
	for i, sp := range spans {
		if len(sp) == 2 {
			for k := 1; k < 512; k++ {
				if hit[i*512+k] {
					viol(fmt.Sprintf("straight span %d is not reproduced by its two endpoints alone (extra vertex at t = %d/512)", i, k))
					return name
				}
			}
		}
	}
	return name
}
