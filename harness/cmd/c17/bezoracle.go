package main

// Direct oracle on Bezier.Polygon().Vertices(): the control polygon is expanded here
// independently (handles -> control points, closure, spans), every emitted vertex must be the
// de Casteljau point of its span at a dyadic parameter k/512, parameters strictly increasing
// along the curve, end control points hit, straight spans reproduced by their two endpoints.

import (
	"fmt"
	"math"
	"math/big"

	v2 "github.com/deadsy/sdfx/vec/v2"
)

type ctrl struct {
	p   v2.Vec
	mid bool
}

// expected outcome class and spans (control points of each spline) of a specification
func bezExpand(s bezSpec) (outcome int, spans [][]v2.Vec) {
	var cl []ctrl
	for _, v := range s.V {
		mid := false
		var fwd, rev [2]float64 // r, theta
		for _, o := range v.Ops {
			switch o.Op {
			case "mid":
				mid = true
			case "hfwd":
				if mid {
					return outPanic, nil
				}
				fwd = [2]float64{math.Abs(o.B), o.A}
			case "hrev":
				if mid {
					return outPanic, nil
				}
				rev = [2]float64{math.Abs(o.B), o.A}
			case "handle":
				if mid {
					return outPanic, nil
				}
				fwd = [2]float64{math.Abs(o.B), o.A}
				rev = [2]float64{math.Abs(o.C), o.A + math.Pi}
			}
		}
		p := v2.Vec{X: v.X, Y: v.Y}
		if rev[0] != 0 {
			cl = append(cl, ctrl{v2.Vec{X: p.X + rev[0]*math.Cos(rev[1]), Y: p.Y + rev[0]*math.Sin(rev[1])}, true})
		}
		cl = append(cl, ctrl{p, mid})
		if fwd[0] != 0 {
			cl = append(cl, ctrl{v2.Vec{X: p.X + fwd[0]*math.Cos(fwd[1]), Y: p.Y + fwd[0]*math.Sin(fwd[1])}, true})
		}
	}
	// leading midpoints go to the end
	i := 0
	for i < len(cl) && cl[i].mid {
		i++
	}
	if i == len(cl) {
		return outError, nil // no endpoint at all
	}
	cl = append(append([]ctrl{}, cl[i:]...), cl[:i]...)
	if s.Closed {
		if len(cl) < 2 {
			return outError, nil
		}
		first, last := cl[0], cl[len(cl)-1]
		if last.mid || math.Abs(last.p.X-first.p.X) > 1e-9 || math.Abs(last.p.Y-first.p.Y) > 1e-9 {
			cl = append(cl, first)
		}
	}
	if len(cl) < 2 || cl[len(cl)-1].mid {
		return outError, nil
	}
	var cur []v2.Vec
	for k, c := range cl {
		cur = append(cur, c.p)
		if !c.mid && k > 0 {
			spans = append(spans, cur)
			cur = []v2.Vec{c.p}
		}
	}
	for _, sp := range spans {
		if len(sp) > 5 {
			return outPanic, nil
		}
	}
	return outVerts, spans
}

func deCasteljau(cp []v2.Vec, t float64) v2.Vec {
	w := append([]v2.Vec{}, cp...)
	for m := len(w) - 1; m > 0; m-- {
		for i := 0; i < m; i++ {
			w[i] = v2.Vec{X: (1-t)*w[i].X + t*w[i+1].X, Y: (1-t)*w[i].Y + t*w[i+1].Y}
		}
	}
	return w[0]
}

// exact de Casteljau at k/512
func deCasteljauRat(cp []v2.Vec, k int) (x, y *big.Rat) {
	t := big.NewRat(int64(k), 512)
	u := new(big.Rat).Sub(big.NewRat(1, 1), t)
	ev := func(c []float64) *big.Rat {
		w := make([]*big.Rat, len(c))
		for i, f := range c {
			w[i] = new(big.Rat).SetFloat64(f)
		}
		for m := len(w) - 1; m > 0; m-- {
			for i := 0; i < m; i++ {
				a := new(big.Rat).Mul(u, w[i])
				b := new(big.Rat).Mul(t, w[i+1])
				w[i] = a.Add(a, b)
			}
		}
		return w[0]
	}
	xs, ys := make([]float64, len(cp)), make([]float64, len(cp))
	for i, p := range cp {
		xs[i], ys[i] = p.X, p.Y
	}
	return ev(xs), ev(ys)
}

func isPoint(sp []v2.Vec) bool {
	for _, p := range sp[1:] {
		if p != sp[0] {
			return false
		}
	}
	return true
}

type bezStats struct {
	lastInexact int // last vertex equal to the end control point only within rounding
	verts       int
	maxRound    float64 // largest observed |vertex - exact curve point| on an axis where nothing may be dropped, in units of 3^n 2^-53 max|control coordinate|
	dropAxes    int     // span axes on which BezierPolynomial.Set may drop a coefficient (below 1e-12 of the coefficient sum)
	optional    int     // spans that may be skipped as points (every non-constant coefficient below 1e-12 of the sum on both axes)
}

// Tolerance of one span, per axis.  The curve is judged against the exact rational de Casteljau
// point with a tolerance made of two parts:
//   - rounding: roundK 3^n 2^-53 max|x_i| (n = degree, x_i = the control coordinates on that axis;
//     3^n = total weight of the control coordinates in the monomial coefficients, which is what the
//     rounding of any float64 evaluation scheme is proportional to).  For a curve of extent E at
//     offset O on that axis this is roundK 3^n 1.1e-16 (O/E) of the extent: the direct oracle has
//     six digits of the extent at E/O = 1e-9, three at 1e-12 and nothing below about 1e-14.
//   - what the claim concedes to BezierPolynomial.Set: a monomial coefficient below 1e-12 of the
//     sum of |coefficients| of its axis may be dropped (it moves the curve by at most its own size
//     on [0,1]); nothing else may.  A span all of whose non-constant coefficients may be dropped on
//     both axes may be skipped as a point.
//
// roundK: a term-by-term bound of the rounding of Set's coefficient formulas followed by Horner's
// rule on [0,1] is 10.4 of these units for a quartic (3.1 from the coefficients, 7.3 from Horner;
// all roundings aligned and all control values +-max with alternating signs); the largest error
// observed is reported in the coverage (about 1).
const (
	roundK  = 16
	dropEps = 1e-12
)

type spanTol struct {
	tx, ty       float64 // absolute tolerance per axis
	rx, ry       float64 // rounding part alone (0 for an axis of zeros)
	dropx, dropy bool    // a coefficient may be dropped on this axis
	optional     bool    // may be skipped (ratio of every non-constant coefficient below 1.01e-12 on both axes)
	nominalSkip  bool    // ... below 1e-12: what the code with epsilon = 1e-12 does
}

// monomial coefficients (exact) of the Bernstein form with control values x: c_j = C(n,j) sum_i (-1)^(i+j) C(j,i) x_i
func monomial(x []float64) []*big.Rat {
	n := len(x) - 1
	binom := func(n, k int) int64 {
		r := int64(1)
		for i := 0; i < k; i++ {
			r = r * int64(n-i) / int64(i+1)
		}
		return r
	}
	cs := make([]*big.Rat, n+1)
	for j := 0; j <= n; j++ {
		acc := new(big.Rat)
		for i := 0; i <= j; i++ {
			t := new(big.Rat).SetFloat64(x[i])
			t.Mul(t, big.NewRat(binom(j, i), 1))
			if (i+j)%2 == 1 {
				t.Neg(t)
			}
			acc.Add(acc, t)
		}
		cs[j] = acc.Mul(acc, big.NewRat(binom(n, j), 1))
	}
	return cs
}

// axisTol returns the tolerance of one axis, whether a coefficient may be dropped, and the largest
// ratio |c_j| / sum over the non-constant coefficients (0 when they all vanish)
func axisTol(x []float64) (tol, round float64, drop bool, ratio float64) {
	n := len(x) - 1
	cs := monomial(x)
	abs := make([]float64, len(cs))
	sum, mx := 0.0, 0.0
	for j, c := range cs {
		f, _ := c.Float64()
		abs[j] = math.Abs(f)
		sum += abs[j]
	}
	for _, v := range x {
		mx = math.Max(mx, math.Abs(v))
	}
	round = roundK * math.Pow(3, float64(n)) * 0x1p-53 * mx
	tol = round
	for j, a := range abs {
		if a != 0 && a < 1.01*dropEps*sum {
			tol += a
			drop = true
		}
		if j > 0 && sum > 0 {
			ratio = math.Max(ratio, a/sum)
		}
	}
	return
}

func spanTolOf(sp []v2.Vec) spanTol {
	xs, ys := make([]float64, len(sp)), make([]float64, len(sp))
	for i, p := range sp {
		xs[i], ys[i] = p.X, p.Y
	}
	var t spanTol
	var qx, qy float64
	t.tx, t.rx, t.dropx, qx = axisTol(xs)
	t.ty, t.ry, t.dropy, qy = axisTol(ys)
	q := math.Max(qx, qy)
	t.optional = q < 1.01*dropEps
	t.nominalSkip = q < dropEps
	return t
}

// bezOracle returns the oracle stratum
func bezOracle(s bezSpec, vs []v2.Vec, outcome int, st *bezStats, viol violFn) string {
	want, all := bezExpand(s)
	if outcome != want {
		names := []string{"vertices", "error", "panic"}
		viol(fmt.Sprintf("outcome %s, expected %s", names[outcome], names[want]))
		return "outcome"
	}
	if want != outVerts {
		return []string{"", "error", "panic"}[want]
	}
	var spans [][]v2.Vec
	var tols []spanTol
	var opt []int // indices (in spans) of the spans that may be skipped
	for _, sp := range all {
		if !isPoint(sp) {
			t := spanTolOf(sp)
			if t.optional {
				opt = append(opt, len(spans))
				st.optional++
			}
			if t.dropx {
				st.dropAxes++
			}
			if t.dropy {
				st.dropAxes++
			}
			spans, tols = append(spans, sp), append(tols, t)
		}
	}
	// alternatives: which of the optional spans are skipped.  The first one is what a Set() with
	// epsilon = 1e-12 does; its complaint is the one reported when no alternative is accepted.
	pick := func(skip func(i int) bool) ([][]v2.Vec, []spanTol) {
		var a [][]v2.Vec
		var b []spanTol
		for i := range spans {
			if !(tols[i].optional && skip(i)) {
				a, b = append(a, spans[i]), append(b, tols[i])
			}
		}
		return a, b
	}
	type alt func(i int) bool
	alts := []alt{func(i int) bool { return tols[i].nominalSkip }}
	if len(opt) > 0 {
		alts = append(alts, func(int) bool { return false }, func(int) bool { return true })
		if len(opt) <= 4 {
			for m := 1; m < 1<<len(opt)-1; m++ {
				m := m
				alts = append(alts, func(i int) bool {
					for b, j := range opt {
						if j == i {
							return m>>b&1 == 1
						}
					}
					return false
				})
			}
		}
	}
	var first string
	var name string
	for k, a := range alts {
		sp, tl := pick(a)
		var sub bezStats
		nm, msg := bezJudge(s, sp, tl, vs, &sub)
		if k == 0 {
			first, name = msg, nm
		}
		if msg == "" {
			st.verts += sub.verts
			st.lastInexact += sub.lastInexact
			st.maxRound = math.Max(st.maxRound, sub.maxRound)
			if len(opt) > 0 {
				nm += "/optional-spans"
			}
			return nm
		}
	}
	viol(first)
	return name
}

// bezJudge checks the polyline against the given (non-skipped) spans; msg = "" when it is accepted
func bezJudge(s bezSpec, spans [][]v2.Vec, tols []spanTol, vs []v2.Vec, st *bezStats) (name, msg string) {
	if len(spans) == 0 {
		if len(vs) != 0 {
			return "allpoints", "a curve whose spans are all points must produce no vertices"
		}
		return "allpoints", ""
	}
	name = fmt.Sprintf("spans%d", len(spans))
	if len(spans) > 4 {
		name = "spans5+"
	}
	var pts []v2.Vec
	for _, sp := range spans {
		pts = append(pts, sp...)
	}
	scale := maxAbs(pts...)
	q := len(spans)
	m := len(vs) - 1
	if m < 1 {
		return name, fmt.Sprintf("%d vertices for %d curved spans", len(vs), q)
	}
	for _, v := range vs {
		if !finite(v) {
			return name, fmt.Sprintf("non-finite vertex %v", v)
		}
	}
	st.verts += len(vs)
	P0, Pn := spans[0][0], spans[q-1][len(spans[q-1])-1]
	within := func(a, b v2.Vec, t spanTol) bool { return math.Abs(a.X-b.X) <= t.tx && math.Abs(a.Y-b.Y) <= t.ty }
	off := func(a, b v2.Vec, t spanTol) string {
		return fmt.Sprintf("off by (%.3g, %.3g), tolerance (%.3g, %.3g) = rounding of the control coordinates plus the coefficients below 1e-12 of the coefficient sum", a.X-b.X, a.Y-b.Y, t.tx, t.ty)
	}
	on := func(pos int, v v2.Vec) bool { // pos = span*512 + k, k in 0..512
		i, k := pos/512, pos%512
		if i == q {
			i, k = q-1, 512
		}
		t := tols[i]
		// cheap filter: float64 de Casteljau (its own rounding: below 8 (n+1) 2^-53 of the axis scale, < the rounding part)
		d := sub(deCasteljau(spans[i], float64(k)/512), v)
		if !(math.Abs(d.X) <= t.tx+t.rx && math.Abs(d.Y) <= t.ty+t.ry) {
			return false
		}
		x, y := deCasteljauRat(spans[i], k)
		if s.Exact {
			return x.Cmp(new(big.Rat).SetFloat64(v.X)) == 0 && y.Cmp(new(big.Rat).SetFloat64(v.Y)) == 0
		}
		ex, _ := x.Sub(x, new(big.Rat).SetFloat64(v.X)).Float64()
		ey, _ := y.Sub(y, new(big.Rat).SetFloat64(v.Y)).Float64()
		ex, ey = math.Abs(ex), math.Abs(ey)
		if !(ex <= t.tx && ey <= t.ty) {
			return false
		}
		// measured rounding (reported in the coverage): only where the tolerance is far below the
		// distance between neighbouring dyadic parameters, so that the parameter found is the true one
		if !t.dropx && t.rx > 0 && t.rx <= 0x1p-20*extent(spans[i], 0) {
			st.maxRound = math.Max(st.maxRound, ex/t.rx*roundK)
		}
		if !t.dropy && t.ry > 0 && t.ry <= 0x1p-20*extent(spans[i], 1) {
			st.maxRound = math.Max(st.maxRound, ey/t.ry*roundK)
		}
		return true
	}
	// start and end exactly at the end control points
	{
		if vs[0] != P0 && (s.Exact || !within(vs[0], P0, tols[0])) {
			return name, fmt.Sprintf("first vertex %v is not the first control point %v (%s)", vs[0], P0, off(vs[0], P0, tols[0]))
		}
		if vs[m] != Pn {
			if s.Exact || !within(vs[m], Pn, tols[q-1]) {
				return name, fmt.Sprintf("last vertex %v is not the last control point %v (%s)", vs[m], Pn, off(vs[m], Pn, tols[q-1]))
			}
			st.lastInexact++
		}
	}
	if s.Closed && (s.Exact && vs[m] != vs[0] || norm(sub(vs[m], vs[0])) > 2e-9*math.Max(scale, 1)) {
		return name, fmt.Sprintf("closed curve: last vertex %v differs from the first %v", vs[m], vs[0])
	}
	// greedy recovery of strictly increasing parameters
	pos := 0
	if !on(0, vs[0]) {
		return name, "first vertex is not the curve point at parameter 0"
	}
	hit := map[int]bool{0: true}
	for j := 1; j <= m; j++ {
		found := -1
		// a straight span has nothing between its end points: where the tolerance does not separate
		// the dyadic parameters of the segment any more, its end point is the reading to take
		for c := pos + 1; found < 0 && c <= q*512; c++ {
			if i := c / 512; i < q && c%512 != 0 && len(spans[i]) == 2 && on((i+1)*512, vs[j]) {
				found = (i + 1) * 512
			} else if on(c, vs[j]) {
				found = c
			}
		}
		if found < 0 {
			i := pos / 512
			if i == q {
				i = q - 1
			}
			return name, fmt.Sprintf("vertex %d = %v is not a point of the curve at any dyadic parameter beyond span %d, t = %d/512 (the parameter of the vertex before it): off the curve or out of order (tolerance of that span (%.3g, %.3g) = rounding of the control coordinates plus the coefficients below 1e-12 of the coefficient sum; extent of its control polygon (%.3g, %.3g))",
				j, vs[j], pos/512, pos%512, tols[i].tx, tols[i].ty, extent(spans[i], 0), extent(spans[i], 1))
		}
		pos = found
		hit[pos] = true
	}
	if !on(q*512, vs[m]) {
		return name, "last vertex is not the curve point at parameter 1 of the last span"
	}
	// every span boundary (end control point) is a vertex; straight spans have nothing in between
	for i := 1; i < q; i++ {
		ok := false
		for _, v := range vs {
			if on(i*512, v) {
				ok = true
				break
			}
		}
		if !ok {
			return name, fmt.Sprintf("the polyline does not pass through the end control point between spans %d and %d", i-1, i)
		}
	}
	for i, sp := range spans {
		if len(sp) == 2 {
			for k := 1; k < 512; k++ {
				if hit[i*512+k] {
					return name, fmt.Sprintf("straight span %d is not reproduced by its two endpoints alone (extra vertex at t = %d/512)", i, k)
				}
			}
		}
	}
	return name, ""
}

func extent(sp []v2.Vec, axis int) float64 {
	lo, hi := math.Inf(1), math.Inf(-1)
	for _, p := range sp {
		c := p.X
		if axis == 1 {
			c = p.Y
		}
		lo, hi = math.Min(lo, c), math.Max(hi, c)
	}
	return hi - lo
}
