package main

// C17: profile builders produce the geometry they specify (sdf/poly.go, sdf/bezier.go).
// Model: coq/Sdf/Build.v, coq/Sdf/Bezier.v; cases evaluated by coq/Sdf/C17Corr.v.

import (
	"encoding/json"
	"fmt"
	"math"
	"os"
	"path/filepath"

	"github.com/deadsy/sdfx/sdf"
	. "verifharness/kit"
	"verifharness/profgen"
)

// gen: harness/profgen extracts the control skeletons of sdf/poly.go and sdf/bezier.go
// (nextVertex, prevVertex, the createArcs / smoothVertices loops, fixups, the endpoint/midpoint
// loop of Bezier.Polygon) into coq/Generated/ProfSkel.v; coq/Sdf/ProfEq.v proves them equal to the model.
func main() { Main("C17", check, stateGen, profgen.Gen) }

const imp = "From Sdfx Require Import Num.Ops Num.FInst Sdf.Build Sdf.Bezier Sdf.C17Corr.\nOpen Scope float_scope."
const imph = "From Sdfx Require Import Num.Ops Num.FInst Sdf.Build Sdf.Bezier Sdf.C17Corr Sdf.C17Hist.\nOpen Scope float_scope."

type corpus struct {
	Poly     []polySpec  `json:"poly"`
	Nagon    []nagonSpec `json:"nagon"`
	Bezier   []bezSpec   `json:"bezier"`
	PolyHist []polyHist  `json:"polyhist"`
	BezHist  []bezHist   `json:"bezhist"`
}

type runner struct {
	r          *Report
	cp, cn, cb *Cases
	chp, chb   *Cases // histories (hist.go, coq/Sdf/C17Hist.v)
	id         int
	st         bezStats
	oracles    map[string]int
	calls      int // calls of Vertices()/Polygon()/Mesh2D() after the first on the same builder value
}

func (x *runner) poly(stratum string, s polySpec) {
	s.Kind = "poly"
	x.id++
	// the same Polygon value is asked for its vertices three times (hist.go): the first answer is
	// compared with the model and the oracles below, the later ones must repeat it
	h := s.hist(2)
	run := runPolyHist(h)
	vs, panicked := run.res[0].vs, run.res[0].panicked
	x.calls += polyHistOracle(h, run.res, 1, false, func(what string) { x.r.Violate(h.key(), "Polygon history: "+what, h) }, nil)
	x.cp.Add(s.coq(x.id, vs, panicked))
	key := s.key()
	o := polyOracle(s, vs, panicked, func(what string) { x.r.Violate(key, "Polygon.Vertices(): "+what, s) })
	if o != "" {
		x.oracles["poly/"+o]++
	}
	x.r.Case("poly/"+stratum, key, len(s.V) >= 2)
	if x.id%173 == 0 {
		x.r.Sample(map[string]interface{}{"spec": s, "vertices": len(vs), "oracle": o})
	}
}

func (x *runner) nagon(stratum string, n int, radius float64) {
	x.id++
	vs := sdf.Nagon(n, radius)
	x.cn.Add(fmt.Sprintf("(%d%%N, %s, %s, %s)", x.id, coqZ(n), CF(radius), coqPts(vs)))
	key := fmt.Sprintf("nagon:%d,%x", n, radius)
	nagonOracle(n, radius, vs, func(what string) {
		x.r.Violate(key, "Nagon: "+what, nagonSpec{"nagon", n, radius})
	})
	x.r.Case("nagon/"+stratum, key, n >= 3)
}

func (x *runner) bezier(stratum string, s bezSpec) {
	s.Kind = "bezier"
	x.id++
	// the same Bezier value is rendered twice with the same perturbation draws (every third one
	// also through Mesh2D()): the first polyline is compared with the model and the oracle below,
	// the second must repeat it (hist.go)
	h := s.hist(x.id%3 == 0)
	run := runBezHist(h)
	vs, outcome, draws := run.res[0].vs, run.res[0].outcome, run.res[0].draws
	x.calls += bezHistOracle(run, 1, false, &x.st, func(what string) {
		if len(run.res) > 1 && run.res[1].built && run.res[1].observed { // say what is wrong with the second polyline itself
			bezOracle(s, run.res[1].vs, run.res[1].outcome, &bezStats{}, func(w string) { what += "; the second polyline against the specified curve: " + w })
		}
		x.r.Violate(h.key(), "Bezier history: "+what, h)
	}, nil)
	x.cb.Add(s.coq(x.id, vs, outcome, draws))
	key := s.key()
	o := bezOracle(s, vs, outcome, &x.st, func(what string) { x.r.Violate(key, "Bezier.Polygon().Vertices(): "+what, s) })
	x.oracles["bezier/"+o]++
	x.r.Case("bezier/"+stratum, key, outcome == outVerts && len(vs) >= 2)
	if x.id%97 == 0 {
		x.r.Sample(map[string]interface{}{"spec": s, "vertices": len(vs), "draws": len(draws), "oracle": o})
	}
}

func check(c *Ctx, r *Report) error {
	if err := selfTestRand(); err != nil {
		return err
	}
	devnull, _ = os.OpenFile(os.DevNull, os.O_WRONLY, 0)
	rng := NewRng(c.Seed)
	x := &runner{r: r, oracles: map[string]int{},
		cp: &Cases{Kind: "poly", Imports: imp, Type: "casep", Fn: "mismatchesp", InfoFn: "inexactp", PerShard: 150},
		cn: &Cases{Kind: "nagon", Imports: imp, Type: "casen", Fn: "mismatchesn", InfoFn: "inexactn", PerShard: 40},
		cb:  &Cases{Kind: "bezier", Imports: imp, Type: "caseb", Fn: "mismatchesb", InfoFn: "inexactb", PerShard: 40},
		chp: &Cases{Kind: "hpoly", Imports: imph, Type: "casehp", Fn: "mismatcheshp", InfoFn: "inexacthp", PerShard: 40},
		chb: &Cases{Kind: "hbezier", Imports: imph, Type: "casehb", Fn: "mismatcheshb", InfoFn: "inexacthb", PerShard: 14}}

	// corpus first
	var cp corpus
	if b, err := os.ReadFile(filepath.Join(c.Verif, "corpus", "C17.json")); err == nil {
		if err := json.Unmarshal(b, &cp); err != nil {
			return fmt.Errorf("corpus: %v", err)
		}
	}
	for _, s := range cp.Poly {
		x.poly("corpus", s)
	}
	for _, s := range cp.Nagon {
		x.nagon("corpus", s.N, s.Radius)
	}
	for _, s := range cp.Bezier {
		x.bezier("corpus", s)
	}
	for _, h := range cp.PolyHist {
		x.polyHist("corpus", h)
	}
	for _, h := range cp.BezHist {
		x.bezHist("corpus", h)
	}
	// replay file of the driver: {"failing_inputs": [{"input": spec}]}
	if c.Replay != "" {
		b, err := os.ReadFile(c.Replay)
		if err != nil {
			return err
		}
		var rp struct {
			Failing []struct {
				Input json.RawMessage `json:"input"`
			} `json:"failing_inputs"`
		}
		if err := json.Unmarshal(b, &rp); err != nil {
			return err
		}
		for _, f := range rp.Failing {
			var k struct {
				Kind string `json:"kind"`
			}
			json.Unmarshal(f.Input, &k)
			switch k.Kind {
			case "poly":
				var s polySpec
				json.Unmarshal(f.Input, &s)
				x.poly("replay", s)
			case "nagon":
				var s nagonSpec
				json.Unmarshal(f.Input, &s)
				x.nagon("replay", s.N, s.Radius)
			case "bezier":
				var s bezSpec
				json.Unmarshal(f.Input, &s)
				x.bezier("replay", s)
			case "polyhist":
				var h polyHist
				json.Unmarshal(f.Input, &h)
				x.polyHist("replay", h)
			case "bezhist":
				var h bezHist
				json.Unmarshal(f.Input, &h)
				x.bezHist("replay", h)
			}
		}
	} else {
		genPoly(c, rng, x)
		genNagon(c, rng, x)
		genBezier(c, rng, x)
		genPolyHist(c, rng, x)
		genBezHist(c, rng, x)
		// coordinate regimes (regimes.go); generated last so that the cases above do not depend on them
		genBezierRegimes(c, rng, x)
		genPolyRegimes(c, rng, x)
	}

	for _, cs := range []*Cases{x.cp, x.cn, x.cb, x.chp, x.chb} {
		if err := cs.Write(c.Out); err != nil {
			return err
		}
	}
	r.Coverage["direct_oracles"] = x.oracles
	r.Coverage["bezier_vertices_checked"] = x.st.verts
	r.Coverage["calls_after_the_first_on_the_same_builder_value"] = x.calls
	r.Coverage["bezier_last_vertex_equal_only_within_rounding"] = x.st.lastInexact
	r.Coverage["bezier_max_vertex_error_in_units_of_3^n_2^-53_max_control_coordinate"] = math.Round(x.st.maxRound*1000) / 1000
	r.Coverage["bezier_vertex_rounding_tolerance_in_the_same_units"] = roundK
	r.Coverage["bezier_span_axes_where_Set_may_drop_a_coefficient"] = x.st.dropAxes
	r.Coverage["bezier_spans_that_may_be_skipped_as_points"] = x.st.optional
	r.Rule = "polygon builders: three-vertex corners A, V.Smooth(r,n)|V.Chamfer(s), B with interior angles 1..179 degrees (plus 0.1/179.9), both turning directions, edges long / either one shorter than the tangent distance / on the borderline, radii from 1e-6 of the edge to too large, facets 1..16, random and axis-aligned dyadic placement; two-vertex arcs with radius/chord from the exact semicircle limit (all chord directions) to 100, both signs, facets 1..16, chords longer than the diameter (model comparison only); Rel/Polar mixes open/closed/reversed incl. the panicking and erroneous ones; polygons with 2..6 arc segments (stadiums, lenses, scalloped rings, arcs late in the list, up to 40 facets: every arc vertex must be preceded by its facets-1 circle points, vertex count exact); closed and open polygons mixing smoothed, chamfered, arc and plain vertices (adjacent fillets, arcs into the first vertex); zero radius/facet no-ops; Nagon 0..64 sides. Bezier: spans of degree 1..4 from Add/Mid/HandleFwd/HandleRev/Handle, open/closed, 1..6 spans, repeated end points (point spans: leading, inner, trailing), closed curves whose first/last Mid control point sits on (or within 1e-9 of) the first vertex (teardrops, closing quadratic/cubic/quartic), loops and cusps (recursion limit), dyadic-exact regime (vertices must equal the rational de Casteljau point EXACTLY) and rounding regime (1e-9 of the coordinate scale), random / all-low / all-high perturbation draws, malformed curves (error / panic outcomes). HISTORIES: every polygon and Bezier value above is rendered again (Vertices() three times; Polygon() twice with the perturbation source restarted, every third one also Mesh2D()): the later answers must repeat the first bit for bit, polygons handed out earlier must be unchanged at the end; explicit history strata compared call by call with the model run as a state machine (coq/Sdf/C17Hist.v): polygons given in 1..3 stages with Vertices() after each (corner whose fillet vertex is first the last vertex, arc chains, Rel/Polar across a render, mixed rings open / closed from the start), Close() and Reverse() one at a time after a render, Mesh2D() in between (bounding box = that of the polyline); Bezier values with handles rendered 3..5 times (fresh and restarted draws, Mesh2D()), open curves given in stages (a stage may end on a control point), Close() after a render, vertices added behind the closing point, dyadic-exact curves in stages, two values alive and rendered alternately, builder and Polygon() panics followed by further use; one-shot oracles applied to every call whose history is equivalent to a one-shot specification. COORDINATE REGIMES (regimes.go), same oracles and model comparison: Bezier curves (single spans of degree 1..4, several spans open / closed by a last Mid(), handles) FAR FROM THE ORIGIN - extent/offset from 3e-6 down to 3e-13 in every decade plus 3e-13..1e-16, on x only (shallow long curve), on y only, on both (small curve), offsets 1e3..1e10 and powers of two - ABSOLUTELY TINY / HUGE (ordinary and dyadic-exact curves times 2^-500 .. 2^500), STARTING ON OR NEXT TO AN AXIS (start coordinate 1e-6..1e-15 of the extent or 0: the constant coefficient is the small one), NEARLY OF LOWER DEGREE (degree-elevated spans with one control point moved by 1e-6..1e-15 of the extent: the leading coefficient is the small one), and closed curves whose last end point stops 1e-4..1e-13 short of the first vertex (closing straight span required above 1e-9); polygons: fillet / chamfer corners, arcs and rings with arcs / mixed markings at radius/offset 1e-3..1e-10 (offset on x, on y, on both) and scaled by 2^-300 .. 2^300. Bezier vertices are judged per axis against the EXACT rational de Casteljau point with tolerance = 16 3^n 2^-53 max|control coordinate of the span on that axis| (float64 rounding; n = degree; measured maximum about 1 of these units, reported in the coverage) + the monomial coefficients of that axis below 1e-12 of their absolute sum (those Set may drop); a span all of whose non-constant coefficients are below 1e-12 of the sum on both axes may be skipped or not. non-trivial = polygon with >= 2 vertices, n-gon with >= 3 sides, bezier that produced >= 2 vertices, history with >= 2 calls; distinct by exact input bits."
	r.Trusted = append(r.Trusted,
		"hand model coq/Sdf/Build.v, coq/Sdf/Bezier.v tied by differential execution at FOps on every run (bit-exact expected, 1e-12 relative tolerated, counted separately)",
		"control skeletons (Polygon.nextVertex/prevVertex, the createArcs and smoothVertices loops, fixups, the endpoint/midpoint loop of Bezier.Polygon) translated from the Go AST by harness/profgen on every run and proved equal to the model (coq/Sdf/ProfEq.v, theorems C17_SKEL_*); the idiom recognition of the two fixed-point loops and the `for cond {body}` iteration schema are part of the translator",
		"Coq port of Go math.Sin/Cos/Tan/Acos/Sqrt/Abs/Max (coq/Num/GoMath.v, checked by property GOMATH)",
		"hook sdf.VerifC17SetRand: the sampler's random draws are supplied and recorded by the harness (math/rand.Float64 = masked Int63 / 2^53, self-tested each run)")
	r.Assumptions = append(r.Assumptions,
		"theorems are over the reals; float64 rounding is measured on every run (oracle tolerances 1e-9 r for fillets and arcs, exact in the dyadic regime; Bezier: 16 3^n 2^-53 of the largest control coordinate per axis, i.e. for a curve of extent E at offset O from the origin 16 3^n 1.1e-16 O/E of its extent - a quartic is resolved to 1.4e-7 of its extent at E/O = 1e-6, 1.4e-4 at 1e-9, 0.14 at 1e-12), not proved",
		"where the Bezier claim stops: E/O = 1e-12 per axis - not the float64 resolution (about 1e-15) but BezierPolynomial.Set's relative epsilon: a monomial coefficient below 1e-12 of the coefficient sum (whose constant term is the start coordinate) is dropped, so below that ratio the axis collapses to the start coordinate (vertices within 4e-12 O of the curve, the end vertex included), a span below it on both axes is skipped as a point and a whole curve below it yields no vertices; above it a coefficient is dropped only where it is itself below 1e-12 of the sum (a curve nearly of lower degree, a start next to an axis: the curve moves by less than that coefficient) and otherwise the vertices are on the curve and end at the end control points up to the rounding stated above",
		"claim class: radius > 0, facets >= 1, distinct non-collinear corner points; arc chord <= 2|radius|; first polygon vertex absolute; bezier spans of at most 5 control points; BezierPolynomial.Set zeroes coefficients below 1e-12 of the coefficient sum (stated in the theorems)")
	return nil
}

// ---------------------------------------------------------------- generators

func pol(a float64) (float64, float64) { return math.Cos(a), math.Sin(a) }

func genPoly(c *Ctx, rng *Rng, x *runner) {
	angles := []float64{1, 2, 5, 10, 20, 30, 45, 60, 75, 89, 90, 91, 105, 120, 135, 150, 160, 170, 175, 178, 179, 0.1, 179.9}
	reps := TierN(c.Tier, 10, 60, 20)
	for _, adeg := range angles {
		for dir := -1.0; dir <= 1; dir += 2 {
			for rep := 0; rep < reps; rep++ {
				th := adeg * deg
				al := rng.Uniform(0, 2*math.Pi)
				V := [2]float64{rng.Uniform(-20, 20), rng.Uniform(-20, 20)}
				if rep%3 == 0 {
					V = [2]float64{rng.Dyadic(16, 2), rng.Dyadic(16, 2)}
				}
				rad := []float64{1e-6, 0.01, 0.25, 1, 3}[rng.Intn(5)] * rng.Uniform(0.5, 1.5)
				d := rad / math.Tan(th/2)
				class := rep % 5
				L0, L1 := d*rng.Uniform(1.5, 8)+0.1, d*rng.Uniform(1.5, 8)+0.1
				name := "fits"
				switch class {
				case 1:
					L0 = d * rng.Uniform(0.2, 0.98)
					name = "prev-edge-short"
				case 2:
					L1 = d * rng.Uniform(0.2, 0.98)
					name = "next-edge-short"
				case 3:
					L0 = d * (1 + float64(rng.Range(-2, 2))*1e-12)
					name = "borderline"
				}
				c0x, c0y := pol(al)
				c1x, c1y := pol(al + dir*th)
				s := polySpec{V: []vtx{
					{X: V[0] + L0*c0x, Y: V[1] + L0*c0y},
					{X: V[0], Y: V[1]},
					{X: V[0] + L1*c1x, Y: V[1] + L1*c1y}}}
				if rep%4 == 3 {
					s.V[1].Ops = []vop{{Op: "chamfer", A: rad * math.Sqrt2}}
					name = "chamfer/" + name
				} else {
					s.V[1].Ops = []vop{{Op: "smooth", A: rad, N: rng.Range(1, 16)}}
				}
				x.poly(fmt.Sprintf("corner/%s/%gdeg", name, adeg), s)
			}
		}
	}
	// axis-aligned dyadic corners (exact right angles), all four orientations, chamfers included
	for k := 0; k < TierN(c.Tier, 48, 200, 80); k++ {
		vx, vy := rng.Dyadic(8, 2), rng.Dyadic(8, 2)
		l0, l1 := float64(rng.Range(1, 32))/4, float64(rng.Range(1, 32))/4
		o := k % 4
		dx := [][2]float64{{1, 0}, {0, 1}, {-1, 0}, {0, -1}}
		a, b := dx[o], dx[(o+1+2*(k/4%2))%4]
		s := polySpec{V: []vtx{{X: vx + l0*a[0], Y: vy + l0*a[1]}, {X: vx, Y: vy}, {X: vx + l1*b[0], Y: vy + l1*b[1]}}}
		if k%3 == 0 {
			s.V[1].Ops = []vop{{Op: "chamfer", A: float64(rng.Range(1, 40)) / 8}}
		} else {
			s.V[1].Ops = []vop{{Op: "smooth", A: float64(rng.Range(1, 40)) / 8, N: rng.Range(1, 16)}}
		}
		x.poly("corner/axis-dyadic", s)
	}
	// no-op markings
	for k := 0; k < 6; k++ {
		s := polySpec{V: []vtx{{X: 4, Y: 0}, {X: 0, Y: 0}, {X: 0, Y: 3}}}
		s.V[1].Ops = [][]vop{{{Op: "smooth", A: 0, N: 4}}, {{Op: "smooth", A: 1, N: 0}}, {{Op: "chamfer", A: 0}},
			{{Op: "smooth", A: 1, N: 3}, {Op: "smooth", A: 0, N: 9}}, {{Op: "smooth", A: 1, N: 3}, {Op: "chamfer", A: 0.5}},
			{{Op: "chamfer", A: 0.5}, {Op: "smooth", A: 0.25, N: 2}}}[k]
		x.poly("corner/noop-or-overridden", s)
	}

	// arcs
	ratios := []float64{0.5, 0.5, 0.5000001, 0.51, 0.6, 0.75, 1, 2, 10, 100}
	for ri, ratio := range ratios {
		for rep := 0; rep < TierN(c.Tier, 21, 120, 40); rep++ {
			L := rng.Uniform(0.5, 20)
			al := rng.Uniform(0, 2*math.Pi)
			A := [2]float64{rng.Uniform(-20, 20), rng.Uniform(-20, 20)}
			cx, cy := pol(al)
			B := [2]float64{A[0] + L*cx, A[1] + L*cy}
			rad := ratio * math.Hypot(B[0]-A[0], B[1]-A[1])
			name := fmt.Sprintf("arc/ratio%g", ratio)
			if ri == 0 {
				// exactly representable semicircles: Pythagorean chords scaled by powers of two, radius = chord/2 exactly
				tr := [][3]float64{{3, 4, 5}, {5, 12, 13}, {8, 15, 17}, {7, 24, 25}, {20, 21, 29}, {1, 0, 1}, {0, 1, 1}}[rep%7]
				sc := math.Ldexp(1, rng.Range(-3, 2))
				sx, sy := float64(1-2*(rep/7%2)), float64(1-2*(rep/14%2))
				A = [2]float64{rng.Dyadic(8, 2), rng.Dyadic(8, 2)}
				B = [2]float64{A[0] + 2*tr[0]*sc*sx, A[1] + 2*tr[1]*sc*sy}
				rad = tr[2] * sc
				name = "arc/semicircle-exact"
			}
			if rng.Bool() {
				rad = -rad
			}
			s := polySpec{V: []vtx{{X: A[0], Y: A[1]}, {X: B[0], Y: B[1], Ops: []vop{{Op: "arc", A: rad, N: rng.Range(1, 16)}}}}}
			x.poly(name, s)
		}
	}
	for k := 0; k < 8; k++ { // chord longer than the diameter, zero radius / facets: model comparison
		s := polySpec{V: []vtx{{X: 0, Y: 0}, {X: 3, Y: 1, Ops: []vop{{Op: "arc", A: []float64{1, -1.5, 0.1, 0, 2}[k%5], N: []int{3, 5, 0}[k%3]}}}}}
		x.poly("arc/invalid-or-noop", s)
	}

	// several arc segments in one polygon: stadiums, lenses, scalloped rings, arcs late in the list,
	// facet counts well above the number of vertices (createArcs must come back for the arc
	// vertices that earlier insertions pushed beyond the original length)
	for k := 0; k < TierN(c.Tier, 60, 600, 200); k++ {
		var s polySpec
		R := rng.Uniform(1, 20)
		cx, cy := rng.Uniform(-10, 10), rng.Uniform(-10, 10)
		if k%6 == 5 {
			R, cx, cy = float64(rng.Range(1, 16)), rng.Dyadic(8, 2), rng.Dyadic(8, 2)
		}
		sg := func() float64 { return float64(1 - 2*rng.Intn(2)) }
		nf := func() int { return []int{2, 3, 5, 8, 16, 40}[rng.Intn(6)] }
		name := ""
		switch k % 6 {
		case 0: // stadium: two straight sides, two semicircular (or flatter) ends
			w, ratio := R*rng.Uniform(0.3, 1), []float64{0.5, 0.6, 1, 3}[rng.Intn(4)]
			s.V = []vtx{{X: cx - R, Y: cy - w}, {X: cx + R, Y: cy - w},
				{X: cx + R, Y: cy + w, Ops: []vop{{Op: "arc", A: sg() * 2 * w * ratio, N: nf()}}},
				{X: cx - R, Y: cy + w},
				{X: cx - R, Y: cy - w, Ops: []vop{{Op: "arc", A: sg() * 2 * w * ratio, N: nf()}}}}
			s.Closed = rng.Bool()
			if s.Closed {
				s.V[0].Ops, s.V = s.V[4].Ops, s.V[:4] // the closing arc runs into vertex 0
			}
			name = "stadium"
		case 1: // lens: two vertices, both segments arcs (closed)
			al := rng.Uniform(0, 2*math.Pi)
			px, py := pol(al)
			ratio := []float64{0.5, 0.55, 0.8, 2, 10}[rng.Intn(5)]
			s.V = []vtx{{X: cx - R*px, Y: cy - R*py, Ops: []vop{{Op: "arc", A: sg() * 2 * R * ratio, N: nf()}}},
				{X: cx + R*px, Y: cy + R*py, Ops: []vop{{Op: "arc", A: sg() * 2 * R * ratio, N: nf()}}}}
			s.Closed = true
			name = "lens"
		case 2, 5: // scalloped ring: every segment of a regular-ish m-gon is an arc
			m := rng.Range(3, 6)
			for i := 0; i < m; i++ {
				px, py := pol((float64(i) + rng.Uniform(-0.2, 0.2)) * 2 * math.Pi / float64(m))
				s.V = append(s.V, vtx{X: cx + R*px, Y: cy + R*py, Ops: []vop{{Op: "arc", A: sg() * R * rng.Uniform(1.05, 3), N: nf()}}})
			}
			if k%6 == 5 {
				for i := range s.V {
					s.V[i].X, s.V[i].Y = math.Round(s.V[i].X*4)/4, math.Round(s.V[i].Y*4)/4
				}
			}
			s.Closed = k%4 != 1
			name = "scalloped"
		default: // a ring of plain vertices with 2..6 arcs, the later vertices preferred
			m := rng.Range(4, 12)
			na := rng.Range(2, 6)
			for i := 0; i < m; i++ {
				px, py := pol((float64(i) + rng.Uniform(-0.3, 0.3)) * 2 * math.Pi / float64(m))
				rr := R * rng.Uniform(0.6, 1.2)
				s.V = append(s.V, vtx{X: cx + rr*px, Y: cy + rr*py})
			}
			for j := 0; j < na; j++ {
				i := m - 1 - rng.Intn((m+1)/2)
				if k%6 == 4 {
					i = rng.Intn(m)
				}
				s.V[i].Ops = []vop{{Op: "arc", A: sg() * 2.4 * R * rng.Uniform(1, 4), N: nf()}}
			}
			s.Closed = rng.Bool()
			name = "ring"
		}
		s.Reverse = rng.Intn(6) == 0
		x.poly("multiarc/"+name, s)
	}

	// Rel / Polar
	for k := 0; k < TierN(c.Tier, 160, 800, 300); k++ {
		n := rng.Range(1, 8)
		s := polySpec{Closed: rng.Intn(3) == 0, Reverse: rng.Intn(4) == 0}
		for i := 0; i < n; i++ {
			v := vtx{X: rng.Uniform(-10, 10), Y: rng.Uniform(-10, 10)}
			if k%2 == 0 {
				v.X, v.Y = rng.Dyadic(16, 3), rng.Dyadic(16, 3)
			}
			polar, rel := rng.Intn(3) == 0, rng.Intn(2) == 0
			if i == 0 && k%9 != 8 {
				rel = false
			}
			if polar {
				v.X, v.Y = math.Abs(v.X), rng.Uniform(-7, 7)
			}
			if polar && rng.Bool() {
				v.Ops = append(v.Ops, vop{Op: "polar"})
				polar = false
			}
			if rel {
				v.Ops = append(v.Ops, vop{Op: "rel"})
			}
			if polar {
				v.Ops = append(v.Ops, vop{Op: "polar"})
			}
			s.V = append(s.V, v)
		}
		name := "relpolar"
		if hasOp(s.V[0].Ops, "rel") {
			name = "relpolar/first-relative"
		}
		x.poly(name, s)
	}
	x.poly("empty", polySpec{})

	// mixed polygons: a star-shaped ring of vertices with random markings
	for k := 0; k < TierN(c.Tier, 300, 1500, 500); k++ {
		n := rng.Range(3, 9)
		s := polySpec{Closed: k%4 != 3, Reverse: rng.Intn(5) == 0}
		R := rng.Uniform(2, 20)
		cx, cy := rng.Uniform(-10, 10), rng.Uniform(-10, 10)
		for i := 0; i < n; i++ {
			a := (float64(i) + rng.Uniform(-0.3, 0.3)) * 2 * math.Pi / float64(n)
			rr := R * rng.Uniform(0.5, 1.2)
			px, py := pol(a)
			v := vtx{X: cx + rr*px, Y: cy + rr*py}
			if k%5 == 0 {
				v.X, v.Y = math.Round(v.X*4)/4, math.Round(v.Y*4)/4
			}
			switch rng.Intn(6) {
			case 0, 1:
				v.Ops = []vop{{Op: "smooth", A: R * []float64{0.01, 0.1, 0.3, 2}[rng.Intn(4)], N: rng.Range(1, 8)}}
			case 2:
				v.Ops = []vop{{Op: "chamfer", A: R * rng.Uniform(0.02, 0.4)}}
			case 3:
				sg := float64(1 - 2*rng.Intn(2))
				v.Ops = []vop{{Op: "arc", A: sg * R * rng.Uniform(1.3, 4), N: rng.Range(1, 8)}}
			}
			s.V = append(s.V, v)
		}
		x.poly("mixed", s)
	}
}

func genNagon(c *Ctx, rng *Rng, x *runner) {
	for n := 0; n <= 64; n++ {
		x.nagon("n0..64", n, []float64{1, 0.5, 10, 25.4}[n%4]*float64(1+n%3))
		if c.Tier != "quick" || n%4 == 0 {
			x.nagon("random-radius", n, rng.Uniform(1e-3, 1e3))
		}
	}
	x.nagon("negative-radius", 7, -2)
	x.nagon("n<0", -3, 1)
}

func genBezier(c *Ctx, rng *Rng, x *runner) {
	coord := func(exact bool) (float64, float64) {
		if exact {
			return rng.Dyadic(16, 2), rng.Dyadic(16, 2)
		}
		return rng.Uniform(-50, 50), rng.Uniform(-50, 50)
	}
	draw := func(k int) string { return []string{"", "", "", "lo", "hi"}[k%5] }
	// single spans of degree 1..4
	for k := 0; k < TierN(c.Tier, 160, 800, 250); k++ {
		exact := k%2 == 0
		degr := 1 + k/2%4
		s := bezSpec{Exact: exact, Draw: draw(k / 8), Seed: rng.U64() % 1000000}
		for i := 0; i <= degr; i++ {
			px, py := coord(exact)
			v := bvtx{X: px, Y: py}
			if i > 0 && i < degr {
				v.Ops = []bop{{Op: "mid"}}
			}
			s.V = append(s.V, v)
		}
		if s.V[0].X == s.V[degr].X && s.V[0].Y == s.V[degr].Y {
			s.V[degr].X += 1
		}
		x.bezier(fmt.Sprintf("single/degree%d", degr), s)
	}
	// several spans, open and closed, with repeated end points now and then
	for k := 0; k < TierN(c.Tier, 180, 900, 300); k++ {
		exact := k%2 == 0
		s := bezSpec{Exact: exact, Closed: k%3 == 0, Draw: draw(k / 6), Seed: rng.U64() % 1000000}
		nsp := rng.Range(1, 6)
		px, py := coord(exact)
		s.V = append(s.V, bvtx{X: px, Y: py})
		for i := 0; i < nsp; i++ {
			for m := rng.Range(0, 3); m > 0; m-- {
				qx, qy := coord(exact)
				s.V = append(s.V, bvtx{X: qx, Y: qy, Ops: []bop{{Op: "mid"}}})
			}
			qx, qy := coord(exact)
			if k%7 == 6 && rng.Intn(3) == 0 { // repeated end point: a point span
				last := s.V[len(s.V)-1]
				if len(last.Ops) == 0 {
					qx, qy = last.X, last.Y
				}
			}
			s.V = append(s.V, bvtx{X: qx, Y: qy})
		}
		if k%3 == 0 && k%2 == 1 { // closed with the first point repeated at the end
			s.V = append(s.V, bvtx{X: s.V[0].X, Y: s.V[0].Y})
		}
		name := "open"
		if s.Closed {
			name = "closed"
		}
		x.bezier("multi/"+name, s)
	}
	// closed curves whose control points coincide with end points: the last specified vertex a
	// Mid() at (or within 1e-9 / 1e-10 of) the first vertex (teardrop cubic P2 = P3 = start, closing
	// quadratic whose control point is the start corner), the first Mid() at the first vertex,
	// repeated vertices - closure() must still append the closing end point
	for k := 0; k < TierN(c.Tier, 48, 400, 150); k++ {
		exact := k%2 == 0
		s := bezSpec{Exact: exact, Closed: k%8 != 7, Draw: draw(k / 3), Seed: rng.U64() % 1000000}
		px, py := coord(exact)
		mid := []bop{{Op: "mid"}}
		pt := func() bvtx { qx, qy := coord(exact); return bvtx{X: qx, Y: qy} }
		mpt := func() bvtx { v := pt(); v.Ops = mid; return v }
		first := bvtx{X: px, Y: py}
		atFirst := bvtx{X: px, Y: py, Ops: mid}
		if !exact && k%3 == 1 { // within the closure tolerance of the first vertex, not equal to it
			atFirst.X += []float64{1e-10, -3e-10, 9e-10}[k/3%3]
		}
		name := ""
		switch k / 2 % 6 {
		case 0: // teardrop cubic: P0, P1, P2 = P0 (+ the closing P3 = P0)
			s.V = []bvtx{first, mpt(), atFirst}
			name = "teardrop"
		case 1: // some spans, then a closing quadratic whose control point is the start corner
			s.V = []bvtx{first, mpt(), pt(), pt(), atFirst}
			name = "closing-quadratic"
		case 2: // closing cubic / quartic ending in a control point at the start
			s.V = []bvtx{first, pt(), mpt(), atFirst}
			if k%4 < 2 {
				s.V = []bvtx{first, pt(), mpt(), mpt(), atFirst}
			}
			name = "closing-cubic-quartic"
		case 3: // the first control point at the first vertex (zero start tangent)
			s.V = []bvtx{first, atFirst, mpt(), pt(), mpt()}
			name = "first-mid-at-start"
		case 4: // both: leaves and returns with zero tangent; repeated control points inside
			q := mpt()
			s.V = []bvtx{first, atFirst, q, q, pt(), mpt(), atFirst}
			name = "both-ends"
		default: // repeated end points and a last Mid on the previous end point (not the first)
			e := pt()
			s.V = []bvtx{first, mpt(), e, e, pt(), bvtx{X: e.X, Y: e.Y, Ops: mid}}
			name = "repeated"
		}
		x.bezier("coincident/"+name, s)
	}

	// point spans: leading, inner, trailing, all
	for k := 0; k < 8; k++ {
		A, B, C := bvtx{X: 0, Y: 0}, bvtx{X: 1, Y: 2}, bvtx{X: 3, Y: -1}
		M := bvtx{X: 2, Y: 2, Ops: []bop{{Op: "mid"}}}
		vs := [][]bvtx{{A, A, M, B}, {A, M, B, B, C}, {A, M, B, B}, {A, B, B}, {A, A}, {A, B, C, C, C}, {A, A, B, B, C, C}, {A, M, B, A, A}}[k]
		x.bezier("pointspans", bezSpec{Exact: true, Closed: k == 7, V: vs})
	}
	// degree-1 polylines
	for k := 0; k < TierN(c.Tier, 80, 500, 150); k++ {
		exact := k%2 == 0
		s := bezSpec{Exact: exact, Closed: k%4 == 1, Seed: rng.U64() % 1000000}
		for i, n := 0, rng.Range(2, 9); i < n; i++ {
			px, py := coord(exact)
			if !exact && k%3 == 0 {
				px, py = float64(rng.Range(-90, 90))/10, float64(rng.Range(-90, 90))/10 // decimal coordinates
			}
			s.V = append(s.V, bvtx{X: px, Y: py})
		}
		x.bezier("polyline", s)
	}
	// handles
	for k := 0; k < TierN(c.Tier, 180, 900, 300); k++ {
		s := bezSpec{Closed: k%2 == 0, Draw: draw(k / 4), Seed: rng.U64() % 1000000}
		n := rng.Range(2, 6)
		prevFwd := false
		for i := 0; i < n; i++ {
			px, py := coord(false)
			v := bvtx{X: px, Y: py}
			th, f, rv := rng.Uniform(-7, 7), rng.Uniform(0.5, 30), rng.Uniform(0.5, 30)
			if k%5 == 0 {
				th = float64(rng.Range(-4, 4)) * math.Pi / 4
			}
			mids := 0
			if prevFwd {
				mids = 1
			}
			switch rng.Intn(5) {
			case 0:
				v.Ops = []bop{{Op: "handle", A: th, B: f, C: rv}}
				prevFwd = true
			case 1:
				v.Ops = []bop{{Op: "hfwd", A: th, B: -f}}
				prevFwd = true
			case 2:
				v.Ops = []bop{{Op: "hrev", A: th, B: rv}}
				prevFwd = false
			case 3:
				v.Ops = []bop{{Op: "hrev", A: th, B: rv}, {Op: "hfwd", A: th + 1, B: f}}
				prevFwd = true
			default:
				prevFwd = false
			}
			_ = mids
			if !s.Closed && k%10 != 9 { // an open curve must start and end with an end point (kept malformed 1 in 10)
				var keep []bop
				for _, o := range v.Ops {
					if (i == 0 && o.Op == "hrev") || (i == n-1 && o.Op == "hfwd") {
						continue
					}
					if o.Op == "handle" && (i == 0 || i == n-1) {
						if i == 0 {
							o = bop{Op: "hfwd", A: o.A, B: o.B}
						} else {
							o = bop{Op: "hrev", A: o.A, B: o.C}
						}
					}
					keep = append(keep, o)
				}
				v.Ops = keep
			}
			s.V = append(s.V, v)
			if rng.Intn(3) == 0 && i < n-1 { // one free midpoint between two end points: degree <= 4 with both handles
				qx, qy := coord(false)
				s.V = append(s.V, bvtx{X: qx, Y: qy, Ops: []bop{{Op: "mid"}}})
			}
		}
		x.bezier("handles", s)
	}
	// loops and cusps (start = end within one span; control points folded back): recursion limit
	for k := 0; k < TierN(c.Tier, 32, 200, 60); k++ {
		exact := k%2 == 0
		px, py := coord(exact)
		ax, ay := coord(exact)
		bx, by := coord(exact)
		mid := []bop{{Op: "mid"}}
		var vs []bvtx
		switch k % 4 {
		case 0: // closed single-span loop
			vs = []bvtx{{X: px, Y: py}, {X: ax, Y: ay, Ops: mid}, {X: bx, Y: by, Ops: mid}}
		case 1: // cusp: control points crossed
			vs = []bvtx{{X: px, Y: py}, {X: px + 8, Y: py + 8, Ops: mid}, {X: px, Y: py + 8, Ops: mid}, {X: px + 8, Y: py}}
		case 2: // straight cubic traversed back and forth
			vs = []bvtx{{X: px, Y: py}, {X: px + 12, Y: py, Ops: mid}, {X: px - 4, Y: py, Ops: mid}, {X: px + 8, Y: py}}
		default: // quartic with a repeated control point
			vs = []bvtx{{X: px, Y: py}, {X: ax, Y: ay, Ops: mid}, {X: ax, Y: ay, Ops: mid}, {X: bx, Y: by, Ops: mid}, {X: px + 1, Y: py + 1}}
		}
		x.bezier("loops-cusps", bezSpec{Exact: exact, Closed: k%4 == 0, Draw: draw(k), Seed: uint64(k), V: vs})
	}
	// malformed curves: error and panic outcomes
	mid := []bop{{Op: "mid"}}
	bad := [][]bvtx{
		{},
		{{X: 1, Y: 1}},
		{{X: 1, Y: 1, Ops: mid}, {X: 2, Y: 1}, {X: 3, Y: 4}},
		{{X: 1, Y: 1}, {X: 2, Y: 1, Ops: mid}},
		{{X: 1, Y: 1, Ops: mid}, {X: 2, Y: 1, Ops: mid}},
		{{X: 0, Y: 0}, {X: 1, Y: 1, Ops: mid}, {X: 2, Y: 0, Ops: mid}, {X: 3, Y: 1, Ops: mid}, {X: 4, Y: 0, Ops: mid}, {X: 5, Y: 1}},
		{{X: 0, Y: 0}, {X: 1, Y: 1, Ops: []bop{{Op: "mid"}, {Op: "hfwd", A: 1, B: 1}}}, {X: 2, Y: 0}},
		{{X: 0, Y: 0}, {X: 1, Y: 1, Ops: []bop{{Op: "hfwd", A: 1, B: 1}, {Op: "mid"}}}, {X: 2, Y: 0}},
		{{X: 0, Y: 0, Ops: []bop{{Op: "hrev", A: 2, B: 1}}}, {X: 2, Y: 0}},
	}
	for k, vs := range bad {
		x.bezier("malformed", bezSpec{V: vs, Closed: false})
		x.bezier("malformed", bezSpec{V: vs, Closed: true, Seed: uint64(k)})
	}
}
