package main

// Coordinate regimes the ordinary strata (|coordinate| <= 50, extent comparable to the distance
// from the origin) never reach.  The builders contain thresholds that compare a feature with the
// magnitude of the coordinates (BezierPolynomial.Set drops monomial coefficients below 1e-12 of
// the coefficient sum, whose constant term is the start coordinate; closure() compares with an
// absolute 1e-9), so a curve that is small relative to its offset from the origin, absolutely
// tiny or huge, starting next to an axis, or nearly of lower degree exercises them while the
// curve is still resolved by float64.  All of these are judged by the same oracles as the
// ordinary strata; the Bezier oracle's tolerance (bezoracle.go: spanTol) is the float64 rounding
// of the control coordinates plus exactly the coefficients the claim allows Set to drop, so it is
// a tolerance relative to the EXTENT of the curve as long as float64 resolves the extent.

import (
	"fmt"
	"math"

	. "verifharness/kit"
)

var bmid = []bop{{Op: "mid"}}

// shape of a curve in local coordinates (extent about 1): kinds 0..3 single span of degree 1..4,
// 4 several spans open, 5 several spans closed by a last Mid(), 6 handles
func localCurve(rng *Rng, kind int) (v []bvtx, closed bool, name string) {
	pt := func() bvtx { return bvtx{X: rng.Uniform(-1, 1), Y: rng.Uniform(-1, 1)} }
	mpt := func() bvtx { p := pt(); p.Ops = bmid; return p }
	switch {
	case kind < 4:
		degr := kind + 1
		for i := 0; i <= degr; i++ {
			p := pt()
			if i > 0 && i < degr {
				p.Ops = bmid
			}
			v = append(v, p)
		}
		if rng.Intn(8) == 0 { // span along one local axis
			for i := range v {
				v[i].Y = v[0].Y
			}
		}
		return v, false, fmt.Sprintf("degree%d", degr)
	case kind == 4 || kind == 5:
		v = append(v, pt())
		for i, n := 0, rng.Range(2, 3); i < n; i++ {
			for m := rng.Range(0, 3); m > 0; m-- {
				v = append(v, mpt())
			}
			v = append(v, pt())
		}
		if kind == 5 {
			v = append(v, mpt())
			return v, true, "closed"
		}
		return v, false, "open"
	default:
		n := rng.Range(2, 4)
		for i := 0; i < n; i++ {
			p := pt()
			th, f, rv := rng.Uniform(-7, 7), rng.Uniform(0.1, 0.6), rng.Uniform(0.1, 0.6)
			switch {
			case i == 0:
				p.Ops = []bop{{Op: "hfwd", A: th, B: f}}
			case i == n-1:
				p.Ops = []bop{{Op: "hrev", A: th, B: rv}}
			default:
				p.Ops = []bop{{Op: "handle", A: th, B: f, C: rv}}
			}
			v = append(v, p)
		}
		return v, false, "handles"
	}
}

func scaleHandles(ops []bop, k float64) []bop {
	var out []bop
	for _, o := range ops {
		switch o.Op {
		case "hfwd", "hrev":
			o.B *= k
		case "handle":
			o.B *= k
			o.C *= k
		}
		out = append(out, o)
	}
	return out
}

func genBezierRegimes(c *Ctx, rng *Rng, x *runner) {
	draw := func(k int) string { return []string{"", "", "", "lo", "hi"}[k%5] }

	// A. far from the origin: extent/offset = rho (3e-6 down to 3e-13: the last decade straddles the
	// 1e-12 of Set) on x only, on y only, on both; below it (down to 1e-16, where the increments
	// disappear in the rounding of the offset) the axis may collapse and the oracle concedes it
	for k := 0; k < TierN(c.Tier, 168, 1200, 420); k++ {
		dec := k % 8
		u := 5.5 + float64(dec) + rng.Uniform(0, 1)
		name := fmt.Sprintf("far/extent-over-offset-1e-%d", 6+dec)
		if dec == 7 {
			u = rng.Uniform(12.5, 16)
			name = "far/extent-over-offset-below-1e-12"
		}
		rho := math.Pow(10, -u)
		var O float64
		switch k / 8 % 4 {
		case 0:
			O = 1e3 * rng.Uniform(1, 10)
		case 1:
			O = math.Ldexp(1, rng.Range(10, 30))
		case 2:
			O = 1e6 * rng.Uniform(1, 10)
		default:
			O = 1e9 * rng.Uniform(1, 10)
		}
		ox, oy := O, O*rng.Uniform(0.3, 3)
		if rng.Bool() {
			ox = -ox
		}
		if rng.Bool() {
			oy = -oy
		}
		axes := k / 32 % 3
		loc, closed, kname := localCurve(rng, rng.Intn(7))
		ext := rho * O
		s := bezSpec{Closed: closed, Draw: draw(k / 3), Seed: rng.U64() % 1000000}
		wide := rng.Uniform(1, 50) // extent on the axis that stays near the origin
		for _, p := range loc {
			q := bvtx{Ops: scaleHandles(p.Ops, ext)}
			switch axes {
			case 0: // x far and shallow, y ordinary
				q.X, q.Y = ox+ext*p.X, wide*p.Y
			case 1:
				q.X, q.Y = wide*p.X, oy+ext*p.Y
			default:
				q.X, q.Y = ox+ext*p.X, oy+ext*p.Y
			}
			s.V = append(s.V, q)
		}
		x.bezier(fmt.Sprintf("%s/%s/%s", name, []string{"x", "y", "both"}[axes], kname), s)
	}

	// B. absolutely tiny / huge: ordinary curves scaled by a power of two (exact: the dyadic regime
	// stays dyadic)
	for k := 0; k < TierN(c.Tier, 64, 400, 160); k++ {
		sh := []int{-500, -300, -100, -40, 40, 100, 300, 500}[k%8]
		exact := k/8%2 == 0
		loc, closed, kname := localCurve(rng, rng.Intn(7))
		sc := math.Ldexp(1, sh)
		s := bezSpec{Exact: exact && kname != "handles", Closed: closed, Draw: draw(k / 2), Seed: rng.U64() % 1000000}
		for _, p := range loc {
			lx, ly := 50*p.X, 50*p.Y
			if exact {
				lx, ly = math.Round(16*4*p.X)/4, math.Round(16*4*p.Y)/4
			}
			s.V = append(s.V, bvtx{X: lx * sc, Y: ly * sc, Ops: scaleHandles(p.Ops, 50*sc)})
		}
		if len(s.V) >= 2 && s.V[0].X == s.V[len(s.V)-1].X && s.V[0].Y == s.V[len(s.V)-1].Y {
			s.V[len(s.V)-1].X += sc
		}
		x.bezier(fmt.Sprintf("scale/2^%d/%s", sh, kname), s)
	}

	// C. the start coordinate itself is the small coefficient: a curve starting on or next to an
	// axis (10^-6 .. 10^-15 of its extent away from it, or exactly on it)
	for k := 0; k < TierN(c.Tier, 32, 200, 80); k++ {
		loc, closed, kname := localCurve(rng, rng.Intn(6))
		ext := []float64{1, 40, 1e-3, 1e4}[k%4] * rng.Uniform(0.5, 1)
		near := ext * math.Pow(10, -rng.Uniform(6, 15))
		if k%8 == 7 {
			near = 0
		}
		s := bezSpec{Closed: closed, Draw: draw(k), Seed: rng.U64() % 1000000}
		dx, dy := loc[0].X, loc[0].Y
		for _, p := range loc {
			q := bvtx{X: ext * (p.X - dx), Y: ext * (p.Y - dy), Ops: p.Ops}
			switch k / 4 % 3 {
			case 0:
				q.X += near
			case 1:
				q.Y -= near
			default:
				q.X -= near
				q.Y += near
			}
			s.V = append(s.V, q)
		}
		x.bezier("start-next-to-axis/"+kname, s)
	}

	// D. nearly of lower degree: a degree-elevated span (the leading coefficient vanishes) with one
	// control point moved by 10^-6 .. 10^-15 of the extent, so that the leading coefficient is that
	// small against the others
	for k := 0; k < TierN(c.Tier, 48, 300, 120); k++ {
		degr := 2 + k%3 // of the elevated span
		low := make([][2]float64, degr)
		sc := []float64{1, 50, 1e-2, 1e3}[k/3%4]
		for i := range low {
			low[i] = [2]float64{sc * rng.Uniform(-1, 1), sc * rng.Uniform(-1, 1)}
		}
		s := bezSpec{Draw: draw(k), Seed: rng.U64() % 1000000}
		for i := 0; i <= degr; i++ {
			var p [2]float64
			switch {
			case i == 0:
				p = low[0]
			case i == degr:
				p = low[degr-1]
			default:
				a := float64(i) / float64(degr)
				p = [2]float64{a*low[i-1][0] + (1-a)*low[i][0], a*low[i-1][1] + (1-a)*low[i][1]}
			}
			v := bvtx{X: p[0], Y: p[1]}
			if i > 0 && i < degr {
				v.Ops = bmid
			}
			s.V = append(s.V, v)
		}
		j := rng.Range(0, degr)
		d := sc * math.Pow(10, -rng.Uniform(6, 15))
		if rng.Bool() {
			s.V[j].X += d
		} else {
			s.V[j].Y -= d
		}
		x.bezier(fmt.Sprintf("nearly-degree%d", degr-1), s)
	}

	// E. closed curves whose last end point stops 10^-4 .. 10^-13 short of the first vertex (on one
	// axis or both): closure() appends a closing straight span exactly when the gap exceeds 1e-9 on an
	// axis, and that short span must still be reproduced (its coefficient is far above 1e-12 of the sum)
	for k := 0; k < TierN(c.Tier, 24, 200, 80); k++ {
		loc, _, kname := localCurve(rng, []int{1, 2, 3, 4, 6}[k%5])
		sc := []float64{1, 50, 0.01}[k/5%3]
		fx, fy := sc*rng.Uniform(-1, 1), sc*rng.Uniform(-1, 1)
		gap := math.Pow(10, -rng.Uniform(4, 13))
		s := bezSpec{Closed: true, Draw: draw(k), Seed: rng.U64() % 1000000}
		for i, p := range loc {
			q := bvtx{X: fx + sc*(p.X-loc[0].X), Y: fy + sc*(p.Y-loc[0].Y), Ops: scaleHandles(p.Ops, sc)}
			if i == len(loc)-1 {
				q.X, q.Y = fx, fy
				switch k % 3 {
				case 0:
					q.X += gap
				case 1:
					q.Y -= gap
				default:
					q.X -= gap
					q.Y += gap * rng.Uniform(0.1, 1)
				}
			}
			s.V = append(s.V, q)
		}
		x.bezier("closing-gap/"+kname, s)
	}
}

// polygons: corners (fillet / chamfer), arcs and small marked rings at a large offset from the
// origin (radius/offset 1e-3 .. 1e-10) and scaled by powers of two
func genPolyRegimes(c *Ctx, rng *Rng, x *runner) {
	place := func(k int) (ox, oy, sc float64, name string) {
		if k%3 == 2 {
			sh := []int{-300, -100, -40, 40, 100, 300}[k/3%6]
			return 0, 0, math.Ldexp(1, sh), fmt.Sprintf("scale/2^%d", sh)
		}
		dec := 3 + k/3%8
		rho := math.Pow(10, -float64(dec)-rng.Uniform(0, 1)+0.5)
		O := []float64{1e3, math.Ldexp(1, 22), 1e7}[k%3+k/24%2] * rng.Uniform(1, 2)
		ox, oy = O, O*rng.Uniform(0.3, 3)
		if rng.Bool() {
			ox = -ox
		}
		if rng.Bool() {
			oy = -oy
		}
		switch k / 5 % 3 {
		case 0:
			oy = 0
		case 1:
			ox = 0
		}
		return ox, oy, rho * O, fmt.Sprintf("far/radius-over-offset-1e-%d", dec)
	}
	// corners
	angles := []float64{5, 30, 60, 90, 120, 150, 175}
	for k := 0; k < TierN(c.Tier, 84, 600, 210); k++ {
		ox, oy, sc, name := place(k)
		th := angles[k%7] * deg
		dir := float64(1 - 2*(k/7%2))
		al := rng.Uniform(0, 2*math.Pi)
		rad := sc * rng.Uniform(0.5, 1.5)
		d := rad / math.Tan(th/2)
		L0, L1 := d*rng.Uniform(1.5, 8), d*rng.Uniform(1.5, 8)
		cls := "fits"
		switch k % 4 {
		case 1:
			L0 = d * rng.Uniform(0.2, 0.9)
			cls = "prev-edge-short"
		case 2:
			L1 = d * rng.Uniform(0.2, 0.9)
			cls = "next-edge-short"
		}
		c0x, c0y := pol(al)
		c1x, c1y := pol(al + dir*th)
		s := polySpec{V: []vtx{{X: ox + L0*c0x, Y: oy + L0*c0y}, {X: ox, Y: oy}, {X: ox + L1*c1x, Y: oy + L1*c1y}}}
		if k%5 == 4 {
			s.V[1].Ops = []vop{{Op: "chamfer", A: rad * math.Sqrt2}}
		} else {
			s.V[1].Ops = []vop{{Op: "smooth", A: rad, N: rng.Range(1, 16)}}
		}
		x.poly(fmt.Sprintf("corner/%s/%s", name, cls), s)
	}
	// arcs
	ratios := []float64{0.5000001, 0.51, 0.75, 1, 3, 30}
	for k := 0; k < TierN(c.Tier, 60, 480, 180); k++ {
		ox, oy, sc, name := place(k)
		L := sc * rng.Uniform(0.5, 2)
		cx, cy := pol(rng.Uniform(0, 2*math.Pi))
		A := [2]float64{ox, oy}
		B := [2]float64{ox + L*cx, oy + L*cy}
		rad := ratios[k%6] * math.Hypot(B[0]-A[0], B[1]-A[1])
		if rng.Bool() {
			rad = -rad
		}
		x.poly("arc/"+name, polySpec{V: []vtx{{X: A[0], Y: A[1]}, {X: B[0], Y: B[1], Ops: []vop{{Op: "arc", A: rad, N: rng.Range(1, 16)}}}}})
	}
	// rings with arcs (multiarc oracle) and mixed markings (model comparison, histories)
	for k := 0; k < TierN(c.Tier, 48, 360, 120); k++ {
		ox, oy, sc, name := place(k)
		n := rng.Range(3, 7)
		s := polySpec{Closed: k%4 != 3, Reverse: rng.Intn(5) == 0}
		for i := 0; i < n; i++ {
			px, py := pol((float64(i) + rng.Uniform(-0.3, 0.3)) * 2 * math.Pi / float64(n))
			rr := sc * rng.Uniform(0.6, 1.2)
			v := vtx{X: ox + rr*px, Y: oy + rr*py}
			sg := float64(1 - 2*rng.Intn(2))
			if k%2 == 0 {
				if rng.Intn(2) == 0 {
					v.Ops = []vop{{Op: "arc", A: sg * 2.4 * sc * rng.Uniform(1, 4), N: rng.Range(2, 8)}}
				}
			} else {
				switch rng.Intn(5) {
				case 0, 1:
					v.Ops = []vop{{Op: "smooth", A: sc * []float64{0.01, 0.1, 0.3}[rng.Intn(3)], N: rng.Range(1, 8)}}
				case 2:
					v.Ops = []vop{{Op: "chamfer", A: sc * rng.Uniform(0.02, 0.4)}}
				case 3:
					v.Ops = []vop{{Op: "arc", A: sg * 2.4 * sc * rng.Uniform(1, 4), N: rng.Range(1, 8)}}
				}
			}
			s.V = append(s.V, v)
		}
		x.poly([]string{"multiarc/", "mixed/"}[k%2]+name, s)
	}
}
