package main

// Input specifications (JSON: corpus, replays, violation inputs), construction through the
// public sdf API, and printing as Coq terms for coq/Sdf/C17Corr.v.

import (
	"fmt"
	"math"
	"math/rand"
	"os"
	"strings"

	"github.com/deadsy/sdfx/sdf"
	v2 "github.com/deadsy/sdfx/vec/v2"
	. "verifharness/kit"
)

// ---- polygon builder

type vop struct {
	Op string  `json:"op"` // rel | polar | smooth(A=radius,N=facets) | chamfer(A=size) | arc(A=radius,N=facets)
	A  float64 `json:"a,omitempty"`
	N  int     `json:"n,omitempty"`
}
type vtx struct {
	X   float64 `json:"x"`
	Y   float64 `json:"y"`
	Ops []vop   `json:"ops,omitempty"`
}
type polySpec struct {
	Kind    string `json:"kind"` // "poly"
	Closed  bool   `json:"closed,omitempty"`
	Reverse bool   `json:"reverse,omitempty"`
	V       []vtx  `json:"v"`
}

func (s polySpec) key() string {
	var b strings.Builder
	fmt.Fprintf(&b, "poly:c%v,r%v", s.Closed, s.Reverse)
	for _, v := range s.V {
		fmt.Fprintf(&b, "|%x,%x", v.X, v.Y)
		for _, o := range v.Ops {
			fmt.Fprintf(&b, ",%s:%x:%d", o.Op, o.A, o.N)
		}
	}
	return b.String()
}

// run builds the polygon through the public API and returns Vertices() (panicked = the call panicked)
func (s polySpec) run() (vs []v2.Vec, panicked bool) {
	defer func() {
		if e := recover(); e != nil {
			vs, panicked = nil, true
		}
	}()
	p := sdf.NewPolygon()
	for _, v := range s.V {
		pv := p.Add(v.X, v.Y)
		for _, o := range v.Ops {
			switch o.Op {
			case "rel":
				pv.Rel()
			case "polar":
				pv.Polar()
			case "smooth":
				pv.Smooth(o.A, o.N)
			case "chamfer":
				pv.Chamfer(o.A)
			case "arc":
				pv.Arc(o.A, o.N)
			}
		}
	}
	if s.Closed {
		p.Close()
	}
	if s.Reverse {
		p.Reverse()
	}
	return p.Vertices(), false
}

func coqZ(n int) string {
	if n < 0 {
		return fmt.Sprintf("(%d)%%Z", n)
	}
	return fmt.Sprintf("%d%%Z", n)
}

func coqPts(vs []v2.Vec) string {
	t := make([]string, len(vs))
	for i, v := range vs {
		t[i] = "(" + CF(v.X) + "," + CF(v.Y) + ")"
	}
	return CList(t)
}

func (s polySpec) coq(id int, vs []v2.Vec, panicked bool) string {
	var vt []string
	for _, v := range s.V {
		var ops []string
		for _, o := range v.Ops {
			switch o.Op {
			case "rel":
				ops = append(ops, "ORel")
			case "polar":
				ops = append(ops, "OPolar")
			case "smooth":
				ops = append(ops, fmt.Sprintf("OSmooth %s %s", CF(o.A), coqZ(o.N)))
			case "chamfer":
				ops = append(ops, fmt.Sprintf("OChamfer %s", CF(o.A)))
			case "arc":
				ops = append(ops, fmt.Sprintf("OArc %s %s", CF(o.A), coqZ(o.N)))
			}
		}
		vt = append(vt, fmt.Sprintf("(%s, %s, %s)", CF(v.X), CF(v.Y), CList(ops)))
	}
	res := "None"
	if !panicked {
		res = "(Some " + coqPts(vs) + ")"
	}
	return fmt.Sprintf("(%d%%N, (%s,%s), %s, %s)", id, CB(s.Closed), CB(s.Reverse), CList(vt), res)
}

// ---- N-gon

type nagonSpec struct {
	Kind   string  `json:"kind"` // "nagon"
	N      int     `json:"n"`
	Radius float64 `json:"radius"`
}

// ---- bezier builder

type bop struct {
	Op string  `json:"op"` // mid | hfwd(A=theta,B=r) | hrev(A=theta,B=r) | handle(A=theta,B=fwd,C=rev)
	A  float64 `json:"a,omitempty"`
	B  float64 `json:"b,omitempty"`
	C  float64 `json:"c,omitempty"`
}
type bvtx struct {
	X   float64 `json:"x"`
	Y   float64 `json:"y"`
	Ops []bop   `json:"ops,omitempty"`
}
type bezSpec struct {
	Kind   string `json:"kind"` // "bezier"
	Closed bool   `json:"closed,omitempty"`
	Exact  bool   `json:"exact,omitempty"` // dyadic-exact regime: results must equal the rational Bernstein form
	Draw   string `json:"draw,omitempty"`  // "", "lo" (every draw 0), "hi" (every draw 1-2^-53)
	Seed   uint64 `json:"seed,omitempty"`  // seed of the recorded random source
	V      []bvtx `json:"v"`
}

func (s bezSpec) key() string {
	var b strings.Builder
	fmt.Fprintf(&b, "bezier:c%v,%s%d", s.Closed, s.Draw, s.Seed)
	for _, v := range s.V {
		fmt.Fprintf(&b, "|%x,%x", v.X, v.Y)
		for _, o := range v.Ops {
			fmt.Fprintf(&b, ",%s:%x:%x:%x", o.Op, o.A, o.B, o.C)
		}
	}
	return b.String()
}

// recSrc is the rand.Source handed to the library through the hook: its values come from the
// harness PRNG and every Float64() the library derives from them is recorded.
type recSrc struct {
	rng   *Rng
	mode  string
	draws []float64
}

func (s *recSrc) Int63() int64 {
	// 53 significant bits, so that float64(v) is exact and below 2^63 (no resampling in Float64)
	var v int64
	switch s.mode {
	case "lo":
		v = 0
	case "hi":
		v = (1<<53 - 1) << 10
	default:
		v = int64(s.rng.U64()>>11) << 10
	}
	// (*rand.Rand).Float64: float64(r.Int63()) / (1 << 63)
	s.draws = append(s.draws, float64(v)/(1<<63))
	return v
}
func (s *recSrc) Seed(int64) {}

// selfTestRand checks that the recorded draws are what (*rand.Rand).Float64 returns
func selfTestRand() error {
	src := &recSrc{rng: NewRng(12345)}
	r := rand.New(src)
	for i := 0; i < 64; i++ {
		f := r.Float64()
		if len(src.draws) != i+1 || src.draws[i] != f {
			return fmt.Errorf("recorded draw %d = %v but rand.Float64 returned %v", i, src.draws, f)
		}
	}
	return nil
}

const (
	outVerts = iota
	outError
	outPanic
)

var devnull *os.File

// run builds the curve, calls Polygon() and Vertices() with the recording source installed
func (s bezSpec) run() (vs []v2.Vec, outcome int, draws []float64) {
	src := &recSrc{rng: NewRng(s.Seed + 77), mode: s.Draw}
	old := sdf.VerifC17SetRand(rand.New(src))
	stdout := os.Stdout
	if devnull != nil {
		os.Stdout = devnull // "warn: bezier spline resursion limit"
	}
	defer func() {
		os.Stdout = stdout
		sdf.VerifC17SetRand(old)
		draws = src.draws
		if e := recover(); e != nil {
			vs, outcome = nil, outPanic
		}
	}()
	b := sdf.NewBezier()
	for _, v := range s.V {
		bv := b.Add(v.X, v.Y)
		for _, o := range v.Ops {
			switch o.Op {
			case "mid":
				bv.Mid()
			case "hfwd":
				bv.HandleFwd(o.A, o.B)
			case "hrev":
				bv.HandleRev(o.A, o.B)
			case "handle":
				bv.Handle(o.A, o.B, o.C)
			}
		}
	}
	if s.Closed {
		b.Close()
	}
	p, err := b.Polygon()
	if err != nil {
		return nil, outError, nil
	}
	return p.Vertices(), outVerts, nil
}

func (s bezSpec) coq(id int, vs []v2.Vec, outcome int, draws []float64) string {
	var vt []string
	for _, v := range s.V {
		var ops []string
		for _, o := range v.Ops {
			switch o.Op {
			case "mid":
				ops = append(ops, "BMid")
			case "hfwd":
				ops = append(ops, fmt.Sprintf("BHandleFwd %s %s", CF(o.A), CF(o.B)))
			case "hrev":
				ops = append(ops, fmt.Sprintf("BHandleRev %s %s", CF(o.A), CF(o.B)))
			case "handle":
				ops = append(ops, fmt.Sprintf("BHandle %s %s %s", CF(o.A), CF(o.B), CF(o.C)))
			}
		}
		vt = append(vt, fmt.Sprintf("(%s, %s, %s)", CF(v.X), CF(v.Y), CList(ops)))
	}
	ds := make([]string, len(draws))
	for i, d := range draws {
		ds[i] = CF(d)
	}
	res := "BPanic"
	switch outcome {
	case outError:
		res = "BError"
	case outVerts:
		res = "(BVerts " + coqPts(vs) + ")"
	}
	return fmt.Sprintf("(%d%%N, %s, %s, %s, %s)", id, CB(s.Closed), CList(vt), CList(ds), res)
}

// ---- small vector helpers (independent of the library's own)

func sub(a, b v2.Vec) v2.Vec         { return v2.Vec{X: a.X - b.X, Y: a.Y - b.Y} }
func add(a, b v2.Vec) v2.Vec         { return v2.Vec{X: a.X + b.X, Y: a.Y + b.Y} }
func scl(a v2.Vec, k float64) v2.Vec { return v2.Vec{X: a.X * k, Y: a.Y * k} }
func dot(a, b v2.Vec) float64        { return a.X*b.X + a.Y*b.Y }
func crs(a, b v2.Vec) float64        { return a.X*b.Y - a.Y*b.X }
func norm(a v2.Vec) float64          { return math.Hypot(a.X, a.Y) }
func finite(a v2.Vec) bool {
	return !math.IsNaN(a.X) && !math.IsNaN(a.Y) && !math.IsInf(a.X, 0) && !math.IsInf(a.Y, 0)
}
func maxAbs(vs ...v2.Vec) float64 {
	m := 0.0
	for _, v := range vs {
		m = math.Max(m, math.Max(math.Abs(v.X), math.Abs(v.Y)))
	}
	return m
}
