package main

// Histories: ONE builder value (sdf.Polygon / sdf.Bezier) rendered several times, with further
// Add()/Close()/Reverse() calls between the renders.  Both builders rewrite their own vertex list
// when they render (relToAbs / createArcs / smoothVertices write p.vlist and clear the markings;
// Bezier.handles() replaces b.vlist by the expanded control list and clears the handles,
// closure() appends the closing end point), so the result of the second and later calls depends
// on exactly what the first one left behind.  Every call of every history is compared
//   - with the model run as a state machine (coq/Sdf/C17Hist.v: the post-state of the model's
//     fixups is the state of the next call), for the explicit history strata,
//   - with the call before it when nothing was done in between (same polyline, bit for bit:
//     Bezier with the perturbation source restarted),
//   - with the direct oracles of the one-shot specification it is equivalent to, where such a
//     specification exists (see flatOK),
//   - Mesh2D() calls (which render internally) by the bounding box of the polyline the same
//     value gives through Vertices() / Polygon().
// The polygons returned by earlier Bezier.Polygon() calls must still give the same vertices at the
// end of the history (no storage shared between renders).

import (
	"fmt"
	"math"
	"math/rand"
	"os"
	"strings"

	"github.com/deadsy/sdfx/sdf"
	v2 "github.com/deadsy/sdfx/vec/v2"
	. "verifharness/kit"
)

// ---------------------------------------------------------------- polygon histories

type polyStep struct {
	V       []vtx  `json:"v,omitempty"`       // Add(x, y) + chained calls
	Close   bool   `json:"close,omitempty"`   // then Close()
	Reverse bool   `json:"reverse,omitempty"` // then Reverse()
	Call    string `json:"call,omitempty"`    // then "" = Vertices(); "mesh2d" = Mesh2D() and Vertices()
}
type polyHist struct {
	Kind  string     `json:"kind"` // "polyhist"
	Steps []polyStep `json:"steps"`
}

func (h polyHist) key() string {
	var b strings.Builder
	b.WriteString("polyhist")
	for _, st := range h.Steps {
		fmt.Fprintf(&b, "/%s", polySpec{Closed: st.Close, Reverse: st.Reverse, V: st.V}.key()[5:])
		if st.Call != "" {
			b.WriteString("," + st.Call)
		}
	}
	return b.String()
}

// hist: the one-shot specification as the first step of a history, then `again` plain re-renders
func (s polySpec) hist(again int) polyHist {
	h := polyHist{Kind: "polyhist", Steps: []polyStep{{V: s.V, Close: s.Closed, Reverse: s.Reverse}}}
	for i := 0; i < again; i++ {
		h.Steps = append(h.Steps, polyStep{})
	}
	return h
}

// flat: the one-shot specification made of everything said up to and including step k
func (h polyHist) flat(k int) polySpec {
	s := polySpec{Kind: "poly"}
	for _, st := range h.Steps[:k+1] {
		s.V = append(s.V, st.V...)
		s.Closed = s.Closed || st.Close
		s.Reverse = s.Reverse || st.Reverse
	}
	return s
}

// flatOK: render k of the history must give what a fresh polygon with specification flat(k) gives.
// True when every render after which vertices were still added saw an open polygon: arcs look
// back at the original previous vertex only, a fillet that could not be made yet (last vertex of
// an open polygon) keeps its marking.  An Arc() on the first vertex is used up by the first render
// (arcVertex makes it a normal vertex before it looks for the previous one), so a polygon with
// one that is closed only after a render is not equivalent to the one-shot closed polygon.
// Used only for the shapes the direct oracles know (corner, arc chains, Rel/Polar): for closed
// polygons and adjacent fillets the history is compared with the model only.
func (h polyHist) flatOK(k int) bool {
	firstArc := false
	for _, st := range h.Steps {
		if len(st.V) > 0 {
			firstArc = hasOp(st.V[0].Ops, "arc")
			break
		}
	}
	closedK := false
	for _, st := range h.Steps[:k+1] {
		closedK = closedK || st.Close
	}
	closed := false
	seen := false // a render of a non-empty polygon
	for j := 0; j < k; j++ {
		closed = closed || h.Steps[j].Close
		seen = seen || len(h.Steps[j].V) > 0
		added := false
		for _, st := range h.Steps[j+1 : k+1] {
			added = added || len(st.V) > 0
		}
		if added && closed {
			return false
		}
		if seen && firstArc && closedK && !closed {
			return false
		}
	}
	return true
}

type meshObs struct {
	called   bool
	panicked bool
	err      error
	bb       sdf.Box2
}

type polyRes struct {
	vs       []v2.Vec
	panicked bool
	mesh     meshObs
}

type polyRun struct {
	h   polyHist
	p   *sdf.Polygon
	k   int
	res []polyRes
}

func newPolyRun(h polyHist) *polyRun { return &polyRun{h: h, p: sdf.NewPolygon()} }

func addPolyVertex(p *sdf.Polygon, v vtx) {
	pv := p.Add(v.X, v.Y)
	for _, o := range v.Ops {
		switch o.Op {
		case "rel":
			pv.Rel()
		case "polar":
			pv.Polar()
		case "smooth":
			pv.Smooth(o.A, o.N)
		case "chamfer":
			pv.Chamfer(o.A)
		case "arc":
			pv.Arc(o.A, o.N)
		}
	}
}

// nice: a polyline Mesh2D() accepts without further ado
func nice(vs []v2.Vec) bool {
	if len(vs) < 3 {
		return false
	}
	for _, v := range vs {
		if !finite(v) {
			return false
		}
	}
	lo, hi := bbox(vs)
	return hi.X > lo.X && hi.Y > lo.Y
}

func bbox(vs []v2.Vec) (lo, hi v2.Vec) {
	lo, hi = vs[0], vs[0]
	for _, v := range vs {
		lo = v2.Vec{X: math.Min(lo.X, v.X), Y: math.Min(lo.Y, v.Y)}
		hi = v2.Vec{X: math.Max(hi.X, v.X), Y: math.Max(hi.Y, v.Y)}
	}
	return
}

// step executes the next step; false when the history is over
func (x *polyRun) step() bool {
	if x.k >= len(x.h.Steps) {
		return false
	}
	st := x.h.Steps[x.k]
	var r polyRes
	func() {
		defer func() {
			if e := recover(); e != nil {
				r.vs, r.panicked = nil, true
			}
		}()
		for _, v := range st.V {
			addPolyVertex(x.p, v)
		}
		if st.Close {
			x.p.Close()
		}
		if st.Reverse {
			x.p.Reverse()
		}
		// Mesh2D() only on a value whose previous render gave a proper polyline, nothing said since
		if st.Call == "mesh2d" && x.k > 0 && len(st.V) == 0 && !st.Close && !st.Reverse && nice(x.res[x.k-1].vs) {
			r.mesh.called = true
			func() {
				defer func() {
					if e := recover(); e != nil {
						r.mesh.panicked = true
					}
				}()
				sd, err := x.p.Mesh2D()
				r.mesh.err = err
				if err == nil {
					r.mesh.bb = sd.BoundingBox()
				}
			}()
		}
		r.vs = x.p.Vertices()
	}()
	x.res = append(x.res, r)
	x.k++
	return true
}

func runPolyHist(h polyHist) *polyRun {
	x := newPolyRun(h)
	for x.step() {
	}
	return x
}

func sameBits(a, b []v2.Vec) (bool, string) {
	if len(a) != len(b) {
		return false, fmt.Sprintf("%d vertices, then %d", len(a), len(b))
	}
	for i := range a {
		if math.Float64bits(a[i].X) != math.Float64bits(b[i].X) || math.Float64bits(a[i].Y) != math.Float64bits(b[i].Y) {
			return false, fmt.Sprintf("vertex %d was %v, is now %v", i, a[i], b[i])
		}
	}
	return true, ""
}

func reversed(vs []v2.Vec) []v2.Vec {
	out := make([]v2.Vec, len(vs))
	for i, v := range vs {
		out[len(vs)-1-i] = v
	}
	return out
}

func meshCheck(m meshObs, vs []v2.Vec, call string, viol violFn) {
	if !m.called {
		return
	}
	if m.panicked {
		viol(call + ": Mesh2D() panicked on a value that had just been rendered into a proper polyline")
		return
	}
	if m.err != nil {
		viol(fmt.Sprintf("%s: Mesh2D() failed (%v) on a value that had just been rendered into a proper polyline", call, m.err))
		return
	}
	if len(vs) == 0 {
		return
	}
	lo, hi := bbox(vs)
	if m.bb.Min != lo || m.bb.Max != hi {
		viol(fmt.Sprintf("%s: Mesh2D() of the value covers %v..%v, the polyline the same value renders to covers %v..%v: Mesh2D() rendered something else", call, m.bb.Min, m.bb.Max, lo, hi))
	}
}

// polyHistOracle: the direct checks on a polygon history.  from = first step to look at (the
// first step of a one-shot case is checked by its caller); flat = also apply the one-shot oracles.
// Returns the number of calls checked.
func polyHistOracle(h polyHist, res []polyRes, from int, flat bool, viol violFn, names map[string]int) int {
	closed, reverse := false, false
	n := 0
	for k, st := range h.Steps {
		newClose, newReverse := st.Close && !closed, st.Reverse && !reverse
		closed, reverse = closed || st.Close, reverse || st.Reverse
		if k >= len(res) || k < from {
			continue
		}
		n++
		call := fmt.Sprintf("call %d of Vertices() on the same Polygon", k+1)
		r := res[k]
		if k > 0 && len(st.V) == 0 && !newClose {
			prev := res[k-1]
			if r.panicked != prev.panicked {
				viol(fmt.Sprintf("%s: panicked = %v, the call before it (nothing added in between): %v", call, r.panicked, prev.panicked))
			} else if !newReverse {
				if ok, d := sameBits(prev.vs, r.vs); !ok {
					viol(fmt.Sprintf("%s differs from the call before it although nothing was added in between (%s): a marking was consumed or applied again", call, d))
				}
			} else if ok, d := sameBits(reversed(prev.vs), r.vs); !ok {
				viol(fmt.Sprintf("%s after Reverse() is not the reverse of the call before it (%s)", call, d))
			}
		}
		meshCheck(r.mesh, r.vs, call, viol)
		if flat && h.flatOK(k) {
			o := polyOracle(h.flat(k), r.vs, r.panicked, func(what string) { viol(call + ", as the one-shot specification of everything added so far: " + what) })
			if o != "" && names != nil {
				names["polyhist/"+o]++
			}
		}
	}
	return n
}

func coqVtx(v vtx) string {
	var ops []string
	for _, o := range v.Ops {
		switch o.Op {
		case "rel":
			ops = append(ops, "ORel")
		case "polar":
			ops = append(ops, "OPolar")
		case "smooth":
			ops = append(ops, fmt.Sprintf("OSmooth %s %s", CF(o.A), coqZ(o.N)))
		case "chamfer":
			ops = append(ops, fmt.Sprintf("OChamfer %s", CF(o.A)))
		case "arc":
			ops = append(ops, fmt.Sprintf("OArc %s %s", CF(o.A), coqZ(o.N)))
		}
	}
	return fmt.Sprintf("(%s, %s, %s)", CF(v.X), CF(v.Y), CList(ops))
}

// coq: a casehp term of coq/Sdf/C17Hist.v
func (x *polyRun) coq(id int) string {
	var steps []string
	for k, r := range x.res {
		st := x.h.Steps[k]
		var vt []string
		for _, v := range st.V {
			vt = append(vt, coqVtx(v))
		}
		obs := "None"
		if !r.panicked {
			obs = "(Some " + coqPts(r.vs) + ")"
		}
		steps = append(steps, fmt.Sprintf("(%s, (%s,%s), %s)", CList(vt), CB(st.Close), CB(st.Reverse), obs))
	}
	return fmt.Sprintf("(%d%%N, %s)", id, CList(steps))
}

// ---------------------------------------------------------------- bezier histories

type bezStep struct {
	V      []bvtx `json:"v,omitempty"`      // Add(x, y) + chained calls
	Close  bool   `json:"close,omitempty"`  // then Close()
	Call   string `json:"call,omitempty"`   // then "" = Polygon() and Vertices(); "mesh2d" = Mesh2D()
	Reseed bool   `json:"reseed,omitempty"` // the perturbation source restarts where it started for the call before
}
type bezHist struct {
	Kind  string    `json:"kind"` // "bezhist"
	Exact bool      `json:"exact,omitempty"`
	Draw  string    `json:"draw,omitempty"`
	Seed  uint64    `json:"seed,omitempty"`
	Steps []bezStep `json:"steps"`
}

func (h bezHist) key() string {
	var b strings.Builder
	fmt.Fprintf(&b, "bezhist:%s%d", h.Draw, h.Seed)
	for _, st := range h.Steps {
		fmt.Fprintf(&b, "/%s", bezSpec{Closed: st.Close, V: st.V}.key()[7:])
		if st.Call != "" {
			b.WriteString("," + st.Call)
		}
		if st.Reseed {
			b.WriteString(",reseed")
		}
	}
	return b.String()
}

// hist: the one-shot specification as the first step, then the same render again with the same
// perturbation draws (and, if asked, a Mesh2D() of the same value)
func (s bezSpec) hist(mesh bool) bezHist {
	h := bezHist{Kind: "bezhist", Exact: s.Exact, Draw: s.Draw, Seed: s.Seed,
		Steps: []bezStep{{V: s.V, Close: s.Closed}, {Reseed: true}}}
	if mesh {
		h.Steps = append(h.Steps, bezStep{Call: "mesh2d"})
	}
	return h
}

func (h bezHist) flat(k int) bezSpec {
	s := bezSpec{Kind: "bezier", Exact: h.Exact, Draw: h.Draw, Seed: h.Seed}
	for _, st := range h.Steps[:k+1] {
		s.V = append(s.V, st.V...)
		s.Closed = s.Closed || st.Close
	}
	return s
}

// flatOK: call k of the history must render the curve of the one-shot specification flat(k).
// True when no vertex was added after a render; also when every render after which vertices were
// still added saw an open curve whose first vertex is a plain end point (handles() moves leading
// control points - a reverse handle on the first vertex - behind everything there is at the time;
// closure() appends the closing end point behind everything there is at the time).
func (h bezHist) flatOK(k int) bool {
	closed := false
	first := true
	for j := 0; j < k; j++ {
		closed = closed || h.Steps[j].Close
		added := false
		for _, st := range h.Steps[j+1 : k+1] {
			added = added || len(st.V) > 0
		}
		if !added {
			continue
		}
		if first {
			first = false
			for _, st := range h.Steps {
				if len(st.V) > 0 {
					for _, o := range st.V[0].Ops {
						if o.Op != "hfwd" {
							return false
						}
					}
					break
				}
			}
		}
		if closed {
			return false
		}
	}
	return true
}

type bezRes struct {
	vs       []v2.Vec
	outcome  int
	draws    []float64
	observed bool // false: Mesh2D(), the polyline of this call is not seen
	built    bool // false: a builder call of this step panicked, the history ends here
	mesh     meshObs
	poly     *sdf.Polygon
}

type bezRun struct {
	h    bezHist
	b    *sdf.Bezier
	k    int
	gen  uint64
	dead bool
	res  []bezRes
}

func newBezRun(h bezHist) *bezRun { return &bezRun{h: h, b: sdf.NewBezier()} }

func addBezVertex(b *sdf.Bezier, v bvtx) {
	bv := b.Add(v.X, v.Y)
	for _, o := range v.Ops {
		switch o.Op {
		case "mid":
			bv.Mid()
		case "hfwd":
			bv.HandleFwd(o.A, o.B)
		case "hrev":
			bv.HandleRev(o.A, o.B)
		case "handle":
			bv.Handle(o.A, o.B, o.C)
		}
	}
}

func (x *bezRun) step() bool {
	if x.dead || x.k >= len(x.h.Steps) {
		return false
	}
	st := x.h.Steps[x.k]
	r := bezRes{observed: true}
	mesh := st.Call == "mesh2d" && x.k > 0 && len(st.V) == 0 && !st.Close &&
		x.res[x.k-1].observed && x.res[x.k-1].outcome == outVerts && nice(x.res[x.k-1].vs)
	if x.k > 0 && !st.Reseed && st.Call != "mesh2d" {
		x.gen++
	}
	// the first render of a history draws what the one-shot case with the same seed draws
	src := &recSrc{rng: NewRng(x.h.Seed + 77 + 7919*x.gen), mode: x.h.Draw}
	old := sdf.VerifC17SetRand(rand.New(src))
	stdout := os.Stdout
	if devnull != nil {
		os.Stdout = devnull // "warn: bezier spline resursion limit"
	}
	func() {
		defer func() {
			if e := recover(); e != nil {
				r.vs, r.outcome = nil, outPanic
			}
		}()
		for _, v := range st.V {
			addBezVertex(x.b, v)
		}
		if st.Close {
			x.b.Close()
		}
		r.built = true
		if mesh {
			r.observed = false
			r.mesh.called = true
			r.mesh.panicked = true
			sd, err := x.b.Mesh2D()
			r.mesh.panicked = false
			r.mesh.err = err
			if err == nil {
				r.mesh.bb = sd.BoundingBox()
			}
			return
		}
		p, err := x.b.Polygon()
		if err != nil {
			r.outcome = outError
			return
		}
		r.poly = p
		r.vs = p.Vertices()
	}()
	os.Stdout = stdout
	sdf.VerifC17SetRand(old)
	r.draws = src.draws
	if !r.built {
		x.dead = true
	}
	if r.mesh.called && r.mesh.panicked {
		r.outcome = outVerts // the panic is reported by meshCheck; the state is what a render leaves
	}
	x.res = append(x.res, r)
	x.k++
	return true
}

func runBezHist(h bezHist) *bezRun {
	x := newBezRun(h)
	for x.step() {
	}
	return x
}

func sameDraws(a, b []float64) bool {
	if len(a) != len(b) {
		return false
	}
	for i := range a {
		if a[i] != b[i] {
			return false
		}
	}
	return true
}

var outName = []string{"vertices", "an error", "a panic"}

// bezHistOracle: the direct checks on a Bezier history (see polyHistOracle)
func bezHistOracle(x *bezRun, from int, flat bool, st *bezStats, viol violFn, names map[string]int) int {
	h, res := x.h, x.res
	closed := false
	n := 0
	for k, s := range h.Steps {
		newClose := s.Close && !closed
		closed = closed || s.Close
		if k >= len(res) || k < from {
			continue
		}
		n++
		r := res[k]
		call := fmt.Sprintf("call %d (Polygon()) on the same Bezier", k+1)
		if r.mesh.called {
			call = fmt.Sprintf("call %d (Mesh2D()) on the same Bezier", k+1)
			meshCheck(r.mesh, res[k-1].vs, call, viol)
			continue
		}
		if !r.built {
			continue
		}
		if k > 0 && len(s.V) == 0 && !newClose && s.Reseed && res[k-1].observed {
			prev := res[k-1]
			if r.outcome != prev.outcome {
				viol(fmt.Sprintf("%s gives %s, the call before it (nothing added in between) gave %s", call, outName[r.outcome], outName[prev.outcome]))
			} else if ok, d := sameBits(prev.vs, r.vs); !ok {
				viol(fmt.Sprintf("%s, nothing added in between and the same perturbation draws supplied, differs from the call before it (%s): the control points left behind by the first render are not the ones it was given", call, d))
			} else if !sameDraws(prev.draws, r.draws) {
				viol(fmt.Sprintf("%s asked for %d perturbation draws, the call before it for %d", call, len(r.draws), len(prev.draws)))
			}
		}
		if flat && h.flatOK(k) {
			o := bezOracle(h.flat(k), r.vs, r.outcome, st, func(what string) { viol(call + ", as the curve of everything added so far: " + what) })
			if names != nil {
				names["bezhist/"+o]++
			}
		}
	}
	// polygons handed out earlier are values of their own
	for k, r := range res {
		if r.poly == nil || k < from-1 {
			continue
		}
		func() {
			defer func() {
				if e := recover(); e != nil {
					viol(fmt.Sprintf("the polygon returned by call %d panics when asked for its vertices again at the end of the history", k+1))
				}
			}()
			if ok, d := sameBits(r.vs, r.poly.Vertices()); !ok {
				viol(fmt.Sprintf("the polygon returned by call %d changed after later calls on the Bezier (%s)", k+1, d))
			}
		}()
	}
	return n
}

func coqBvtx(v bvtx) string {
	var ops []string
	for _, o := range v.Ops {
		switch o.Op {
		case "mid":
			ops = append(ops, "BMid")
		case "hfwd":
			ops = append(ops, fmt.Sprintf("BHandleFwd %s %s", CF(o.A), CF(o.B)))
		case "hrev":
			ops = append(ops, fmt.Sprintf("BHandleRev %s %s", CF(o.A), CF(o.B)))
		case "handle":
			ops = append(ops, fmt.Sprintf("BHandle %s %s %s", CF(o.A), CF(o.B), CF(o.C)))
		}
	}
	return fmt.Sprintf("(%s, %s, %s)", CF(v.X), CF(v.Y), CList(ops))
}

// coq: a casehb term of coq/Sdf/C17Hist.v
func (x *bezRun) coq(id int) string {
	var steps []string
	for k, r := range x.res {
		st := x.h.Steps[k]
		var vt []string
		for _, v := range st.V {
			vt = append(vt, coqBvtx(v))
		}
		ds := make([]string, len(r.draws))
		for i, d := range r.draws {
			ds[i] = CF(d)
		}
		obs := "None"
		if r.observed {
			switch r.outcome {
			case outPanic:
				obs = "(Some BPanic)"
			case outError:
				obs = "(Some BError)"
			default:
				obs = "(Some (BVerts " + coqPts(r.vs) + "))"
			}
		} else {
			ds = nil
		}
		steps = append(steps, fmt.Sprintf("(%s, %s, %s, %s)", CList(vt), CB(st.Close), CList(ds), obs))
	}
	return fmt.Sprintf("(%d%%N, %s)", id, CList(steps))
}

// ---------------------------------------------------------------- runner entry points

func (x *runner) polyHist(stratum string, h polyHist) {
	h.Kind = "polyhist"
	x.id++
	run := runPolyHist(h)
	x.chp.Add(run.coq(x.id))
	key := h.key()
	x.calls += polyHistOracle(h, run.res, 0, true, func(what string) { x.r.Violate(key, "Polygon history: "+what, h) }, x.oracles)
	nv := 0
	for _, st := range h.Steps {
		nv += len(st.V)
	}
	x.r.Case("polyhist/"+stratum, key, nv >= 2 && len(h.Steps) >= 2)
	if x.id%41 == 0 {
		x.r.Sample(map[string]interface{}{"history": h, "calls": len(run.res)})
	}
}

func (x *runner) bezDone(stratum string, run *bezRun) {
	x.id++
	h := run.h
	x.chb.Add(run.coq(x.id))
	key := h.key()
	x.calls += bezHistOracle(run, 0, true, &x.st, func(what string) { x.r.Violate(key, "Bezier history: "+what, h) }, x.oracles)
	ok := false
	for _, r := range run.res {
		ok = ok || (r.observed && r.outcome == outVerts && len(r.vs) >= 2)
	}
	x.r.Case("bezhist/"+stratum, key, ok && len(h.Steps) >= 2)
	if x.id%41 == 0 {
		x.r.Sample(map[string]interface{}{"history": h, "calls": len(run.res)})
	}
}

func (x *runner) bezHist(stratum string, h bezHist) {
	h.Kind = "bezhist"
	x.bezDone(stratum, runBezHist(h))
}

// bezPair runs two histories in lockstep (a.step, b.step, a.step, ...): two Bezier values alive
// at the same time, each compared with its own model and oracles
func (x *runner) bezPair(stratum string, ha, hb bezHist) {
	ha.Kind, hb.Kind = "bezhist", "bezhist"
	a, b := newBezRun(ha), newBezRun(hb)
	for {
		sa, sb := a.step(), b.step()
		if !sa && !sb {
			break
		}
	}
	x.bezDone(stratum, a)
	x.bezDone(stratum, b)
}

// ---------------------------------------------------------------- generators

func randCorner(rng *Rng) polySpec {
	adeg := []float64{2, 10, 30, 45, 60, 89, 90, 91, 120, 150, 170, 178}[rng.Intn(12)]
	th := adeg * deg
	dir := float64(1 - 2*rng.Intn(2))
	al := rng.Uniform(0, 2*math.Pi)
	V := [2]float64{rng.Uniform(-20, 20), rng.Uniform(-20, 20)}
	if rng.Intn(3) == 0 {
		V = [2]float64{rng.Dyadic(16, 2), rng.Dyadic(16, 2)}
	}
	rad := []float64{0.01, 0.25, 1, 3}[rng.Intn(4)] * rng.Uniform(0.5, 1.5)
	d := rad / math.Tan(th/2)
	L0, L1 := d*rng.Uniform(1.5, 8)+0.1, d*rng.Uniform(1.5, 8)+0.1
	switch rng.Intn(5) {
	case 1:
		L0 = d * rng.Uniform(0.2, 0.98)
	case 2:
		L1 = d * rng.Uniform(0.2, 0.98)
	}
	c0x, c0y := pol(al)
	c1x, c1y := pol(al + dir*th)
	s := polySpec{V: []vtx{{X: V[0] + L0*c0x, Y: V[1] + L0*c0y}, {X: V[0], Y: V[1]}, {X: V[0] + L1*c1x, Y: V[1] + L1*c1y}}}
	if rng.Intn(4) == 0 {
		s.V[1].Ops = []vop{{Op: "chamfer", A: rad * math.Sqrt2}}
	} else {
		s.V[1].Ops = []vop{{Op: "smooth", A: rad, N: rng.Range(1, 12)}}
	}
	return s
}

// an open chain of plain and arc vertices
func randArcChain(rng *Rng, n int) polySpec {
	var s polySpec
	px, py := rng.Uniform(-10, 10), rng.Uniform(-10, 10)
	s.V = append(s.V, vtx{X: px, Y: py})
	for i := 1; i < n; i++ {
		L := rng.Uniform(0.5, 12)
		cx, cy := pol(rng.Uniform(0, 2*math.Pi))
		px, py = px+L*cx, py+L*cy
		v := vtx{X: px, Y: py}
		if n == 2 || rng.Intn(3) != 0 {
			ratio := []float64{0.5000001, 0.51, 0.6, 0.75, 1, 2, 10}[rng.Intn(7)]
			v.Ops = []vop{{Op: "arc", A: float64(1-2*rng.Intn(2)) * ratio * L, N: []int{1, 2, 3, 5, 8, 16}[rng.Intn(6)]}}
		}
		s.V = append(s.V, v)
	}
	return s
}

func randRelPolar(rng *Rng) polySpec {
	var s polySpec
	n := rng.Range(2, 8)
	dy := rng.Bool()
	for i := 0; i < n; i++ {
		v := vtx{X: rng.Uniform(-10, 10), Y: rng.Uniform(-10, 10)}
		if dy {
			v.X, v.Y = rng.Dyadic(16, 3), rng.Dyadic(16, 3)
		}
		polar, rel := rng.Intn(3) == 0, rng.Intn(2) == 0 && i > 0
		if polar {
			v.X, v.Y = math.Abs(v.X), rng.Uniform(-7, 7)
		}
		if polar && rng.Bool() {
			v.Ops = append(v.Ops, vop{Op: "polar"})
			polar = false
		}
		if rel {
			v.Ops = append(v.Ops, vop{Op: "rel"})
		}
		if polar {
			v.Ops = append(v.Ops, vop{Op: "polar"})
		}
		s.V = append(s.V, v)
	}
	return s
}

// a star-shaped ring with random markings; some later vertices given relative to the one before
func randMixed(rng *Rng) polySpec {
	var s polySpec
	n := rng.Range(3, 9)
	R := rng.Uniform(2, 20)
	cx, cy := rng.Uniform(-10, 10), rng.Uniform(-10, 10)
	dy := rng.Intn(5) == 0
	var px, py float64
	for i := 0; i < n; i++ {
		a := (float64(i) + rng.Uniform(-0.3, 0.3)) * 2 * math.Pi / float64(n)
		rr := R * rng.Uniform(0.5, 1.2)
		ux, uy := pol(a)
		v := vtx{X: cx + rr*ux, Y: cy + rr*uy}
		if dy {
			v.X, v.Y = math.Round(v.X*4)/4, math.Round(v.Y*4)/4
		}
		qx, qy := v.X, v.Y
		if i > 0 && rng.Intn(4) == 0 {
			v.X, v.Y = v.X-px, v.Y-py
			v.Ops = append(v.Ops, vop{Op: "rel"})
		}
		px, py = qx, qy
		switch rng.Intn(6) {
		case 0, 1:
			v.Ops = append(v.Ops, vop{Op: "smooth", A: R * []float64{0.01, 0.1, 0.3, 2}[rng.Intn(4)], N: rng.Range(1, 8)})
		case 2:
			v.Ops = append(v.Ops, vop{Op: "chamfer", A: R * rng.Uniform(0.02, 0.4)})
		case 3:
			v.Ops = append(v.Ops, vop{Op: "arc", A: float64(1-2*rng.Intn(2)) * R * rng.Uniform(1.3, 4), N: rng.Range(1, 8)})
		}
		s.V = append(s.V, v)
	}
	return s
}

// cuts: 1..3 stages of a list of n vertices (cut points anywhere, the first stage may be empty)
func cuts(rng *Rng, n int) []int {
	m := rng.Range(1, 3)
	c := []int{0}
	for i := 1; i < m; i++ {
		c = append(c, rng.Range(c[len(c)-1], n))
	}
	return append(c, n)
}

func genPolyHist(c *Ctx, rng *Rng, x *runner) {
	for k := 0; k < TierN(c.Tier, 150, 1200, 400); k++ {
		var s polySpec
		name := ""
		early, late := false, false
		switch k % 6 {
		case 0:
			s, name = randCorner(rng), "staged-corner"
		case 1:
			s, name = randArcChain(rng, []int{2, 2, 3, 5}[rng.Intn(4)]), "staged-arcs"
		case 2:
			s, name = randRelPolar(rng), "staged-relpolar"
			s.Reverse = rng.Intn(4) == 0
			early = rng.Bool()
		case 3:
			s, name = randMixed(rng), "extend-open"
			s.Closed, s.Reverse = rng.Intn(3) == 0, rng.Intn(5) == 0
			late = true
		case 4:
			s, name = randMixed(rng), "extend-closed"
			s.Closed, s.Reverse = true, rng.Intn(5) == 0
			early = true
		default:
			if rng.Bool() {
				s = randMixed(rng)
			} else {
				s = randArcChain(rng, rng.Range(3, 7))
				if rng.Bool() { // an arc into the first vertex: its chord is the closing edge
					a, b := s.V[0], s.V[len(s.V)-1]
					s.V[0].Ops = []vop{{Op: "arc", A: float64(1-2*rng.Intn(2)) * rng.Uniform(0.55, 3) * math.Hypot(a.X-b.X, a.Y-b.Y), N: rng.Range(1, 9)}}
				}
			}
			s.Closed, s.Reverse = rng.Intn(3) != 0, rng.Bool()
			name = "flags-later"
			late = true
		}
		h := polyHist{Kind: "polyhist"}
		cs := cuts(rng, len(s.V))
		if name == "flags-later" {
			cs = []int{0, len(s.V)}
		}
		again := func() {
			for rng.Intn(3) == 0 {
				st := polyStep{}
				if rng.Intn(3) == 0 {
					st.Call = "mesh2d"
				}
				h.Steps = append(h.Steps, st)
			}
		}
		for i := 0; i+1 < len(cs); i++ {
			st := polyStep{V: s.V[cs[i]:cs[i+1]]}
			if i == 0 && early {
				st.Close, st.Reverse = s.Closed, s.Reverse
			}
			if i+2 == len(cs) && !early && !late {
				st.Close, st.Reverse = s.Closed, s.Reverse
			}
			h.Steps = append(h.Steps, st)
			again()
		}
		if late { // the flags one at a time, each followed by a render
			if s.Reverse && rng.Bool() {
				h.Steps = append(h.Steps, polyStep{Reverse: true})
				s.Reverse = false
				again()
			}
			if s.Closed {
				h.Steps = append(h.Steps, polyStep{Close: true})
				again()
			}
			if s.Reverse {
				h.Steps = append(h.Steps, polyStep{Reverse: true})
			}
		}
		if len(h.Steps) < 2 || k%5 == 0 {
			h.Steps = append(h.Steps, polyStep{}, polyStep{Call: "mesh2d"})
		}
		x.polyHist(name, h)
	}
}

// a curve of Add / Mid vertices (1..4 spans of degree 1..4), an end point first and last
func randMids(rng *Rng, exact bool) []bvtx {
	coord := func() (float64, float64) {
		if exact {
			return rng.Dyadic(16, 2), rng.Dyadic(16, 2)
		}
		return rng.Uniform(-50, 50), rng.Uniform(-50, 50)
	}
	px, py := coord()
	vs := []bvtx{{X: px, Y: py}}
	for i, n := 0, rng.Range(1, 4); i < n; i++ {
		for m := rng.Range(0, 3); m > 0; m-- {
			qx, qy := coord()
			vs = append(vs, bvtx{X: qx, Y: qy, Ops: []bop{{Op: "mid"}}})
		}
		qx, qy := coord()
		if rng.Intn(8) == 0 && len(vs[len(vs)-1].Ops) == 0 { // repeated end point: a point span
			qx, qy = vs[len(vs)-1].X, vs[len(vs)-1].Y
		}
		vs = append(vs, bvtx{X: qx, Y: qy})
	}
	return vs
}

// a curve of end points with handles (and the odd free control point); open: no handle pointing
// outwards at the two ends unless loose
func randHandles(rng *Rng, closed, loose bool) []bvtx {
	var vs []bvtx
	n := rng.Range(2, 5)
	for i := 0; i < n; i++ {
		v := bvtx{X: rng.Uniform(-50, 50), Y: rng.Uniform(-50, 50)}
		th, f, rv := rng.Uniform(-7, 7), rng.Uniform(0.5, 30), rng.Uniform(0.5, 30)
		if rng.Intn(5) == 0 {
			th = float64(rng.Range(-4, 4)) * math.Pi / 4
		}
		switch rng.Intn(5) {
		case 0:
			v.Ops = []bop{{Op: "handle", A: th, B: f, C: rv}}
		case 1:
			v.Ops = []bop{{Op: "hfwd", A: th, B: -f}}
		case 2:
			v.Ops = []bop{{Op: "hrev", A: th, B: rv}}
		case 3:
			v.Ops = []bop{{Op: "hrev", A: th, B: rv}, {Op: "hfwd", A: th + 1, B: f}}
		}
		if !closed && !loose {
			var keep []bop
			for _, o := range v.Ops {
				if (i == 0 && o.Op == "hrev") || (i == n-1 && o.Op == "hfwd") {
					continue
				}
				if o.Op == "handle" && (i == 0 || i == n-1) {
					if i == 0 {
						o = bop{Op: "hfwd", A: o.A, B: o.B}
					} else {
						o = bop{Op: "hrev", A: o.A, B: o.C}
					}
				}
				keep = append(keep, o)
			}
			v.Ops = keep
		}
		vs = append(vs, v)
		if rng.Intn(3) == 0 && i < n-1 {
			vs = append(vs, bvtx{X: rng.Uniform(-50, 50), Y: rng.Uniform(-50, 50), Ops: []bop{{Op: "mid"}}})
		}
	}
	return vs
}

func randBezHist(rng *Rng, kind int) (bezHist, string) {
	h := bezHist{Kind: "bezhist", Draw: []string{"", "", "", "lo", "hi"}[rng.Intn(5)], Seed: rng.U64() % 1000000}
	var vs []bvtx
	closed := false
	name := ""
	stage := true
	closeLate := false
	switch kind {
	case 0: // handles, everything given at once, rendered again and again
		closed = rng.Bool()
		vs, name, stage = randHandles(rng, closed, rng.Intn(8) == 0), "rerender-handles", false
	case 1: // open curve given in stages (a stage may end on a control point: an error, then more)
		if rng.Bool() {
			vs = randHandles(rng, false, rng.Intn(8) == 0)
		} else {
			vs = randMids(rng, false)
		}
		name = "extend-open"
	case 2: // everything given, rendered open, then Close()
		if rng.Bool() {
			vs = randHandles(rng, true, false)
		} else {
			vs = randMids(rng, false)
		}
		closed, closeLate, stage, name = true, true, rng.Intn(3) == 0, "close-later"
	case 3: // closed from the first render on, vertices added behind the closing point later
		if rng.Bool() {
			vs = randHandles(rng, true, false)
		} else {
			vs = randMids(rng, false)
		}
		closed, name = true, "extend-closed"
	default: // dyadic-exact regime in stages
		h.Exact = true
		vs, name = randMids(rng, true), "extend-exact"
		closed, closeLate = rng.Intn(3) == 0, true
	}
	cs := []int{0, len(vs)}
	if stage {
		cs = cuts(rng, len(vs))
		if cs[1] == 0 && len(cs) > 2 {
			cs = cs[1:]
		}
	}
	again := func() {
		for rng.Intn(3) == 0 {
			h.Steps = append(h.Steps, bezStep{Reseed: rng.Bool()})
			if rng.Intn(3) == 0 {
				h.Steps = append(h.Steps, bezStep{Call: "mesh2d"})
			}
		}
	}
	for i := 0; i+1 < len(cs); i++ {
		st := bezStep{V: vs[cs[i]:cs[i+1]]}
		if closed && !closeLate && i == 0 {
			st.Close = true
		}
		h.Steps = append(h.Steps, st)
		again()
	}
	if closed && closeLate {
		h.Steps = append(h.Steps, bezStep{Close: true})
		again()
	}
	if len(h.Steps) < 2 || kind == 0 {
		h.Steps = append(h.Steps, bezStep{}, bezStep{Call: "mesh2d"}, bezStep{Reseed: true})
	}
	return h, name
}

func genBezHist(c *Ctx, rng *Rng, x *runner) {
	for k := 0; k < TierN(c.Tier, 150, 1200, 400); k++ {
		if k%6 == 5 {
			ha, _ := randBezHist(rng, rng.Intn(5))
			hb, _ := randBezHist(rng, rng.Intn(5))
			x.bezPair("interleaved", ha, hb)
			continue
		}
		h, name := randBezHist(rng, k%6)
		x.bezHist(name, h)
	}
	// builder calls that panic in a later stage (a handle on a control point), the value used again before
	mid := []bop{{Op: "mid"}}
	for k := 0; k < 4; k++ {
		h := bezHist{Seed: uint64(k), Steps: []bezStep{
			{V: []bvtx{{X: 0, Y: 0, Ops: []bop{{Op: "hfwd", A: 1, B: 2}}}, {X: 4, Y: 1}}, Close: k%2 == 1},
			{Reseed: true},
			{V: []bvtx{{X: 5, Y: 5, Ops: mid}, {X: 6, Y: 0, Ops: []bop{{Op: "mid"}, {Op: "hrev", A: 1, B: 1}}}, {X: 7, Y: 7}}},
			{}}}
		if k >= 2 { // degree 5 span: Polygon() panics after its fixups, the value is used again
			h.Steps[2].V = []bvtx{{X: 1, Y: 1, Ops: mid}, {X: 2, Y: 0, Ops: mid}, {X: 3, Y: 1, Ops: mid}, {X: 4, Y: 0, Ops: mid}, {X: 5, Y: 1, Ops: mid}, {X: 6, Y: 6}}
			h.Steps = append(h.Steps, bezStep{V: []bvtx{{X: 9, Y: 9}}})
		}
		x.bezHist("panics", h)
	}
}
