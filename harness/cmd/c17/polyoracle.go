package main

// Direct oracles on Polygon.Vertices() and Nagon(): circles, tangent points, chord sides,
// running sums, regularity - all recomputed here with formulas independent of sdf/poly.go
// (atan2 instead of acos, hypot, circumradius).

import (
	"fmt"
	"math"

	v2 "github.com/deadsy/sdfx/vec/v2"
)

type violFn func(what string)

func pureOps(ops []vop, allowed ...string) bool {
	for _, o := range ops {
		ok := false
		for _, a := range allowed {
			if o.Op == a {
				ok = true
			}
		}
		if !ok {
			return false
		}
	}
	return true
}

// polyOracle picks the oracle by the shape of the specification; returns the oracle's name
// ("" = no direct oracle applies, the case is compared with the model only)
func polyOracle(s polySpec, vs []v2.Vec, panicked bool, viol violFn) string {
	n := len(s.V)
	if !s.Closed && !s.Reverse && n == 3 && len(s.V[0].Ops) == 0 && len(s.V[2].Ops) == 0 && len(s.V[1].Ops) == 1 &&
		(s.V[1].Ops[0].Op == "smooth" || s.V[1].Ops[0].Op == "chamfer") {
		if panicked {
			viol("Vertices() panicked on a three-vertex corner")
			return "corner"
		}
		return cornerOracle(s, vs, viol)
	}
	if !s.Closed && !s.Reverse && n == 2 && len(s.V[0].Ops) == 0 && len(s.V[1].Ops) == 1 && s.V[1].Ops[0].Op == "arc" {
		if panicked {
			viol("Vertices() panicked on a two-vertex arc")
			return "arc"
		}
		return arcOracle(s, vs, viol)
	}
	if o := multiArcOracle(s, vs, panicked, viol); o != "" {
		return o
	}
	all := true
	for _, v := range s.V {
		if !pureOps(v.Ops, "rel", "polar") {
			all = false
		}
	}
	if all && n > 0 && !hasOp(s.V[0].Ops, "rel") {
		if panicked {
			viol("Vertices() panicked although the first vertex is absolute")
			return "relpolar"
		}
		return relPolarOracle(s, vs, viol)
	}
	return ""
}

func hasOp(ops []vop, name string) bool {
	for _, o := range ops {
		if o.Op == name {
			return true
		}
	}
	return false
}

const deg = math.Pi / 180

// cornerOracle: A, V.Smooth(r, n) | V.Chamfer(size), B (open).
func cornerOracle(s polySpec, vs []v2.Vec, viol violFn) string {
	A := v2.Vec{X: s.V[0].X, Y: s.V[0].Y}
	V := v2.Vec{X: s.V[1].X, Y: s.V[1].Y}
	B := v2.Vec{X: s.V[2].X, Y: s.V[2].Y}
	op := s.V[1].Ops[0]
	r, n := op.A, op.N
	name := "corner/smooth"
	if op.Op == "chamfer" {
		r, n = op.A/math.Sqrt2, 1
		name = "corner/chamfer"
	}
	if !(r > 0) || n < 1 {
		// Smooth(0, n), Smooth(r, 0), Chamfer(0) mark nothing
		if r == 0 || n == 0 {
			if len(vs) != 3 || vs[0] != A || vs[1] != V || vs[2] != B {
				viol(fmt.Sprintf("a zero radius/facet count must leave the vertex alone, got %d vertices", len(vs)))
			}
			return name + "/noop"
		}
		return ""
	}
	L0, L1 := norm(sub(A, V)), norm(sub(B, V))
	if L0 == 0 || L1 == 0 {
		return ""
	}
	u0, u1 := scl(sub(A, V), 1/L0), scl(sub(B, V), 1/L1)
	theta := math.Atan2(math.Abs(crs(u0, u1)), dot(u0, u1))
	if theta < 0.01*deg || theta > 179.99*deg {
		return "" // degenerate corner: outside the claim
	}
	rel := 1e-9
	if theta < 0.999*deg || theta > 179.001*deg {
		rel = 1e-5 // acos of a dot product within 1e-4 of +-1: conditioning of the angle itself
		name += "/extreme"
	}
	d := r / math.Tan(theta/2)
	border := math.Abs(d-L0) <= 1e-9*L0 || math.Abs(d-L1) <= 1e-9*L1
	fits := d <= L0 && d <= L1
	scale := math.Max(maxAbs(A, V, B), r)
	tol := rel*r + 1e-13*scale
	if vs[0] != A || vs[len(vs)-1] != B {
		viol("the neighbouring vertices A, B changed")
		return name
	}
	if len(vs) == 3 {
		if vs[1] != V {
			viol(fmt.Sprintf("vertex left in place but moved to %v", vs[1]))
		}
		if fits && !border {
			viol(fmt.Sprintf("the fillet fits (tangent distance %g <= edges %g, %g) but the vertex was left unchanged", d, L0, L1))
		}
		return name + "/toolarge"
	}
	if len(vs) != n+3 {
		viol(fmt.Sprintf("expected facets+1 = %d points in place of the vertex, got %d", n+1, len(vs)-2))
		return name
	}
	if !fits && !border {
		viol(fmt.Sprintf("the fillet does not fit (tangent distance %g, edges %g, %g) but the vertex was replaced", d, L0, L1))
		return name
	}
	pts := vs[1 : n+2]
	for _, p := range pts {
		if !finite(p) {
			viol(fmt.Sprintf("non-finite generated point %v", p))
			return name
		}
	}
	bis := add(u0, u1)
	bis = scl(bis, 1/norm(bis))
	c := add(V, scl(bis, r/math.Sin(theta/2)))
	for j, p := range pts {
		if e := math.Abs(norm(sub(p, c)) - r); e > tol {
			viol(fmt.Sprintf("point %d of %d is at distance %.17g from the tangent circle's centre, radius %.17g (off by %.3g)", j, n+1, norm(sub(p, c)), r, e))
			return name
		}
	}
	// centre at distance r from both edge lines
	if e := math.Abs(math.Abs(crs(sub(c, V), u0)) - r); e > tol {
		viol("oracle inconsistency: centre not tangent") // cannot happen; guards the oracle itself
	}
	chk := func(which string, p v2.Vec, u v2.Vec) bool {
		if e := math.Abs(crs(sub(p, V), u)); e > tol {
			viol(fmt.Sprintf("the %s point is %.3g off its edge line", which, e))
			return false
		}
		if e := math.Abs(dot(sub(p, V), u) - d); e > tol {
			viol(fmt.Sprintf("the %s point is at %.17g along its edge, tangent distance %.17g", which, dot(sub(p, V), u), d))
			return false
		}
		if e := math.Abs(dot(sub(p, c), u)); e > tol {
			viol(fmt.Sprintf("the radius at the %s point is not perpendicular to its edge (%.3g)", which, e))
			return false
		}
		return true
	}
	if !chk("first", pts[0], u0) || !chk("last", pts[n], u1) {
		return name
	}
	// equal angular steps of (pi - theta)/facets, all in one direction
	step := (math.Pi - theta) / float64(n)
	atol := rel + 1e-12*scale/r
	var sgn float64
	for j := 0; j < n; j++ {
		a, b := sub(pts[j], c), sub(pts[j+1], c)
		ang := math.Atan2(crs(a, b), dot(a, b))
		if j == 0 {
			sgn = math.Copysign(1, ang)
		}
		if math.Abs(ang*sgn-step) > atol {
			viol(fmt.Sprintf("angular step %d is %.17g, expected %.17g = (pi-theta)/facets", j, ang*sgn, step))
			return name
		}
	}
	if op.Op == "chamfer" && math.Abs(theta-math.Pi/2) < 1e-12 {
		if e := math.Abs(norm(sub(pts[0], pts[1])) - op.A); e > 1e-9*op.A+1e-13*scale {
			viol(fmt.Sprintf("right-angle chamfer of size %g has cut length %.17g", op.A, norm(sub(pts[0], pts[1]))))
		}
	}
	return name + "/fits"
}

// arcOracle: A, B.Arc(r, n) (open).
func arcOracle(s polySpec, vs []v2.Vec, viol violFn) string {
	A := v2.Vec{X: s.V[0].X, Y: s.V[0].Y}
	B := v2.Vec{X: s.V[1].X, Y: s.V[1].Y}
	op := s.V[1].Ops[0]
	r, n := math.Abs(op.A), op.N
	side := 1.0
	if op.A < 0 {
		side = -1
	}
	if r == 0 || n == 0 {
		if len(vs) != 2 || vs[0] != A || vs[1] != B {
			viol("a zero radius/facet count must leave the segment alone")
		}
		return "arc/noop"
	}
	L := norm(sub(B, A))
	if n < 1 || L == 0 {
		return ""
	}
	h := L / 2
	if r < h*(1-1e-13) {
		return "" // no circle of this radius passes through both endpoints: outside the claim
	}
	name := "arc"
	if r <= h*(1+1e-13) {
		name = "arc/semicircle"
	}
	if len(vs) != n+1 {
		viol(fmt.Sprintf("expected facets-1 = %d new points, got %d", n-1, len(vs)-2))
		return name
	}
	if vs[0] != A || vs[n] != B {
		viol("the arc endpoints changed")
		return name
	}
	scale := math.Max(maxAbs(A, B), r)
	tol := 1e-9*r + 1e-13*scale
	dC2 := r*r - h*h
	if dC2 < 0 {
		dC2 = 0
	}
	dC := math.Sqrt(dC2)
	u := scl(sub(B, A), 1/L)
	// side > 0: centre to the right of A->B, arc to the left
	c := add(scl(add(A, B), 0.5), scl(v2.Vec{X: u.Y, Y: -u.X}, side*dC))
	for j := 1; j < n; j++ {
		q := vs[j]
		if !finite(q) {
			viol(fmt.Sprintf("non-finite arc point %d: %v", j, q))
			return name
		}
		var rad float64
		if dC >= 0.1*r {
			rad = norm(sub(q, c))
		} else {
			// near the semicircle the centre is ill-conditioned but the radius is not: circumradius of A, q, B
			rad = L * norm(sub(q, A)) * norm(sub(B, q)) / (2 * math.Abs(crs(sub(q, A), sub(B, A))))
		}
		if e := math.Abs(rad - r); e > tol {
			viol(fmt.Sprintf("arc point %d lies on a circle through the endpoints of radius %.17g, not %.17g", j, rad, r))
			return name
		}
		if sd := crs(sub(B, A), sub(q, A)) * side; !(sd > 0) {
			viol(fmt.Sprintf("arc point %d is on the wrong side of the chord for radius sign %+g", j, side))
			return name
		}
		if dot(sub(A, q), sub(B, q)) > tol*L {
			viol(fmt.Sprintf("arc point %d is on the major arc", j))
			return name
		}
	}
	// equal chords, endpoints included (the stepping angle is an acos: near the semicircle, where its
	// argument approaches -1, it carries sqrt(ulp) ~ 1e-8 of relative error, which the last facet absorbs)
	c0 := norm(sub(vs[1], vs[0]))
	for j := 1; j < n; j++ {
		if e := math.Abs(norm(sub(vs[j+1], vs[j])) - c0); e > 1e-6*L+1e-13*scale {
			viol(fmt.Sprintf("facet %d has length %.17g, facet 0 has %.17g: the points do not divide the arc evenly up to its endpoint", j, norm(sub(vs[j+1], vs[j])), c0))
			return name
		}
	}
	return name
}

// relPolarOracle: only Rel()/Polar() calls, first vertex absolute.
func relPolarOracle(s polySpec, vs []v2.Vec, viol violFn) string {
	want := make([]v2.Vec, len(s.V))
	for i, v := range s.V {
		p := v2.Vec{X: v.X, Y: v.Y}
		rel := false
		for _, o := range v.Ops { // in call order
			switch o.Op {
			case "polar":
				p = v2.Vec{X: p.X * math.Cos(p.Y), Y: p.X * math.Sin(p.Y)}
			case "rel":
				rel = true
			}
		}
		if rel {
			p = add(want[i-1], p)
		}
		want[i] = p
	}
	if s.Reverse {
		for i, j := 0, len(want)-1; i < j; i, j = i+1, j-1 {
			want[i], want[j] = want[j], want[i]
		}
	}
	if len(vs) != len(want) {
		viol(fmt.Sprintf("expected %d vertices, got %d", len(want), len(vs)))
		return "relpolar"
	}
	scale := maxAbs(want...)
	for i := range want {
		if e := norm(sub(vs[i], want[i])); !(e <= 1e-12*scale) {
			viol(fmt.Sprintf("vertex %d resolves to %v, stated absolute position %v", i, vs[i], want[i]))
			return "relpolar"
		}
	}
	return "relpolar"
}

func nagonOracle(n int, radius float64, vs []v2.Vec, viol violFn) {
	if n < 3 {
		if len(vs) != 0 {
			viol("Nagon with fewer than 3 sides must be empty")
		}
		return
	}
	if len(vs) != n {
		viol(fmt.Sprintf("expected %d vertices, got %d", n, len(vs)))
		return
	}
	if vs[0].X != radius || vs[0].Y != 0 {
		viol(fmt.Sprintf("first vertex %v is not (radius, 0)", vs[0]))
	}
	r := math.Abs(radius)
	for i := 0; i < n; i++ {
		if e := math.Abs(norm(vs[i]) - r); e > 1e-9*r {
			viol(fmt.Sprintf("vertex %d at distance %.17g from the centre, radius %.17g", i, norm(vs[i]), r))
			return
		}
		a, b := vs[i], vs[(i+1)%n]
		ang := math.Atan2(crs(a, b), dot(a, b))
		if math.Abs(ang-2*math.Pi/float64(n)) > 1e-9 {
			viol(fmt.Sprintf("angle from vertex %d to the next is %.17g, expected 2pi/n = %.17g", i, ang, 2*math.Pi/float64(n)))
			return
		}
	}
}

// multiArcOracle: a polygon (open or closed, possibly reversed) of absolute vertices of which
// some carry one Arc(r, n): every arc vertex with a predecessor must be preceded in the output by
// its facets-1 points (each checked by arcOracle against the circle through the two chord ends),
// every other vertex appears once, nothing else appears.  "" when the shape is not of this kind
// or an arc is outside the claim (chord longer than the diameter, coincident ends).
func multiArcOracle(s polySpec, vs []v2.Vec, panicked bool, viol violFn) string {
	n := len(s.V)
	if n < 2 {
		return ""
	}
	arcs := 0
	for _, v := range s.V {
		if len(v.Ops) > 1 || (len(v.Ops) == 1 && v.Ops[0].Op != "arc") {
			return ""
		}
		if len(v.Ops) == 1 {
			arcs++
		}
	}
	if arcs == 0 || (arcs == 1 && !s.Closed && !s.Reverse && n == 2) {
		return "" // the two-vertex single arc has its own stratum
	}
	if panicked {
		viol("Vertices() panicked on a polygon of plain and arc vertices")
		return "multiarc"
	}
	P := func(i int) v2.Vec { return v2.Vec{X: s.V[i].X, Y: s.V[i].Y} }
	type seg struct {
		a, b v2.Vec
		op   vop
	}
	segs := make([]*seg, n)
	want := 0
	for i := 0; i < n; i++ {
		want++
		if len(s.V[i].Ops) == 0 {
			continue
		}
		op := s.V[i].Ops[0]
		if op.A == 0 || op.N == 0 {
			continue // marks nothing
		}
		if i == 0 && !s.Closed {
			continue // no previous vertex: stays a plain vertex
		}
		a := P((i + n - 1) % n)
		b := P(i)
		L := norm(sub(b, a))
		if op.N < 1 || L == 0 || math.Abs(op.A) < L/2*(1-1e-13) {
			return ""
		}
		segs[i] = &seg{a, b, op}
		want += op.N - 1
	}
	out := vs
	if s.Reverse {
		out = make([]v2.Vec, len(vs))
		for i, v := range vs {
			out[len(vs)-1-i] = v
		}
	}
	name := fmt.Sprintf("multiarc/%darcs", arcs)
	if arcs > 6 {
		name = "multiarc/7+arcs"
	}
	if len(out) != want {
		viol(fmt.Sprintf("%d vertices and %d arc segments must give %d vertices (facets-1 new points per arc), got %d: an arc segment was left straight or filled twice", n, arcs, want, len(out)))
		return name
	}
	idx := 0
	for i := 0; i < n; i++ {
		if sg := segs[i]; sg != nil {
			sub := append([]v2.Vec{sg.a}, out[idx:idx+sg.op.N]...)
			i0 := i
			arcOracle(polySpec{V: []vtx{{X: sg.a.X, Y: sg.a.Y}, {X: sg.b.X, Y: sg.b.Y, Ops: []vop{sg.op}}}}, sub,
				func(what string) { viol(fmt.Sprintf("arc into vertex %d: %s", i0, what)) })
			idx += sg.op.N
		} else {
			if out[idx] != P(i) {
				viol(fmt.Sprintf("plain vertex %d = %v appears as %v", i, P(i), out[idx]))
				return name
			}
			idx++
		}
	}
	return name
}
