package shapes

// Trees with PARAMETER-DERIVED probe points and an independent reference value, for two strata that the
// random generator of gen.go does not reach:
//
//  flat   operands whose bounding box is FLAT or a POINT (Line2D(l,0), Box2D with a zero side, Circle2D(0),
//         Extrude3D(s,0), Extrude3D of a flat profile, Cylinder3D(0,r,0)) as children of every combinator that
//         builds its box from its children's boxes (Union, Array, Elongate, RotateUnion, RotateCopy, Transform,
//         Offset, Extrude, ExtrudeRounded, Shell), alone and nested, usually under an Offset / Shell /
//         ExtrudeRounded that gives the zero-measure operand a proper interior.  A special case "an empty box
//         adds nothing" anywhere in the box helpers (Extend, Include, Translate, Enlarge, MulBox, Vertices ...)
//         drops such an operand from the box of its parent although its material is there.
//  look   Transform2D/3D and RotateUnion2D/3D with look-alike matrices (look.go) over random operands,
//         alone and under further box-building combinators.
//
// Every node carries
//   Wit  probe points computed from the PARAMETERS only (extreme points of the leaves mapped forward through
//        the combinators with this file's own arithmetic): points of the closed solid the tree denotes,
//        independent of any BoundingBox() and of the library's Inverse;
//   Ref  the value the tree denotes: the named operation (plain minimum, translation back, clamp, fold)
//        applied to the leaves' Evaluate, with matrix inverses from exact rational arithmetic, no bounding
//        box, no pruning;
//   Lb2 / LbInf  whether the value is at least the Euclidean / max-norm distance to the box outside it (the
//        classes in which Offset / Shell / ExtrudeRounded are claimed to enclose), tracked exactly:
//        translations and quarter turns keep both, rotations keep Lb2, RotateCopy turns Lb2 into LbInf,
//        any other matrix loses both.

import (
	"fmt"
	"math"
	"strings"

	"github.com/deadsy/sdfx/sdf"
	v2 "github.com/deadsy/sdfx/vec/v2"
	"github.com/deadsy/sdfx/vec/v2i"
	v3 "github.com/deadsy/sdfx/vec/v3"
	"github.com/deadsy/sdfx/vec/v3i"
)

type P2 struct {
	*N2
	Wit        []v2.Vec
	Ref        func(v2.Vec) float64
	Lb2, LbInf bool
	Flat       bool // some operand has a flat / point bounding box
	Thick      bool // the solid has an interior around every probe point (an Offset-like node on top)
}
type P3 struct {
	*N3
	Wit        []v3.Vec
	Ref        func(v3.Vec) float64
	Lb2, LbInf bool
	Flat       bool
	Thick      bool
}

const maxWit = 96

func cap2(w []v2.Vec) []v2.Vec {
	if len(w) <= maxWit {
		return w
	}
	out := make([]v2.Vec, 0, maxWit)
	for i := 0; i < maxWit; i++ {
		out = append(out, w[i*len(w)/maxWit])
	}
	return out
}
func cap3(w []v3.Vec) []v3.Vec {
	if len(w) <= maxWit {
		return w
	}
	out := make([]v3.Vec, 0, maxWit)
	for i := 0; i < maxWit; i++ {
		out = append(out, w[i*len(w)/maxWit])
	}
	return out
}

func leafClass(name string) Class {
	return Class{Rigid: true, Lipschitz: true, Lb: true, LbInf: true, Ctors: map[string]int{name: 1}}
}

func kidClasses2(ks []*P2) []Class {
	var out []Class
	for _, k := range ks {
		out = append(out, k.Cl)
	}
	return out
}

// ---------------------------------------------------------------- matrices (own arithmetic)

// kind of the linear part of a homogeneous (n+1) x (n+1) matrix: "translation", "signed-perm" (quarter turns /
// mirrors, exact), or "other"
func linearKind(n int, m []float64) string {
	N := n + 1
	id, perm := true, true
	for i := 0; i < n; i++ {
		cnt := 0
		for j := 0; j < n; j++ {
			x := m[i*N+j]
			if (i == j) != (x == 1) || (i != j && x != 0) {
				id = false
			}
			if x == 1 || x == -1 {
				cnt++
			} else if x != 0 {
				perm = false
			}
		}
		if cnt != 1 {
			perm = false
		}
	}
	if perm { // one +-1 per column as well
		for j := 0; j < n; j++ {
			cnt := 0
			for i := 0; i < n; i++ {
				if m[i*N+j] != 0 {
					cnt++
				}
			}
			if cnt != 1 {
				perm = false
			}
		}
	}
	switch {
	case id:
		return "translation"
	case perm:
		return "signed-perm"
	}
	return "other"
}

func mulPos2(m []float64, p v2.Vec) v2.Vec {
	return v2.Vec{X: m[0]*p.X + m[1]*p.Y + m[2], Y: m[3]*p.X + m[4]*p.Y + m[5]}
}
func mulPos3(m []float64, p v3.Vec) v3.Vec {
	return v3.Vec{X: m[0]*p.X + m[1]*p.Y + m[2]*p.Z + m[3], Y: m[4]*p.X + m[5]*p.Y + m[6]*p.Z + m[7], Z: m[8]*p.X + m[9]*p.Y + m[10]*p.Z + m[11]}
}

// ---------------------------------------------------------------- 2D leaves

func mkLeaf2(s sdf.SDF2, coq, desc, name string, wit []v2.Vec, flat bool) *P2 {
	return &P2{N2: &N2{Go: s, Coq: coq, Desc: desc, Cl: leafClass(name)}, Wit: wit, Ref: s.Evaluate, Lb2: true, LbInf: true, Flat: flat, Thick: !flat}
}

func PLine2(l, rd float64) *P2 {
	h := l / 2
	w := []v2.Vec{{X: -h - rd}, {X: h + rd}, {}, {X: h / 2}, {X: -h, Y: rd}, {X: h, Y: -rd}}
	return mkLeaf2(sdf.Line2D(l, rd), fmt.Sprintf("(fLine2D %s %s)", f(l), f(rd)), fmt.Sprintf("Line2D(%g,%g)", l, rd), "Line2D", w, rd == 0)
}
func PBox2(sz v2.Vec, rd float64) *P2 {
	hx, hy := sz.X/2, sz.Y/2
	w := []v2.Vec{{X: -hx}, {X: hx}, {Y: -hy}, {Y: hy}, {}}
	if rd == 0 {
		w = append(w, v2.Vec{X: hx, Y: hy}, v2.Vec{X: -hx, Y: hy}, v2.Vec{X: hx, Y: -hy}, v2.Vec{X: -hx, Y: -hy})
	}
	return mkLeaf2(sdf.Box2D(sz, rd), fmt.Sprintf("(fBox2D %s %s)", V2s(sz), f(rd)), fmt.Sprintf("Box2D(%v,%g)", sz, rd), "Box2D", w, sz.X == 0 || sz.Y == 0)
}
func PCircle(r float64) *P2 {
	s, err := sdf.Circle2D(r)
	if err != nil {
		return nil
	}
	w := []v2.Vec{{X: -r}, {X: r}, {Y: -r}, {Y: r}, {}}
	return mkLeaf2(s, "(fCircle "+f(r)+")", fmt.Sprintf("Circle(%g)", r), "Circle", w, r == 0)
}

// Wrap2 turns a tree of gen.go into a P2: probe points = points of the tree's own solid found by sampling its
// box (the subtree is checked on its own), reference = its own Evaluate.
func (g *Gen) Wrap2(n *N2) *P2 {
	bb := n.Go.BoundingBox()
	var w []v2.Vec
	for i := 0; i < 60 && len(w) < 6; i++ {
		p := v2.Vec{X: g.R.Uniform(bb.Min.X, bb.Max.X), Y: g.R.Uniform(bb.Min.Y, bb.Max.Y)}
		if n.Go.Evaluate(p) <= 0 {
			w = append(w, p)
		}
	}
	return &P2{N2: n, Wit: w, Ref: n.Go.Evaluate, Lb2: n.Cl.Lb, LbInf: n.Cl.LbInf || n.Cl.Lb, Thick: true}
}
func (g *Gen) Wrap3(n *N3) *P3 {
	bb := n.Go.BoundingBox()
	var w []v3.Vec
	for i := 0; i < 80 && len(w) < 6; i++ {
		p := v3.Vec{X: g.R.Uniform(bb.Min.X, bb.Max.X), Y: g.R.Uniform(bb.Min.Y, bb.Max.Y), Z: g.R.Uniform(bb.Min.Z, bb.Max.Z)}
		if n.Go.Evaluate(p) <= 0 {
			w = append(w, p)
		}
	}
	return &P3{N3: n, Wit: w, Ref: n.Go.Evaluate, Lb2: n.Cl.Lb, LbInf: n.Cl.LbInf || n.Cl.Lb, Thick: true}
}

// ---------------------------------------------------------------- 2D combinators

func node2(s sdf.SDF2, coq, desc, name string, ks ...*P2) *P2 {
	cl := merge(kidClasses2(ks)...).with(name)
	cl.Rigid = false
	p := &P2{N2: &N2{Go: s, Coq: coq, Desc: desc, Cl: cl}, Lb2: true, LbInf: true, Thick: true}
	for _, k := range ks {
		p.Kids = append(p.Kids, k.N2)
		p.Lb2, p.LbInf = p.Lb2 && k.Lb2, p.LbInf && k.LbInf
		p.Flat = p.Flat || k.Flat
		p.Thick = p.Thick && k.Thick
	}
	return p
}
func (p *P2) sync() *P2 { // the conservative flags other users of Class read
	p.Cl.Lb, p.Cl.LbInf = p.Lb2, p.LbInf
	return p
}

// PTransform2: rot = the linear part is a rotation (possibly times a mirror) built by the caller from Rotate2d.
func PTransform2(a *P2, m sdf.M33, rot bool, note string) *P2 {
	p := node2(sdf.Transform2D(a.Go, m), fmt.Sprintf("(fTransform2 %s %s)", a.Coq, M33s(m)), fmt.Sprintf("Transform2[%s%x](%s)", note, m[:], a.Desc), "Transform2", a)
	inv, _, ok := ExactInverse(3, m[:])
	for _, w := range a.Wit {
		p.Wit = append(p.Wit, mulPos2(m[:], w))
	}
	if ok {
		p.Ref = func(q v2.Vec) float64 { return a.Ref(mulPos2(inv, q)) }
	}
	switch k := linearKind(2, m[:]); {
	case k == "translation" || k == "signed-perm":
	case rot:
		p.LbInf = p.Lb2
	default:
		p.Lb2, p.LbInf = false, false
		p.Cl.Lipschitz = false
	}
	return p.sync()
}

func PUnion2(ks ...*P2) *P2 {
	var gos []sdf.SDF2
	var coqs, ds []string
	for _, k := range ks {
		gos, coqs, ds = append(gos, k.Go), append(coqs, k.Coq), append(ds, k.Desc)
	}
	p := node2(sdf.Union2D(gos...), fmt.Sprintf("(fUnion2 MinDef [%s])", strings.Join(coqs, "; ")), fmt.Sprintf("Union2[MinDef](%s)", strings.Join(ds, ",")), "Union2", ks...)
	for _, k := range ks {
		p.Wit = append(p.Wit, k.Wit...)
	}
	p.Wit = cap2(p.Wit)
	p.Ref = func(q v2.Vec) float64 {
		d := math.Inf(1)
		for _, k := range ks {
			if k.Ref == nil {
				return math.NaN()
			}
			d = math.Min(d, k.Ref(q))
		}
		return d
	}
	for _, k := range ks {
		if k.Ref == nil {
			p.Ref = nil
		}
	}
	return p.sync()
}

func PArray2(a *P2, nx, ny int, st v2.Vec) *P2 {
	p := node2(sdf.Array2D(a.Go, v2i.Vec{X: nx, Y: ny}, st), fmt.Sprintf("(fArray2 MinDef %s %d %d %s)", a.Coq, nx, ny, V2s(st)), fmt.Sprintf("Array2[MinDef](%s,%d,%d,%v)", a.Desc, nx, ny, st), "Array2", a)
	for i := 0; i < nx; i++ {
		for j := 0; j < ny; j++ {
			for _, w := range a.Wit {
				p.Wit = append(p.Wit, v2.Vec{X: w.X + float64(i)*st.X, Y: w.Y + float64(j)*st.Y})
			}
		}
	}
	p.Wit = cap2(p.Wit)
	if a.Ref != nil {
		p.Ref = func(q v2.Vec) float64 {
			d := math.Inf(1)
			for i := 0; i < nx; i++ {
				for j := 0; j < ny; j++ {
					d = math.Min(d, a.Ref(v2.Vec{X: q.X - float64(i)*st.X, Y: q.Y - float64(j)*st.Y}))
				}
			}
			return d
		}
	}
	return p.sync()
}

func clamp(x, lo, hi float64) float64 { return math.Max(lo, math.Min(hi, x)) }

func PElongate2(a *P2, h v2.Vec) *P2 {
	p := node2(sdf.Elongate2D(a.Go, h), fmt.Sprintf("(fElongate2 %s %s)", a.Coq, V2s(h)), fmt.Sprintf("Elongate2(%s,%v)", a.Desc, h), "Elongate2", a)
	hx, hy := math.Abs(h.X)/2, math.Abs(h.Y)/2
	for _, w := range a.Wit {
		p.Wit = append(p.Wit, w, v2.Vec{X: w.X + hx, Y: w.Y + hy}, v2.Vec{X: w.X - hx, Y: w.Y + hy}, v2.Vec{X: w.X + hx, Y: w.Y - hy}, v2.Vec{X: w.X - hx, Y: w.Y - hy})
	}
	p.Wit = cap2(p.Wit)
	if a.Ref != nil {
		p.Ref = func(q v2.Vec) float64 {
			return a.Ref(v2.Vec{X: q.X - clamp(q.X, -hx, hx), Y: q.Y - clamp(q.Y, -hy, hy)})
		}
	}
	return p.sync()
}

func PRotateUnion2(a *P2, num int, m sdf.M33, rot bool, note string) *P2 {
	s := sdf.RotateUnion2D(a.Go, num, m)
	if s == nil {
		return nil
	}
	p := node2(s, fmt.Sprintf("(fRotateUnion2 MinDef %s %d %s)", a.Coq, num, M33s(m)), fmt.Sprintf("RotateUnion2[MinDef](%s,%d,[%s%x])", a.Desc, num, note, m[:]), "RotateUnion2", a)
	for _, w := range a.Wit {
		for i := 0; i < num; i++ {
			p.Wit = append(p.Wit, w)
			w = mulPos2(m[:], w)
		}
	}
	p.Wit = cap2(p.Wit)
	if inv, _, ok := ExactInverse(3, m[:]); ok && a.Ref != nil {
		p.Ref = func(q v2.Vec) float64 {
			d := math.Inf(1)
			for i := 0; i < num; i++ {
				d = math.Min(d, a.Ref(q))
				q = mulPos2(inv, q)
			}
			return d
		}
	}
	switch k := linearKind(2, m[:]); {
	case k == "translation" || k == "signed-perm":
	case rot:
		p.LbInf = p.Lb2
	default:
		p.Lb2, p.LbInf = false, false
		p.Cl.Lipschitz = false
	}
	return p.sync()
}

func PRotateCopy2(a *P2, num int) *P2 {
	s := sdf.RotateCopy2D(a.Go, num)
	if s == nil {
		return nil
	}
	p := node2(s, fmt.Sprintf("(fRotateCopy2 %s %d)", a.Coq, num), fmt.Sprintf("RotateCopy2(%s,%d)", a.Desc, num), "RotateCopy2", a)
	th := 2 * math.Pi / float64(num)
	for _, w := range a.Wit {
		for i := 0; i < num; i++ {
			c, sn := math.Cos(th*float64(i)), math.Sin(th*float64(i))
			p.Wit = append(p.Wit, v2.Vec{X: c*w.X - sn*w.Y, Y: sn*w.X + c*w.Y})
		}
	}
	p.Wit = cap2(p.Wit)
	if a.Ref != nil {
		theta := sdf.Tau / float64(num)
		p.Ref = func(q v2.Vec) float64 { // the point of the first sector with the same radius
			r, t := q.Length(), sdf.SawTooth(math.Atan2(q.Y, q.X), theta)
			return a.Ref(v2.Vec{X: r * math.Cos(t), Y: r * math.Sin(t)})
		}
	}
	p.LbInf, p.Lb2 = p.Lb2, false
	p.Cl.Lipschitz = false
	return p.sync()
}

func POffset2(a *P2, off float64) *P2 {
	p := node2(sdf.Offset2D(a.Go, off), fmt.Sprintf("(fOffset2 %s %s)", a.Coq, f(off)), fmt.Sprintf("Offset2(%s,%g)", a.Desc, off), "Offset2", a)
	p.Wit = a.Wit
	if a.Ref != nil {
		p.Ref = func(q v2.Vec) float64 { return a.Ref(q) - off }
	}
	p.Thick = off > 0
	return p.sync()
}

// ---------------------------------------------------------------- 3D leaves and combinators

func kidClasses3(ks []*P3) []Class {
	var out []Class
	for _, k := range ks {
		out = append(out, k.Cl)
	}
	return out
}

func node3(s sdf.SDF3, coq, desc, name string, ks ...*P3) *P3 {
	cl := merge(kidClasses3(ks)...).with(name)
	cl.Rigid = false
	p := &P3{N3: &N3{Go: s, Coq: coq, Desc: desc, Cl: cl}, Lb2: true, LbInf: true, Thick: true}
	for _, k := range ks {
		p.Kids = append(p.Kids, k.N3)
		p.Lb2, p.LbInf = p.Lb2 && k.Lb2, p.LbInf && k.LbInf
		p.Flat = p.Flat || k.Flat
		p.Thick = p.Thick && k.Thick
	}
	return p
}
func (p *P3) sync() *P3 {
	p.Cl.Lb, p.Cl.LbInf = p.Lb2, p.LbInf
	return p
}

func mkLeaf3(s sdf.SDF3, coq, desc, name string, wit []v3.Vec, flat bool) *P3 {
	return &P3{N3: &N3{Go: s, Coq: coq, Desc: desc, Cl: leafClass(name)}, Wit: wit, Ref: s.Evaluate, Lb2: true, LbInf: true, Flat: flat, Thick: !flat}
}

// PCylinder: height 0 is accepted by the constructor (a flat disc)
func PCylinder(h, r, rd float64) *P3 {
	s, err := sdf.Cylinder3D(h, r, rd)
	if err != nil {
		return nil
	}
	z := h / 2
	w := []v3.Vec{{X: r}, {X: -r}, {Y: r}, {Y: -r}, {Z: z}, {Z: -z}, {}}
	return mkLeaf3(s, fmt.Sprintf("(fCylinder %s %s %s)", f(h), f(r), f(rd)), fmt.Sprintf("Cylinder(%g,%g,%g)", h, r, rd), "Cylinder", w, h == 0)
}
func PSphere(r float64) *P3 {
	s, err := sdf.Sphere3D(r)
	if err != nil {
		return nil
	}
	w := []v3.Vec{{X: r}, {X: -r}, {Y: r}, {Y: -r}, {Z: r}, {Z: -r}, {}}
	return mkLeaf3(s, "(fSphere "+f(r)+")", fmt.Sprintf("Sphere(%g)", r), "Sphere", w, false)
}
func PBox3(sz v3.Vec) *P3 {
	s, err := sdf.Box3D(sz, 0)
	if err != nil {
		return nil
	}
	var w []v3.Vec
	for i := 0; i < 8; i++ {
		w = append(w, v3.Vec{X: sz.X / 2 * float64(2*(i&1)-1), Y: sz.Y / 2 * float64(2*(i>>1&1)-1), Z: sz.Z / 2 * float64(2*(i>>2&1)-1)})
	}
	w = append(w, v3.Vec{})
	return mkLeaf3(s, fmt.Sprintf("(fBox3D %s %s)", V3s(sz), f(0)), fmt.Sprintf("Box3D(%v,0)", sz), "Box3D", w, false)
}

// PExtrude: height 0 is accepted (a flat box in z)
func PExtrude(a *P2, h float64) *P3 {
	cl := merge(a.Cl).with("Extrude")
	cl.Rigid = false
	p := &P3{N3: &N3{Go: sdf.Extrude3D(a.Go, h), Coq: fmt.Sprintf("(fExtrude %s %s)", a.Coq, f(h)), Desc: fmt.Sprintf("Extrude(%s,%g)", a.Desc, h), Cl: cl, Kids: []interface{}{a.N2}},
		Lb2: false, LbInf: a.LbInf, Flat: a.Flat || h == 0, Thick: a.Thick && h > 0}
	for _, w := range a.Wit {
		p.Wit = append(p.Wit, v3.Vec{X: w.X, Y: w.Y}, v3.Vec{X: w.X, Y: w.Y, Z: h / 2}, v3.Vec{X: w.X, Y: w.Y, Z: -h / 2})
	}
	p.Wit = cap3(p.Wit)
	if a.Ref != nil {
		p.Ref = func(q v3.Vec) float64 { return math.Max(a.Ref(v2.Vec{X: q.X, Y: q.Y}), math.Abs(q.Z)-h/2) }
	}
	return p.sync()
}

// PExtrudeRounded (round > 0): the profile swept over |z| <= h/2 - round and offset by round
func PExtrudeRounded(a *P2, h, rd float64) *P3 {
	s, err := sdf.ExtrudeRounded3D(a.Go, h, rd)
	if err != nil || rd <= 0 {
		return nil
	}
	cl := merge(a.Cl).with("ExtrudeRounded")
	cl.Rigid = false
	p := &P3{N3: &N3{Go: s, Coq: fmt.Sprintf("(fExtrudeRounded %s %s %s)", a.Coq, f(h), f(rd)), Desc: fmt.Sprintf("ExtrudeRounded(%s,%g,%g)", a.Desc, h, rd), Cl: cl, Kids: []interface{}{a.N2}},
		Flat: a.Flat, Thick: true}
	for _, w := range a.Wit {
		p.Wit = append(p.Wit, v3.Vec{X: w.X, Y: w.Y}, v3.Vec{X: w.X, Y: w.Y, Z: h / 2}, v3.Vec{X: w.X, Y: w.Y, Z: -h / 2})
	}
	p.Wit = cap3(p.Wit)
	if a.Ref != nil {
		hh := h/2 - rd
		p.Ref = func(q v3.Vec) float64 { // distance to the region {a <= 0, |z| <= hh}, minus round
			x, b := a.Ref(v2.Vec{X: q.X, Y: q.Y}), math.Abs(q.Z)-hh
			switch {
			case b > 0 && x < 0:
				return b - rd
			case b > 0:
				return math.Sqrt(x*x+b*b) - rd
			case x < 0:
				return math.Max(x, b) - rd
			}
			return x - rd
		}
	}
	return p.sync()
}

func PTransform3(a *P3, m sdf.M44, rot bool, note string) *P3 {
	p := node3(sdf.Transform3D(a.Go, m), fmt.Sprintf("(fTransform3 %s %s)", a.Coq, M44s(m)), fmt.Sprintf("Transform3[%s%x](%s)", note, m[:], a.Desc), "Transform3", a)
	inv, _, ok := ExactInverse(4, m[:])
	for _, w := range a.Wit {
		p.Wit = append(p.Wit, mulPos3(m[:], w))
	}
	if ok && a.Ref != nil {
		p.Ref = func(q v3.Vec) float64 { return a.Ref(mulPos3(inv, q)) }
	}
	switch k := linearKind(3, m[:]); {
	case k == "translation" || k == "signed-perm":
	case rot:
		p.LbInf = p.Lb2
	default:
		p.Lb2, p.LbInf = false, false
		p.Cl.Lipschitz = false
	}
	return p.sync()
}

func PUnion3(ks ...*P3) *P3 {
	var gos []sdf.SDF3
	var coqs, ds []string
	for _, k := range ks {
		gos, coqs, ds = append(gos, k.Go), append(coqs, k.Coq), append(ds, k.Desc)
	}
	p := node3(sdf.Union3D(gos...), fmt.Sprintf("(fUnion3 MinDef [%s])", strings.Join(coqs, "; ")), fmt.Sprintf("Union3[MinDef](%s)", strings.Join(ds, ",")), "Union3", ks...)
	p.Ref = func(q v3.Vec) float64 {
		d := math.Inf(1)
		for _, k := range ks {
			d = math.Min(d, k.Ref(q))
		}
		return d
	}
	for _, k := range ks {
		p.Wit = append(p.Wit, k.Wit...)
		if k.Ref == nil {
			p.Ref = nil
		}
	}
	p.Wit = cap3(p.Wit)
	return p.sync()
}

func PArray3(a *P3, nx, ny, nz int, st v3.Vec) *P3 {
	s := sdf.Array3D(a.Go, v3i.Vec{X: nx, Y: ny, Z: nz}, st)
	if s == nil {
		return nil
	}
	p := node3(s, fmt.Sprintf("(fArray3 MinDef %s %d %d %d %s)", a.Coq, nx, ny, nz, V3s(st)), fmt.Sprintf("Array3[MinDef](%s,%d,%d,%d,%v)", a.Desc, nx, ny, nz, st), "Array3", a)
	for i := 0; i < nx; i++ {
		for j := 0; j < ny; j++ {
			for k := 0; k < nz; k++ {
				for _, w := range a.Wit {
					p.Wit = append(p.Wit, v3.Vec{X: w.X + float64(i)*st.X, Y: w.Y + float64(j)*st.Y, Z: w.Z + float64(k)*st.Z})
				}
			}
		}
	}
	p.Wit = cap3(p.Wit)
	if a.Ref != nil {
		p.Ref = func(q v3.Vec) float64 {
			d := math.Inf(1)
			for i := 0; i < nx; i++ {
				for j := 0; j < ny; j++ {
					for k := 0; k < nz; k++ {
						d = math.Min(d, a.Ref(v3.Vec{X: q.X - float64(i)*st.X, Y: q.Y - float64(j)*st.Y, Z: q.Z - float64(k)*st.Z}))
					}
				}
			}
			return d
		}
	}
	return p.sync()
}

func PElongate3(a *P3, h v3.Vec) *P3 {
	p := node3(sdf.Elongate3D(a.Go, h), fmt.Sprintf("(fElongate3 %s %s)", a.Coq, V3s(h)), fmt.Sprintf("Elongate3(%s,%v)", a.Desc, h), "Elongate3", a)
	hx, hy, hz := math.Abs(h.X)/2, math.Abs(h.Y)/2, math.Abs(h.Z)/2
	for _, w := range a.Wit {
		p.Wit = append(p.Wit, w)
		for i := 0; i < 8; i++ {
			p.Wit = append(p.Wit, v3.Vec{X: w.X + hx*float64(2*(i&1)-1), Y: w.Y + hy*float64(2*(i>>1&1)-1), Z: w.Z + hz*float64(2*(i>>2&1)-1)})
		}
	}
	p.Wit = cap3(p.Wit)
	if a.Ref != nil {
		p.Ref = func(q v3.Vec) float64 {
			return a.Ref(v3.Vec{X: q.X - clamp(q.X, -hx, hx), Y: q.Y - clamp(q.Y, -hy, hy), Z: q.Z - clamp(q.Z, -hz, hz)})
		}
	}
	return p.sync()
}

func PRotateUnion3(a *P3, num int, m sdf.M44, rot bool, note string) *P3 {
	s := sdf.RotateUnion3D(a.Go, num, m)
	if s == nil {
		return nil
	}
	p := node3(s, fmt.Sprintf("(fRotateUnion3 MinDef %s %d %s)", a.Coq, num, M44s(m)), fmt.Sprintf("RotateUnion3[MinDef](%s,%d,[%s%x])", a.Desc, num, note, m[:]), "RotateUnion3", a)
	for _, w := range a.Wit {
		for i := 0; i < num; i++ {
			p.Wit = append(p.Wit, w)
			w = mulPos3(m[:], w)
		}
	}
	p.Wit = cap3(p.Wit)
	if inv, _, ok := ExactInverse(4, m[:]); ok && a.Ref != nil {
		p.Ref = func(q v3.Vec) float64 {
			d := math.Inf(1)
			for i := 0; i < num; i++ {
				d = math.Min(d, a.Ref(q))
				q = mulPos3(inv, q)
			}
			return d
		}
	}
	switch k := linearKind(3, m[:]); {
	case k == "translation" || k == "signed-perm":
	case rot:
		p.LbInf = p.Lb2
	default:
		p.Lb2, p.LbInf = false, false
		p.Cl.Lipschitz = false
	}
	return p.sync()
}

func PRotateCopy3(a *P3, num int) *P3 {
	s := sdf.RotateCopy3D(a.Go, num)
	if s == nil {
		return nil
	}
	p := node3(s, fmt.Sprintf("(fRotateCopy3 %s %d)", a.Coq, num), fmt.Sprintf("RotateCopy3(%s,%d)", a.Desc, num), "RotateCopy3", a)
	th := 2 * math.Pi / float64(num)
	for _, w := range a.Wit {
		for i := 0; i < num; i++ {
			c, sn := math.Cos(th*float64(i)), math.Sin(th*float64(i))
			p.Wit = append(p.Wit, v3.Vec{X: c*w.X - sn*w.Y, Y: sn*w.X + c*w.Y, Z: w.Z})
		}
	}
	p.Wit = cap3(p.Wit)
	if a.Ref != nil {
		theta := sdf.Tau / float64(num)
		p.Ref = func(q v3.Vec) float64 {
			r, t := math.Hypot(q.X, q.Y), sdf.SawTooth(math.Atan2(q.Y, q.X), theta)
			return a.Ref(v3.Vec{X: r * math.Cos(t), Y: r * math.Sin(t), Z: q.Z})
		}
	}
	p.LbInf, p.Lb2 = p.Lb2, false
	p.Cl.Lipschitz = false
	return p.sync()
}

func POffset3(a *P3, off float64) *P3 {
	p := node3(sdf.Offset3D(a.Go, off), fmt.Sprintf("(fOffset3 %s %s)", a.Coq, f(off)), fmt.Sprintf("Offset3(%s,%g)", a.Desc, off), "Offset3", a)
	p.Wit = a.Wit
	if a.Ref != nil {
		p.Ref = func(q v3.Vec) float64 { return a.Ref(q) - off }
	}
	p.Thick = off > 0
	return p.sync()
}

func PShell3(a *P3, th float64) *P3 {
	s, err := sdf.Shell3D(a.Go, th)
	if err != nil {
		return nil
	}
	p := node3(s, fmt.Sprintf("(fShell3 %s %s)", a.Coq, f(th)), fmt.Sprintf("Shell3(%s,%g)", a.Desc, th), "Shell3", a)
	if !a.Thick { // around a zero-measure operand the shell is its offset by th/2: the probe points stay inside
		p.Wit = a.Wit
	}
	if a.Ref != nil {
		p.Ref = func(q v3.Vec) float64 { return math.Abs(a.Ref(q)) - 0.5*th }
	}
	p.Thick = true
	return p.sync()
}

// ---------------------------------------------------------------- generators

func (g *Gen) dy(lo, hi int) float64 { return float64(g.R.Range(lo, hi)) / 8 }

// FlatLeaf2: a 2D primitive with a flat or point bounding box (k selects the kind; k < 0: random)
func (g *Gen) FlatLeaf2(k int) *P2 {
	if k < 0 {
		k = g.R.Intn(6)
	}
	switch k % 6 {
	case 0:
		return PLine2(g.pos(), 0)
	case 1:
		return PBox2(v2.Vec{X: g.pos(), Y: 0}, 0)
	case 2:
		return PBox2(v2.Vec{X: 0, Y: g.pos()}, 0)
	case 3:
		return PLine2(0, 0) // a point
	case 4:
		return PBox2(v2.Vec{}, 0) // a point
	}
	return PCircle(0) // a point
}

// ThickLeaf2: an ordinary exact primitive
func (g *Gen) ThickLeaf2() *P2 {
	switch g.R.Intn(3) {
	case 0:
		return PCircle(g.pos() / 2)
	case 1:
		return PBox2(v2.Vec{X: g.pos(), Y: g.pos()}, 0)
	}
	return PLine2(g.pos(), g.pos()/4)
}

// placement that keeps both classes (translation, quarter turn / mirror) or Lb2 (rotation)
func (g *Gen) place2(a *P2, far bool) *P2 {
	t := v2.Vec{X: g.coord(), Y: g.coord()}
	if far {
		t = t.MulScalar(3)
	}
	switch g.R.Intn(4) {
	case 0:
		return PTransform2(a, sdf.Translate2d(t), false, "translate ")
	case 1:
		l := g.SignedPerm(2)
		return PTransform2(a, sdf.M33{l[0], l[1], t.X, l[2], l[3], t.Y, 0, 0, 1}, false, "quarter-turn ")
	}
	return PTransform2(a, sdf.Translate2d(t).Mul(sdf.Rotate2d(g.angle())), true, "rotate ")
}
func (g *Gen) place3(a *P3, far bool) *P3 {
	t := v3.Vec{X: g.coord(), Y: g.coord(), Z: g.coord()}
	if far {
		t = t.MulScalar(3)
	}
	switch g.R.Intn(4) {
	case 0:
		return PTransform3(a, sdf.Translate3d(t), false, "translate ")
	case 1:
		l := g.SignedPerm(3)
		return PTransform3(a, sdf.M44{l[0], l[1], l[2], t.X, l[3], l[4], l[5], t.Y, l[6], l[7], l[8], t.Z, 0, 0, 0, 1}, false, "quarter-turn ")
	}
	var r sdf.M44
	switch g.R.Intn(3) {
	case 0:
		r = sdf.RotateX(g.angle())
	case 1:
		r = sdf.RotateY(g.angle())
	default:
		r = sdf.RotateZ(g.angle())
	}
	return PTransform3(a, sdf.Translate3d(t).Mul(r), true, "rotate ")
}

// Box2Level wraps a in one combinator that builds its box from its children's boxes (k selects which; k < 0: random).
// Plain minimum everywhere; rigid placements only (the classes are kept as far as they really are).
func (g *Gen) Box2Level(a *P2, k int) *P2 {
	if k < 0 {
		k = g.R.Intn(7)
	}
	var p *P2
	switch k % 7 {
	case 0: // union with one or two other operands, the given one in any position
		ks := []*P2{a}
		for n := g.R.Range(1, 2); n > 0; n-- {
			var b *P2
			if g.R.Intn(3) == 0 {
				b = g.FlatLeaf2(-1)
			} else {
				b = g.ThickLeaf2()
			}
			b = g.place2(b, g.R.Bool())
			if g.R.Bool() {
				ks = append(ks, b)
			} else {
				ks = append([]*P2{b}, ks...)
			}
		}
		p = PUnion2(ks...)
	case 1:
		st := v2.Vec{X: g.coord(), Y: g.coord()}
		if g.R.Intn(3) == 0 {
			st.Y = 0
		}
		p = PArray2(a, g.R.Range(1, 3), g.R.Range(1, 3), st)
	case 2:
		h := v2.Vec{X: g.coord() / 2, Y: g.coord() / 2}
		switch g.R.Intn(4) {
		case 0:
			h.X = 0
		case 1:
			h.Y = 0
		}
		p = PElongate2(a, h)
	case 3:
		if g.R.Bool() {
			l := g.SignedPerm(2)
			p = PRotateUnion2(a, g.R.Range(1, 4), sdf.M33{l[0], l[1], 0, l[2], l[3], 0, 0, 0, 1}, false, "quarter-turn ")
		} else {
			p = PRotateUnion2(a, g.R.Range(1, 5), sdf.Rotate2d(g.angle()), true, "rotate ")
		}
	case 4:
		p = PRotateCopy2(a, g.R.Range(1, 7))
	case 5:
		p = g.place2(a, false)
	default:
		if a.LbInf {
			p = POffset2(a, g.dy(0, 8)) // offset 0 included
		}
	}
	if p == nil {
		return a
	}
	return p
}

func (g *Gen) Box3Level(a *P3, k int) *P3 {
	if k < 0 {
		k = g.R.Intn(7)
	}
	var p *P3
	switch k % 7 {
	case 0:
		ks := []*P3{a}
		for n := g.R.Range(1, 2); n > 0; n-- {
			var b *P3
			switch g.R.Intn(4) {
			case 0:
				b = g.FlatLeaf3(-1)
			case 1:
				b = PSphere(g.pos() / 2)
			case 2:
				b = PBox3(v3.Vec{X: g.pos(), Y: g.pos(), Z: g.pos()})
			default:
				b = PCylinder(g.pos(), g.pos()/2, 0)
			}
			b = g.place3(b, g.R.Bool())
			if g.R.Bool() {
				ks = append(ks, b)
			} else {
				ks = append([]*P3{b}, ks...)
			}
		}
		p = PUnion3(ks...)
	case 1:
		st := v3.Vec{X: g.coord(), Y: g.coord(), Z: g.coord()}
		if g.R.Intn(3) == 0 {
			st.Z = 0
		}
		p = PArray3(a, g.R.Range(1, 3), g.R.Range(1, 2), g.R.Range(1, 2), st)
	case 2:
		h := v3.Vec{X: g.coord() / 2, Y: g.coord() / 2, Z: g.coord() / 2}
		switch g.R.Intn(4) {
		case 0:
			h.X, h.Y = 0, 0
		case 1:
			h.Z = 0
		}
		p = PElongate3(a, h)
	case 3:
		if g.R.Bool() {
			l := g.SignedPerm(3)
			p = PRotateUnion3(a, g.R.Range(1, 4), sdf.M44{l[0], l[1], l[2], 0, l[3], l[4], l[5], 0, l[6], l[7], l[8], 0, 0, 0, 0, 1}, false, "quarter-turn ")
		} else {
			p = PRotateUnion3(a, g.R.Range(1, 5), sdf.RotateZ(g.angle()), true, "rotate ")
		}
	case 4:
		p = PRotateCopy3(a, g.R.Range(1, 7))
	case 5:
		p = g.place3(a, false)
	default:
		if a.LbInf {
			if g.R.Bool() {
				p = POffset3(a, g.dy(0, 8))
			} else {
				p = PShell3(a, g.dy(1, 8))
			}
		}
	}
	if p == nil {
		return a
	}
	return p
}

// FlatLeaf3: a 3D shape with a flat bounding box: a disc, an extrusion of height 0, an extrusion of a flat profile
func (g *Gen) FlatLeaf3(k int) *P3 {
	if k < 0 {
		k = g.R.Intn(4)
	}
	switch k % 4 {
	case 0:
		return PCylinder(0, g.pos()/2, 0)
	case 1:
		return PExtrude(g.ThickLeaf2(), 0)
	case 2:
		return PExtrude(g.FlatLeaf2(-1), g.pos())
	}
	return PExtrude(g.Flat2(1, -1, -1, false), float64(g.R.Range(0, 1))*g.pos())
}

// Flat2: a flat leaf (kind leaf) under `levels` box-building combinators (the first of kind first; < 0: random),
// topped (top = true) by an Offset that gives the zero-measure operand an interior when the class allows it.
func (g *Gen) Flat2(levels, leaf, first int, top bool) *P2 {
	p := g.FlatLeaf2(leaf)
	if g.R.Intn(3) == 0 {
		p = g.place2(p, false)
	}
	for i := 0; i < levels; i++ {
		k := -1
		if i == 0 {
			k = first
		}
		p = g.Box2Level(p, k)
	}
	if top && p.LbInf && !p.Thick {
		p = POffset2(p, g.dy(1, 8))
	}
	return p
}

// Flat3: the 3D twin; the top is an Offset3D, a Shell3D or (over a 2D flat tree) an ExtrudeRounded3D.
func (g *Gen) Flat3(levels, leaf, first int, top bool) *P3 {
	if top && g.R.Intn(4) == 0 { // a flat 2D tree swept with rounded ends
		a := g.Flat2(levels, leaf, first, false)
		if a.LbInf && !a.Thick {
			h := g.pos()
			if p := PExtrudeRounded(a, h, h/2*g.dy(1, 8)); p != nil {
				return p
			}
		}
	}
	p := g.FlatLeaf3(leaf)
	if g.R.Intn(3) == 0 {
		p = g.place3(p, false)
	}
	for i := 0; i < levels; i++ {
		k := -1
		if i == 0 {
			k = first
		}
		p = g.Box3Level(p, k)
	}
	if top && p.LbInf && !p.Thick {
		if g.R.Bool() {
			p = POffset3(p, g.dy(1, 8))
		} else if q := PShell3(p, g.dy(1, 8)); q != nil {
			p = q
		}
	}
	return p
}

// Look2 / Look3: a look-alike matrix of family fam (< 0: random) under Transform (ru = false) or as the step of a
// RotateUnion (ru = true), over a random operand of gen.go (depth d), then `levels` further box-building
// combinators (no Offset above a non-rigid map: outside the classes).
func (g *Gen) Look2(fam, d, levels int, ru bool) (*P2, string) {
	var a *P2
	if d <= 0 && g.R.Bool() {
		a = g.ThickLeaf2()
	} else {
		a = g.Wrap2(g.Gen2(d))
	}
	m, fl := g.Look33(fam)
	var p *P2
	if ru {
		p = PRotateUnion2(a, g.R.Range(1, 3), m, false, fl+" ")
	} else {
		p = PTransform2(a, m, false, fl+" ")
	}
	if p == nil {
		p = a
	}
	for i := 0; i < levels; i++ {
		p = g.Box2Level(p, g.R.Intn(6))
	}
	return p, LookFamily(fl)
}
func (g *Gen) Look3(fam, d, levels int, ru bool) (*P3, string) {
	var a *P3
	if d <= 0 && g.R.Bool() {
		switch g.R.Intn(3) {
		case 0:
			a = PSphere(g.pos() / 2)
		case 1:
			a = PBox3(v3.Vec{X: g.pos(), Y: g.pos(), Z: g.pos()})
		default:
			a = PCylinder(g.pos(), g.pos()/2, 0)
		}
	} else {
		a = g.Wrap3(g.Gen3(d))
	}
	m, fl := g.Look44(fam)
	var p *P3
	if ru {
		p = PRotateUnion3(a, g.R.Range(1, 3), m, false, fl+" ")
	} else {
		p = PTransform3(a, m, false, fl+" ")
	}
	if p == nil {
		p = a
	}
	for i := 0; i < levels; i++ {
		p = g.Box3Level(p, g.R.Intn(6))
	}
	return p, LookFamily(fl)
}
