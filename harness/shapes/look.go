package shapes

// Look-alike transform matrices for the tree generators (C01 stratum "look"; the same families as
// harness/cmd/c02/lookalike.go, which checks Inverse / Determinant themselves against exact rational
// arithmetic): affine matrices that pass a cheap structural test ("determinant +-1, so it is a rigid
// motion", "nearly diagonal", "linear part nearly the identity", "orthogonal columns, so it is a
// rotation") without belonging to the class the test is meant to recognise.  A shortcut in
// M33/M44.Inverse, MulBox, Transform2D/3D or RotateUnion2D/3D that is exact on the class but guarded
// by such a test moves the solid (Evaluate goes through the inverse) and its box (MulBox goes through
// the forward matrix) apart on exactly these matrices and on no rotation, mirror or translation.
//
// Families of the linear part L (2x2 / 3x3):
//   det1-scale-dyadic    axis scalings with product exactly +-1: (2, 1/2, 1), (4, 1/2, 1/2) ...
//   det1-scale           (a, b, 1/(a b)): determinant 1 within a few ulps
//   det-near-1-scale     the same with the product off by 1e-16 .. 1e-7
//   det1-shear           unit triangular (one or all off-diagonal entries), rows possibly permuted
//   det1-unimodular-int  products of elementary integer row operations
//   orthogonal-columns   R diag / diag R with different lengths (half of them with product 1)
//   almost-uniform-scale k R with one length off by 1e-10 .. 1e-3
//   rotation+tiny-shear  rotation plus a perturbation of 1e-10 .. 1e-3
//   near-identity / near-diagonal / diagonal+one-entry / symmetric
//   general-scale        plain non-uniform scaling, any determinant (the ordinary non-rigid case)
//   det1-general         dense matrix with one row scaled so that the determinant is +-1
// each optionally composed with quarter turns / mirrors or generic rotations on either side and with
// a (dyadic or generic) translation.  The bottom row is always exactly (0,..,0,1).

import (
	"math"
	"math/big"
	"strings"

	"github.com/deadsy/sdfx/sdf"
	v3 "github.com/deadsy/sdfx/vec/v3"
)

func (g *Gen) sign() float64 { return []float64{1, -1}[g.R.Intn(2)] }

// perturbation size 10^-k, k in [lo, hi], random mantissa and sign
func (g *Gen) eps(lo, hi int) float64 {
	return g.R.Uniform(1, 9.99) * math.Pow(10, -float64(g.R.Range(lo, hi))) * g.sign()
}

// MatMul multiplies n x n row-major matrices.
func MatMul(n int, a, b []float64) []float64 {
	out := make([]float64, n*n)
	for i := 0; i < n; i++ {
		for j := 0; j < n; j++ {
			s := 0.0
			for k := 0; k < n; k++ {
				s += a[i*n+k] * b[k*n+j]
			}
			out[i*n+j] = s
		}
	}
	return out
}
func matId(n int) []float64 {
	out := make([]float64, n*n)
	for i := 0; i < n; i++ {
		out[i*n+i] = 1
	}
	return out
}
func matDiag(d []float64) []float64 {
	n := len(d)
	out := make([]float64, n*n)
	for i := 0; i < n; i++ {
		out[i*n+i] = d[i]
	}
	return out
}
func matT(n int, a []float64) []float64 {
	out := make([]float64, n*n)
	for i := 0; i < n; i++ {
		for j := 0; j < n; j++ {
			out[j*n+i] = a[i*n+j]
		}
	}
	return out
}
func matAddScaled(a []float64, e float64, b []float64) []float64 {
	out := make([]float64, len(a))
	for i := range a {
		out[i] = a[i] + e*b[i]
	}
	return out
}

// SignedPerm: an exactly representable orthogonal matrix (quarter turns and mirrors).
func (g *Gen) SignedPerm(n int) []float64 {
	out := make([]float64, n*n)
	for i, j := range g.R.Perm(n) {
		out[i*n+j] = g.sign()
	}
	return out
}

// RotN: the linear part of a rotation (n = 2: random angle; n = 3: about a random axis), from the
// implementation's own constructors (checked by C02).
func (g *Gen) RotN(n int) []float64 {
	a := g.angle()
	if n == 2 {
		m := sdf.Rotate(a)
		return append([]float64{}, m[:]...)
	}
	var ax v3.Vec
	for {
		ax = v3.Vec{X: g.coord(), Y: g.coord(), Z: g.coord()}
		if ax.Length() > 0.1 {
			break
		}
	}
	m := sdf.Rotate3d(ax, a)
	return []float64{m[0], m[1], m[2], m[4], m[5], m[6], m[8], m[9], m[10]}
}

func (g *Gen) pattern(n int) []float64 {
	out := make([]float64, n*n)
	switch g.R.Intn(3) {
	case 0:
		i := g.R.Intn(n)
		j := (i + 1 + g.R.Intn(n-1)) % n
		out[i*n+j] = 1
	case 1:
		up := g.R.Bool()
		for i := 0; i < n; i++ {
			for j := 0; j < n; j++ {
				if (up && j > i) || (!up && j < i) {
					out[i*n+j] = g.R.Uniform(-1, 1)
				}
			}
		}
	default:
		for i := range out {
			out[i] = g.R.Uniform(-1, 1)
		}
	}
	return out
}

var dyadicUnitScales3 = [][]float64{{2, 0.5, 1}, {4, 0.5, 0.5}, {8, 0.25, 0.5}, {2, 2, 0.25}, {0.5, 0.5, 4}, {1, 4, 0.25}, {16, 0.25, 0.25}}
var dyadicUnitScales2 = [][]float64{{2, 0.5}, {4, 0.25}, {0.125, 8}, {0.5, 2}, {16, 0.0625}}

// LookFamilies is the number of families LookLinearOf knows.
const LookFamilies = 14

// LookLinear returns the linear part (n x n, row major) of a random look-alike and its family name.
func (g *Gen) LookLinear(n int) ([]float64, string) { return g.LookLinearOf(n, g.R.Intn(LookFamilies)) }

// LookLinearOf returns a member of family k (0 <= k < LookFamilies).
func (g *Gen) LookLinearOf(n, k int) ([]float64, string) {
	scales := func(lo, hi float64) []float64 {
		d := make([]float64, n)
		for i := range d {
			d[i] = g.R.Uniform(lo, hi) * g.sign()
		}
		return d
	}
	unitProduct := func(d []float64, dev float64) { // last factor so that the product is +-(1+dev)
		p := 1.0
		for _, x := range d[:n-1] {
			p *= x
		}
		d[n-1] = g.sign() * (1 + dev) / p
	}
	switch k {
	case 0:
		var d []float64
		if n == 2 {
			d = dyadicUnitScales2[g.R.Intn(len(dyadicUnitScales2))]
		} else {
			d = dyadicUnitScales3[g.R.Intn(len(dyadicUnitScales3))]
		}
		q := make([]float64, n)
		for i, j := range g.R.Perm(n) {
			q[i] = d[j]
			if g.R.Intn(3) == 0 {
				q[i] = -q[i]
			}
		}
		return matDiag(q), "det1-scale-dyadic"
	case 1:
		d := scales(0.35, 3)
		unitProduct(d, 0)
		return matDiag(d), "det1-scale"
	case 2:
		d := scales(0.35, 3)
		unitProduct(d, g.eps(7, 16))
		return matDiag(d), "det-near-1-scale"
	case 3:
		m := matId(n)
		entry := func() float64 {
			for {
				x := g.R.Uniform(-2, 2)
				if g.R.Bool() {
					x = g.R.Dyadic(2, 2)
				}
				if x != 0 {
					return x
				}
			}
		}
		if g.R.Intn(3) == 0 {
			i := g.R.Intn(n)
			j := (i + 1 + g.R.Intn(n-1)) % n
			m[i*n+j] = entry()
		} else {
			up := g.R.Bool()
			for i := 0; i < n; i++ {
				for j := 0; j < n; j++ {
					if (up && j > i) || (!up && j < i) {
						m[i*n+j] = entry()
					}
				}
			}
		}
		if g.R.Intn(3) == 0 {
			m = MatMul(n, g.SignedPerm(n), m)
		}
		return m, "det1-shear"
	case 4:
		m := matId(n)
		for k := g.R.Range(2, 5); k > 0; k-- {
			i := g.R.Intn(n)
			j := (i + 1 + g.R.Intn(n-1)) % n
			f := float64(g.R.Range(1, 2)) * g.sign()
			for c := 0; c < n; c++ {
				m[i*n+c] += f * m[j*n+c]
			}
		}
		if g.R.Bool() {
			m = MatMul(n, g.SignedPerm(n), m)
		}
		return m, "det1-unimodular-int"
	case 5:
		d := scales(0.35, 3)
		s := "orthogonal-columns"
		if g.R.Bool() {
			unitProduct(d, 0)
			s += "-det1"
		}
		if g.R.Bool() {
			return MatMul(n, g.RotN(n), matDiag(d)), s
		}
		return MatMul(n, matDiag(d), g.RotN(n)), s
	case 6:
		k := g.R.Uniform(0.3, 3)
		if g.R.Intn(3) == 0 {
			k = 1
		}
		d := make([]float64, n)
		for i := range d {
			d[i] = k
		}
		d[g.R.Intn(n)] *= 1 + g.eps(3, 10)
		return MatMul(n, g.RotN(n), matDiag(d)), "almost-uniform-scale"
	case 7:
		return matAddScaled(g.RotN(n), g.eps(3, 10), g.pattern(n)), "rotation+tiny-shear"
	case 8:
		return matAddScaled(matId(n), g.eps(3, 10), g.pattern(n)), "near-identity"
	case 9:
		d := scales(0.35, 3)
		if g.R.Bool() {
			m := matDiag(d)
			i := g.R.Intn(n)
			j := (i + 1 + g.R.Intn(n-1)) % n
			m[i*n+j] = g.R.Uniform(-2, 2)
			return m, "diagonal+one-entry"
		}
		return matAddScaled(matDiag(d), g.eps(3, 10), g.pattern(n)), "near-diagonal"
	case 10:
		d := scales(0.35, 3)
		for i := range d {
			d[i] = math.Abs(d[i])
		}
		r := g.RotN(n)
		m := MatMul(n, MatMul(n, r, matDiag(d)), matT(n, r))
		for i := 0; i < n; i++ {
			for j := 0; j < i; j++ {
				m[i*n+j] = m[j*n+i]
			}
		}
		return m, "symmetric"
	case 11: // the ordinary non-rigid case: axis scaling of any determinant, on a dyadic grid or generic
		d := scales(0.35, 3)
		if g.R.Bool() {
			for i := range d {
				d[i] = float64(g.R.Range(2, 24)) / 8 * g.sign()
			}
		}
		return matDiag(d), "general-scale"
	case 12: // mirror look-alikes: determinant exactly -1 without being a reflection
		var d []float64
		if n == 2 {
			d = append(d, dyadicUnitScales2[g.R.Intn(len(dyadicUnitScales2))]...)
		} else {
			d = append(d, dyadicUnitScales3[g.R.Intn(len(dyadicUnitScales3))]...)
		}
		d[g.R.Intn(n)] *= -1
		return MatMul(n, g.SignedPerm(n), matDiag(d)), "det-1-scale-dyadic"
	}
	for {
		m := make([]float64, n*n)
		for i := range m {
			m[i] = g.R.Uniform(-2, 2)
		}
		_, det, ok := ExactInverse(n, m)
		if !ok || math.Abs(det) < 0.3 {
			continue
		}
		r := g.R.Intn(n)
		for c := 0; c < n; c++ {
			m[r*n+c] /= det
		}
		return m, "det1-general"
	}
}

// LookAffine: look-alike of dimension n+1 in homogeneous form (n = 2: M33, n = 3: M44) of the given family
// (k < 0: random), composed with orthogonal factors and a translation; bottom row exactly (0,..,0,1).
func (g *Gen) LookAffine(n, k int) (m []float64, flavour string) {
	var l []float64
	if k < 0 {
		l, flavour = g.LookLinear(n)
	} else {
		l, flavour = g.LookLinearOf(n, k%LookFamilies)
	}
	flavour += " |"
	c := g.R.Intn(4)
	if strings.HasPrefix(flavour, "near-") || strings.HasPrefix(flavour, "symmetric") || strings.HasPrefix(flavour, "diagonal") {
		if g.R.Intn(4) != 0 {
			c = 3
		}
	}
	switch c {
	case 0:
		l = MatMul(n, g.SignedPerm(n), l)
		flavour += " quarter-turns"
	case 1:
		l = MatMul(n, g.RotN(n), l)
		flavour += " rotated"
	case 2:
		l = MatMul(n, MatMul(n, g.RotN(n), l), g.RotN(n))
		flavour += " rotated-both-sides"
	}
	N := n + 1
	m = matId(N)
	for i := 0; i < n; i++ {
		for j := 0; j < n; j++ {
			m[i*N+j] = l[i*n+j]
		}
	}
	switch g.R.Intn(3) {
	case 0:
		for i := 0; i < n; i++ {
			m[i*N+n] = g.R.Dyadic(6, 3)
		}
		flavour += " translation"
	case 1:
		for i := 0; i < n; i++ {
			m[i*N+n] = g.R.Uniform(-6, 6)
		}
		flavour += " translation"
	}
	return m, flavour
}

func (g *Gen) Look44(k int) (sdf.M44, string) {
	a, s := g.LookAffine(3, k)
	var m sdf.M44
	copy(m[:], a)
	return m, s
}
func (g *Gen) Look33(k int) (sdf.M33, string) {
	a, s := g.LookAffine(2, k)
	var m sdf.M33
	copy(m[:], a)
	return m, s
}

// LookFamily is the family name of a flavour string (bounded number of strata).
func LookFamily(s string) string {
	if i := strings.Index(s, " |"); i >= 0 {
		return s[:i]
	}
	return s
}

// ExactInverse: the inverse of an n x n matrix by Gauss-Jordan elimination over the rationals, each entry
// rounded once to float64, and the exact determinant rounded once (ok = false: singular or not finite).
// Independent of the implementation's Inverse.
func ExactInverse(n int, a []float64) (inv []float64, det float64, ok bool) {
	for _, x := range a {
		if math.IsNaN(x) || math.IsInf(x, 0) {
			return nil, 0, false
		}
	}
	m := make([][]*big.Rat, n)
	for i := range m {
		m[i] = make([]*big.Rat, 2*n)
		for j := 0; j < n; j++ {
			m[i][j] = new(big.Rat).SetFloat64(a[i*n+j])
			m[i][n+j] = new(big.Rat)
			if i == j {
				m[i][n+j].SetInt64(1)
			}
		}
	}
	d := big.NewRat(1, 1)
	for c := 0; c < n; c++ {
		p := -1
		for r := c; r < n; r++ {
			if m[r][c].Sign() != 0 {
				p = r
				break
			}
		}
		if p < 0 {
			return nil, 0, false
		}
		if p != c {
			m[p], m[c] = m[c], m[p]
			d.Neg(d)
		}
		d.Mul(d, m[c][c])
		pv := new(big.Rat).Inv(m[c][c])
		for j := 0; j < 2*n; j++ {
			m[c][j].Mul(m[c][j], pv)
		}
		for r := 0; r < n; r++ {
			if r == c || m[r][c].Sign() == 0 {
				continue
			}
			f := new(big.Rat).Set(m[r][c])
			for j := 0; j < 2*n; j++ {
				m[r][j].Sub(m[r][j], new(big.Rat).Mul(f, m[c][j]))
			}
		}
	}
	inv = make([]float64, n*n)
	for i := 0; i < n; i++ {
		for j := 0; j < n; j++ {
			inv[i*n+j], _ = m[i][n+j].Float64()
		}
	}
	det, _ = d.Float64()
	return inv, det, true
}
