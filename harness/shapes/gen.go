// Package shapes generates random expression trees over the sdf constructors, building the
// real Go object through the public API and, in lock step, the Coq term of the deep embedding
// (coq/Sdf/Shape.v, at the FOps instance).  Shared by C01, C02, C03.
package shapes

import (
	"fmt"
	"math"
	"strings"

	"github.com/deadsy/sdfx/sdf"
	v2 "github.com/deadsy/sdfx/vec/v2"
	"github.com/deadsy/sdfx/vec/v2i"
	v3 "github.com/deadsy/sdfx/vec/v3"
	"github.com/deadsy/sdfx/vec/v3i"
	"verifharness/kit"
)

// Class flags of a tree (which theorems' hypotheses it meets)
type Class struct {
	Rigid     bool // only distance-preserving operators over exact primitives (exact SDF)
	Lipschitz bool // in the 1-Lipschitz class of C03
	Lb        bool // value >= Euclidean distance to own box outside it (closed under rigid transforms)
	LbInf     bool // value >= max-norm distance to own box outside it (closed under extrusion, not rotation)
	HasBlend  bool
	MinBlend  bool // a material-adding blend (RoundMin/ChamferMin/PolyMin on a union-like node)
	Ctors     map[string]int
}

type N2 struct {
	Go   sdf.SDF2
	Coq  string
	Desc string
	Cl   Class
	Kids []interface{}
}
type N3 struct {
	Go   sdf.SDF3
	Coq  string
	Desc string
	Cl   Class
	Kids []interface{}
}

type Gen struct {
	R *kit.Rng
	// Allow restricts the constructors used (nil = all)
	Allow map[string]bool
	// NoBlend disables blend functions
	NoBlend bool
	// OffsetOnlyLb: Offset/Shell only over operands in the Lb / LbInf classes (where C01 is claimed)
	OffsetOnlyLb bool
}

func f(x float64) string  { return kit.CF(x) }
func V2s(v v2.Vec) string { return fmt.Sprintf("(fv2 %s %s)", f(v.X), f(v.Y)) }
func V3s(v v3.Vec) string { return fmt.Sprintf("(fv3 %s %s %s)", f(v.X), f(v.Y), f(v.Z)) }
func M33s(m sdf.M33) string {
	xs := make([]string, 9)
	for i := range xs {
		xs[i] = f(m[i])
	}
	return "[" + strings.Join(xs, "; ") + "]"
}
func M44s(m sdf.M44) string {
	xs := make([]string, 16)
	for i := range xs {
		xs[i] = f(m[i])
	}
	return "[" + strings.Join(xs, "; ") + "]"
}

func (g *Gen) ok(name string) bool { return g.Allow == nil || g.Allow[name] }

// size-like positive parameter on a dyadic grid (1/8 .. 6) or a random float
func (g *Gen) pos() float64 {
	if g.R.Intn(4) == 0 {
		return g.R.Uniform(0.2, 5)
	}
	return float64(g.R.Range(1, 48)) / 8
}
func (g *Gen) coord() float64 {
	if g.R.Intn(4) == 0 {
		return g.R.Uniform(-6, 6)
	}
	return g.R.Dyadic(6, 3)
}
func (g *Gen) angle() float64 {
	switch g.R.Intn(6) {
	case 0:
		return []float64{0, math.Pi / 2, math.Pi, -math.Pi / 2, math.Pi / 4, 2 * math.Pi / 3}[g.R.Intn(6)]
	}
	return g.R.Uniform(-math.Pi, math.Pi)
}

func merge(cs ...Class) Class {
	out := Class{Rigid: true, Lipschitz: true, Lb: true, LbInf: true, Ctors: map[string]int{}}
	for _, c := range cs {
		out.Rigid = out.Rigid && c.Rigid
		out.Lipschitz = out.Lipschitz && c.Lipschitz
		out.Lb = out.Lb && c.Lb
		out.LbInf = out.LbInf && c.LbInf
		out.MinBlend = out.MinBlend || c.MinBlend
		out.HasBlend = out.HasBlend || c.HasBlend
		for k, v := range c.Ctors {
			out.Ctors[k] += v
		}
	}
	return out
}
func (c Class) minBlend(bl bool) Class {
	if bl {
		c.MinBlend, c.Lb, c.LbInf = true, false, false
	}
	return c
}
func (c Class) noInf() Class { c.LbInf = false; return c }
func (c Class) with(name string) Class {
	c.Ctors[name]++
	return c
}

func (g *Gen) minK() (sdf.MinFunc, string, bool) {
	if g.NoBlend || g.R.Intn(3) != 0 {
		return nil, "MinDef", false
	}
	k := float64(g.R.Range(1, 16)) / 16
	switch g.R.Intn(3) {
	case 0:
		return sdf.RoundMin(k), "(MinRound " + f(k) + ")", true
	case 1:
		return sdf.ChamferMin(k), "(MinChamfer " + f(k) + ")", true
	}
	return sdf.PolyMin(k), "(MinPoly " + f(k) + ")", true
}
func (g *Gen) maxK() (sdf.MaxFunc, string, bool) {
	if g.NoBlend || g.R.Intn(3) != 0 {
		return nil, "MaxDef", false
	}
	k := float64(g.R.Range(1, 16)) / 16
	return sdf.PolyMax(k), "(MaxPoly " + f(k) + ")", true
}

func (g *Gen) rigid33() sdf.M33 {
	m := sdf.Translate2d(v2.Vec{X: g.coord(), Y: g.coord()})
	if g.R.Bool() {
		m = m.Mul(sdf.Rotate2d(g.angle()))
	}
	if g.R.Intn(5) == 0 {
		m = m.Mul(sdf.MirrorX())
	}
	return m
}
func (g *Gen) rigid44() sdf.M44 {
	m := sdf.Translate3d(v3.Vec{X: g.coord(), Y: g.coord(), Z: g.coord()})
	switch g.R.Intn(6) {
	case 0:
		m = m.Mul(sdf.RotateX(g.angle()))
	case 1:
		m = m.Mul(sdf.RotateY(g.angle()))
	case 2:
		m = m.Mul(sdf.RotateZ(g.angle()))
	case 3:
		ax := v3.Vec{X: g.coord(), Y: g.coord(), Z: g.coord()}
		if ax.Length() > 0.1 {
			m = m.Mul(sdf.Rotate3d(ax, g.angle()))
		}
	case 4:
		m = m.Mul(sdf.MirrorXY())
	}
	return m
}

// Gen2 returns a random 2D tree of at most the given depth.
func (g *Gen) Gen2(depth int) *N2 {
	leaf := Class{Rigid: true, Lipschitz: true, Lb: true, LbInf: true, Ctors: map[string]int{}}
	for try := 0; try < 50; try++ {
		k := g.R.Intn(17)
		if depth <= 0 {
			k = g.R.Intn(3)
		}
		switch k {
		case 0:
			if !g.ok("Circle") {
				continue
			}
			r := g.pos()
			s, err := sdf.Circle2D(r)
			if err != nil {
				continue
			}
			return &N2{Go: s, Coq: "(fCircle " + f(r) + ")", Desc: fmt.Sprintf("Circle(%g)", r), Cl: leaf.with("Circle")}
		case 1:
			if !g.ok("Box2D") {
				continue
			}
			sz := v2.Vec{X: g.pos(), Y: g.pos()}
			rd := 0.0
			if g.R.Intn(3) == 0 {
				rd = math.Min(sz.X, sz.Y) / 2 * float64(g.R.Range(0, 8)) / 8
			}
			return &N2{Go: sdf.Box2D(sz, rd), Coq: fmt.Sprintf("(fBox2D %s %s)", V2s(sz), f(rd)), Desc: fmt.Sprintf("Box2D(%v,%g)", sz, rd), Cl: leaf.with("Box2D")}
		case 2:
			if !g.ok("Line2D") {
				continue
			}
			l, rd := g.pos(), g.pos()/4
			return &N2{Go: sdf.Line2D(l, rd), Coq: fmt.Sprintf("(fLine2D %s %s)", f(l), f(rd)), Desc: fmt.Sprintf("Line2D(%g,%g)", l, rd), Cl: leaf.with("Line2D")}
		case 3:
			if !g.ok("Offset2") {
				continue
			}
			a := g.Gen2(depth - 1)
			if g.OffsetOnlyLb && !(a.Cl.Lb || a.Cl.LbInf) {
				continue
			}
			off := g.pos() / 4
			cl := merge(a.Cl).with("Offset2")
			cl.Rigid = false
			return &N2{Go: sdf.Offset2D(a.Go, off), Coq: fmt.Sprintf("(fOffset2 %s %s)", a.Coq, f(off)), Desc: fmt.Sprintf("Offset2(%s,%g)", a.Desc, off), Cl: cl, Kids: []interface{}{a}}
		case 4, 5:
			if !g.ok("Intersect2") {
				continue
			}
			a, b := g.Gen2(depth-1), g.Gen2(depth-1)
			mf, ms, bl := g.maxK()
			cl := merge(a.Cl, b.Cl)
			cl.Rigid, cl.HasBlend = false, cl.HasBlend || bl
			var s sdf.SDF2
			var coq, d string
			if k == 4 {
				s = sdf.Intersect2D(a.Go, b.Go)
				if mf != nil {
					s.(*sdf.IntersectionSDF2).SetMax(mf)
				}
				coq, d, cl = fmt.Sprintf("(fIntersect2 %s %s %s)", ms, a.Coq, b.Coq), "Intersect2", cl.with("Intersect2")
			} else {
				s = sdf.Difference2D(a.Go, b.Go)
				if mf != nil {
					s.(*sdf.DifferenceSDF2).SetMax(mf)
				}
				coq, d, cl = fmt.Sprintf("(fDifference2 %s %s %s)", ms, a.Coq, b.Coq), "Difference2", cl.with("Difference2")
			}
			return &N2{Go: s, Coq: coq, Desc: fmt.Sprintf("%s[%s](%s,%s)", d, ms, a.Desc, b.Desc), Cl: cl, Kids: []interface{}{a, b}}
		case 6:
			if !g.ok("Cut2") {
				continue
			}
			a := g.Gen2(depth - 1)
			pt, dir := v2.Vec{X: g.coord() / 4, Y: g.coord() / 4}, v2.Vec{X: g.coord(), Y: g.coord()}
			if dir.Length() < 0.1 {
				continue
			}
			cl := merge(a.Cl).with("Cut2")
			cl.Rigid = false
			return &N2{Go: sdf.Cut2D(a.Go, pt, dir), Coq: fmt.Sprintf("(fCut2 %s %s %s)", a.Coq, V2s(pt), V2s(dir)), Desc: fmt.Sprintf("Cut2(%s,%v,%v)", a.Desc, pt, dir), Cl: cl, Kids: []interface{}{a}}
		case 7, 8:
			if !g.ok("Transform2") {
				continue
			}
			a := g.Gen2(depth - 1)
			m := g.rigid33()
			return &N2{Go: sdf.Transform2D(a.Go, m), Coq: fmt.Sprintf("(fTransform2 %s %s)", a.Coq, M33s(m)), Desc: fmt.Sprintf("Transform2(%s)", a.Desc), Cl: merge(a.Cl).with("Transform2").noInf(), Kids: []interface{}{a}}
		case 9:
			if !g.ok("ScaleUniform2") {
				continue
			}
			a := g.Gen2(depth - 1)
			kk := float64(g.R.Range(2, 24)) / 8
			return &N2{Go: sdf.ScaleUniform2D(a.Go, kk), Coq: fmt.Sprintf("(fScaleUniform2 %s %s)", a.Coq, f(kk)), Desc: fmt.Sprintf("ScaleUniform2(%s,%g)", a.Desc, kk), Cl: merge(a.Cl).with("ScaleUniform2"), Kids: []interface{}{a}}
		case 10:
			if !g.ok("Array2") {
				continue
			}
			a := g.Gen2(depth - 1)
			nx, ny := g.R.Range(1, 3), g.R.Range(1, 3)
			st := v2.Vec{X: g.coord(), Y: g.coord()}
			mf, ms, bl := g.minK()
			s := sdf.Array2D(a.Go, v2i.Vec{X: nx, Y: ny}, st)
			if mf != nil {
				s.(*sdf.ArraySDF2).SetMin(mf)
			}
			cl := merge(a.Cl).with("Array2")
			cl.Rigid, cl.HasBlend = false, cl.HasBlend || bl
			cl = cl.minBlend(bl)
			return &N2{Go: s, Coq: fmt.Sprintf("(fArray2 %s %s %d %d %s)", ms, a.Coq, nx, ny, V2s(st)), Desc: fmt.Sprintf("Array2[%s](%s,%d,%d,%v)", ms, a.Desc, nx, ny, st), Cl: cl, Kids: []interface{}{a}}
		case 11:
			if !g.ok("RotateUnion2") {
				continue
			}
			a := g.Gen2(depth - 1)
			num := g.R.Range(1, 5)
			m := sdf.Rotate2d(g.angle())
			mf, ms, bl := g.minK()
			s := sdf.RotateUnion2D(a.Go, num, m)
			if mf != nil {
				s.(*sdf.RotateUnionSDF2).SetMin(mf)
			}
			cl := merge(a.Cl).with("RotateUnion2")
			cl.Rigid, cl.HasBlend = false, cl.HasBlend || bl
			cl = cl.minBlend(bl)
			cl.LbInf = false
			return &N2{Go: s, Coq: fmt.Sprintf("(fRotateUnion2 %s %s %d %s)", ms, a.Coq, num, M33s(m)), Desc: fmt.Sprintf("RotateUnion2[%s](%s,%d)", ms, a.Desc, num), Cl: cl, Kids: []interface{}{a}}
		case 12:
			if !g.ok("RotateCopy2") {
				continue
			}
			a := g.Gen2(depth - 1)
			num := g.R.Range(1, 7)
			cl := merge(a.Cl).with("RotateCopy2")
			cl.Rigid, cl.Lipschitz, cl.Lb, cl.LbInf = false, false, false, false // asymmetric operands make it discontinuous
			return &N2{Go: sdf.RotateCopy2D(a.Go, num), Coq: fmt.Sprintf("(fRotateCopy2 %s %d)", a.Coq, num), Desc: fmt.Sprintf("RotateCopy2(%s,%d)", a.Desc, num), Cl: cl, Kids: []interface{}{a}}
		case 13:
			if !g.ok("Elongate2") {
				continue
			}
			a := g.Gen2(depth - 1)
			h := v2.Vec{X: g.coord() / 2, Y: g.coord() / 2}
			if g.R.Intn(3) == 0 {
				h.Y = 0
			}
			cl := merge(a.Cl).with("Elongate2")
			cl.Rigid = false
			return &N2{Go: sdf.Elongate2D(a.Go, h), Coq: fmt.Sprintf("(fElongate2 %s %s)", a.Coq, V2s(h)), Desc: fmt.Sprintf("Elongate2(%s,%v)", a.Desc, h), Cl: cl, Kids: []interface{}{a}}
		case 14, 15:
			if !g.ok("Union2") {
				continue
			}
			n := g.R.Range(2, 4)
			var kids []interface{}
			var gos []sdf.SDF2
			var coqs, ds []string
			var cls []Class
			for i := 0; i < n; i++ {
				a := g.Gen2(depth - 1)
				kids, gos, coqs, ds, cls = append(kids, a), append(gos, a.Go), append(coqs, a.Coq), append(ds, a.Desc), append(cls, a.Cl)
			}
			mf, ms, bl := g.minK()
			s := sdf.Union2D(gos...)
			if mf != nil {
				s.(*sdf.UnionSDF2).SetMin(mf)
			}
			cl := merge(cls...).with("Union2")
			cl.Rigid, cl.HasBlend = false, cl.HasBlend || bl
			cl = cl.minBlend(bl)
			return &N2{Go: s, Coq: fmt.Sprintf("(fUnion2 %s [%s])", ms, strings.Join(coqs, "; ")), Desc: fmt.Sprintf("Union2[%s](%s)", ms, strings.Join(ds, ",")), Cl: cl, Kids: kids}
		case 16:
			if !g.ok("Slice2") || depth < 2 {
				continue
			}
			a := g.Gen3(depth - 1)
			pt, n := v3.Vec{X: g.coord() / 4, Y: g.coord() / 4, Z: g.coord() / 4}, v3.Vec{X: g.coord(), Y: g.coord(), Z: g.coord()}
			if g.R.Intn(3) == 0 {
				n.X = 0
			}
			if g.R.Intn(3) == 0 {
				n.Y = 0
			}
			if n.Length() < 0.1 {
				continue
			}
			cl := merge(a.Cl).with("Slice2")
			cl.Rigid, cl.Lb, cl.LbInf = false, false, false
			return &N2{Go: sdf.Slice2D(a.Go, pt, n), Coq: fmt.Sprintf("(fSlice2 %s %s %s)", a.Coq, V3s(pt), V3s(n)), Desc: fmt.Sprintf("Slice2(%s,%v,%v)", a.Desc, pt, n), Cl: cl, Kids: []interface{}{a}}
		}
	}
	r := 1.0
	s, _ := sdf.Circle2D(r)
	return &N2{Go: s, Coq: "(fCircle " + f(r) + ")", Desc: "Circle(1)", Cl: leaf.with("Circle")}
}

// Gen3 returns a random 3D tree of at most the given depth.
func (g *Gen) Gen3(depth int) *N3 {
	leaf := Class{Rigid: true, Lipschitz: true, Lb: true, LbInf: true, Ctors: map[string]int{}}
	for try := 0; try < 50; try++ {
		k := g.R.Intn(27)
		if depth <= 0 {
			k = g.R.Intn(4)
		}
		switch k {
		case 0:
			if !g.ok("Sphere") {
				continue
			}
			r := g.pos()
			s, err := sdf.Sphere3D(r)
			if err != nil {
				continue
			}
			return &N3{Go: s, Coq: "(fSphere " + f(r) + ")", Desc: fmt.Sprintf("Sphere(%g)", r), Cl: leaf.with("Sphere")}
		case 1:
			if !g.ok("Box3D") {
				continue
			}
			sz := v3.Vec{X: g.pos(), Y: g.pos(), Z: g.pos()}
			rd := 0.0
			if g.R.Intn(3) == 0 {
				rd = sz.MinComponent() / 2 * float64(g.R.Range(0, 8)) / 8
			}
			s, err := sdf.Box3D(sz, rd)
			if err != nil {
				continue
			}
			return &N3{Go: s, Coq: fmt.Sprintf("(fBox3D %s %s)", V3s(sz), f(rd)), Desc: fmt.Sprintf("Box3D(%v,%g)", sz, rd), Cl: leaf.with("Box3D")}
		case 2:
			if !g.ok("Cylinder") {
				continue
			}
			h, r := g.pos(), g.pos()
			rd := 0.0
			if g.R.Intn(3) == 0 {
				rd = math.Min(r, h/2) * float64(g.R.Range(0, 8)) / 8
			}
			s, err := sdf.Cylinder3D(h, r, rd)
			if err != nil {
				continue
			}
			return &N3{Go: s, Coq: fmt.Sprintf("(fCylinder %s %s %s)", f(h), f(r), f(rd)), Desc: fmt.Sprintf("Cylinder(%g,%g,%g)", h, r, rd), Cl: leaf.with("Cylinder")}
		case 3:
			if !g.ok("Cone") {
				continue
			}
			h, r0, r1 := g.pos(), g.pos(), g.pos()
			rd := 0.0
			if g.R.Intn(3) == 0 {
				rd = math.Min(math.Min(r0, r1), h/2) * float64(g.R.Range(0, 4)) / 8
			}
			s, err := sdf.Cone3D(h, r0, r1, rd)
			if err != nil {
				continue
			}
			return &N3{Go: s, Coq: fmt.Sprintf("(fCone %s %s %s %s)", f(h), f(r0), f(r1), f(rd)), Desc: fmt.Sprintf("Cone(%g,%g,%g,%g)", h, r0, r1, rd), Cl: leaf.with("Cone")}
		case 4:
			if !g.ok("Revolve") {
				continue
			}
			a := g.Gen2(depth - 1)
			th := 0.0
			if g.R.Intn(3) != 0 {
				th = []float64{0.3, math.Pi / 2, 2, math.Pi, 4, 1.5 * math.Pi, 5.5, 2 * math.Pi, 7}[g.R.Intn(9)]
				if g.R.Bool() {
					th = g.R.Uniform(0.05, 6.2)
				}
			}
			s, err := sdf.RevolveTheta3D(a.Go, th)
			if err != nil || s == nil {
				continue
			}
			cl := merge(a.Cl).with("Revolve")
			cl.Rigid, cl.Lb, cl.LbInf = false, false, false
			return &N3{Go: s, Coq: fmt.Sprintf("(fRevolve %s %s)", a.Coq, f(th)), Desc: fmt.Sprintf("Revolve(%s,%g)", a.Desc, th), Cl: cl, Kids: []interface{}{a}}
		case 5:
			if !g.ok("Extrude") {
				continue
			}
			a := g.Gen2(depth - 1)
			h := g.pos()
			cl := merge(a.Cl).with("Extrude")
			cl.Rigid, cl.Lb = false, false
			return &N3{Go: sdf.Extrude3D(a.Go, h), Coq: fmt.Sprintf("(fExtrude %s %s)", a.Coq, f(h)), Desc: fmt.Sprintf("Extrude(%s,%g)", a.Desc, h), Cl: cl, Kids: []interface{}{a}}
		case 6:
			if !g.ok("TwistExtrude") {
				continue
			}
			a := g.Gen2(depth - 1)
			h, tw := g.pos(), g.angle()
			cl := merge(a.Cl).with("TwistExtrude")
			cl.Rigid, cl.Lipschitz, cl.Lb, cl.LbInf = false, false, false, false
			return &N3{Go: sdf.TwistExtrude3D(a.Go, h, tw), Coq: fmt.Sprintf("(fTwistExtrude %s %s %s)", a.Coq, f(h), f(tw)), Desc: fmt.Sprintf("TwistExtrude(%s,%g,%g)", a.Desc, h, tw), Cl: cl, Kids: []interface{}{a}}
		case 7:
			if !g.ok("ScaleExtrude") {
				continue
			}
			a := g.Gen2(depth - 1)
			h := g.pos()
			sc := v2.Vec{X: float64(g.R.Range(2, 20)) / 8, Y: float64(g.R.Range(2, 20)) / 8}
			cl := merge(a.Cl).with("ScaleExtrude")
			cl.Rigid, cl.Lipschitz, cl.Lb, cl.LbInf = false, false, false, false
			return &N3{Go: sdf.ScaleExtrude3D(a.Go, h, sc), Coq: fmt.Sprintf("(fScaleExtrude %s %s %s)", a.Coq, f(h), V2s(sc)), Desc: fmt.Sprintf("ScaleExtrude(%s,%g,%v)", a.Desc, h, sc), Cl: cl, Kids: []interface{}{a}}
		case 8:
			if !g.ok("ScaleTwistExtrude") {
				continue
			}
			a := g.Gen2(depth - 1)
			h, tw := g.pos(), g.angle()
			sc := v2.Vec{X: float64(g.R.Range(2, 20)) / 8, Y: float64(g.R.Range(2, 20)) / 8}
			cl := merge(a.Cl).with("ScaleTwistExtrude")
			cl.Rigid, cl.Lipschitz, cl.Lb, cl.LbInf = false, false, false, false
			return &N3{Go: sdf.ScaleTwistExtrude3D(a.Go, h, tw, sc), Coq: fmt.Sprintf("(fScaleTwistExtrude %s %s %s %s)", a.Coq, f(h), f(tw), V2s(sc)), Desc: fmt.Sprintf("ScaleTwistExtrude(%s,%g,%g,%v)", a.Desc, h, tw, sc), Cl: cl, Kids: []interface{}{a}}
		case 9:
			if !g.ok("ExtrudeRounded") {
				continue
			}
			a := g.Gen2(depth - 1)
			h := g.pos()
			rd := h / 2 * float64(g.R.Range(0, 8)) / 8
			if g.OffsetOnlyLb && !(a.Cl.Lb || a.Cl.LbInf) {
				rd = 0
			}
			s, err := sdf.ExtrudeRounded3D(a.Go, h, rd)
			if err != nil {
				continue
			}
			cl := merge(a.Cl).with("ExtrudeRounded")
			cl.Rigid, cl.Lb, cl.LbInf = false, false, false
			return &N3{Go: s, Coq: fmt.Sprintf("(fExtrudeRounded %s %s %s)", a.Coq, f(h), f(rd)), Desc: fmt.Sprintf("ExtrudeRounded(%s,%g,%g)", a.Desc, h, rd), Cl: cl, Kids: []interface{}{a}}
		case 10:
			if !g.ok("Loft") {
				continue
			}
			a, b := g.Gen2(depth-1), g.Gen2(depth-1)
			h := g.pos()
			rd := h / 2 * float64(g.R.Range(0, 6)) / 8
			if g.OffsetOnlyLb && !((a.Cl.Lb || a.Cl.LbInf) && (b.Cl.Lb || b.Cl.LbInf)) {
				rd = 0
			}
			s, err := sdf.Loft3D(a.Go, b.Go, h, rd)
			if err != nil {
				continue
			}
			cl := merge(a.Cl, b.Cl).with("Loft")
			cl.Rigid, cl.Lipschitz, cl.Lb, cl.LbInf = false, false, false, false
			return &N3{Go: s, Coq: fmt.Sprintf("(fLoft %s %s %s %s)", a.Coq, b.Coq, f(h), f(rd)), Desc: fmt.Sprintf("Loft(%s,%s,%g,%g)", a.Desc, b.Desc, h, rd), Cl: cl, Kids: []interface{}{a, b}}
		case 11, 12, 13:
			if !g.ok("Transform3") {
				continue
			}
			a := g.Gen3(depth - 1)
			m := g.rigid44()
			return &N3{Go: sdf.Transform3D(a.Go, m), Coq: fmt.Sprintf("(fTransform3 %s %s)", a.Coq, M44s(m)), Desc: fmt.Sprintf("Transform3(%s)", a.Desc), Cl: merge(a.Cl).with("Transform3").noInf(), Kids: []interface{}{a}}
		case 14:
			if !g.ok("ScaleUniform3") {
				continue
			}
			a := g.Gen3(depth - 1)
			kk := float64(g.R.Range(2, 24)) / 8
			return &N3{Go: sdf.ScaleUniform3D(a.Go, kk), Coq: fmt.Sprintf("(fScaleUniform3 %s %s)", a.Coq, f(kk)), Desc: fmt.Sprintf("ScaleUniform3(%s,%g)", a.Desc, kk), Cl: merge(a.Cl).with("ScaleUniform3"), Kids: []interface{}{a}}
		case 15, 16:
			if !g.ok("Union3") {
				continue
			}
			n := g.R.Range(2, 4)
			var kids []interface{}
			var gos []sdf.SDF3
			var coqs, ds []string
			var cls []Class
			for i := 0; i < n; i++ {
				a := g.Gen3(depth - 1)
				kids, gos, coqs, ds, cls = append(kids, a), append(gos, a.Go), append(coqs, a.Coq), append(ds, a.Desc), append(cls, a.Cl)
			}
			mf, ms, bl := g.minK()
			s := sdf.Union3D(gos...)
			if mf != nil {
				s.(*sdf.UnionSDF3).SetMin(mf)
			}
			cl := merge(cls...).with("Union3")
			cl.Rigid, cl.HasBlend = false, cl.HasBlend || bl
			cl = cl.minBlend(bl)
			return &N3{Go: s, Coq: fmt.Sprintf("(fUnion3 %s [%s])", ms, strings.Join(coqs, "; ")), Desc: fmt.Sprintf("Union3[%s](%s)", ms, strings.Join(ds, ",")), Cl: cl, Kids: kids}
		case 17, 18:
			if !g.ok("Difference3") {
				continue
			}
			a, b := g.Gen3(depth-1), g.Gen3(depth-1)
			mf, ms, bl := g.maxK()
			cl := merge(a.Cl, b.Cl)
			cl.Rigid, cl.HasBlend = false, cl.HasBlend || bl
			var s sdf.SDF3
			var coq, d string
			if k == 17 {
				s = sdf.Difference3D(a.Go, b.Go)
				if mf != nil {
					s.(*sdf.DifferenceSDF3).SetMax(mf)
				}
				coq, d, cl = fmt.Sprintf("(fDifference3 %s %s %s)", ms, a.Coq, b.Coq), "Difference3", cl.with("Difference3")
			} else {
				s = sdf.Intersect3D(a.Go, b.Go)
				if mf != nil {
					s.(*sdf.IntersectionSDF3).SetMax(mf)
				}
				coq, d, cl = fmt.Sprintf("(fIntersect3 %s %s %s)", ms, a.Coq, b.Coq), "Intersect3", cl.with("Intersect3")
			}
			return &N3{Go: s, Coq: coq, Desc: fmt.Sprintf("%s[%s](%s,%s)", d, ms, a.Desc, b.Desc), Cl: cl, Kids: []interface{}{a, b}}
		case 19:
			if !g.ok("Cut3") {
				continue
			}
			a := g.Gen3(depth - 1)
			pt, n := v3.Vec{X: g.coord() / 4, Y: g.coord() / 4, Z: g.coord() / 4}, v3.Vec{X: g.coord(), Y: g.coord(), Z: g.coord()}
			if n.Length() < 0.1 {
				continue
			}
			cl := merge(a.Cl).with("Cut3")
			cl.Rigid = false
			return &N3{Go: sdf.Cut3D(a.Go, pt, n), Coq: fmt.Sprintf("(fCut3 %s %s %s)", a.Coq, V3s(pt), V3s(n)), Desc: fmt.Sprintf("Cut3(%s,%v,%v)", a.Desc, pt, n), Cl: cl, Kids: []interface{}{a}}
		case 20:
			if !g.ok("Elongate3") {
				continue
			}
			a := g.Gen3(depth - 1)
			h := v3.Vec{X: g.coord() / 2, Y: g.coord() / 2, Z: g.coord() / 2}
			if g.R.Intn(3) == 0 {
				h.Z = 0
			}
			cl := merge(a.Cl).with("Elongate3")
			cl.Rigid = false
			return &N3{Go: sdf.Elongate3D(a.Go, h), Coq: fmt.Sprintf("(fElongate3 %s %s)", a.Coq, V3s(h)), Desc: fmt.Sprintf("Elongate3(%s,%v)", a.Desc, h), Cl: cl, Kids: []interface{}{a}}
		case 21:
			if !g.ok("Array3") {
				continue
			}
			a := g.Gen3(depth - 1)
			nx, ny, nz := g.R.Range(1, 3), g.R.Range(1, 2), g.R.Range(1, 2)
			st := v3.Vec{X: g.coord(), Y: g.coord(), Z: g.coord()}
			mf, ms, bl := g.minK()
			s := sdf.Array3D(a.Go, v3i.Vec{X: nx, Y: ny, Z: nz}, st)
			if mf != nil {
				s.(*sdf.ArraySDF3).SetMin(mf)
			}
			cl := merge(a.Cl).with("Array3")
			cl.Rigid, cl.HasBlend = false, cl.HasBlend || bl
			cl = cl.minBlend(bl)
			return &N3{Go: s, Coq: fmt.Sprintf("(fArray3 %s %s %d %d %d %s)", ms, a.Coq, nx, ny, nz, V3s(st)), Desc: fmt.Sprintf("Array3[%s](%s,%d,%d,%d,%v)", ms, a.Desc, nx, ny, nz, st), Cl: cl, Kids: []interface{}{a}}
		case 22:
			if !g.ok("RotateUnion3") {
				continue
			}
			a := g.Gen3(depth - 1)
			num := g.R.Range(1, 5)
			m := sdf.RotateZ(g.angle())
			mf, ms, bl := g.minK()
			s := sdf.RotateUnion3D(a.Go, num, m)
			if mf != nil {
				s.(*sdf.RotateUnionSDF3).SetMin(mf)
			}
			cl := merge(a.Cl).with("RotateUnion3")
			cl.Rigid, cl.HasBlend = false, cl.HasBlend || bl
			cl = cl.minBlend(bl)
			cl.LbInf = false
			return &N3{Go: s, Coq: fmt.Sprintf("(fRotateUnion3 %s %s %d %s)", ms, a.Coq, num, M44s(m)), Desc: fmt.Sprintf("RotateUnion3[%s](%s,%d)", ms, a.Desc, num), Cl: cl, Kids: []interface{}{a}}
		case 23:
			if !g.ok("RotateCopy3") {
				continue
			}
			a := g.Gen3(depth - 1)
			num := g.R.Range(1, 7)
			cl := merge(a.Cl).with("RotateCopy3")
			cl.Rigid, cl.Lipschitz, cl.Lb, cl.LbInf = false, false, false, false
			return &N3{Go: sdf.RotateCopy3D(a.Go, num), Coq: fmt.Sprintf("(fRotateCopy3 %s %d)", a.Coq, num), Desc: fmt.Sprintf("RotateCopy3(%s,%d)", a.Desc, num), Cl: cl, Kids: []interface{}{a}}
		case 24:
			if !g.ok("Offset3") {
				continue
			}
			a := g.Gen3(depth - 1)
			if g.OffsetOnlyLb && !(a.Cl.Lb || a.Cl.LbInf) {
				continue
			}
			off := g.pos() / 4
			cl := merge(a.Cl).with("Offset3")
			cl.Rigid = false
			return &N3{Go: sdf.Offset3D(a.Go, off), Coq: fmt.Sprintf("(fOffset3 %s %s)", a.Coq, f(off)), Desc: fmt.Sprintf("Offset3(%s,%g)", a.Desc, off), Cl: cl, Kids: []interface{}{a}}
		case 25:
			if !g.ok("Shell3") {
				continue
			}
			a := g.Gen3(depth - 1)
			if g.OffsetOnlyLb && !(a.Cl.Lb || a.Cl.LbInf) {
				continue
			}
			th := g.pos() / 4
			s, err := sdf.Shell3D(a.Go, th)
			if err != nil {
				continue
			}
			cl := merge(a.Cl).with("Shell3")
			cl.Rigid = false
			return &N3{Go: s, Coq: fmt.Sprintf("(fShell3 %s %s)", a.Coq, f(th)), Desc: fmt.Sprintf("Shell3(%s,%g)", a.Desc, th), Cl: cl, Kids: []interface{}{a}}
		case 26:
			continue
		}
	}
	s, _ := sdf.Sphere3D(1)
	return &N3{Go: s, Coq: "(fSphere " + f(1) + ")", Desc: "Sphere(1)", Cl: leaf.with("Sphere")}
}
