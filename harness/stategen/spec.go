package stategen

// The skeleton of the EXPECTED inventory (coq/Sys/StateInvSpec.v).  The committed file is
// written once from the tree as it is (cmd/stategen -spec), then reviewed by hand; this file
// holds what the review decided: the scope of every property (the source files its model
// depends on, from the anchors of /verif/properties.jsonl) and, for every piece of state that
// legitimately exists, the model component that accounts for it.

import (
	"fmt"
	"path"
	"sort"
	"strings"
)

// Scope of one property: the files whose declarations are in scope (globs relative to the
// repository root), plus struct types added by hand.
type Scope struct {
	ID    string
	Files []string
	Extra []string // "pkg.Type"
	Pkgs  []string // packages added by hand to the packages of the files and types
}

// Scopes follows the "anchors.files" of properties.jsonl; additions are commented.
var Scopes = []Scope{
	{ID: "C01", Files: []string{"sdf/sdf3.go", "sdf/sdf2.go", "sdf/matrix.go", "sdf/box2.go", "sdf/box3.go", "sdf/screw.go",
		"sdf/cams.go", "sdf/flange.go", "sdf/rack.go", "sdf/spiral.go", "sdf/mesh2.go", "sdf/text.go", "sdf/voxel.go", "obj/*.go",
		// shapes the reification opens / the harness constructs beyond the anchors
		"sdf/poly.go", "sdf/bezier.go", "sdf/spline.go", "sdf/gyroid.go", "sdf/cache2.go", "sdf/mesh3.go", "sdf/quadratic.go", "sdf/line.go", "sdf/utils.go"}},
	{ID: "C02", Files: []string{"sdf/sdf3.go", "sdf/sdf2.go", "sdf/utils.go", "sdf/matrix.go", "sdf/screw.go", "sdf/cache2.go", "sdf/voxel.go",
		"sdf/box2.go", "sdf/box3.go"}},
	{ID: "C03", Files: []string{"sdf/sdf3.go", "sdf/sdf2.go", "sdf/mesh2.go", "sdf/utils.go", "sdf/box2.go", "sdf/box3.go", "sdf/line.go"}},
	{ID: "C04", Files: []string{"sdf/mesh2.go", "sdf/box2.go", "sdf/poly.go", "sdf/line.go"}},
	{ID: "C05", Files: []string{"render/march3.go", "render/march3x.go", "sdf/triangle3.go", "sdf/box3.go"}},
	{ID: "C06", Files: []string{"render/march3.go", "render/march3x.go", "sdf/triangle3.go", "sdf/box3.go"}},
	{ID: "C07", Files: []string{"render/march3x.go", "render/march2x.go", "sdf/triangle3.go", "sdf/line.go", "sdf/box3.go", "sdf/box2.go"}},
	{ID: "C08", Files: []string{"render/march2.go", "render/march2x.go", "sdf/line.go", "sdf/box2.go"}},
	{ID: "C09", Files: []string{"render/march3.go", "render/march3x.go", "render/render.go", "render/stl.go", "sdf/triangle3.go", "sdf/utils.go",
		// the other entry points whose output bytes are compared across schedules
		"render/march2.go", "render/march2x.go", "render/dxf.go", "render/svg.go", "render/3mf.go", "sdf/line.go"}},
	{ID: "C10", Files: []string{"sdf/cache2.go", "sdf/voxel.go", "obj/stl.go", "render/march3.go", "render/march3x.go",
		// "shapes are immutable after construction": every shape type
		"sdf/sdf2.go", "sdf/sdf3.go", "sdf/mesh2.go", "sdf/mesh3.go", "sdf/screw.go", "sdf/spline.go", "sdf/gyroid.go", "sdf/text.go",
		"sdf/cams.go", "sdf/flange.go", "sdf/rack.go", "sdf/spiral.go", "sdf/quadratic.go", "obj/*.go"}},
	{ID: "C11", Files: []string{"sdf/triangle3.go", "sdf/line.go", "render/render.go", "render/stl.go", "render/3mf.go", "render/dxf.go", "render/svg.go"}},
	{ID: "C12", Files: []string{"render/stl.go", "render/render.go", "render/march3.go", "render/3mf.go", "render/dxf.go", "render/svg.go",
		"sdf/triangle3.go", "sdf/line.go"}},
	{ID: "C13", Files: []string{"render/stl.go", "sdf/triangle3.go"}},
	{ID: "C14", Files: []string{"render/stl.go", "obj/stl.go"}},
	{ID: "C15", Files: []string{"render/3mf.go", "render/dxf.go", "render/svg.go", "render/render.go", "sdf/triangle3.go", "sdf/line.go"}},
	{ID: "C16", Files: []string{"sdf/sdf2.go", "sdf/box2.go", "sdf/box3.go", "sdf/line.go"}},
	{ID: "C17", Files: []string{"sdf/poly.go", "sdf/bezier.go", "sdf/utils.go"}},
	{ID: "C18", Files: []string{"sdf/screw.go", "obj/bolt.go", "obj/nut.go", "obj/hex.go", "sdf/poly.go"}},
	{ID: "C19", Files: []string{"render/dc/*.go", "sdf/triangle3.go", "sdf/box3.go"}},
	{ID: "C20", Files: []string{"render/delaunay.go", "sdf/triangle2.go", "render/utils.go"}},
}

// Accounts: for every piece of state that exists in the tree, which model component accounts
// for it.  Key "pkg.name" for package-level variables, "pkg.Type" for struct types (one
// sentence covers the mutable fields of the type).
var Accounts = map[string]string{
	"render.evalOnce":            "starts the evaluation pool once per process: Sys/PoolProg.v (render_pool: OnceDo evalRoutines), C12 pool theorems; C09/C10 effect summaries list the Once",
	"render.evalProcessCh":       "process-global request channel of the evaluation pool: Sys/Sched.v + Sys/SchedProg.v (batch plan, workers write disjoint out slices), Sys/PoolProg.v (workers park on it, never exit: C12 known state); no value is carried from one render to the next (a request is consumed exactly once)",
	"sdf.sdfRand":                "library-private seeded random source: C17 re-seeds it through the hook so the Bezier perturbation sequence is shared with the model (ProfSkel / bezoracle), C09 effect summaries whitelist it (ERand); Random* helpers are not used by any modelled function",
	"sdf.threadDB":               "thread database: built once by initThreadLookup into a map the initialiser allocates, never written afterwards (read-only here); its content is regenerated as Generated/Threads.v (threadgen) for C18",
	"obj.pipeDB":                 "pipe database: built once by initPipeLookup, never written afterwards (read-only lookup table)",
	"obj.servoDB":                "servo database: built once by initServoLookup, never written afterwards (read-only lookup table)",
	"obj.ArrowParms":             "parameter record; DirectedArrow3D overwrites Axis[0] of the caller's record with the distance between the two points (an input of the call, not carried state): objparts constructs a fresh record per call",
	"obj.EuroRackParms":          "parameter record; EuroRackPanel2D fills the default HoleDiameter into the caller's record (idempotent default, objparts passes a fresh record per call)",
	"obj.GfBaseParms":            "parameter record; GfBase clamps Size to >= 1 in the caller's record (idempotent default)",
	"obj.GfBodyParms":            "parameter record; GfBody clamps Size to >= 1 in the caller's record (idempotent default)",
	"obj.PanelBoxParms":          "parameter record; PanelBox3D fills the default Clearance into the caller's record (idempotent default)",
	"obj.SpringParms":            "parameter record; Spring2D fills the default Boss sizes into the receiver (idempotent default)",
	"obj.triMeshSdf":             "imported-mesh shape: rtree is built in the constructor; Evaluate only queries it (NearestNeighbors is a pointer-receiver method of the external rtreego package, counted as a write conservatively); C10 effect summaries follow rtreego and find no write",
	"render.DXF":                 "DXF sink: the drawing accumulates the lines written so far, by design; Io/Export.v models the file content as the fold over the written lines (C15), Sys/Pipeline.v the writer loop (C11/C12); one DXF object per file",
	"render.SVG":                 "SVG sink: p0s/p1s/min/max accumulate the segments and their running bounds until Save; Io/Export.v (svg_add / svg_save, C15); one SVG object per file",
	"render.dcache2":             "quadtree distance cache: created per render by newDcache2 inside marchingSquaresQuadtree and written under its RWMutex by internal helpers only, so no write to a cache the render did not allocate itself exists (keeping it in the renderer or in a package-level variable shows up here); Render/Octree.v threads the cache as explicit state through the recursion and proves the result equal to the cache-free one (C07/C08), Lockset summaries see the lock (C10)",
	"render.dcache3":             "octree distance cache: created per render by newDcache3 inside marchingCubesOctree and written under its RWMutex by internal helpers only, so no write to a cache the render did not allocate itself exists (keeping it in the renderer or in a package-level variable shows up here); Render/Octree.v (cache3, dc3_evaluate: the cache is threaded as explicit state and proved not to change the result) + Render/GenEqOct.v (C05/C06/C07), Effects.v locks (C09/C10)",
	"render.evalReq":             "evaluation request: out is the re-sliced window of the layer the worker fills, wg the per-layer WaitGroup; Sys/Sched.v (each worker writes its own disjoint window; C06/C09), Sys/SchedProg.v",
	"render.layerYZ":             "two-layer value cache of the uniform renderer: created per render in marchingCubes; val0/val1 are swapped and refilled per x step: Render/Lattice.v + GenEqMC (layer indexing), Sys/Sched.v (filled by the pool)",
	"render.lineCache":           "two-column value cache of the uniform 2D renderer: created per render in marchingSquares, written by internal helpers only (no write outside the render that allocated it); Render/MS.v + Render/Lattice.v (C08)",
	"render/dc.DualContouringV1": "renderer options; Render replaces RCond == 0 by the default 1e-3 in the renderer object (idempotent default written on first use; Algo/DCScan.v allowed_state_reads lists exactly this read, DCModel takes the effective RCond as a parameter)",
	"render/dc.DualContouringV2": "renderer options plus the dc warn-once flags (farAway/qefFailed/raycastFailed/faceVertexNotFound): they only gate log output, never geometry: Algo/DCScan.v classifies every use as a warn-once guard (regenerated by dctab on every run)",
	"render/dc.dcOctree":         "octree node of DualContouringV1: built per render by dcNewOctree/Populate, collapsed in place by Simplify; Algo/DCOctree.v + DCPrune.v + DCProc* model build/simplify/contour as functions of the tree of this render",
	"render/dc.dcOctreeDrawInfo": "leaf data of the V1 octree (vertex index, position, QEF, normal): written while the tree of one render is built, simplified and indexed (Algo/DCOctree.v, DCVisits.v)",
	"render/dc.dcQefSolver":      "QEF accumulator (ata/atb/btb/mass point) and its cached solution x: one solver per octree leaf, accumulated by Add/AddSolver, solved by Solve (gonum calls are counted as writes of ata); Algo/DCModel.v treats the solve as a function of the accumulated data",
	"render/dc.dcSdf":            "V2 evaluation cache: created per render in DualContouringV2.Render (no write outside the render that allocated it), memoises the pure field (Algo/DCScan.v: evaluation is a function of the point)",
	"sdf.ArraySDF2":              "SetMin replaces the blend function after construction: Sdf/Shape.v carries the min function as a constructor parameter (the harness calls SetMin before the first Evaluate)",
	"sdf.ArraySDF3":              "SetMin replaces the blend function after construction: Sdf/Shape.v carries the min function as a constructor parameter",
	"sdf.DifferenceSDF2":         "SetMax replaces the blend function after construction: Sdf/Shape.v carries it as a constructor parameter",
	"sdf.DifferenceSDF3":         "SetMax replaces the blend function after construction: Sdf/Shape.v carries it as a constructor parameter",
	"sdf.IntersectionSDF2":       "SetMax replaces the blend function after construction: Sdf/Shape.v carries it as a constructor parameter",
	"sdf.IntersectionSDF3":       "SetMax replaces the blend function after construction: Sdf/Shape.v carries it as a constructor parameter",
	"sdf.RotateUnionSDF2":        "SetMin replaces the blend function after construction: Sdf/Shape.v carries it as a constructor parameter",
	"sdf.RotateUnionSDF3":        "SetMin replaces the blend function after construction: Sdf/Shape.v carries it as a constructor parameter",
	"sdf.UnionSDF2":              "SetMin replaces min and sets blend (switches Evaluate to the exhaustive path): Sdf/Shape.v Union2 carries (min, blend); C16 pruning theorems are stated for blend = false; Evaluate itself writes nothing",
	"sdf.UnionSDF3":              "SetMin replaces the blend function after construction: Sdf/Shape.v carries it as a constructor parameter",
	"sdf.ExtrudeSDF3":            "SetExtrude replaces the extrusion mapping after construction: Sdf/Shape.v Extrude carries the mapping as a parameter",
	"sdf.CacheSDF2":              "the memoising wrapper: map and counters written by Evaluate under mu (fix f1b96b7); Sdf/Reify.v RCache2 s is interpreted as its operand (memo of a pure function; key = bit patterns of the point, fix e9e2be4: C02), Lockset summaries check the lock (C10)",
	"sdf.CubicSplineSDF2":        "spline segments are built in the constructor; Evaluate/d1/d2/Polygonize take the address of a segment to call its pointer-receiver read methods (address-taking counted conservatively); nothing is stored",
	"sdf.CubicPolynomial":        "coefficients set by Set, called from the CubicSpline2D constructor only (builder step, not state of an evaluation)",
	"sdf.qtNode":                 "quadtree node of MeshSDF2: built by qtBuild in the constructor; Boxes() returns the addresses of the node boxes (address-taking counted conservatively); Sdf/PolyTreeR.v models the tree as an immutable value (C04)",
	"sdf.Line2Buffer":            "line buffer between renderer and sink: buf appended / flushed at threshold under lock, out is the sink channel: Sys/Buffer.v + Sys/BufferProg.v (programs translated by sysgen; C11 nothing lost/duplicated/reordered)",
	"sdf.Triangle3Buffer":        "triangle buffer between renderer and sink: buf appended / flushed at threshold under lock, out is the sink channel: Sys/Buffer.v + Sys/BufferProg.v (programs translated by sysgen; C11), Effects.v (C09)",
	"sdf.Polygon":                "profile builder: Add/AddV2/Drop/Close/Reverse build the vertex list, Vertices() resolves relative vertices in place (idempotent: relative is cleared): Sdf/Poly.v + ProfSkel (profgen) model the builder as a fold over the script of calls (C17)",
	"sdf.PolygonVertex":          "profile builder vertex: Rel/Polar/Smooth/Chamfer/Arc modify the vertex just added (builder calls, modelled as vertex attributes in Sdf/Poly.v; C17); Vertices() rewrites relative vertices to absolute",
	"sdf.Bezier":                 "Bezier builder: Add/AddV2/Close build the vertex list, Polygon() converts handles to control points in place: ProfSkel + bezoracle (C17) model the builder script",
	"sdf.BezierVertex":           "Bezier builder vertex: HandleFwd/HandleRev/Mid modify the vertex just added (builder calls; C17 model carries them as vertex attributes)",
	"sdf.BezierPolynomial":       "coefficients set by Set, called when a spline is built from control points (BezierSpline construction; C17 model BezierPolynomial.Set)",
	"vec/v3.Vec":                 "(*Vec).Set writes one component of the vector it is called on; used by render/dc on local vectors only (value type: every holder has its own copy)",
}

func matchFile(globs []string, file string) bool {
	for _, g := range globs {
		if ok, _ := path.Match(g, file); ok {
			return true
		}
	}
	return false
}

// ScopeOf computes, for the inventory inv, the struct types and packages in scope of sc:
// types declared in the files, types reachable from them through field types, the types
// reachable from the package-level variables declared in the files, and the Extra types.
func ScopeOf(inv *Inventory, sc Scope) (typesIn map[string]bool, varsIn map[string]bool, pkgs []string) {
	byKey := map[string]*Struct{}
	for i := range inv.Structs {
		s := &inv.Structs[i]
		byKey[s.Pkg+"."+s.Name] = s
	}
	typesIn = map[string]bool{}
	varsIn = map[string]bool{}
	pk := map[string]bool{}
	var todo []string
	add := func(k string) {
		if !typesIn[k] && byKey[k] != nil {
			typesIn[k] = true
			todo = append(todo, k)
		}
	}
	for _, s := range inv.Structs {
		if matchFile(sc.Files, s.File) {
			add(s.Pkg + "." + s.Name)
		}
	}
	for _, v := range inv.Vars {
		if matchFile(sc.Files, v.File) {
			varsIn[v.Pkg+"."+v.Name] = true
			pk[v.Pkg] = true
			for _, r := range v.Refs {
				add(r)
			}
		}
	}
	for _, e := range sc.Extra {
		add(e)
	}
	for len(todo) > 0 {
		k := todo[len(todo)-1]
		todo = todo[:len(todo)-1]
		for _, r := range byKey[k].Refs {
			add(r)
		}
	}
	for k := range typesIn {
		pk[byKey[k].Pkg] = true
	}
	for _, f := range sc.Files {
		pk[path.Dir(f)] = true
	}
	for _, p := range sc.Pkgs {
		pk[p] = true
	}
	for p := range pk {
		pkgs = append(pkgs, p)
	}
	sort.Strings(pkgs)
	return
}

// SpecSkeleton prints the expected tables for the tree at repo.
func SpecSkeleton(repo string) ([]byte, error) {
	inv, err := Analyse(repo)
	if err != nil {
		return nil, err
	}
	tagsT := map[string][]string{}
	tagsV := map[string][]string{}
	var b strings.Builder
	b.WriteString(specHeader)
	b.WriteString("(* ---- scope: the packages whose package-level variables are in scope of each property *)\n")
	b.WriteString("Definition prop_pkgs : list (string * list string) := [\n")
	for i, sc := range Scopes {
		ts, vs, pkgs := ScopeOf(inv, sc)
		for k := range ts {
			tagsT[k] = append(tagsT[k], sc.ID)
		}
		for k := range vs {
			tagsV[k] = append(tagsV[k], sc.ID)
		}
		sep := ";"
		if i == len(Scopes)-1 {
			sep = ""
		}
		fmt.Fprintf(&b, "  (%s, %s)%s\n", cstr(sc.ID), clist(pkgs), sep)
	}
	b.WriteString("].\n\n")
	b.WriteString("(* ---- package-level variables: (properties whose model accounts for / depends on it, variable) *)\n")
	b.WriteString("Definition exp_vars : list (list string * gvar) := [\n")
	for i, v := range inv.Vars {
		k := v.Pkg + "." + v.Name
		if c := Accounts[k]; c != "" {
			b.WriteString("  (* " + ccomment(c) + " *)\n")
		} else if v.Mutated {
			b.WriteString("  (* TODO account *)\n")
		}
		sep := ";"
		if i == len(inv.Vars)-1 {
			sep = ""
		}
		fmt.Fprintf(&b, "  (%s,\n   %s)%s\n", clist(tagsV[k]), CoqVar(v), sep)
	}
	b.WriteString("].\n\n")
	b.WriteString("(* ---- struct types: (properties in whose scope the type is, type with its fields and the fields written outside construction) *)\n")
	b.WriteString("Definition exp_structs : list (list string * sstruct) := [\n")
	n := 0
	for _, s := range inv.Structs {
		if len(tagsT[s.Pkg+"."+s.Name]) > 0 {
			n++
		}
	}
	j := 0
	var unscoped []string
	for _, s := range inv.Structs {
		k := s.Pkg + "." + s.Name
		if len(tagsT[k]) == 0 {
			unscoped = append(unscoped, k)
			continue
		}
		j++
		if c := Accounts[k]; c != "" {
			b.WriteString("  (* " + ccomment(c) + " *)\n")
		} else if len(s.Mut) > 0 {
			b.WriteString("  (* TODO account *)\n")
		}
		sep := ";"
		if j == n {
			sep = ""
		}
		fmt.Fprintf(&b, "  (%s,\n   %s)%s\n", clist(tagsT[k]), CoqStruct(s, "   "), sep)
	}
	b.WriteString("].\n\n")
	fmt.Fprintf(&b, "(* struct types of the packages that are in no property's scope (%d): %s *)\n\n", len(unscoped), ccomment(strings.Join(unscoped, " ")))
	b.WriteString(specFooter)
	for _, sc := range Scopes {
		fmt.Fprintf(&b, "Definition state_diff_%s : list string := state_diff %s.\nDefinition state_ok_%s : bool := is_nil state_diff_%s.\n", sc.ID, cstr(sc.ID), sc.ID, sc.ID)
	}
	b.WriteString(specExamples)
	return []byte(b.String()), nil
}

const specHeader = `(* StateInvSpec.v - the EXPECTED inventory of mutable state, per property.

   Written from the tree as it was when the inventory was introduced (harness/cmd/stategen
   -spec, tables of harness/stategen/spec.go), then reviewed by hand.  Every piece of state
   that legitimately exists carries a comment naming the model component that accounts for
   it; that is the reviewable content of this file.  The generated side is
   coq/Generated/StateInv.v (harness/stategen, regenerated from the current source by the gen
   step of every check); the comparison is Sys/StateInvDefs.v (inclusion of the generated
   state in the expected state, keyed by package + name); the per-property obligations
   Cxx_state_inventory are in Sys/StateInvCxx.v and required from Props/Cxx.v.

   Scope of a property = the struct types declared in the files its model depends on
   (anchors of properties.jsonl, spec.go Scopes), the struct types reachable from them through
   field types, and ALL package-level variables of the packages those files and types belong
   to: a new written package-level variable in such a package breaks the property whatever
   file it is put in (and one in a new package of the module breaks every property).

   After a reviewed, legitimate change of the state of the library: regenerate with
     cd harness && go run ./cmd/stategen -spec /repo > ../coq/Sys/StateInvSpec.v
   (after adding the account of the new state to spec.go) and review the diff. *)
From Coq Require Import List String Bool.
From Sdfx Require Import Sys.StateInvDefs Generated.StateInv.
Import ListNotations.
Local Open Scope string_scope.

`

const specFooter = `(* a package this file does not know (a new internal package of the module, imported by the
   packages above) is in the scope of every property *)
Definition known_pkgs : list string := flat_map snd prop_pkgs.
Definition unknown_pkgs : list string :=
  filter (fun p => negb (mem p known_pkgs)) (map gv_pkg gen_vars).

Definition pkgs_of (P : string) : list string :=
  match assoc P prop_pkgs with Some l => l ++ unknown_pkgs | None => unknown_pkgs end.

(* the differences between the generated inventory, restricted to the scope of P, and the expected one *)
Definition state_diff (P : string) : list string :=
  inventory_diff P (pkgs_of P) exp_vars exp_structs gen_vars gen_structs.

`

const specExamples = `
(* ---- the comparison is not vacuous: every property has packages in scope, and struct types too
   (except C20: Delaunay2d works on arrays and slices only; its state is package-level only) *)
Definition tagged (P : string) : list (list string * sstruct) := filter (fun te => mem P (fst te)) exp_structs.

Example every_scope_inhabited :
  forallb (fun pp => negb (is_nil (snd pp)) && (String.eqb (fst pp) "C20" || negb (is_nil (tagged (fst pp))))) prop_pkgs = true.
Proof. vm_compute. reflexivity. Qed.

(* ---- and it sees the changes it is meant to see (doctored inventories, independent of the source) *)
Definition doctored_var := GVar "render" "delaunayDone" "[]bool" false true ["render.Delaunay2d"].
Definition readonly_var := GVar "render" "helperTable" "[4]int" true false [].
Definition doctored_union := SStruct "sdf" "UnionSDF2"
  [("sdf", "[]sdf.SDF2"); ("min", "sdf.MinFunc"); ("blend", "bool"); ("bb", "sdf.Box2"); ("vs", "[]sdf.Interval")]
  [("vs", ["sdf.(*UnionSDF2).Evaluate"])].
Definition doctored_octree := SStruct "render" "MarchingCubesOctree"
  [("meshCells", "int")] [("meshCells", ["render.(*MarchingCubesOctree).Render"])].
Definition reordered_union := SStruct "sdf" "UnionSDF2"
  [("bb", "sdf.Box2"); ("blend", "bool"); ("min", "sdf.MinFunc"); ("sdf", "[]sdf.SDF2")] [].

(* a new written package-level variable in a package in scope *)
Example sees_new_package_state :
  is_nil (inventory_diff "C20" (pkgs_of "C20") exp_vars exp_structs [doctored_var] []) = false.
Proof. vm_compute. reflexivity. Qed.
(* ... but not a new table nothing writes *)
Example tolerates_new_readonly_table :
  is_nil (var_diff "C20" (pkgs_of "C20") exp_vars readonly_var) = true.
Proof. vm_compute. reflexivity. Qed.
(* a scratch slice moved from a local into the struct *)
Example sees_new_field :
  is_nil (struct_diff "C16" [doctored_union] (["C16"], doctored_union)) = true /\
  existsb (fun te => negb (is_nil (struct_diff "C16" [doctored_union] te))) exp_structs = true.
Proof. vm_compute. split; reflexivity. Qed.
(* an existing field that becomes written outside its constructor *)
Example sees_field_becoming_mutable :
  existsb (fun te => negb (is_nil (struct_diff "C06" [doctored_octree] te))) (tagged "C06") = true.
Proof. vm_compute. reflexivity. Qed.
(* reordering fields, dropping a setter: no difference for that type *)
Example tolerates_reordered_fields :
  forallb (fun te => negb (String.eqb (s_name (snd te)) "UnionSDF2") || is_nil (struct_diff "C16" [reordered_union] te)) exp_structs = true.
Proof. vm_compute. reflexivity. Qed.
`
