// Package stategen extracts the INVENTORY OF MUTABLE STATE of the source tree under
// analysis (DESIGN.md 2.3): the Gallina models are functions of their arguments, which is
// faithful only as long as the Go code keeps no state between calls beyond what the models
// mention.  On every run this translator lists, for the production build (no tags, no
// tests) of packages sdf, render, render/dc, obj and vec/*:
//
//	(a) every package-level var: name, normalised type, has-initialiser, and whether anything
//	    in the loaded packages assigns it (or an element / field of it), takes its address,
//	    calls a pointer-receiver / external-interface method on it, uses it as a channel, or
//	    hands it (or an alias of it) to code that writes through it ("mutated"), with the
//	    entry points from which such a write is reachable;
//	(b) every named struct type with its fields (name, normalised type);
//	(c) for every struct type the fields that are written in memory the writing function did
//	    not allocate itself (mutable after construction), with the entry points from which
//	    such a write is reachable.
//
// Everything is keyed by package + name, never by file or line, and the output is sorted,
// so moving declarations, reordering functions or fields, renaming locals and adding
// helpers / constants / read-only tables leave the compared content unchanged.  The output
// is plain data, coq/Generated/StateInv.v; coq/Sys/StateInvSpec.v holds the expected,
// reviewed inventory and coq/Sys/StateInvCxx.v the per-property obligations.
//
// The write analysis is syntactic over go/types information (no SSA):
//
//   - an access path (root variable followed by field selections, index, dereference steps)
//     is decomposed; a step "crosses" when it goes through a pointer, slice, map or channel;
//   - a write whose root is a local that only ever holds memory allocated in the same
//     function (composite literal, &composite literal, new, make, zero declaration, result of
//     a function that returns such memory) is construction, not mutation;
//   - otherwise the write is charged to the package-level var at the root (always) and to ONE
//     struct field: the first field at or after the last crossing (T.f for s.f = v, s.f.x = v
//     with f a struct value, Child.x for s.child.x = v with child a pointer), or, when an element
//     or pointee is written (s.f[i] = v, *s.f = v), the field holding the reference (T.f) - and
//     then also whatever the root local aliases (vs := s.vs; vs[i] = v is a write of T.vs;
//     done := g[:k]; done[i] = v a write of g);
//   - address-taking, pointer-receiver method calls of other modules on addressable operands
//     (s.mu.Lock(), pool.Get()), methods of external interfaces, channel operations,
//     delete/copy/clear count as writes of their operand;
//   - a reference handed to a callee is followed: in-module static callees by a per-parameter
//     "written-through" summary (fixpoint), external callees are assumed to write through it
//     unless they belong to a short list of pure packages; results of in-module callees carry
//     the aliases of what the callee returns;
//   - what an INTERNAL helper (unexported, only ever called statically, not a method of a module
//     interface) writes through a parameter is charged where it is called, and not at all where
//     the caller hands it memory it allocated itself: extracting a helper out of a constructor,
//     or out of a function that fills a local, does not change the inventory;
//   - the writers recorded for a piece of state are the NEAREST entry points (exported names,
//     init, functions nothing refers to) from which a writing function is reachable through
//     static references: new users of an exported mutator do not change the inventory.
//
// Not seen (limits): state hidden in closures stored in existing function-typed fields or
// variables, writes through reflect/unsafe, state of other modules, a write to shared memory
// reached only through an object the writer built itself (x := &T{m: shared}; x.m[k] = v).
package stategen

import (
	"fmt"
	"go/ast"
	"go/token"
	"go/types"
	"os"
	"regexp"
	"sort"
	"strings"

	"golang.org/x/tools/go/packages"

	"verifharness/kit"
)

const module = "github.com/deadsy/sdfx"

// Patterns are the packages whose state is inventoried.
var Patterns = []string{"./sdf", "./render", "./render/dc", "./obj", "./vec/..."}

// Var is one package-level variable.
type Var struct {
	Pkg, Name, Type string
	Init            bool
	Mutated         bool
	Writers         []string // entry points from which a write is reachable
	How             []string // kinds of write seen (diagnostics only, not compared)
	File            string   // diagnostics only
	Refs            []string // module struct types reachable from the type ("pkg.Name"; scope computation only)
}

// Field of a struct.
type Field struct{ Name, Type string }

// MutField is a field written outside construction.
type MutField struct {
	Field   string
	Writers []string
	How     []string
}

// Struct is one named struct type.
type Struct struct {
	Pkg, Name string
	Fields    []Field
	Mut       []MutField
	File      string   // diagnostics only
	Refs      []string // module struct types reachable from the field types (scope computation only)
}

// Inventory of one source tree.
type Inventory struct {
	Vars    []Var
	Structs []Struct
}

// ---------------------------------------------------------------------------------------------

func shortPath(p string) string {
	if p == module {
		return "."
	}
	return strings.TrimPrefix(p, module+"/")
}

func qual(p *types.Package) string { return shortPath(p.Path()) }

func typeStr(t types.Type) string { return types.TypeString(t, qual) }

func inModule(p *types.Package) bool {
	return p != nil && (p.Path() == module || strings.HasPrefix(p.Path(), module+"/"))
}

// refLike: a value of this type refers to memory shared with its source.
func refLike(t types.Type) bool {
	if t == nil {
		return false
	}
	switch t.Underlying().(type) {
	case *types.Pointer, *types.Slice, *types.Map, *types.Chan, *types.Interface, *types.Signature:
		return true
	}
	return false
}

type event struct {
	key string // "g:<pkg>.<name>" | "f:<pkg>.<Type>.<field>" | "p:<i>"
	how string
}

type callArg struct {
	callee    *types.Func
	idx       int // parameter index (receiver = 0 for methods, then the declared parameters)
	keys      []string
	how       string
	fresh     bool // the actual argument is memory allocated by the caller itself
	paramRoot int  // >= 0: the actual argument is rooted at this parameter of a deferrable caller
}

type fnInfo struct {
	name   string
	obj    *types.Func // nil for the package initialiser pseudo function
	pkg    *packages.Package
	bodies []ast.Node
	params map[*types.Var]int
	entry  bool
	events map[event]bool
	args   []callArg
	uses   map[*types.Func]bool
	// an internal helper (unexported, only ever called statically, not an interface method): what it
	// writes through a parameter is charged where it is called, and not at all when the caller hands
	// it memory the caller allocated itself (so that extracting a helper out of a constructor, or out
	// of a function working on a local, does not change the inventory)
	deferrable bool
	deferred   map[int]map[string]string // parameter index -> field key -> how
	dirty      map[int]bool              // parameter index -> something reachable from it is written
	dirtyRaw   map[int]bool              // ... and the write is an element / pointee write not charged to a struct field by type
	// results
	retRoots [][]string // per result index: roots aliased by what is returned
	retFresh []bool     // per result index: always memory allocated by the function itself
	// locals
	alias    map[*types.Var]map[string]bool
	nonFresh map[*types.Var]bool
}

type analyser struct {
	pkgs       []*packages.Package
	fns        map[*types.Func]*fnInfo
	all        []*fnInfo
	fieldOwner map[*types.Var]string // field object -> "pkg.Type"
	changed    bool
}

func funcName(f *types.Func) string {
	sig := f.Type().(*types.Signature)
	p := ""
	if f.Pkg() != nil {
		p = qual(f.Pkg())
	}
	if r := sig.Recv(); r != nil {
		t := r.Type()
		star := ""
		if pt, ok := t.(*types.Pointer); ok {
			t = pt.Elem()
			star = "*"
		}
		n := typeStr(t)
		if nt, ok := t.(*types.Named); ok {
			n = nt.Obj().Name()
		}
		if star != "" {
			return fmt.Sprintf("%s.(*%s).%s", p, n, f.Name())
		}
		return fmt.Sprintf("%s.%s.%s", p, n, f.Name())
	}
	return p + "." + f.Name()
}

func globalKey(v *types.Var) string { return "g:" + qual(v.Pkg()) + "." + v.Name() }

func isGlobal(v *types.Var) bool {
	return v != nil && !v.IsField() && v.Pkg() != nil && v.Parent() == v.Pkg().Scope()
}

// ---- access paths

type step struct {
	kind     string // root field index deref slice addr
	crossing bool
	fieldKey string     // "f:pkg.Type.field" for field steps
	global   *types.Var // root
	local    *types.Var // root
	fresh    bool       // root: composite literal / call returning fresh memory
	keys     []string   // root: result of a call: the roots the callee's result aliases
}

func (a *analyser) fieldKey(t types.Type, fv *types.Var) string {
	if o, ok := a.fieldOwner[fv]; ok {
		return "f:" + o + "." + fv.Name()
	}
	// field of an unnamed or external struct
	if nt, ok := t.(*types.Named); ok && nt.Obj().Pkg() != nil {
		return "f:" + qual(nt.Obj().Pkg()) + "." + nt.Obj().Name() + "." + fv.Name()
	}
	return "f:?." + fv.Name()
}

func (a *analyser) steps(fi *fnInfo, e ast.Expr) []step {
	info := fi.pkg.TypesInfo
	switch e := e.(type) {
	case *ast.ParenExpr:
		return a.steps(fi, e.X)
	case *ast.Ident:
		switch o := info.ObjectOf(e).(type) {
		case *types.Var:
			if isGlobal(o) {
				return []step{{kind: "root", global: o}}
			}
			return []step{{kind: "root", local: o}}
		}
		return []step{{kind: "root", fresh: true}} // nil, constants, functions
	case *ast.SelectorExpr:
		if sel, ok := info.Selections[e]; ok {
			if sel.Kind() != types.FieldVal {
				// method value: the receiver expression
				return a.steps(fi, e.X)
			}
			st := a.steps(fi, e.X)
			t := info.TypeOf(e.X)
			for _, idx := range sel.Index() {
				cross := false
				if pt, ok := t.Underlying().(*types.Pointer); ok {
					cross = true
					t = pt.Elem()
				}
				s, ok := t.Underlying().(*types.Struct)
				if !ok {
					break
				}
				fv := s.Field(idx)
				st = append(st, step{kind: "field", crossing: cross, fieldKey: a.fieldKey(t, fv)})
				t = fv.Type()
			}
			return st
		}
		// qualified identifier
		if v, ok := info.ObjectOf(e.Sel).(*types.Var); ok && isGlobal(v) {
			return []step{{kind: "root", global: v}}
		}
		return []step{{kind: "root", fresh: true}}
	case *ast.IndexExpr:
		st := a.steps(fi, e.X)
		cross := false
		if t := info.TypeOf(e.X); t != nil {
			switch u := t.Underlying().(type) {
			case *types.Slice, *types.Map:
				cross = true
			case *types.Pointer:
				_ = u
				cross = true
			}
		}
		return append(st, step{kind: "index", crossing: cross})
	case *ast.StarExpr:
		return append(a.steps(fi, e.X), step{kind: "deref", crossing: true})
	case *ast.SliceExpr:
		st := a.steps(fi, e.X)
		if t := info.TypeOf(e.X); t != nil {
			if _, isPtr := t.Underlying().(*types.Pointer); isPtr {
				return append(st, step{kind: "deref", crossing: true})
			}
		}
		return append(st, step{kind: "slice"})
	case *ast.TypeAssertExpr:
		return a.steps(fi, e.X)
	case *ast.UnaryExpr:
		if e.Op == token.AND {
			if cl, ok := unparen(e.X).(*ast.CompositeLit); ok {
				_ = cl
				return []step{{kind: "root", fresh: true}}
			}
			return append(a.steps(fi, e.X), step{kind: "addr"})
		}
		if e.Op == token.ARROW {
			return []step{{kind: "root"}} // received value: unknown memory
		}
		return []step{{kind: "root", fresh: true}}
	case *ast.CompositeLit, *ast.FuncLit, *ast.BasicLit:
		return []step{{kind: "root", fresh: true}}
	case *ast.CallExpr:
		// conversion
		if tv, ok := info.Types[e.Fun]; ok && tv.IsType() && len(e.Args) == 1 {
			return a.steps(fi, e.Args[0])
		}
		if id, ok := unparen(e.Fun).(*ast.Ident); ok {
			if b, ok := info.ObjectOf(id).(*types.Builtin); ok {
				switch b.Name() {
				case "new", "make":
					return []step{{kind: "root", fresh: true}}
				case "append":
					if len(e.Args) > 0 {
						return a.steps(fi, e.Args[0])
					}
				}
				return []step{{kind: "root", fresh: true}}
			}
		}
		if f := a.staticCallee(fi, e); f != nil {
			if ci := a.fns[f]; ci != nil && len(ci.retFresh) >= 1 {
				if ci.retFresh[0] {
					return []step{{kind: "root", fresh: true}}
				}
				var keys []string
				for _, r := range ci.retRoots[0] {
					keys = append(keys, a.substParam(fi, e, f, r)...)
				}
				return []step{{kind: "root", keys: keys}}
			}
		}
		return []step{{kind: "root"}}
	}
	return []step{{kind: "root"}}
}

func unparen(e ast.Expr) ast.Expr {
	for {
		p, ok := e.(*ast.ParenExpr)
		if !ok {
			return e
		}
		e = p.X
	}
}

// rootsOf: the keys charged by a write to the location designated by steps st.
func (a *analyser) rootsOf(fi *fnInfo, st []step) []string {
	if len(st) == 0 {
		return nil
	}
	// "&x" followed by a dereference is x again
	var norm []step
	for _, s := range st {
		if s.kind == "deref" && len(norm) > 0 && norm[len(norm)-1].kind == "addr" {
			norm = norm[:len(norm)-1]
			continue
		}
		norm = append(norm, s)
	}
	st = norm
	root := st[0]
	last := 0 // the last crossing
	for i := 1; i < len(st); i++ {
		if st[i].crossing {
			last = i
		}
	}
	// what the root stands for
	var rootKeys []string
	switch {
	case root.global != nil:
	case root.fresh:
		return nil
	case root.local != nil:
		if last == 0 {
			return nil // a local variable of this function is written
		}
		if !fi.nonFresh[root.local] {
			if _, isParam := fi.params[root.local]; !isParam {
				return nil // memory allocated by this function
			}
		}
		for k := range fi.alias[root.local] {
			rootKeys = append(rootKeys, k)
		}
	default:
		if last == 0 {
			return nil
		}
		rootKeys = root.keys // result of a call: what the callee returns
	}
	// (1) typed: the first field at or after the last crossing contains the written cell
	typed := ""
	for i := last; i < len(st); i++ {
		if i > 0 && st[i].kind == "field" {
			typed = st[i].fieldKey
			break
		}
	}
	set := map[string]bool{}
	holderIsRoot := false
	if typed != "" {
		set[typed] = true
	} else if last > 0 {
		// (2) raw: an element / pointee is written; charged to whatever holds the reference
		h := last - 1
		for h > 0 && st[h].kind != "field" {
			h--
		}
		if h > 0 {
			set[st[h].fieldKey] = true
		} else {
			holderIsRoot = true
		}
	}
	if root.global != nil {
		set[globalKey(root.global)] = true // (3)
	}
	for _, k := range rootKeys {
		switch {
		case strings.HasPrefix(k, "g:"):
			set[k] = true
		case strings.HasPrefix(k, "p:"), strings.HasPrefix(k, "q:"):
			if holderIsRoot && strings.HasPrefix(k, "p:") {
				set[k] = true
			} else {
				set["q:"+k[2:]] = true // (4) the type based charge is made here; callers only learn about their roots
			}
		default:
			if holderIsRoot {
				set[k] = true
			}
		}
	}
	if root.local != nil {
		if pi := a.pureParam(fi, root.local); pi >= 0 {
			for k := range set {
				if strings.HasPrefix(k, "f:") {
					delete(set, k)
					set[fmt.Sprintf("d:%d:%s", pi, k)] = true
				}
			}
		}
	}
	keys := make([]string, 0, len(set))
	for k := range set {
		keys = append(keys, k)
	}
	sort.Strings(keys)
	return keys
}

// pureParam: v only ever stands for (memory reachable from) parameter i of a deferrable function.
func (a *analyser) pureParam(fi *fnInfo, v *types.Var) int {
	if !fi.deferrable {
		return -1
	}
	pi := -1
	for k := range fi.alias[v] {
		if !strings.HasPrefix(k, "p:") && !strings.HasPrefix(k, "q:") {
			return -1
		}
		var i int
		fmt.Sscanf(k[2:], "%d", &i)
		if pi >= 0 && pi != i {
			return -1
		}
		pi = i
	}
	return pi
}

// argInfo: is the actual argument e memory of the caller's own, or rooted at a parameter of a deferrable caller?
func (a *analyser) argInfo(fi *fnInfo, e ast.Expr) (fresh bool, paramRoot int) {
	st := a.steps(fi, e)
	if len(st) == 0 {
		return false, -1
	}
	root := st[0]
	switch {
	case root.fresh:
		return true, -1
	case root.local != nil:
		if _, isParam := fi.params[root.local]; !isParam && !fi.nonFresh[root.local] {
			return true, -1
		}
		return false, a.pureParam(fi, root.local)
	}
	return false, -1
}

// writeTo records a write to the location e.
func (a *analyser) writeTo(fi *fnInfo, e ast.Expr, how string) {
	for _, k := range a.rootsOf(fi, a.steps(fi, e)) {
		a.addEvent(fi, k, how)
	}
}

// throughKeys: what a write through the reference value e (pointer, slice, map, channel) is charged to.
func (a *analyser) throughKeys(fi *fnInfo, e ast.Expr) []string {
	st := append(a.steps(fi, e), step{kind: "deref", crossing: true})
	return a.rootsOf(fi, st)
}

func (a *analyser) addEvent(fi *fnInfo, key, how string) {
	if strings.HasPrefix(key, "d:") {
		rest := key[2:]
		j := strings.Index(rest, ":")
		var i int
		fmt.Sscanf(rest[:j], "%d", &i)
		a.addDeferred(fi, i, rest[j+1:], how)
		return
	}
	ev := event{key, how}
	if !fi.events[ev] {
		fi.events[ev] = true
		a.changed = true
	}
	if strings.HasPrefix(key, "p:") || strings.HasPrefix(key, "q:") {
		var i int
		fmt.Sscanf(key[2:], "%d", &i)
		if !fi.dirty[i] {
			fi.dirty[i] = true
			a.changed = true
		}
		if key[0] == 'p' && !fi.dirtyRaw[i] {
			fi.dirtyRaw[i] = true
			a.changed = true
		}
	}
}

func (a *analyser) addDeferred(fi *fnInfo, i int, key, how string) {
	if fi.deferred[i] == nil {
		fi.deferred[i] = map[string]string{}
	}
	if old, ok := fi.deferred[i][key]; !ok || how < old { // the smallest description: independent of the order of visits
		fi.deferred[i][key] = how
		a.changed = true
	}
}

// valueRoots: the roots the reference value e may point into (what a write of an element /
// of the pointee of e would be charged to).
func (a *analyser) valueRoots(fi *fnInfo, e ast.Expr) []string {
	t := fi.pkg.TypesInfo.TypeOf(e)
	if !refLike(t) {
		if _, isAddr := unparen(e).(*ast.UnaryExpr); !isAddr {
			return nil
		}
	}
	return a.throughKeys(fi, e)
}

// substParam: a root of the callee's result seen from the call site: "p:i" is replaced by the
// roots of the actual argument, "q:i" by the variables at the root of the actual argument.
func (a *analyser) substParam(fi *fnInfo, c *ast.CallExpr, callee *types.Func, r string) []string {
	if !strings.HasPrefix(r, "p:") && !strings.HasPrefix(r, "q:") {
		return []string{r}
	}
	var i int
	fmt.Sscanf(r[2:], "%d", &i)
	arg := a.actual(fi, c, callee, i)
	if arg == nil {
		return nil
	}
	keys := a.valueRootsAny(fi, arg)
	if r[0] == 'p' {
		return keys
	}
	var out []string
	for _, k := range keys {
		switch {
		case strings.HasPrefix(k, "g:"):
			out = append(out, k)
		case strings.HasPrefix(k, "p:"), strings.HasPrefix(k, "q:"):
			out = append(out, "q:"+k[2:])
		}
	}
	return out
}

// valueRootsAny: like valueRoots, but for a receiver that may be an addressable non-pointer operand.
func (a *analyser) valueRootsAny(fi *fnInfo, e ast.Expr) []string {
	t := fi.pkg.TypesInfo.TypeOf(e)
	if refLike(t) {
		return a.valueRoots(fi, e)
	}
	return a.rootsOf(fi, append(a.steps(fi, e), step{kind: "addr"}, step{kind: "deref", crossing: true}))
}

// actual: the argument expression bound to parameter i of callee (0 = receiver of a method).
func (a *analyser) actual(fi *fnInfo, c *ast.CallExpr, callee *types.Func, i int) ast.Expr {
	sig := callee.Type().(*types.Signature)
	if sig.Recv() != nil {
		if i == 0 {
			if se, ok := unparen(c.Fun).(*ast.SelectorExpr); ok {
				if sel, ok := fi.pkg.TypesInfo.Selections[se]; ok && sel.Kind() == types.MethodVal {
					return se.X
				}
			}
			// method expression T.m(recv, ...)
			if len(c.Args) > 0 {
				return c.Args[0]
			}
			return nil
		}
		i--
		if se, ok := unparen(c.Fun).(*ast.SelectorExpr); ok {
			if sel, ok := fi.pkg.TypesInfo.Selections[se]; ok && sel.Kind() == types.MethodExpr {
				i++
			}
		}
	}
	if i < len(c.Args) {
		return c.Args[i]
	}
	return nil
}

func (a *analyser) staticCallee(fi *fnInfo, c *ast.CallExpr) *types.Func {
	info := fi.pkg.TypesInfo
	switch f := unparen(c.Fun).(type) {
	case *ast.Ident:
		if fn, ok := info.ObjectOf(f).(*types.Func); ok {
			return fn
		}
	case *ast.SelectorExpr:
		if sel, ok := info.Selections[f]; ok {
			if fn, ok := sel.Obj().(*types.Func); ok {
				if _, isIface := sel.Recv().Underlying().(*types.Interface); isIface {
					return nil
				}
				return fn
			}
			return nil
		}
		if fn, ok := info.ObjectOf(f.Sel).(*types.Func); ok {
			return fn
		}
	case *ast.IndexExpr: // generic instantiation
		if id, ok := unparen(f.X).(*ast.Ident); ok {
			if fn, ok := info.ObjectOf(id).(*types.Func); ok {
				return fn
			}
		}
	}
	return nil
}

// pure external packages: their functions do not write through their arguments (the
// formatted-print family only reads; Sscan and friends are handled by the address-taking rule).
var purePkgs = map[string]bool{"fmt": true, "math": true, "strings": true, "strconv": true, "errors": true,
	"unicode": true, "unicode/utf8": true, "math/bits": true, "math/cmplx": true, "reflect": true, "log": true}

// ---- per function walk

func (a *analyser) assignAlias(fi *fnInfo, lhs *types.Var, rhs ast.Expr, resultIdx int) {
	if lhs == nil {
		return
	}
	fresh := a.isFreshExpr(fi, rhs, resultIdx)
	if !fresh && !fi.nonFresh[lhs] {
		fi.nonFresh[lhs] = true
		a.changed = true
	}
	var roots []string
	if c, ok := unparen(rhs).(*ast.CallExpr); ok && resultIdx > 0 {
		if f := a.staticCallee(fi, c); f != nil {
			if ci := a.fns[f]; ci != nil && resultIdx < len(ci.retRoots) {
				for _, r := range ci.retRoots[resultIdx] {
					roots = append(roots, a.substParam(fi, c, f, r)...)
				}
			}
		}
	} else {
		roots = a.valueRoots(fi, rhs)
	}
	for _, r := range roots {
		if fi.alias[lhs] == nil {
			fi.alias[lhs] = map[string]bool{}
		}
		if !fi.alias[lhs][r] {
			fi.alias[lhs][r] = true
			a.changed = true
		}
	}
}

func (a *analyser) isFreshExpr(fi *fnInfo, e ast.Expr, resultIdx int) bool {
	info := fi.pkg.TypesInfo
	if t := info.TypeOf(e); t != nil && resultIdx == 0 {
		if _, isTuple := t.(*types.Tuple); !isTuple && !refLike(t) {
			// a value copy; what it contains is charged by type when written through
			if _, isStruct := t.Underlying().(*types.Struct); !isStruct {
				if _, isArr := t.Underlying().(*types.Array); !isArr {
					return true
				}
			}
		}
	}
	switch e := unparen(e).(type) {
	case *ast.CompositeLit, *ast.FuncLit, *ast.BasicLit:
		return true
	case *ast.Ident:
		if e.Name == "nil" {
			return true
		}
		if v, ok := info.ObjectOf(e).(*types.Var); ok && !isGlobal(v) {
			if _, isParam := fi.params[v]; isParam {
				return false
			}
			return !fi.nonFresh[v]
		}
		return false
	case *ast.UnaryExpr:
		if e.Op == token.AND {
			if _, ok := unparen(e.X).(*ast.CompositeLit); ok {
				return true
			}
			if id, ok := unparen(e.X).(*ast.Ident); ok {
				if v, ok := info.ObjectOf(id).(*types.Var); ok && !isGlobal(v) {
					if _, isParam := fi.params[v]; !isParam {
						return true // address of a local variable of this function
					}
				}
			}
		}
		return false
	case *ast.CallExpr:
		if id, ok := unparen(e.Fun).(*ast.Ident); ok {
			if b, ok := info.ObjectOf(id).(*types.Builtin); ok {
				switch b.Name() {
				case "new", "make":
					return true
				case "append":
					return len(e.Args) > 0 && a.isFreshExpr(fi, e.Args[0], 0)
				}
				return true
			}
		}
		if tv, ok := info.Types[e.Fun]; ok && tv.IsType() && len(e.Args) == 1 {
			return a.isFreshExpr(fi, e.Args[0], 0)
		}
		if f := a.staticCallee(fi, e); f != nil {
			if ci := a.fns[f]; ci != nil && resultIdx < len(ci.retFresh) {
				return ci.retFresh[resultIdx]
			}
		}
		return false
	case *ast.SliceExpr:
		return a.isFreshExpr(fi, e.X, 0)
	}
	return false
}

func (a *analyser) localVar(fi *fnInfo, e ast.Expr) *types.Var {
	id, ok := unparen(e).(*ast.Ident)
	if !ok || id.Name == "_" {
		return nil
	}
	v, ok := fi.pkg.TypesInfo.ObjectOf(id).(*types.Var)
	if !ok || isGlobal(v) || v.IsField() {
		return nil
	}
	return v
}

func (a *analyser) walk(fi *fnInfo) {
	info := fi.pkg.TypesInfo
	for _, body := range fi.bodies {
		ast.Inspect(body, func(n ast.Node) bool {
			switch n := n.(type) {
			case *ast.AssignStmt:
				for i, l := range n.Lhs {
					if id, ok := unparen(l).(*ast.Ident); ok && id.Name == "_" {
						continue
					}
					// the location written
					if n.Tok != token.DEFINE || info.Defs[identOf(l)] == nil {
						a.writeTo(fi, l, "assign")
					}
					// aliases of a local
					if lv := a.localVar(fi, l); lv != nil {
						if len(n.Rhs) == len(n.Lhs) {
							a.assignAlias(fi, lv, n.Rhs[i], 0)
						} else if len(n.Rhs) == 1 {
							a.assignAlias(fi, lv, n.Rhs[0], i)
						}
					}
				}
			case *ast.ValueSpec:
				for i, id := range n.Names {
					lv, _ := info.Defs[id].(*types.Var)
					if lv == nil || isGlobal(lv) {
						continue
					}
					if len(n.Values) == len(n.Names) {
						a.assignAlias(fi, lv, n.Values[i], 0)
					} else if len(n.Values) == 1 {
						a.assignAlias(fi, lv, n.Values[0], i)
					}
				}
			case *ast.RangeStmt:
				if t := info.TypeOf(n.X); t != nil {
					if _, isChan := t.Underlying().(*types.Chan); isChan {
						for _, k := range a.throughKeys(fi, n.X) {
							a.addEvent(fi, k, "chan")
						}
					}
				}
				for _, l := range []ast.Expr{n.Key, n.Value} {
					if l == nil {
						continue
					}
					if n.Tok != token.DEFINE {
						a.writeTo(fi, l, "assign")
					}
					if lv := a.localVar(fi, l); lv != nil {
						if !fi.nonFresh[lv] {
							fi.nonFresh[lv] = true
							a.changed = true
						}
						if refLike(lv.Type()) {
							for _, r := range a.valueRootsAny(fi, n.X) {
								if fi.alias[lv] == nil {
									fi.alias[lv] = map[string]bool{}
								}
								if !fi.alias[lv][r] {
									fi.alias[lv][r] = true
									a.changed = true
								}
							}
						}
					}
				}
			case *ast.IncDecStmt:
				a.writeTo(fi, n.X, "assign")
			case *ast.SendStmt:
				for _, k := range a.throughKeys(fi, n.Chan) {
					a.addEvent(fi, k, "chan")
				}
			case *ast.UnaryExpr:
				switch n.Op {
				case token.AND:
					if _, ok := unparen(n.X).(*ast.CompositeLit); !ok {
						a.writeTo(fi, n.X, "addr")
					}
				case token.ARROW:
					for _, k := range a.throughKeys(fi, n.X) {
						a.addEvent(fi, k, "chan")
					}
				}
			case *ast.CallExpr:
				a.call(fi, n)
			case *ast.ReturnStmt:
				a.ret(fi, n)
			case *ast.Ident:
				if f, ok := info.Uses[n].(*types.Func); ok {
					fi.uses[f] = true
				}
			}
			return true
		})
	}
}

func identOf(e ast.Expr) *ast.Ident {
	id, _ := unparen(e).(*ast.Ident)
	if id == nil {
		return &ast.Ident{}
	}
	return id
}

func (a *analyser) ret(fi *fnInfo, r *ast.ReturnStmt) {
	if fi.obj == nil {
		return
	}
	// only returns of the function itself (not of nested function literals): checked by position
	if !fi.ownReturn(r) {
		return
	}
	n := len(fi.retFresh)
	if len(r.Results) == 0 {
		// named results
		sig := fi.obj.Type().(*types.Signature)
		for i := 0; i < sig.Results().Len() && i < n; i++ {
			v := sig.Results().At(i)
			if fi.nonFresh[v] && fi.retFresh[i] {
				fi.retFresh[i] = false
				a.changed = true
			}
			for k := range fi.alias[v] {
				a.addRet(fi, i, k)
			}
		}
		return
	}
	if len(r.Results) == n {
		for i, e := range r.Results {
			if fi.retFresh[i] && !a.isFreshExpr(fi, e, 0) {
				fi.retFresh[i] = false
				a.changed = true
			}
			for _, k := range a.valueRoots(fi, e) {
				a.addRet(fi, i, k)
			}
		}
		return
	}
	if len(r.Results) == 1 { // return f()
		if c, ok := unparen(r.Results[0]).(*ast.CallExpr); ok {
			if f := a.staticCallee(fi, c); f != nil {
				if ci := a.fns[f]; ci != nil {
					for i := 0; i < n; i++ {
						if i < len(ci.retFresh) && !ci.retFresh[i] && fi.retFresh[i] {
							fi.retFresh[i] = false
							a.changed = true
						}
						if i < len(ci.retRoots) {
							for _, k := range ci.retRoots[i] {
								for _, k2 := range a.substParam(fi, c, f, k) {
									a.addRet(fi, i, k2)
								}
							}
						}
					}
					return
				}
			}
		}
		for i := 0; i < n; i++ {
			if fi.retFresh[i] {
				fi.retFresh[i] = false
				a.changed = true
			}
		}
	}
}

func (a *analyser) addRet(fi *fnInfo, i int, k string) {
	for _, x := range fi.retRoots[i] {
		if x == k {
			return
		}
	}
	fi.retRoots[i] = append(fi.retRoots[i], k)
	sort.Strings(fi.retRoots[i])
	a.changed = true
}

func (fi *fnInfo) ownReturn(r *ast.ReturnStmt) bool {
	for _, b := range fi.bodies {
		own := false
		var stack []ast.Node
		ast.Inspect(b, func(n ast.Node) bool {
			if n == nil {
				stack = stack[:len(stack)-1]
				return true
			}
			if n == ast.Node(r) {
				own = true
				for _, s := range stack {
					if _, isLit := s.(*ast.FuncLit); isLit {
						own = false
					}
				}
			}
			stack = append(stack, n)
			return true
		})
		if own {
			return true
		}
	}
	return false
}

func (a *analyser) call(fi *fnInfo, c *ast.CallExpr) {
	info := fi.pkg.TypesInfo
	if tv, ok := info.Types[c.Fun]; ok && tv.IsType() {
		return // conversion
	}
	// builtins
	if id, ok := unparen(c.Fun).(*ast.Ident); ok {
		if b, ok := info.ObjectOf(id).(*types.Builtin); ok {
			switch b.Name() {
			case "delete", "clear", "close":
				if len(c.Args) > 0 {
					how := "assign"
					if b.Name() == "close" {
						how = "chan"
					}
					for _, k := range a.throughKeys(fi, c.Args[0]) {
						a.addEvent(fi, k, how)
					}
				}
			case "copy":
				if len(c.Args) > 0 {
					for _, k := range a.throughKeys(fi, c.Args[0]) {
						a.addEvent(fi, k, "assign")
					}
				}
			}
			return
		}
	}
	callee := a.staticCallee(fi, c)
	// receiver
	if se, ok := unparen(c.Fun).(*ast.SelectorExpr); ok {
		if sel, ok := info.Selections[se]; ok && sel.Kind() == types.MethodVal {
			recvT := sel.Recv()
			_, isIface := recvT.Underlying().(*types.Interface)
			switch {
			case isIface:
				// dynamic: implementations inside the module are analysed themselves (charged by type);
				// an interface of another package (io.Writer, rand.Source, hash.Hash) is assumed to
				// change the object behind it.  error/Stringer methods only read.
				m := sel.Obj().(*types.Func)
				if !inModule(m.Pkg()) && m.Name() != "Error" && m.Name() != "String" {
					for _, k := range a.throughKeys(fi, se.X) {
						a.addEvent(fi, k, "call "+funcNameShort(m))
					}
				}
			case callee != nil:
				sig := callee.Type().(*types.Signature)
				_, ptrRecv := sig.Recv().Type().(*types.Pointer)
				if inModule(callee.Pkg()) {
					var keys []string
					if ptrRecv {
						keys = a.valueRootsAny(fi, se.X)
					} else if refLike(info.TypeOf(se.X)) {
						keys = a.valueRoots(fi, se.X) // value receiver of reference kind (named slice / map types)
					}
					fresh, pr := a.argInfo(fi, se.X)
					fi.args = append(fi.args, callArg{callee, 0, keys, "call " + funcName(callee), fresh, pr})
				} else if ptrRecv {
					for _, k := range a.valueRootsAny(fi, se.X) {
						a.addEvent(fi, k, "call "+funcName(callee))
					}
				}
			}
		}
	}
	// arguments
	for i, arg := range c.Args {
		t := info.TypeOf(arg)
		if t == nil {
			continue
		}
		if _, isBasic := t.Underlying().(*types.Basic); isBasic {
			continue
		}
		if _, isFn := t.Underlying().(*types.Signature); isFn {
			continue
		}
		var keys []string
		if refLike(t) {
			keys = a.valueRoots(fi, arg)
		}
		if len(keys) == 0 && !(callee != nil && inModule(callee.Pkg())) {
			continue
		}
		switch {
		case callee != nil && inModule(callee.Pkg()):
			idx := i
			sig := callee.Type().(*types.Signature)
			if sig.Recv() != nil {
				idx++
				if se, ok := unparen(c.Fun).(*ast.SelectorExpr); ok {
					if sel, ok := info.Selections[se]; ok && sel.Kind() == types.MethodExpr {
						idx--
					}
				}
			}
			np := sig.Params().Len()
			if sig.Recv() != nil {
				np++
			}
			if idx >= np {
				idx = np - 1
			}
			fresh, pr := a.argInfo(fi, arg)
			fi.args = append(fi.args, callArg{callee, idx, keys, "arg " + funcName(callee), fresh, pr})
		case callee != nil:
			p := ""
			if callee.Pkg() != nil {
				p = callee.Pkg().Path()
			}
			if purePkgs[p] {
				continue
			}
			// an interface argument that is a module interface or an error is only read by the library
			if _, isI := t.Underlying().(*types.Interface); isI {
				continue
			}
			for _, k := range keys {
				a.addEvent(fi, k, "arg "+funcName(callee))
			}
		default:
			// call through a function value or an interface method
			if _, isI := t.Underlying().(*types.Interface); isI {
				continue
			}
			if se, ok := unparen(c.Fun).(*ast.SelectorExpr); ok {
				if sel, ok := info.Selections[se]; ok && sel.Kind() == types.MethodVal {
					if m, ok := sel.Obj().(*types.Func); ok && inModule(m.Pkg()) {
						// a module interface method: every implementation is analysed; charge by parameter
						a.ifaceArg(fi, m, i, keys)
						continue
					}
				}
			}
			for _, k := range keys {
				a.addEvent(fi, k, "arg func value")
			}
		}
	}
}

func funcNameShort(m *types.Func) string {
	if m.Pkg() != nil {
		return m.Pkg().Path() + "." + m.Name()
	}
	return m.Name()
}

// ifaceArg: an alias handed to a method of a module interface: charged when any module
// method of that name writes through the parameter.
func (a *analyser) ifaceArg(fi *fnInfo, m *types.Func, i int, keys []string) {
	for f, ci := range a.fns {
		if f.Name() != m.Name() || ci.obj == nil {
			continue
		}
		sig := f.Type().(*types.Signature)
		if sig.Recv() == nil || sig.Params().Len() != m.Type().(*types.Signature).Params().Len() {
			continue
		}
		fi.args = append(fi.args, callArg{f, i + 1, keys, "arg " + funcName(f), false, -1})
	}
}

// ---------------------------------------------------------------------------------------------

// Analyse loads the tree at repo and computes its inventory.
func Analyse(repo string) (*Inventory, error) {
	cfg := &packages.Config{
		Mode: packages.NeedName | packages.NeedFiles | packages.NeedCompiledGoFiles | packages.NeedImports |
			packages.NeedDeps | packages.NeedTypes | packages.NeedSyntax | packages.NeedTypesInfo | packages.NeedTypesSizes,
		Dir: repo, Env: os.Environ(),
	}
	pkgs, err := packages.Load(cfg, Patterns...)
	if err != nil {
		return nil, fmt.Errorf("stategen: go/packages: %v", err)
	}
	var errs []string
	var roots []*packages.Package
	// the packages named by Patterns and every package of the module they import (a new internal
	// package holding state is part of the inventory; the expected side treats a package it does
	// not know as in scope of every property)
	packages.Visit(pkgs, nil, func(p *packages.Package) {
		if !inMod(p.PkgPath) {
			return
		}
		for _, e := range p.Errors {
			errs = append(errs, e.Error())
		}
		if p.Types != nil && p.TypesInfo != nil && len(p.Syntax) > 0 {
			roots = append(roots, p)
		}
	})
	if len(errs) > 0 {
		return nil, fmt.Errorf("stategen: the source tree does not type-check: %s", strings.Join(errs, "; "))
	}
	if len(roots) == 0 {
		return nil, fmt.Errorf("stategen: no packages found under %s", repo)
	}
	sort.Slice(roots, func(i, j int) bool { return roots[i].PkgPath < roots[j].PkgPath })
	a := &analyser{pkgs: roots, fns: map[*types.Func]*fnInfo{}, fieldOwner: map[*types.Var]string{}}
	inv := &Inventory{}

	// (b) struct types and field owners; (a) package-level vars
	type gv struct {
		v       *types.Var
		init    bool
		file    string
		closure bool // function-typed and initialised by an expression that contains a function literal
	}
	var globals []gv
	structIdx := map[string]int{}
	for _, p := range roots {
		scope := p.Types.Scope()
		for _, name := range scope.Names() {
			tn, ok := scope.Lookup(name).(*types.TypeName)
			if !ok || tn.IsAlias() {
				continue
			}
			st, ok := tn.Type().Underlying().(*types.Struct)
			if !ok {
				continue
			}
			s := Struct{Pkg: qual(p.Types), Name: name, File: relFile(p, tn.Pos(), repo)}
			for i := 0; i < st.NumFields(); i++ {
				f := st.Field(i)
				s.Fields = append(s.Fields, Field{f.Name(), typeStr(f.Type())})
				a.fieldOwner[f] = s.Pkg + "." + name
			}
			s.Refs = refsOf(st)
			structIdx[s.Pkg+"."+name] = len(inv.Structs)
			inv.Structs = append(inv.Structs, s)
		}
		for _, file := range p.Syntax {
			for _, d := range file.Decls {
				gd, ok := d.(*ast.GenDecl)
				if !ok || gd.Tok != token.VAR {
					continue
				}
				for _, sp := range gd.Specs {
					vs := sp.(*ast.ValueSpec)
					for _, id := range vs.Names {
						if id.Name == "_" {
							continue
						}
						if v, ok := p.TypesInfo.Defs[id].(*types.Var); ok {
							cl := false
							if _, isFn := v.Type().Underlying().(*types.Signature); isFn {
								for _, val := range vs.Values {
									ast.Inspect(val, func(n ast.Node) bool {
										if _, ok := n.(*ast.FuncLit); ok {
											cl = true
										}
										return true
									})
								}
							}
							globals = append(globals, gv{v, len(vs.Values) > 0, relFile(p, id.Pos(), repo), cl})
						}
					}
				}
			}
		}
	}

	// functions
	for _, p := range roots {
		initFn := &fnInfo{name: qual(p.Types) + ".init", pkg: p, entry: true}
		for _, file := range p.Syntax {
			for _, d := range file.Decls {
				switch d := d.(type) {
				case *ast.FuncDecl:
					if d.Body == nil {
						continue
					}
					obj, _ := p.TypesInfo.Defs[d.Name].(*types.Func)
					if obj == nil {
						continue
					}
					if d.Name.Name == "init" && d.Recv == nil {
						initFn.bodies = append(initFn.bodies, d.Body)
						continue
					}
					fi := &fnInfo{name: funcName(obj), obj: obj, pkg: p, bodies: []ast.Node{d.Body}}
					a.fns[obj] = fi
					a.all = append(a.all, fi)
				case *ast.GenDecl:
					if d.Tok != token.VAR {
						continue
					}
					for _, sp := range d.Specs {
						for _, v := range sp.(*ast.ValueSpec).Values {
							initFn.bodies = append(initFn.bodies, v)
						}
					}
				}
			}
		}
		a.all = append(a.all, initFn)
	}
	for _, fi := range a.all {
		fi.params = map[*types.Var]int{}
		fi.events = map[event]bool{}
		fi.uses = map[*types.Func]bool{}
		fi.dirty = map[int]bool{}
		fi.dirtyRaw = map[int]bool{}
		fi.deferred = map[int]map[string]string{}
		fi.alias = map[*types.Var]map[string]bool{}
		fi.nonFresh = map[*types.Var]bool{}
		if fi.obj != nil {
			sig := fi.obj.Type().(*types.Signature)
			k := 0
			if r := sig.Recv(); r != nil {
				fi.params[r] = 0
				k = 1
			}
			for i := 0; i < sig.Params().Len(); i++ {
				fi.params[sig.Params().At(i)] = k + i
			}
			for v, i := range fi.params {
				fi.alias[v] = map[string]bool{fmt.Sprintf("p:%d", i): true}
				fi.nonFresh[v] = true
			}
			n := sig.Results().Len()
			fi.retRoots = make([][]string, n)
			fi.retFresh = make([]bool, n)
			for i := range fi.retFresh {
				fi.retFresh[i] = true
			}
		}
	}
	// parameters of function literals are parameters of unknown callers: never fresh
	for _, fi := range a.all {
		for _, b := range fi.bodies {
			ast.Inspect(b, func(n ast.Node) bool {
				if fl, ok := n.(*ast.FuncLit); ok && fl.Type.Params != nil {
					for _, f := range fl.Type.Params.List {
						for _, id := range f.Names {
							if v, ok := fi.pkg.TypesInfo.Defs[id].(*types.Var); ok {
								fi.nonFresh[v] = true
							}
						}
					}
				}
				return true
			})
		}
	}

	// internal helpers: unexported, every reference is the callee position of a call, not a method of a
	// module interface (those may be called dynamically)
	ifaceMethods := map[string]bool{}
	for _, p := range roots {
		scope := p.Types.Scope()
		for _, name := range scope.Names() {
			if tn, ok := scope.Lookup(name).(*types.TypeName); ok {
				if it, ok := tn.Type().Underlying().(*types.Interface); ok {
					for i := 0; i < it.NumMethods(); i++ {
						ifaceMethods[it.Method(i).Name()] = true
					}
				}
			}
		}
	}
	valueUse := map[*types.Func]bool{}
	called := map[*types.Func]bool{}
	for _, fi := range a.all {
		info := fi.pkg.TypesInfo
		for _, b := range fi.bodies {
			calleeIdent := map[*ast.Ident]bool{}
			ast.Inspect(b, func(n ast.Node) bool {
				switch n := n.(type) {
				case *ast.CallExpr:
					switch f := unparen(n.Fun).(type) {
					case *ast.Ident:
						calleeIdent[f] = true
					case *ast.SelectorExpr:
						calleeIdent[f.Sel] = true
					}
				case *ast.GoStmt:
					// go f(x): runs after the caller may have published x
					switch f := unparen(n.Call.Fun).(type) {
					case *ast.Ident:
						if fn, ok := info.Uses[f].(*types.Func); ok {
							valueUse[fn] = true
						}
					case *ast.SelectorExpr:
						if fn, ok := info.Uses[f.Sel].(*types.Func); ok {
							valueUse[fn] = true
						}
					}
				case *ast.Ident:
					if fn, ok := info.Uses[n].(*types.Func); ok {
						if calleeIdent[n] {
							called[fn] = true
						} else {
							valueUse[fn] = true
						}
					}
				}
				return true
			})
		}
	}
	for _, fi := range a.all {
		if fi.obj == nil || fi.obj.Exported() || valueUse[fi.obj] || !called[fi.obj] {
			continue
		}
		if fi.obj.Type().(*types.Signature).Recv() != nil && ifaceMethods[fi.obj.Name()] {
			continue
		}
		fi.deferrable = true
	}

	// fixpoint: aliases, freshness, results, written-through parameters
	for iter := 0; ; iter++ {
		a.changed = false
		for _, fi := range a.all {
			fi.args = fi.args[:0]
			a.walk(fi)
		}
		for _, fi := range a.all {
			for _, ca := range fi.args {
				ci := a.fns[ca.callee]
				if ci == nil {
					continue
				}
				if !ca.fresh {
					for k, how := range ci.deferred[ca.idx] {
						if ca.paramRoot >= 0 {
							a.addDeferred(fi, ca.paramRoot, k, how)
						} else {
							a.addEvent(fi, k, how)
						}
					}
				}
				if !ci.dirty[ca.idx] {
					continue
				}
				for _, k := range ca.keys {
					switch {
					case ci.dirtyRaw[ca.idx] || strings.HasPrefix(k, "g:"):
						a.addEvent(fi, k, ca.how)
					case strings.HasPrefix(k, "p:") || strings.HasPrefix(k, "q:"):
						a.addEvent(fi, "q:"+k[2:], ca.how)
					}
				}
			}
		}
		if !a.changed {
			break
		}
		if iter > 60 {
			return nil, fmt.Errorf("stategen: no fixpoint after 60 rounds")
		}
	}

	// entry points: exported names, init, and functions nothing refers to
	referred := map[*types.Func]bool{}
	for _, fi := range a.all {
		for f := range fi.uses {
			if fi.obj != f {
				referred[f] = true
			}
		}
	}
	for _, fi := range a.all {
		if fi.obj == nil || fi.obj.Exported() || !referred[fi.obj] {
			fi.entry = true
		}
	}
	// writers of a key = the nearest entry points from which a writing function is reachable through static references
	callers := map[*fnInfo][]*fnInfo{}
	for _, fi := range a.all {
		for f := range fi.uses {
			if ci := a.fns[f]; ci != nil && ci != fi {
				callers[ci] = append(callers[ci], fi)
			}
		}
	}
	entriesOf := func(fi *fnInfo) []string {
		seen := map[*fnInfo]bool{fi: true}
		todo := []*fnInfo{fi}
		set := map[string]bool{}
		for len(todo) > 0 {
			x := todo[len(todo)-1]
			todo = todo[:len(todo)-1]
			if x.entry {
				// the nearest entry points only: callers of an entry point are not charged again, so
				// new users of an exported mutator do not change the inventory
				set[x.name] = true
				continue
			}
			for _, c := range callers[x] {
				if !seen[c] {
					seen[c] = true
					todo = append(todo, c)
				}
			}
		}
		out := make([]string, 0, len(set))
		for s := range set {
			out = append(out, s)
		}
		sort.Strings(out)
		return out
	}
	writers := map[string]map[string]bool{}
	hows := map[string]map[string]bool{}
	for _, fi := range a.all {
		if len(fi.events) == 0 {
			continue
		}
		var ents []string
		for ev := range fi.events {
			if strings.HasPrefix(ev.key, "p:") || strings.HasPrefix(ev.key, "q:") {
				continue
			}
			if ents == nil {
				ents = entriesOf(fi)
			}
			if writers[ev.key] == nil {
				writers[ev.key] = map[string]bool{}
				hows[ev.key] = map[string]bool{}
			}
			for _, e := range ents {
				writers[ev.key][e] = true
			}
			hows[ev.key][ev.how] = true
		}
	}
	setList := func(m map[string]bool) []string {
		out := make([]string, 0, len(m))
		for s := range m {
			out = append(out, s)
		}
		sort.Strings(out)
		return out
	}
	for _, g := range globals {
		k := globalKey(g.v)
		v := Var{Pkg: qual(g.v.Pkg()), Name: g.v.Name(), Type: typeStr(g.v.Type()), Init: g.init, File: g.file, Refs: refsOf(g.v.Type())}
		if w, ok := writers[k]; ok {
			v.Mutated = true
			v.Writers = setList(w)
			v.How = setList(hows[k])
		}
		if g.closure {
			// a function value built by a function literal may carry captured variables from call to call
			v.Mutated = true
			v.Writers = append(v.Writers, v.Pkg+".init")
			sort.Strings(v.Writers)
			v.How = append(v.How, "closure state")
		}
		inv.Vars = append(inv.Vars, v)
	}
	for k, w := range writers {
		if !strings.HasPrefix(k, "f:") {
			continue
		}
		rest := k[2:]
		i := strings.LastIndex(rest, ".")
		if i < 0 {
			continue
		}
		if si, ok := structIdx[rest[:i]]; ok {
			inv.Structs[si].Mut = append(inv.Structs[si].Mut, MutField{rest[i+1:], setList(w), setList(hows[k])})
		}
	}
	for i := range inv.Structs {
		m := inv.Structs[i].Mut
		sort.Slice(m, func(x, y int) bool { return m[x].Field < m[y].Field })
	}
	sort.Slice(inv.Vars, func(i, j int) bool {
		if inv.Vars[i].Pkg != inv.Vars[j].Pkg {
			return inv.Vars[i].Pkg < inv.Vars[j].Pkg
		}
		return inv.Vars[i].Name < inv.Vars[j].Name
	})
	sort.Slice(inv.Structs, func(i, j int) bool {
		if inv.Structs[i].Pkg != inv.Structs[j].Pkg {
			return inv.Structs[i].Pkg < inv.Structs[j].Pkg
		}
		return inv.Structs[i].Name < inv.Structs[j].Name
	})
	return inv, nil
}

// refsOf: the module struct types reachable from t through fields, pointers, slices, arrays,
// maps and channels (not through interfaces or function types).
func refsOf(t types.Type) []string {
	set := map[string]bool{}
	seen := map[types.Type]bool{}
	var walk func(t types.Type)
	walk = func(t types.Type) {
		if t == nil || seen[t] {
			return
		}
		seen[t] = true
		if nt, ok := t.(*types.Named); ok {
			if ta := nt.TypeArgs(); ta != nil {
				for i := 0; i < ta.Len(); i++ {
					walk(ta.At(i))
				}
			}
			if o := nt.Obj(); inModule(o.Pkg()) {
				if _, isS := nt.Underlying().(*types.Struct); isS {
					set[qual(o.Pkg())+"."+o.Name()] = true
				}
			} else if nt.Obj().Pkg() != nil {
				return // a type of another module / the standard library
			}
		}
		switch u := t.Underlying().(type) {
		case *types.Struct:
			for i := 0; i < u.NumFields(); i++ {
				walk(u.Field(i).Type())
			}
		case *types.Pointer:
			walk(u.Elem())
		case *types.Slice:
			walk(u.Elem())
		case *types.Array:
			walk(u.Elem())
		case *types.Chan:
			walk(u.Elem())
		case *types.Map:
			walk(u.Key())
			walk(u.Elem())
		}
	}
	walk(t)
	out := make([]string, 0, len(set))
	for k := range set {
		out = append(out, k)
	}
	sort.Strings(out)
	return out
}

func inMod(path string) bool { return path == module || strings.HasPrefix(path, module+"/") }

func relFile(p *packages.Package, pos token.Pos, repo string) string {
	f := p.Fset.Position(pos).Filename
	if i := strings.Index(f, "/"+shortPath(p.PkgPath)+"/"); i >= 0 {
		return f[i+1:]
	}
	return f
}

// ---------------------------------------------------------------------------------------------

// the check driver scans every .v file (strings and comments included) for axiom-like keywords
var forbidden = regexp.MustCompile(`\b(Admitted|admit|Axioms?|Parameters?|Conjectures?|Obligations|bypass_check|Unset|Hypothes[ei]s|Variables?)\b`)

// Mask makes a Go identifier / type string safe for the forbidden-word scan.
func Mask(s string) string {
	return forbidden.ReplaceAllStringFunc(s, func(w string) string { return w[:1] + "_" + w[1:] })
}

// comment text: Coq comments nest and lex strings
func ccomment(s string) string {
	s = strings.ReplaceAll(s, "(*", "(ptr ")
	s = strings.ReplaceAll(s, "*)", "* )")
	s = strings.ReplaceAll(s, "\"", "'")
	return Mask(s)
}

func cstr(s string) string {
	return "\"" + strings.ReplaceAll(Mask(s), "\"", "\"\"") + "\""
}

func clist(xs []string) string {
	q := make([]string, len(xs))
	for i, x := range xs {
		q[i] = cstr(x)
	}
	return "[" + strings.Join(q, "; ") + "]"
}

func cbool(b bool) string {
	if b {
		return "true"
	}
	return "false"
}

// CoqVar renders a var as a term of Sdfx.Sys.StateInvDefs.gvar.
func CoqVar(v Var) string {
	return fmt.Sprintf("GVar %s %s %s %s %s %s", cstr(v.Pkg), cstr(v.Name), cstr(v.Type), cbool(v.Init), cbool(v.Mutated), clist(v.Writers))
}

// CoqStruct renders a struct as a term of Sdfx.Sys.StateInvDefs.sstruct.
func CoqStruct(s Struct, indent string) string {
	var b strings.Builder
	fmt.Fprintf(&b, "SStruct %s %s\n%s  [", cstr(s.Pkg), cstr(s.Name), indent)
	for i, f := range s.Fields {
		if i > 0 {
			b.WriteString("; ")
		}
		fmt.Fprintf(&b, "(%s, %s)", cstr(f.Name), cstr(f.Type))
	}
	fmt.Fprintf(&b, "]\n%s  [", indent)
	for i, m := range s.Mut {
		if i > 0 {
			b.WriteString(";\n" + indent + "   ")
		}
		fmt.Fprintf(&b, "(%s, %s)", cstr(m.Field), clist(m.Writers))
	}
	b.WriteString("]")
	return b.String()
}

// Coq renders coq/Generated/StateInv.v.
func (inv *Inventory) Coq() []byte {
	var b strings.Builder
	b.WriteString("(* GENERATED by harness/stategen from the source tree under analysis - do not edit. *)\n")
	b.WriteString("From Coq Require Import List String.\nFrom Sdfx Require Import Sys.StateInvDefs.\nImport ListNotations.\nLocal Open Scope string_scope.\n\n")
	b.WriteString("Definition gen_vars : list gvar := [\n")
	for i, v := range inv.Vars {
		b.WriteString("  " + CoqVar(v))
		if i < len(inv.Vars)-1 {
			b.WriteString(";")
		}
		if len(v.How) > 0 {
			b.WriteString(" (* " + ccomment(strings.Join(v.How, ", ")) + " *)")
		}
		b.WriteString("\n")
	}
	b.WriteString("].\n\nDefinition gen_structs : list sstruct := [\n")
	for i, s := range inv.Structs {
		b.WriteString("  " + CoqStruct(s, "  "))
		if i < len(inv.Structs)-1 {
			b.WriteString(";")
		}
		for _, m := range s.Mut {
			b.WriteString("\n    (* " + ccomment(m.Field+": "+strings.Join(m.How, ", ")) + " *)")
		}
		b.WriteString("\n")
	}
	b.WriteString("].\n")
	return []byte(b.String())
}

// Gen is the kit.GenFn appended to the generator list of every per-property binary.
func Gen(c *kit.Ctx) (string, []byte, error) { return Generate(c.Repo) }

// Generate renders coq/Generated/StateInv.v for the tree at repo.
func Generate(repo string) (string, []byte, error) {
	inv, err := Analyse(repo)
	if err != nil {
		return "", nil, err
	}
	if len(inv.Structs) == 0 {
		return "", nil, fmt.Errorf("stategen: no struct types found under %s", repo)
	}
	return "StateInv.v", inv.Coq(), nil
}

// SpecSkeleton is defined in spec.go.
