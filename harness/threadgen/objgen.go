package threadgen

// Third output of this translator: coq/Generated/ObjThread.v - the construction of obj.Nut and
// obj.Bolt (obj/nut.go, obj/bolt.go of the CURRENT source tree) as skeleton terms (Sdf/ObjSkel.v):
// which thread profile (radius expression, pitch, external or internal), which Screw3D (length,
// taper, pitch, starts), cut from / joined with which bodies, under which parameter checks.  The
// arithmetic (t.Radius + k.Tolerance, the hex head height, the thread length and offset) is
// translated like the rest; the other shape constructors (HexHead3D, KnurledHead3D, Cylinder3D,
// ChamferedCylinder) are opaque nodes that keep their arguments.  Calls that return (shape, error)
// are taken to succeed: the `if err != nil { return nil, err }` that follows is the only use of
// their error.  Sdf/ObjMate.v proves the mating statement for these constructions.

import (
	"fmt"
	"go/ast"
	"strings"

	"verifharness/kit"
)

// returnsShape: func(...) SDF3 | (SDF3, error) | SDF2 | (SDF2, error)
func returnsShape(fd *ast.FuncDecl) bool {
	if fd == nil || fd.Type.Results == nil {
		return false
	}
	rs := paramList(fd.Type.Results)
	if len(rs) == 0 || len(rs) > 2 {
		return false
	}
	t := strings.TrimPrefix(rs[0][1], "sdf.")
	if t != "SDF3" && t != "SDF2" {
		return false
	}
	return len(rs) == 1 || rs[1][1] == "error"
}

func skList(ss []string) string { return "[" + strings.Join(ss, "; ") + "]" }

// shapeCall: a call of a shape constructor in obj mode -> skeleton term
func (in *interp) shapeCall(e *ast.CallExpr, name string, fd *ast.FuncDecl, fr *frame) (*val, error) {
	short := strings.TrimPrefix(name, "sdf.")
	// functions of package sdf that are not shape constructors
	switch name {
	case "sdf.ErrMsg":
		return &val{k: kErr}, nil
	case "sdf.ThreadLookup":
		if len(e.Args) != 1 {
			return nil, in.errf(e, "ThreadLookup()")
		}
		if _, err := in.eval(e.Args[0], fr); err != nil {
			return nil, err
		}
		if len(in.extraBinders) == 0 {
			in.reserve("t")
			in.extraBinders = append(in.extraBinders, binder{"t", "ThreadParameters O"})
		}
		t := &val{k: kPtr, cell: &cell{v: &val{k: kRec, rec: &record{typ: "ThreadParameters", whole: "t", f: map[string]*val{}}}}}
		return &val{k: kTuple, elems: []*val{t, {k: kNil}}}, nil
	case "sdf.Translate3d":
		if len(e.Args) != 1 {
			return nil, in.errf(e, "Translate3d()")
		}
		v, err := in.eval(e.Args[0], fr)
		if err != nil {
			return nil, err
		}
		if v.k != kRec || v.rec.typ != "v3.Vec" {
			return nil, in.errf(e, "Translate3d of a value that is not a v3.Vec")
		}
		s, err := in.recTerm(e, v.rec)
		if err != nil {
			return nil, err
		}
		return &val{k: kMat, s: s}, nil
	}
	if fd == nil {
		return nil, in.errf(e, "%s: not a function the translator knows", name)
	}
	if !returnsShape(fd) {
		if strings.HasPrefix(name, "sdf.") {
			saved := in.p
			in.p = in.ext["sdf"]
			defer func() { in.p = saved }()
			var avals []*val
			in.p = saved
			for _, a := range e.Args {
				v, err := in.eval(a, fr)
				if err != nil {
					return nil, err
				}
				avals = append(avals, v)
			}
			in.p = in.ext["sdf"]
			return in.callFuncVals(e, fd, nil, e.Args, avals)
		}
		return nil, in.errf(e, "%s: not a shape constructor", name)
	}
	var avals []*val
	for _, a := range e.Args {
		v, err := in.eval(a, fr)
		if err != nil {
			return nil, err
		}
		avals = append(avals, v)
	}
	rs := paramList(fd.Type.Results)
	is2 := strings.TrimPrefix(rs[0][1], "sdf.") == "SDF2"
	wrap := func(term string) *val {
		v := &val{k: kSk, s: term, sk2: is2}
		if len(rs) == 2 {
			return &val{k: kTuple, elems: []*val{v, {k: kNil}}}
		}
		return v
	}
	num := func(i int) (string, error) { return in.toFloat(e.Args[i], avals[i]) }
	sk := func(i int, want2 bool) (string, error) {
		v := avals[i]
		if v.k == kNil && !want2 {
			return "SkNil", nil
		}
		if v.k != kSk || v.sk2 != want2 {
			return "", in.errf(e.Args[i], "argument %d of %s is not a shape the translator built", i+1, name)
		}
		return v.s, nil
	}
	switch name {
	case "sdf.ISOThread":
		if len(avals) != 3 || avals[2].k != kBool {
			return nil, in.errf(e, "ISOThread(radius, pitch, external)")
		}
		r, err := num(0)
		if err != nil {
			return nil, err
		}
		p, err := num(1)
		if err != nil {
			return nil, err
		}
		return wrap(fmt.Sprintf("(SkISOThread %s %s %s)", r, p, avals[2].s)), nil
	case "sdf.Screw3D":
		if len(avals) != 5 {
			return nil, in.errf(e, "Screw3D(thread, length, taper, pitch, starts)")
		}
		th, err := sk(0, true)
		if err != nil {
			return nil, err
		}
		var ns [3]string
		for i := 0; i < 3; i++ {
			if ns[i], err = num(i + 1); err != nil {
				return nil, err
			}
		}
		st, err := in.toInt(e.Args[4], avals[4])
		if err != nil {
			return nil, err
		}
		return wrap(fmt.Sprintf("(SkScrew3D %s %s %s %s %s)", th, ns[0], ns[1], ns[2], st)), nil
	case "sdf.Difference3D":
		if len(avals) != 2 {
			return nil, in.errf(e, "Difference3D(a, b)")
		}
		a, err := sk(0, false)
		if err != nil {
			return nil, err
		}
		b, err := sk(1, false)
		if err != nil {
			return nil, err
		}
		return wrap(fmt.Sprintf("(SkDifference3D %s %s)", a, b)), nil
	case "sdf.Union3D":
		var parts []string
		for i := range avals {
			a, err := sk(i, false)
			if err != nil {
				return nil, err
			}
			parts = append(parts, a)
		}
		return wrap("(SkUnion3D " + skList(parts) + ")"), nil
	case "sdf.Transform3D":
		if len(avals) != 2 || avals[1].k != kMat {
			return nil, in.errf(e, "Transform3D(a, Translate3d(v)) is the only transformation the translator understands")
		}
		a, err := sk(0, false)
		if err != nil {
			return nil, err
		}
		return wrap(fmt.Sprintf("(SkTranslate3D %s %s)", a, avals[1].s)), nil
	}
	// any other constructor: an opaque node with its numeric, string and shape arguments
	var nums, strs, subs []string
	for i, v := range avals {
		switch v.k {
		case kFloat, kConst:
			s, err := num(i)
			if err != nil {
				return nil, err
			}
			nums = append(nums, s)
		case kInt:
			nums = append(nums, "(ofZ O "+v.s+")")
		case kStr:
			strs = append(strs, v.s)
		case kSk:
			if v.sk2 {
				return nil, in.errf(e.Args[i], "a 2D profile as argument of %s", name)
			}
			subs = append(subs, v.s)
		case kNil:
			subs = append(subs, "SkNil")
		default:
			return nil, in.errf(e.Args[i], "argument %d of %s: not a number, a string or a shape", i+1, name)
		}
	}
	if is2 {
		return nil, in.errf(e, "%s: a 2D profile other than ISOThread", name)
	}
	return wrap(fmt.Sprintf("(SkCall3 %s %s %s %s)", coqString(short), skList(nums), skList(strs), skList(subs))), nil
}

// genObj translates obj.<fn>(k *<Parms>) (sdf.SDF3, error)
func genObj(obj, sdf *pkg, fn, defName string) (string, error) {
	fd, ok := obj.funcs[fn]
	if !ok {
		return "", fmt.Errorf("threadgen: func %s not found in package obj", fn)
	}
	in := newInterp(obj)
	in.objMode = true
	in.ext = map[string]*pkg{"sdf": sdf}
	fr := newFrame(fd)
	params := paramList(fd.Type.Params)
	if len(params) != 1 || !strings.HasPrefix(params[0][1], "*") {
		return "", fmt.Errorf("%s: %s: expected one parameter, a pointer to the parameter struct", obj.pos(fd), fn)
	}
	pn, tn := params[0][0], strings.TrimPrefix(params[0][1], "*")
	info, err := obj.structInfo(tn)
	if err != nil {
		return "", err
	}
	rec := &record{typ: tn, f: map[string]*val{}}
	var bs []binder
	for _, f := range usedFields(fd, pn, info) {
		cn := coqIdent(pn) + "_" + f
		in.reserve(cn)
		switch info.kinds[f] {
		case "float64":
			rec.f[f] = &val{k: kFloat, s: cn}
			bs = append(bs, binder{cn, "T O"})
		case "string":
			rec.f[f] = &val{k: kStr, s: cn}
			bs = append(bs, binder{cn, "string"})
		default:
			return "", fmt.Errorf("%s: %s.%s has type %s", obj.pos(fd), tn, f, info.kinds[f])
		}
	}
	fr.vars[pn] = &cell{v: &val{k: kPtr, cell: &cell{v: &val{k: kRec, rec: rec}}}}
	t, err := in.blockTerm(fd.Body.List, fr, "    ")
	if err != nil {
		return "", err
	}
	if len(in.guards) > 0 || len(in.stores) > 0 {
		return "", fmt.Errorf("%s: %s has effects", obj.pos(fd), fn)
	}
	bs = append(in.extraBinders, bs...)
	return fmt.Sprintf("  (* %s: func %s *)\n  Definition %s %s : option (Sk3 O) :=\n%s.\n", obj.rel(fd), fn, defName, bindersText(bs), t), nil
}

// GenerateObj produces the text of coq/Generated/ObjThread.v.
func GenerateObj(repo string) ([]byte, error) {
	sdf, err := loadPkgDir(repo, "sdf")
	if err != nil {
		return nil, err
	}
	obj, err := loadPkgDir(repo, "obj")
	if err != nil {
		return nil, err
	}
	var b strings.Builder
	b.WriteString("(* GENERATED by harness/threadgen from obj/nut.go, obj/bolt.go and sdf/screw.go of the current source tree - do not edit.\n")
	b.WriteString("   The construction of obj.Nut and obj.Bolt as skeleton terms (Sdf/ObjSkel.v); t is the *ThreadParameters\n")
	b.WriteString("   sdf.ThreadLookup(k.Thread) returned, k_F the field F of the parameter struct; None = an error is returned.\n")
	b.WriteString("   Calls that return (shape, error) are taken to succeed.  Sdf/ObjMate.v proves the mating statement. *)\n")
	b.WriteString("From Coq Require Import ZArith List Bool String.\nFrom Sdfx Require Import Num.Ops Geo.Vec Generated.Threads Sdf.ObjSkel.\nImport OpsNotations ListNotations.\nLocal Open Scope ops_scope.\n\n")
	b.WriteString("Section ObjThread.\n  Context {O : Ops}.\n\n")
	for _, t := range [][2]string{{"Nut", "gen_Nut"}, {"Bolt", "gen_Bolt"}} {
		s, err := genObj(obj, sdf, t[0], t[1])
		if err != nil {
			return nil, err
		}
		b.WriteString(s)
		b.WriteString("\n")
	}
	b.WriteString("End ObjThread.\n")
	return []byte(b.String()), nil
}

// GenObj is the kit.GenFn writing coq/Generated/ObjThread.v.
func GenObj(c *kit.Ctx) (string, []byte, error) {
	b, err := GenerateObj(c.Repo)
	return "ObjThread.v", b, err
}
