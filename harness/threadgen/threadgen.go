// Package threadgen translates the thread database of the CURRENT sdf/screw.go into Coq.
//
// It parses package sdf with go/parser and evaluates constant expressions exactly with
// go/constant.  Emitted into coq/Generated/Threads.v on every run:
//
//   - the record ThreadParameters (from the Go struct),
//   - the functions UTSAdd / ISOAdd / NPTAdd and ToMillimetre as Gallina over the Ops record
//     (straight-line field assignments translated expression by expression),
//   - every call m.XXXAdd("name", a, b, c) of initThreadLookup as a row: name string, which
//     Add function, and each argument's constant expression as an exact rational,
//   - the unit constants.
//
// A construct the translator does not understand is an error (a broken tie), never skipped.
package threadgen

import (
	"fmt"
	"go/ast"
	"go/constant"
	"go/parser"
	"go/token"
	"math/big"
	"path/filepath"
	"sort"
	"strconv"
	"strings"

	"verifharness/kit"
)

// Row is one database row as written in the source.
type Row struct {
	Name string
	Fn   string     // UTSAdd | ISOAdd | NPTAdd
	Args []*big.Rat // exact values of the remaining arguments
	Src  string     // source text of the call (for messages)
}

type pkg struct {
	fset   *token.FileSet
	consts map[string]ast.Expr
	funcs  map[string]*ast.FuncDecl
	types  map[string]*ast.StructType
}

// loadPkg parses every non-test file of <repo>/sdf.
func loadPkg(repo string) (*pkg, error) {
	fset := token.NewFileSet()
	dir := filepath.Join(repo, "sdf")
	matches, err := filepath.Glob(filepath.Join(dir, "*.go"))
	if err != nil {
		return nil, err
	}
	sort.Strings(matches)
	p := &pkg{fset: fset, consts: map[string]ast.Expr{}, funcs: map[string]*ast.FuncDecl{}, types: map[string]*ast.StructType{}}
	for _, f := range matches {
		if strings.HasSuffix(f, "_test.go") {
			continue
		}
		af, err := parser.ParseFile(fset, f, nil, 0)
		if err != nil {
			return nil, fmt.Errorf("threadgen: %v", err)
		}
		for _, d := range af.Decls {
			switch d := d.(type) {
			case *ast.GenDecl:
				for _, s := range d.Specs {
					switch s := s.(type) {
					case *ast.ValueSpec:
						if d.Tok == token.CONST && len(s.Values) == len(s.Names) {
							for i, n := range s.Names {
								p.consts[n.Name] = s.Values[i]
							}
						}
					case *ast.TypeSpec:
						if st, ok := s.Type.(*ast.StructType); ok {
							p.types[s.Name.Name] = st
						}
					}
				}
			case *ast.FuncDecl:
				name := d.Name.Name
				if d.Recv != nil && len(d.Recv.List) == 1 {
					name = recvName(d.Recv.List[0].Type) + "." + name
				}
				p.funcs[name] = d
			}
		}
	}
	return p, nil
}

func recvName(e ast.Expr) string {
	switch e := e.(type) {
	case *ast.StarExpr:
		return recvName(e.X)
	case *ast.Ident:
		return e.Name
	}
	return "?"
}

func (p *pkg) pos(n ast.Node) string { return p.fset.Position(n.Pos()).String() }

// constEval evaluates a constant expression exactly, with Go's untyped-constant semantics.
func (p *pkg) constEval(e ast.Expr, depth int) (constant.Value, error) {
	if depth > 50 {
		return nil, fmt.Errorf("%s: constant cycle", p.pos(e))
	}
	switch e := e.(type) {
	case *ast.BasicLit:
		if e.Kind != token.INT && e.Kind != token.FLOAT {
			return nil, fmt.Errorf("%s: literal %s is not numeric", p.pos(e), e.Value)
		}
		v := constant.MakeFromLiteral(e.Value, e.Kind, 0)
		if v.Kind() == constant.Unknown {
			return nil, fmt.Errorf("%s: bad literal %s", p.pos(e), e.Value)
		}
		return v, nil
	case *ast.ParenExpr:
		return p.constEval(e.X, depth+1)
	case *ast.UnaryExpr:
		x, err := p.constEval(e.X, depth+1)
		if err != nil {
			return nil, err
		}
		if e.Op != token.SUB && e.Op != token.ADD {
			return nil, fmt.Errorf("%s: unary %s", p.pos(e), e.Op)
		}
		return constant.UnaryOp(e.Op, x, 0), nil
	case *ast.BinaryExpr:
		x, err := p.constEval(e.X, depth+1)
		if err != nil {
			return nil, err
		}
		y, err := p.constEval(e.Y, depth+1)
		if err != nil {
			return nil, err
		}
		op := e.Op
		switch op {
		case token.ADD, token.SUB, token.MUL:
		case token.QUO:
			if constant.Sign(y) == 0 {
				return nil, fmt.Errorf("%s: division by zero", p.pos(e))
			}
			if x.Kind() == constant.Int && y.Kind() == constant.Int {
				op = token.QUO_ASSIGN // integer division of untyped integer constants
			}
		default:
			return nil, fmt.Errorf("%s: operator %s", p.pos(e), op)
		}
		return constant.BinaryOp(x, op, y), nil
	case *ast.Ident:
		d, ok := p.consts[e.Name]
		if !ok {
			return nil, fmt.Errorf("%s: %s is not a package constant", p.pos(e), e.Name)
		}
		return p.constEval(d, depth+1)
	}
	return nil, fmt.Errorf("%s: not a constant expression the translator understands (%T)", p.pos(e), e)
}

func toRat(v constant.Value) (*big.Rat, error) {
	switch v.Kind() {
	case constant.Int, constant.Float:
		n, d := constant.Num(v), constant.Denom(v)
		if n.Kind() != constant.Int || d.Kind() != constant.Int {
			return nil, fmt.Errorf("constant %s is not an exact rational", v.ExactString())
		}
		bn, ok1 := new(big.Int).SetString(n.ExactString(), 10)
		bd, ok2 := new(big.Int).SetString(d.ExactString(), 10)
		if !ok1 || !ok2 {
			return nil, fmt.Errorf("constant %s: cannot read numerator/denominator", v.ExactString())
		}
		return new(big.Rat).SetFrac(bn, bd), nil
	}
	return nil, fmt.Errorf("constant %s is not numeric", v.ExactString())
}

// ConstRat returns the exact value of a package-level constant.
func (p *pkg) ConstRat(name string) (*big.Rat, error) {
	e, ok := p.consts[name]
	if !ok {
		return nil, fmt.Errorf("threadgen: constant %s not found in package sdf", name)
	}
	v, err := p.constEval(e, 0)
	if err != nil {
		return nil, err
	}
	return toRat(v)
}

// Rows lists the calls of initThreadLookup in source order.
func (p *pkg) Rows() ([]Row, error) {
	fd, ok := p.funcs["initThreadLookup"]
	if !ok {
		return nil, fmt.Errorf("threadgen: func initThreadLookup not found")
	}
	var rows []Row
	for _, st := range fd.Body.List {
		switch st := st.(type) {
		case *ast.AssignStmt: // m := make(threadDatabase)
			if len(st.Lhs) == 1 && len(st.Rhs) == 1 {
				if c, ok := st.Rhs[0].(*ast.CallExpr); ok {
					if id, ok := c.Fun.(*ast.Ident); ok && id.Name == "make" {
						continue
					}
				}
			}
			return nil, fmt.Errorf("%s: unexpected assignment in initThreadLookup", p.pos(st))
		case *ast.ReturnStmt:
			continue
		case *ast.ExprStmt:
			c, ok := st.X.(*ast.CallExpr)
			if !ok {
				return nil, fmt.Errorf("%s: unexpected statement in initThreadLookup", p.pos(st))
			}
			sel, ok := c.Fun.(*ast.SelectorExpr)
			if !ok {
				return nil, fmt.Errorf("%s: unexpected call in initThreadLookup", p.pos(st))
			}
			fn := sel.Sel.Name
			if _, ok := p.funcs["threadDatabase."+fn]; !ok {
				return nil, fmt.Errorf("%s: %s is not a method of threadDatabase", p.pos(st), fn)
			}
			if len(c.Args) < 2 {
				return nil, fmt.Errorf("%s: too few arguments", p.pos(st))
			}
			lit, ok := c.Args[0].(*ast.BasicLit)
			if !ok || lit.Kind != token.STRING {
				return nil, fmt.Errorf("%s: thread name is not a string literal", p.pos(st))
			}
			name, err := strconv.Unquote(lit.Value)
			if err != nil {
				return nil, fmt.Errorf("%s: %v", p.pos(st), err)
			}
			r := Row{Name: name, Fn: fn, Src: p.pos(st)}
			for _, a := range c.Args[1:] {
				v, err := p.constEval(a, 0)
				if err != nil {
					return nil, err
				}
				q, err := toRat(v)
				if err != nil {
					return nil, fmt.Errorf("%s: %v", p.pos(a), err)
				}
				r.Args = append(r.Args, q)
			}
			rows = append(rows, r)
		default:
			return nil, fmt.Errorf("%s: unexpected statement in initThreadLookup (%T)", p.pos(st), st)
		}
	}
	if len(rows) == 0 {
		return nil, fmt.Errorf("threadgen: no rows found in initThreadLookup")
	}
	return rows, nil
}

// ---------------------------------------------------------------- expression translation

type env struct {
	p      *pkg
	params map[string]bool   // float parameters in scope, by name
	recv   string            // receiver/record variable (for t.Field), "" if none
	fields map[string]string // field name -> "string" | "float64"
}

func coqQ(q *big.Rat) string {
	return fmt.Sprintf("(%s # %s)", zlit(q.Num()), q.Denom().String())
}
func zlit(z *big.Int) string {
	if z.Sign() < 0 {
		return "(" + z.String() + ")"
	}
	return z.String()
}
func coqCst(q *big.Rat) string {
	return fmt.Sprintf("(cst %s %s)", zlit(q.Num()), q.Denom().String())
}

// isConst reports whether e is built only from literals and package constants.
func (v *env) isConst(e ast.Expr) bool {
	switch e := e.(type) {
	case *ast.BasicLit:
		return e.Kind == token.INT || e.Kind == token.FLOAT
	case *ast.ParenExpr:
		return v.isConst(e.X)
	case *ast.UnaryExpr:
		return v.isConst(e.X)
	case *ast.BinaryExpr:
		return v.isConst(e.X) && v.isConst(e.Y)
	case *ast.Ident:
		if v.params[e.Name] {
			return false
		}
		_, ok := v.p.consts[e.Name]
		return ok
	}
	return false
}

// expr translates a float64 expression into Gallina over the Ops record.  Constant
// sub-expressions are folded exactly first (as the Go compiler does) and emitted as `cst n d`.
func (v *env) expr(e ast.Expr) (string, error) {
	if v.isConst(e) {
		c, err := v.p.constEval(e, 0)
		if err != nil {
			return "", err
		}
		q, err := toRat(c)
		if err != nil {
			return "", err
		}
		return coqCst(q), nil
	}
	switch e := e.(type) {
	case *ast.ParenExpr:
		return v.expr(e.X)
	case *ast.Ident:
		if v.params[e.Name] {
			return e.Name, nil
		}
		return "", fmt.Errorf("%s: unknown identifier %s", v.p.pos(e), e.Name)
	case *ast.SelectorExpr:
		if id, ok := e.X.(*ast.Ident); ok && id.Name == v.recv && v.recv != "" {
			if v.fields[e.Sel.Name] != "float64" {
				return "", fmt.Errorf("%s: field %s is not a float64 field", v.p.pos(e), e.Sel.Name)
			}
			return fmt.Sprintf("(%s %s)", e.Sel.Name, v.recv), nil
		}
		return "", fmt.Errorf("%s: selector the translator does not understand", v.p.pos(e))
	case *ast.UnaryExpr:
		x, err := v.expr(e.X)
		if err != nil {
			return "", err
		}
		if e.Op == token.SUB {
			return "(- " + x + ")", nil
		}
		return "", fmt.Errorf("%s: unary %s", v.p.pos(e), e.Op)
	case *ast.BinaryExpr:
		x, err := v.expr(e.X)
		if err != nil {
			return "", err
		}
		y, err := v.expr(e.Y)
		if err != nil {
			return "", err
		}
		switch e.Op {
		case token.ADD, token.SUB, token.MUL, token.QUO:
			return fmt.Sprintf("(%s %s %s)", x, e.Op.String(), y), nil
		}
		return "", fmt.Errorf("%s: operator %s", v.p.pos(e), e.Op)
	case *ast.CallExpr:
		if sel, ok := e.Fun.(*ast.SelectorExpr); ok {
			if id, ok := sel.X.(*ast.Ident); ok && id.Name == "math" && len(e.Args) == 1 {
				ops := map[string]string{"Atan": "oatan", "Tan": "otan", "Sin": "osin", "Cos": "ocos", "Sqrt": "osqrt", "Abs": "oabs"}
				if o, ok := ops[sel.Sel.Name]; ok {
					x, err := v.expr(e.Args[0])
					if err != nil {
						return "", err
					}
					return fmt.Sprintf("(%s O %s)", o, x), nil
				}
			}
		}
		return "", fmt.Errorf("%s: call the translator does not understand", v.p.pos(e))
	}
	return "", fmt.Errorf("%s: expression the translator does not understand (%T)", v.p.pos(e), e)
}

func (p *pkg) structFields(name string) ([]string, map[string]string, error) {
	st, ok := p.types[name]
	if !ok {
		return nil, nil, fmt.Errorf("threadgen: struct %s not found", name)
	}
	var order []string
	kinds := map[string]string{}
	for _, f := range st.Fields.List {
		id, ok := f.Type.(*ast.Ident)
		if !ok || (id.Name != "string" && id.Name != "float64") {
			return nil, nil, fmt.Errorf("%s: field type the translator does not understand", p.pos(f))
		}
		for _, n := range f.Names {
			order = append(order, n.Name)
			kinds[n.Name] = id.Name
		}
	}
	return order, kinds, nil
}

// isPanicGuard recognises `if <param> <= 0 { log.Panicf(...) }` and returns the guarded parameter.
func isPanicGuard(st *ast.IfStmt) (string, bool) {
	b, ok := st.Cond.(*ast.BinaryExpr)
	if !ok || b.Op != token.LEQ || st.Else != nil || st.Init != nil {
		return "", false
	}
	id, ok := b.X.(*ast.Ident)
	if !ok {
		return "", false
	}
	z, ok := b.Y.(*ast.BasicLit)
	if !ok || (z.Value != "0" && z.Value != "0.0") {
		return "", false
	}
	if len(st.Body.List) != 1 {
		return "", false
	}
	es, ok := st.Body.List[0].(*ast.ExprStmt)
	if !ok {
		return "", false
	}
	c, ok := es.X.(*ast.CallExpr)
	if !ok {
		return "", false
	}
	sel, ok := c.Fun.(*ast.SelectorExpr)
	if !ok {
		return "", false
	}
	if x, ok := sel.X.(*ast.Ident); !ok || x.Name != "log" || !strings.HasPrefix(sel.Sel.Name, "Panic") {
		return "", false
	}
	return id.Name, true
}

// addFn translates a threadDatabase.XXXAdd method: returns the Gallina definition and the
// list of parameters that must be > 0 (the function panics otherwise).
func (p *pkg) addFn(fn string, order []string, kinds map[string]string) (string, []string, []string, error) {
	fd, ok := p.funcs["threadDatabase."+fn]
	if !ok {
		return "", nil, nil, fmt.Errorf("threadgen: method %s not found", fn)
	}
	var params []string
	for i, f := range fd.Type.Params.List {
		id, ok := f.Type.(*ast.Ident)
		if !ok {
			return "", nil, nil, fmt.Errorf("%s: parameter type", p.pos(f))
		}
		for _, n := range f.Names {
			if i == 0 && id.Name == "string" {
				if n.Name != "name" {
					return "", nil, nil, fmt.Errorf("%s: first parameter is expected to be name string", p.pos(f))
				}
				continue
			}
			if id.Name != "float64" {
				return "", nil, nil, fmt.Errorf("%s: parameter %s is not float64", p.pos(f), n.Name)
			}
			params = append(params, n.Name)
		}
	}
	v := &env{p: p, params: map[string]bool{}, fields: kinds}
	for _, n := range params {
		v.params[n] = true
	}
	vals := map[string]string{}
	var guards []string
	rec := ""
	stored := false
	for _, st := range fd.Body.List {
		switch st := st.(type) {
		case *ast.IfStmt:
			g, ok := isPanicGuard(st)
			if !ok || !v.params[g] {
				return "", nil, nil, fmt.Errorf("%s: if statement the translator does not understand", p.pos(st))
			}
			guards = append(guards, g)
		case *ast.AssignStmt:
			if len(st.Lhs) != 1 || len(st.Rhs) != 1 {
				return "", nil, nil, fmt.Errorf("%s: assignment form", p.pos(st))
			}
			switch l := st.Lhs[0].(type) {
			case *ast.Ident: // t := ThreadParameters{}
				cl, ok := st.Rhs[0].(*ast.CompositeLit)
				if !ok || len(cl.Elts) != 0 || st.Tok != token.DEFINE {
					return "", nil, nil, fmt.Errorf("%s: assignment the translator does not understand", p.pos(st))
				}
				if id, ok := cl.Type.(*ast.Ident); !ok || id.Name != "ThreadParameters" {
					return "", nil, nil, fmt.Errorf("%s: composite literal type", p.pos(st))
				}
				rec = l.Name
			case *ast.SelectorExpr: // t.Field = expr
				id, ok := l.X.(*ast.Ident)
				if !ok || id.Name != rec || rec == "" || st.Tok != token.ASSIGN {
					return "", nil, nil, fmt.Errorf("%s: assignment target", p.pos(st))
				}
				f := l.Sel.Name
				switch kinds[f] {
				case "string":
					switch r := st.Rhs[0].(type) {
					case *ast.Ident:
						if r.Name != "name" {
							return "", nil, nil, fmt.Errorf("%s: string value", p.pos(st))
						}
						vals[f] = "name"
					case *ast.BasicLit:
						s, err := strconv.Unquote(r.Value)
						if err != nil {
							return "", nil, nil, err
						}
						vals[f] = coqString(s)
					default:
						return "", nil, nil, fmt.Errorf("%s: string value", p.pos(st))
					}
				case "float64":
					x, err := v.expr(st.Rhs[0])
					if err != nil {
						return "", nil, nil, err
					}
					vals[f] = x
				default:
					return "", nil, nil, fmt.Errorf("%s: unknown field %s", p.pos(st), f)
				}
			case *ast.IndexExpr: // m[name] = &t
				stored = true
			default:
				return "", nil, nil, fmt.Errorf("%s: assignment the translator does not understand", p.pos(st))
			}
		default:
			return "", nil, nil, fmt.Errorf("%s: statement the translator does not understand (%T)", p.pos(st), st)
		}
	}
	if !stored || rec == "" {
		return "", nil, nil, fmt.Errorf("threadgen: %s does not store a record", fn)
	}
	var b strings.Builder
	fmt.Fprintf(&b, "  Definition %s (name : string) (%s : T O) : ThreadParameters :=\n    {| ", fn, strings.Join(params, " "))
	for i, f := range order {
		val, ok := vals[f]
		if !ok { // Go zero value
			if kinds[f] == "string" {
				val = "EmptyString"
			} else {
				val = "o0 O"
			}
		}
		if i > 0 {
			b.WriteString(";\n       ")
		}
		fmt.Fprintf(&b, "%s := %s", f, val)
	}
	b.WriteString(" |}.\n")
	return b.String(), params, guards, nil
}

func coqString(s string) string {
	return "\"" + strings.ReplaceAll(s, "\"", "\"\"") + "\"%string"
}

// toMM translates ThreadParameters.ToMillimetre.
func (p *pkg) toMM(order []string, kinds map[string]string) (string, error) {
	fd, ok := p.funcs["ThreadParameters.ToMillimetre"]
	if !ok {
		return "", fmt.Errorf("threadgen: method ToMillimetre not found")
	}
	recv := fd.Recv.List[0].Names[0].Name
	v := &env{p: p, params: map[string]bool{}, recv: recv, fields: kinds}
	if len(fd.Body.List) != 2 {
		return "", fmt.Errorf("%s: ToMillimetre: expected `if t.Units == \"mm\" { return t }; return &ThreadParameters{...}`", p.pos(fd))
	}
	ifs, ok := fd.Body.List[0].(*ast.IfStmt)
	if !ok {
		return "", fmt.Errorf("%s: ToMillimetre: first statement", p.pos(fd.Body.List[0]))
	}
	cond, ok := ifs.Cond.(*ast.BinaryExpr)
	if !ok || cond.Op != token.EQL {
		return "", fmt.Errorf("%s: ToMillimetre: condition", p.pos(ifs))
	}
	sel, ok := cond.X.(*ast.SelectorExpr)
	lit, ok2 := cond.Y.(*ast.BasicLit)
	if !ok || !ok2 || lit.Kind != token.STRING || kinds[sel.Sel.Name] != "string" {
		return "", fmt.Errorf("%s: ToMillimetre: condition", p.pos(ifs))
	}
	if id, ok := sel.X.(*ast.Ident); !ok || id.Name != recv {
		return "", fmt.Errorf("%s: ToMillimetre: condition", p.pos(ifs))
	}
	unit, _ := strconv.Unquote(lit.Value)
	if len(ifs.Body.List) != 1 || ifs.Else != nil {
		return "", fmt.Errorf("%s: ToMillimetre: then-branch", p.pos(ifs))
	}
	if rs, ok := ifs.Body.List[0].(*ast.ReturnStmt); !ok || len(rs.Results) != 1 {
		return "", fmt.Errorf("%s: ToMillimetre: then-branch", p.pos(ifs))
	} else if id, ok := rs.Results[0].(*ast.Ident); !ok || id.Name != recv {
		return "", fmt.Errorf("%s: ToMillimetre: then-branch must return the receiver", p.pos(ifs))
	}
	rs, ok := fd.Body.List[1].(*ast.ReturnStmt)
	if !ok || len(rs.Results) != 1 {
		return "", fmt.Errorf("%s: ToMillimetre: return", p.pos(fd.Body.List[1]))
	}
	ue, ok := rs.Results[0].(*ast.UnaryExpr)
	if !ok || ue.Op != token.AND {
		return "", fmt.Errorf("%s: ToMillimetre: return value", p.pos(rs))
	}
	cl, ok := ue.X.(*ast.CompositeLit)
	if !ok {
		return "", fmt.Errorf("%s: ToMillimetre: return value", p.pos(rs))
	}
	vals := map[string]string{}
	for _, el := range cl.Elts {
		kv, ok := el.(*ast.KeyValueExpr)
		if !ok {
			return "", fmt.Errorf("%s: ToMillimetre: unkeyed literal", p.pos(el))
		}
		f := kv.Key.(*ast.Ident).Name
		switch kinds[f] {
		case "string":
			switch r := kv.Value.(type) {
			case *ast.BasicLit:
				s, err := strconv.Unquote(r.Value)
				if err != nil {
					return "", err
				}
				vals[f] = coqString(s)
			case *ast.SelectorExpr:
				if id, ok := r.X.(*ast.Ident); !ok || id.Name != recv || kinds[r.Sel.Name] != "string" {
					return "", fmt.Errorf("%s: ToMillimetre: string field value", p.pos(kv))
				}
				vals[f] = fmt.Sprintf("(%s %s)", r.Sel.Name, recv)
			default:
				return "", fmt.Errorf("%s: ToMillimetre: string field value", p.pos(kv))
			}
		case "float64":
			x, err := v.expr(kv.Value)
			if err != nil {
				return "", err
			}
			vals[f] = x
		default:
			return "", fmt.Errorf("%s: ToMillimetre: unknown field %s", p.pos(kv), f)
		}
	}
	var b strings.Builder
	fmt.Fprintf(&b, "  Definition ToMillimetre (%s : ThreadParameters) : ThreadParameters :=\n    if String.eqb (%s %s) %s then %s else\n    {| ", recv, sel.Sel.Name, recv, coqString(unit), recv)
	for i, f := range order {
		val, ok := vals[f]
		if !ok {
			if kinds[f] == "string" {
				val = "EmptyString"
			} else {
				val = "o0 O"
			}
		}
		if i > 0 {
			b.WriteString(";\n       ")
		}
		fmt.Fprintf(&b, "%s := %s", f, val)
	}
	b.WriteString(" |}.\n")
	return b.String(), nil
}

// Generate produces the text of coq/Generated/Threads.v and the rows.
func Generate(repo string) ([]byte, []Row, error) {
	p, err := loadPkg(repo)
	if err != nil {
		return nil, nil, err
	}
	rows, err := p.Rows()
	if err != nil {
		return nil, nil, err
	}
	order, kinds, err := p.structFields("ThreadParameters")
	if err != nil {
		return nil, nil, err
	}
	var b strings.Builder
	b.WriteString("(* GENERATED by harness/threadgen from sdf/screw.go and sdf/utils.go on every run - do not edit. *)\n")
	b.WriteString("From Coq Require Import ZArith QArith String List.\nFrom Sdfx Require Import Num.Ops.\nImport ListNotations OpsNotations.\nLocal Open Scope ops_scope.\n\n")
	b.WriteString("Section Threads.\n  Context {O : Ops}.\n\n")
	b.WriteString("  (* type ThreadParameters struct *)\n  Record ThreadParameters : Type := mkThreadParameters {\n")
	for i, f := range order {
		t := "T O"
		if kinds[f] == "string" {
			t = "string"
		}
		sep := ";"
		if i == len(order)-1 {
			sep = ""
		}
		fmt.Fprintf(&b, "    %s : %s%s\n", f, t, sep)
	}
	b.WriteString("  }.\n\n")
	fns := []string{}
	seen := map[string]bool{}
	for _, r := range rows {
		if !seen[r.Fn] {
			seen[r.Fn] = true
			fns = append(fns, r.Fn)
		}
	}
	sort.Strings(fns)
	arity := map[string]int{}
	guards := map[string][]string{}
	pnames := map[string][]string{}
	for _, fn := range fns {
		def, params, gs, err := p.addFn(fn, order, kinds)
		if err != nil {
			return nil, nil, err
		}
		fmt.Fprintf(&b, "  (* func (m threadDatabase) %s; panics unless %s > 0 *)\n", fn, strings.Join(gs, ", "))
		b.WriteString(def)
		b.WriteString("\n")
		arity[fn] = len(params)
		guards[fn] = gs
		pnames[fn] = params
		if len(params) != 3 {
			return nil, nil, fmt.Errorf("threadgen: %s takes %d float parameters, the row format expects 3", fn, len(params))
		}
	}
	mm, err := p.toMM(order, kinds)
	if err != nil {
		return nil, nil, err
	}
	b.WriteString("  (* func (t *ThreadParameters) ToMillimetre *)\n")
	b.WriteString(mm)
	b.WriteString("End Threads.\n\n")
	b.WriteString("Arguments ThreadParameters : clear implicits.\n\n")

	for _, c := range []string{"MillimetresPerInch", "InchesPerMillimetre"} {
		q, err := p.ConstRat(c)
		if err != nil {
			return nil, nil, err
		}
		fmt.Fprintf(&b, "Definition %s_q : Q := %s.\n", c, coqQ(q))
	}
	b.WriteString("\n(* which Add method a row calls *)\nInductive addfn : Set :=")
	for _, fn := range fns {
		fmt.Fprintf(&b, " | %s_row", fn)
	}
	b.WriteString(".\n\n")
	b.WriteString("(* index (0-based) of the parameters each Add method requires to be > 0 *)\nDefinition add_guards (f : addfn) : list nat :=\n  match f with\n")
	for _, fn := range fns {
		var idx []string
		for _, g := range guards[fn] {
			for i, n := range pnames[fn] {
				if n == g {
					idx = append(idx, strconv.Itoa(i))
				}
			}
		}
		fmt.Fprintf(&b, "  | %s_row => [%s]%%nat\n", fn, strings.Join(idx, "; "))
	}
	b.WriteString("  end.\n\n")
	b.WriteString("Definition apply_add {O : Ops} (f : addfn) (name : string) (a b c : T O) : ThreadParameters O :=\n  match f with\n")
	for _, fn := range fns {
		fmt.Fprintf(&b, "  | %s_row => %s name a b c\n", fn, fn)
	}
	b.WriteString("  end.\n\n")
	b.WriteString("(* initThreadLookup: every call, in source order; arguments are the exact values of the Go constant expressions *)\n")
	b.WriteString("Definition thread_rows : list (string * addfn * (Q * Q * Q)) := [\n")
	for i, r := range rows {
		if len(r.Args) != 3 {
			return nil, nil, fmt.Errorf("%s: %d arguments, expected 3", r.Src, len(r.Args))
		}
		sep := ";"
		if i == len(rows)-1 {
			sep = ""
		}
		fmt.Fprintf(&b, "  (%s, %s_row, (%s, %s, %s))%s\n", coqString(r.Name), r.Fn, coqQ(r.Args[0]), coqQ(r.Args[1]), coqQ(r.Args[2]), sep)
	}
	b.WriteString("].\n")
	return []byte(b.String()), rows, nil
}

// Gen is the kit.GenFn of this translator.
func Gen(c *kit.Ctx) (string, []byte, error) {
	b, _, err := Generate(c.Repo)
	return "Threads.v", b, err
}
