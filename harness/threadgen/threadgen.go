// Package threadgen translates the screw-thread code of the CURRENT source tree into Coq.
//
// It parses package sdf (and obj) with go/parser, evaluates constant expressions exactly with
// go/constant and executes the loop-free Go code it reads symbolically (interp.go).  Written into
// coq/Generated on every run:
//
// Threads.v (Generate):
//   - the record ThreadParameters (from the Go struct),
//   - the functions UTSAdd / ISOAdd / NPTAdd and ToMillimetre as Gallina over the Ops record,
//   - every call m.XXXAdd("name", a, b, c) that initThreadLookup makes as a row: name string, which
//     Add method, and each argument's constant expression as an exact rational,
//   - the unit constants.
//
// ThreadExpr.v (GenerateExpr, exprgen.go): SawTooth, DtoR, Screw3D, ScrewSDF3.Evaluate, ISOThread.
// ObjThread.v (GenerateObj, objgen.go): the construction of obj.Nut and obj.Bolt as skeleton terms.
//
// Because the code is executed rather than pattern-matched, behaviour-preserving rewrites give the
// same output: a body moved into an unexported helper that is called instead, local variables,
// keyed literals instead of field assignments (or a copy of the receiver that is then modified),
// named constants, if/else instead of switch, rows added by a helper function or by a loop over a
// literal table.  A construct the translator does not understand is an error (a broken tie),
// never skipped.
package threadgen

import (
	"fmt"
	"go/ast"
	"go/constant"
	"go/parser"
	"go/token"
	"math/big"
	"path/filepath"
	"sort"
	"strconv"
	"strings"

	"verifharness/kit"
)

// Row is one database row as written in the source.
type Row struct {
	Name string
	Fn   string     // UTSAdd | ISOAdd | NPTAdd
	Args []*big.Rat // exact values of the remaining arguments
	Src  string     // source text of the call (for messages)
}

type pkg struct {
	fset       *token.FileSet
	consts     map[string]ast.Expr
	funcs      map[string]*ast.FuncDecl
	types      map[string]*ast.StructType
	vars       map[string]ast.Expr // package-level variables with an initialiser
	imports    map[string]bool     // names under which the files import other packages
	sinfo      map[string]*structInfo
	needRecord map[string]bool // struct types a generated function returns
	root       string
}

// loadPkg parses every non-test file of <repo>/sdf.
func loadPkg(repo string) (*pkg, error) { return loadPkgDir(repo, "sdf") }

func loadPkgDir(repo, sub string) (*pkg, error) {
	fset := token.NewFileSet()
	dir := filepath.Join(repo, sub)
	matches, err := filepath.Glob(filepath.Join(dir, "*.go"))
	if err != nil {
		return nil, err
	}
	sort.Strings(matches)
	p := &pkg{fset: fset, consts: map[string]ast.Expr{}, funcs: map[string]*ast.FuncDecl{}, types: map[string]*ast.StructType{},
		needRecord: map[string]bool{}, root: repo, vars: map[string]ast.Expr{}, imports: map[string]bool{}, sinfo: map[string]*structInfo{}}
	for _, f := range matches {
		if strings.HasSuffix(f, "_test.go") {
			continue
		}
		af, err := parser.ParseFile(fset, f, nil, 0)
		if err != nil {
			return nil, fmt.Errorf("threadgen: %v", err)
		}
		for _, im := range af.Imports {
			path, _ := strconv.Unquote(im.Path.Value)
			name := path[strings.LastIndex(path, "/")+1:]
			if im.Name != nil {
				name = im.Name.Name
			}
			p.imports[name] = true
		}
		for _, d := range af.Decls {
			switch d := d.(type) {
			case *ast.GenDecl:
				for _, s := range d.Specs {
					switch s := s.(type) {
					case *ast.ValueSpec:
						if d.Tok == token.CONST && len(s.Values) == len(s.Names) && s.Type == nil {
							for i, n := range s.Names {
								p.consts[n.Name] = s.Values[i]
							}
						}
						if d.Tok == token.VAR && len(s.Values) == len(s.Names) {
							for i, n := range s.Names {
								p.vars[n.Name] = s.Values[i]
							}
						}
					case *ast.TypeSpec:
						if st, ok := s.Type.(*ast.StructType); ok {
							p.types[s.Name.Name] = st
						}
					}
				}
			case *ast.FuncDecl:
				name := d.Name.Name
				if d.Recv != nil && len(d.Recv.List) == 1 {
					name = recvName(d.Recv.List[0].Type) + "." + name
				}
				p.funcs[name] = d
			}
		}
	}
	return p, nil
}

func recvName(e ast.Expr) string {
	switch e := e.(type) {
	case *ast.StarExpr:
		return recvName(e.X)
	case *ast.Ident:
		return e.Name
	}
	return "?"
}

func (p *pkg) pos(n ast.Node) string { return p.fset.Position(n.Pos()).String() }

// rel: file:line relative to the source tree (for the comments of the generated files)
func (p *pkg) rel(n ast.Node) string {
	q := p.fset.Position(n.Pos())
	f, err := filepath.Rel(p.root, q.Filename)
	if err != nil {
		f = q.Filename
	}
	return fmt.Sprintf("%s:%d", f, q.Line)
}

// constEval evaluates a constant expression exactly, with Go's untyped-constant semantics.
func (p *pkg) constEval(e ast.Expr, depth int) (constant.Value, error) {
	if depth > 50 {
		return nil, fmt.Errorf("%s: constant cycle", p.pos(e))
	}
	switch e := e.(type) {
	case *ast.BasicLit:
		if e.Kind == token.STRING {
			s, err := strconv.Unquote(e.Value)
			if err != nil {
				return nil, fmt.Errorf("%s: %v", p.pos(e), err)
			}
			return constant.MakeString(s), nil
		}
		if e.Kind != token.INT && e.Kind != token.FLOAT {
			return nil, fmt.Errorf("%s: literal %s is not numeric", p.pos(e), e.Value)
		}
		v := constant.MakeFromLiteral(e.Value, e.Kind, 0)
		if v.Kind() == constant.Unknown {
			return nil, fmt.Errorf("%s: bad literal %s", p.pos(e), e.Value)
		}
		return v, nil
	case *ast.ParenExpr:
		return p.constEval(e.X, depth+1)
	case *ast.UnaryExpr:
		x, err := p.constEval(e.X, depth+1)
		if err != nil {
			return nil, err
		}
		if (e.Op != token.SUB && e.Op != token.ADD) || (x.Kind() != constant.Int && x.Kind() != constant.Float) {
			return nil, fmt.Errorf("%s: unary %s", p.pos(e), e.Op)
		}
		return constant.UnaryOp(e.Op, x, 0), nil
	case *ast.BinaryExpr:
		x, err := p.constEval(e.X, depth+1)
		if err != nil {
			return nil, err
		}
		y, err := p.constEval(e.Y, depth+1)
		if err != nil {
			return nil, err
		}
		op := e.Op
		for _, v := range []constant.Value{x, y} {
			if v.Kind() != constant.Int && v.Kind() != constant.Float {
				return nil, fmt.Errorf("%s: operator %s on constants that are not numbers", p.pos(e), op)
			}
		}
		switch op {
		case token.ADD, token.SUB, token.MUL:
		case token.QUO:
			if constant.Sign(y) == 0 {
				return nil, fmt.Errorf("%s: division by zero", p.pos(e))
			}
			if x.Kind() == constant.Int && y.Kind() == constant.Int {
				op = token.QUO_ASSIGN // integer division of untyped integer constants
			}
		default:
			return nil, fmt.Errorf("%s: operator %s", p.pos(e), op)
		}
		return constant.BinaryOp(x, op, y), nil
	case *ast.Ident:
		d, ok := p.consts[e.Name]
		if !ok {
			return nil, fmt.Errorf("%s: %s is not a package constant", p.pos(e), e.Name)
		}
		return p.constEval(d, depth+1)
	case *ast.SelectorExpr:
		if id, ok := e.X.(*ast.Ident); ok && id.Name == "math" && e.Sel.Name == "Pi" {
			return constant.MakeFromLiteral(piLiteral, token.FLOAT, 0), nil
		}
	}
	return nil, fmt.Errorf("%s: not a constant expression the translator understands (%T)", p.pos(e), e)
}

func toRat(v constant.Value) (*big.Rat, error) {
	switch v.Kind() {
	case constant.Int, constant.Float:
		n, d := constant.Num(v), constant.Denom(v)
		if n.Kind() != constant.Int || d.Kind() != constant.Int {
			return nil, fmt.Errorf("constant %s is not an exact rational", v.ExactString())
		}
		bn, ok1 := new(big.Int).SetString(n.ExactString(), 10)
		bd, ok2 := new(big.Int).SetString(d.ExactString(), 10)
		if !ok1 || !ok2 {
			return nil, fmt.Errorf("constant %s: cannot read numerator/denominator", v.ExactString())
		}
		return new(big.Rat).SetFrac(bn, bd), nil
	}
	return nil, fmt.Errorf("constant %s is not numeric", v.ExactString())
}

// ConstRat returns the exact value of a package-level constant.
func (p *pkg) ConstRat(name string) (*big.Rat, error) {
	e, ok := p.consts[name]
	if !ok {
		return nil, fmt.Errorf("threadgen: constant %s not found in package sdf", name)
	}
	v, err := p.constEval(e, 0)
	if err != nil {
		return nil, err
	}
	return toRat(v)
}

// Rows lists the calls of exported threadDatabase methods that initThreadLookup makes, in
// execution order (the body is executed symbolically: helper functions and loops over literal
// tables are followed).
func (p *pkg) Rows() ([]Row, error) {
	fd, ok := p.funcs["initThreadLookup"]
	if !ok {
		return nil, fmt.Errorf("threadgen: func initThreadLookup not found")
	}
	in := newInterp(p)
	in.rowsMode = true
	fr := newFrame(fd)
	res, err := in.block(fd.Body.List, fr)
	if err != nil {
		return nil, err
	}
	if res == nil || res.k != kDB {
		return nil, fmt.Errorf("%s: initThreadLookup does not return the database it filled", p.pos(fd))
	}
	if len(in.stores) != 0 || len(in.guards) != 0 {
		return nil, fmt.Errorf("%s: initThreadLookup stores into the database directly; rows are expected to go through the Add methods", p.pos(fd))
	}
	if len(in.rows) == 0 {
		return nil, fmt.Errorf("threadgen: no rows found in initThreadLookup")
	}
	return in.rows, nil
}

func coqQ(q *big.Rat) string {
	return fmt.Sprintf("(%s # %s)", zlit(q.Num()), q.Denom().String())
}
func zlit(z *big.Int) string {
	if z.Sign() < 0 {
		return "(" + z.String() + ")"
	}
	return z.String()
}

// ---------------------------------------------------------------- the Add methods and ToMillimetre

// structInfo describes a struct type of package sdf
func (p *pkg) structInfo(name string) (*structInfo, error) {
	if i, ok := p.sinfo[name]; ok {
		return i, nil
	}
	st, ok := p.types[name]
	if !ok {
		return nil, fmt.Errorf("threadgen: struct %s not found in package sdf", name)
	}
	info := &structInfo{kinds: map[string]string{}}
	for _, f := range st.Fields.List {
		tn := typeName(f.Type)
		for _, n := range f.Names {
			info.order = append(info.order, n.Name)
			info.kinds[n.Name] = tn
		}
	}
	if name == "ThreadParameters" {
		info.lit = true
	}
	p.sinfo[name] = info
	return info, nil
}

func (p *pkg) structFields(name string) ([]string, map[string]string, error) {
	info, err := p.structInfo(name)
	if err != nil {
		return nil, nil, err
	}
	for _, f := range info.order {
		if k := info.kinds[f]; k != "string" && k != "float64" {
			return nil, nil, fmt.Errorf("threadgen: struct %s: field %s has type %s, the translator understands string and float64", name, f, k)
		}
	}
	return info.order, info.kinds, nil
}

// addFn translates a threadDatabase.XXXAdd method by symbolic execution (calls of unexported
// helpers are followed): returns the Gallina definition, the float parameters and those of them
// that must be > 0 (the function panics otherwise).
func (p *pkg) addFn(fn string, order []string, kinds map[string]string) (string, []string, []string, error) {
	fd, ok := p.funcs["threadDatabase."+fn]
	if !ok {
		return "", nil, nil, fmt.Errorf("threadgen: method %s not found", fn)
	}
	in := newInterp(p)
	fr := newFrame(fd)
	if len(fd.Recv.List) == 1 && len(fd.Recv.List[0].Names) == 1 {
		fr.vars[fd.Recv.List[0].Names[0].Name] = &cell{v: &val{k: kDB}}
	}
	var params, binders []string
	for i, q := range paramList(fd.Type.Params) {
		switch {
		case i == 0 && q[1] == "string":
			fr.vars[q[0]] = &cell{v: &val{k: kStr, s: "name"}}
		case q[1] == "float64":
			params = append(params, q[0])
			binders = append(binders, coqIdent(q[0]))
			fr.vars[q[0]] = &cell{v: &val{k: kFloat, s: coqIdent(q[0]), param: q[0]}}
		default:
			return "", nil, nil, fmt.Errorf("%s: %s: parameter %s of type %s (expected name string, then float64 parameters)", p.pos(fd), fn, q[0], q[1])
		}
	}
	res, err := in.block(fd.Body.List, fr)
	if err != nil {
		return "", nil, nil, err
	}
	if res != nil && res.k != kNone {
		return "", nil, nil, fmt.Errorf("%s: %s returns a value", p.pos(fd), fn)
	}
	if len(in.stores) != 1 {
		return "", nil, nil, fmt.Errorf("%s: %s stores %d records into the database, expected one", p.pos(fd), fn, len(in.stores))
	}
	st := in.stores[0]
	if st.key.s != "name" {
		return "", nil, nil, fmt.Errorf("%s: %s stores its record under a key that is not the name parameter", p.pos(fd), fn)
	}
	rec := st.ptr.cell.v.rec
	var guards []string
	for _, g := range in.guards {
		guards = append(guards, g.param)
	}
	lit, err := in.recTerm(fd, rec)
	if err != nil {
		return "", nil, nil, err
	}
	var b strings.Builder
	fmt.Fprintf(&b, "  Definition %s (name : string) (%s : T O) : ThreadParameters :=\n    %s.\n", fn, strings.Join(binders, " "), lit)
	return b.String(), params, guards, nil
}

// toMM translates ThreadParameters.ToMillimetre.
func (p *pkg) toMM(order []string, kinds map[string]string) (string, error) {
	fd, ok := p.funcs["ThreadParameters.ToMillimetre"]
	if !ok {
		return "", fmt.Errorf("threadgen: method ToMillimetre not found")
	}
	if len(paramList(fd.Type.Params)) != 0 || fd.Recv == nil || len(fd.Recv.List[0].Names) != 1 {
		return "", fmt.Errorf("%s: ToMillimetre: unexpected signature", p.pos(fd))
	}
	in := newInterp(p)
	fr := newFrame(fd)
	recv := fd.Recv.List[0].Names[0].Name
	rv := &val{k: kRec, rec: &record{typ: "ThreadParameters", whole: coqIdent(recv), f: map[string]*val{}}}
	if strings.HasPrefix(typeName(fd.Recv.List[0].Type), "*") {
		fr.vars[recv] = &cell{v: &val{k: kPtr, cell: &cell{v: rv}}}
	} else {
		fr.vars[recv] = &cell{v: rv}
	}
	res, err := in.block(fd.Body.List, fr)
	if err != nil {
		return "", err
	}
	if res == nil {
		return "", fmt.Errorf("%s: ToMillimetre does not return on every path", p.pos(fd))
	}
	if len(in.guards) != 0 || len(in.stores) != 0 {
		return "", fmt.Errorf("%s: ToMillimetre has effects", p.pos(fd))
	}
	if res.k == kPtr {
		res = res.cell.v
	}
	if res.k != kRec || res.rec.typ != "ThreadParameters" {
		return "", fmt.Errorf("%s: ToMillimetre does not return a ThreadParameters", p.pos(fd))
	}
	t, err := in.recTerm(fd, res.rec)
	if err != nil {
		return "", err
	}
	return fmt.Sprintf("  Definition ToMillimetre (%s : ThreadParameters) : ThreadParameters :=\n    %s.\n", coqIdent(recv), t), nil
}

// Generate produces the text of coq/Generated/Threads.v and the rows.
func Generate(repo string) ([]byte, []Row, error) {
	p, err := loadPkg(repo)
	if err != nil {
		return nil, nil, err
	}
	rows, err := p.Rows()
	if err != nil {
		return nil, nil, err
	}
	order, kinds, err := p.structFields("ThreadParameters")
	if err != nil {
		return nil, nil, err
	}
	var b strings.Builder
	b.WriteString("(* GENERATED by harness/threadgen from sdf/screw.go and sdf/utils.go on every run - do not edit. *)\n")
	b.WriteString("From Coq Require Import ZArith QArith String List.\nFrom Sdfx Require Import Num.Ops.\nImport ListNotations OpsNotations.\nLocal Open Scope ops_scope.\n\n")
	b.WriteString("Section Threads.\n  Context {O : Ops}.\n\n")
	b.WriteString("  (* type ThreadParameters struct *)\n  Record ThreadParameters : Type := mkThreadParameters {\n")
	for i, f := range order {
		t := "T O"
		if kinds[f] == "string" {
			t = "string"
		}
		sep := ";"
		if i == len(order)-1 {
			sep = ""
		}
		fmt.Fprintf(&b, "    %s : %s%s\n", f, t, sep)
	}
	b.WriteString("  }.\n\n")
	fns := []string{}
	seen := map[string]bool{}
	for _, r := range rows {
		if !seen[r.Fn] {
			seen[r.Fn] = true
			fns = append(fns, r.Fn)
		}
	}
	sort.Strings(fns)
	arity := map[string]int{}
	guards := map[string][]string{}
	pnames := map[string][]string{}
	for _, fn := range fns {
		def, params, gs, err := p.addFn(fn, order, kinds)
		if err != nil {
			return nil, nil, err
		}
		fmt.Fprintf(&b, "  (* func (m threadDatabase) %s; panics unless %s > 0 *)\n", fn, strings.Join(gs, ", "))
		b.WriteString(def)
		b.WriteString("\n")
		arity[fn] = len(params)
		guards[fn] = gs
		pnames[fn] = params
		if len(params) != 3 {
			return nil, nil, fmt.Errorf("threadgen: %s takes %d float parameters, the row format expects 3", fn, len(params))
		}
	}
	mm, err := p.toMM(order, kinds)
	if err != nil {
		return nil, nil, err
	}
	b.WriteString("  (* func (t *ThreadParameters) ToMillimetre *)\n")
	b.WriteString(mm)
	b.WriteString("End Threads.\n\n")
	b.WriteString("Arguments ThreadParameters : clear implicits.\n\n")

	for _, c := range []string{"MillimetresPerInch", "InchesPerMillimetre"} {
		q, err := p.ConstRat(c)
		if err != nil {
			return nil, nil, err
		}
		fmt.Fprintf(&b, "Definition %s_q : Q := %s.\n", c, coqQ(q))
	}
	b.WriteString("\n(* which Add method a row calls *)\nInductive addfn : Set :=")
	for _, fn := range fns {
		fmt.Fprintf(&b, " | %s_row", fn)
	}
	b.WriteString(".\n\n")
	b.WriteString("(* index (0-based) of the parameters each Add method requires to be > 0 *)\nDefinition add_guards (f : addfn) : list nat :=\n  match f with\n")
	for _, fn := range fns {
		var idx []string
		for _, g := range guards[fn] {
			for i, n := range pnames[fn] {
				if n == g {
					idx = append(idx, strconv.Itoa(i))
				}
			}
		}
		fmt.Fprintf(&b, "  | %s_row => [%s]%%nat\n", fn, strings.Join(idx, "; "))
	}
	b.WriteString("  end.\n\n")
	b.WriteString("Definition apply_add {O : Ops} (f : addfn) (name : string) (a b c : T O) : ThreadParameters O :=\n  match f with\n")
	for _, fn := range fns {
		fmt.Fprintf(&b, "  | %s_row => %s name a b c\n", fn, fn)
	}
	b.WriteString("  end.\n\n")
	b.WriteString("(* initThreadLookup: every call, in source order; arguments are the exact values of the Go constant expressions *)\n")
	b.WriteString("Definition thread_rows : list (string * addfn * (Q * Q * Q)) := [\n")
	for i, r := range rows {
		if len(r.Args) != 3 {
			return nil, nil, fmt.Errorf("%s: %d arguments, expected 3", r.Src, len(r.Args))
		}
		sep := ";"
		if i == len(rows)-1 {
			sep = ""
		}
		fmt.Fprintf(&b, "  (%s, %s_row, (%s, %s, %s))%s\n", coqString(r.Name), r.Fn, coqQ(r.Args[0]), coqQ(r.Args[1]), coqQ(r.Args[2]), sep)
	}
	b.WriteString("].\n")
	return []byte(b.String()), rows, nil
}

// Gen is the kit.GenFn of this translator.
func Gen(c *kit.Ctx) (string, []byte, error) {
	b, _, err := Generate(c.Repo)
	return "Threads.v", b, err
}
