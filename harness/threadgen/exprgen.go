package threadgen

// Second output of this translator: coq/Generated/ThreadExpr.v - the numeric code of the screw
// itself, translated from the Go AST of the CURRENT sdf/screw.go and sdf/utils.go on every run:
//
//	SawTooth, DtoR                  (utils.go)     -> gen_SawTooth, gen_DtoR
//	Screw3D                         (constructor)  -> gen_Screw3D : option (fields of ScrewSDF3)
//	ScrewSDF3.Evaluate                             -> gen_ScrewSDF3_Evaluate
//	ISOThread                                      -> gen_ISOThread : the vertex list handed to Polygon2D
//
// coq/Sdf/ScrewEq.v proves the generated definitions equal to the hand-written model
// (coq/Sdf/Screw.v) the theorems of C18 are about; Props/C18.v requires those equalities.

import (
	"fmt"
	"go/ast"
	"sort"
	"strings"

	"verifharness/kit"
)

// usedFields lists the fields of the receiver a method body mentions, in declaration order
func usedFields(fd *ast.FuncDecl, recv string, info *structInfo) []string {
	used := map[string]bool{}
	ast.Inspect(fd.Body, func(n ast.Node) bool {
		if sel, ok := n.(*ast.SelectorExpr); ok {
			if id, ok := sel.X.(*ast.Ident); ok && id.Name == recv {
				used[sel.Sel.Name] = true
			}
		}
		return true
	})
	var out []string
	for _, f := range info.order {
		if used[f] {
			out = append(out, f)
		}
	}
	return out
}

type binder struct{ name, typ string }

func bindersText(bs []binder) string {
	var parts []string
	for i := 0; i < len(bs); {
		j := i
		var names []string
		for j < len(bs) && bs[j].typ == bs[i].typ {
			names = append(names, bs[j].name)
			j++
		}
		parts = append(parts, fmt.Sprintf("(%s : %s)", strings.Join(names, " "), bs[i].typ))
		i = j
	}
	return strings.Join(parts, " ")
}

// bindParam creates the symbolic value of a parameter (or receiver field) of a Go type
func (in *interp) bindParam(n ast.Node, goName, coqName, tn string) (*val, []binder, error) {
	in.reserve(coqName)
	switch tn {
	case "float64":
		return &val{k: kFloat, s: coqName, param: goName}, []binder{{coqName, "T O"}}, nil
	case "int":
		return &val{k: kInt, s: coqName}, []binder{{coqName, "Z"}}, nil
	case "bool":
		return &val{k: kBool, s: coqName}, []binder{{coqName, "bool"}}, nil
	case "v2.Vec":
		return &val{k: kRec, rec: &record{typ: tn, whole: coqName, f: map[string]*val{}}}, []binder{{coqName, "V2 O"}}, nil
	case "v3.Vec":
		return &val{k: kRec, rec: &record{typ: tn, whole: coqName, f: map[string]*val{}}}, []binder{{coqName, "V3 O"}}, nil
	case "Box2", "Box3":
		return &val{k: kRec, rec: &record{typ: tn, whole: coqName, f: map[string]*val{}}}, []binder{{coqName, tn + " O"}}, nil
	case "SDF2":
		in.reserve(coqName + "_nil")
		in.reserve(coqName + "_bb")
		v := &val{k: kIface, iface: &iface{name: coqName, isNil: coqName + "_nil",
			methods: map[string]string{"Evaluate": coqName, "BoundingBox": coqName + "_bb", "BoundingBox:type": "Box2"}}}
		return v, []binder{{coqName + "_nil", "bool"}, {coqName, "V2 O -> T O"}, {coqName + "_bb", "Box2 O"}}, nil
	}
	return nil, nil, in.errf(n, "parameter %s of type %s: not understood by the translator", goName, tn)
}

// ifaceUses reports which of nil-test / Evaluate / BoundingBox of an interface parameter the body uses,
// so that the generated definition only takes the parameters it needs
func ifaceUses(fd *ast.FuncDecl, names ...string) (isNil, eval, bb bool) {
	match := func(e ast.Expr) bool {
		switch e := e.(type) {
		case *ast.Ident:
			for _, n := range names {
				if e.Name == n {
					return true
				}
			}
		case *ast.SelectorExpr:
			if id, ok := e.X.(*ast.Ident); ok {
				for _, n := range names {
					if id.Name+"."+e.Sel.Name == n {
						return true
					}
				}
			}
		}
		return false
	}
	ast.Inspect(fd.Body, func(n ast.Node) bool {
		switch n := n.(type) {
		case *ast.BinaryExpr:
			if id, ok := n.Y.(*ast.Ident); ok && id.Name == "nil" && match(n.X) {
				isNil = true
			}
			if id, ok := n.X.(*ast.Ident); ok && id.Name == "nil" && match(n.Y) {
				isNil = true
			}
		case *ast.CallExpr:
			// any x.Evaluate(..) / x.BoundingBox() of the body (the value may have been stored in a struct first)
			if sel, ok := n.Fun.(*ast.SelectorExpr); ok {
				switch sel.Sel.Name {
				case "Evaluate":
					eval = true
				case "BoundingBox":
					bb = true
				}
			}
		}
		return true
	})
	return
}

func filterIface(bs []binder, base string, isNil, eval, bb bool) []binder {
	var out []binder
	for _, b := range bs {
		switch b.name {
		case base + "_nil":
			if !isNil {
				continue
			}
		case base:
			if !eval {
				continue
			}
		case base + "_bb":
			if !bb {
				continue
			}
		}
		out = append(out, b)
	}
	return out
}

// genFunc translates a function or method that returns a value into one Gallina definition.
func (p *pkg) genFunc(in *interp, key, defName string) (string, error) {
	fd, ok := p.funcs[key]
	if !ok {
		return "", fmt.Errorf("threadgen: %s not found in package sdf", key)
	}
	if fd.Body == nil {
		return "", fmt.Errorf("%s: %s has no body", p.pos(fd), key)
	}
	sub := &interp{p: p, defs: in.defs, busy: in.busy, fresh: map[string]int{}}
	sub.defOrder = in.defOrder
	defer func() { in.defOrder = sub.defOrder }()
	fr := newFrame(fd)
	var bs []binder
	if fd.Recv != nil {
		if len(fd.Recv.List) != 1 || len(fd.Recv.List[0].Names) != 1 {
			return "", fmt.Errorf("%s: receiver of %s", p.pos(fd), key)
		}
		recv := fd.Recv.List[0].Names[0].Name
		tn := strings.TrimPrefix(typeName(fd.Recv.List[0].Type), "*")
		info, err := p.structInfo(tn)
		if err != nil {
			return "", err
		}
		rec := &record{typ: tn, f: map[string]*val{}}
		for _, f := range usedFields(fd, recv, info) {
			v, b, err := sub.bindParam(fd, recv+"."+f, coqIdent(recv)+"_"+f, info.kinds[f])
			if err != nil {
				return "", err
			}
			if v.k == kIface {
				n, e, bb := ifaceUses(fd, recv+"."+f)
				b = filterIface(b, coqIdent(recv)+"_"+f, n, e, bb)
			}
			v.param = ""
			rec.f[f] = v
			bs = append(bs, b...)
		}
		// fields the body does not mention have no value here: reading one is an error
		for _, f := range info.order {
			if _, ok := rec.f[f]; !ok {
				rec.f[f] = &val{k: kNone}
			}
		}
		rv := &val{k: kRec, rec: rec}
		if strings.HasPrefix(typeName(fd.Recv.List[0].Type), "*") {
			fr.vars[recv] = &cell{v: &val{k: kPtr, cell: &cell{v: rv}}}
		} else {
			fr.vars[recv] = &cell{v: rv}
		}
	}
	for _, q := range paramList(fd.Type.Params) {
		if q[0] == "_" {
			continue
		}
		v, b, err := sub.bindParam(fd, q[0], coqIdent(q[0]), q[1])
		if err != nil {
			return "", err
		}
		if v.k == kIface {
			n, e, bb := ifaceUses(fd, q[0])
			b = filterIface(b, coqIdent(q[0]), n, e, bb)
		}
		fr.vars[q[0]] = &cell{v: v}
		bs = append(bs, b...)
	}
	t, err := sub.blockTerm(fd.Body.List, fr, "    ")
	if err != nil {
		return "", err
	}
	if len(sub.guards) > 0 || len(sub.stores) > 0 {
		return "", fmt.Errorf("%s: %s has effects", p.pos(fd), key)
	}
	return fmt.Sprintf("  (* %s: func %s *)\n  Definition %s %s :=\n%s.\n", p.rel(fd), key, defName, bindersText(bs), t), nil
}

// ExprTargets: Go function -> name of the generated definition
var ExprTargets = [][2]string{
	{"SawTooth", "gen_SawTooth"},
	{"DtoR", "gen_DtoR"},
	{"Screw3D", "gen_Screw3D"},
	{"ScrewSDF3.Evaluate", "gen_ScrewSDF3_Evaluate"},
	{"ISOThread", "gen_ISOThread"},
}

// The other profile constructors (AcmeThread, ANSIButtressThread, PlasticButtressThread) translate too
//, but no theorem of C18 speaks about them, so they are not part of the generated file:
// an edit of one of them must not be able to break this check.

// GenerateExpr produces the text of coq/Generated/ThreadExpr.v.
func GenerateExpr(repo string) ([]byte, error) {
	p, err := loadPkg(repo)
	if err != nil {
		return nil, err
	}
	in := newInterp(p)
	var texts []string
	for _, t := range ExprTargets {
		fd := p.funcs[t[0]]
		if fd != nil && fd.Recv == nil && isFloatFunc(fd) {
			if _, err := in.defineFloatFunc(fd); err != nil {
				return nil, err
			}
			continue
		}
		s, err := p.genFunc(in, t[0], t[1])
		if err != nil {
			return nil, err
		}
		texts = append(texts, s)
	}
	var b strings.Builder
	b.WriteString("(* GENERATED by harness/threadgen from sdf/screw.go and sdf/utils.go of the current source tree - do not edit.\n")
	b.WriteString("   One definition per Go function, one `let` per Go statement that gives a number a new value; receiver\n")
	b.WriteString("   fields s.f are the parameters s_f; an SDF2 value x is its Evaluate function x, its bounding box x_bb and\n")
	b.WriteString("   the flag x_nil; a constructor returns None where Go returns an error; Polygon2D(p.Vertices()) is the list\n")
	b.WriteString("   of vertices added to p (pvn = Add, pvs = Add(...).Smooth).  Sdf/ScrewEq.v proves these equal to Sdf/Screw.v. *)\n")
	b.WriteString("From Coq Require Import ZArith List Bool.\nFrom Sdfx Require Import Num.Ops Geo.Vec Geo.Box Sdf.Screw.\nImport OpsNotations ListNotations.\nLocal Open Scope ops_scope.\n\n")
	b.WriteString("Section ThreadExpr.\n  Context {O : Ops}.\n\n")
	// Records for the structs the constructors return
	var recs []string
	for n := range p.needRecord {
		recs = append(recs, n)
	}
	sort.Strings(recs)
	for _, n := range recs {
		info, err := p.structInfo(n)
		if err != nil {
			return nil, err
		}
		fmt.Fprintf(&b, "  (* type %s struct: its numeric fields *)\n  Record G%s := mkG%s {\n", n, n, n)
		var fs []string
		for _, f := range info.order {
			t := map[string]string{"float64": "T O", "int": "Z", "Box2": "Box2 O", "Box3": "Box3 O", "v2.Vec": "V2 O", "v3.Vec": "V3 O"}[info.kinds[f]]
			if t != "" {
				fs = append(fs, fmt.Sprintf("    %s_%s : %s", n, f, t))
			}
		}
		b.WriteString(strings.Join(fs, ";\n") + "\n  }.\n\n")
	}
	// the functions from numbers to a number first (in dependency order), then the other targets
	for _, d := range in.defOrder {
		b.WriteString(in.defs[d])
		b.WriteString("\n")
	}
	for _, t := range texts {
		b.WriteString(t)
		b.WriteString("\n")
	}
	b.WriteString("End ThreadExpr.\n")
	return []byte(b.String()), nil
}

func isFloatFunc(fd *ast.FuncDecl) bool {
	if fd.Type.Results == nil || len(paramList(fd.Type.Results)) != 1 || typeName(fd.Type.Results.List[0].Type) != "float64" {
		return false
	}
	for _, q := range paramList(fd.Type.Params) {
		if q[1] != "float64" {
			return false
		}
	}
	return true
}

// GenExpr is the kit.GenFn writing coq/Generated/ThreadExpr.v.
func GenExpr(c *kit.Ctx) (string, []byte, error) {
	b, err := GenerateExpr(c.Repo)
	return "ThreadExpr.v", b, err
}
