package threadgen

// A small symbolic interpreter for the loop-free Go code this translator reads: the bodies of the
// thread database's Add methods and of ToMillimetre (threadgen.go), and SawTooth / DtoR /
// Screw3D / ScrewSDF3.Evaluate / the thread profile constructors (exprgen.go).
//
// Every Go value is a symbolic value: a float64 is a Gallina term over the Ops record, a struct
// is a map from field names to symbolic values, a pointer is a reference to a cell, the thread
// database is a token with recorded stores, a *Polygon is the list of vertices added so far.
// Statements are executed on an environment of cells, so that a behaviour-preserving rewrite
// (a local variable, a keyed literal instead of field assignments, a named constant, a body
// moved into an unexported helper that is called instead) gives the same symbolic result.
// Calls of functions of the same package are followed: procedures are inlined, functions that
// return a number become their own Gallina definition (`gen_<name>`).  Anything else is an
// error - a broken tie, never skipped.

import (
	"fmt"
	"go/ast"
	"go/constant"
	"go/token"
	"math"
	"math/big"
	"sort"
	"strconv"
	"strings"
)

type kind int

const (
	kNone  kind = iota
	kConst      // untyped numeric constant (exact)
	kFloat      // float64: Gallina term of type T O
	kInt        // int: Gallina term of type Z
	kBool       // Gallina bool
	kStr        // Gallina string
	kRec        // struct value
	kPtr        // pointer to a cell
	kDB         // the thread database (map[string]*ThreadParameters)
	kPoly       // *Polygon under construction
	kPolyV      // *PolygonVertex: the vertex just added
	kVerts      // []v2.Vec: p.Vertices()
	kIface      // an interface value whose methods are Gallina functions (SDF2)
	kNil        // nil
	kErr        // a non-nil error
	kTuple      // several results
	kOpt        // (value, error): None when the error is not nil
	kSlice      // a slice literal: its elements
	kSk         // a shape of package obj's generators: a skeleton term (Sdf/ObjSkel.v)
	kMat        // a transformation matrix: only Translate3d
)

type val struct {
	k     kind
	s     string         // Gallina term (kFloat, kInt, kBool, kStr, kVerts, kOpt)
	cv    constant.Value // exact value of a constant (kConst; kStr when the string is a constant)
	expr  ast.Expr       // kConst: the Go expression, for the structural print
	param string         // kFloat: set when the value is exactly this parameter of the function being generated
	rec   *record        // kRec
	cell  *cell          // kPtr
	poly  *poly          // kPoly, kPolyV (the polygon the vertex belongs to)
	vidx  int            // kPolyV: index into poly.elems
	iface *iface         // kIface
	elems []*val         // kTuple
	sk2   bool           // kSk: a 2D profile
}

type record struct {
	typ   string          // Go type name: ThreadParameters, v2.Vec, v3.Vec, Box2, Box3, ScrewSDF3, ...
	whole string          // when the struct is an unmodified Gallina variable/term: that term
	f     map[string]*val // explicit field values (override `whole`)
}

type cell struct {
	v     *val
	scope int // nesting depth of the block that declared the variable
}

type pvert struct {
	x, y   string
	smooth bool
	r, n   string
}

type poly struct {
	base  string // Gallina term of the vertices before elems ("" = none)
	elems []pvert
}

type iface struct {
	name    string            // Gallina name prefix
	methods map[string]string // method -> Gallina function/term
	isNil   string            // Gallina bool term: the interface value is nil
}

// structural description of the struct types the interpreter builds
type structInfo struct {
	order []string
	kinds map[string]string // field -> float64 | string | int | v2.Vec | v3.Vec | SDF2 | Box3 | ...
	ctor  string            // Gallina constructor when the struct has a fixed Gallina type ("" = none)
	lit   bool              // printed as a record literal {| f := v; ... |}
	proj  map[string]string // field -> Gallina projection
}

var vecInfo = map[string]*structInfo{
	"v2.Vec": {order: []string{"X", "Y"}, kinds: map[string]string{"X": "float64", "Y": "float64"}, ctor: "mkV2", proj: map[string]string{"X": "vx", "Y": "vy"}},
	"v3.Vec": {order: []string{"X", "Y", "Z"}, kinds: map[string]string{"X": "float64", "Y": "float64", "Z": "float64"}, ctor: "mkV3", proj: map[string]string{"X": "wx", "Y": "wy", "Z": "wz"}},
	"Box2":   {order: []string{"Min", "Max"}, kinds: map[string]string{"Min": "v2.Vec", "Max": "v2.Vec"}, ctor: "mkBox2", proj: map[string]string{"Min": "b2min", "Max": "b2max"}},
	"Box3":   {order: []string{"Min", "Max"}, kinds: map[string]string{"Min": "v3.Vec", "Max": "v3.Vec"}, ctor: "mkBox3", proj: map[string]string{"Min": "b3min", "Max": "b3max"}},
}

type guard struct {
	param string // the top-level parameter that must be > 0
}

type store struct {
	key *val
	ptr *val
}

type interp struct {
	p      *pkg
	guards []guard
	stores []store
	depth  int
	// functions translated to their own definition, in dependency order
	defs     map[string]string
	defOrder []string
	busy     map[string]bool
	fresh    map[string]int
	// obj mode: calls of shape constructors become skeleton terms; other packages by import name
	objMode      bool
	ext          map[string]*pkg
	extraBinders []binder
	// rows mode (initThreadLookup): a call of an exported method of the database is a row
	rowsMode bool
	rows     []Row
}

func newInterp(p *pkg) *interp {
	return &interp{p: p, defs: map[string]string{}, busy: map[string]bool{}, fresh: map[string]int{}}
}

type frame struct {
	vars  map[string]*cell
	fn    *ast.FuncDecl
	scope int // nesting depth of the block being executed
}

func newFrame(fn *ast.FuncDecl) *frame { return &frame{vars: map[string]*cell{}, fn: fn} }

// clone copies every cell (and the mutable objects in it), preserving aliasing between cells.
func (fr *frame) clone() *frame {
	c := &frame{vars: map[string]*cell{}, fn: fr.fn, scope: fr.scope + 1}
	cm := map[*cell]*cell{}
	pm := map[*poly]*poly{}
	var cpCell func(x *cell) *cell
	var cpVal func(v *val) *val
	cpVal = func(v *val) *val {
		if v == nil {
			return nil
		}
		n := *v
		if v.rec != nil {
			r := &record{typ: v.rec.typ, whole: v.rec.whole, f: map[string]*val{}}
			for k, fv := range v.rec.f {
				r.f[k] = cpVal(fv)
			}
			n.rec = r
		}
		if v.cell != nil {
			n.cell = cpCell(v.cell)
		}
		if v.poly != nil {
			q, ok := pm[v.poly]
			if !ok {
				q = &poly{base: v.poly.base, elems: append([]pvert(nil), v.poly.elems...)}
				pm[v.poly] = q
			}
			n.poly = q
		}
		if v.elems != nil {
			n.elems = nil
			for _, e := range v.elems {
				n.elems = append(n.elems, cpVal(e))
			}
		}
		return &n
	}
	cpCell = func(x *cell) *cell {
		if y, ok := cm[x]; ok {
			return y
		}
		y := &cell{scope: x.scope}
		cm[x] = y
		y.v = cpVal(x.v)
		return y
	}
	for k, x := range fr.vars {
		c.vars[k] = cpCell(x)
	}
	return c
}

func (in *interp) errf(n ast.Node, format string, a ...interface{}) error {
	return fmt.Errorf("%s: %s", in.p.pos(n), fmt.Sprintf(format, a...))
}

// ---------------------------------------------------------------- constants

var (
	ratHalf = big.NewRat(1, 2)
	limit53 = new(big.Int).Lsh(big.NewInt(1), 53)
)

const piLiteral = "3.14159265358979323846264338327950288419716939937510582097494459"

// an integer float64 represents exactly
func exactFloat(z *big.Int) bool {
	if z.Sign() == 0 {
		return true
	}
	a := new(big.Int).Abs(z)
	odd := new(big.Int).Rsh(a, a.TrailingZeroBits())
	return odd.Cmp(limit53) < 0 && a.BitLen() < 1000
}

// ratCanon prints an exact constant in the convention of the hand-written models: 0, 1, 2, 1/2
// by name, integers through ofZ, other rationals n/d (lowest terms, n and d exact in float64) as
// `cst n d` = the correctly rounded quotient, which is how the Go compiler rounds the constant.
func ratCanon(r *big.Rat) (string, bool) {
	if r.Sign() < 0 {
		s, ok := ratCanon(new(big.Rat).Neg(r))
		return "(- " + s + ")", ok
	}
	if r.IsInt() {
		n := r.Num()
		switch {
		case n.Sign() == 0:
			return "(o0 O)", true
		case n.Cmp(big.NewInt(1)) == 0:
			return "(o1 O)", true
		case n.Cmp(big.NewInt(2)) == 0:
			return "two", true
		case exactFloat(n):
			return "(ofZ O " + n.String() + ")", true
		}
		return "", false
	}
	if r.Cmp(ratHalf) == 0 {
		return "half", true
	}
	if exactFloat(r.Num()) && exactFloat(r.Denom()) {
		return fmt.Sprintf("(cst %s %s)", r.Num(), r.Denom()), true
	}
	return "", false
}

func exactOp(op token.Token, a, b *big.Rat) *big.Rat {
	switch op {
	case token.ADD:
		return new(big.Rat).Add(a, b)
	case token.SUB:
		return new(big.Rat).Sub(a, b)
	case token.MUL:
		return new(big.Rat).Mul(a, b)
	case token.QUO:
		if b.Sign() != 0 {
			return new(big.Rat).Quo(a, b)
		}
	}
	return nil
}

// The compiler evaluates a constant expression exactly and rounds once; a structural model rounds
// the operands and applies the float64 operation.  For given constants the two are compared here.
func sameWhenRounded(op token.Token, a, b *big.Rat) bool {
	r := exactOp(op, a, b)
	if r == nil {
		return false
	}
	fa, _ := a.Float64()
	fb, _ := b.Float64()
	want, _ := r.Float64()
	var got float64
	switch op {
	case token.ADD:
		got = fa + fb
	case token.SUB:
		got = fa - fb
	case token.MUL:
		got = fa * fb
	case token.QUO:
		got = fa / fb
	}
	return got == want && !math.IsInf(got, 0)
}

// constFloat prints a numeric constant expression used as a float64: canonically when its exact
// value has a canonical print, else structurally (Pi/180, 2*Pi, ...) after checking that float64
// evaluation of the structure yields the correctly rounded exact value.
func (in *interp) constFloat(e ast.Expr, cv constant.Value) (string, error) {
	q, err := toRat(cv)
	if err != nil {
		return "", in.errf(e, "%v", err)
	}
	if s, ok := ratCanon(q); ok {
		return s, nil
	}
	if e == nil {
		return "", fmt.Errorf("threadgen: constant %s has no exact print", cv.ExactString())
	}
	switch e := e.(type) {
	case *ast.ParenExpr:
		return in.constFloat(e.X, cv)
	case *ast.Ident:
		if d, ok := in.p.consts[e.Name]; ok {
			return in.constFloat(d, cv)
		}
	case *ast.SelectorExpr:
		if id, ok := e.X.(*ast.Ident); ok && id.Name == "math" && e.Sel.Name == "Pi" {
			return "(opi O)", nil
		}
	case *ast.UnaryExpr:
		if e.Op == token.SUB {
			x, err := in.p.constEval(e.X, 0)
			if err != nil {
				return "", err
			}
			s, err := in.constFloat(e.X, x)
			return "(- " + s + ")", err
		}
		if e.Op == token.ADD {
			return in.constFloat(e.X, cv)
		}
	case *ast.BinaryExpr:
		x, err := in.p.constEval(e.X, 0)
		if err != nil {
			return "", err
		}
		y, err := in.p.constEval(e.Y, 0)
		if err != nil {
			return "", err
		}
		if e.Op == token.QUO && x.Kind() == constant.Int && y.Kind() == constant.Int {
			break // integer division: no structural float form
		}
		qx, err1 := toRat(x)
		qy, err2 := toRat(y)
		if err1 != nil || err2 != nil || !sameWhenRounded(e.Op, qx, qy) {
			return "", in.errf(e, "constant expression %s is folded exactly by the compiler; its float64 evaluation differs", cv.String())
		}
		sx, err := in.constFloat(e.X, x)
		if err != nil {
			return "", err
		}
		sy, err := in.constFloat(e.Y, y)
		if err != nil {
			return "", err
		}
		return fmt.Sprintf("(%s %s %s)", sx, e.Op.String(), sy), nil
	}
	return "", in.errf(e, "constant %s: no exact print as n/d with n, d exact in float64", cv.String())
}

// ---------------------------------------------------------------- conversions of symbolic values

func (in *interp) toFloat(n ast.Node, v *val) (string, error) {
	switch v.k {
	case kFloat:
		return v.s, nil
	case kConst:
		return in.constFloat(v.expr, v.cv)
	}
	return "", in.errf(n, "a float64 value is expected here")
}

func (in *interp) toInt(n ast.Node, v *val) (string, error) {
	switch v.k {
	case kInt:
		return v.s, nil
	case kConst:
		if v.cv.Kind() == constant.Int || constant.ToInt(v.cv).Kind() == constant.Int {
			z := constant.ToInt(v.cv)
			s := z.ExactString()
			if strings.HasPrefix(s, "-") {
				s = "(" + s + ")"
			}
			return s + "%Z", nil
		}
	}
	return "", in.errf(n, "an int value is expected here")
}

func constNat(v *val) (string, bool) {
	if v.k != kConst {
		return "", false
	}
	z := constant.ToInt(v.cv)
	if z.Kind() != constant.Int || constant.Sign(z) < 0 {
		return "", false
	}
	return z.ExactString() + "%nat", true
}

func fl(s string) *val { return &val{k: kFloat, s: s} }

func coqString(s string) string {
	return "\"" + strings.ReplaceAll(s, "\"", "\"\"") + "\"%string"
}

// fieldVal reads a field of a struct value (the Go zero value when it was never set)
func (in *interp) fieldVal(n ast.Node, r *record, name string) (*val, error) {
	if v, ok := r.f[name]; ok {
		return v, nil
	}
	info, err := in.structOf(r.typ)
	if err != nil {
		return nil, in.errf(n, "%v", err)
	}
	kd, ok := info.kinds[name]
	if !ok {
		return nil, in.errf(n, "struct %s has no field %s", r.typ, name)
	}
	if r.whole != "" {
		pr := name
		if info.proj != nil {
			pr = info.proj[name]
		}
		t := fmt.Sprintf("(%s %s)", pr, r.whole)
		switch kd {
		case "float64":
			return fl(t), nil
		case "string":
			return &val{k: kStr, s: t}, nil
		case "int":
			return &val{k: kInt, s: t}, nil
		case "v2.Vec", "v3.Vec", "Box2", "Box3":
			return &val{k: kRec, rec: &record{typ: kd, whole: t, f: map[string]*val{}}}, nil
		}
		return nil, in.errf(n, "field %s of kind %s of a symbolic struct", name, kd)
	}
	return in.zeroOf(n, kd)
}

func (in *interp) zeroOf(n ast.Node, kd string) (*val, error) {
	switch kd {
	case "float64":
		return fl("(o0 O)"), nil
	case "string":
		return &val{k: kStr, s: "EmptyString", cv: constant.MakeString("")}, nil
	case "int":
		return &val{k: kInt, s: "0%Z"}, nil
	case "bool":
		return &val{k: kBool, s: "false"}, nil
	case "SDF2", "SDF3", "error", "sdf.SDF2", "sdf.SDF3":
		return &val{k: kNil}, nil
	}
	if _, err := in.structOf(kd); err == nil {
		return &val{k: kRec, rec: &record{typ: kd, f: map[string]*val{}}}, nil
	}
	return nil, in.errf(n, "zero value of type %s", kd)
}

func (in *interp) structOf(name string) (*structInfo, error) {
	if i, ok := vecInfo[name]; ok {
		return i, nil
	}
	name = strings.TrimPrefix(name, "sdf.")
	if i, err := in.p.structInfo(name); err == nil {
		return i, nil
	}
	for _, q := range in.ext {
		if i, err := q.structInfo(name); err == nil {
			return i, nil
		}
	}
	return in.p.structInfo(name)
}

// findFunc looks a function / method up in the current package, then in the imported ones
func (in *interp) findFunc(key string) (*ast.FuncDecl, *pkg) {
	if fd, ok := in.p.funcs[key]; ok {
		return fd, in.p
	}
	for _, q := range in.ext {
		if fd, ok := q.funcs[key]; ok {
			return fd, q
		}
	}
	return nil, nil
}

// recTerm prints a struct value as a Gallina term (only for the types with a Gallina constructor)
func (in *interp) recTerm(n ast.Node, r *record) (string, error) {
	if r.whole != "" && len(r.f) == 0 {
		return r.whole, nil
	}
	info, err := in.structOf(r.typ)
	if err != nil {
		return "", in.errf(n, "%v", err)
	}
	if info.ctor == "" && !info.lit {
		return "", in.errf(n, "struct %s used as a value", r.typ)
	}
	var parts []string
	for _, f := range info.order {
		v, err := in.fieldVal(n, r, f)
		if err != nil {
			return "", err
		}
		var s string
		switch v.k {
		case kRec:
			s, err = in.recTerm(n, v.rec)
		case kStr, kBool:
			s = v.s
		case kInt:
			s = v.s
		default:
			s, err = in.toFloat(n, v)
		}
		if err != nil {
			return "", err
		}
		if info.lit {
			s = f + " := " + s
		}
		parts = append(parts, s)
	}
	if info.lit {
		return "{| " + strings.Join(parts, ";\n       ") + " |}", nil
	}
	return "(" + info.ctor + " " + strings.Join(parts, " ") + ")", nil
}

// ---------------------------------------------------------------- types

// typeName gives the interpreter's name of a Go type expression
func typeName(e ast.Expr) string {
	switch e := e.(type) {
	case *ast.Ident:
		return e.Name
	case *ast.StarExpr:
		return "*" + typeName(e.X)
	case *ast.SelectorExpr:
		if id, ok := e.X.(*ast.Ident); ok {
			return id.Name + "." + e.Sel.Name
		}
	case *ast.ArrayType:
		if e.Len == nil {
			return "[]" + typeName(e.Elt)
		}
	}
	return "?"
}

// ---------------------------------------------------------------- expressions

var mathFns = map[string]string{"Atan": "oatan", "Tan": "otan", "Sin": "osin", "Cos": "ocos", "Sqrt": "osqrt",
	"Abs": "oabs", "Floor": "ofloor", "Ceil": "oceil", "Acos": "oacos"}
var mathFns2 = map[string]string{"Atan2": "oatan2", "Max": "omax", "Min": "omin", "Mod": "ofmod"}

func (in *interp) lookup(fr *frame, name string) (*cell, bool) {
	c, ok := fr.vars[name]
	return c, ok
}

func (in *interp) eval(e ast.Expr, fr *frame) (*val, error) {
	// compile-time constants first (as the compiler does)
	if in.isConst(e, fr) {
		cv, err := in.p.constEval(e, 0)
		if err != nil {
			return nil, err
		}
		switch cv.Kind() {
		case constant.String:
			return &val{k: kStr, s: coqString(constant.StringVal(cv)), cv: cv}, nil
		case constant.Bool:
			return &val{k: kBool, s: strconv.FormatBool(constant.BoolVal(cv))}, nil
		}
		return &val{k: kConst, cv: cv, expr: e}, nil
	}
	switch e := e.(type) {
	case *ast.ParenExpr:
		return in.eval(e.X, fr)
	case *ast.Ident:
		if e.Name == "nil" {
			return &val{k: kNil}, nil
		}
		if e.Name == "true" || e.Name == "false" {
			return &val{k: kBool, s: e.Name}, nil
		}
		if c, ok := in.lookup(fr, e.Name); ok {
			if c.v == nil {
				return nil, in.errf(e, "variable %s is used before it has a value", e.Name)
			}
			return c.v, nil
		}
		if init, ok := in.p.vars[e.Name]; ok {
			// a package-level variable with a literal initialiser (nothing the translator follows assigns to it)
			if _, isLit := init.(*ast.CompositeLit); isLit {
				return in.eval(init, newFrame(fr.fn))
			}
		}
		return nil, in.errf(e, "unknown identifier %s", e.Name)
	case *ast.SelectorExpr:
		if id, ok := e.X.(*ast.Ident); ok {
			if _, local := in.lookup(fr, id.Name); !local && in.p.imports[id.Name] {
				return nil, in.errf(e, "%s.%s: package member the translator does not understand", id.Name, e.Sel.Name)
			}
		}
		x, err := in.eval(e.X, fr)
		if err != nil {
			return nil, err
		}
		if x.k == kPtr {
			x = x.cell.v
		}
		switch x.k {
		case kRec:
			return in.fieldVal(e, x.rec, e.Sel.Name)
		}
		return nil, in.errf(e, "selector .%s on a value that is not a struct", e.Sel.Name)
	case *ast.StarExpr:
		x, err := in.eval(e.X, fr)
		if err != nil {
			return nil, err
		}
		if x.k != kPtr {
			return nil, in.errf(e, "dereference of a value that is not a pointer")
		}
		return x.cell.v, nil
	case *ast.UnaryExpr:
		switch e.Op {
		case token.AND:
			if id, ok := e.X.(*ast.Ident); ok {
				c, ok := in.lookup(fr, id.Name)
				if !ok {
					return nil, in.errf(e, "unknown identifier %s", id.Name)
				}
				return &val{k: kPtr, cell: c}, nil
			}
			x, err := in.eval(e.X, fr)
			if err != nil {
				return nil, err
			}
			if x.k != kRec {
				return nil, in.errf(e, "address of a value that is not a struct")
			}
			return &val{k: kPtr, cell: &cell{v: x}}, nil
		case token.SUB, token.ADD:
			x, err := in.eval(e.X, fr)
			if err != nil {
				return nil, err
			}
			if x.k == kInt {
				if e.Op == token.ADD {
					return x, nil
				}
				return &val{k: kInt, s: "(- " + x.s + ")%Z"}, nil
			}
			s, err := in.toFloat(e.X, x)
			if err != nil {
				return nil, err
			}
			if e.Op == token.ADD {
				return fl(s), nil
			}
			return fl("(- " + s + ")"), nil
		case token.NOT:
			x, err := in.eval(e.X, fr)
			if err != nil {
				return nil, err
			}
			if x.k != kBool {
				return nil, in.errf(e, "! on a value that is not a bool")
			}
			return &val{k: kBool, s: "(negb " + x.s + ")"}, nil
		}
		return nil, in.errf(e, "unary operator %s", e.Op)
	case *ast.BinaryExpr:
		x, err := in.eval(e.X, fr)
		if err != nil {
			return nil, err
		}
		y, err := in.eval(e.Y, fr)
		if err != nil {
			return nil, err
		}
		return in.binary(e, e.Op, x, y, e.X, e.Y)
	case *ast.CompositeLit:
		return in.composite(e, fr)
	case *ast.CallExpr:
		return in.call(e, fr)
	}
	return nil, in.errf(e, "expression the translator does not understand (%T)", e)
}

// isConst: built from literals and package constants only (no local shadows them)
func (in *interp) isConst(e ast.Expr, fr *frame) bool {
	switch e := e.(type) {
	case *ast.BasicLit:
		return e.Kind == token.INT || e.Kind == token.FLOAT || e.Kind == token.STRING
	case *ast.ParenExpr:
		return in.isConst(e.X, fr)
	case *ast.UnaryExpr:
		return (e.Op == token.SUB || e.Op == token.ADD) && in.isConst(e.X, fr)
	case *ast.BinaryExpr:
		switch e.Op {
		case token.ADD, token.SUB, token.MUL, token.QUO:
			return in.isConst(e.X, fr) && in.isConst(e.Y, fr)
		}
		return false
	case *ast.Ident:
		if _, local := in.lookup(fr, e.Name); local {
			return false
		}
		_, ok := in.p.consts[e.Name]
		return ok
	case *ast.SelectorExpr:
		if id, ok := e.X.(*ast.Ident); ok && id.Name == "math" && e.Sel.Name == "Pi" {
			_, local := in.lookup(fr, "math")
			return !local
		}
	}
	return false
}

func (in *interp) binary(n ast.Node, op token.Token, x, y *val, ex, ey ast.Expr) (*val, error) {
	switch op {
	case token.ADD, token.SUB, token.MUL, token.QUO:
		if x.k == kConst && y.k == kConst {
			// two constants (local ones): folded exactly, as the compiler does
			o := op
			if op == token.QUO {
				if constant.Sign(y.cv) == 0 {
					return nil, in.errf(n, "division by zero")
				}
				if x.cv.Kind() == constant.Int && y.cv.Kind() == constant.Int {
					o = token.QUO_ASSIGN
				}
			}
			return &val{k: kConst, cv: constant.BinaryOp(x.cv, o, y.cv)}, nil
		}
		if x.k == kInt || y.k == kInt {
			a, err := in.toInt(n, x)
			if err != nil {
				return nil, err
			}
			b, err := in.toInt(n, y)
			if err != nil {
				return nil, err
			}
			if op == token.QUO {
				return nil, in.errf(n, "integer division")
			}
			return &val{k: kInt, s: fmt.Sprintf("(%s %s %s)%%Z", strings.TrimSuffix(a, "%Z"), op, strings.TrimSuffix(b, "%Z"))}, nil
		}
		a, err := in.toFloat(ex, x)
		if err != nil {
			return nil, err
		}
		b, err := in.toFloat(ey, y)
		if err != nil {
			return nil, err
		}
		return fl(fmt.Sprintf("(%s %s %s)", a, op, b)), nil
	case token.LSS, token.LEQ, token.GTR, token.GEQ, token.EQL, token.NEQ:
		if x.k == kStr && y.k == kStr {
			if op != token.EQL && op != token.NEQ {
				return nil, in.errf(n, "ordering of strings")
			}
			s := fmt.Sprintf("(String.eqb %s %s)", x.s, y.s)
			if op == token.NEQ {
				s = "(negb " + s + ")"
			}
			return &val{k: kBool, s: s}, nil
		}
		if (x.k == kNil || x.k == kErr) && (y.k == kNil || y.k == kErr) && (op == token.EQL || op == token.NEQ) {
			return &val{k: kBool, s: strconv.FormatBool((x.k == y.k) == (op == token.EQL))}, nil
		}
		if x.k == kNil || y.k == kNil {
			o := x
			if x.k == kNil {
				o = y
			}
			if o.k != kIface || (op != token.EQL && op != token.NEQ) {
				return nil, in.errf(n, "comparison with nil")
			}
			s := o.iface.isNil
			if op == token.NEQ {
				s = "(negb " + s + ")"
			}
			return &val{k: kBool, s: s}, nil
		}
		if x.k == kInt || y.k == kInt {
			a, err := in.toInt(n, x)
			if err != nil {
				return nil, err
			}
			b, err := in.toInt(n, y)
			if err != nil {
				return nil, err
			}
			a, b = strings.TrimSuffix(a, "%Z"), strings.TrimSuffix(b, "%Z")
			m := map[token.Token]string{token.LSS: "(%s <? %s)%%Z", token.LEQ: "(%s <=? %s)%%Z", token.GTR: "(%[2]s <? %[1]s)%%Z",
				token.GEQ: "(%[2]s <=? %[1]s)%%Z", token.EQL: "(%s =? %s)%%Z", token.NEQ: "(negb (%s =? %s)%%Z)"}
			return &val{k: kBool, s: fmt.Sprintf(m[op], a, b)}, nil
		}
		a, err := in.toFloat(ex, x)
		if err != nil {
			return nil, err
		}
		b, err := in.toFloat(ey, y)
		if err != nil {
			return nil, err
		}
		m := map[token.Token]string{token.LSS: "(%s <? %s)", token.LEQ: "(%s <=? %s)", token.GTR: "(%s >? %s)",
			token.GEQ: "(%s >=? %s)", token.EQL: "(%s =? %s)", token.NEQ: "(negb (%s =? %s))"}
		return &val{k: kBool, s: fmt.Sprintf(m[op], a, b)}, nil
	case token.LAND, token.LOR:
		if x.k != kBool || y.k != kBool {
			return nil, in.errf(n, "operator %s on values that are not bool", op)
		}
		return &val{k: kBool, s: fmt.Sprintf("(%s %s %s)", x.s, op, y.s)}, nil
	}
	return nil, in.errf(n, "operator %s", op)
}

// composite literal of a struct type the interpreter knows
func (in *interp) composite(e *ast.CompositeLit, fr *frame) (*val, error) {
	if at, ok := e.Type.(*ast.ArrayType); ok {
		// a slice / array literal of structs or numbers
		var elt ast.Expr = at.Elt
		if st, ok := at.Elt.(*ast.StructType); ok {
			name := fmt.Sprintf("struct@%s", in.p.pos(st))
			in.p.types[name] = st
			elt = ast.NewIdent(name)
		}
		out := &val{k: kSlice}
		for _, el := range e.Elts {
			if _, ok := el.(*ast.KeyValueExpr); ok {
				return nil, in.errf(el, "keyed element of a slice literal")
			}
			if cl, ok := el.(*ast.CompositeLit); ok && cl.Type == nil {
				c2 := *cl
				c2.Type = elt
				el = &c2
			}
			v, err := in.eval(el, fr)
			if err != nil {
				return nil, err
			}
			out.elems = append(out.elems, v)
		}
		return out, nil
	}
	tn := typeName(e.Type)
	if tn == "threadDatabase" && len(e.Elts) == 0 {
		return &val{k: kDB}, nil
	}
	info, err := in.structOf(tn)
	if err != nil {
		return nil, in.errf(e, "composite literal of type %s: %v", tn, err)
	}
	r := &record{typ: tn, f: map[string]*val{}}
	for i, el := range e.Elts {
		var name string
		var ve ast.Expr
		if kv, ok := el.(*ast.KeyValueExpr); ok {
			id, ok := kv.Key.(*ast.Ident)
			if !ok {
				return nil, in.errf(el, "key of a struct literal")
			}
			name, ve = id.Name, kv.Value
		} else {
			if i >= len(info.order) {
				return nil, in.errf(el, "too many values in a struct literal")
			}
			name, ve = info.order[i], el
		}
		kd, ok := info.kinds[name]
		if !ok {
			return nil, in.errf(el, "struct %s has no field %s", tn, name)
		}
		// an untyped composite literal inside a typed one
		if cl, ok := ve.(*ast.CompositeLit); ok && cl.Type == nil {
			c2 := *cl
			c2.Type = typeExpr(kd)
			ve = &c2
		}
		v, err := in.eval(ve, fr)
		if err != nil {
			return nil, err
		}
		v, err = in.coerce(ve, v, kd)
		if err != nil {
			return nil, err
		}
		r.f[name] = v
	}
	return &val{k: kRec, rec: r}, nil
}

func typeExpr(name string) ast.Expr {
	if i := strings.Index(name, "."); i >= 0 {
		return &ast.SelectorExpr{X: ast.NewIdent(name[:i]), Sel: ast.NewIdent(name[i+1:])}
	}
	return ast.NewIdent(name)
}

// coerce checks / converts a value stored into a location of the given Go type
func (in *interp) coerce(n ast.Node, v *val, kd string) (*val, error) {
	switch kd {
	case "float64":
		s, err := in.toFloat(n, v)
		if err != nil {
			return nil, err
		}
		return &val{k: kFloat, s: s, param: v.param, cv: v.cv}, nil
	case "int":
		s, err := in.toInt(n, v)
		if err != nil {
			return nil, err
		}
		return &val{k: kInt, s: s}, nil
	case "string":
		if v.k != kStr {
			return nil, in.errf(n, "a string value is expected here")
		}
		return v, nil
	case "bool":
		if v.k != kBool {
			return nil, in.errf(n, "a bool value is expected here")
		}
		return v, nil
	}
	if v.k == kRec {
		if v.rec.typ != kd {
			return nil, in.errf(n, "a value of type %s is expected here, not %s", kd, v.rec.typ)
		}
		// struct assignment copies
		c := &record{typ: v.rec.typ, whole: v.rec.whole, f: map[string]*val{}}
		for k, fv := range v.rec.f {
			c.f[k] = fv
		}
		return &val{k: kRec, rec: c}, nil
	}
	return v, nil
}

// ---------------------------------------------------------------- calls

func (in *interp) call(e *ast.CallExpr, fr *frame) (*val, error) {
	// conversions and builtins
	if id, ok := e.Fun.(*ast.Ident); ok {
		if _, local := in.lookup(fr, id.Name); !local {
			switch id.Name {
			case "float64":
				if len(e.Args) != 1 {
					return nil, in.errf(e, "float64()")
				}
				x, err := in.eval(e.Args[0], fr)
				if err != nil {
					return nil, err
				}
				if x.k == kInt {
					return fl("(ofZ O " + x.s + ")"), nil
				}
				s, err := in.toFloat(e.Args[0], x)
				if err != nil {
					return nil, err
				}
				return fl(s), nil
			}
			switch id.Name {
			case "make":
				if len(e.Args) >= 1 && typeName(e.Args[0]) == "threadDatabase" {
					return &val{k: kDB}, nil
				}
				return nil, in.errf(e, "make of a type the translator does not understand")
			case "ErrMsg":
				return &val{k: kErr}, nil
			case "NewPolygon":
				if len(e.Args) != 0 {
					return nil, in.errf(e, "NewPolygon()")
				}
				return &val{k: kPoly, poly: &poly{}}, nil
			case "Polygon2D":
				if len(e.Args) != 1 {
					return nil, in.errf(e, "Polygon2D()")
				}
				x, err := in.eval(e.Args[0], fr)
				if err != nil {
					return nil, err
				}
				if x.k != kVerts {
					return nil, in.errf(e, "Polygon2D of a value that is not p.Vertices()")
				}
				// the profile is its vertex list (the error Polygon2D can return is not modelled)
				return x, nil
			}
			if fd, ok := in.p.funcs[id.Name]; ok && fd.Recv == nil {
				if in.objMode && returnsShape(fd) {
					return in.shapeCall(e, id.Name, fd, fr)
				}
				return in.callFunc(e, fd, nil, e.Args, fr)
			}
			return nil, in.errf(e, "call of %s: not a function of package sdf the translator can follow", id.Name)
		}
	}
	if sel, ok := e.Fun.(*ast.SelectorExpr); ok {
		if id, ok := sel.X.(*ast.Ident); ok {
			if _, local := in.lookup(fr, id.Name); !local && in.p.imports[id.Name] {
				return in.callImported(e, id.Name, sel.Sel.Name, fr)
			}
		}
		x, err := in.eval(sel.X, fr)
		if err != nil {
			return nil, err
		}
		return in.callMethod(e, x, sel.Sel.Name, e.Args, fr)
	}
	return nil, in.errf(e, "call the translator does not understand")
}

func (in *interp) callImported(e *ast.CallExpr, pk, name string, fr *frame) (*val, error) {
	if in.objMode {
		if q, ok := in.ext[pk]; ok {
			return in.shapeCall(e, pk+"."+name, q.funcs[name], fr)
		}
	}
	if pk == "math" {
		if o, ok := mathFns[name]; ok && len(e.Args) == 1 {
			x, err := in.eval(e.Args[0], fr)
			if err != nil {
				return nil, err
			}
			s, err := in.toFloat(e.Args[0], x)
			if err != nil {
				return nil, err
			}
			return fl(fmt.Sprintf("(%s O %s)", o, s)), nil
		}
		if o, ok := mathFns2[name]; ok && len(e.Args) == 2 {
			var ss [2]string
			for i := 0; i < 2; i++ {
				x, err := in.eval(e.Args[i], fr)
				if err != nil {
					return nil, err
				}
				ss[i], err = in.toFloat(e.Args[i], x)
				if err != nil {
					return nil, err
				}
			}
			return fl(fmt.Sprintf("(%s O %s %s)", o, ss[0], ss[1])), nil
		}
	}
	if (pk == "fmt" && name == "Errorf") || (pk == "errors" && name == "New") {
		return &val{k: kErr}, nil
	}
	return nil, in.errf(e, "call of %s.%s: not understood by the translator", pk, name)
}

// callMethod: a method of a symbolic value
func (in *interp) callMethod(e *ast.CallExpr, x *val, name string, args []ast.Expr, fr *frame) (*val, error) {
	recvT := ""
	switch x.k {
	case kDB:
		recvT = "threadDatabase"
		if in.rowsMode && ast.IsExported(name) {
			return in.row(e, name, args, fr)
		}
	case kIface:
		fn, ok := x.iface.methods[name]
		if !ok {
			return nil, in.errf(e, "method %s of an interface value", name)
		}
		switch name {
		case "Evaluate":
			if len(args) != 1 {
				return nil, in.errf(e, "Evaluate takes one argument")
			}
			a, err := in.eval(args[0], fr)
			if err != nil {
				return nil, err
			}
			if a.k == kPtr {
				a = a.cell.v
			}
			if a.k != kRec {
				return nil, in.errf(e, "Evaluate of a value that is not a vector")
			}
			s, err := in.recTerm(args[0], a.rec)
			if err != nil {
				return nil, err
			}
			return fl(fmt.Sprintf("(%s %s)", fn, s)), nil
		case "BoundingBox":
			if len(args) != 0 {
				return nil, in.errf(e, "BoundingBox takes no argument")
			}
			return &val{k: kRec, rec: &record{typ: x.iface.methods["BoundingBox:type"], whole: fn, f: map[string]*val{}}}, nil
		}
		return nil, in.errf(e, "method %s of an interface value", name)
	case kPoly:
		switch name {
		case "Add":
			if len(args) != 2 {
				return nil, in.errf(e, "Polygon.Add takes two arguments")
			}
			var ss [2]string
			for i := 0; i < 2; i++ {
				a, err := in.eval(args[i], fr)
				if err != nil {
					return nil, err
				}
				ss[i], err = in.toFloat(args[i], a)
				if err != nil {
					return nil, err
				}
			}
			x.poly.elems = append(x.poly.elems, pvert{x: ss[0], y: ss[1]})
			return &val{k: kPolyV, poly: x.poly, vidx: len(x.poly.elems) - 1}, nil
		case "Vertices":
			if len(args) != 0 {
				return nil, in.errf(e, "Polygon.Vertices takes no argument")
			}
			return &val{k: kVerts, s: polyTerm(x.poly)}, nil
		}
		return nil, in.errf(e, "method Polygon.%s is not understood by the translator", name)
	case kPolyV:
		switch name {
		case "Smooth":
			if len(args) != 2 {
				return nil, in.errf(e, "PolygonVertex.Smooth takes two arguments")
			}
			a, err := in.eval(args[0], fr)
			if err != nil {
				return nil, err
			}
			r, err := in.toFloat(args[0], a)
			if err != nil {
				return nil, err
			}
			b, err := in.eval(args[1], fr)
			if err != nil {
				return nil, err
			}
			n, ok := constNat(b)
			if !ok {
				return nil, in.errf(args[1], "the number of facets must be a constant")
			}
			if x.vidx != len(x.poly.elems)-1 {
				return nil, in.errf(e, "Smooth of a vertex that is not the last one added")
			}
			pv := &x.poly.elems[x.vidx]
			pv.smooth, pv.r, pv.n = true, r, n
			return x, nil
		}
		return nil, in.errf(e, "method PolygonVertex.%s is not understood by the translator", name)
	case kPtr, kRec:
		r := x
		if r.k == kPtr {
			r = r.cell.v
		}
		if r.k == kRec {
			recvT = r.rec.typ
		}
	}
	if recvT == "" {
		return nil, in.errf(e, "method call %s on a value the translator does not understand", name)
	}
	fd, q := in.findFunc(strings.TrimPrefix(recvT, "sdf.") + "." + name)
	if fd == nil {
		return nil, in.errf(e, "%s is not a method of %s the translator can follow", name, recvT)
	}
	saved := in.p
	var avals []*val
	for _, a := range args { // arguments are evaluated in the caller's package
		v, err := in.eval(a, fr)
		if err != nil {
			return nil, err
		}
		avals = append(avals, v)
	}
	in.p = q
	defer func() { in.p = saved }()
	return in.callFuncVals(e, fd, x, args, avals)
}

func polyTerm(p *poly) string {
	var parts []string
	for _, v := range p.elems {
		if v.smooth {
			parts = append(parts, fmt.Sprintf("pvs %s %s %s %s", v.x, v.y, v.r, v.n))
		} else {
			parts = append(parts, fmt.Sprintf("pvn %s %s", v.x, v.y))
		}
	}
	l := "[" + strings.Join(parts, ";\n        ") + "]"
	if p.base == "" {
		return l
	}
	if len(parts) == 0 {
		return p.base
	}
	return "(" + p.base + " ++ " + l + ")"
}

// paramList flattens a field list to (name, type name) pairs
func paramList(fl *ast.FieldList) [][2]string {
	var out [][2]string
	if fl == nil {
		return out
	}
	for _, f := range fl.List {
		tn := typeName(f.Type)
		if len(f.Names) == 0 {
			out = append(out, [2]string{"_", tn})
		}
		for _, n := range f.Names {
			out = append(out, [2]string{n.Name, tn})
		}
	}
	return out
}

// callFunc follows a call into a function of package sdf.  Procedures (no result) are inlined:
// their statements run on a fresh frame that shares the effects.  Functions that return one
// float64 and take only float64 arguments become their own definition gen_<name>.
func (in *interp) callFunc(e *ast.CallExpr, fd *ast.FuncDecl, recv *val, args []ast.Expr, fr *frame) (*val, error) {
	if in.depth > 20 {
		return nil, in.errf(e, "calls nested too deeply (recursion?)")
	}
	var avals []*val
	for _, a := range args {
		v, err := in.eval(a, fr)
		if err != nil {
			return nil, err
		}
		avals = append(avals, v)
	}
	return in.callFuncVals(e, fd, recv, args, avals)
}

func (in *interp) callFuncVals(e *ast.CallExpr, fd *ast.FuncDecl, recv *val, args []ast.Expr, avals []*val) (*val, error) {
	if in.depth > 20 {
		return nil, in.errf(e, "calls nested too deeply (recursion?)")
	}
	params := paramList(fd.Type.Params)
	if len(params) != len(avals) {
		return nil, in.errf(e, "call of %s with %d arguments, it has %d parameters", fd.Name.Name, len(avals), len(params))
	}
	for i, v := range avals {
		if params[i][1] != "threadDatabase" && !strings.HasPrefix(params[i][1], "*") {
			var err error
			v, err = in.coerce(args[i], v, params[i][1])
			if err != nil {
				return nil, err
			}
			avals[i] = v
		}
	}
	nres := 0
	if fd.Type.Results != nil {
		nres = len(paramList(fd.Type.Results))
	}
	if nres == 1 && typeName(fd.Type.Results.List[0].Type) == "float64" && fd.Recv == nil && !in.objMode {
		allFloat := true
		for _, p := range params {
			if p[1] != "float64" {
				allFloat = false
			}
		}
		if allFloat {
			name, err := in.defineFloatFunc(fd)
			if err != nil {
				return nil, err
			}
			parts := []string{name}
			for _, v := range avals {
				parts = append(parts, v.s)
			}
			return fl("(" + strings.Join(parts, " ") + ")"), nil
		}
	}
	// inline
	if fd.Body == nil {
		return nil, in.errf(e, "function %s has no body", fd.Name.Name)
	}
	nf := newFrame(fd)
	if fd.Recv != nil && len(fd.Recv.List) == 1 && len(fd.Recv.List[0].Names) == 1 {
		nf.vars[fd.Recv.List[0].Names[0].Name] = &cell{v: recv}
	}
	for i, p := range params {
		if p[0] != "_" {
			nf.vars[p[0]] = &cell{v: avals[i]}
		}
	}
	in.depth++
	defer func() { in.depth-- }()
	res, err := in.block(fd.Body.List, nf)
	if err != nil {
		return nil, err
	}
	if nres == 0 {
		return &val{k: kNone}, nil
	}
	if res == nil {
		return nil, in.errf(e, "function %s does not return on every path", fd.Name.Name)
	}
	return res, nil
}

// defineFloatFunc translates func f(a, b float64) float64 into `Definition gen_f (a b : T O) : T O`.
func (in *interp) defineFloatFunc(fd *ast.FuncDecl) (string, error) {
	name := "gen_" + fd.Name.Name
	if _, ok := in.defs[name]; ok {
		return name, nil
	}
	if in.busy[name] {
		return "", in.errf(fd, "function %s is recursive", fd.Name.Name)
	}
	in.busy[name] = true
	defer delete(in.busy, name)
	sub := &interp{p: in.p, defs: in.defs, busy: in.busy, fresh: map[string]int{}, depth: in.depth + 1}
	sub.defOrder = in.defOrder
	nf := newFrame(fd)
	var binders []string
	for _, p := range paramList(fd.Type.Params) {
		n := coqIdent(p[0])
		sub.reserve(n)
		nf.vars[p[0]] = &cell{v: &val{k: kFloat, s: n, param: p[0]}}
		binders = append(binders, n)
	}
	t, err := sub.blockTerm(fd.Body.List, nf, "    ")
	in.defOrder = sub.defOrder
	if err != nil {
		return "", err
	}
	if len(sub.guards) > 0 || len(sub.stores) > 0 {
		return "", in.errf(fd, "function %s has effects", fd.Name.Name)
	}
	b := ""
	if len(binders) > 0 {
		b = " (" + strings.Join(binders, " ") + " : T O)"
	}
	in.defs[name] = fmt.Sprintf("  (* %s: func %s *)\n  Definition %s%s : T O :=\n%s.\n", in.p.rel(fd), fd.Name.Name, name, b, t)
	in.defOrder = append(in.defOrder, name)
	return name, nil
}

var reserved = map[string]bool{}

func init() {
	for _, w := range strings.Fields(`O T V2 V3 Box2 Box3 mkV2 mkV3 mkBox2 mkBox3 vx vy wx wy wz b2min b2max b3min b3max
		o0 o1 two half cst sq ofZ negb andb orb bool list nth option Some None fst snd pair PV pvn pvs mkPV
		oadd osub omul odiv oneg oabs osqrt oltb oleb oeqb omin omax otoZ ofloor oceil ofmod osin ocos otan oatan oatan2 oacos
		opi omaxf true false string nat Z Q
		as at cofix else end exists exists2 fix for forall fun if IF in let match mod Prop return Set then Type using where with
		Definition Lemma Theorem Proof Qed Section End Context Import Export Require From Record`) {
		reserved[w] = true
	}
}

func coqIdent(name string) string {
	if reserved[name] || strings.HasPrefix(name, "gen_") {
		return name + "_"
	}
	return name
}

// ---------------------------------------------------------------- statements

// isPanicCall recognises log.Panic / log.Panicf / log.Fatal... / panic(...)
func isPanicCall(st ast.Stmt) bool {
	es, ok := st.(*ast.ExprStmt)
	if !ok {
		return false
	}
	c, ok := es.X.(*ast.CallExpr)
	if !ok {
		return false
	}
	if id, ok := c.Fun.(*ast.Ident); ok {
		return id.Name == "panic"
	}
	sel, ok := c.Fun.(*ast.SelectorExpr)
	if !ok {
		return false
	}
	x, ok := sel.X.(*ast.Ident)
	return ok && x.Name == "log" && (strings.HasPrefix(sel.Sel.Name, "Panic") || strings.HasPrefix(sel.Sel.Name, "Fatal"))
}

func containsReturn(list []ast.Stmt) bool {
	found := false
	for _, s := range list {
		ast.Inspect(s, func(n ast.Node) bool {
			switch n.(type) {
			case *ast.ReturnStmt:
				found = true
			case *ast.FuncLit:
				return false
			}
			return !found
		})
	}
	return found
}

// block executes statements by substitution (no lets).  It returns the returned value when the
// list returns on every path, nil when it falls through.
func (in *interp) block(list []ast.Stmt, fr *frame) (*val, error) {
	for i, st := range list {
		switch st := st.(type) {
		case *ast.ReturnStmt:
			return in.returnVal(st, fr)
		case *ast.IfStmt:
			if g, ok, err := in.panicGuard(st, fr); err != nil {
				return nil, err
			} else if ok {
				in.guards = append(in.guards, guard{param: g})
				continue
			}
			if st.Init != nil {
				return nil, in.errf(st, "if statement with an init clause")
			}
			c, err := in.eval(st.Cond, fr)
			if err != nil {
				return nil, err
			}
			if c.k != kBool {
				return nil, in.errf(st, "condition is not a bool")
			}
			var els []ast.Stmt
			switch e := st.Else.(type) {
			case nil:
			case *ast.BlockStmt:
				els = e.List
			case *ast.IfStmt:
				els = []ast.Stmt{e}
			default:
				return nil, in.errf(st, "else branch")
			}
			if c.s == "true" || c.s == "false" {
				// decided at translation time (err != nil after a call that is taken to succeed)
				taken := els
				if c.s == "true" {
					taken = st.Body.List
				}
				return in.block(append(append([]ast.Stmt{}, taken...), list[i+1:]...), fr)
			}
			ng, ns := len(in.guards), len(in.stores)
			if containsReturn(st.Body.List) || containsReturn(els) {
				// if c {A}; rest  ==  if c {A; rest} else {B; rest}
				rest := list[i+1:]
				fa, fb := fr.clone(), fr.clone()
				ra, err := in.block(append(append([]ast.Stmt{}, st.Body.List...), rest...), fa)
				if err != nil {
					return nil, err
				}
				rb, err := in.block(append(append([]ast.Stmt{}, els...), rest...), fb)
				if err != nil {
					return nil, err
				}
				if len(in.guards) != ng || len(in.stores) != ns {
					return nil, in.errf(st, "effects under a condition")
				}
				if ra == nil || rb == nil {
					return nil, in.errf(st, "a path falls through after a conditional return")
				}
				return in.ite(st, c.s, ra, rb)
			}
			fa, fb := fr.clone(), fr.clone()
			if _, err := in.block(st.Body.List, fa); err != nil {
				return nil, err
			}
			if _, err := in.block(els, fb); err != nil {
				return nil, err
			}
			if len(in.guards) != ng || len(in.stores) != ns {
				return nil, in.errf(st, "effects under a condition")
			}
			if err := in.merge(st, c.s, fr, fa, fb); err != nil {
				return nil, err
			}
		case *ast.RangeStmt:
			if containsReturn(st.Body.List) {
				return nil, in.errf(st, "return inside a loop")
			}
			x, err := in.eval(st.X, fr)
			if err != nil {
				return nil, err
			}
			if x.k != kSlice {
				return nil, in.errf(st, "range over a value that is not a slice literal")
			}
			for j, el := range x.elems {
				for k, ke := range []ast.Expr{st.Key, st.Value} {
					if ke == nil {
						continue
					}
					id, ok := ke.(*ast.Ident)
					if !ok || st.Tok != token.DEFINE {
						return nil, in.errf(st, "range variables")
					}
					if id.Name == "_" {
						continue
					}
					if k == 0 {
						fr.vars[id.Name] = &cell{v: &val{k: kInt, s: fmt.Sprintf("%d%%Z", j), cv: constant.MakeInt64(int64(j))}}
					} else {
						fr.vars[id.Name] = &cell{v: in.asVar(el)}
					}
				}
				if _, err := in.block(st.Body.List, fr); err != nil {
					return nil, err
				}
			}
		case *ast.BlockStmt:
			if r, err := in.block(st.List, fr); err != nil || r != nil {
				return r, err
			}
		case *ast.SwitchStmt:
			ifs, err := in.switchToIf(st)
			if err != nil {
				return nil, err
			}
			return in.block(append([]ast.Stmt{ifs}, list[i+1:]...), fr)
		default:
			if err := in.simple(st, fr); err != nil {
				return nil, err
			}
		}
	}
	return nil, nil
}

// switchToIf rewrites `switch x { case a: A; case b, c: B; default: D }` (no fallthrough, no init)
// into if x == a {A} else if x == b || x == c {B} else {D}
func (in *interp) switchToIf(st *ast.SwitchStmt) (ast.Stmt, error) {
	if st.Init != nil || st.Tag == nil {
		return nil, in.errf(st, "switch statement the translator does not understand")
	}
	var def *ast.CaseClause
	var clauses []*ast.CaseClause
	for _, c := range st.Body.List {
		cc := c.(*ast.CaseClause)
		for _, b := range cc.Body {
			if br, ok := b.(*ast.BranchStmt); ok && br.Tok == token.FALLTHROUGH {
				return nil, in.errf(st, "fallthrough")
			}
		}
		if cc.List == nil {
			def = cc
		} else {
			clauses = append(clauses, cc)
		}
	}
	var tail ast.Stmt
	if def != nil {
		tail = &ast.BlockStmt{List: def.Body}
	}
	for i := len(clauses) - 1; i >= 0; i-- {
		cc := clauses[i]
		var cond ast.Expr
		for _, x := range cc.List {
			eq := &ast.BinaryExpr{X: st.Tag, Op: token.EQL, Y: x, OpPos: cc.Pos()}
			if cond == nil {
				cond = eq
			} else {
				cond = &ast.BinaryExpr{X: cond, Op: token.LOR, Y: eq, OpPos: cc.Pos()}
			}
		}
		tail = &ast.IfStmt{If: cc.Pos(), Cond: cond, Body: &ast.BlockStmt{Lbrace: cc.Pos(), List: cc.Body}, Else: tail}
	}
	if tail == nil {
		return &ast.EmptyStmt{}, nil
	}
	if b, ok := tail.(*ast.BlockStmt); ok {
		return b, nil
	}
	return tail, nil
}

// row records one call m.XXXAdd("name", a, b, c) of initThreadLookup: every argument a constant
func (in *interp) row(e *ast.CallExpr, fn string, args []ast.Expr, fr *frame) (*val, error) {
	if _, ok := in.p.funcs["threadDatabase."+fn]; !ok {
		return nil, in.errf(e, "%s is not a method of threadDatabase", fn)
	}
	if len(args) < 2 {
		return nil, in.errf(e, "too few arguments")
	}
	r := Row{Fn: fn, Src: in.p.pos(e)}
	for i, a := range args {
		v, err := in.eval(a, fr)
		if err != nil {
			return nil, err
		}
		if i == 0 {
			if v.k != kStr || v.cv == nil {
				return nil, in.errf(a, "thread name is not a constant string")
			}
			r.Name = constant.StringVal(v.cv)
			continue
		}
		var cv constant.Value
		switch {
		case v.k == kConst:
			cv = v.cv
		case (v.k == kInt) && v.cv != nil:
			cv = v.cv
		case v.k == kFloat && v.cv != nil:
			cv = v.cv
		default:
			return nil, in.errf(a, "row argument is not a constant")
		}
		q, err := toRat(cv)
		if err != nil {
			return nil, in.errf(a, "%v", err)
		}
		r.Args = append(r.Args, q)
	}
	in.rows = append(in.rows, r)
	return &val{k: kNone}, nil
}

// panicGuard recognises `if <parameter> <= 0 { log.Panicf(...) }`
func (in *interp) panicGuard(st *ast.IfStmt, fr *frame) (string, bool, error) {
	if st.Else != nil || st.Init != nil || len(st.Body.List) != 1 || !isPanicCall(st.Body.List[0]) {
		return "", false, nil
	}
	b, ok := st.Cond.(*ast.BinaryExpr)
	if !ok {
		return "", false, in.errf(st, "condition of a panic the translator does not understand (expected `x <= 0`)")
	}
	xe, ye, op := b.X, b.Y, b.Op
	if op == token.GEQ { // 0 >= x
		xe, ye, op = ye, xe, token.LEQ
	}
	if op != token.LEQ {
		return "", false, in.errf(st, "condition of a panic the translator does not understand (expected `x <= 0`)")
	}
	z, err := in.eval(ye, fr)
	if err != nil {
		return "", false, err
	}
	if z.k != kConst || constant.Sign(z.cv) != 0 {
		return "", false, in.errf(st, "condition of a panic the translator does not understand (expected `x <= 0`)")
	}
	x, err := in.eval(xe, fr)
	if err != nil {
		return "", false, err
	}
	if x.k != kFloat || x.param == "" {
		return "", false, in.errf(st, "the guarded value of a panic must be a parameter of the Add method")
	}
	return x.param, true, nil
}

func (in *interp) returnVal(st *ast.ReturnStmt, fr *frame) (*val, error) {
	if len(st.Results) == 0 {
		return &val{k: kNone}, nil
	}
	var vs []*val
	for _, r := range st.Results {
		v, err := in.eval(r, fr)
		if err != nil {
			return nil, err
		}
		vs = append(vs, v)
	}
	if len(vs) == 1 {
		if vs[0].k == kTuple && len(vs[0].elems) == 2 {
			return in.optOf(st, vs[0].elems[0], vs[0].elems[1])
		}
		return vs[0], nil
	}
	if len(vs) == 2 {
		return in.optOf(st, vs[0], vs[1])
	}
	return nil, in.errf(st, "return of %d values", len(vs))
}

// optOf: a (value, error) result
func (in *interp) optOf(n ast.Node, v, e *val) (*val, error) {
	switch e.k {
	case kErr:
		return &val{k: kOpt, s: "None"}, nil
	case kNil:
		return &val{k: kOpt, elems: []*val{v}}, nil
	}
	return nil, in.errf(n, "second result is not an error value the translator understands")
}

// ite merges two values under a condition
func (in *interp) ite(n ast.Node, c string, a, b *val) (*val, error) {
	if a.k == kNone && b.k == kNone {
		return a, nil
	}
	if a.k == kConst || b.k == kConst {
		// constants keep their kind only when equal
		if a.k == kConst && b.k == kConst && constant.Compare(a.cv, token.EQL, b.cv) {
			return a, nil
		}
		var err error
		if a.k == kConst {
			if b.k == kInt {
				s, e := in.toInt(n, a)
				a, err = &val{k: kInt, s: s}, e
			} else {
				s, e := in.toFloat(n, a)
				a, err = fl(s), e
			}
		}
		if err == nil && b.k == kConst {
			if a.k == kInt {
				s, e := in.toInt(n, b)
				b, err = &val{k: kInt, s: s}, e
			} else {
				s, e := in.toFloat(n, b)
				b, err = fl(s), e
			}
		}
		if err != nil {
			return nil, err
		}
	}
	if (a.k == kSk && b.k == kNil) || (a.k == kNil && b.k == kSk) {
		if a.k == kNil {
			a = &val{k: kSk, s: "SkNil"}
		} else {
			b = &val{k: kSk, s: "SkNil"}
		}
	}
	if a.k != b.k {
		return nil, in.errf(n, "the two branches give values of different kinds")
	}
	switch a.k {
	case kFloat, kInt, kBool, kStr, kVerts, kSk:
		if a.s == b.s {
			return a, nil
		}
		return &val{k: a.k, sk2: a.sk2, s: fmt.Sprintf("(if %s then %s else %s)", c, a.s, b.s)}, nil
	case kOpt:
		sa, err := in.optTerm(n, a)
		if err != nil {
			return nil, err
		}
		sb, err := in.optTerm(n, b)
		if err != nil {
			return nil, err
		}
		if sa == sb {
			return a, nil
		}
		return &val{k: kOpt, s: fmt.Sprintf("(if %s then %s\n     else %s)", c, sa, sb)}, nil
	case kRec:
		if a.rec.typ != b.rec.typ {
			return nil, in.errf(n, "the two branches give structs of different types")
		}
		info, err := in.structOf(a.rec.typ)
		if err != nil {
			return nil, err
		}
		r := &record{typ: a.rec.typ, f: map[string]*val{}}
		if a.rec.whole == b.rec.whole {
			r.whole = a.rec.whole
		} else {
			// different bases: the conditional stays on top
			ta, err := in.recTerm(n, a.rec)
			if err != nil {
				return nil, err
			}
			tb, err := in.recTerm(n, b.rec)
			if err != nil {
				return nil, err
			}
			r.whole = fmt.Sprintf("(if %s then %s else\n    %s)", c, ta, tb)
			return &val{k: kRec, rec: r}, nil
		}
		for _, f := range info.order {
			_, ina := a.rec.f[f]
			_, inb := b.rec.f[f]
			if !ina && !inb && r.whole != "" {
				continue
			}
			va, err := in.fieldVal(n, a.rec, f)
			if err != nil {
				return nil, err
			}
			vb, err := in.fieldVal(n, b.rec, f)
			if err != nil {
				return nil, err
			}
			m, err := in.ite(n, c, va, vb)
			if err != nil {
				return nil, err
			}
			r.f[f] = m
		}
		return &val{k: kRec, rec: r}, nil
	case kPtr:
		if a.cell == b.cell {
			return a, nil
		}
		m, err := in.ite(n, c, a.cell.v, b.cell.v)
		if err != nil {
			return nil, err
		}
		return &val{k: kPtr, cell: &cell{v: m}}, nil
	case kPoly:
		ta, tb := polyTerm(a.poly), polyTerm(b.poly)
		if ta == tb {
			return a, nil
		}
		return &val{k: kPoly, poly: &poly{base: fmt.Sprintf("(if %s\n      then %s\n      else %s)", c, ta, tb)}}, nil
	case kNil, kErr, kDB:
		return a, nil
	case kIface:
		if a.iface == b.iface {
			return a, nil
		}
	}
	return nil, in.errf(n, "values of this kind cannot be merged after a conditional")
}

// optTerm prints a (value, error) result
func (in *interp) optTerm(n ast.Node, v *val) (string, error) {
	if v.k != kOpt {
		return "", in.errf(n, "not a (value, error) result")
	}
	if v.s != "" {
		return v.s, nil
	}
	s, err := in.resultTerm(n, v.elems[0])
	if err != nil {
		return "", err
	}
	return "(Some " + s + ")", nil
}

// resultTerm prints a value a generated function returns
func (in *interp) resultTerm(n ast.Node, v *val) (string, error) {
	switch v.k {
	case kFloat, kInt, kBool, kStr, kVerts, kSk:
		return v.s, nil
	case kConst:
		return in.toFloat(n, v)
	case kPtr:
		return in.resultTerm(n, v.cell.v)
	case kRec:
		if v.rec.whole != "" && len(v.rec.f) == 0 {
			return v.rec.whole, nil
		}
		info, err := in.structOf(v.rec.typ)
		if err != nil {
			return "", err
		}
		if info.ctor != "" {
			return in.recTerm(n, v.rec)
		}
		// a struct of package sdf: a literal of the Record generated for it (numeric fields only)
		var parts []string
		for _, f := range info.order {
			switch info.kinds[f] {
			case "float64", "int", "Box2", "Box3", "v2.Vec", "v3.Vec":
				fv, err := in.fieldVal(n, v.rec, f)
				if err != nil {
					return "", err
				}
				s, err := in.resultTerm(n, fv)
				if err != nil {
					return "", err
				}
				parts = append(parts, fmt.Sprintf("%s_%s := %s", v.rec.typ, f, s))
			}
		}
		in.p.needRecord[v.rec.typ] = true
		return "{| " + strings.Join(parts, ";\n         ") + " |}", nil
	case kOpt:
		return in.optTerm(n, v)
	}
	return "", in.errf(n, "result of a kind the translator cannot print")
}

// merge joins the frames of the two branches of an if without returns into fr
func (in *interp) merge(n ast.Node, c string, fr, fa, fb *frame) error {
	names := make([]string, 0, len(fr.vars))
	for k := range fr.vars {
		names = append(names, k)
	}
	sort.Strings(names)
	for _, k := range names {
		va, vb := fa.vars[k].v, fb.vars[k].v
		if va == nil && vb == nil {
			continue
		}
		if va == nil || vb == nil {
			return in.errf(n, "variable %s gets a value in one branch only", k)
		}
		m, err := in.ite(n, c, va, vb)
		if err != nil {
			return err
		}
		fr.vars[k].v = m
	}
	return nil
}

// simple executes one statement without control flow
func (in *interp) simple(st ast.Stmt, fr *frame) error {
	switch st := st.(type) {
	case *ast.EmptyStmt:
		return nil
	case *ast.DeclStmt:
		gd, ok := st.Decl.(*ast.GenDecl)
		if ok && gd.Tok == token.CONST {
			// a local constant keeps its exact value
			for _, sp := range gd.Specs {
				vs := sp.(*ast.ValueSpec)
				if vs.Type != nil || len(vs.Values) != len(vs.Names) {
					return in.errf(st, "constant declaration the translator does not understand")
				}
				for i, n := range vs.Names {
					v, err := in.eval(vs.Values[i], fr)
					if err != nil {
						return err
					}
					if v.k != kConst && !(v.k == kStr && v.cv != nil) {
						return in.errf(st, "constant %s is not a constant expression the translator understands", n.Name)
					}
					fr.vars[n.Name] = &cell{v: v}
				}
			}
			return nil
		}
		if !ok || gd.Tok != token.VAR {
			return in.errf(st, "declaration the translator does not understand")
		}
		for _, sp := range gd.Specs {
			vs := sp.(*ast.ValueSpec)
			for i, n := range vs.Names {
				var v *val
				var err error
				if len(vs.Values) > i {
					v, err = in.eval(vs.Values[i], fr)
					if err == nil && vs.Type != nil {
						v, err = in.coerce(vs.Values[i], v, typeName(vs.Type))
					}
				} else if vs.Type != nil {
					v, err = in.zeroOf(st, typeName(vs.Type))
				} else {
					err = in.errf(st, "var without type or value")
				}
				if err != nil {
					return err
				}
				if c, ok := fr.vars[n.Name]; ok && c.scope < fr.scope {
					return in.errf(st, "variable %s hides a variable of an enclosing block: not understood by the translator", n.Name)
				}
				fr.vars[n.Name] = &cell{v: in.asVar(v), scope: fr.scope}
			}
		}
		return nil
	case *ast.ExprStmt:
		c, ok := st.X.(*ast.CallExpr)
		if !ok {
			return in.errf(st, "statement the translator does not understand (%T)", st.X)
		}
		_, err := in.call(c, fr)
		return err
	case *ast.IncDecStmt:
		return in.errf(st, "statement the translator does not understand (%T)", st)
	case *ast.AssignStmt:
		if len(st.Rhs) == 1 && len(st.Lhs) > 1 {
			v, err := in.eval(st.Rhs[0], fr)
			if err != nil {
				return err
			}
			if v.k != kTuple || len(v.elems) != len(st.Lhs) || (st.Tok != token.ASSIGN && st.Tok != token.DEFINE) {
				return in.errf(st, "assignment of a multi-valued call")
			}
			for i, l := range st.Lhs {
				// `a, err := f()` may redeclare one of the two
				def := st.Tok == token.DEFINE
				if id, ok := l.(*ast.Ident); ok && def {
					if c, exists := fr.vars[id.Name]; exists {
						// in an inner block this declares a new variable hiding the outer one: only the
						// error slot (always nil here, calls are taken to succeed) may do that
						if c.scope < fr.scope && v.elems[i].k != kNil {
							return in.errf(st, "variable %s hides a variable of an enclosing block: not understood by the translator", id.Name)
						}
						def = false
					}
				}
				if err := in.assign(st, l, v.elems[i], def, fr); err != nil {
					return err
				}
			}
			return nil
		}
		if len(st.Lhs) != len(st.Rhs) {
			return in.errf(st, "assignment of a multi-valued call")
		}
		var vals []*val
		for i, r := range st.Rhs {
			v, err := in.eval(r, fr)
			if err != nil {
				return err
			}
			if st.Tok != token.ASSIGN && st.Tok != token.DEFINE {
				op, ok := map[token.Token]token.Token{token.ADD_ASSIGN: token.ADD, token.SUB_ASSIGN: token.SUB,
					token.MUL_ASSIGN: token.MUL, token.QUO_ASSIGN: token.QUO}[st.Tok]
				if !ok {
					return in.errf(st, "assignment operator %s", st.Tok)
				}
				cur, err := in.eval(st.Lhs[i], fr)
				if err != nil {
					return err
				}
				v, err = in.binary(st, op, cur, v, st.Lhs[i], r)
				if err != nil {
					return err
				}
			}
			vals = append(vals, v)
		}
		for i, l := range st.Lhs {
			if err := in.assign(st, l, vals[i], st.Tok == token.DEFINE, fr); err != nil {
				return err
			}
		}
		return nil
	}
	return in.errf(st, "statement the translator does not understand (%T)", st)
}

// asVar: the value as stored in a variable (an untyped constant becomes a float64 / int value;
// structs are copied)
func (in *interp) asVar(v *val) *val {
	switch v.k {
	case kConst:
		if v.cv.Kind() == constant.Int {
			if s, err := in.toInt(nil, v); err == nil {
				return &val{k: kInt, s: s, cv: v.cv}
			}
		}
		if s, err := in.constFloat(v.expr, v.cv); err == nil {
			return &val{k: kFloat, s: s, cv: v.cv}
		}
		return v
	case kRec:
		c := &record{typ: v.rec.typ, whole: v.rec.whole, f: map[string]*val{}}
		for k, fv := range v.rec.f {
			c.f[k] = fv
		}
		return &val{k: kRec, rec: c}
	}
	return v
}

func (in *interp) assign(st ast.Stmt, l ast.Expr, v *val, define bool, fr *frame) error {
	switch l := l.(type) {
	case *ast.Ident:
		if l.Name == "_" {
			return nil
		}
		c, ok := fr.vars[l.Name]
		if define && ok && c.scope < fr.scope {
			// := in an inner block declares a new variable that hides the outer one
			return in.errf(st, "variable %s hides a variable of an enclosing block: not understood by the translator", l.Name)
		}
		if define || !ok {
			if !define {
				return in.errf(st, "assignment to %s, which is not a local variable", l.Name)
			}
			fr.vars[l.Name] = &cell{v: in.asVar(v), scope: fr.scope}
			return nil
		}
		if c.v != nil && c.v.k == kFloat {
			nv, err := in.coerce(st, v, "float64")
			if err != nil {
				return err
			}
			nv.param = ""
			c.v = nv
			return nil
		}
		c.v = in.asVar(v)
		return nil
	case *ast.SelectorExpr:
		x, err := in.eval(l.X, fr)
		if err != nil {
			return err
		}
		if x.k == kPtr {
			x = x.cell.v
		}
		if x.k != kRec {
			return in.errf(st, "assignment to a field of a value that is not a struct")
		}
		info, err := in.structOf(x.rec.typ)
		if err != nil {
			return in.errf(st, "%v", err)
		}
		kd, ok := info.kinds[l.Sel.Name]
		if !ok {
			return in.errf(st, "struct %s has no field %s", x.rec.typ, l.Sel.Name)
		}
		nv, err := in.coerce(st, v, kd)
		if err != nil {
			return err
		}
		x.rec.f[l.Sel.Name] = nv
		return nil
	case *ast.IndexExpr:
		m, err := in.eval(l.X, fr)
		if err != nil {
			return err
		}
		if m.k != kDB {
			return in.errf(st, "indexed assignment to a value that is not the thread database")
		}
		k, err := in.eval(l.Index, fr)
		if err != nil {
			return err
		}
		if k.k != kStr {
			return in.errf(st, "database key is not a string")
		}
		if v.k != kPtr || v.cell.v == nil || v.cell.v.k != kRec || v.cell.v.rec.typ != "ThreadParameters" {
			return in.errf(st, "the value stored in the database is not a *ThreadParameters")
		}
		in.stores = append(in.stores, store{key: k, ptr: v})
		return nil
	case *ast.StarExpr:
		x, err := in.eval(l.X, fr)
		if err != nil {
			return err
		}
		if x.k != kPtr || v.k != kRec {
			return in.errf(st, "assignment through a pointer")
		}
		x.cell.v = in.asVar(v)
		return nil
	}
	return in.errf(st, "assignment target the translator does not understand (%T)", l)
}
