package threadgen

// blockTerm: a statement list of a function that returns a value -> one Gallina term, with one
// `let` per Go statement that gives a number a new value.  Every let-bound name is unique in
// the definition, so the symbolic values (which mention those names) can be substituted
// anywhere below without capture.

import (
	"fmt"
	"go/ast"
	"sort"
	"strings"
)

func (in *interp) freshName(base string) string {
	base = coqIdent(base)
	n := in.fresh[base]
	in.fresh[base] = n + 1
	if n == 0 {
		return base
	}
	return fmt.Sprintf("%s%d", base, n)
}

// reserve marks a name (a parameter of the definition) as taken
func (in *interp) reserve(name string) { in.fresh[name]++ }

type snap map[string]string

func snapshot(fr *frame) snap {
	s := snap{}
	for k, c := range fr.vars {
		if c.v == nil {
			continue
		}
		v := c.v
		if v.k == kPtr && v.cell != nil && v.cell.v != nil {
			v = v.cell.v
		}
		switch v.k {
		case kFloat, kInt, kBool:
			s[k] = v.s
		case kRec:
			for f, fv := range v.rec.f {
				if fv.k == kFloat || fv.k == kInt || fv.k == kBool {
					s[k+"."+f] = fv.s
				}
			}
		}
	}
	return s
}

func isAtom(s string) bool {
	if !strings.HasPrefix(s, "(") {
		return true
	}
	switch s {
	case "(o0 O)", "(o1 O)", "(opi O)":
		return true
	}
	return false
}

// bindChanged let-binds every number that has a new compound value since the snapshot
func (in *interp) bindChanged(fr *frame, before snap, ind string) string {
	var keys []string
	after := snapshot(fr)
	for k, s := range after {
		if before[k] != s && !isAtom(s) {
			keys = append(keys, k)
		}
	}
	sort.Strings(keys)
	var b strings.Builder
	for _, k := range keys {
		name := in.freshName(strings.ReplaceAll(k, ".", "_"))
		fmt.Fprintf(&b, "%slet %s := %s in\n", ind, name, after[k])
		vn, fn := k, ""
		if i := strings.Index(k, "."); i >= 0 {
			vn, fn = k[:i], k[i+1:]
		}
		v := fr.vars[vn].v
		if v.k == kPtr {
			v = v.cell.v
		}
		if fn == "" {
			nv := *v
			nv.s = name
			if fr.vars[vn].v.k == kPtr {
				fr.vars[vn].v.cell.v = &nv
			} else {
				fr.vars[vn].v = &nv
			}
		} else {
			nv := *v.rec.f[fn]
			nv.s = name
			v.rec.f[fn] = &nv
		}
	}
	return b.String()
}

func (in *interp) blockTerm(list []ast.Stmt, fr *frame, ind string) (string, error) {
	var b strings.Builder
	for i, st := range list {
		switch st := st.(type) {
		case *ast.ReturnStmt:
			v, err := in.returnVal(st, fr)
			if err != nil {
				return "", err
			}
			t, err := in.resultTerm(st, v)
			if err != nil {
				return "", err
			}
			b.WriteString(ind + t)
			return b.String(), nil
		case *ast.IfStmt:
			if st.Init != nil {
				return "", in.errf(st, "if statement with an init clause")
			}
			var els []ast.Stmt
			switch e := st.Else.(type) {
			case nil:
			case *ast.BlockStmt:
				els = e.List
			case *ast.IfStmt:
				els = []ast.Stmt{e}
			default:
				return "", in.errf(st, "else branch")
			}
			c, err := in.eval(st.Cond, fr)
			if err != nil {
				return "", err
			}
			if c.k != kBool {
				return "", in.errf(st, "condition is not a bool")
			}
			if c.s == "true" || c.s == "false" {
				// decided at translation time
				taken := els
				if c.s == "true" {
					taken = st.Body.List
				}
				t, err := in.blockTerm(append(append([]ast.Stmt{}, taken...), list[i+1:]...), fr, ind)
				return b.String() + t, err
			}
			if containsReturn(st.Body.List) || containsReturn(els) {
				rest := list[i+1:]
				ta, err := in.blockTerm(append(append([]ast.Stmt{}, st.Body.List...), rest...), fr.clone(), ind+"  ")
				if err != nil {
					return "", err
				}
				tb, err := in.blockTerm(append(append([]ast.Stmt{}, els...), rest...), fr.clone(), ind)
				if err != nil {
					return "", err
				}
				fmt.Fprintf(&b, "%sif %s then\n%s\n%selse\n%s", ind, c.s, ta, ind, tb)
				return b.String(), nil
			}
			before := snapshot(fr)
			if _, err := in.block([]ast.Stmt{st}, fr); err != nil {
				return "", err
			}
			b.WriteString(in.bindChanged(fr, before, ind))
		case *ast.SwitchStmt:
			ifs, err := in.switchToIf(st)
			if err != nil {
				return "", err
			}
			t, err := in.blockTerm(append([]ast.Stmt{ifs}, list[i+1:]...), fr, ind)
			return b.String() + t, err
		case *ast.BlockStmt:
			t, err := in.blockTerm(append(append([]ast.Stmt{}, st.List...), list[i+1:]...), fr, ind)
			return b.String() + t, err
		default:
			before := snapshot(fr)
			if err := in.simple(st, fr); err != nil {
				return "", err
			}
			b.WriteString(in.bindChanged(fr, before, ind))
		}
	}
	return "", fmt.Errorf("%s: function %s does not end in a return statement", in.p.pos(fr.fn), fr.fn.Name.Name)
}
