// Package profgen extracts the CONTROL SKELETONS of the profile builders (sdf/poly.go,
// sdf/bezier.go) from the Go AST of the current source tree into Gallina
// (coq/Generated/ProfSkel.v); coq/Sdf/ProfEq.v proves each generated definition equal to the
// hand-written model the C17 theorems are about, so an edit of the loop structure breaks a named
// proof obligation of ./check C17 and not only a sampled comparison.
//
// What is translated (anything else inside a target is an error = broken tie, never skipped):
//
//   - Polygon.nextVertex / Polygon.prevVertex: chains of `if c { ... return e }` and `return e`
//     over i, len(p.vlist), p.closed, &p.vlist[e], nil  ->  nested `if` over nat / nth_error.
//   - Polygon.createArcs / Polygon.smoothVertices: the loop
//     `flag := false; for flag == false { flag = true; for i := range p.vlist { if p.F(i) { flag = false } } }`
//     (any variable names, `!flag` accepted)  ->  `until_done (S (List.length vlist)) F vlist`
//     (F a parameter named after the Go method; the fuel is justified by the termination theorems
//     C17_create_arcs_terminates / C17_smooth_vertices_fixed_point).
//   - Polygon.fixups: the sequence of calls p.m1(); p.m2(); ...  ->  state-passing composition,
//     every method a parameter named after the Go method.
//   - Bezier.Polygon: the endpoint/midpoint loop `for i < n { body }`.  The body (assignments,
//     i++, if / else if / else, break, `return nil, err`) is translated statement by statement
//     into a step function over the record of the variables it assigns:
//     gen_polygon_body : vlist -> n -> PolySt -> flow (FNext s | FBreak s | FFail), together
//     with the loop condition and the initial values of those variables.
//
// The arithmetic inside arcVertex / smoothVertex / Sample is not translated here (those bodies
// stay tied by bit-exact differential execution, harness/cmd/c17).
package profgen

import (
	"fmt"
	"go/ast"
	"go/parser"
	"go/token"
	"path/filepath"
	"sort"
	"strings"

	"verifharness/kit"
)

type tr struct {
	fset *token.FileSet
	recv string // receiver variable name
}

func (t *tr) errf(n ast.Node, format string, a ...interface{}) error {
	return fmt.Errorf("profgen: %s: %s", t.fset.Position(n.Pos()), fmt.Sprintf(format, a...))
}

func methods(file *ast.File) map[string]*ast.FuncDecl {
	m := map[string]*ast.FuncDecl{}
	for _, d := range file.Decls {
		fd, ok := d.(*ast.FuncDecl)
		if !ok || fd.Recv == nil || len(fd.Recv.List) != 1 {
			continue
		}
		ty := fd.Recv.List[0].Type
		if st, ok := ty.(*ast.StarExpr); ok {
			ty = st.X
		}
		if id, ok := ty.(*ast.Ident); ok {
			m[id.Name+"."+fd.Name.Name] = fd
		}
	}
	return m
}

func recvName(fd *ast.FuncDecl) string {
	if len(fd.Recv.List[0].Names) == 1 {
		return fd.Recv.List[0].Names[0].Name
	}
	return "_"
}

func isIdent(e ast.Expr, name string) bool {
	id, ok := e.(*ast.Ident)
	return ok && id.Name == name
}

// recv.field
func (t *tr) isRecvField(e ast.Expr, field string) bool {
	s, ok := e.(*ast.SelectorExpr)
	return ok && isIdent(s.X, t.recv) && s.Sel.Name == field
}

func paren(e ast.Expr) ast.Expr {
	for {
		p, ok := e.(*ast.ParenExpr)
		if !ok {
			return e
		}
		e = p.X
	}
}

// ---------------------------------------------------------------- nextVertex / prevVertex

// integer expressions over i, len(p.vlist), literals, +1 / -1
func (t *tr) natExpr(e ast.Expr) (string, error) {
	e = paren(e)
	switch x := e.(type) {
	case *ast.Ident:
		return x.Name, nil
	case *ast.BasicLit:
		if x.Kind == token.INT {
			return x.Value, nil
		}
	case *ast.CallExpr:
		if isIdent(x.Fun, "len") && len(x.Args) == 1 && t.isRecvField(x.Args[0], "vlist") {
			return "(List.length vlist)", nil
		}
	case *ast.BinaryExpr:
		a, err := t.natExpr(x.X)
		if err != nil {
			return "", err
		}
		if lit, ok := paren(x.Y).(*ast.BasicLit); ok && lit.Kind == token.INT && lit.Value == "1" {
			switch x.Op {
			case token.ADD:
				return "(S " + a + ")", nil
			case token.SUB:
				return "(" + a + " - 1)", nil
			}
		}
	}
	return "", t.errf(e, "integer expression not in the translated fragment")
}

func (t *tr) boolExpr(e ast.Expr) (string, error) {
	e = paren(e)
	switch x := e.(type) {
	case *ast.SelectorExpr:
		if t.isRecvField(x, "closed") {
			return "closed", nil
		}
	case *ast.BinaryExpr:
		if x.Op == token.EQL {
			a, err := t.natExpr(x.X)
			if err != nil {
				return "", err
			}
			b, err := t.natExpr(x.Y)
			if err != nil {
				return "", err
			}
			return "(Nat.eqb " + a + " " + b + ")", nil
		}
	}
	return "", t.errf(e, "condition not in the translated fragment")
}

// &p.vlist[e] | nil
func (t *tr) vertexRef(e ast.Expr) (string, error) {
	e = paren(e)
	if isIdent(e, "nil") {
		return "None", nil
	}
	if u, ok := e.(*ast.UnaryExpr); ok && u.Op == token.AND {
		if ix, ok := paren(u.X).(*ast.IndexExpr); ok && t.isRecvField(ix.X, "vlist") {
			i, err := t.natExpr(ix.Index)
			if err != nil {
				return "", err
			}
			return "(nth_error vlist " + i + ")", nil
		}
	}
	return "", t.errf(e, "result not in the translated fragment (&p.vlist[e] | nil)")
}

// if c { ...return } ... return e
func (t *tr) returning(ss []ast.Stmt) (string, error) {
	if len(ss) == 0 {
		return "", fmt.Errorf("profgen: block falls off its end")
	}
	switch s := ss[0].(type) {
	case *ast.ReturnStmt:
		if len(s.Results) != 1 {
			return "", t.errf(s, "one result expected")
		}
		return t.vertexRef(s.Results[0])
	case *ast.IfStmt:
		if s.Init != nil {
			return "", t.errf(s, "if with init")
		}
		c, err := t.boolExpr(s.Cond)
		if err != nil {
			return "", err
		}
		th, err := t.returning(s.Body.List)
		if err != nil {
			return "", err
		}
		var el string
		if s.Else == nil {
			el, err = t.returning(ss[1:])
		} else if b, ok := s.Else.(*ast.BlockStmt); ok {
			el, err = t.returning(b.List)
		} else {
			el, err = t.returning([]ast.Stmt{s.Else})
		}
		if err != nil {
			return "", err
		}
		return "(if " + c + " then " + th + " else " + el + ")", nil
	}
	return "", t.errf(ss[0], "statement not in the translated fragment")
}

func (t *tr) neighbour(fd *ast.FuncDecl, name string) (string, error) {
	t.recv = recvName(fd)
	if fd.Type.Params == nil || len(fd.Type.Params.List) != 1 || len(fd.Type.Params.List[0].Names) != 1 {
		return "", t.errf(fd, "one parameter expected")
	}
	i := fd.Type.Params.List[0].Names[0].Name
	body, err := t.returning(fd.Body.List)
	if err != nil {
		return "", err
	}
	return fmt.Sprintf("  (* Polygon.%s *)\n  Definition gen_%s (closed : bool) (vlist : list (PV O)) (%s : nat) : option (PV O) :=\n    %s.\n\n",
		name, name, i, body), nil
}

// ---------------------------------------------------------------- createArcs / smoothVertices

// flag == false | !flag
func isNotFlag(e ast.Expr, flag string) bool {
	e = paren(e)
	if u, ok := e.(*ast.UnaryExpr); ok && u.Op == token.NOT {
		return isIdent(paren(u.X), flag)
	}
	if b, ok := e.(*ast.BinaryExpr); ok && b.Op == token.EQL {
		return isIdent(paren(b.X), flag) && isIdent(paren(b.Y), "false")
	}
	return false
}

func assignsConst(s ast.Stmt, tok token.Token, name, val string) bool {
	a, ok := s.(*ast.AssignStmt)
	return ok && a.Tok == tok && len(a.Lhs) == 1 && len(a.Rhs) == 1 && isIdent(a.Lhs[0], name) && isIdent(paren(a.Rhs[0]), val)
}

func (t *tr) fixedPoint(fd *ast.FuncDecl, name string) (string, error) {
	t.recv = recvName(fd)
	ss := fd.Body.List
	bad := func(n ast.Node, what string) (string, error) {
		return "", t.errf(n, "%s: not the loop `flag := false; for !flag { flag = true; for i := range %s.vlist { if %s.step(i) { flag = false } } }` (%s)", name, t.recv, t.recv, what)
	}
	if len(ss) != 2 {
		return bad(fd, "two statements expected")
	}
	a, ok := ss[0].(*ast.AssignStmt)
	if !ok || a.Tok != token.DEFINE || len(a.Lhs) != 1 || len(a.Rhs) != 1 || !isIdent(paren(a.Rhs[0]), "false") {
		return bad(ss[0], "flag := false")
	}
	flag := a.Lhs[0].(*ast.Ident).Name
	f, ok := ss[1].(*ast.ForStmt)
	if !ok || f.Init != nil || f.Post != nil || f.Cond == nil || !isNotFlag(f.Cond, flag) {
		return bad(ss[1], "for !flag")
	}
	if len(f.Body.List) != 2 || !assignsConst(f.Body.List[0], token.ASSIGN, flag, "true") {
		return bad(f, "flag = true; inner loop")
	}
	r, ok := f.Body.List[1].(*ast.RangeStmt)
	if !ok || r.Tok != token.DEFINE || r.Key == nil || r.Value != nil || !t.isRecvField(r.X, "vlist") || len(r.Body.List) != 1 {
		return bad(f.Body.List[1], "for i := range p.vlist")
	}
	idx := r.Key.(*ast.Ident).Name
	ifs, ok := r.Body.List[0].(*ast.IfStmt)
	if !ok || ifs.Init != nil || ifs.Else != nil || len(ifs.Body.List) != 1 || !assignsConst(ifs.Body.List[0], token.ASSIGN, flag, "false") {
		return bad(r.Body.List[0], "if p.step(i) { flag = false }")
	}
	call, ok := paren(ifs.Cond).(*ast.CallExpr)
	if !ok || len(call.Args) != 1 || !isIdent(paren(call.Args[0]), idx) {
		return bad(ifs.Cond, "p.step(i)")
	}
	sel, ok := call.Fun.(*ast.SelectorExpr)
	if !ok || !isIdent(sel.X, t.recv) {
		return bad(ifs.Cond, "p.step(i)")
	}
	step := sel.Sel.Name
	return fmt.Sprintf("  (* Polygon.%s: for !done { done = true; for i := range vlist { if %s(i) { done = false } } } *)\n"+
		"  Definition gen_%s (%s : list (PV O) -> nat -> list (PV O) * bool) (vlist : list (PV O)) : list (PV O) :=\n"+
		"    until_done (S (List.length vlist)) %s vlist.\n"+
		"  Definition gen_%s_calls : list string := [\"%s\"%%string].\n\n", name, step, name, step, step, name, step), nil
}

// ---------------------------------------------------------------- fixups

func (t *tr) callSequence(fd *ast.FuncDecl) (string, error) {
	t.recv = recvName(fd)
	var names []string
	for _, s := range fd.Body.List {
		es, ok := s.(*ast.ExprStmt)
		if !ok {
			return "", t.errf(s, "fixups: only calls p.m() expected")
		}
		call, ok := es.X.(*ast.CallExpr)
		if !ok || len(call.Args) != 0 {
			return "", t.errf(s, "fixups: only calls p.m() expected")
		}
		sel, ok := call.Fun.(*ast.SelectorExpr)
		if !ok || !isIdent(sel.X, t.recv) {
			return "", t.errf(s, "fixups: only calls p.m() expected")
		}
		names = append(names, sel.Sel.Name)
	}
	if len(names) == 0 || names[0] != "relToAbs" {
		return "", t.errf(fd, "fixups: the first call must be relToAbs (the only one that can fail)")
	}
	var b strings.Builder
	b.WriteString("  (* Polygon.fixups: " + strings.Join(names, "(); ") + "() *)\n")
	b.WriteString("  Definition gen_fixups (relToAbs : list (PV O) -> option (list (PV O)))")
	for _, n := range names[1:] {
		b.WriteString(" (" + n + " : list (PV O) -> list (PV O))")
	}
	b.WriteString(" (vlist : list (PV O)) : option (list (PV O)) :=\n    match relToAbs vlist with\n    | None => None\n    | Some vlist => Some (")
	body := "vlist"
	for _, n := range names[1:] {
		body = n + " (" + body + ")"
	}
	b.WriteString(body + ")\n    end.\n")
	b.WriteString("  Definition gen_fixups_calls : list string := [\"" + strings.Join(names, "\"%string; \"") + "\"%string].\n\n")
	return b.String(), nil
}

// ---------------------------------------------------------------- Bezier.Polygon: the loop

// the variables the loop assigns, in the order of the record fields
var polyVars = []string{"state", "i", "vertices", "splines"}

type env map[string]string

func (e env) clone() env {
	c := env{}
	for k, v := range e {
		c[k] = v
	}
	return c
}

func mkSt(e env) string {
	return "(mkPolySt " + e["state"] + " " + e["i"] + " " + e["vertices"] + " " + e["splines"] + ")"
}

// a value of type bezierVertexType as "is it a midpoint": endpoint -> false, midpoint -> true
func (t *tr) vtypeExpr(x ast.Expr, e env) (string, bool) {
	x = paren(x)
	if isIdent(x, "endpoint") {
		return "false", true
	}
	if isIdent(x, "midpoint") {
		return "true", true
	}
	if isIdent(x, "state") {
		return e["state"], true
	}
	if s, ok := x.(*ast.SelectorExpr); ok && s.Sel.Name == "vtype" {
		if id, ok := s.X.(*ast.Ident); ok {
			if v, ok := e[id.Name]; ok {
				return "(bv_mid " + v + ")", true
			}
		}
	}
	return "", false
}

func (t *tr) pInt(x ast.Expr, e env) (string, error) {
	x = paren(x)
	switch y := x.(type) {
	case *ast.Ident:
		if v, ok := e[y.Name]; ok {
			return v, nil
		}
	case *ast.BasicLit:
		if y.Kind == token.INT {
			return y.Value, nil
		}
	case *ast.BinaryExpr:
		a, err := t.pInt(y.X, e)
		if err != nil {
			return "", err
		}
		if lit, ok := paren(y.Y).(*ast.BasicLit); ok && lit.Kind == token.INT && lit.Value == "1" {
			if y.Op == token.ADD {
				return "(S " + a + ")", nil
			}
			if y.Op == token.SUB {
				return "(" + a + " - 1)", nil
			}
		}
	}
	return "", t.errf(x, "integer expression not in the translated fragment")
}

func (t *tr) pCond(x ast.Expr, e env) (string, error) {
	x = paren(x)
	b, ok := x.(*ast.BinaryExpr)
	if !ok {
		return "", t.errf(x, "condition not in the translated fragment")
	}
	switch b.Op {
	case token.EQL:
		if l, ok := t.vtypeExpr(b.X, e); ok {
			r, ok := t.vtypeExpr(b.Y, e)
			if !ok {
				return "", t.errf(x, "vertex type compared with something else")
			}
			return "(Bool.eqb " + l + " " + r + ")", nil
		}
		l, err := t.pInt(b.X, e)
		if err != nil {
			return "", err
		}
		r, err := t.pInt(b.Y, e)
		if err != nil {
			return "", err
		}
		return "(Nat.eqb " + l + " " + r + ")", nil
	case token.LSS:
		l, err := t.pInt(b.X, e)
		if err != nil {
			return "", err
		}
		r, err := t.pInt(b.Y, e)
		if err != nil {
			return "", err
		}
		return "(Nat.ltb " + l + " " + r + ")", nil
	}
	return "", t.errf(x, "condition not in the translated fragment")
}

// values assigned inside the loop
func (t *tr) pExpr(x ast.Expr, e env) (string, error) {
	x = paren(x)
	if v, ok := t.vtypeExpr(x, e); ok && !isIdent(x, "state") {
		return v, nil
	}
	switch y := x.(type) {
	case *ast.Ident:
		if v, ok := e[y.Name]; ok {
			return v, nil
		}
	case *ast.SelectorExpr: // v.vertex
		if id, ok := y.X.(*ast.Ident); ok && y.Sel.Name == "vertex" {
			if v, ok := e[id.Name]; ok {
				return "(bv_v " + v + ")", nil
			}
		}
	case *ast.IndexExpr: // b.vlist[i]
		if t.isRecvField(y.X, "vlist") {
			i, err := t.pInt(y.Index, e)
			if err != nil {
				return "", err
			}
			return "(nth " + i + " vlist bv_default)", nil
		}
	case *ast.CompositeLit: // []v2.Vec{e}
		if _, ok := y.Type.(*ast.ArrayType); ok {
			var els []string
			for _, el := range y.Elts {
				s, err := t.pExpr(el, e)
				if err != nil {
					return "", err
				}
				els = append(els, s)
			}
			return "[" + strings.Join(els, "; ") + "]", nil
		}
	case *ast.CallExpr:
		if isIdent(y.Fun, "append") && len(y.Args) == 2 && y.Ellipsis == token.NoPos {
			a, err := t.pExpr(y.Args[0], e)
			if err != nil {
				return "", err
			}
			b, err := t.pExpr(y.Args[1], e)
			if err != nil {
				return "", err
			}
			return "(" + a + " ++ [" + b + "])", nil
		}
		if isIdent(y.Fun, "NewBezierSpline") && len(y.Args) == 1 {
			a, err := t.pExpr(y.Args[0], e)
			if err != nil {
				return "", err
			}
			return "(NewBezierSpline " + a + ")", nil
		}
	}
	return "", t.errf(x, "expression not in the translated fragment")
}

func isStateVar(n string) bool {
	for _, v := range polyVars {
		if v == n {
			return true
		}
	}
	return false
}

// the statements ss, then rest; e: the current symbolic values of the loop variables and locals
func (t *tr) flow(ss []ast.Stmt, e env, rest func(env) (string, error)) (string, error) {
	if len(ss) == 0 {
		return rest(e)
	}
	next := func(e2 env) (string, error) { return t.flow(ss[1:], e2, rest) }
	switch s := ss[0].(type) {
	case *ast.AssignStmt:
		if len(s.Lhs) != 1 || len(s.Rhs) != 1 {
			return "", t.errf(s, "parallel assignment")
		}
		id, ok := s.Lhs[0].(*ast.Ident)
		if !ok {
			return "", t.errf(s, "assignment to something that is not a variable")
		}
		var v string
		var err error
		if id.Name == "state" {
			var ok2 bool
			v, ok2 = t.vtypeExpr(s.Rhs[0], e)
			if !ok2 {
				return "", t.errf(s, "state assigned something that is not endpoint/midpoint")
			}
		} else if id.Name == "i" {
			v, err = t.pInt(s.Rhs[0], e)
		} else {
			v, err = t.pExpr(s.Rhs[0], e)
		}
		if err != nil {
			return "", err
		}
		switch {
		case s.Tok == token.DEFINE && !isStateVar(id.Name):
			e2 := e.clone()
			e2[id.Name] = id.Name
			body, err := next(e2)
			if err != nil {
				return "", err
			}
			return "(let " + id.Name + " := " + v + " in " + body + ")", nil
		case s.Tok == token.ASSIGN && isStateVar(id.Name):
			e2 := e.clone()
			e2[id.Name] = v
			return next(e2)
		}
		return "", t.errf(s, "assignment not in the translated fragment")
	case *ast.IncDecStmt:
		id, ok := s.X.(*ast.Ident)
		if !ok || s.Tok != token.INC || id.Name != "i" {
			return "", t.errf(s, "only i++ is translated")
		}
		e2 := e.clone()
		e2["i"] = "(S " + e["i"] + ")"
		return next(e2)
	case *ast.IfStmt:
		if s.Init != nil {
			return "", t.errf(s, "if with init")
		}
		c, err := t.pCond(s.Cond, e)
		if err != nil {
			return "", err
		}
		th, err := t.flow(s.Body.List, e.clone(), next)
		if err != nil {
			return "", err
		}
		var el string
		switch x := s.Else.(type) {
		case nil:
			el, err = next(e.clone())
		case *ast.BlockStmt:
			el, err = t.flow(x.List, e.clone(), next)
		default:
			el, err = t.flow([]ast.Stmt{x}, e.clone(), next)
		}
		if err != nil {
			return "", err
		}
		return "(if " + c + "\n      then " + th + "\n      else " + el + ")", nil
	case *ast.BranchStmt:
		if s.Tok == token.BREAK && s.Label == nil {
			return "FBreak " + mkSt(e), nil
		}
	case *ast.ReturnStmt:
		if len(s.Results) == 2 && isIdent(s.Results[0], "nil") && !isIdent(s.Results[1], "nil") {
			return "FFail", nil
		}
	}
	return "", t.errf(ss[0], "statement not in the translated fragment")
}

func (t *tr) polygonLoop(fd *ast.FuncDecl) (string, error) {
	t.recv = recvName(fd)
	var loop *ast.ForStmt
	init := env{}
	nIs := ""
	for _, s := range fd.Body.List {
		if f, ok := s.(*ast.ForStmt); ok {
			loop = f
			break
		}
		switch x := s.(type) {
		case *ast.AssignStmt: // n := len(b.vlist); state := endpoint; i := 0; err := b.fixups()
			if x.Tok == token.DEFINE && len(x.Lhs) == 1 && len(x.Rhs) == 1 {
				name := x.Lhs[0].(*ast.Ident).Name
				switch name {
				case "state":
					v, ok := t.vtypeExpr(x.Rhs[0], env{})
					if !ok {
						return "", t.errf(x, "initial state")
					}
					init["state"] = v
				case "i":
					v, err := t.pInt(x.Rhs[0], env{})
					if err != nil {
						return "", err
					}
					init["i"] = v
				case "n":
					c, ok := paren(x.Rhs[0]).(*ast.CallExpr)
					if !ok || !isIdent(c.Fun, "len") || len(c.Args) != 1 || !t.isRecvField(c.Args[0], "vlist") {
						return "", t.errf(x, "n is not len(b.vlist)")
					}
					nIs = "List.length vlist"
				}
			}
		case *ast.DeclStmt: // var splines []*BezierSpline; var vertices []v2.Vec
			gd, ok := x.Decl.(*ast.GenDecl)
			if ok && gd.Tok == token.VAR {
				for _, sp := range gd.Specs {
					vs := sp.(*ast.ValueSpec)
					if len(vs.Values) != 0 {
						return "", t.errf(x, "initialised var before the loop")
					}
					for _, n := range vs.Names {
						init[n.Name] = "[]"
					}
				}
			}
		}
	}
	if loop == nil {
		return "", t.errf(fd, "Bezier.Polygon: no loop found")
	}
	if loop.Init != nil || loop.Post != nil || loop.Cond == nil {
		return "", t.errf(loop, "Bezier.Polygon: `for cond { }` expected")
	}
	var missing []string
	for _, v := range polyVars {
		if _, ok := init[v]; !ok {
			missing = append(missing, v)
		}
	}
	if nIs == "" {
		missing = append(missing, "n")
	}
	if len(missing) > 0 {
		sort.Strings(missing)
		return "", t.errf(fd, "Bezier.Polygon: no initial value found for %v", missing)
	}
	cur := env{"state": "(ps_state s)", "i": "(ps_i s)", "vertices": "(ps_vertices s)", "splines": "(ps_splines s)", "n": "n"}
	cond, err := t.pCond(loop.Cond, cur)
	if err != nil {
		return "", err
	}
	body, err := t.flow(loop.Body.List, cur, func(e env) (string, error) { return "FNext " + mkSt(e), nil })
	if err != nil {
		return "", err
	}
	var b strings.Builder
	b.WriteString("  (* Bezier.Polygon: the variables the loop assigns (state: true = midpoint) *)\n")
	b.WriteString("  Record PolySt (Sp : Type) := mkPolySt { ps_state : bool; ps_i : nat; ps_vertices : list (V2 O); ps_splines : list Sp }.\n")
	b.WriteString("  Arguments mkPolySt {Sp}.\n  Arguments ps_state {Sp}.\n  Arguments ps_i {Sp}.\n  Arguments ps_vertices {Sp}.\n  Arguments ps_splines {Sp}.\n")
	b.WriteString("  Inductive flow (Sp : Type) := FNext (s : PolySt Sp) | FBreak (s : PolySt Sp) | FFail.\n")
	b.WriteString("  Arguments FNext {Sp}.\n  Arguments FBreak {Sp}.\n  Arguments FFail {Sp}.\n")
	b.WriteString("  Definition bv_default : BV O := mkBV false v2zero v2zero v2zero.\n\n")
	b.WriteString("  (* n := " + nIs + " *)\n")
	b.WriteString("  Definition gen_polygon_n (vlist : list (BV O)) : nat := " + nIs + ".\n")
	b.WriteString("  Definition gen_polygon_init {Sp : Type} : PolySt Sp := " + mkSt(init) + ".\n")
	b.WriteString("  Definition gen_polygon_cond {Sp : Type} (n : nat) (s : PolySt Sp) : bool := " + cond + ".\n")
	b.WriteString("  Definition gen_polygon_body {Sp : Type} (NewBezierSpline : list (V2 O) -> Sp) (vlist : list (BV O)) (n : nat) (s : PolySt Sp) : flow Sp :=\n    ")
	b.WriteString(body + ".\n\n")
	return b.String(), nil
}

// ---------------------------------------------------------------- entry point

// Gen writes coq/Generated/ProfSkel.v from sdf/poly.go and sdf/bezier.go of the current tree.
func Gen(c *kit.Ctx) (string, []byte, error) {
	fset := token.NewFileSet()
	t := &tr{fset: fset}
	poly, err := parser.ParseFile(fset, filepath.Join(c.Repo, "sdf", "poly.go"), nil, 0)
	if err != nil {
		return "", nil, err
	}
	bez, err := parser.ParseFile(fset, filepath.Join(c.Repo, "sdf", "bezier.go"), nil, 0)
	if err != nil {
		return "", nil, err
	}
	pm, bm := methods(poly), methods(bez)
	var b strings.Builder
	b.WriteString("(* GENERATED by harness/profgen from sdf/poly.go and sdf/bezier.go - do not edit. *)\n")
	b.WriteString("From Coq Require Import ZArith List Bool Arith String.\nFrom Sdfx Require Import Num.Ops Geo.Vec Sdf.Build Sdf.Bezier.\nImport ListNotations.\n\nSection ProfSkel.\n  Context {O : Ops}.\n\n")
	need := func(m map[string]*ast.FuncDecl, key string) (*ast.FuncDecl, error) {
		fd := m[key]
		if fd == nil || fd.Body == nil {
			return nil, fmt.Errorf("profgen: method %s not found", key)
		}
		return fd, nil
	}
	for _, name := range []string{"nextVertex", "prevVertex"} {
		fd, err := need(pm, "Polygon."+name)
		if err != nil {
			return "", nil, err
		}
		s, err := t.neighbour(fd, name)
		if err != nil {
			return "", nil, err
		}
		b.WriteString(s)
	}
	for _, name := range []string{"createArcs", "smoothVertices"} {
		fd, err := need(pm, "Polygon."+name)
		if err != nil {
			return "", nil, err
		}
		s, err := t.fixedPoint(fd, name)
		if err != nil {
			return "", nil, err
		}
		b.WriteString(s)
	}
	fd, err := need(pm, "Polygon.fixups")
	if err != nil {
		return "", nil, err
	}
	s, err := t.callSequence(fd)
	if err != nil {
		return "", nil, err
	}
	b.WriteString(s)
	fd, err = need(bm, "Bezier.Polygon")
	if err != nil {
		return "", nil, err
	}
	s, err = t.polygonLoop(fd)
	if err != nil {
		return "", nil, err
	}
	b.WriteString(s)
	b.WriteString("End ProfSkel.\n\nArguments PolySt : clear implicits.\nArguments flow : clear implicits.\nArguments mkPolySt {O Sp}.\n" +
		"Arguments ps_state {O Sp}.\nArguments ps_i {O Sp}.\nArguments ps_vertices {O Sp}.\nArguments ps_splines {O Sp}.\n" +
		"Arguments FNext {O Sp}.\nArguments FBreak {O Sp}.\nArguments FFail {O Sp}.\n")
	return "ProfSkel.v", []byte(b.String()), nil
}
