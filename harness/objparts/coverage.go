package objparts

import (
	"go/ast"
	"go/parser"
	"go/token"
	"os"
	"path/filepath"
	"sort"
	"strings"
)

// treeCovered lists the sdf constructors that the expression-tree generator (harness/shapes/gen.go)
// builds; they are checked by the tree-based harnesses and are not this registry's business.
var treeCovered = map[string]bool{
	"sdf.Circle2D": true, "sdf.Box2D": true, "sdf.Line2D": true, "sdf.Offset2D": true, "sdf.Intersect2D": true,
	"sdf.Cut2D": true, "sdf.Transform2D": true, "sdf.ScaleUniform2D": true, "sdf.Array2D": true,
	"sdf.RotateUnion2D": true, "sdf.RotateCopy2D": true, "sdf.Union2D": true, "sdf.Difference2D": true,
	"sdf.Elongate2D": true, "sdf.Slice2D": true,
	"sdf.RevolveTheta3D": true, "sdf.Extrude3D": true, "sdf.TwistExtrude3D": true, "sdf.ScaleExtrude3D": true,
	"sdf.ScaleTwistExtrude3D": true, "sdf.ExtrudeRounded3D": true, "sdf.Loft3D": true, "sdf.Box3D": true,
	"sdf.Sphere3D": true, "sdf.Cylinder3D": true, "sdf.Cone3D": true, "sdf.Transform3D": true,
	"sdf.ScaleUniform3D": true, "sdf.Union3D": true, "sdf.Difference3D": true, "sdf.Elongate3D": true,
	"sdf.Intersect3D": true, "sdf.Cut3D": true, "sdf.Array3D": true, "sdf.RotateUnion3D": true,
	"sdf.RotateCopy3D": true, "sdf.Offset3D": true, "sdf.Shell3D": true,
}

// isShapeType reports whether a result type mentions an SDF2/SDF3 (or, in obj, a Tab)
func isShapeType(e ast.Expr) bool {
	switch t := e.(type) {
	case *ast.Ident:
		return t.Name == "SDF2" || t.Name == "SDF3" || t.Name == "Tab"
	case *ast.SelectorExpr:
		return t.Sel.Name == "SDF2" || t.Sel.Name == "SDF3"
	case *ast.ArrayType:
		return isShapeType(t.Elt)
	case *ast.StarExpr:
		return isShapeType(t.X)
	}
	return false
}

func recvType(fd *ast.FuncDecl) (name string, ptr bool) {
	if fd.Recv == nil || len(fd.Recv.List) == 0 {
		return "", false
	}
	t := fd.Recv.List[0].Type
	if s, ok := t.(*ast.StarExpr); ok {
		t, ptr = s.X, true
	}
	if id, ok := t.(*ast.Ident); ok {
		return id.Name, ptr
	}
	return "?", ptr
}

// constructors parses one package directory and returns the exported functions and methods (on
// exported receiver types, Evaluate/BoundingBox excluded) whose results include a shape type.
func constructors(dir, pkg string) ([]string, error) {
	fset := token.NewFileSet()
	ents, err := os.ReadDir(dir)
	if err != nil {
		return nil, err
	}
	var out []string
	for _, e := range ents {
		n := e.Name()
		if e.IsDir() || !strings.HasSuffix(n, ".go") || strings.HasSuffix(n, "_test.go") || strings.HasPrefix(n, "verif_hooks") {
			continue
		}
		f, err := parser.ParseFile(fset, filepath.Join(dir, n), nil, parser.SkipObjectResolution)
		if err != nil {
			return nil, err
		}
		for _, d := range f.Decls {
			fd, ok := d.(*ast.FuncDecl)
			if !ok || !fd.Name.IsExported() || fd.Type.Results == nil {
				continue
			}
			shape := false
			for _, r := range fd.Type.Results.List {
				if isShapeType(r.Type) {
					shape = true
				}
			}
			if !shape {
				continue
			}
			name := pkg + "." + fd.Name.Name
			if fd.Recv != nil {
				rt, ptr := recvType(fd)
				if !ast.IsExported(rt) || fd.Name.Name == "Evaluate" || fd.Name.Name == "BoundingBox" {
					continue
				}
				if ptr {
					name = pkg + ".(*" + rt + ")." + fd.Name.Name
				} else {
					name = pkg + ".(" + rt + ")." + fd.Name.Name
				}
			}
			out = append(out, name)
		}
	}
	sort.Strings(out)
	return out, nil
}

// Coverage lists the names of all exported constructors of obj/ (every exported function or method
// returning an SDF2/SDF3/[]SDF3/Tab) and of sdf/ (those not built by the expression-tree generator)
// found by parsing the CURRENT source under repo with go/parser, split into the ones the registry
// constructs parts from and the ones it does not.  A registry source that no longer exists in the
// source tree is reported in uncovered with the prefix "stale:".
func Coverage(repo string) (covered, uncovered []string, err error) {
	have := sources()
	seen := map[string]bool{}
	for _, pd := range [][2]string{{"obj", "obj"}, {"sdf", "sdf"}} {
		names, e := constructors(filepath.Join(repo, pd[0]), pd[1])
		if e != nil {
			return nil, nil, e
		}
		for _, n := range names {
			seen[n] = true
			switch {
			case have[n]:
				covered = append(covered, n)
			case treeCovered[n]:
				// expression-tree generator
			default:
				uncovered = append(uncovered, n)
			}
		}
	}
	for n := range have {
		// helper sources (lookups, SpringLength) are not shape constructors and are not in `seen`
		if !seen[n] && !helperSource[n] {
			uncovered = append(uncovered, "stale:"+n)
		}
	}
	sort.Strings(covered)
	sort.Strings(uncovered)
	return covered, uncovered, nil
}

// helperSource: exported non-shape functions the registry exercises on the way
var helperSource = map[string]bool{
	"obj.PipeLookup": true, "obj.ServoLookup": true, "obj.(*SpringParms).SpringLength": true,
}
