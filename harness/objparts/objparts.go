// Package objparts is a registry that constructs every part of the sdfx object library
// (/repo/obj/*.go) and the "opaque" sdf constructors that the expression-tree generator
// (harness/shapes) does not reach (cams, flange, rack, spiral, spline, text, voxel, meshes,
// gyroid, screw + thread profiles, polygon/bezier builders, ...) through the PUBLIC API with
// valid, documented parameters.
//
// All returns, per constructor, the documented example parameters (doc comments, call sites in
// /repo/examples/*/main.go, tests) plus a few rng-perturbed valid variants.  Coverage parses the
// CURRENT /repo source and reports which exported constructors the registry reaches, so a new
// constructor in the source shows up as uncovered instead of being silently ignored.
package objparts

import (
	"fmt"
	"math"
	"os"
	"path/filepath"

	"github.com/deadsy/sdfx/sdf"
	"verifharness/kit"
)

// Part is one constructed shape of the object library.
type Part struct {
	Name      string   // e.g. "obj.Bolt/M16x2/hex" — unique, stable
	Dim       int      // 2 or 3
	S2        sdf.SDF2 // when Dim == 2
	S3        sdf.SDF3 // when Dim == 3
	Unbounded bool     // documented as unbounded (gyroid)
	Params    string   // printable parameter struct
	Source    string   // constructor name, e.g. "obj.Bolt"
	Doc       bool     // true: documented example parameters; false: rng-perturbed variant
}

// RepoDir is where the sdfx source tree (files/*.stl, files/*.ttf) lives.
// $VERIF_REPO overrides the default /repo.
var RepoDir = func() string {
	if d := os.Getenv("VERIF_REPO"); d != "" {
		return d
	}
	return "/repo"
}()

func repoFile(rel string) string { return filepath.Join(RepoDir, rel) }

// reg accumulates the parts.
type reg struct {
	r     *kit.Rng
	parts []Part
	errs  []string
	names map[string]int
	// implied: sources exercised only through another constructor's part (e.g. obj.PipeLookup)
	implied map[string]bool
	skipped []string
}

func (g *reg) name(source, tag string) string {
	n := source + "/" + tag
	g.names[n]++
	if k := g.names[n]; k > 1 {
		n = fmt.Sprintf("%s#%d", n, k)
	}
	return n
}

func (g *reg) fail(doc bool, source, tag, params string, err interface{}, panicked bool) {
	switch {
	case panicked:
		g.errs = append(g.errs, fmt.Sprintf("PANIC %s/%s doc=%v params=%s: %v", source, tag, doc, params, err))
	case doc:
		g.errs = append(g.errs, fmt.Sprintf("documented example failed: %s/%s params=%s: %v", source, tag, params, err))
	default:
		// an error on a perturbed variant is skipped silently (kept for diagnostics only)
		g.skipped = append(g.skipped, fmt.Sprintf("%s/%s params=%s: %v", source, tag, params, err))
	}
}

// p3 registers a 3D part; f is run under recover.
func (g *reg) p3(source, tag string, doc bool, params interface{}, f func() (sdf.SDF3, error)) sdf.SDF3 {
	ps := pstr(params)
	var s sdf.SDF3
	var err error
	func() {
		defer func() {
			if x := recover(); x != nil {
				g.fail(doc, source, tag, ps, x, true)
				s, err = nil, fmt.Errorf("panic")
			}
		}()
		s, err = f()
	}()
	if err != nil {
		if err.Error() != "panic" {
			g.fail(doc, source, tag, ps, err, false)
		}
		return nil
	}
	if isNil3(s) {
		if doc {
			g.fail(doc, source, tag, ps, "nil SDF3 without error", false)
		}
		return nil
	}
	g.parts = append(g.parts, Part{Name: g.name(source, tag), Dim: 3, S3: s, Params: ps, Source: source, Doc: doc})
	return s
}

// p2 registers a 2D part; f is run under recover.
func (g *reg) p2(source, tag string, doc bool, params interface{}, f func() (sdf.SDF2, error)) sdf.SDF2 {
	ps := pstr(params)
	var s sdf.SDF2
	var err error
	func() {
		defer func() {
			if x := recover(); x != nil {
				g.fail(doc, source, tag, ps, x, true)
				s, err = nil, fmt.Errorf("panic")
			}
		}()
		s, err = f()
	}()
	if err != nil {
		if err.Error() != "panic" {
			g.fail(doc, source, tag, ps, err, false)
		}
		return nil
	}
	if isNil2(s) {
		if doc {
			g.fail(doc, source, tag, ps, "nil SDF2 without error", false)
		}
		return nil
	}
	g.parts = append(g.parts, Part{Name: g.name(source, tag), Dim: 2, S2: s, Params: ps, Source: source, Doc: doc})
	return s
}

func (g *reg) imply(sources ...string) {
	for _, s := range sources {
		g.implied[s] = true
	}
}

func isNil3(s sdf.SDF3) bool { return s == nil }
func isNil2(s sdf.SDF2) bool { return s == nil }

func pstr(p interface{}) string {
	if s, ok := p.(string); ok {
		return s
	}
	return fmt.Sprintf("%+v", p)
}

// ---------------------------------------------------------------- random helpers

// u returns a uniform value in [lo,hi] on a 1/1024 grid (printable, reproducible)
func (g *reg) u(lo, hi float64) float64 {
	x := g.r.Uniform(lo, hi)
	q := math.Round(x*1024) / 1024
	if q < lo {
		q = lo
	}
	if q > hi {
		q = hi
	}
	return q
}
func (g *reg) n(lo, hi int) int { return g.r.Range(lo, hi) }
func (g *reg) b() bool          { return g.r.Bool() }
func (g *reg) pick(xs ...string) string {
	return xs[g.r.Intn(len(xs))]
}

// zeroOr returns 0 (probability 1/3) or a uniform value
func (g *reg) zeroOr(lo, hi float64) float64 {
	if g.r.Intn(3) == 0 {
		return 0
	}
	return g.u(lo, hi)
}

// nVariants is the number of perturbed variants tried per constructor.
const nVariants = 3

func vtag(i int, s string) string {
	if s == "" {
		return fmt.Sprintf("v%d", i)
	}
	return fmt.Sprintf("v%d:%s", i, s)
}

// ---------------------------------------------------------------- entry point

// All returns every part at its documented example parameters plus, for each constructor, a few
// perturbed VALID variants derived from rng.  A constructor error on a perturbed variant is
// skipped silently; on a documented example it is reported in errs (as is any panic).
func All(rng *kit.Rng) (parts []Part, errs []string) {
	// kit.NewRng(k+1) yields the stream of kit.NewRng(k) shifted by one draw (SplitMix64 with the
	// seed multiplied by its own increment), and the data-dependent number of draws below lets two
	// such streams re-synchronise; re-seed from an output word so that nearby seeds are unrelated.
	g := &reg{r: kit.NewRng(rng.U64()), names: map[string]int{}, implied: map[string]bool{}}
	g.objParts()
	g.sdfParts()
	LastSkipped = g.skipped
	return g.parts, g.errs
}

// LastSkipped lists the perturbed variants of the most recent All call whose constructor returned
// an error (they are not parts and not errors; diagnostics for the registry's own generators).
var LastSkipped []string

// sources returns the set of constructor names the registry exercised (directly or implied)
func sources() map[string]bool {
	g := &reg{r: kit.NewRng(1), names: map[string]int{}, implied: map[string]bool{}}
	g.objParts()
	g.sdfParts()
	m := map[string]bool{}
	for _, p := range g.parts {
		m[p.Source] = true
	}
	for s := range g.implied {
		m[s] = true
	}
	return m
}
