package objparts

// The sdf constructors that the expression-tree generator (harness/shapes) does not reach.

import (
	"fmt"
	"math"

	"github.com/deadsy/sdfx/obj"
	"github.com/deadsy/sdfx/render"
	"github.com/deadsy/sdfx/sdf"
	v2 "github.com/deadsy/sdfx/vec/v2"
	v3 "github.com/deadsy/sdfx/vec/v3"
)

func (g *reg) sdfParts() {
	g.cams()
	g.flange()
	g.rack()
	g.spiral()
	g.spline()
	g.text()
	g.voxel()
	g.meshes()
	g.gyroid()
	g.screws()
	g.polygons()
	g.beziers()
	g.misc()
}

// ---------------------------------------------------------------- cams.go

func (g *reg) cams() {
	ff := func(tag string, doc bool, d, b, n float64) {
		g.p2("sdf.FlatFlankCam2D", tag, doc, fmt.Sprintf("distance=%v baseRadius=%v noseRadius=%v", d, b, n),
			func() (sdf.SDF2, error) { return sdf.FlatFlankCam2D(d, b, n) })
	}
	ta := func(tag string, doc bool, d, b, n, f float64) {
		g.p2("sdf.ThreeArcCam2D", tag, doc, fmt.Sprintf("distance=%v baseRadius=%v noseRadius=%v flankRadius=%v", d, b, n, f),
			func() (sdf.SDF2, error) { return sdf.ThreeArcCam2D(d, b, n, f) })
	}
	mff := func(tag string, doc bool, lift, dur, dia float64) {
		g.p2("sdf.MakeFlatFlankCam", tag, doc, fmt.Sprintf("lift=%v duration=%v maxDiameter=%v", lift, dur, dia),
			func() (sdf.SDF2, error) { return sdf.MakeFlatFlankCam(lift, dur, dia) })
	}
	mta := func(tag string, doc bool, lift, dur, dia, k float64) {
		g.p2("sdf.MakeThreeArcCam", tag, doc, fmt.Sprintf("lift=%v duration=%v maxDiameter=%v k=%v", lift, dur, dia, k),
			func() (sdf.SDF2, error) { return sdf.MakeThreeArcCam(lift, dur, dia, k) })
	}
	// examples/benchmark, joko, delta
	ff("ex:benchmark", true, 30, 20, 5)
	ff("ex:joko", true, 9.75-1.89-1.0, 1.89, 1.0)
	ff("ex:delta", true, 100, 15, 5)
	ta("ex:benchmark", true, 30, 20, 5, 200)
	// examples/camshaft: lift = 0.0625, camDiameter = 5/8, k = 1.05, durations 115/125 degrees
	mta("ex:camshaft/inlet", true, 0.0625, sdf.DtoR(115), 5.0/8.0, 1.05)
	mta("ex:camshaft/exhaust", true, 0.0625, sdf.DtoR(125), 5.0/8.0, 1.05)
	// no call site: the camshaft design parameters with flat flanks
	mff("doc:camshaft", true, 0.0625, sdf.DtoR(115), 5.0/8.0)
	for i := 0; i < nVariants+1; i++ {
		b := g.u(5, 30)
		n := g.u(0.2, 0.9) * b
		d := (b - n) + g.u(1, 30)
		ff(vtag(i, ""), false, d, b, n)
		b = g.u(5, 30)
		n = g.u(0.2, 0.9) * b
		d = (b - n) + g.u(1, 30)
		// minimum flank radius is (b+d+n)/2; small multiples are the documented weak spot of the box
		ta(vtag(i, ""), false, d, b, n, []float64{1.02, 1.3, 2, 6}[i%4]*g.u(1, 1.2)*(b+d+n)/2)
		dia := g.u(10, 60)
		mff(vtag(i, ""), false, g.u(0.05, 0.2)*dia, sdf.DtoR(g.u(90, 170)), dia)
		dia = g.u(10, 60)
		mta(vtag(i, ""), false, g.u(0.05, 0.2)*dia, sdf.DtoR(g.u(90, 170)), dia, g.u(1.02, 1.2))
	}
}

// ---------------------------------------------------------------- flange.go

func (g *reg) flange() {
	mk := func(tag string, doc bool, d, c, s float64) {
		g.p2("sdf.NewFlange1", tag, doc, fmt.Sprintf("distance=%v centerRadius=%v sideRadius=%v", d, c, s),
			func() (sdf.SDF2, error) { return sdf.NewFlange1(d, c, s), nil })
	}
	// examples/cylinder_head
	mk("ex:cylinder_head", true, 13.0/32.0, 5.0/16.0, 5.0/32.0)
	for i := 0; i < nVariants; i++ {
		c := g.u(5, 20)
		mk(vtag(i, ""), false, c+g.u(0, 30), c, g.u(0.3, 0.9)*c)
	}
}

// ---------------------------------------------------------------- rack.go

func (g *reg) rack() {
	mk := func(tag string, doc bool, k sdf.GearRackParms) {
		kk := k
		g.p2("sdf.GearRack2D", tag, doc, k, func() (sdf.SDF2, error) { return sdf.GearRack2D(&kk) })
	}
	// examples/gears
	mk("ex:gears", true, sdf.GearRackParms{NumberTeeth: 11, Module: (5.0 / 8.0) / 20.0, PressureAngle: sdf.DtoR(20), BaseHeight: 0.025})
	for i := 0; i < nVariants; i++ {
		m := g.u(0.5, 4)
		mk(vtag(i, ""), false, sdf.GearRackParms{NumberTeeth: g.n(1, 20), Module: m, PressureAngle: sdf.DtoR(g.u(14.5, 25)),
			Backlash: g.zeroOr(0, 0.05) * m, BaseHeight: g.zeroOr(0.1, 2) * m})
	}
}

// ---------------------------------------------------------------- spiral.go

func (g *reg) spiral() {
	mk := func(tag string, doc bool, a, k, start, end, d float64) {
		g.p2("sdf.ArcSpiral2D", tag, doc, fmt.Sprintf("a=%v k=%v start=%v end=%v d=%v", a, k, start, end, d),
			func() (sdf.SDF2, error) { return sdf.ArcSpiral2D(a, k, start, end, d) })
	}
	// examples/spiral
	mk("ex:spiral", true, 1.0, 20.0, 0.25*sdf.Pi, 8*sdf.Tau, 1.0)
	// spirals with a negative polar radius at an end (through the centre, negative angles, negative slope)
	mk("neg:through-centre", false, 1.0, -10.0, 0, 2*sdf.Tau, 0.5)
	mk("neg:slope", false, -1.0, 0, 0.25*sdf.Pi, 3*sdf.Tau, 1.0)
	mk("neg:angles", false, 0.5, 2.0, -3*sdf.Tau, -0.5*sdf.Tau, 0.4)
	for i := 0; i < nVariants+1; i++ {
		a := g.u(0.2, 3)
		start := g.u(0, sdf.Tau)
		end := start + g.u(1, 6)*sdf.Tau
		if i == 1 { // end < start is accepted (swapped)
			start, end = end, start
		}
		mk(vtag(i, ""), false, a, g.zeroOr(1, 30), start, end, g.u(0.1, 0.45)*a*sdf.Tau)
	}
}

// ---------------------------------------------------------------- spline.go

func (g *reg) spline() {
	mk := func(tag string, doc bool, knot []v2.Vec) {
		s := g.p2("sdf.CubicSpline2D", tag, doc, fmt.Sprintf("knot=%v", knot), func() (sdf.SDF2, error) { return sdf.CubicSpline2D(knot) })
		if cs, ok := s.(*sdf.CubicSplineSDF2); ok {
			n := 20 * len(knot)
			g.p2("sdf.(*CubicSplineSDF2).PolySpline2D", tag, doc, fmt.Sprintf("knot=%v n=%d", knot, n), func() (sdf.SDF2, error) { return cs.PolySpline2D(n) })
		}
	}
	// sdf/sdf_test.go Test_CubicSpline
	mk("test:Test_CubicSpline", true, []v2.Vec{{X: -1.5, Y: -1.2}, {X: -0.2, Y: 0}, {X: 1, Y: 0.5}, {X: 5, Y: 1}, {X: 10, Y: 2.2}, {X: 12, Y: 3.2}, {X: -16, Y: -1.2}, {X: -18, Y: -3.2}})
	for i := 0; i < nVariants; i++ {
		// knots around a circle (a simple closed-ish loop), radius jittered
		n := g.n(4, 9)
		c := v2.Vec{X: g.u(-10, 10), Y: g.u(-10, 10)}
		r := g.u(3, 15)
		knot := make([]v2.Vec, 0, n+1)
		for j := 0; j < n; j++ {
			a := sdf.Tau * float64(j) / float64(n)
			rr := r * g.u(0.7, 1.3)
			knot = append(knot, c.Add(v2.Vec{X: rr * math.Cos(a), Y: rr * math.Sin(a)}))
		}
		if i != 2 {
			knot = append(knot, knot[0])
		}
		mk(vtag(i, ""), false, knot)
	}
}

// ---------------------------------------------------------------- text.go, cache2.go

func (g *reg) text() {
	font := repoFile("files/cmr10.ttf")
	f, err := sdf.LoadFont(font)
	if err != nil {
		g.errs = append(g.errs, fmt.Sprintf("documented example failed: sdf.LoadFont(%s): %v", font, err))
		return
	}
	mk := func(tag string, doc bool, s string, h float64) sdf.SDF2 {
		return g.p2("sdf.Text2D", tag, doc, fmt.Sprintf("font=files/cmr10.ttf text=%q h=%v", s, h), func() (sdf.SDF2, error) { return sdf.Text2D(f, sdf.NewText(s), h) })
	}
	// examples/text, examples/dc2test
	t0 := mk("ex:text", true, "SDFX!\nHello,\nWorld!", 10.0)
	if t0 != nil {
		g.p2("sdf.Cache2D", "ex:text", true, "Cache2D(Text2D(cmr10, \"SDFX!\\nHello,\\nWorld!\", 10))", func() (sdf.SDF2, error) { return sdf.Cache2D(t0), nil })
	}
	words := []string{"gyp", "Ag", "Q.j", "WAVE", "i", "x y", "1/2\nfl", "@#%", "Tj\n\nq"}
	for i := 0; i < nVariants+1; i++ {
		mk(vtag(i, ""), false, words[g.r.Intn(len(words))], g.u(1, 40))
	}
	for i := 0; i < nVariants; i++ {
		c := v2.Vec{X: g.u(-5, 5), Y: g.u(-5, 5)}
		sz := v2.Vec{X: g.u(1, 8), Y: g.u(1, 8)}
		g.p2("sdf.Cache2D", vtag(i, ""), false, fmt.Sprintf("Cache2D(Transform2D(Box2D(%v,0),Translate2d(%v)))", sz, c),
			func() (sdf.SDF2, error) {
				return sdf.Cache2D(sdf.Transform2D(sdf.Box2D(sz, 0), sdf.Translate2d(c))), nil
			})
	}
}

// ---------------------------------------------------------------- voxel.go

func (g *reg) voxel() {
	// examples/monkey_hat: NewVoxelSDF3(Union3D(ImportSTL(monkey,20,3,5), hat), 64, nil)
	g.p3("sdf.NewVoxelSDF3", "ex:monkey_hat", true, "NewVoxelSDF3(Union3D(ImportSTL(files/monkey.stl,20,3,5), hat), 64, nil)", func() (sdf.SDF3, error) {
		monkey, err := obj.ImportSTL(repoFile("files/monkey.stl"), 20, 3, 5)
		if err != nil {
			return nil, err
		}
		hatHeight := 0.5
		hat, err := sdf.Cylinder3D(hatHeight, 0.6, 0)
		if err != nil {
			return nil, err
		}
		edge, err := sdf.Cylinder3D(hatHeight*0.4, 1, 0)
		if err != nil {
			return nil, err
		}
		edge = sdf.Transform3D(edge, sdf.Translate3d(v3.Vec{Z: -hatHeight / 2}))
		fullHat := sdf.Transform3D(sdf.Union3D(hat, edge), sdf.Translate3d(v3.Vec{Y: 0.15, Z: 1}))
		return sdf.NewVoxelSDF3(sdf.Union3D(monkey, fullHat), 64, nil), nil
	})
	for i := 0; i < nVariants; i++ {
		cells := []int{8, 20, 33}[i%3]
		c := v3.Vec{X: g.u(-5, 5), Y: g.u(-5, 5), Z: g.u(-5, 5)}
		switch i % 3 {
		case 0:
			r := g.u(1, 5)
			g.p3("sdf.NewVoxelSDF3", vtag(i, "sphere"), false, fmt.Sprintf("NewVoxelSDF3(Transform3D(Sphere3D(%v),Translate3d(%v)),%d,nil)", r, c, cells), func() (sdf.SDF3, error) {
				s, err := sdf.Sphere3D(r)
				if err != nil {
					return nil, err
				}
				return sdf.NewVoxelSDF3(sdf.Transform3D(s, sdf.Translate3d(c)), cells, nil), nil
			})
		case 1:
			sz := v3.Vec{X: g.u(1, 8), Y: g.u(1, 8), Z: g.u(1, 8)}
			g.p3("sdf.NewVoxelSDF3", vtag(i, "box"), false, fmt.Sprintf("NewVoxelSDF3(Transform3D(Box3D(%v,0),Translate3d(%v)),%d,nil)", sz, c, cells), func() (sdf.SDF3, error) {
				s, err := sdf.Box3D(sz, 0)
				if err != nil {
					return nil, err
				}
				return sdf.NewVoxelSDF3(sdf.Transform3D(s, sdf.Translate3d(c)), cells, nil), nil
			})
		default:
			h, r := g.u(2, 10), g.u(1, 4)
			g.p3("sdf.NewVoxelSDF3", vtag(i, "cyl"), false, fmt.Sprintf("NewVoxelSDF3(Cylinder3D(%v,%v,0),%d,nil)", h, r, cells), func() (sdf.SDF3, error) {
				s, err := sdf.Cylinder3D(h, r, 0)
				if err != nil {
					return nil, err
				}
				return sdf.NewVoxelSDF3(s, cells, nil), nil
			})
		}
	}
}

// ---------------------------------------------------------------- mesh2.go, mesh3.go

// testPolygon of examples/mesh_test/main.go is a 60-vertex bezier outline; the same kind of closed
// outline is built here from the bezier of examples/bezier (bowling pin), which is self-contained.
func bowlingPin() *sdf.Bezier {
	b := sdf.NewBezier()
	b.Add(0, 0)
	b.Add(2.031/2.0, 0).HandleFwd(sdf.DtoR(45), 2)
	b.Add(4.766/2.0, 4.5).Handle(sdf.DtoR(90), 2, 2)
	b.Add(1.797/2.0, 10).Handle(sdf.DtoR(90), 3, 3)
	b.Add(2.547/2.0, 13.5).Handle(sdf.DtoR(90), 1, 1)
	b.Add(0, 15).HandleRev(sdf.DtoR(0), 1)
	b.Close()
	return b
}

func starPolygon(g *reg, c v2.Vec, n int, r0, r1 float64) []v2.Vec {
	v := make([]v2.Vec, 0, 2*n)
	for j := 0; j < 2*n; j++ {
		a := sdf.Pi * float64(j) / float64(n)
		r := r0
		if j&1 == 1 {
			r = r1
		}
		v = append(v, c.Add(v2.Vec{X: r * math.Cos(a), Y: r * math.Sin(a)}))
	}
	return v
}

func (g *reg) meshes() {
	m2 := func(tag string, doc bool, params string, lines func() ([]*sdf.Line2, error)) {
		g.p2("sdf.Mesh2D", tag, doc, params, func() (sdf.SDF2, error) {
			l, err := lines()
			if err != nil {
				return nil, err
			}
			return sdf.Mesh2D(l)
		})
		g.p2("sdf.Mesh2DSlow", tag, doc, params, func() (sdf.SDF2, error) {
			l, err := lines()
			if err != nil {
				return nil, err
			}
			return sdf.Mesh2DSlow(l)
		})
	}
	// examples/mesh_test: VertexToLine(bezier polygon vertices, closed)
	m2("ex:mesh_test", true, "VertexToLine(bowlingPin bezier polygon, true)", func() ([]*sdf.Line2, error) {
		p, err := bowlingPin().Polygon()
		if err != nil {
			return nil, err
		}
		return sdf.VertexToLine(p.Vertices(), true), nil
	})
	for i := 0; i < nVariants; i++ {
		c := v2.Vec{X: g.u(-20, 20), Y: g.u(-20, 20)}
		n := g.n(3, 9)
		r0 := g.u(2, 20)
		r1 := r0 * g.u(0.3, 1)
		m2(vtag(i, ""), false, fmt.Sprintf("VertexToLine(star(c=%v n=%d r0=%v r1=%v), true)", c, n, r0, r1), func() ([]*sdf.Line2, error) {
			return sdf.VertexToLine(starPolygon(g, c, n, r0, r1), true), nil
		})
	}
	m3 := func(tag string, doc bool, params string, mesh func() ([]*sdf.Triangle3, error)) {
		g.p3("sdf.Mesh3D", tag, doc, params, func() (sdf.SDF3, error) {
			m, err := mesh()
			if err != nil {
				return nil, err
			}
			return sdf.Mesh3D(m)
		})
		g.p3("sdf.Mesh3DSlow", tag, doc, params, func() (sdf.SDF3, error) {
			m, err := mesh()
			if err != nil {
				return nil, err
			}
			return sdf.Mesh3DSlow(m)
		})
	}
	m3("doc:monkey", true, "render.LoadSTL(files/monkey.stl)", func() ([]*sdf.Triangle3, error) { return render.LoadSTL(repoFile("files/monkey.stl")) })
	for i := 0; i < nVariants; i++ {
		lo := v3.Vec{X: g.u(-10, 10), Y: g.u(-10, 10), Z: g.u(-10, 10)}
		hi := lo.Add(v3.Vec{X: g.u(1, 10), Y: g.u(1, 10), Z: g.u(1, 10)})
		m3(vtag(i, "box"), false, fmt.Sprintf("box(%v,%v)", lo, hi), func() ([]*sdf.Triangle3, error) { return boxMesh(lo, hi), nil })
	}
}

// ---------------------------------------------------------------- gyroid.go

func (g *reg) gyroid() {
	mk := func(tag string, doc bool, k v3.Vec) {
		g.p3("sdf.Gyroid3D", tag, doc, fmt.Sprintf("scale=%v", k), func() (sdf.SDF3, error) { return sdf.Gyroid3D(k) })
		if n := len(g.parts); n > 0 && g.parts[n-1].Source == "sdf.Gyroid3D" {
			g.parts[n-1].Unbounded = true
		}
	}
	// examples/gyroid gyroidCube: k = 100*0.2
	mk("ex:gyroid/cube", true, v3.Vec{X: 20, Y: 20, Z: 20})
	for i := 0; i < nVariants; i++ {
		mk(vtag(i, ""), false, v3.Vec{X: g.u(1, 40), Y: g.u(1, 40), Z: g.u(1, 40)})
	}
}

// ---------------------------------------------------------------- screw.go

func (g *reg) screws() {
	type prof struct {
		name string
		mk   func(r, p float64) (sdf.SDF2, error)
	}
	profs := []prof{
		{"sdf.AcmeThread", sdf.AcmeThread},
		{"sdf.ISOThread/ext", func(r, p float64) (sdf.SDF2, error) { return sdf.ISOThread(r, p, true) }},
		{"sdf.ISOThread/int", func(r, p float64) (sdf.SDF2, error) { return sdf.ISOThread(r, p, false) }},
		{"sdf.ANSIButtressThread", sdf.ANSIButtressThread},
		{"sdf.PlasticButtressThread", sdf.PlasticButtressThread},
	}
	src := func(n string) string {
		if len(n) > 13 && n[:13] == "sdf.ISOThread" {
			return "sdf.ISOThread"
		}
		return n
	}
	one := func(tag string, doc bool, pf prof, r, p, l, taper float64, starts int) {
		var prof2 sdf.SDF2
		ptag := tag
		if src(pf.name) != pf.name {
			ptag = pf.name[14:] + "/" + tag
		}
		prof2 = g.p2(src(pf.name), ptag, doc, fmt.Sprintf("radius=%v pitch=%v", r, p), func() (sdf.SDF2, error) { return pf.mk(r, p) })
		if prof2 == nil {
			return
		}
		g.p3("sdf.Screw3D", pf.name[4:]+"/"+tag, doc, fmt.Sprintf("thread=%s(radius=%v,pitch=%v) length=%v taper=%v pitch=%v starts=%d", pf.name, r, p, l, taper, p, starts),
			func() (sdf.SDF3, error) { return sdf.Screw3D(prof2, l, taper, p, starts) })
	}
	// examples/bolt_container, tapers (x3), gas_cap, fidget (internal)
	one("ex:bolt_container", true, profs[1], 27.5, 5.6, 40, 0, 1)
	one("ex:tapers/7start", true, profs[1], 2.0, 0.5, 5.0, sdf.DtoR(20), 7)
	one("ex:tapers/7start-lh", true, profs[1], 2.0, 0.5, 5.0, sdf.DtoR(20), -7)
	one("ex:tapers/3deg", true, profs[1], 2.0, 0.5, 10.0, sdf.DtoR(3), 1)
	one("ex:gas_cap", true, profs[4], 48.5/2.0, 6.0, 28.0, 0, 1)
	one("ex:fidget/internal", true, profs[2], 5.6, 1.0, 7.0, 0, 1)
	// thread database entries as obj.Bolt / obj.Nut use them (incl. a tapered NPT thread)
	for _, n := range []string{"M8x1.25", "npt_1/2"} {
		if t, err := sdf.ThreadLookup(n); err == nil {
			one("doc:db/"+n, true, profs[1], t.Radius, t.Pitch, 6*t.Radius, t.Taper, 1)
			one("doc:db/"+n, true, profs[2], t.Radius, t.Pitch, t.HexHeight(), t.Taper, 1)
		}
	}
	// no call sites for the acme / ansi buttress profiles: a Tr20x4-like and a 1"x8tpi-like thread
	one("doc:tr20x4", true, profs[0], 10, 4, 40, 0, 1)
	one("doc:buttress-1in-8tpi", true, profs[3], 12.7, 3.175, 30, 0, 1)
	starts := []int{1, 2, -1, 3, -7}
	for _, pf := range profs {
		for i := 0; i < nVariants; i++ {
			r := g.u(3, 20)
			p := g.u(0.08, 0.25) * r
			taper := 0.0
			switch g.r.Intn(3) {
			case 1:
				taper = math.Atan(1.0 / 32.0)
			case 2:
				taper = sdf.DtoR(g.u(0.5, 8))
			}
			one(vtag(i, ""), false, pf, r, p, g.u(1, 4)*r, taper, starts[g.r.Intn(len(starts))])
		}
	}
}

// ---------------------------------------------------------------- poly.go (Polygon builder → Polygon2D)

func (g *reg) polygons() {
	poly := func(tag string, doc bool, params string, build func() *sdf.Polygon) {
		g.p2("sdf.Polygon2D", tag, doc, params, func() (sdf.SDF2, error) { return sdf.Polygon2D(build().Vertices()) })
		g.p2("sdf.(*Polygon).Mesh2D", tag, doc, params, func() (sdf.SDF2, error) { return build().Mesh2D() })
	}
	// examples/challenge/cc18.go part A (Polar, Rel, Arc, Close)
	poly("ex:cc18a", true, "examples/challenge/cc18.go cc18a outline", func() *sdf.Polygon {
		p := sdf.NewPolygon()
		p.Add(0, 0)
		p.Add(175, sdf.DtoR(-15)).Polar().Rel()
		p.Add(130, 0).Rel()
		p.Add(0, -25).Rel()
		p.Add(80, 0).Rel()
		p.Add(0, 25).Rel()
		p.Add(75, 0).Rel()
		p.Add(0, -75).Rel()
		p.Add(115, sdf.DtoR(-105)).Polar().Rel()
		p.Add(-50, 0).Rel()
		p.Add(150, sdf.DtoR(-195)).Polar().Rel().Arc(-120, 15)
		p.Add(100, sdf.DtoR(-150)).Polar().Rel()
		p.Add(-60, 0).Rel()
		p.Add(-10, 0).Rel()
		p.Add(-30, 0).Rel()
		p.Add(0, 135).Rel()
		p.Add(-60, 0).Rel()
		p.Close()
		return p
	})
	// examples/challenge/cc18.go part B (Smooth)
	poly("ex:cc18b", true, "examples/challenge/cc18.go cc18b pipe profile", func() *sdf.Polygon {
		p := sdf.NewPolygon()
		p.Add(0, 0)
		p.Add(6, 0)
		p.Add(6, 19).Smooth(0.5, 5)
		p.Add(8, 19)
		p.Add(8, 21)
		p.Add(6, 21)
		p.Add(6, 20)
		p.Add(0, 20)
		return p
	})
	// obj.ChamferedCylinder's profile (Chamfer) for l = 20, r = 10, kb = 0, kt = 0.25
	poly("doc:chamfer", true, "ChamferedCylinder profile l=20 r=10 kb=0 kt=0.25", func() *sdf.Polygon {
		p := sdf.NewPolygon()
		p.Add(0, -20)
		p.Add(10, -20).Chamfer(0)
		p.Add(10, 20).Chamfer(2.5)
		p.Add(0, 20)
		return p
	})
	// sdf.Nagon
	g.p2("sdf.Polygon2D", "doc:nagon6", true, "Nagon(6, 10)", func() (sdf.SDF2, error) { return sdf.Polygon2D(sdf.Nagon(6, 10)) })
	for i := 0; i < nVariants+1; i++ {
		// an off-origin rounded/chamfered rectangle with a notch
		c := v2.Vec{X: g.u(-30, 30), Y: g.u(-30, 30)}
		w, h := g.u(10, 60), g.u(10, 60)
		m := math.Min(w, h)
		rs := [4]float64{g.zeroOr(0.02, 0.2) * m, g.zeroOr(0.02, 0.2) * m, g.zeroOr(0.02, 0.2) * m, g.zeroOr(0.02, 0.2) * m}
		ch := g.b()
		rev := g.b()
		poly(vtag(i, ""), false, fmt.Sprintf("rect c=%v w=%v h=%v r=%v chamfer=%v reverse=%v", c, w, h, rs, ch, rev), func() *sdf.Polygon {
			p := sdf.NewPolygon()
			add := func(x, y, r float64) {
				v := p.Add(c.X+x, c.Y+y)
				if ch {
					v.Chamfer(r)
				} else {
					v.Smooth(r, 5)
				}
			}
			add(0, 0, rs[0])
			add(w, 0, rs[1])
			add(w, h, rs[2])
			p.Add(c.X+0.6*w, c.Y+h)
			p.Add(c.X+0.5*w, c.Y+0.7*h)
			p.Add(c.X+0.4*w, c.Y+h)
			add(0, h, rs[3])
			if rev {
				p.Reverse()
			}
			return p
		})
	}
	for i := 0; i < nVariants; i++ {
		n, r := g.n(3, 12), g.u(1, 30)
		g.p2("sdf.Polygon2D", vtag(i, "nagon"), false, fmt.Sprintf("Nagon(%d, %v)", n, r), func() (sdf.SDF2, error) { return sdf.Polygon2D(sdf.Nagon(n, r)) })
	}
}

// ---------------------------------------------------------------- bezier.go

func (g *reg) beziers() {
	mk := func(tag string, doc bool, params string, build func() *sdf.Bezier) sdf.SDF2 {
		return g.p2("sdf.(*Bezier).Mesh2D", tag, doc, params, func() (sdf.SDF2, error) { return build().Mesh2D() })
	}
	// examples/bezier bowlingPin, egg1
	pin := mk("ex:bezier/bowlingPin", true, "examples/bezier bowlingPin", bowlingPin)
	mk("ex:bezier/egg1", true, "examples/bezier egg1", func() *sdf.Bezier {
		b := sdf.NewBezier()
		b.Add(0, 0).HandleFwd(sdf.DtoR(0), 10)
		b.Add(0, 16).HandleRev(sdf.DtoR(0), 5)
		b.Close()
		return b
	})
	if pin != nil {
		g.p3("sdf.Revolve3D", "ex:bezier/bowlingPin", true, "Revolve3D(bowlingPin bezier)", func() (sdf.SDF3, error) { return sdf.Revolve3D(pin) })
	}
	for i := 0; i < nVariants; i++ {
		h := g.u(5, 30)
		f, r := g.u(0.2, 1)*h, g.u(0.1, 0.6)*h
		x := g.u(0, 10)
		mk(vtag(i, "egg"), false, fmt.Sprintf("egg x=%v h=%v fwd=%v rev=%v", x, h, f, r), func() *sdf.Bezier {
			b := sdf.NewBezier()
			b.Add(x, 0).HandleFwd(sdf.DtoR(0), f)
			b.Add(x, h).HandleRev(sdf.DtoR(0), r)
			b.Close()
			return b
		})
	}
}

// ---------------------------------------------------------------- sdf2.go / sdf3.go helpers outside the tree generator

func (g *reg) misc() {
	// Capsule3D: examples/test
	g.p3("sdf.Capsule3D", "ex:test", true, "height=3 radius=1.4", func() (sdf.SDF3, error) { return sdf.Capsule3D(3.0, 1.4) })
	for i := 0; i < nVariants; i++ {
		r := g.u(0.5, 5)
		h := 2*r + g.zeroOr(0.1, 20)
		g.p3("sdf.Capsule3D", vtag(i, ""), false, fmt.Sprintf("height=%v radius=%v", h, r), func() (sdf.SDF3, error) { return sdf.Capsule3D(h, r) })
	}
	// Revolve3D of an off-axis profile
	for i := 0; i < nVariants; i++ {
		c := v2.Vec{X: g.u(2, 20), Y: g.u(-10, 10)}
		sz := v2.Vec{X: g.u(1, 2*c.X), Y: g.u(1, 10)}
		g.p3("sdf.Revolve3D", vtag(i, ""), false, fmt.Sprintf("Revolve3D(Transform2D(Box2D(%v,0),Translate2d(%v)))", sz, c),
			func() (sdf.SDF3, error) { return sdf.Revolve3D(sdf.Transform2D(sdf.Box2D(sz, 0), sdf.Translate2d(c))) })
	}
	// Center2D / CenterAndScale2D (used by Text2D)
	for i := 0; i < nVariants; i++ {
		c := v2.Vec{X: g.u(-20, 20), Y: g.u(-20, 20)}
		sz := v2.Vec{X: g.u(1, 10), Y: g.u(1, 10)}
		k := g.u(0.2, 4)
		base := func() sdf.SDF2 { return sdf.Transform2D(sdf.Box2D(sz, 0), sdf.Translate2d(c)) }
		g.p2("sdf.Center2D", vtag(i, ""), false, fmt.Sprintf("Center2D(Box2D(%v)@%v)", sz, c), func() (sdf.SDF2, error) { return sdf.Center2D(base()), nil })
		g.p2("sdf.CenterAndScale2D", vtag(i, ""), false, fmt.Sprintf("CenterAndScale2D(Box2D(%v)@%v, %v)", sz, c, k), func() (sdf.SDF2, error) { return sdf.CenterAndScale2D(base(), k), nil })
	}
	// LineOf2D / LineOf3D / Multi2D / Multi3D / Orient3D (used all over obj)
	pats := []string{"x", "xx", "x.x", "xx.x.xx", ".x...x"}
	for i := 0; i < nVariants; i++ {
		r := g.u(2, 6)
		p0 := v2.Vec{X: g.u(-30, 30), Y: g.u(-30, 30)}
		p1 := v2.Vec{X: g.u(-30, 30), Y: g.u(-30, 30)}
		pat := pats[g.r.Intn(len(pats))]
		g.p2("sdf.LineOf2D", vtag(i, pat), false, fmt.Sprintf("LineOf2D(Circle2D(%v), %v, %v, %q)", r, p0, p1, pat), func() (sdf.SDF2, error) {
			c, err := sdf.Circle2D(r)
			if err != nil {
				return nil, err
			}
			return sdf.LineOf2D(c, p0, p1, pat), nil
		})
		q0 := v3.Vec{X: g.u(-30, 30), Y: g.u(-30, 30), Z: g.u(-30, 30)}
		q1 := v3.Vec{X: g.u(-30, 30), Y: g.u(-30, 30), Z: g.u(-30, 30)}
		g.p3("sdf.LineOf3D", vtag(i, pat), false, fmt.Sprintf("LineOf3D(Sphere3D(%v), %v, %v, %q)", r, q0, q1, pat), func() (sdf.SDF3, error) {
			c, err := sdf.Sphere3D(r)
			if err != nil {
				return nil, err
			}
			return sdf.LineOf3D(c, q0, q1, pat), nil
		})
		n := g.n(1, 5)
		ps2 := make(v2.VecSet, n)
		ps3 := make(v3.VecSet, n)
		for j := range ps2 {
			ps2[j] = v2.Vec{X: g.u(-30, 30), Y: g.u(-30, 30)}
			ps3[j] = v3.Vec{X: g.u(-30, 30), Y: g.u(-30, 30), Z: g.u(-30, 30)}
		}
		g.p2("sdf.Multi2D", vtag(i, ""), false, fmt.Sprintf("Multi2D(Circle2D(%v), %v)", r, ps2), func() (sdf.SDF2, error) {
			c, err := sdf.Circle2D(r)
			if err != nil {
				return nil, err
			}
			return sdf.Multi2D(c, ps2), nil
		})
		g.p3("sdf.Multi3D", vtag(i, ""), false, fmt.Sprintf("Multi3D(Sphere3D(%v), %v)", r, ps3), func() (sdf.SDF3, error) {
			c, err := sdf.Sphere3D(r)
			if err != nil {
				return nil, err
			}
			return sdf.Multi3D(c, ps3), nil
		})
		dirs := v3.VecSet{{X: 1}, {Y: -1}, {X: g.u(-1, 1), Y: g.u(-1, 1), Z: g.u(0.1, 1)}}[:1+i%3]
		h := g.u(2, 20)
		g.p3("sdf.Orient3D", vtag(i, ""), false, fmt.Sprintf("Orient3D(Cylinder3D(%v,%v,0)@z=%v, {0 0 1}, %v)", h, r, h/2, dirs), func() (sdf.SDF3, error) {
			c, err := sdf.Cylinder3D(h, r, 0)
			if err != nil {
				return nil, err
			}
			c = sdf.Transform3D(c, sdf.Translate3d(v3.Vec{Z: h / 2}))
			return sdf.Orient3D(c, v3.Vec{Z: 1}, dirs), nil
		})
	}
}
