package objparts

// Every exported constructor of /repo/obj.  "doc" parts use the parameters of the call sites in
// /repo/examples (file named in the tag) or of the doc comments; "v<i>" parts are rng-perturbed.

import (
	"fmt"
	"math"

	"github.com/deadsy/sdfx/obj"
	"github.com/deadsy/sdfx/render"
	"github.com/deadsy/sdfx/sdf"
	v2 "github.com/deadsy/sdfx/vec/v2"
	"github.com/deadsy/sdfx/vec/v2i"
	v3 "github.com/deadsy/sdfx/vec/v3"
	"github.com/deadsy/sdfx/vec/v3i"
)

const inch = sdf.MillimetresPerInch

// thread names used for perturbed bolts/nuts (name lookups must succeed)
var threadNames = []string{
	"M3x0.5", "M4x0.7", "M5x0.8", "M6x1", "M8x1.25", "M10x1.5", "M12x1.75", "M16x2", "M20x2.5", "M24x3",
	"M8x1", "M12x1.5", "M30x2",
	"unc_1/4", "unc_5/16", "unc_3/8", "unc_1/2", "unc_5/8", "unc_3/4", "unc_1", "unc_8_32", "unc_10_24",
	"unf_1/4", "unf_1/2", "unf_1",
	"npt_1/8", "npt_1/2", "npt_1",
}

var pipeNames = []string{"sch40:1/8", "sch40:1/4", "sch40:1/2", "sch40:3/4", "sch40:1", "sch40:1-1/2", "sch40:2", "sch40:4"}

var servoNames = []string{
	"hitec_hs_40", "nano", "hitec_hs_55", "submicro", "hitec_hs_85bb", "micro", "hitec_hs_225bb", "mini",
	"hitec_hs_311", "standard", "annimos_ds3218", "hitec_hs_805bb", "large", "hitec_hs_1005sgt", "giant",
}

func (g *reg) objParts() {
	g.angle()
	g.arrows()
	g.bolt()
	g.chamfer()
	g.drainCover()
	g.drone()
	g.finger()
	g.gear()
	g.geneva()
	g.gridfinity()
	g.hex()
	g.holes()
	g.keyway()
	g.knurl()
	g.nut()
	g.panels()
	g.panelBox()
	g.pipes()
	g.servos()
	g.spring()
	g.standoff()
	g.stl()
	g.tabs()
	g.trp()
	g.washer()
}

// ---------------------------------------------------------------- angle.go

func (g *reg) angle() {
	mk := func(tag string, doc bool, k obj.AngleParms) {
		k2, k3 := k, k
		g.p2("obj.Angle2D", tag, doc, k, func() (sdf.SDF2, error) { return obj.Angle2D(&k2) })
		g.p3("obj.Angle3D", tag, doc, k, func() (sdf.SDF3, error) { return obj.Angle3D(&k3) })
	}
	// examples/angle/main.go
	mk("ex:angle", true, obj.AngleParms{
		X: obj.AngleLeg{Length: 1.25 * inch, Thickness: 0.125 * inch}, Y: obj.AngleLeg{Length: 1.25 * inch, Thickness: 0.125 * inch},
		RootRadius: 0.125 * inch, Length: 12 * inch})
	for i := 0; i < nVariants; i++ {
		xl, yl := g.u(10, 60), g.u(10, 60)
		m := math.Min(xl, yl)
		xt, yt := g.u(1, 0.3*m), g.u(1, 0.3*m)
		rr := g.zeroOr(0.1, 0.9*math.Min(xl-yt, yl-xt))
		mk(vtag(i, ""), false, obj.AngleParms{X: obj.AngleLeg{Length: xl, Thickness: xt}, Y: obj.AngleLeg{Length: yl, Thickness: yt},
			RootRadius: rr, Length: g.u(5, 200)})
	}
}

// ---------------------------------------------------------------- arrow.go

func (g *reg) arrows() {
	arrow := func(tag string, doc bool, k obj.ArrowParms) {
		kk := k
		g.p3("obj.Arrow3D", tag, doc, k, func() (sdf.SDF3, error) { return obj.Arrow3D(&kk) })
	}
	// examples/arrow/main.go arrow1
	arrow("ex:arrow/cb", true, obj.ArrowParms{Axis: [2]float64{50, 1}, Head: [2]float64{5, 2}, Tail: [2]float64{5, 2}, Style: "cb"})
	// the parameters obj.Axes3D itself uses for one axis of length 20 (r = 0.5)
	arrow("doc:axis3D/cc", true, obj.ArrowParms{Axis: [2]float64{20, 0.5}, Head: [2]float64{1.5, 0.75}, Tail: [2]float64{1.5, 0.75}, Style: "cc"})
	styles := []string{"", "c", "b", "cc", "cb", "bc", "bb", "c.", ".c", "b.", ".b"}
	for i := 0; i < nVariants+2; i++ {
		r := g.u(0.3, 3)
		st := styles[g.r.Intn(len(styles))]
		arrow(vtag(i, st), false, obj.ArrowParms{
			Axis: [2]float64{g.u(5, 80), r},
			Head: [2]float64{g.u(2, 10), g.u(r, 3*r)},
			Tail: [2]float64{g.u(2, 10), g.u(r, 3*r)}, Style: st})
	}

	axes := func(tag string, doc bool, p0, p1 v3.Vec) {
		g.p3("obj.Axes3D", tag, doc, fmt.Sprintf("p0=%v p1=%v", p0, p1), func() (sdf.SDF3, error) { return obj.Axes3D(p0, p1) })
	}
	// examples/arrow/main.go
	axes("ex:arrow/axes1", true, v3.Vec{X: -10, Y: -10, Z: -10}, v3.Vec{X: 10, Y: 20, Z: 20})
	axes("ex:arrow/axes2", true, v3.Vec{X: -10, Y: -20, Z: -30}, v3.Vec{})
	axes("ex:arrow/axes3", true, v3.Vec{}, v3.Vec{X: 500, Y: 500, Z: 1000})
	for i := 0; i < nVariants+1; i++ {
		p0 := v3.Vec{X: -g.u(1, 30), Y: -g.u(1, 30), Z: -g.u(1, 30)}
		p1 := v3.Vec{X: g.u(1, 40), Y: g.u(1, 40), Z: g.u(1, 40)}
		switch i % 4 {
		case 1: // a 2d coordinate system (no z axis), x from the origin
			p0.Z, p1.Z = 0, 0
			p0.X = 0
		case 2: // off-origin box: all axes on the positive side
			p0 = v3.Vec{X: g.u(1, 5), Y: g.u(1, 5), Z: g.u(1, 5)}
		case 3: // a single axis
			p0.X, p1.X, p0.Y, p1.Y = 0, 0, 0, 0
		}
		axes(vtag(i, ""), false, p0, p1)
	}

	directed := func(tag string, doc bool, k obj.ArrowParms, head, tail v3.Vec) {
		kk := k
		g.p3("obj.DirectedArrow3D", tag, doc, fmt.Sprintf("%+v head=%v tail=%v", k, head, tail),
			func() (sdf.SDF3, error) { return obj.DirectedArrow3D(&kk, head, tail) })
	}
	// examples/bucky/main.go: r0 = phi*0.05, r1 = 2 r0, style "b.", one edge of the icosahedron
	phi := (1 + math.Sqrt(5)) / 2
	r0 := phi * 0.05
	directed("ex:bucky", true, obj.ArrowParms{Axis: [2]float64{0, r0}, Head: [2]float64{0, 2 * r0}, Tail: [2]float64{0, 2 * r0}, Style: "b."},
		v3.Vec{X: 0, Y: 1, Z: phi}, v3.Vec{X: 0, Y: -1, Z: phi})
	for i := 0; i < nVariants+1; i++ {
		r := g.u(0.3, 2)
		st := styles[g.r.Intn(len(styles))]
		head := v3.Vec{X: g.u(-40, 40), Y: g.u(-40, 40), Z: g.u(-40, 40)}
		tail := v3.Vec{X: g.u(-40, 40), Y: g.u(-40, 40), Z: g.u(-40, 40)}
		if i == 1 { // anti-parallel to the z axis (RotateToVector special case)
			tail = head.Add(v3.Vec{Z: g.u(5, 30)})
		}
		if head.Sub(tail).Length() < 2 {
			tail = tail.Add(v3.Vec{X: 7})
		}
		directed(vtag(i, st), false, obj.ArrowParms{Axis: [2]float64{0, r}, Head: [2]float64{g.u(2, 8), g.u(r, 3*r)}, Tail: [2]float64{g.u(2, 8), g.u(r, 3*r)}, Style: st}, head, tail)
	}
}

// ---------------------------------------------------------------- bolt.go

func (g *reg) bolt() {
	mk := func(tag string, doc bool, k obj.BoltParms) {
		kk := k
		g.p3("obj.Bolt", tag, doc, k, func() (sdf.SDF3, error) { return obj.Bolt(&kk) })
	}
	// examples/nutsandbolts/main.go
	for _, n := range []string{"unc_1/4", "unc_1/2", "unc_1"} {
		mk("ex:nutsandbolts/"+n+"/hex", true, obj.BoltParms{Thread: n, Style: "hex", TotalLength: 2, ShankLength: 0.5})
	}
	// examples/3dp_nutbolt/main.go
	mk("ex:3dp_nutbolt/unc_5/8/knurl", true, obj.BoltParms{Thread: "unc_5/8", Style: "knurl", Tolerance: 0.3 / inch, TotalLength: 2.0, ShankLength: 0.5})
	mk("ex:3dp_nutbolt/M16x2/hex", true, obj.BoltParms{Thread: "M16x2", Style: "hex", Tolerance: 0.3, TotalLength: 50, ShankLength: 10})
	for i := 0; i < nVariants+2; i++ {
		name := threadNames[g.r.Intn(len(threadNames))]
		t, err := sdf.ThreadLookup(name)
		if err != nil {
			g.errs = append(g.errs, "thread lookup failed: "+name)
			continue
		}
		total := g.u(3, 12) * t.Radius
		shank := 0.0
		switch g.r.Intn(4) {
		case 1, 2:
			shank = g.u(0.1, 0.6) * total
		case 3: // no threaded part at all
			shank = total
		}
		st := g.pick("hex", "knurl")
		mk(vtag(i, name+"/"+st), false, obj.BoltParms{Thread: name, Style: st, Tolerance: g.zeroOr(0, 0.04) * t.Radius, TotalLength: total, ShankLength: shank})
	}
}

// ---------------------------------------------------------------- chamfer.go

func (g *reg) chamfer() {
	mk := func(tag string, doc bool, params string, kb, kt float64, f func() (sdf.SDF3, error)) {
		g.p3("obj.ChamferedCylinder", tag, doc, fmt.Sprintf("%s kb=%v kt=%v", params, kb, kt), func() (sdf.SDF3, error) {
			s, err := f()
			if err != nil {
				return nil, err
			}
			return obj.ChamferedCylinder(s, kb, kt)
		})
	}
	screw := func(r, pitch, l float64) func() (sdf.SDF3, error) {
		return func() (sdf.SDF3, error) {
			t, err := sdf.ISOThread(r, pitch, true)
			if err != nil {
				return nil, err
			}
			return sdf.Screw3D(t, l, 0, pitch, 1)
		}
	}
	// examples/bolt_container/main.go: screwRadius 28, tolerance 0.5, pitch 5.6, length 40
	mk("ex:bolt_container", true, "Screw3D(ISOThread(27.5,5.6,true),40,0,5.6,1)", 0, 0.25, screw(27.5, 5.6, 40))
	// examples/fidget/main.go: threadR*0.8-0.25 (r = 7 → 5.35), pitch 1, thickness 7
	mk("ex:fidget", true, "Screw3D(ISOThread(5.35,1,true),7,0,1,1)", 0, 0.5, screw(5.35, 1, 7))
	for i := 0; i < nVariants; i++ {
		kb, kt := g.zeroOr(0.05, 0.9), g.u(0.05, 0.9)
		if i%2 == 0 {
			h, r := g.u(4, 40), g.u(2, 20)
			mk(vtag(i, "cyl"), false, fmt.Sprintf("Cylinder3D(%v,%v,0)", h, r), kb, kt, func() (sdf.SDF3, error) { return sdf.Cylinder3D(h, r, 0) })
		} else {
			r := g.u(3, 20)
			p := g.u(0.08, 0.25) * r
			l := g.u(1, 4) * r
			mk(vtag(i, "screw"), false, fmt.Sprintf("Screw3D(ISOThread(%v,%v,true),%v,0,%v,1)", r, p, l, p), kb, kt, screw(r, p, l))
		}
	}
}

// ---------------------------------------------------------------- draincover.go

func drainOK(k *obj.DrainCoverParms) bool {
	// the same slot layout as dcGrate/dcGrateCrossBar: every slot must have a positive length
	r := 0.5*k.WallDiameter - k.InnerWidth
	n := float64(k.GrateNumber)
	gg := (2.0 * r) / (n + n*k.GrateWidth + 1.0)
	w := k.GrateWidth * gg
	x := gg + 0.5*w - r
	dy := 0.5 * k.InnerWidth * k.CrossBarWidth
	for i := 0; i < k.GrateNumber; i++ {
		l := math.Sqrt(r*r - x*x)
		if k.CrossBarWidth != 0 {
			l -= dy
		} else {
			l *= 2
		}
		if !(l > 1.2*w) {
			return false
		}
		x += gg + w
	}
	return 0.5*k.WallDiameter-k.WallThickness-k.InnerWidth > 0
}

func (g *reg) drainCover() {
	mk := func(tag string, doc bool, k obj.DrainCoverParms) {
		kk := k
		g.p3("obj.DrainCover", tag, doc, k, func() (sdf.SDF3, error) { return obj.DrainCover(&kk) })
	}
	// examples/draincover/main.go
	mk("ex:draincover/vent2", true, obj.DrainCoverParms{WallDiameter: 1.9 * inch, WallHeight: 0.5 * inch, WallThickness: 0.125 * inch,
		WallDraft: 0, OuterWidth: 0.2 * inch, InnerWidth: 0.18 * inch, CoverThickness: 0.125 * inch, GrateNumber: 8, GrateWidth: 1.1})
	mk("ex:draincover/drain4", true, obj.DrainCoverParms{WallDiameter: 3.9 * inch, WallHeight: 0.8 * inch, WallThickness: 0.2 * inch,
		WallDraft: sdf.DtoR(2), OuterWidth: 0.4 * inch, InnerWidth: 0.3 * inch, CoverThickness: 0.2 * inch, GrateNumber: 8, GrateWidth: 1.1,
		GrateDraft: sdf.DtoR(8), CrossBarWidth: 0.8})
	mk("ex:draincover/drain6", true, obj.DrainCoverParms{WallDiameter: 5.8 * inch, WallHeight: 0.8 * inch, WallThickness: 0.2 * inch,
		WallDraft: sdf.DtoR(2), OuterWidth: 0.4 * inch, InnerWidth: 0.3 * inch, CoverThickness: 0.3 * inch, GrateNumber: 9, GrateWidth: 1.0,
		GrateDraft: sdf.DtoR(8), CrossBarWidth: 1.8, CrossBarWeb: true})
	mk("ex:draincover/drain12", true, obj.DrainCoverParms{WallDiameter: 11.8 * inch, WallHeight: 1.0 * inch, WallThickness: 0.3 * inch,
		WallDraft: sdf.DtoR(2), OuterWidth: 0.8 * inch, InnerWidth: 0.5 * inch, CoverThickness: 0.3 * inch, GrateNumber: 10, GrateWidth: 1.0,
		GrateDraft: sdf.DtoR(8), CrossBarWidth: 1.5, CrossBarWeb: true})
	for i := 0; i < nVariants; i++ {
		for try := 0; try < 50; try++ {
			d := g.u(1.9, 12) * inch
			k := obj.DrainCoverParms{
				WallDiameter: d, WallHeight: g.u(0.5, 1.0) * inch, WallThickness: g.u(0.125, 0.3) * inch,
				WallDraft: sdf.DtoR(g.zeroOr(0.5, 3)), OuterWidth: g.u(0.2, 0.8) * inch, InnerWidth: g.u(0.04, 0.1) * d,
				CoverThickness: g.u(0.125, 0.3) * inch, GrateNumber: g.n(4, 12), GrateWidth: g.u(0.8, 1.3),
				GrateDraft: sdf.DtoR(g.zeroOr(1, 10)), CrossBarWidth: g.zeroOr(0.5, 2), CrossBarWeb: g.b(),
			}
			if drainOK(&k) {
				mk(vtag(i, ""), false, k)
				break
			}
		}
	}
}

// ---------------------------------------------------------------- drone.go

func (g *reg) drone() {
	arm := func(tag string, doc bool, k obj.DroneArmParms) {
		kk := k
		g.p3("obj.DroneMotorArm", tag, doc, k, func() (sdf.SDF3, error) { return obj.DroneMotorArm(&kk) })
	}
	socket := func(tag string, doc bool, a obj.DroneArmParms, k obj.DroneArmSocketParms) {
		aa := a
		kk := k
		kk.Arm = &aa
		g.p3("obj.DroneMotorArmSocket", tag, doc, fmt.Sprintf("{Arm:%+v Size:%v Clearance:%v Stop:%v}", a, k.Size, k.Clearance, k.Stop),
			func() (sdf.SDF3, error) { return obj.DroneMotorArmSocket(&kk) })
	}
	// examples/drone/main.go
	kArm := obj.DroneArmParms{MotorSize: v2.Vec{X: 28, Y: 30}, MotorMount: v3.Vec{X: 16, Y: 19, Z: 3.4}, RotorCavity: v2.Vec{X: 9, Y: 1.5},
		WallThickness: 3.0, SideClearance: 1.5, MountHeight: 0.7, ArmHeight: 0.9, ArmLength: 70.0}
	arm("ex:drone", true, kArm)
	socket("ex:drone", true, kArm, obj.DroneArmSocketParms{Size: v3.Vec{X: 40, Y: 30, Z: 30}, Clearance: 0.5, Stop: 35})
	for i := 0; i < nVariants; i++ {
		s := g.u(0.7, 1.5)
		k := obj.DroneArmParms{
			MotorSize:  v2.Vec{X: g.u(22, 35) * s, Y: g.u(24, 36) * s},
			MotorMount: v3.Vec{X: g.u(12, 16) * s, Y: g.u(14, 19) * s, Z: g.u(2.5, 3.6) * s}, RotorCavity: v2.Vec{X: g.u(6, 10) * s, Y: g.u(1, 2) * s},
			WallThickness: g.u(2, 3.5) * s, SideClearance: g.u(0.5, 2) * s, MountHeight: g.u(0.55, 0.9), ArmHeight: g.u(0.75, 0.95), ArmLength: g.u(40, 100) * s}
		mh := k.MountHeight*k.MotorSize.Y + k.WallThickness
		ah := mh * k.ArmHeight
		if ah-2*k.WallThickness < 2 { // inner arm must stay a positive hexagon
			k.WallThickness = (ah - 2) / 2.5
		}
		arm(vtag(i, ""), false, k)
		cl := g.u(0.2, 0.8)
		h := ah + 2*cl
		sz := v3.Vec{X: g.u(30, 50) * s, Y: h + g.u(4, 12), Z: h + g.u(4, 12)}
		socket(vtag(i, ""), false, k, obj.DroneArmSocketParms{Size: sz, Clearance: cl, Stop: g.u(0.3, 0.9) * (sz.X - k.WallThickness)})
	}
}

// ---------------------------------------------------------------- finger.go

func (g *reg) finger() {
	mk := func(tag string, doc bool, k obj.FingerButtonParms) {
		kk := k
		g.p2("obj.FingerButton2D", tag, doc, k, func() (sdf.SDF2, error) { return obj.FingerButton2D(&kk) })
	}
	mk("ex:axoloti", true, obj.FingerButtonParms{Width: 4.0, Gap: 0.6, Length: 20.0})
	for i := 0; i < nVariants; i++ {
		w := g.u(2, 10)
		mk(vtag(i, ""), false, obj.FingerButtonParms{Width: w, Gap: g.u(0.05, 0.4) * w * 0.5, Length: g.u(1, 6) * w})
	}
}

// ---------------------------------------------------------------- gear.go

func (g *reg) gear() {
	mk := func(tag string, doc bool, k obj.InvoluteGearParms) {
		kk := k
		g.p2("obj.InvoluteGear", tag, doc, k, func() (sdf.SDF2, error) { return obj.InvoluteGear(&kk) })
	}
	// examples/gears/main.go
	mk("ex:gears", true, obj.InvoluteGearParms{NumberTeeth: 20, Module: (5.0 / 8.0) / 20.0, PressureAngle: sdf.DtoR(20), RingWidth: 0.05, Facets: 7})
	for i := 0; i < nVariants+1; i++ {
		m := g.u(0.5, 4)
		mk(vtag(i, ""), false, obj.InvoluteGearParms{NumberTeeth: g.n(8, 40), Module: m, PressureAngle: sdf.DtoR(g.u(14.5, 25)),
			Backlash: g.zeroOr(0, 0.05) * m, Clearance: g.zeroOr(0, 0.25) * m, RingWidth: g.zeroOr(0.5, 2) * m, Facets: g.n(3, 10)})
	}
}

// ---------------------------------------------------------------- geneva.go

func (g *reg) geneva() {
	mk := func(tag string, doc bool, k obj.GenevaParms) {
		// one call, two parts
		var driver, driven sdf.SDF2
		var err error
		called := false
		call := func() {
			if !called {
				kk := k
				called = true
				driver, driven, err = obj.Geneva2D(&kk)
			}
		}
		g.p2("obj.Geneva2D", tag+"/driver", doc, k, func() (sdf.SDF2, error) { call(); return driver, err })
		g.p2("obj.Geneva2D", tag+"/driven", doc, k, func() (sdf.SDF2, error) { call(); return driven, err })
	}
	// examples/geneva/main.go k0, k1; examples/test/main.go test36
	mk("ex:geneva/k0", true, obj.GenevaParms{NumSectors: 6, CenterDistance: 50, DriverRadius: 20, DrivenRadius: 40, PinRadius: 2.5, Clearance: 0.1})
	mk("ex:geneva/k1", true, obj.GenevaParms{NumSectors: 10, CenterDistance: 45, DriverRadius: 12, DrivenRadius: 45, PinRadius: 2.0, Clearance: 0.1})
	mk("ex:test36", true, obj.GenevaParms{NumSectors: 6, CenterDistance: 100, DriverRadius: 40, DrivenRadius: 80, PinRadius: 5, Clearance: 0.5})
	for i := 0; i < nVariants; i++ {
		d := g.u(30, 100)
		driven := g.u(0.75, 1.0) * d
		driver := math.Max(d-driven, 0) + g.u(0.05, 0.3)*d
		mk(vtag(i, ""), false, obj.GenevaParms{NumSectors: g.n(3, 10), CenterDistance: d, DriverRadius: driver, DrivenRadius: driven,
			PinRadius: g.u(0.03, 0.07) * d, Clearance: g.zeroOr(0.001, 0.01) * d})
	}
}

// ---------------------------------------------------------------- gridfinity.go

func (g *reg) gridfinity() {
	base := func(tag string, doc bool, k obj.GfBaseParms) {
		kk := k
		g.p3("obj.GfBase", tag, doc, k, func() (sdf.SDF3, error) { return obj.GfBase(&kk), nil })
	}
	body := func(tag string, doc bool, k obj.GfBodyParms) {
		kk := k
		g.p3("obj.GfBody", tag, doc, k, func() (sdf.SDF3, error) { return obj.GfBody(&kk), nil })
	}
	// examples/gridfinity/main.go
	base("ex:gridfinity/4x4", true, obj.GfBaseParms{Size: v2i.Vec{X: 4, Y: 4}, Magnet: true, Hole: true})
	body("ex:gridfinity/1x1x3", true, obj.GfBodyParms{Size: v3i.Vec{X: 1, Y: 1, Z: 3}, Hole: true, Empty: true})
	body("ex:gridfinity/1x2x1", true, obj.GfBodyParms{Size: v3i.Vec{X: 1, Y: 2, Z: 1}})
	flags := [][2]bool{{false, false}, {true, false}, {false, true}}
	for i := 0; i < nVariants; i++ {
		f := flags[i%3]
		base(vtag(i, ""), false, obj.GfBaseParms{Size: v2i.Vec{X: g.n(1, 3), Y: g.n(1, 3)}, Magnet: f[0], Hole: f[1]})
		body(vtag(i, ""), false, obj.GfBodyParms{Size: v3i.Vec{X: g.n(1, 2), Y: g.n(1, 3), Z: g.n(1, 5)}, Empty: f[0], Hole: f[1]})
	}
	// documented default: sizes <= 0 are taken as 1
	base("doc:default-size", true, obj.GfBaseParms{})
	body("doc:default-size", true, obj.GfBodyParms{})
}

// ---------------------------------------------------------------- hex.go

func (g *reg) hex() {
	h2 := func(tag string, doc bool, r, round float64) {
		g.p2("obj.Hex2D", tag, doc, fmt.Sprintf("radius=%v round=%v", r, round), func() (sdf.SDF2, error) { return obj.Hex2D(r, round) })
	}
	h3 := func(tag string, doc bool, r, h, round float64) {
		g.p3("obj.Hex3D", tag, doc, fmt.Sprintf("radius=%v height=%v round=%v", r, h, round), func() (sdf.SDF3, error) { return obj.Hex3D(r, h, round) })
	}
	hh := func(tag string, doc bool, r, h float64, round string) {
		g.p3("obj.HexHead3D", tag, doc, fmt.Sprintf("radius=%v height=%v round=%q", r, h, round), func() (sdf.SDF3, error) { return obj.HexHead3D(r, h, round) })
	}
	// the library's own uses: HexHead3D (round = 0.08 r), drone arm (round = 0.2 r)
	h2("doc:hexhead", true, 40, 40*0.08)
	h2("doc:sharp", true, 10, 0)
	h3("doc:hexhead", true, 40, 20, 40*0.08)
	h3("doc:dronearm", true, 21.6/math.Sqrt(3), 70, 0.2*21.6/math.Sqrt(3))
	// examples/bolt_container/main.go, examples/nutcover/main.go
	hh("ex:bolt_container/tb", true, 40, 20, "tb")
	rn := 19.0 / (2.0 * math.Cos(sdf.DtoR(30))) * 1.01
	hh("ex:nutcover", true, rn, 40, "")
	// as used by obj.Bolt / obj.Nut for M16x2: HexRadius, HexHeight
	if t, err := sdf.ThreadLookup("M16x2"); err == nil {
		hh("doc:bolt/M16x2/b", true, t.HexRadius(), t.HexHeight(), "b")
		hh("doc:nut/M16x2/tb", true, t.HexRadius(), t.HexHeight(), "tb")
	}
	for i := 0; i < nVariants; i++ {
		r := g.u(2, 30)
		h2(vtag(i, ""), false, r, g.zeroOr(0.02, 0.3)*r)
		r = g.u(2, 30)
		h3(vtag(i, ""), false, r, g.u(1, 40), g.zeroOr(0.02, 0.3)*r)
	}
	for i, rd := range []string{"", "t", "b", "tb"} {
		r := g.u(2, 30)
		hh(vtag(i, rd), false, r, g.u(0.3, 1.2)*r, rd)
	}
}

// ---------------------------------------------------------------- hole.go

func (g *reg) holes() {
	cb := func(tag string, doc bool, l, r, cbr, cbd float64) {
		g.p3("obj.CounterBoredHole3D", tag, doc, fmt.Sprintf("l=%v r=%v cbRadius=%v cbDepth=%v", l, r, cbr, cbd),
			func() (sdf.SDF3, error) { return obj.CounterBoredHole3D(l, r, cbr, cbd) })
	}
	ch := func(tag string, doc bool, l, r, chr float64) {
		g.p3("obj.ChamferedHole3D", tag, doc, fmt.Sprintf("l=%v r=%v chRadius=%v", l, r, chr),
			func() (sdf.SDF3, error) { return obj.ChamferedHole3D(l, r, chr) })
	}
	cs := func(tag string, doc bool, l, r float64) {
		g.p3("obj.CounterSunkHole3D", tag, doc, fmt.Sprintf("l=%v r=%v", l, r), func() (sdf.SDF3, error) { return obj.CounterSunkHole3D(l, r) })
	}
	bc2 := func(tag string, doc bool, hr, cr float64, n int) {
		g.p2("obj.BoltCircle2D", tag, doc, fmt.Sprintf("holeRadius=%v circleRadius=%v numHoles=%d", hr, cr, n),
			func() (sdf.SDF2, error) { return obj.BoltCircle2D(hr, cr, n) })
	}
	bc3 := func(tag string, doc bool, d, hr, cr float64, n int) {
		g.p3("obj.BoltCircle3D", tag, doc, fmt.Sprintf("holeDepth=%v holeRadius=%v circleRadius=%v numHoles=%d", d, hr, cr, n),
			func() (sdf.SDF3, error) { return obj.BoltCircle3D(d, hr, cr, n) })
	}
	cb("ex:eurorack", true, 12, 3.8*0.5, 10.6*0.5, 3.5)
	cb("ex:cc16", true, 0.62, 0.625/2.0, 1.25/2.0, 0.12)
	ch("ex:cc16", true, 24.0, 35.0/2.0, 2.0)
	cs("ex:test", true, 30, 2)
	cs("ex:loadcell", true, 2.0*8.0*0.75, 2.0)
	bc2("ex:maixgo", true, 1.7, 20.3*0.3, 6)
	bc3("ex:cc18/top", true, 2.0, 0.5/2.0, 14.50/2.0, 6)
	bc3("ex:cc18/side", true, 2.0, 1.0/2.0, 14.0/2.0, 4)
	for i := 0; i < nVariants; i++ {
		l, r := g.u(5, 40), g.u(0.5, 5)
		cb(vtag(i, ""), false, l, r, r+g.u(0.5, 4), g.u(0.1, 0.6)*l)
		l, r = g.u(8, 40), g.u(0.5, 5)
		ch(vtag(i, ""), false, l, r, g.u(0.2, 1.5)*r)
		l = g.u(8, 40)
		cs(vtag(i, ""), false, l, g.u(0.5, math.Min(5, 0.9*l)))
		bc2(vtag(i, ""), false, g.u(0.2, 3), g.u(4, 40), g.n(1, 12))
		bc3(vtag(i, ""), false, g.u(1, 10), g.u(0.2, 3), g.u(4, 40), g.n(1, 12))
	}
}

// ---------------------------------------------------------------- keyway.go

func (g *reg) keyway() {
	mk := func(tag string, doc bool, k obj.KeywayParameters) {
		k2, k3 := k, k
		g.p2("obj.Keyway2D", tag, doc, k, func() (sdf.SDF2, error) { return obj.Keyway2D(&k2) })
		g.p3("obj.Keyway3D", tag, doc, k, func() (sdf.SDF3, error) { return obj.Keyway3D(&k3) })
	}
	// examples/joko/main.go (bore profile: key proud of the shaft)
	mk("ex:joko/bore", true, obj.KeywayParameters{ShaftRadius: 0.55, KeyRadius: 0.77, KeyWidth: 0.35, ShaftLength: 4.0})
	// doc comment: KeyRadius < ShaftRadius is the shaft profile (key cut into the shaft)
	mk("doc:shaft", true, obj.KeywayParameters{ShaftRadius: 10, KeyRadius: 8, KeyWidth: 4, ShaftLength: 30})
	for i := 0; i < nVariants+1; i++ {
		r := g.u(2, 20)
		kr := g.u(0.6, 0.95) * r
		tag := "shaft"
		if i%2 == 1 {
			kr = g.u(1.05, 1.5) * r
			tag = "bore"
		}
		mk(vtag(i, tag), false, obj.KeywayParameters{ShaftRadius: r, KeyRadius: kr, KeyWidth: g.u(0.1, 0.6) * r, ShaftLength: g.u(5, 50)})
	}
}

// ---------------------------------------------------------------- knurl.go

func (g *reg) knurl() {
	kn := func(tag string, doc bool, k obj.KnurlParms) {
		kk := k
		g.p3("obj.Knurl3D", tag, doc, k, func() (sdf.SDF3, error) { return obj.Knurl3D(&kk) })
	}
	kh := func(tag string, doc bool, r, h, pitch float64) {
		g.p3("obj.KnurledHead3D", tag, doc, fmt.Sprintf("r=%v h=%v pitch=%v", r, h, pitch), func() (sdf.SDF3, error) { return obj.KnurledHead3D(r, h, pitch) })
	}
	// examples/gas_cap/main.go
	kh("ex:gas_cap", true, 28, 28, 28*0.25)
	// the KnurlParms KnurledHead3D(28, 28, 7) builds
	kn("doc:gas_cap", true, obj.KnurlParms{Length: 7 * math.Floor((28-28*0.05)/7), Radius: 28, Pitch: 7, Height: 7 * 0.3, Theta: sdf.DtoR(45)})
	// as used by obj.Bolt/obj.Nut with style "knurl" for unc_5/8
	if t, err := sdf.ThreadLookup("unc_5/8"); err == nil {
		kh("doc:bolt/unc_5/8", true, t.HexRadius(), t.HexHeight(), t.HexRadius()*0.25)
	}
	for i := 0; i < nVariants; i++ {
		r := g.u(3, 20)
		p := g.u(0.1, 0.3) * r
		kn(vtag(i, ""), false, obj.KnurlParms{Length: g.u(5, 30), Radius: r, Pitch: p, Height: g.u(0.2, 0.4) * p, Theta: sdf.DtoR(g.u(20, 60))})
		r = g.u(3, 20)
		kh(vtag(i, ""), false, r, g.u(0.5, 2)*r, g.u(0.15, 0.3)*r)
	}
}

// ---------------------------------------------------------------- nut.go

func (g *reg) nut() {
	mk := func(tag string, doc bool, k obj.NutParms) {
		kk := k
		g.p3("obj.Nut", tag, doc, k, func() (sdf.SDF3, error) { return obj.Nut(&kk) })
	}
	tc := func(tag string, doc bool, k obj.ThreadedCylinderParms) {
		kk := k
		g.p3("obj.(*ThreadedCylinderParms).Object", tag, doc, k, func() (sdf.SDF3, error) { return kk.Object() })
	}
	for _, n := range []string{"unc_1/4", "unc_1/2", "unc_1"} {
		mk("ex:nutsandbolts/"+n+"/hex", true, obj.NutParms{Thread: n, Style: "hex"})
	}
	mk("ex:3dp_nutbolt/unc_5/8/knurl", true, obj.NutParms{Thread: "unc_5/8", Style: "knurl", Tolerance: 0.3 / inch})
	mk("ex:3dp_nutbolt/M16x2/hex", true, obj.NutParms{Thread: "M16x2", Style: "hex", Tolerance: 0.3})
	// examples/pico_cnc/penholder.go
	tc("ex:pico_cnc/penholder", true, obj.ThreadedCylinderParms{Height: 0.5 * 20.0, Diameter: 6.0, Thread: "unc_8_32", Tolerance: 0})
	for i := 0; i < nVariants+1; i++ {
		name := threadNames[g.r.Intn(len(threadNames))]
		t, err := sdf.ThreadLookup(name)
		if err != nil {
			continue
		}
		st := g.pick("hex", "knurl")
		mk(vtag(i, name+"/"+st), false, obj.NutParms{Thread: name, Style: st, Tolerance: g.zeroOr(0, 0.04) * t.Radius})
		name = threadNames[g.r.Intn(len(threadNames))]
		t, err = sdf.ThreadLookup(name)
		if err != nil {
			continue
		}
		rmm := t.ToMillimetre().Radius
		tc(vtag(i, name), false, obj.ThreadedCylinderParms{Height: g.u(1, 4) * rmm, Diameter: 2 * rmm * g.u(1.4, 3), Thread: name, Tolerance: g.zeroOr(0, 0.04) * rmm})
	}
}

// ---------------------------------------------------------------- panel.go

func (g *reg) panels() {
	mk := func(tag string, doc bool, k obj.PanelParms) {
		k2, k3 := k, k
		g.p2("obj.Panel2D", tag, doc, k, func() (sdf.SDF2, error) { return obj.Panel2D(&k2) })
		if k.Thickness > 0 {
			g.p3("obj.Panel3D", tag, doc, k, func() (sdf.SDF3, error) { return obj.Panel3D(&k3) })
		}
	}
	// examples/pico_cnc/main.go keypadPanel, picoCnc base
	mk("ex:pico_cnc/keypad", true, obj.PanelParms{Size: v2.Vec{X: 75, Y: 140}, CornerRadius: 4, HoleDiameter: 3.5,
		HoleMargin: [4]float64{7, 7, 7, 7}, HolePattern: [4]string{"x", "xx", "x", "xx"}, Thickness: 5.5})
	mk("ex:pico_cnc/base", true, obj.PanelParms{Size: v2.Vec{X: 98, Y: 100.5}, CornerRadius: 5.0, HoleDiameter: 3.5,
		HoleMargin: [4]float64{6, 6, 6, 6}, HolePattern: [4]string{".x...x", ".x...x", ".x...x", ".x...x"}, Thickness: 3})
	// doc comment of PanelParms: the hole patterns "x", "xx", "x.x", "xx.x.xx"; no holes for HoleDiameter <= 0
	mk("doc:patterns", true, obj.PanelParms{Size: v2.Vec{X: 120, Y: 80}, CornerRadius: 3, HoleDiameter: 3,
		HoleMargin: [4]float64{5, 5, 5, 5}, HolePattern: [4]string{"x", "xx", "x.x", "xx.x.xx"}, Thickness: 2})
	mk("doc:noholes", true, obj.PanelParms{Size: v2.Vec{X: 60, Y: 40}, CornerRadius: 2, Thickness: 2})
	pats := []string{"x", "xx", "x.x", "xx.x.xx", ".x...x", "", "x..x..x"}
	for i := 0; i < nVariants; i++ {
		sz := v2.Vec{X: g.u(30, 200), Y: g.u(30, 200)}
		k := obj.PanelParms{Size: sz, CornerRadius: g.zeroOr(1, 0.2*math.Min(sz.X, sz.Y)), HoleDiameter: g.zeroOr(2, 6), Thickness: g.u(1, 6)}
		for j := 0; j < 4; j++ {
			k.HoleMargin[j] = g.u(4, 10)
			k.HolePattern[j] = pats[g.r.Intn(len(pats))]
		}
		mk(vtag(i, ""), false, k)
	}

	er := func(tag string, doc bool, k obj.EuroRackParms) {
		k2, k3 := k, k
		g.p2("obj.EuroRackPanel2D", tag, doc, k, func() (sdf.SDF2, error) { return obj.EuroRackPanel2D(&k2) })
		g.p3("obj.EuroRackPanel3D", tag, doc, k, func() (sdf.SDF3, error) { return obj.EuroRackPanel3D(&k3) })
	}
	// examples/eurorack/main.go (panelThickness = 2.5)
	er("ex:eurorack/3Ux12HP", true, obj.EuroRackParms{U: 3, HP: 12, CornerRadius: 3, HoleDiameter: 3.6, Thickness: 2.5, Ridge: true})
	for i := 0; i < nVariants+1; i++ {
		us := []float64{1, 2, 3, 6}
		hps := []float64{2, 4, 6, 8, 12, 16, 20, 42}
		er(vtag(i, ""), false, obj.EuroRackParms{U: us[g.r.Intn(len(us))], HP: hps[g.r.Intn(len(hps))], CornerRadius: g.zeroOr(0.5, 3),
			HoleDiameter: g.zeroOr(2.5, 4), Thickness: g.u(1.5, 4), Ridge: g.b()})
	}

	ph := func(tag string, doc bool, k obj.PanelHoleParms) {
		kk := k
		g.p3("obj.PanelHole3D", tag, doc, k, func() (sdf.SDF3, error) { return obj.PanelHole3D(&kk) })
	}
	// examples/eurorack/main.go pot0, pot1, spdt, led, jack35
	ph("ex:eurorack/pot0", true, obj.PanelHoleParms{Diameter: 9.4, Thickness: 2.5, Indent: v3.Vec{X: 2, Y: 4, Z: 2}, Offset: 11.0})
	ph("ex:eurorack/pot1", true, obj.PanelHoleParms{Diameter: 7.2, Thickness: 2.5, Indent: v3.Vec{X: 2, Y: 2, Z: 1.5}, Offset: 7.0})
	ph("ex:eurorack/spdt", true, obj.PanelHoleParms{Diameter: 6.2, Thickness: 2.5, Indent: v3.Vec{X: 2, Y: 2, Z: 1.5}, Offset: 5.4})
	ph("ex:eurorack/led", true, obj.PanelHoleParms{Diameter: 7.0, Thickness: 2.5})
	ph("ex:eurorack/jack35", true, obj.PanelHoleParms{Diameter: 6.4, Thickness: 2.5, Indent: v3.Vec{X: 2, Y: 2, Z: 1.5}, Offset: 4.9})
	for i := 0; i < nVariants+1; i++ {
		d, t := g.u(3, 12), g.u(1.5, 5)
		k := obj.PanelHoleParms{Diameter: d, Thickness: t}
		if i != 0 {
			k.Indent = v3.Vec{X: g.u(1, 3), Y: g.u(1, 4), Z: g.u(0.3, 1) * t}
			k.Offset = g.u(0.5, 1.2) * d
			if i >= 2 {
				k.Orientation = g.u(-math.Pi, math.Pi)
			}
		}
		ph(vtag(i, ""), false, k)
	}
}

// ---------------------------------------------------------------- panelbox.go

func (g *reg) panelBox() {
	mk := func(tag string, doc bool, k obj.PanelBoxParms) {
		var out []sdf.SDF3
		var err error
		called := false
		call := func() {
			if !called {
				called = true
				kk := k
				out, err = obj.PanelBox3D(&kk)
				if err == nil && len(out) != 3 {
					err = fmt.Errorf("PanelBox3D returned %d parts, 3 expected", len(out))
				}
			}
		}
		for j, n := range []string{"panel", "top", "bottom"} {
			j := j
			g.p3("obj.PanelBox3D", tag+"/"+n, doc, k, func() (sdf.SDF3, error) {
				call()
				if err != nil {
					return nil, err
				}
				return out[j], nil
			})
		}
	}
	// examples/panel_box/main.go
	mk("ex:panel_box", true, obj.PanelBoxParms{Size: v3.Vec{X: 50, Y: 40, Z: 60}, Wall: 2.5, Panel: 3.0, Rounding: 5.0,
		FrontInset: 2.0, BackInset: 2.0, Hole: 3.4, SideTabs: "TbtbT"})
	tabs := []string{"TbtbT", "tb", "bt", "T.B", "", "tbtb", "BtT", "b.T.t"}
	for i := 0; i < nVariants+1; i++ {
		st := tabs[g.r.Intn(len(tabs))]
		hole := 0.0
		if (g.b() || i == 0) && (containsAny(st, "TB")) {
			hole = g.u(2.5, 4)
		}
		cl := []float64{0, 0.05, g.u(0.02, 0.1)}[g.r.Intn(3)]
		mk(vtag(i, st), false, obj.PanelBoxParms{Size: v3.Vec{X: g.u(40, 80), Y: g.u(30, 60), Z: g.u(50, 100)}, Wall: g.u(2, 3), Panel: g.u(2, 4),
			Rounding: g.zeroOr(0.5, 6), FrontInset: g.zeroOr(0.5, 3), BackInset: g.zeroOr(0.5, 3), Clearance: cl, Hole: hole, SideTabs: st})
	}
}

func containsAny(s, chars string) bool {
	for _, c := range s {
		for _, d := range chars {
			if c == d {
				return true
			}
		}
	}
	return false
}

// ---------------------------------------------------------------- pipe.go

func (g *reg) pipes() {
	p3 := func(tag string, doc bool, o, i, l float64) {
		g.p3("obj.Pipe3D", tag, doc, fmt.Sprintf("oRadius=%v iRadius=%v length=%v", o, i, l), func() (sdf.SDF3, error) { return obj.Pipe3D(o, i, l) })
	}
	std := func(tag string, doc bool, name, units string, l float64) {
		g.p3("obj.StdPipe3D", tag, doc, fmt.Sprintf("name=%q units=%q length=%v", name, units, l), func() (sdf.SDF3, error) { return obj.StdPipe3D(name, units, l) })
	}
	pc := func(tag string, doc bool, k obj.PipeConnectorParms) {
		kk := k
		g.p3("obj.PipeConnector3D", tag, doc, k, func() (sdf.SDF3, error) { return obj.PipeConnector3D(&kk) })
	}
	spc := func(tag string, doc bool, name, units string, l float64, cfg [6]bool) {
		g.p3("obj.StdPipeConnector3D", tag, doc, fmt.Sprintf("name=%q units=%q length=%v cfg=%v", name, units, l, cfg),
			func() (sdf.SDF3, error) { return obj.StdPipeConnector3D(name, units, l, cfg) })
	}
	g.imply("obj.PipeLookup")
	if _, err := obj.PipeLookup("sch40:1", "mm"); err != nil {
		g.errs = append(g.errs, fmt.Sprintf("documented example failed: obj.PipeLookup(sch40:1, mm): %v", err))
	}
	// examples/delta/main.go: Pipe3D(platformThickness*0.5, upperArmRadius2, upperArmWidth)
	p3("ex:delta", true, 10.0*0.5, 3.9*0.5, 30.0)
	std("ex:test51", true, "sch40:1", "mm", 100)
	// examples/pipe_connectors/main.go
	cfgs := [][6]bool{
		{false, false, false, false, true, true}, {true, false, false, false, true, false}, {true, false, false, false, true, true},
		{true, false, true, false, true, false}, {true, true, true, true, false, false}, {true, false, true, true, true, false},
		{true, true, true, true, true, false},
	}
	for i, c := range cfgs {
		spc(fmt.Sprintf("ex:pipe_connectors/%d", i), true, "sch40:1", "mm", 40.0, c)
	}
	// the PipeConnectorParms StdPipeConnector3D("sch40:1","mm",40) builds
	if p, err := obj.PipeLookup("sch40:1", "mm"); err == nil {
		wall := p.Outer - p.Inner
		pc("doc:sch40:1", true, obj.PipeConnectorParms{Length: 40, OuterRadius: p.Outer + wall, InnerRadius: p.Outer,
			RecessDepth: math.Min(2*p.Outer, 40-p.Outer-0.5*wall), RecessWidth: wall, Configuration: cfgs[3]})
	}
	randCfg := func() [6]bool {
		for {
			var c [6]bool
			n := 0
			for j := range c {
				c[j] = g.b()
				if c[j] {
					n++
				}
			}
			if n > 0 {
				return c
			}
		}
	}
	for i := 0; i < nVariants; i++ {
		o := g.u(3, 30)
		p3(vtag(i, ""), false, o, g.u(0.5, 0.9)*o, g.u(5, 100))
		name := pipeNames[g.r.Intn(len(pipeNames))]
		units := g.pick("mm", "inch")
		sc := 1.0
		if units == "inch" {
			sc = 1 / inch
		}
		std(vtag(i, name+"/"+units), false, name, units, g.u(20, 200)*sc)
		or := g.u(10, 20)
		ir := g.u(0.6, 0.85) * or
		l := g.u(30, 60)
		pc(vtag(i, ""), false, obj.PipeConnectorParms{Length: l, OuterRadius: or, InnerRadius: ir, RecessDepth: g.zeroOr(0.1, 0.5) * l,
			RecessWidth: g.zeroOr(0.1, 0.4) * ir, Configuration: randCfg()})
		name = pipeNames[g.r.Intn(5)]
		units = g.pick("mm", "inch")
		if pp, err := obj.PipeLookup(name, units); err == nil {
			spc(vtag(i, name+"/"+units), false, name, units, g.u(2.5, 5)*pp.Outer, randCfg())
		}
	}
}

// ---------------------------------------------------------------- servo.go

func (g *reg) servos() {
	s3 := func(tag string, doc bool, k obj.ServoParms) {
		kk := k
		g.p3("obj.Servo3D", tag, doc, k, func() (sdf.SDF3, error) { return obj.Servo3D(&kk) })
	}
	s2 := func(tag string, doc bool, k obj.ServoParms, hr float64) {
		kk := k
		g.p2("obj.Servo2D", tag, doc, fmt.Sprintf("%+v holeRadius=%v", k, hr), func() (sdf.SDF2, error) { return obj.Servo2D(&kk, hr) })
	}
	horn := func(tag string, doc bool, k obj.ServoHornParms) {
		kk := k
		g.p2("obj.ServoHorn", tag, doc, k, func() (sdf.SDF2, error) { return obj.ServoHorn(&kk) })
	}
	g.imply("obj.ServoLookup")
	// examples/servo/main.go: every named servo, Servo3D(k) and Servo2D(k, -1)
	seen := map[obj.ServoParms]bool{}
	for _, n := range servoNames {
		k, err := obj.ServoLookup(n)
		if err != nil {
			g.errs = append(g.errs, fmt.Sprintf("documented example failed: obj.ServoLookup(%q): %v", n, err))
			continue
		}
		if seen[*k] { // aliases ("nano" == "hitec_hs_40")
			continue
		}
		seen[*k] = true
		s3("ex:servo/"+n, true, *k)
		s2("ex:servo/"+n, true, *k, -1)
	}
	// examples/delta/main.go
	if k, err := obj.ServoLookup("annimos_ds3218"); err == nil {
		s2("ex:delta/annimos_ds3218", true, *k, 2.1)
	}
	horn("ex:delta", true, obj.ServoHornParms{CenterRadius: 3, NumHoles: 4, CircleRadius: 14 * 0.5, HoleRadius: 1.9})
	for i := 0; i < nVariants; i++ {
		k, err := obj.ServoLookup(servoNames[g.r.Intn(len(servoNames))])
		if err != nil {
			continue
		}
		s := g.u(0.8, 1.25)
		kk := *k
		kk.Body = kk.Body.MulScalar(s)
		kk.Mount = v3.Vec{X: kk.Mount.X * s * g.u(1, 1.1), Y: kk.Mount.Y * s, Z: kk.Mount.Z * g.u(0.8, 1.5)}
		kk.Hole = v2.Vec{X: kk.Hole.X * s, Y: g.zeroOr(0.3, 0.6) * kk.Body.Y}
		kk.MountOffset *= s * g.u(0.8, 1.1)
		kk.ShaftOffset *= s
		kk.ShaftLength *= g.u(0.8, 2)
		kk.ShaftRadius *= g.u(0.8, 1.5)
		kk.HoleRadius *= g.u(0.7, 1.2)
		s3(vtag(i, ""), false, kk)
		s2(vtag(i, ""), false, kk, []float64{-1, 0.5, g.u(0.5, 3)}[i%3])
		h := obj.ServoHornParms{CenterRadius: g.zeroOr(1, 5), NumHoles: g.n(0, 8), CircleRadius: g.u(5, 15), HoleRadius: g.u(0.5, 2)}
		if h.CenterRadius == 0 && h.NumHoles == 0 {
			h.NumHoles = 3
		}
		horn(vtag(i, ""), false, h)
	}
}

// ---------------------------------------------------------------- spring.go

func (g *reg) spring() {
	mk := func(tag string, doc bool, k obj.SpringParms) {
		k2, k3 := k, k
		g.p2("obj.(*SpringParms).Spring2D", tag, doc, k, func() (sdf.SDF2, error) { return k2.Spring2D() })
		g.p3("obj.(*SpringParms).Spring3D", tag, doc, k, func() (sdf.SDF3, error) { return k3.Spring3D() })
	}
	g.imply("obj.(*SpringParms).SpringLength")
	// examples/pico_cnc/penholder.go
	mk("ex:pico_cnc/penholder", true, obj.SpringParms{Width: 25, Height: 20, WallThickness: 1, Diameter: 5, NumSections: 3, Boss: [2]float64{12, 8}})
	for i := 0; i < nVariants+1; i++ {
		w := g.u(0.5, 1.5)
		mk(vtag(i, ""), false, obj.SpringParms{Width: g.u(5, 30), Height: g.u(3, 20), WallThickness: w, Diameter: 2*w + g.u(1, 6),
			NumSections: g.n(1, 6), Boss: [2]float64{g.zeroOr(0.5, 10), g.zeroOr(0.5, 10)}})
	}
}

// ---------------------------------------------------------------- standoff.go

func (g *reg) standoff() {
	mk := func(tag string, doc bool, k obj.StandoffParms) {
		kk := k
		g.p3("obj.Standoff3D", tag, doc, k, func() (sdf.SDF3, error) { return obj.Standoff3D(&kk) })
	}
	mk("ex:pico_cnc", true, obj.StandoffParms{PillarHeight: 15, PillarDiameter: 6.0, HoleDepth: 10.0, HoleDiameter: 2.4})
	mk("ex:maixgo/webs", true, obj.StandoffParms{PillarHeight: 14, PillarDiameter: 4.5, HoleDepth: 11.0, HoleDiameter: 2.6,
		NumberWebs: 2, WebHeight: 10, WebDiameter: 12, WebWidth: 3.5})
	mk("ex:maixgo/plain", true, obj.StandoffParms{PillarHeight: 22, PillarDiameter: 6.0, HoleDepth: 11.0, HoleDiameter: 2.4})
	mk("ex:eurorack", true, obj.StandoffParms{PillarHeight: 25, PillarDiameter: 8, HoleDepth: 10, HoleDiameter: 2.4})
	// doc comment: HoleDepth < 0 is a support stub
	mk("doc:stub", true, obj.StandoffParms{PillarHeight: 10, PillarDiameter: 6, HoleDepth: -2, HoleDiameter: 2.4, NumberWebs: 4, WebHeight: 5, WebDiameter: 14, WebWidth: 2})
	for i := 0; i < nVariants+1; i++ {
		h, d := g.u(5, 30), g.u(4, 10)
		k := obj.StandoffParms{PillarHeight: h, PillarDiameter: d, HoleDiameter: g.u(0.3, 0.7) * d}
		switch i % 3 {
		case 0:
			k.HoleDepth = g.u(0.2, 0.9) * h
		case 1:
			k.HoleDepth = -g.u(1, 4)
		}
		if i != 2 {
			k.NumberWebs = g.n(1, 6)
			k.WebHeight = g.u(0.3, 0.9) * h
			k.WebDiameter = d * g.u(1.5, 3)
			k.WebWidth = g.u(1, 0.8*d)
		}
		mk(vtag(i, ""), false, k)
	}
}

// ---------------------------------------------------------------- stl.go

// boxMesh returns the 12 outward-facing triangles of an axis-aligned box
func boxMesh(lo, hi v3.Vec) []*sdf.Triangle3 {
	c := func(i int) v3.Vec {
		p := lo
		if i&1 != 0 {
			p.X = hi.X
		}
		if i&2 != 0 {
			p.Y = hi.Y
		}
		if i&4 != 0 {
			p.Z = hi.Z
		}
		return p
	}
	quad := func(a, b, cc, d int) []*sdf.Triangle3 {
		return []*sdf.Triangle3{{c(a), c(b), c(cc)}, {c(a), c(cc), c(d)}}
	}
	var m []*sdf.Triangle3
	m = append(m, quad(0, 2, 3, 1)...) // z = lo, normal -z
	m = append(m, quad(4, 5, 7, 6)...) // z = hi, normal +z
	m = append(m, quad(0, 1, 5, 4)...) // y = lo
	m = append(m, quad(2, 6, 7, 3)...) // y = hi
	m = append(m, quad(0, 4, 6, 2)...) // x = lo
	m = append(m, quad(1, 3, 7, 5)...) // x = hi
	return m
}

func (g *reg) stl() {
	imp := func(tag string, doc bool, file string, nn, mn, mx int) {
		g.p3("obj.ImportSTL", tag, doc, fmt.Sprintf("path=%s numNeighbors=%d minChildren=%d maxChildren=%d", file, nn, mn, mx),
			func() (sdf.SDF3, error) { return obj.ImportSTL(repoFile(file), nn, mn, mx) })
	}
	// examples/gyroid, monkey_hat, hollowing_stl: (path, 20, 3, 5)
	imp("ex:gyroid/teapot", true, "files/teapot.stl", 20, 3, 5)
	imp("ex:monkey_hat/monkey", true, "files/monkey.stl", 20, 3, 5)
	imp("ex:hollowing_stl/bottle", true, "files/bottle.stl", 20, 3, 5)
	files := []string{"files/monkey.stl", "files/teapot.stl", "files/bottle.stl"}
	for i := 0; i < nVariants; i++ {
		mn := g.n(2, 5)
		imp(vtag(i, ""), false, files[i%3], []int{5, 10, 40}[i%3], mn, mn+g.n(1, 5))
	}
	tm := func(tag string, doc bool, params string, nn, mn, mx int, mesh func() ([]*sdf.Triangle3, error)) {
		g.p3("obj.ImportTriMesh", tag, doc, fmt.Sprintf("%s numNeighbors=%d minChildren=%d maxChildren=%d", params, nn, mn, mx),
			func() (sdf.SDF3, error) {
				m, err := mesh()
				if err != nil {
					return nil, err
				}
				return obj.ImportTriMesh(m, nn, mn, mx), nil
			})
	}
	// doc comment: "3 and 5 are a good default"; the mesh ImportSTL hands over
	tm("doc:monkey", true, "mesh=render.LoadSTL(files/monkey.stl)", 20, 3, 5, func() ([]*sdf.Triangle3, error) { return render.LoadSTL(repoFile("files/monkey.stl")) })
	for i := 0; i < nVariants; i++ {
		lo := v3.Vec{X: g.u(-10, 10), Y: g.u(-10, 10), Z: g.u(-10, 10)}
		hi := lo.Add(v3.Vec{X: g.u(1, 10), Y: g.u(1, 10), Z: g.u(1, 10)})
		tm(vtag(i, "box"), false, fmt.Sprintf("mesh=box(%v,%v)", lo, hi), []int{12, 20, 1000}[i%3], 3, 5,
			func() ([]*sdf.Triangle3, error) { return boxMesh(lo, hi), nil })
	}
}

// ---------------------------------------------------------------- tab.go

func (g *reg) tabs() {
	const wallThickness = 3.0
	const round = 0.5 * wallThickness
	const clearance = 0.3
	oSize := v3.Vec{X: 40, Y: 40, Z: 20}
	iSize := oSize.SubScalar(2.0 * wallThickness)

	// examples/tabbox/main.go box0
	box0 := func(upper bool) (sdf.SDF3, error) {
		outer, err := sdf.Box3D(oSize, round)
		if err != nil {
			return nil, err
		}
		inner, err := sdf.Box3D(iSize, round)
		if err != nil {
			return nil, err
		}
		box := sdf.Difference3D(outer, inner)
		lidHeight := oSize.Z * 0.25
		if upper {
			box = sdf.Cut3D(box, v3.Vec{Z: lidHeight}, v3.Vec{Z: 1})
		} else {
			box = sdf.Cut3D(box, v3.Vec{Z: lidHeight}, v3.Vec{Z: -1})
		}
		tab, err := obj.NewStraightTab(v3.Vec{X: 3.0 * wallThickness, Y: 0.5 * wallThickness, Z: wallThickness}, clearance)
		if err != nil {
			return nil, err
		}
		xOfs := 0.5 * (iSize.X + wallThickness)
		yOfs := 0.5 * (iSize.Y + wallThickness)
		mSet := []sdf.M44{
			sdf.Translate3d(v3.Vec{X: xOfs, Z: lidHeight}).Mul(sdf.RotateZ(sdf.DtoR(90))),
			sdf.Translate3d(v3.Vec{X: -xOfs, Z: lidHeight}).Mul(sdf.RotateZ(sdf.DtoR(90))),
			sdf.Translate3d(v3.Vec{Y: yOfs, Z: lidHeight}),
			sdf.Translate3d(v3.Vec{Y: -yOfs, Z: lidHeight}),
		}
		return obj.AddTabs(box, tab, upper, mSet), nil
	}
	// examples/tabbox/main.go box1
	box1 := func(upper bool) (sdf.SDF3, error) {
		outer := sdf.Extrude3D(sdf.Box2D(v2.Vec{X: oSize.X, Y: oSize.Y}, round), oSize.Z)
		inner := sdf.Extrude3D(sdf.Box2D(v2.Vec{X: iSize.X, Y: iSize.Y}, round), iSize.Z)
		box := sdf.Difference3D(outer, inner)
		yOfs := oSize.Y * 0.2
		wall, _ := sdf.Box3D(v3.Vec{X: oSize.X, Y: wallThickness, Z: oSize.Z}, 0)
		wall0 := sdf.Transform3D(wall, sdf.Translate3d(v3.Vec{Y: yOfs}))
		wall1 := sdf.Transform3D(wall, sdf.Translate3d(v3.Vec{Y: -yOfs}))
		box = sdf.Union3D(box, wall0, wall1)
		lidHeight := 0.5*oSize.Z - wallThickness
		if upper {
			box = sdf.Cut3D(box, v3.Vec{Z: lidHeight}, v3.Vec{Z: 1})
		} else {
			box = sdf.Cut3D(box, v3.Vec{Z: lidHeight}, v3.Vec{Z: -1})
		}
		tab, err := obj.NewAngleTab(v3.Vec{X: 2.5 * wallThickness, Y: wallThickness, Z: wallThickness}, clearance)
		if err != nil {
			return nil, err
		}
		xOfs := oSize.X * 0.25
		mSet := []sdf.M44{
			sdf.Translate3d(v3.Vec{X: xOfs, Y: yOfs, Z: lidHeight}), sdf.Translate3d(v3.Vec{X: xOfs, Y: -yOfs, Z: lidHeight}),
			sdf.Translate3d(v3.Vec{X: -xOfs, Y: yOfs, Z: lidHeight}), sdf.Translate3d(v3.Vec{X: -xOfs, Y: -yOfs, Z: lidHeight}),
		}
		box = obj.AddTabs(box, tab, upper, mSet)
		l := oSize.Z * 0.35
		k := obj.ScrewTab{Length: l, Radius: 0.8 * wallThickness, Round: true, HoleUpper: wallThickness, HoleLower: 0.8 * l, HoleRadius: 1}
		tab, err = obj.NewScrewTab(&k)
		if err != nil {
			return nil, err
		}
		xOfs = 0.5*oSize.X - wallThickness
		yOfs = 0.5*oSize.Y - wallThickness
		mSet = []sdf.M44{
			sdf.Translate3d(v3.Vec{X: xOfs, Y: yOfs, Z: lidHeight}), sdf.Translate3d(v3.Vec{X: -xOfs, Y: yOfs, Z: lidHeight}),
			sdf.Translate3d(v3.Vec{X: xOfs, Y: -yOfs, Z: lidHeight}), sdf.Translate3d(v3.Vec{X: -xOfs, Y: -yOfs, Z: lidHeight}),
		}
		return obj.AddTabs(box, tab, upper, mSet), nil
	}
	for _, up := range []bool{true, false} {
		up := up
		g.p3("obj.AddTabs", fmt.Sprintf("ex:tabbox/box0/upper=%v", up), true, "examples/tabbox box0 (straight tabs)", func() (sdf.SDF3, error) { return box0(up) })
		g.p3("obj.AddTabs", fmt.Sprintf("ex:tabbox/box1/upper=%v", up), true, "examples/tabbox box1 (angle + screw tabs)", func() (sdf.SDF3, error) { return box1(up) })
	}

	// the tab objects themselves: Body/Envelope of each kind at a placement matrix
	type mkTab struct {
		ctor, typ string
		mk        func() (obj.Tab, string, error)
	}
	place := func(doc bool) (sdf.M44, string) {
		if doc {
			m := sdf.Translate3d(v3.Vec{X: 18.5, Z: 5}).Mul(sdf.RotateZ(sdf.DtoR(90)))
			return m, "Translate3d({18.5 0 5}).RotateZ(90deg)"
		}
		p := v3.Vec{X: g.u(-30, 30), Y: g.u(-30, 30), Z: g.u(-10, 10)}
		a := g.u(-math.Pi, math.Pi)
		return sdf.Translate3d(p).Mul(sdf.RotateZ(a)), fmt.Sprintf("Translate3d(%v).RotateZ(%v)", p, a)
	}
	emit := func(tag string, doc bool, t mkTab) {
		tab, ps, err := t.mk()
		if err != nil {
			g.fail(doc, t.ctor, tag, ps, err, false)
			return
		}
		g.imply(t.ctor)
		m, ms := place(doc)
		for _, up := range []bool{false, true} {
			up := up
			// Body(upper=true) and (for straight/angle tabs) Envelope(upper=false) are documented to be nil
			if b := callTab(func() sdf.SDF3 { return tab.Body(up, m) }); b != nil {
				g.p3("obj.(*"+t.typ+").Body", fmt.Sprintf("%s/upper=%v", tag, up), doc, fmt.Sprintf("%s m=%s", ps, ms), func() (sdf.SDF3, error) { return b, nil })
			}
			if e := callTab(func() sdf.SDF3 { return tab.Envelope(up, m) }); e != nil {
				g.p3("obj.(*"+t.typ+").Envelope", fmt.Sprintf("%s/upper=%v", tag, up), doc, fmt.Sprintf("%s m=%s", ps, ms), func() (sdf.SDF3, error) { return e, nil })
			}
		}
		// AddTabs on a plain slab
		for _, up := range []bool{false, true} {
			up := up
			if doc {
				continue
			}
			g.p3("obj.AddTabs", fmt.Sprintf("%s/%s/upper=%v", tag, t.typ, up), doc, fmt.Sprintf("slab 80x80x10 %s m=%s", ps, ms), func() (sdf.SDF3, error) {
				slab, err := sdf.Box3D(v3.Vec{X: 80, Y: 80, Z: 10}, 0)
				if err != nil {
					return nil, err
				}
				return obj.AddTabs(slab, tab, up, []sdf.M44{m, sdf.Translate3d(v3.Vec{X: 3, Y: -4}).Mul(m)}), nil
			})
		}
	}
	straight := func(sz v3.Vec, cl float64) mkTab {
		return mkTab{"obj.NewStraightTab", "StraightTab", func() (obj.Tab, string, error) {
			t, err := obj.NewStraightTab(sz, cl)
			return t, fmt.Sprintf("size=%v clearance=%v", sz, cl), err
		}}
	}
	angle := func(sz v3.Vec, cl float64) mkTab {
		return mkTab{"obj.NewAngleTab", "AngleTab", func() (obj.Tab, string, error) {
			t, err := obj.NewAngleTab(sz, cl)
			return t, fmt.Sprintf("size=%v clearance=%v", sz, cl), err
		}}
	}
	screw := func(k obj.ScrewTab) mkTab {
		return mkTab{"obj.NewScrewTab", "ScrewTab", func() (obj.Tab, string, error) {
			kk := k
			t, err := obj.NewScrewTab(&kk)
			return t, fmt.Sprintf("%+v", k), err
		}}
	}
	emit("ex:tabbox", true, straight(v3.Vec{X: 9, Y: 1.5, Z: 3}, 0.3))
	emit("ex:tabbox", true, angle(v3.Vec{X: 7.5, Y: 3, Z: 3}, 0.3))
	emit("ex:tabbox", true, screw(obj.ScrewTab{Length: 7, Radius: 2.4, Round: true, HoleUpper: 3, HoleLower: 5.6, HoleRadius: 1}))
	for i := 0; i < nVariants; i++ {
		z := g.u(1, 5)
		emit(vtag(i, ""), false, straight(v3.Vec{X: g.u(3, 15), Y: g.u(1, 5), Z: z}, g.zeroOr(0.1, 0.5)))
		z = g.u(1, 5)
		emit(vtag(i, ""), false, angle(v3.Vec{X: z * g.u(2, 4), Y: g.u(1, 5), Z: z}, g.zeroOr(0.1, 0.5)))
		l, r := g.u(4, 12), g.u(1.5, 4)
		emit(vtag(i, ""), false, screw(obj.ScrewTab{Length: l, Radius: r, Round: g.b(), HoleUpper: g.u(1, 5), HoleLower: g.u(0.3, 0.9) * l, HoleRadius: g.u(0.3, 0.7) * r}))
	}
}

func callTab(f func() sdf.SDF3) (s sdf.SDF3) {
	defer func() {
		if recover() != nil {
			s = nil
		}
	}()
	return f()
}

// ---------------------------------------------------------------- trp.go

func (g *reg) trp() {
	mk := func(tag string, doc bool, k obj.TruncRectPyramidParms) {
		kk := k
		g.p3("obj.TruncRectPyramid3D", tag, doc, k, func() (sdf.SDF3, error) { return obj.TruncRectPyramid3D(&kk) })
	}
	// examples/flask/main.go pinLug (w = 57), pinLugs base; inlet_hood outer/inner base; midget cylinder base; gridfinity upper
	mk("ex:flask/pinLug", true, obj.TruncRectPyramidParms{Size: v3.Vec{X: 57, Y: 14, Z: 28}, BaseAngle: sdf.DtoR(90 - 5), BaseRadius: 7, RoundRadius: 1.4})
	mk("ex:flask/pinLugs", true, obj.TruncRectPyramidParms{Size: v3.Vec{X: 57, Y: 57, Z: 3}, BaseAngle: sdf.DtoR(90 - 15), BaseRadius: 8.5, RoundRadius: 0.75})
	mk("ex:inlet_hood/outer", true, obj.TruncRectPyramidParms{Size: v3.Vec{X: 40, Y: 60, Z: 10}, BaseAngle: sdf.DtoR(90 - 2), BaseRadius: 20})
	mk("ex:inlet_hood/inner", true, obj.TruncRectPyramidParms{Size: v3.Vec{X: 30, Y: 50, Z: 10}, BaseAngle: sdf.DtoR(90 - 5), BaseRadius: 15})
	mk("ex:midget/cylinder", true, obj.TruncRectPyramidParms{Size: v3.Vec{X: 2, Y: 0.5, Z: 1}, BaseAngle: sdf.DtoR(90 - 3), BaseRadius: 0.125, RoundRadius: 0.125 * 1.5})
	mk("doc:gridfinity/upper", true, obj.TruncRectPyramidParms{Size: v3.Vec{X: 42, Y: 42, Z: 2.15}, BaseAngle: sdf.DtoR(45), BaseRadius: 4})
	for i := 0; i < nVariants+1; i++ {
		sz := v3.Vec{X: g.u(5, 60), Y: g.u(5, 60), Z: g.u(2, 30)}
		mk(vtag(i, ""), false, obj.TruncRectPyramidParms{Size: sz, BaseAngle: sdf.DtoR(g.u(45, 90)), BaseRadius: g.zeroOr(0.05, 0.5) * math.Min(sz.X, sz.Y),
			RoundRadius: g.zeroOr(0.02, 0.2) * sz.Z})
	}
}

// ---------------------------------------------------------------- washer.go

func (g *reg) washer() {
	w2 := func(tag string, doc bool, k obj.WasherParms) {
		kk := k
		g.p2("obj.Washer2D", tag, doc, k, func() (sdf.SDF2, error) { return obj.Washer2D(&kk) })
	}
	w3 := func(tag string, doc bool, k obj.WasherParms) {
		kk := k
		g.p3("obj.Washer3D", tag, doc, k, func() (sdf.SDF3, error) { return obj.Washer3D(&kk) })
	}
	w2("ex:joko", true, obj.WasherParms{InnerRadius: 2.90 * 0.5, OuterRadius: 1.89})
	w3("ex:birdhouse", true, obj.WasherParms{Thickness: 2, InnerRadius: 10 * 0.5, OuterRadius: 10, Remove: 0.5})
	w3("ex:test50", true, obj.WasherParms{Thickness: 10, InnerRadius: 40, OuterRadius: 50, Remove: 0.3})
	w3("ex:maixgo", true, obj.WasherParms{Thickness: 3, InnerRadius: 0.5 * 20.3, OuterRadius: 0.5 * (20.3 + 4.0), Remove: 0.3})
	w3("doc:full", true, obj.WasherParms{Thickness: 2, InnerRadius: 5, OuterRadius: 10})
	for i := 0; i < nVariants+2; i++ {
		in := g.u(1, 40)
		k := obj.WasherParms{Thickness: g.u(0.5, 10), InnerRadius: in, OuterRadius: in + g.u(0.5, 10)}
		w2(vtag(i, ""), false, k)
		if i > 0 {
			k.Remove = g.u(0.05, 0.95)
		}
		w3(vtag(i, ""), false, k)
	}
}
