// Package dctab is the translator of property C19 (DESIGN.md 2.3): it reads the
// CURRENT source of render/dc and emits coq/Generated/DCTables.v:
//
//   - every package-level integer table of dc3v1.go / dc3v2.go (dcChildMinOffsets,
//     dcEdgevmap, dcEdgemask, dcVertMap, dcFaceMap, dcCellProcFaceMask,
//     dcCellProcEdgeMask, dcFaceProcFaceMask, dcFaceProcEdgeMask, dcEdgeProcEdgeMask,
//     dcProcessEdgeMask, dcCorners, dcEdges, dcFarEdges, dcAxes) as nested lists of Z;
//   - the local table `orders` of dcContourFaceProc;
//   - the index patterns that are literals inside code: the neighbour offsets
//     v3i.Vec{..} of generateTriangles (in source order), the vertex order of its two
//     triangles, the indices[..] sequence appended by dcContourProcessEdge;
//   - a determinism scan of the production files of render/dc (go/packages with
//     type information): go statements, select statements, range loops over maps,
//     channel receives, imports of math/rand, time, sync, os, crypto/rand, and calls
//     of runtime.* — each as a list of strings "file:line: text";
//   - renderer state: every field of a type that has a Render method (the renderer value
//     outlives a Render call) which some function assigns, with every read of such a field
//     classified as "warn-once" (the condition `!r.f` of an if without else whose body holds only
//     log.* calls and `r.f = true`) or listed as another read "Type.field@func"; assignments to
//     package-level variables inside functions are listed too.
//
// Tables are data, the translation is total; a source the translator cannot read
// is an error (broken tie), never skipped.
package dctab

import (
	"fmt"
	"go/ast"
	"go/constant"
	"go/token"
	"go/types"
	"os"
	"path/filepath"
	"sort"
	"strconv"
	"strings"

	"golang.org/x/tools/go/packages"
)

// Tables is the parsed content (also used by the harness for the evidence).
type Tables struct {
	Names  []string               // in emission order
	Vals   map[string]interface{} // nested []interface{} of int64
	Scan   map[string][]string    // determinism scan
	Files  []string
	Import []string
}

// intLit evaluates an integer-valued constant expression made of literals and unary minus.
func intLit(e ast.Expr) (int64, bool) {
	switch x := e.(type) {
	case *ast.BasicLit:
		switch x.Kind {
		case token.INT:
			v, ok := constant.Int64Val(constant.MakeFromLiteral(x.Value, token.INT, 0))
			return v, ok
		case token.FLOAT:
			c := constant.MakeFromLiteral(x.Value, token.FLOAT, 0)
			f, _ := constant.Float64Val(c)
			if f == float64(int64(f)) {
				return int64(f), true
			}
		}
	case *ast.UnaryExpr:
		if x.Op == token.SUB {
			v, ok := intLit(x.X)
			return -v, ok
		}
	case *ast.ParenExpr:
		return intLit(x.X)
	}
	return 0, false
}

// lit converts a (nested) composite literal of integers into nested slices.
func lit(e ast.Expr) (interface{}, error) {
	if v, ok := intLit(e); ok {
		return v, nil
	}
	cl, ok := e.(*ast.CompositeLit)
	if !ok {
		return nil, fmt.Errorf("not a literal")
	}
	out := []interface{}{}
	for _, el := range cl.Elts {
		if kv, ok := el.(*ast.KeyValueExpr); ok {
			// keyed struct literal {X: 1, Y: 2}: keep the field order of the source
			el = kv.Value
		}
		v, err := lit(el)
		if err != nil {
			return nil, err
		}
		out = append(out, v)
	}
	return out, nil
}

func depth(v interface{}) int {
	l, ok := v.([]interface{})
	if !ok {
		return 0
	}
	d := 0
	for _, x := range l {
		if k := depth(x); k > d {
			d = k
		}
	}
	return d + 1
}

func coqVal(v interface{}) string {
	switch x := v.(type) {
	case int64:
		if x < 0 {
			return fmt.Sprintf("(%d)", x)
		}
		return strconv.FormatInt(x, 10)
	case []interface{}:
		xs := make([]string, len(x))
		for i, e := range x {
			xs[i] = coqVal(e)
		}
		return "[" + strings.Join(xs, "; ") + "]"
	}
	return "?"
}

func coqType(d int) string {
	t := "Z"
	for i := 0; i < d; i++ {
		t = "list (" + t + ")"
	}
	return t
}

// Parse reads repo/render/dc.
func Parse(repo string) (*Tables, error) {
	cfg := &packages.Config{Mode: packages.NeedName | packages.NeedFiles | packages.NeedCompiledGoFiles | packages.NeedSyntax |
		packages.NeedTypes | packages.NeedTypesInfo | packages.NeedImports | packages.NeedDeps, Dir: repo, Env: os.Environ()}
	pkgs, err := packages.Load(cfg, "./render/dc")
	if err != nil {
		return nil, fmt.Errorf("dctab: go/packages: %v", err)
	}
	if len(pkgs) != 1 {
		return nil, fmt.Errorf("dctab: %d packages for ./render/dc", len(pkgs))
	}
	p := pkgs[0]
	if len(p.Errors) > 0 {
		return nil, fmt.Errorf("dctab: render/dc does not type-check: %v", p.Errors[0])
	}
	t := &Tables{Vals: map[string]interface{}{}, Scan: map[string][]string{}}
	add := func(name string, v interface{}) {
		if _, dup := t.Vals[name]; !dup {
			t.Names = append(t.Names, name)
		}
		t.Vals[name] = v
	}
	pos := func(n ast.Node) string {
		ps := p.Fset.Position(n.Pos())
		return fmt.Sprintf("%s:%d", filepath.Base(ps.Filename), ps.Line)
	}
	note := func(kind string, n ast.Node, what string) {
		t.Scan[kind] = append(t.Scan[kind], pos(n)+": "+what)
	}
	for _, k := range []string{"go", "select", "maprange", "recv", "badimport", "runtime"} {
		t.Scan[k] = []string{}
	}
	impSet := map[string]bool{}
	// package-level integer tables of every file first (by name; code below may refer to any of them)
	for _, f := range p.Syntax {
		for _, d := range f.Decls {
			gd, ok := d.(*ast.GenDecl)
			if !ok || gd.Tok != token.VAR {
				continue
			}
			for _, s := range gd.Specs {
				vs := s.(*ast.ValueSpec)
				for i, n := range vs.Names {
					if i >= len(vs.Values) || !strings.HasPrefix(n.Name, "dc") {
						continue
					}
					v, err := lit(vs.Values[i])
					if err != nil {
						continue // not an integer table
					}
					add(n.Name, v)
				}
			}
		}
	}
	for i, f := range p.Syntax {
		t.Files = append(t.Files, filepath.Base(p.CompiledGoFiles[i]))
		for _, im := range f.Imports {
			path, _ := strconv.Unquote(im.Path.Value)
			impSet[path] = true
			switch path {
			case "math/rand", "math/rand/v2", "time", "sync", "sync/atomic", "os", "crypto/rand", "runtime", "unsafe":
				note("badimport", im, path)
			}
		}
		// literals inside code, and the determinism scan
		for _, d := range f.Decls {
			fd, ok := d.(*ast.FuncDecl)
			if !ok || fd.Body == nil {
				continue
			}
			fname := fd.Name.Name
			var idxs, tris []interface{}
			ast.Inspect(fd.Body, func(n ast.Node) bool {
				switch x := n.(type) {
				case *ast.GoStmt:
					note("go", x, fname)
				case *ast.SelectStmt:
					note("select", x, fname)
				case *ast.UnaryExpr:
					if x.Op == token.ARROW {
						note("recv", x, fname)
					}
				case *ast.RangeStmt:
					if tv, ok := p.TypesInfo.Types[x.X]; ok {
						if _, isMap := tv.Type.Underlying().(*types.Map); isMap {
							note("maprange", x, fname)
						}
						if _, isChan := tv.Type.Underlying().(*types.Chan); isChan {
							note("recv", x, fname)
						}
					} else {
						note("maprange", x, fname+" (untyped range operand)")
					}
				case *ast.SelectorExpr:
					if id, ok := x.X.(*ast.Ident); ok {
						if pn, ok := p.TypesInfo.Uses[id].(*types.PkgName); ok && pn.Imported().Path() == "runtime" {
							note("runtime", x, fname+": runtime."+x.Sel.Name)
						}
					}
				case *ast.AssignStmt:
					// orders := [2][4]int{...} in dcContourFaceProc
					if fname == "dcContourFaceProc" && len(x.Lhs) == 1 && len(x.Rhs) == 1 {
						if id, ok := x.Lhs[0].(*ast.Ident); ok && id.Name == "orders" {
							if v, err := lit(x.Rhs[0]); err == nil {
								add("dcFaceProcOrders", v)
							}
						}
					}
				case *ast.CompositeLit:
					if fname == "generateTriangles" {
						// sdf.Triangle3{vertices[k0], vertices[k1.bufIndex], vertices[k3.bufIndex]}, with the type
						// written out, behind & or elided inside a []*sdf.Triangle3{...} literal
						if isTriangle3(p.TypesInfo.TypeOf(x)) {
							var tri []interface{}
							for _, el := range x.Elts {
								ie, ok := el.(*ast.IndexExpr)
								if !ok {
									continue
								}
								var name string
								switch k := ie.Index.(type) {
								case *ast.Ident:
									name = k.Name
								case *ast.SelectorExpr:
									if id, ok := k.X.(*ast.Ident); ok {
										name = id.Name
									}
								}
								if len(name) == 2 && name[0] == 'k' && name[1] >= '0' && name[1] <= '3' {
									tri = append(tri, int64(name[1]-'0'))
								}
							}
							if len(tri) == 3 {
								tris = append(tris, tri)
							}
						}
					}
				case *ast.CallExpr:
					// *indexBuffer = append(*indexBuffer, indices[k]) in dcContourProcessEdge
					if fname == "dcContourProcessEdge" {
						if id, ok := x.Fun.(*ast.Ident); ok && id.Name == "append" && len(x.Args) == 2 {
							if ie, ok := x.Args[1].(*ast.IndexExpr); ok {
								if a, ok := ie.X.(*ast.Ident); ok && a.Name == "indices" {
									if v, ok := intLit(ie.Index); ok {
										idxs = append(idxs, v)
									}
								}
							}
						}
					}
				}
				return true
			})
			switch fname {
			case "generateTriangles":
				nbr, err := v2Neighbours(p, fd, t.Vals)
				if err != nil {
					return nil, err
				}
				add("dcV2NeighbourOffsets", nbr)
				add("dcV2TriangleOrder", tris)
			case "dcContourProcessEdge":
				add("dcV1ProcessEdgeOrder", idxs)
			}
		}
	}
	// ---- renderer state
	rendererTypes := map[string]bool{}
	for _, f := range p.Syntax {
		for _, d := range f.Decls {
			if fd, ok := d.(*ast.FuncDecl); ok && fd.Recv != nil && fd.Name.Name == "Render" {
				if tn := recvTypeName(fd); tn != "" {
					rendererTypes[tn] = true
				}
			}
		}
	}
	// fieldOf returns "Type.field" when e selects a field of a renderer type
	fieldOf := func(e ast.Expr) string {
		se, ok := e.(*ast.SelectorExpr)
		if !ok {
			return ""
		}
		sel, ok := p.TypesInfo.Selections[se]
		if !ok || sel.Kind() != types.FieldVal {
			return ""
		}
		rt := sel.Recv()
		if pt, ok := rt.(*types.Pointer); ok {
			rt = pt.Elem()
		}
		nt, ok := rt.(*types.Named)
		if !ok || !rendererTypes[nt.Obj().Name()] {
			return ""
		}
		return nt.Obj().Name() + "." + se.Sel.Name
	}
	written := map[string]bool{}
	for _, k := range []string{"statewrite", "statewarnonce", "stateread", "globalwrite"} {
		t.Scan[k] = []string{}
	}
	lhsRoot := func(e ast.Expr) ast.Expr { // strip index / star / paren
		for {
			switch x := e.(type) {
			case *ast.IndexExpr:
				e = x.X
			case *ast.StarExpr:
				e = x.X
			case *ast.ParenExpr:
				e = x.X
			default:
				return e
			}
		}
	}
	forFuncs := func(visit func(fname string, body *ast.BlockStmt)) {
		for _, f := range p.Syntax {
			for _, d := range f.Decls {
				if fd, ok := d.(*ast.FuncDecl); ok && fd.Body != nil {
					visit(fd.Name.Name, fd.Body)
				}
			}
		}
	}
	forFuncs(func(fname string, body *ast.BlockStmt) {
		ast.Inspect(body, func(n ast.Node) bool {
			var lhs []ast.Expr
			switch x := n.(type) {
			case *ast.AssignStmt:
				if x.Tok != token.DEFINE {
					lhs = x.Lhs
				}
			case *ast.IncDecStmt:
				lhs = []ast.Expr{x.X}
			}
			for _, l := range lhs {
				root := lhsRoot(l)
				if f := fieldOf(root); f != "" {
					written[f] = true
					t.Scan["statewrite"] = append(t.Scan["statewrite"], f+"@"+fname)
				}
				if id, ok := root.(*ast.Ident); ok {
					if v, ok := p.TypesInfo.Uses[id].(*types.Var); ok && v.Parent() == p.Types.Scope() {
						t.Scan["globalwrite"] = append(t.Scan["globalwrite"], id.Name+"@"+fname)
					}
				}
			}
			return true
		})
	})
	// reads of written fields
	isLogCall := func(s ast.Stmt) bool {
		es, ok := s.(*ast.ExprStmt)
		if !ok {
			return false
		}
		ce, ok := es.X.(*ast.CallExpr)
		if !ok {
			return false
		}
		se, ok := ce.Fun.(*ast.SelectorExpr)
		if !ok {
			return false
		}
		id, ok := se.X.(*ast.Ident)
		if !ok {
			return false
		}
		pn, ok := p.TypesInfo.Uses[id].(*types.PkgName)
		return ok && pn.Imported().Path() == "log"
	}
	forFuncs(func(fname string, body *ast.BlockStmt) {
		accounted := map[*ast.SelectorExpr]bool{} // selector occurrences that are writes or warn-once uses
		ast.Inspect(body, func(n ast.Node) bool {
			switch x := n.(type) {
			case *ast.AssignStmt:
				if x.Tok == token.ASSIGN { // plain store: the left side is not a read
					for _, l := range x.Lhs {
						if se, ok := l.(*ast.SelectorExpr); ok && fieldOf(se) != "" {
							accounted[se] = true
						}
					}
				}
			case *ast.IfStmt:
				ue, ok := x.Cond.(*ast.UnaryExpr)
				if !ok || ue.Op != token.NOT || x.Else != nil || x.Init != nil {
					return true
				}
				cse, ok := ue.X.(*ast.SelectorExpr)
				f := ""
				if ok {
					f = fieldOf(cse)
				}
				if f == "" || !written[f] {
					return true
				}
				pure, sets := true, false
				for _, s := range x.Body.List {
					if isLogCall(s) {
						continue
					}
					as, ok := s.(*ast.AssignStmt)
					if ok && as.Tok == token.ASSIGN && len(as.Lhs) == 1 && len(as.Rhs) == 1 {
						if id, ok := as.Rhs[0].(*ast.Ident); ok && id.Name == "true" && fieldOf(as.Lhs[0]) == f {
							sets = true
							continue
						}
					}
					pure = false
				}
				if pure && sets {
					accounted[cse] = true
					t.Scan["statewarnonce"] = append(t.Scan["statewarnonce"], f+"@"+fname)
				}
			}
			return true
		})
		ast.Inspect(body, func(n ast.Node) bool {
			if se, ok := n.(*ast.SelectorExpr); ok && !accounted[se] {
				if f := fieldOf(se); f != "" && written[f] {
					t.Scan["stateread"] = append(t.Scan["stateread"], f+"@"+fname)
				}
			}
			return true
		})
	})
	for _, k := range []string{"statewrite", "statewarnonce", "stateread", "globalwrite"} {
		sort.Strings(t.Scan[k])
	}

	for k := range impSet {
		t.Import = append(t.Import, k)
	}
	sort.Strings(t.Import)
	sort.Strings(t.Files)
	need := []string{"dcChildMinOffsets", "dcEdgevmap", "dcCellProcFaceMask", "dcCellProcEdgeMask", "dcFaceProcFaceMask",
		"dcFaceProcEdgeMask", "dcEdgeProcEdgeMask", "dcProcessEdgeMask", "dcFaceProcOrders", "dcCorners", "dcFarEdges",
		"dcV2NeighbourOffsets", "dcV2TriangleOrder", "dcV1ProcessEdgeOrder"}
	for _, n := range need {
		if _, ok := t.Vals[n]; !ok {
			return nil, fmt.Errorf("dctab: table %s not found in render/dc (source restructured: the translator must be adapted)", n)
		}
	}
	// the index patterns read out of code must have the shape the model expects; a table of another
	// shape would be ill-typed Coq, so it is reported here as a translator that needs adapting
	for n, want := range map[string][]int{"dcV2NeighbourOffsets": {9, 3}, "dcV2TriangleOrder": {2, 3}, "dcV1ProcessEdgeOrder": {12}, "dcFaceProcOrders": {2, 4}} {
		if got, ok := dims(t.Vals[n]); !ok || fmt.Sprint(got) != fmt.Sprint(want) {
			return nil, fmt.Errorf("dctab: %s read from the code has shape %v, expected %v (source restructured: the translator must be adapted)", n, got, want)
		}
	}
	return t, nil
}

// dims returns the dimensions of a rectangular nested table.
func dims(v interface{}) ([]int, bool) {
	l, ok := v.([]interface{})
	if !ok {
		return nil, true
	}
	var sub []int
	for i, x := range l {
		d, ok := dims(x)
		if !ok || (i > 0 && fmt.Sprint(d) != fmt.Sprint(sub)) {
			return nil, false
		}
		sub = d
	}
	return append([]int{len(l)}, sub...), true
}

func isTriangle3(t types.Type) bool {
	if t == nil {
		return false
	}
	if pt, ok := t.(*types.Pointer); ok {
		t = pt.Elem()
	}
	nt, ok := t.(*types.Named)
	return ok && nt.Obj().Name() == "Triangle3"
}

// ---- generateTriangles: the neighbour cells of a far edge

type pev struct {
	p      *packages.Package
	tables map[string]interface{}
	env    map[types.Object]interface{}
	ks     map[string]interface{}
}

func (e *pev) obj(id *ast.Ident) types.Object {
	if o := e.p.TypesInfo.Uses[id]; o != nil {
		return o
	}
	return e.p.TypesInfo.Defs[id]
}

// eval evaluates an expression made of constants, known locals, the integer tables, indexing, the
// fields X, Y, Z of a vector and integer / boolean operators.
func (e *pev) eval(x ast.Expr) (interface{}, bool) {
	if tv, ok := e.p.TypesInfo.Types[x]; ok && tv.Value != nil {
		switch tv.Value.Kind() {
		case constant.Int:
			v, ok := constant.Int64Val(tv.Value)
			return v, ok
		case constant.Bool:
			return constant.BoolVal(tv.Value), true
		}
		return nil, false
	}
	switch y := x.(type) {
	case *ast.ParenExpr:
		return e.eval(y.X)
	case *ast.Ident:
		o := e.obj(y)
		if o == nil {
			return nil, false
		}
		if v, ok := e.env[o]; ok {
			return v, true
		}
		if vr, ok := o.(*types.Var); ok && vr.Parent() == e.p.Types.Scope() {
			v, ok := e.tables[y.Name]
			return v, ok
		}
	case *ast.CompositeLit:
		v, err := lit(y)
		return v, err == nil
	case *ast.IndexExpr:
		a, ok1 := e.eval(y.X)
		i, ok2 := e.eval(y.Index)
		l, ok3 := a.([]interface{})
		k, ok4 := i.(int64)
		if ok1 && ok2 && ok3 && ok4 && k >= 0 && int(k) < len(l) {
			return l[k], true
		}
	case *ast.SelectorExpr:
		a, ok := e.eval(y.X)
		l, isl := a.([]interface{})
		if ok && isl {
			if k := strings.Index("XYZ", y.Sel.Name); k >= 0 && len(y.Sel.Name) == 1 && k < len(l) {
				return l[k], true
			}
		}
	case *ast.CallExpr:
		if tv, ok := e.p.TypesInfo.Types[y.Fun]; ok && tv.IsType() && len(y.Args) == 1 {
			if v, ok := e.eval(y.Args[0]); ok {
				if _, isInt := v.(int64); isInt {
					return v, true
				}
			}
		}
	case *ast.UnaryExpr:
		v, ok := e.eval(y.X)
		if !ok {
			return nil, false
		}
		switch b := v.(type) {
		case bool:
			if y.Op == token.NOT {
				return !b, true
			}
		case int64:
			if y.Op == token.SUB {
				return -b, true
			}
		}
	case *ast.BinaryExpr:
		a, ok1 := e.eval(y.X)
		b, ok2 := e.eval(y.Y)
		if !ok1 || !ok2 {
			return nil, false
		}
		if p, ok := a.(bool); ok {
			q, ok := b.(bool)
			if !ok {
				return nil, false
			}
			switch y.Op {
			case token.LAND:
				return p && q, true
			case token.LOR:
				return p || q, true
			case token.EQL:
				return p == q, true
			case token.NEQ:
				return p != q, true
			}
			return nil, false
		}
		p, ok := a.(int64)
		q, ok2 := b.(int64)
		if !ok || !ok2 {
			return nil, false
		}
		switch y.Op {
		case token.EQL:
			return p == q, true
		case token.NEQ:
			return p != q, true
		case token.LSS:
			return p < q, true
		case token.LEQ:
			return p <= q, true
		case token.GTR:
			return p > q, true
		case token.GEQ:
			return p >= q, true
		case token.ADD:
			return p + q, true
		case token.SUB:
			return p - q, true
		case token.MUL:
			return p * q, true
		case token.AND:
			return p & q, true
		case token.OR:
			return p | q, true
		case token.SHL:
			if q >= 0 && q < 63 {
				return p << uint(q), true
			}
		case token.SHR:
			if q >= 0 && q < 63 {
				return p >> uint(q), true
			}
		}
	}
	return nil, false
}

// lookupOffset recognises infoI[cellIndex.Add(X)] and returns X.
func lookupOffset(x ast.Expr) (ast.Expr, bool) {
	ie, ok := x.(*ast.IndexExpr)
	if !ok {
		return nil, false
	}
	c, ok := ie.Index.(*ast.CallExpr)
	if !ok || len(c.Args) != 1 {
		return nil, false
	}
	se, ok := c.Fun.(*ast.SelectorExpr)
	if !ok || se.Sel.Name != "Add" {
		return nil, false
	}
	return c.Args[0], true
}

func isK(name string) bool { return name == "k1" || name == "k2" || name == "k3" }

func assignsK(n ast.Node) bool {
	found := false
	ast.Inspect(n, func(m ast.Node) bool {
		if as, ok := m.(*ast.AssignStmt); ok {
			for _, l := range as.Lhs {
				if id, ok := l.(*ast.Ident); ok && isK(id.Name) {
					found = true
				}
			}
		}
		return true
	})
	return found
}

func (e *pev) exec(list []ast.Stmt) error {
	for _, s := range list {
		switch x := s.(type) {
		case *ast.AssignStmt:
			if len(x.Rhs) == 1 && len(x.Lhs) >= 1 {
				if id, ok := x.Lhs[0].(*ast.Ident); ok {
					if off, isLookup := lookupOffset(x.Rhs[0]); isLookup && isK(id.Name) {
						v, ok := e.eval(off)
						if !ok {
							return fmt.Errorf("dctab: generateTriangles: the cell offset of %s cannot be evaluated (source restructured: the translator must be adapted)", id.Name)
						}
						e.ks[id.Name] = v
						continue
					}
				}
			}
			for i, l := range x.Lhs {
				id, ok := l.(*ast.Ident)
				if !ok || id.Name == "_" {
					continue
				}
				if isK(id.Name) {
					return fmt.Errorf("dctab: generateTriangles: %s is assigned something other than infoI[cellIndex.Add(offset)] (source restructured: the translator must be adapted)", id.Name)
				}
				o := e.obj(id)
				if o == nil {
					continue
				}
				delete(e.env, o)
				if len(x.Lhs) == len(x.Rhs) && (x.Tok == token.DEFINE || x.Tok == token.ASSIGN) {
					if v, ok := e.eval(x.Rhs[i]); ok {
						e.env[o] = v
					}
				}
			}
		case *ast.BlockStmt:
			if err := e.exec(x.List); err != nil {
				return err
			}
		case *ast.IfStmt:
			if x.Init == nil {
				if c, ok := e.eval(x.Cond); ok {
					if b, isb := c.(bool); isb {
						if b {
							if err := e.exec(x.Body.List); err != nil {
								return err
							}
						} else if x.Else != nil {
							if err := e.exec([]ast.Stmt{x.Else}); err != nil {
								return err
							}
						}
						continue
					}
				}
			}
			if assignsK(x) {
				return fmt.Errorf("dctab: generateTriangles: k1..k3 are assigned under a condition that does not depend on the edge number only (source restructured: the translator must be adapted)")
			}
		case *ast.ForStmt, *ast.RangeStmt, *ast.SwitchStmt:
			if assignsK(x) {
				return fmt.Errorf("dctab: generateTriangles: k1..k3 are assigned inside a nested loop or switch (source restructured: the translator must be adapted)")
			}
		}
	}
	return nil
}

// v2Neighbours evaluates, for every far edge (value of the loop variable of the edge loop of
// generateTriangles), the offsets X of the three lookups k1, k2, k3 = infoI[cellIndex.Add(X)]:
// written as literals under an if-chain on the edge number, or read from a table indexed by it.
func v2Neighbours(p *packages.Package, fd *ast.FuncDecl, tables map[string]interface{}) ([]interface{}, error) {
	bad := func(what string) ([]interface{}, error) {
		return nil, fmt.Errorf("dctab: generateTriangles: %s (source restructured: the translator must be adapted)", what)
	}
	var loop ast.Stmt
	ast.Inspect(fd.Body, func(n ast.Node) bool {
		switch x := n.(type) {
		case *ast.ForStmt:
			if assignsK(x.Body) {
				loop = x // the innermost such loop wins
			}
		case *ast.RangeStmt:
			if assignsK(x.Body) {
				loop = x
			}
		}
		return true
	})
	if loop == nil {
		return bad("no loop assigns k1, k2, k3")
	}
	far, ok := tables["dcFarEdges"].([]interface{})
	if !ok {
		return bad("dcFarEdges is missing")
	}
	out := []interface{}{}
	for ai := 0; ai < len(far); ai++ {
		e := &pev{p: p, tables: tables, env: map[types.Object]interface{}{}, ks: map[string]interface{}{}}
		var body *ast.BlockStmt
		switch x := loop.(type) {
		case *ast.ForStmt:
			init, ok := x.Init.(*ast.AssignStmt)
			if !ok || init.Tok != token.DEFINE || len(init.Lhs) != 1 {
				return bad("the edge loop has no counter")
			}
			id, ok := init.Lhs[0].(*ast.Ident)
			if !ok {
				return bad("the edge loop has no counter")
			}
			e.env[e.obj(id)] = int64(ai)
			body = x.Body
		case *ast.RangeStmt:
			id, ok := x.Key.(*ast.Ident)
			if !ok || id.Name == "_" {
				return bad("the edge loop has no index variable")
			}
			e.env[e.obj(id)] = int64(ai)
			if x.Value != nil {
				if vid, ok := x.Value.(*ast.Ident); ok && vid.Name != "_" {
					if tv, ok := e.eval(x.X); ok {
						if l, ok := tv.([]interface{}); ok && ai < len(l) {
							e.env[e.obj(vid)] = l[ai]
						}
					}
				}
			}
			body = x.Body
		}
		if err := e.exec(body.List); err != nil {
			return nil, err
		}
		for _, k := range []string{"k1", "k2", "k3"} {
			v, ok := e.ks[k]
			if !ok {
				return bad(fmt.Sprintf("%s is not assigned for edge %d", k, ai))
			}
			out = append(out, v)
		}
	}
	return out, nil
}

func recvTypeName(fd *ast.FuncDecl) string {
	if fd.Recv == nil || len(fd.Recv.List) != 1 {
		return ""
	}
	e := fd.Recv.List[0].Type
	if s, ok := e.(*ast.StarExpr); ok {
		e = s.X
	}
	if id, ok := e.(*ast.Ident); ok {
		return id.Name
	}
	return ""
}

func coqStrings(xs []string) string {
	q := make([]string, len(xs))
	for i, s := range xs {
		q[i] = "\"" + strings.ReplaceAll(s, "\"", "'") + "\""
	}
	return "[" + strings.Join(q, "; ") + "]"
}

// Gen returns the content of coq/Generated/DCTables.v for the tree at repo.
func Gen(repo string) (string, []byte, error) {
	t, err := Parse(repo)
	if err != nil {
		return "", nil, err
	}
	var b strings.Builder
	b.WriteString("(* GENERATED by harness/dctab from render/dc of the tree under analysis - do not edit. *)\n")
	b.WriteString("From Coq Require Import List ZArith String.\nImport ListNotations.\nOpen Scope Z_scope.\n\n")
	for _, n := range t.Names {
		v := t.Vals[n]
		fmt.Fprintf(&b, "Definition %s : %s :=\n  %s.\n", n, coqType(depth(v)), coqVal(v))
	}
	b.WriteString("\n(* determinism scan of the production files of render/dc *)\nOpen Scope string_scope.\n")
	fmt.Fprintf(&b, "Definition dcScanFiles : list string := %s.\n", coqStrings(t.Files))
	fmt.Fprintf(&b, "Definition dcScanImports : list string := %s.\n", coqStrings(t.Import))
	for _, k := range []string{"go", "select", "maprange", "recv", "badimport", "runtime", "statewrite", "statewarnonce", "stateread", "globalwrite"} {
		fmt.Fprintf(&b, "Definition dcScan_%s : list string := %s.\n", k, coqStrings(t.Scan[k]))
	}
	return "DCTables.v", []byte(b.String()), nil
}
