package dctab

// Second translator of property C19: the CODE of the octree traversal of DualContouringV1
//
//	(*dcOctree).contourCellProc, dcContourFaceProc, dcContourEdgeProc, dcContourProcessEdge
//
// is translated from the Go AST of the current render/dc/dc3v1.go into Gallina
// (coq/Generated/DCProc.v).  coq/Algo/DCProcEq.v proves the generated functions equal to the
// hand-written model of coq/Algo/DCModel.v (cell_proc, face_proc, edge_proc, process_edge) the
// theorems are about, so a semantic edit of one of these functions breaks a proof obligation.
//
// The Go subset (anything else is an error = broken tie, never skipped):
//
//	statements   x := e, x = e, a[i] = e (a an array), *buf = append(*buf, e), calls of the four
//	             functions (buffer passed on), if / else, for i := lo; i < hi; i++ with i not
//	             assigned in the body, `if c { ...; return }` at the top level of a function
//	expressions  constants (folded by go/types), locals, the integer tables of Generated/DCTables.v,
//	             nil and comparison with nil, field paths from a *dcOctree (kind, size, children,
//	             drawInfo.corners, drawInfo.index), a[i], a[lo:hi], array literals, == != < <= > >=
//	             && || ! + - * / % << >> & | ^ on ints and bools
//
// Meaning (coq/Algo/DCProcLib.v): ints are Z (no overflow), arrays and slices are lists, a pointer to
// dcOctree is an abstract handle with one accessor per field path, the index buffer is a list that is
// threaded through; a mutable variable becomes a let-bound name, a block that assigns outer variables
// returns their tuple, a counted loop is a fold over its index range.  Not modelled: panics (nil
// dereference, index out of range: both sides of && and || are evaluated); recursion is bounded by a
// fuel argument (the statement proved is about sufficient fuel).

import (
	"fmt"
	"go/ast"
	"go/constant"
	"go/token"
	"go/types"
	"os"
	"sort"
	"strings"

	"golang.org/x/tools/go/packages"
)

var procFuncs = []string{"dcContourProcessEdge", "dcContourEdgeProc", "dcContourFaceProc", "contourCellProc"}

const nodeStruct = "dcOctree"

type procGen struct {
	p      *packages.Package
	info   *types.Info
	decls  map[string]*ast.FuncDecl
	fuel   map[string]bool
	fields map[string]string // accessor name -> Coq type
	forder []string
	tables map[string]bool // names defined in DCTables.v
	// per function
	cur    string
	bufObj types.Object
	wstack []map[string]bool
}

func (g *procGen) errf(n ast.Node, format string, a ...interface{}) error {
	ps := g.p.Fset.Position(n.Pos())
	return fmt.Errorf("dctab/proc: %s:%d (%s): %s - the translator of the V1 traversal does not cover this source; adapt harness/dctab/proc.go",
		ps.Filename, ps.Line, g.cur, fmt.Sprintf(format, a...))
}

var coqReserved = map[string]bool{"as": true, "at": true, "cofix": true, "else": true, "end": true, "exists": true, "exists2": true,
	"fix": true, "for": true, "forall": true, "fun": true, "if": true, "IF": true, "in": true, "let": true, "match": true, "mod": true,
	"Prop": true, "return": true, "Set": true, "then": true, "Type": true, "using": true, "where": true, "with": true,
	"buf": true, "fuel": true, "ptr": true, "pnil": true, "is_nil": true, "gnth": true, "gupd": true, "gslice": true, "gfor": true,
	"nil": true, "cons": true, "list": true, "nat": true, "Z": true, "bool": true, "true": true, "false": true, "S": true, "O": true,
	"negb": true, "st_": true, "andb": true, "orb": true, "app": true, "tt": true, "unit": true, "fst": true, "snd": true}

func mangle(n string) string {
	if coqReserved[n] || strings.HasPrefix(n, "fld_") || strings.HasPrefix(n, "gen_") || strings.HasPrefix(n, "dc") {
		return n + "_"
	}
	return n
}

func isNodePtr(t types.Type) bool {
	pt, ok := t.(*types.Pointer)
	if !ok {
		return false
	}
	nt, ok := pt.Elem().(*types.Named)
	return ok && nt.Obj().Name() == nodeStruct
}

func isInt(t types.Type) bool {
	b, ok := t.Underlying().(*types.Basic)
	return ok && b.Info()&types.IsInteger != 0
}

func isBool(t types.Type) bool {
	b, ok := t.Underlying().(*types.Basic)
	return ok && b.Info()&types.IsBoolean != 0
}

// coqTypeOf maps a Go type of the subset to its Coq type.
func (g *procGen) coqTypeOf(t types.Type) (string, bool) {
	switch {
	case isInt(t):
		return "Z", true
	case isBool(t):
		return "bool", true
	case isNodePtr(t):
		return "ptr", true
	}
	switch u := t.Underlying().(type) {
	case *types.Array:
		if e, ok := g.coqTypeOf(u.Elem()); ok {
			return "list (" + e + ")", true
		}
	case *types.Slice:
		if e, ok := g.coqTypeOf(u.Elem()); ok {
			return "list (" + e + ")", true
		}
	}
	return "", false
}

// zero is the zero value of a Go type of the subset.
func (g *procGen) zero(t types.Type) (string, bool) {
	switch {
	case isInt(t):
		return "0", true
	case isBool(t):
		return "false", true
	case isNodePtr(t):
		return "pnil", true
	}
	switch u := t.Underlying().(type) {
	case *types.Array:
		z, ok := g.zero(u.Elem())
		if !ok {
			return "", false
		}
		xs := make([]string, u.Len())
		for i := range xs {
			xs[i] = z
		}
		return "[" + strings.Join(xs, "; ") + "]", true
	case *types.Slice:
		return "[]", true
	}
	return "", false
}

func constStr(v constant.Value) (string, bool) {
	switch v.Kind() {
	case constant.Int:
		s := v.ExactString()
		if strings.HasPrefix(s, "-") {
			return "(" + s + ")", true
		}
		return s, true
	case constant.Bool:
		if constant.BoolVal(v) {
			return "true", true
		}
		return "false", true
	}
	return "", false
}

func (g *procGen) expr(e ast.Expr) (string, error) {
	tv, ok := g.info.Types[e]
	if ok && tv.Value != nil {
		if s, ok := constStr(tv.Value); ok {
			return s, nil
		}
		return "", g.errf(e, "constant of unsupported kind")
	}
	switch x := e.(type) {
	case *ast.ParenExpr:
		return g.expr(x.X)
	case *ast.Ident:
		if ok && tv.IsNil() {
			return "pnil", nil
		}
		obj := g.info.Uses[x]
		if obj == nil {
			obj = g.info.Defs[x]
		}
		v, isVar := obj.(*types.Var)
		if !isVar {
			return "", g.errf(e, "identifier %s is not a variable", x.Name)
		}
		if v.Parent() == g.p.Types.Scope() {
			if !g.tables[x.Name] {
				return "", g.errf(e, "package-level variable %s is not an integer table of DCTables.v", x.Name)
			}
			return x.Name, nil
		}
		if obj == g.bufObj {
			return "", g.errf(e, "the index buffer is used other than by append or as a call argument")
		}
		if _, ok := g.coqTypeOf(v.Type()); !ok {
			return "", g.errf(e, "variable %s has unsupported type %s", x.Name, v.Type())
		}
		return mangle(x.Name), nil
	case *ast.SelectorExpr:
		// field path from a *dcOctree
		path := []string{}
		var base ast.Expr = x
		for {
			se, ok := base.(*ast.SelectorExpr)
			if !ok {
				return "", g.errf(e, "selector does not start at a *%s", nodeStruct)
			}
			sel, ok := g.info.Selections[se]
			if !ok || sel.Kind() != types.FieldVal {
				return "", g.errf(e, "selector %s is not a field", se.Sel.Name)
			}
			path = append([]string{se.Sel.Name}, path...)
			base = se.X
			if isNodePtr(g.info.TypeOf(base)) {
				break
			}
		}
		ct, ok := g.coqTypeOf(g.info.TypeOf(e))
		if !ok {
			return "", g.errf(e, "field %s has unsupported type %s", strings.Join(path, "."), g.info.TypeOf(e))
		}
		name := "fld_" + strings.Join(path, "_")
		if old, dup := g.fields[name]; dup && old != ct {
			return "", g.errf(e, "field %s used at two types", name)
		}
		if _, dup := g.fields[name]; !dup {
			g.fields[name] = ct
			g.forder = append(g.forder, name)
		}
		b, err := g.expr(base)
		if err != nil {
			return "", err
		}
		return "(" + name + " " + b + ")", nil
	case *ast.IndexExpr:
		xt := g.info.TypeOf(x.X)
		var et types.Type
		switch u := xt.Underlying().(type) {
		case *types.Array:
			et = u.Elem()
		case *types.Slice:
			et = u.Elem()
		default:
			return "", g.errf(e, "index into %s", xt)
		}
		z, ok := g.zero(et)
		if !ok {
			return "", g.errf(e, "element type %s unsupported", et)
		}
		a, err := g.expr(x.X)
		if err != nil {
			return "", err
		}
		i, err := g.expr(x.Index)
		if err != nil {
			return "", err
		}
		return "(gnth " + z + " " + a + " " + i + ")", nil
	case *ast.SliceExpr:
		if x.Slice3 || x.High == nil {
			return "", g.errf(e, "slice expression without upper bound or with capacity")
		}
		a, err := g.expr(x.X)
		if err != nil {
			return "", err
		}
		lo := "0"
		if x.Low != nil {
			if lo, err = g.expr(x.Low); err != nil {
				return "", err
			}
		}
		hi, err := g.expr(x.High)
		if err != nil {
			return "", err
		}
		return "(gslice " + a + " " + lo + " " + hi + ")", nil
	case *ast.CompositeLit:
		t := g.info.TypeOf(e)
		var n int64 = -1
		switch u := t.Underlying().(type) {
		case *types.Array:
			n = u.Len()
		case *types.Slice:
		default:
			return "", g.errf(e, "composite literal of type %s", t)
		}
		if _, ok := g.coqTypeOf(t); !ok {
			return "", g.errf(e, "composite literal of unsupported type %s", t)
		}
		if len(x.Elts) == 0 {
			z, _ := g.zero(t)
			return z, nil
		}
		if n >= 0 && int64(len(x.Elts)) != n {
			return "", g.errf(e, "array literal with %d of %d elements", len(x.Elts), n)
		}
		xs := []string{}
		for _, el := range x.Elts {
			if _, keyed := el.(*ast.KeyValueExpr); keyed {
				return "", g.errf(e, "keyed array literal")
			}
			s, err := g.expr(el)
			if err != nil {
				return "", err
			}
			xs = append(xs, s)
		}
		return "[" + strings.Join(xs, "; ") + "]", nil
	case *ast.UnaryExpr:
		a, err := g.expr(x.X)
		if err != nil {
			return "", err
		}
		switch {
		case x.Op == token.NOT && isBool(g.info.TypeOf(x.X)):
			return "(negb " + a + ")", nil
		case x.Op == token.SUB && isInt(g.info.TypeOf(x.X)):
			return "(Z.opp " + a + ")", nil
		}
		return "", g.errf(e, "unary operator %s", x.Op)
	case *ast.BinaryExpr:
		lt, rt := g.info.Types[x.X], g.info.Types[x.Y]
		if x.Op == token.EQL || x.Op == token.NEQ {
			var s string
			switch {
			case rt.IsNil() && isNodePtr(lt.Type), lt.IsNil() && isNodePtr(rt.Type):
				o := x.X
				if lt.IsNil() {
					o = x.Y
				}
				a, err := g.expr(o)
				if err != nil {
					return "", err
				}
				s = "(is_nil " + a + ")"
			case isInt(lt.Type) && isInt(rt.Type), isBool(lt.Type) && isBool(rt.Type):
				a, err := g.expr(x.X)
				if err != nil {
					return "", err
				}
				b, err := g.expr(x.Y)
				if err != nil {
					return "", err
				}
				if isInt(lt.Type) {
					s = "(Z.eqb " + a + " " + b + ")"
				} else {
					s = "(Bool.eqb " + a + " " + b + ")"
				}
			default:
				return "", g.errf(e, "comparison of %s and %s", lt.Type, rt.Type)
			}
			if x.Op == token.NEQ {
				s = "(negb " + s + ")"
			}
			return s, nil
		}
		a, err := g.expr(x.X)
		if err != nil {
			return "", err
		}
		b, err := g.expr(x.Y)
		if err != nil {
			return "", err
		}
		if isBool(lt.Type) && isBool(rt.Type) {
			switch x.Op {
			case token.LAND:
				return "(andb " + a + " " + b + ")", nil
			case token.LOR:
				return "(orb " + a + " " + b + ")", nil
			}
		}
		if isInt(lt.Type) && isInt(rt.Type) {
			ops := map[token.Token]string{token.LSS: "Z.ltb", token.LEQ: "Z.leb", token.GTR: "Z.gtb", token.GEQ: "Z.geb",
				token.ADD: "Z.add", token.SUB: "Z.sub", token.MUL: "Z.mul", token.QUO: "Z.quot", token.REM: "Z.rem",
				token.SHL: "Z.shiftl", token.SHR: "Z.shiftr", token.AND: "Z.land", token.OR: "Z.lor", token.XOR: "Z.lxor"}
			if f, ok := ops[x.Op]; ok {
				return "(" + f + " " + a + " " + b + ")", nil
			}
		}
		return "", g.errf(e, "binary operator %s on %s, %s", x.Op, lt.Type, rt.Type)
	case *ast.CallExpr:
		// conversion between integer types
		if ftv, ok := g.info.Types[x.Fun]; ok && ftv.IsType() && len(x.Args) == 1 && isInt(ftv.Type) && isInt(g.info.TypeOf(x.Args[0])) {
			return g.expr(x.Args[0])
		}
		return "", g.errf(e, "call in an expression")
	}
	return "", g.errf(e, "expression %T", e)
}

// ---- statements

// effects of a statement list: the outer variables it assigns and whether it touches the buffer
type effects struct {
	vars map[types.Object]bool
	buf  bool
}

func (g *procGen) lhsObj(e ast.Expr) (types.Object, error) {
	switch x := e.(type) {
	case *ast.Ident:
		if o := g.info.Uses[x]; o != nil {
			return o, nil
		}
		if o := g.info.Defs[x]; o != nil {
			return o, nil
		}
	case *ast.IndexExpr:
		if id, ok := x.X.(*ast.Ident); ok {
			if _, isArr := g.info.TypeOf(x.X).Underlying().(*types.Array); !isArr {
				return nil, g.errf(e, "element assignment through a slice (aliasing is not modelled)")
			}
			return g.lhsObj(id)
		}
	case *ast.ParenExpr:
		return g.lhsObj(x.X)
	}
	return nil, g.errf(e, "assignment target %T", e)
}

// isBufAppend recognises *buf = append(*buf, e) and returns e.
func (g *procGen) isBufAppend(s *ast.AssignStmt) (ast.Expr, bool) {
	if s.Tok != token.ASSIGN || len(s.Lhs) != 1 || len(s.Rhs) != 1 {
		return nil, false
	}
	isDeref := func(e ast.Expr) bool {
		st, ok := e.(*ast.StarExpr)
		if !ok {
			return false
		}
		id, ok := st.X.(*ast.Ident)
		return ok && g.info.Uses[id] == g.bufObj
	}
	if !isDeref(s.Lhs[0]) {
		return nil, false
	}
	call, ok := s.Rhs[0].(*ast.CallExpr)
	if !ok || len(call.Args) != 2 || call.Ellipsis != token.NoPos {
		return nil, false
	}
	if id, ok := call.Fun.(*ast.Ident); !ok || id.Name != "append" || g.info.Uses[id] != types.Universe.Lookup("append") {
		return nil, false
	}
	if !isDeref(call.Args[0]) {
		return nil, false
	}
	return call.Args[1], true
}

// callee returns the name of the translated function a call statement calls, its non-buffer arguments.
func (g *procGen) callee(c *ast.CallExpr) (string, []ast.Expr, error) {
	var name string
	var args []ast.Expr
	switch f := c.Fun.(type) {
	case *ast.Ident:
		name = f.Name
	case *ast.SelectorExpr:
		sel, ok := g.info.Selections[f]
		if !ok || sel.Kind() != types.MethodVal || !isNodePtr(g.info.TypeOf(f.X)) {
			return "", nil, g.errf(c, "call of %s", f.Sel.Name)
		}
		name = f.Sel.Name
		args = append(args, f.X)
	default:
		return "", nil, g.errf(c, "call of %T", c.Fun)
	}
	if _, ok := g.decls[name]; !ok {
		return "", nil, g.errf(c, "call of %s, which is not one of the translated functions", name)
	}
	if len(c.Args) == 0 {
		return "", nil, g.errf(c, "call without the index buffer")
	}
	last, ok := c.Args[len(c.Args)-1].(*ast.Ident)
	if !ok || g.info.Uses[last] != g.bufObj {
		return "", nil, g.errf(c, "the last argument is not the index buffer")
	}
	args = append(args, c.Args[:len(c.Args)-1]...)
	return name, args, nil
}

func (g *procGen) collect(list []ast.Stmt, ef *effects) error {
	for _, s := range list {
		switch x := s.(type) {
		case *ast.AssignStmt:
			if _, ok := g.isBufAppend(x); ok {
				ef.buf = true
				continue
			}
			for _, l := range x.Lhs {
				o, err := g.lhsObj(l)
				if err != nil {
					return err
				}
				ef.vars[o] = true
			}
		case *ast.IncDecStmt:
			o, err := g.lhsObj(x.X)
			if err != nil {
				return err
			}
			ef.vars[o] = true
		case *ast.ExprStmt:
			ef.buf = true
		case *ast.DeclStmt:
		case *ast.BlockStmt:
			if err := g.collect(x.List, ef); err != nil {
				return err
			}
		case *ast.IfStmt:
			if x.Init != nil {
				return g.errf(s, "if with an init statement")
			}
			if err := g.collect(x.Body.List, ef); err != nil {
				return err
			}
			if x.Else != nil {
				if err := g.collect([]ast.Stmt{x.Else}, ef); err != nil {
					return err
				}
			}
		case *ast.ForStmt:
			if err := g.collect(x.Body.List, ef); err != nil {
				return err
			}
		case *ast.ReturnStmt:
		default:
			return g.errf(s, "statement %T", s)
		}
	}
	return nil
}

// outer returns, in declaration order, the names of the variables assigned in list that are declared
// outside [lo, hi), with "buf" last when the buffer is touched.
func (g *procGen) outer(list []ast.Stmt, lo, hi token.Pos) ([]string, error) {
	ef := &effects{vars: map[types.Object]bool{}}
	if err := g.collect(list, ef); err != nil {
		return nil, err
	}
	objs := []types.Object{}
	for o := range ef.vars {
		if o.Pos() >= lo && o.Pos() < hi {
			continue
		}
		v, ok := o.(*types.Var)
		if !ok || v.Parent() == g.p.Types.Scope() || v.IsField() {
			return nil, fmt.Errorf("dctab/proc: %s assigns %s, which is not a local variable", g.cur, o.Name())
		}
		objs = append(objs, o)
	}
	sort.Slice(objs, func(i, j int) bool { return objs[i].Pos() < objs[j].Pos() })
	names := []string{}
	for _, o := range objs {
		names = append(names, mangle(o.Name()))
	}
	if ef.buf {
		names = append(names, "buf")
	}
	return names, nil
}

func tuple(names []string) string {
	switch len(names) {
	case 0:
		return "tt"
	case 1:
		return names[0]
	}
	return "(" + strings.Join(names, ", ") + ")"
}

func pattern(names []string) string {
	switch len(names) {
	case 0:
		return "_"
	case 1:
		return names[0]
	}
	return "'(" + strings.Join(names, ", ") + ")"
}

func (g *procGen) declared(name string, n ast.Node) error {
	for _, w := range g.wstack {
		if w[name] {
			return g.errf(n, "%s is declared in a block that also assigns an outer variable of that name", name)
		}
	}
	return nil
}

// block translates a statement list into an expression whose value is ret.
func (g *procGen) block(list []ast.Stmt, ret string, top bool, ind string) (string, error) {
	if len(list) == 0 {
		return ind + ret, nil
	}
	s, rest := list[0], list[1:]
	cont := func(line string) (string, error) {
		r, err := g.block(rest, ret, top, ind)
		if err != nil {
			return "", err
		}
		return ind + line + "\n" + r, nil
	}
	switch x := s.(type) {
	case *ast.ReturnStmt:
		if top && len(rest) == 0 && len(x.Results) == 0 {
			return ind + ret, nil
		}
		return "", g.errf(s, "return inside a block")
	case *ast.DeclStmt:
		gd, ok := x.Decl.(*ast.GenDecl)
		if !ok || gd.Tok != token.VAR {
			return "", g.errf(s, "declaration")
		}
		lines := []string{}
		for _, sp := range gd.Specs {
			vs := sp.(*ast.ValueSpec)
			for i, n := range vs.Names {
				if err := g.declared(mangle(n.Name), s); err != nil {
					return "", err
				}
				var v string
				var err error
				if i < len(vs.Values) {
					v, err = g.expr(vs.Values[i])
				} else {
					var ok bool
					if v, ok = g.zero(g.info.Defs[n].Type()); !ok {
						err = g.errf(s, "variable of unsupported type")
					}
				}
				if err != nil {
					return "", err
				}
				lines = append(lines, "let "+mangle(n.Name)+" := "+v+" in")
			}
		}
		return cont(strings.Join(lines, "\n"+ind))
	case *ast.AssignStmt:
		if e, ok := g.isBufAppend(x); ok {
			v, err := g.expr(e)
			if err != nil {
				return "", err
			}
			return cont("let buf := buf ++ [" + v + "] in")
		}
		if len(x.Lhs) != 1 || len(x.Rhs) != 1 {
			return "", g.errf(s, "parallel assignment")
		}
		v, err := g.expr(x.Rhs[0])
		if err != nil {
			return "", err
		}
		switch x.Tok {
		case token.DEFINE, token.ASSIGN:
		default:
			return "", g.errf(s, "assignment operator %s", x.Tok)
		}
		switch l := x.Lhs[0].(type) {
		case *ast.Ident:
			if l.Name == "_" {
				return "", g.errf(s, "blank assignment")
			}
			if x.Tok == token.DEFINE {
				if g.info.Defs[l] == nil {
					return "", g.errf(s, ":= that redeclares nothing")
				}
				if err := g.declared(mangle(l.Name), s); err != nil {
					return "", err
				}
				if _, ok := g.coqTypeOf(g.info.Defs[l].Type()); !ok {
					return "", g.errf(s, "variable %s of unsupported type %s", l.Name, g.info.Defs[l].Type())
				}
			} else if g.info.Uses[l] == g.bufObj {
				return "", g.errf(s, "assignment to the buffer pointer")
			}
			return cont("let " + mangle(l.Name) + " := " + v + " in")
		case *ast.IndexExpr:
			if x.Tok != token.ASSIGN {
				return "", g.errf(s, "element definition")
			}
			if _, err := g.lhsObj(l); err != nil {
				return "", err
			}
			a := mangle(l.X.(*ast.Ident).Name)
			i, err := g.expr(l.Index)
			if err != nil {
				return "", err
			}
			return cont("let " + a + " := gupd " + a + " " + i + " " + v + " in")
		}
		return "", g.errf(s, "assignment target")
	case *ast.ExprStmt:
		c, ok := x.X.(*ast.CallExpr)
		if !ok {
			return "", g.errf(s, "expression statement")
		}
		name, args, err := g.callee(c)
		if err != nil {
			return "", err
		}
		call := "gen_" + name
		if g.fuel[name] {
			call += " fuel'"
		}
		for _, a := range args {
			v, err := g.expr(a)
			if err != nil {
				return "", err
			}
			call += " " + v
		}
		return cont("let buf := " + call + " buf in")
	case *ast.BlockStmt:
		w, err := g.outer(x.List, x.Pos(), x.End())
		if err != nil {
			return "", err
		}
		b, err := g.nested(x.List, w, ind+"  ")
		if err != nil {
			return "", err
		}
		return cont("let " + pattern(w) + " :=\n" + b + " in")
	case *ast.IfStmt:
		if x.Init != nil {
			return "", g.errf(s, "if with an init statement")
		}
		c, err := g.expr(x.Cond)
		if err != nil {
			return "", err
		}
		// `if c { return }` at the top level of the function
		// `if c { ...; return }` at the top level of the function: the rest is the else branch
		if n := len(x.Body.List); top && x.Else == nil && n >= 1 {
			if r, ok := x.Body.List[n-1].(*ast.ReturnStmt); ok && len(r.Results) == 0 {
				b, err := g.block(rest, ret, top, ind)
				if err != nil {
					return "", err
				}
				if n == 1 {
					return ind + "if " + c + " then " + ret + " else\n" + b, nil
				}
				a, err := g.block(x.Body.List[:n-1], ret, false, ind+"  ")
				if err != nil {
					return "", err
				}
				return ind + "if " + c + " then\n" + a + "\n" + ind + "else\n" + b, nil
			}
		}
		all := append([]ast.Stmt{}, x.Body.List...)
		var els []ast.Stmt
		if x.Else != nil {
			switch e := x.Else.(type) {
			case *ast.BlockStmt:
				els = e.List
			default:
				els = []ast.Stmt{e}
			}
			all = append(all, els...)
		}
		w, err := g.outer(all, x.Body.Pos(), x.End())
		if err != nil {
			return "", err
		}
		a, err := g.nested(x.Body.List, w, ind+"    ")
		if err != nil {
			return "", err
		}
		b, err := g.nested(els, w, ind+"    ")
		if err != nil {
			return "", err
		}
		return cont("let " + pattern(w) + " :=\n" + ind + "  if " + c + " then\n" + a + "\n" + ind + "  else\n" + b + " in")
	case *ast.ForStmt:
		// for i := lo; i < hi; i++
		init, ok := x.Init.(*ast.AssignStmt)
		if !ok || init.Tok != token.DEFINE || len(init.Lhs) != 1 || len(init.Rhs) != 1 {
			return "", g.errf(s, "loop without `i := lo`")
		}
		iv, ok := init.Lhs[0].(*ast.Ident)
		if !ok {
			return "", g.errf(s, "loop variable")
		}
		iobj := g.info.Defs[iv]
		cond, ok := x.Cond.(*ast.BinaryExpr)
		if !ok || cond.Op != token.LSS {
			return "", g.errf(s, "loop condition is not `i < hi`")
		}
		if ci, ok := cond.X.(*ast.Ident); !ok || g.info.Uses[ci] != iobj {
			return "", g.errf(s, "loop condition is not `i < hi`")
		}
		post, ok := x.Post.(*ast.IncDecStmt)
		if !ok || post.Tok != token.INC {
			return "", g.errf(s, "loop step is not `i++`")
		}
		if pi, ok := post.X.(*ast.Ident); !ok || g.info.Uses[pi] != iobj {
			return "", g.errf(s, "loop step is not `i++`")
		}
		ef := &effects{vars: map[types.Object]bool{}}
		if err := g.collect(x.Body.List, ef); err != nil {
			return "", err
		}
		if ef.vars[iobj] {
			return "", g.errf(s, "the loop variable is assigned in the body")
		}
		// the bound must not depend on what the body assigns
		bad := false
		ast.Inspect(cond.Y, func(n ast.Node) bool {
			if id, ok := n.(*ast.Ident); ok && ef.vars[g.info.Uses[id]] {
				bad = true
			}
			return true
		})
		if bad {
			return "", g.errf(s, "the loop bound is assigned in the body")
		}
		lo, err := g.expr(init.Rhs[0])
		if err != nil {
			return "", err
		}
		hi, err := g.expr(cond.Y)
		if err != nil {
			return "", err
		}
		w, err := g.outer(x.Body.List, x.Body.Pos(), x.Body.End())
		if err != nil {
			return "", err
		}
		if err := g.declared(mangle(iv.Name), s); err != nil {
			return "", err
		}
		b, err := g.nested(x.Body.List, w, ind+"    ")
		if err != nil {
			return "", err
		}
		// the state is destructured inside the body, so that the body applied to a concrete index is a beta redex
		head := "(fun " + pattern(w) + " " + mangle(iv.Name) + " =>\n"
		if len(w) > 1 {
			head = "(fun st_ " + mangle(iv.Name) + " => let " + pattern(w) + " := st_ in\n"
		}
		return cont("let " + pattern(w) + " :=\n" + ind + "  gfor " + lo + " " + hi + " " + head + b + ") " + tuple(w) + " in")
	}
	return "", g.errf(s, "statement %T", s)
}

func (g *procGen) nested(list []ast.Stmt, w []string, ind string) (string, error) {
	m := map[string]bool{}
	for _, n := range w {
		m[n] = true
	}
	g.wstack = append(g.wstack, m)
	defer func() { g.wstack = g.wstack[:len(g.wstack)-1] }()
	return g.block(list, tuple(w), false, ind)
}

// calls lists the translated functions fd calls.
func (g *procGen) calls(fd *ast.FuncDecl) map[string]bool {
	out := map[string]bool{}
	ast.Inspect(fd.Body, func(n ast.Node) bool {
		if c, ok := n.(*ast.CallExpr); ok {
			switch f := c.Fun.(type) {
			case *ast.Ident:
				if _, ok := g.decls[f.Name]; ok {
					out[f.Name] = true
				}
			case *ast.SelectorExpr:
				if _, ok := g.decls[f.Sel.Name]; ok {
					out[f.Sel.Name] = true
				}
			}
		}
		return true
	})
	return out
}

func (g *procGen) function(name string) (string, error) {
	fd := g.decls[name]
	g.cur = name
	g.bufObj = nil
	g.wstack = nil
	params := []string{}
	if g.fuel[name] {
		params = append(params, "(fuel : nat)")
	}
	add := func(fl *ast.FieldList) error {
		if fl == nil {
			return nil
		}
		for _, f := range fl.List {
			for _, n := range f.Names {
				obj := g.info.Defs[n]
				if pt, ok := obj.Type().(*types.Pointer); ok {
					if sl, ok := pt.Elem().(*types.Slice); ok && isInt(sl.Elem()) {
						if g.bufObj != nil {
							return g.errf(fd, "two buffer parameters")
						}
						g.bufObj = obj
						continue
					}
				}
				ct, ok := g.coqTypeOf(obj.Type())
				if !ok {
					return g.errf(fd, "parameter %s of unsupported type %s", n.Name, obj.Type())
				}
				params = append(params, "("+mangle(n.Name)+" : "+ct+")")
			}
		}
		return nil
	}
	if err := add(fd.Recv); err != nil {
		return "", err
	}
	if err := add(fd.Type.Params); err != nil {
		return "", err
	}
	if g.bufObj == nil {
		return "", g.errf(fd, "no *[]int buffer parameter")
	}
	if fd.Type.Results != nil && len(fd.Type.Results.List) > 0 {
		return "", g.errf(fd, "function with results")
	}
	params = append(params, "(buf : list Z)")
	body, err := g.block(fd.Body.List, "buf", true, "      ")
	if err != nil {
		return "", err
	}
	if g.fuel[name] {
		return "  Fixpoint gen_" + name + " " + strings.Join(params, " ") + " {struct fuel} : list Z :=\n" +
			"    match fuel with\n    | O => buf\n    | S fuel' =>\n" + body + "\n    end.\n", nil
	}
	return "  Definition gen_" + name + " " + strings.Join(params, " ") + " : list Z :=\n" + body + ".\n", nil
}

// GenProc returns the content of coq/Generated/DCProc.v for the tree at repo.
func GenProc(repo string) (string, []byte, error) {
	t, err := Parse(repo)
	if err != nil {
		return "", nil, err
	}
	cfg := &packages.Config{Mode: packages.NeedName | packages.NeedFiles | packages.NeedCompiledGoFiles | packages.NeedSyntax |
		packages.NeedTypes | packages.NeedTypesInfo | packages.NeedImports | packages.NeedDeps, Dir: repo, Env: os.Environ()}
	pkgs, err := packages.Load(cfg, "./render/dc")
	if err != nil || len(pkgs) != 1 || len(pkgs[0].Errors) > 0 {
		return "", nil, fmt.Errorf("dctab/proc: cannot load render/dc: %v", err)
	}
	p := pkgs[0]
	g := &procGen{p: p, info: p.TypesInfo, decls: map[string]*ast.FuncDecl{}, fuel: map[string]bool{}, fields: map[string]string{}, tables: map[string]bool{}}
	for _, n := range t.Names {
		g.tables[n] = true
	}
	for _, f := range p.Syntax {
		for _, d := range f.Decls {
			if fd, ok := d.(*ast.FuncDecl); ok && fd.Body != nil {
				for _, n := range procFuncs {
					if fd.Name.Name == n {
						if _, dup := g.decls[n]; dup {
							return "", nil, fmt.Errorf("dctab/proc: two functions named %s", n)
						}
						g.decls[n] = fd
					}
				}
			}
		}
	}
	for _, n := range procFuncs {
		if _, ok := g.decls[n]; !ok {
			return "", nil, fmt.Errorf("dctab/proc: function %s not found in render/dc (source restructured: the translator must be adapted)", n)
		}
	}
	// call graph: emission order (callees first), fuel for everything that reaches a cycle
	cg := map[string]map[string]bool{}
	for n, fd := range g.decls {
		cg[n] = g.calls(fd)
	}
	reach := func(from string) map[string]bool {
		seen := map[string]bool{}
		var dfs func(string)
		dfs = func(n string) {
			for m := range cg[n] {
				if !seen[m] {
					seen[m] = true
					dfs(m)
				}
			}
		}
		dfs(from)
		return seen
	}
	rec := map[string]bool{}
	for n := range g.decls {
		if reach(n)[n] {
			rec[n] = true
		}
	}
	for n := range g.decls {
		if rec[n] {
			g.fuel[n] = true
		}
		for m := range reach(n) {
			if rec[m] {
				g.fuel[n] = true
			}
			if m != n && reach(m)[n] {
				return "", nil, fmt.Errorf("dctab/proc: %s and %s are mutually recursive (unsupported)", n, m)
			}
		}
	}
	order := []string{}
	done := map[string]bool{}
	var visit func(string)
	visit = func(n string) {
		if done[n] {
			return
		}
		done[n] = true
		cs := []string{}
		for m := range cg[n] {
			cs = append(cs, m)
		}
		sort.Strings(cs)
		for _, m := range cs {
			if m != n {
				visit(m)
			}
		}
		order = append(order, n)
	}
	for _, n := range procFuncs {
		visit(n)
	}
	defs := []string{}
	for _, n := range order {
		d, err := g.function(n)
		if err != nil {
			return "", nil, err
		}
		defs = append(defs, d)
	}
	var b strings.Builder
	b.WriteString("(* GENERATED by harness/dctab (proc.go) from render/dc/dc3v1.go of the tree under analysis - do not edit.\n")
	b.WriteString("   The octree traversal of DualContouringV1, statement by statement; meaning of gnth/gupd/gslice/gfor: Algo/DCProcLib.v. *)\n")
	b.WriteString("From Coq Require Import List ZArith Bool.\nFrom Sdfx Require Import Generated.DCTables.\nFrom Sdfx Require Import Algo.DCProcLib.\nImport ListNotations.\nOpen Scope Z_scope.\n\n")
	b.WriteString("(* a *dcOctree, the nil pointer, `== nil`, and one accessor per field path the code reads *)\n")
	b.WriteString("Record dcOps := {\n  o_ptr : Type;\n  o_pnil : o_ptr;\n  o_is_nil : o_ptr -> bool")
	for _, f := range g.forder {
		fmt.Fprintf(&b, ";\n  o_%s : o_ptr -> %s", f, strings.ReplaceAll(g.fields[f], "ptr", "o_ptr"))
	}
	b.WriteString(" }.\n\nSection DCProc.\n  Variable ops : dcOps.\n")
	b.WriteString("  Local Notation ptr := (o_ptr ops).\n  Local Notation pnil := (o_pnil ops).\n  Local Notation is_nil := (o_is_nil ops).\n")
	for _, f := range g.forder {
		fmt.Fprintf(&b, "  Local Notation %s := (o_%s ops).\n", f, f)
	}
	b.WriteString("\n")
	b.WriteString(strings.Join(defs, "\n"))
	b.WriteString("End DCProc.\n")
	return "DCProc.v", []byte(b.String()), nil
}
