// Package sdfgen translates the distance-function code of package sdf (sdf2.go, sdf3.go, utils.go, the box
// algebra of box2.go / box3.go, M33/M44.MulBox, mesh2.go's per-segment functions, cams/flange/rack) and the
// vector methods of vec/v2, vec/v3 (+ p2, v2i, v3i, conv) from the Go AST of the CURRENT source tree into
// Gallina over the Ops record (coq/Generated/SdfExpr.v).  Every non-test .go file of each package directory is
// read (build constraints evaluated with the tag `verif`): a declaration may live in, or move to, any file.
// coq/Sdf/GenEq.v proves each generated definition equal to the hand-written model function
// for all arguments, so an edit that changes what one of these Go functions computes breaks
// a named proof obligation (Props/TRANSL.v) and not only a sampled comparison.
//
// Statement language: `x := e`, `x = e`, `x op= e`, `x++`, `a, b = e1, e2`, `a, b := f(..)` (several results),
// `var x T`, `var x T = e`, `var x = e`, function-local `const k = e` (the value stands for the name),
// if/else blocks that only assign outer variables (-> `let x := if c then .. else ..`),
// `if c { return e }` chains, `switch {case c: ..}` / `switch x {case a, b: ..}` / `switch init; tag {..}`
// (= if/else-if chains; a tag that is not a variable is evaluated once into a temporary),
// `return e`, `return e1, e2`, named results, `return func(..) .. {..}` (closures), the trailing bare
// `return` of a procedure.
// Loops (coq/Num/Loop.v): `for _, x := range xs {..}`, `for i := range xs`, `for i, x := range xs` and
// `for i := 0; i < len(xs); i++` (also through `n := len(xs)`) -> range_loop over xs (one normal form: the body may
// use the index, the element or xs[i]), `for i := a; i < n; i++` (`n > i`, `i += 1`) and `for i := range n`
// -> count_loop, nested, with `continue` (also `if c {..; continue}`)
// at the top level of the body; the loop state is the tuple of the variables of the enclosing scopes
// the body assigns (locals, fields s.f of a struct under construction, slices written by index), in order
// of first assignment;
// `xs[i] = e` -> list_set, `xs[i]` -> nth, `append(xs, e..)` -> ++, `make([]T, n)` -> repeat zero n,
// `len(xs)`, fixed-size arrays `[4]T{..}` / `[...]T{..}` / `var a [4]T` (lists of known length; values, so never
// aliased), `f(v, ..)` as a statement when f is a procedure of the package writing into its slice
// parameter (mulVertices2).  Go `int` is Z (float64(i) = ofZ), v2i.Vec / v3i.Vec are tuples of Z,
// sdf.Interval is a pair, a slice of SDFs is a list of (Evaluate, BoundingBox) pairs, a variadic
// parameter is a list.  `for i, x := range v` over a slice the body writes by index: x is v[i] as it is when
// iteration i starts.  Refused (= broken tie): return / break inside a loop, `for cond {}`, labelled statements,
// a loop bound the body modifies, index assignment into a slice another variable may refer to.
// Expressions: + - * /, unary minus, comparisons, && || !, exact literals, named constants,
// vector/box fields, v2.Vec{..}/v3.Vec{..}/Box2{..}/Box3{..} (positional or keyed)/[]v2.Vec{..}, a[i] on
// matrices, math.Abs/Max/Min/Sqrt/Floor/Ceil/Sin/Cos/Tan/Atan/Atan2/Acos/Mod, calls of other translated
// functions and vector/box methods (translated themselves, on demand), methods of the same struct
// (s.EvaluateSlow(p)) and functions taking the struct as a parameter (helper(s, p) inside a method of s:
// the parameter plays the receiver), receiver fields s.f (they become parameters s_f of the definition), wrapped
// SDFs and function-valued fields as opaque function parameters.
// Normal forms: (-x)*y, x*(-y), (-x)/y, x/(-y) are emitted as -(x*y), -(x/y) (the same float64).
// Constructors (functions returning SDF2/SDF3, with or without an error): `s := T{}` /
// `s := T{f: e}`, `s.f = e` (-> `let s_f := e`), `return nil, err` (-> None), `return &s, nil`
// (-> Some (T.Evaluate applied to the fields, T.BoundingBox applied to the fields)), `return Other(..)` and
// `x, err := Other(..); if err != nil { return nil, err }; ..` (-> a match on the callee's result); a wrapped
// SDF argument is a pair of parameters (its Evaluate, its BoundingBox) and is assumed non-nil.
// Every generated definition is registered in the unfold database `sdfgen` (Sdf/GenEqTac.v looks through helpers).
// Anything else inside a target function is an error (= broken tie), never skipped.
package sdfgen

import (
	"fmt"
	"go/ast"
	"go/build"
	"go/parser"
	"go/token"
	"math"
	"math/big"
	"os"
	"path/filepath"
	"sort"
	"strconv"
	"strings"

	"verifharness/kit"
)

// ---------------------------------------------------------------- targets

// Target is one Go function the tie is claimed for.  Key is "Func" or "Recv.Method".
type Target struct{ Pkg, Key string }

var vecMethods = []string{"Add", "Sub", "Mul", "Div", "Neg", "Abs", "MulScalar", "DivScalar", "AddScalar",
	"SubScalar", "Min", "Max", "Dot", "Cross", "Length2", "Length", "Normalize", "MinComponent", "MaxComponent", "Clamp"}

var boxMethods = []string{"Extend", "Include", "Translate", "Size", "Center", "ScaleAboutCenter", "Enlarge", "Contains", "Vertices", "MinMaxDist2"}

// Targets lists every function translated (callees are pulled in on demand).
func Targets() []Target {
	var ts []Target
	for _, p := range []string{"v2", "v3"} {
		for _, m := range vecMethods {
			ts = append(ts, Target{p, "Vec." + m})
		}
		ts = append(ts, Target{p, "VecSet.Min"}, Target{p, "VecSet.Max"})
	}
	for _, b := range []string{"Box2", "Box3"} {
		ts = append(ts, Target{"sdf", "New" + b})
		for _, m := range boxMethods {
			ts = append(ts, Target{"sdf", b + "." + m})
		}
	}
	for _, k := range []string{
		// matrix.go (the rest of the file is translated by harness/exprgen)
		"M33.MulBox", "M44.MulBox", "mulVertices2", "mulVertices3",
		// utils.go
		"Clamp", "Mix", "Sign", "SawTooth", "poly", "RoundMin", "ChamferMin", "PolyMin", "PolyMax",
		"NormalExtrude", "TwistExtrude", "ScaleExtrude", "ScaleTwistExtrude",
		// sdf2.go: Evaluate methods
		"sdfBox2d", "CircleSDF2.Evaluate", "BoxSDF2.Evaluate", "LineSDF2.Evaluate", "OffsetSDF2.Evaluate",
		"IntersectionSDF2.Evaluate", "DifferenceSDF2.Evaluate", "CutSDF2.Evaluate", "TransformSDF2.Evaluate",
		"ScaleUniformSDF2.Evaluate", "ElongateSDF2.Evaluate", "RotateCopySDF2.Evaluate", "SliceSDF2.Evaluate",
		// sdf3.go: Evaluate methods
		"sdfBox3d", "SphereSDF3.Evaluate", "BoxSDF3.Evaluate", "CylinderSDF3.Evaluate", "ConeSDF3.Evaluate",
		"SorSDF3.Evaluate", "ExtrudeSDF3.Evaluate", "ExtrudeRoundedSDF3.Evaluate", "LoftSDF3.Evaluate",
		"TransformSDF3.Evaluate", "ScaleUniformSDF3.Evaluate", "DifferenceSDF3.Evaluate", "IntersectionSDF3.Evaluate",
		"ElongateSDF3.Evaluate", "CutSDF3.Evaluate", "OffsetSDF3.Evaluate", "ShellSDF3.Evaluate", "RotateCopySDF3.Evaluate",
		// constructors (loop-free ones)
		"Circle2D", "Box2D", "Line2D", "Offset2D", "Intersect2D", "Difference2D", "Cut2D", "Transform2D",
		"ScaleUniform2D", "Elongate2D",
		"Sphere3D", "Box3D", "Cylinder3D", "Capsule3D", "Cone3D", "Extrude3D", "ScaleExtrude3D", "ExtrudeRounded3D", "Loft3D",
		"Transform3D", "ScaleUniform3D", "Difference3D", "Intersect3D", "Cut3D", "Elongate3D", "Offset3D", "Shell3D",
		// code with loops: Evaluate methods
		"UnionSDF2.EvaluateSlow", "UnionSDF2.Evaluate", "ArraySDF2.Evaluate", "RotateUnionSDF2.Evaluate",
		"UnionSDF3.Evaluate", "ArraySDF3.Evaluate", "RotateUnionSDF3.Evaluate",
		// mesh2.go: the per-segment functions of the polygon SDF
		"newLineInfo", "lineInfo.minDistance2", "lineInfo.winding",
		// mutators: the new values of the fields they assign
		"IntersectionSDF2.SetMax", "DifferenceSDF2.SetMax", "ArraySDF2.SetMin", "RotateUnionSDF2.SetMin", "UnionSDF2.SetMin",
		"ExtrudeSDF3.SetExtrude", "UnionSDF3.SetMin", "DifferenceSDF3.SetMax", "IntersectionSDF3.SetMax", "ArraySDF3.SetMin", "RotateUnionSDF3.SetMin",
		// code with loops: constructors
		"Union2D", "Array2D", "RotateUnion2D", "RotateCopy2D", "Slice2D",
		"RevolveTheta3D", "Revolve3D", "TwistExtrude3D", "ScaleTwistExtrude3D", "Union3D", "Array3D", "RotateUnion3D", "RotateCopy3D",
		// cams.go, flange.go, rack.go, spiral.go (model coq/Sdf/Prim2X.v, equalities coq/Sdf/GenEqX.v)
		"FlatFlankCamSDF2.Evaluate", "FlatFlankCam2D", "MakeFlatFlankCam",
		"Flange1.Evaluate", "NewFlange1",
		"ThreeArcCamSDF2.Evaluate", "ThreeArcCam2D",
		"GearRackSDF2.Evaluate", "polarDist2",
	} {
		ts = append(ts, Target{"sdf", k})
	}
	return ts
}

// functions of sdf/matrix.go that harness/exprgen translates (Generated/MatrixExpr.v)
type extern struct {
	coq  string
	args []typ
	ret  typ
}

// ---------------------------------------------------------------- types

type kind int

const (
	kT kind = iota
	kV2
	kV3
	kM22
	kM33
	kM44
	kBox2
	kBox3
	kP2 // p2.Vec{R, Theta}: a pair
	kBool
	kInt    // Go int: Z
	kV2i    // v2i.Vec{X, Y int}: (Z * Z)
	kV3i    // v3i.Vec{X, Y, Z int}: (Z * Z * Z)
	kIval   // sdf.Interval = [2]float64: (T * T)
	kLine2  // sdf.Line2 = [2]v2.Vec: (V2 * V2)
	kList   // args[0] = element (an SDF element is the pair (Evaluate, BoundingBox))
	kFn     // args -> ret
	kTuple  // several results of a function: args
	kObjOpt // result of a constructor: option (Evaluate, BoundingBox); args[0] = point type
)

type typ struct {
	k     kind
	args  []typ
	ret   *typ
	iface bool // an SDF2/SDF3 interface value: Evaluate is the function, BoundingBox travels beside it
	n     int  // kList: the length of a fixed-size array [n]T (a value: copied when assigned); 0 for a slice
}

var (
	tT     = typ{k: kT}
	tV2    = typ{k: kV2}
	tV3    = typ{k: kV3}
	tM22   = typ{k: kM22}
	tM33   = typ{k: kM33}
	tM44   = typ{k: kM44}
	tBox2  = typ{k: kBox2}
	tBox3  = typ{k: kBox3}
	tBool  = typ{k: kBool}
	tP2    = typ{k: kP2}
	tInt   = typ{k: kInt}
	tV2i   = typ{k: kV2i}
	tV3i   = typ{k: kV3i}
	tIval  = typ{k: kIval}
	tLine2 = typ{k: kLine2}
)

func fnType(ret typ, args ...typ) typ { return typ{k: kFn, args: args, ret: &ret} }
func listType(el typ) typ             { return typ{k: kList, args: []typ{el}} }
func arrayType(el typ, n int) typ     { return typ{k: kList, args: []typ{el}, n: n} }
func ifaceType(pt typ) typ            { t := fnType(tT, pt); t.iface = true; return t }
func objOptType(pt typ) typ           { return typ{k: kObjOpt, args: []typ{pt}} }

// the bounding-box type that goes with a point type
func boxOf(pt typ) typ {
	if pt.k == kV2 {
		return tBox2
	}
	return tBox3
}

func (t typ) coq() string {
	switch t.k {
	case kT:
		return "T O"
	case kV2:
		return "V2 O"
	case kV3:
		return "V3 O"
	case kM22, kM33, kM44:
		return "list (T O)"
	case kBox2:
		return "Box2 O"
	case kBox3:
		return "Box3 O"
	case kP2:
		return "(T O * T O)%type"
	case kBool:
		return "bool"
	case kInt:
		return "Z"
	case kV2i:
		return "(Z * Z)%type"
	case kV3i:
		return "(Z * Z * Z)%type"
	case kIval:
		return "(T O * T O)%type"
	case kLine2:
		return "(V2 O * V2 O)%type"
	case kList:
		return "list (" + t.args[0].elemCoq() + ")"
	case kTuple:
		var ps []string
		for _, a := range t.args {
			if a.k == kFn {
				ps = append(ps, "("+a.coq()+")")
			} else {
				ps = append(ps, a.coq())
			}
		}
		return "(" + strings.Join(ps, " * ") + ")%type"
	case kObjOpt:
		return "option ((" + t.args[0].coq() + " -> T O) * " + boxOf(t.args[0]).coq() + ")"
	}
	var ps []string
	for _, a := range t.args {
		s := a.coq()
		if a.k == kFn {
			s = "(" + s + ")"
		}
		ps = append(ps, s)
	}
	return strings.Join(append(ps, t.ret.coq()), " -> ")
}

// the Gallina type of a slice element: an SDF is the pair (Evaluate, BoundingBox)
func (t typ) elemCoq() string {
	if t.iface {
		return "(" + t.args[0].coq() + " -> T O) * " + boxOf(t.args[0]).coq()
	}
	return t.coq()
}

// the zero value of a Go type (var x T, make([]T, n), the default of an index expression)
func (t typ) zero() (string, bool) {
	switch t.k {
	case kT:
		return "(o0 O)", true
	case kInt:
		return "0%Z", true
	case kBool:
		return "false", true
	case kV2:
		return "(mkV2 (o0 O) (o0 O))", true
	case kV3:
		return "(mkV3 (o0 O) (o0 O) (o0 O))", true
	case kBox2:
		return "(mkBox2 (mkV2 (o0 O) (o0 O)) (mkV2 (o0 O) (o0 O)))", true
	case kBox3:
		return "(mkBox3 (mkV3 (o0 O) (o0 O) (o0 O)) (mkV3 (o0 O) (o0 O) (o0 O)))", true
	case kIval, kP2:
		return "((o0 O), (o0 O))", true
	case kLine2:
		return "((mkV2 (o0 O) (o0 O)), (mkV2 (o0 O) (o0 O)))", true
	case kV2i:
		return "(0%Z, 0%Z)", true
	case kV3i:
		return "(0%Z, 0%Z, 0%Z)", true
	case kList:
		if t.n > 0 {
			z, ok := t.args[0].zero()
			if !ok {
				return "", false
			}
			return fmt.Sprintf("(repeat %s %d)", z, t.n), true
		}
		return "[]", true
	case kFn:
		if t.iface {
			// never evaluated when indices are in range (a nil SDF would panic in Go)
			bz, _ := boxOf(t.args[0]).zero()
			return "((fun _ : " + t.args[0].coq() + " => (o0 O)), " + bz + ")", true
		}
	}
	return "", false
}

func (t typ) goName() string {
	switch t.k {
	case kT:
		return "float64"
	case kV2:
		return "v2.Vec"
	case kV3:
		return "v3.Vec"
	case kM22:
		return "M22"
	case kM33:
		return "M33"
	case kM44:
		return "M44"
	case kBox2:
		return "Box2"
	case kBox3:
		return "Box3"
	case kP2:
		return "p2.Vec"
	case kBool:
		return "bool"
	case kInt:
		return "int"
	case kV2i:
		return "v2i.Vec"
	case kV3i:
		return "v3i.Vec"
	case kIval:
		return "Interval"
	case kLine2:
		return "Line2"
	case kList:
		if t.n > 0 {
			return fmt.Sprintf("[%d]%s", t.n, t.args[0].goName())
		}
		return "[]" + t.args[0].goName()
	case kTuple:
		var ps []string
		for _, a := range t.args {
			ps = append(ps, a.goName())
		}
		return "(" + strings.Join(ps, ", ") + ")"
	case kObjOpt:
		return "SDF" + map[kind]string{kV2: "2", kV3: "3"}[t.args[0].k] + " (constructor result)"
	}
	if t.iface {
		return "SDF" + map[kind]string{kV2: "2", kV3: "3"}[t.args[0].k]
	}
	return "func " + t.coq()
}

func (t typ) eq(u typ) bool {
	if t.k != u.k || len(t.args) != len(u.args) || t.n != u.n {
		return false
	}
	for i := range t.args {
		if !t.args[i].eq(u.args[i]) {
			return false
		}
	}
	if t.k == kFn {
		return t.iface == u.iface && t.ret.eq(*u.ret)
	}
	return true
}

// ---------------------------------------------------------------- source packages

const modPath = "github.com/deadsy/sdfx/"

type srcFile struct {
	ast     *ast.File
	rel     string            // path relative to the repo
	imports map[string]string // local name -> import path
}

type pkg struct {
	name    string
	path    string
	files   []*srcFile
	funcs   map[string]*ast.FuncDecl
	fileOf  map[string]*srcFile // key of func / const / type -> file
	structs map[string]*ast.StructType
	ftypes  map[string]*ast.FuncType
	atypes  map[string]*ast.ArrayType
	ifaces  map[string]bool
	consts  map[string]ast.Expr
}

func recvTypeName(fd *ast.FuncDecl) (string, bool) {
	if fd.Recv == nil || len(fd.Recv.List) != 1 {
		return "", false
	}
	t := fd.Recv.List[0].Type
	ptr := false
	if st, ok := t.(*ast.StarExpr); ok {
		t, ptr = st.X, true
	}
	if id, ok := t.(*ast.Ident); ok {
		return id.Name, ptr
	}
	return "?", ptr
}

// GoFiles lists the non-test .go files of a package directory that the build of the harness
// compiles (build constraints evaluated with the tag `verif`, as `go build -tags verif` does),
// sorted by name.  The translators read the WHOLE package, never a fixed list of files: a
// declaration may move to any file of its package.
func GoFiles(dir string) ([]string, error) {
	ents, err := os.ReadDir(dir)
	if err != nil {
		return nil, err
	}
	ctx := build.Default
	ctx.GOOS, ctx.GOARCH, ctx.CgoEnabled = "linux", "amd64", false
	ctx.BuildTags = []string{"verif"}
	var names []string
	for _, e := range ents {
		n := e.Name()
		if e.IsDir() || !strings.HasSuffix(n, ".go") || strings.HasSuffix(n, "_test.go") {
			continue
		}
		ok, err := ctx.MatchFile(dir, n)
		if err != nil {
			return nil, err
		}
		if ok {
			names = append(names, n)
		}
	}
	sort.Strings(names)
	if len(names) == 0 {
		return nil, fmt.Errorf("no Go files in %s", dir)
	}
	return names, nil
}

// loadPkg parses every file of the package directory repo/reldir.
func loadPkg(fset *token.FileSet, repo, name, path, reldir string) (*pkg, error) {
	p := &pkg{name: name, path: path, funcs: map[string]*ast.FuncDecl{}, fileOf: map[string]*srcFile{},
		structs: map[string]*ast.StructType{}, ftypes: map[string]*ast.FuncType{}, atypes: map[string]*ast.ArrayType{},
		ifaces: map[string]bool{}, consts: map[string]ast.Expr{}}
	names, err := GoFiles(filepath.Join(repo, reldir))
	if err != nil {
		return nil, err
	}
	for _, fn := range names {
		rel := filepath.ToSlash(filepath.Join(reldir, fn))
		f, err := parser.ParseFile(fset, filepath.Join(repo, reldir, fn), nil, 0)
		if err != nil {
			return nil, err
		}
		if f.Name.Name != name {
			return nil, fmt.Errorf("%s: package %s, expected %s", rel, f.Name.Name, name)
		}
		sf := &srcFile{ast: f, rel: rel, imports: map[string]string{}}
		for _, im := range f.Imports {
			ip, _ := strconv.Unquote(im.Path.Value)
			local := ip[strings.LastIndex(ip, "/")+1:]
			if im.Name != nil {
				local = im.Name.Name
			}
			sf.imports[local] = ip
		}
		p.files = append(p.files, sf)
		for _, d := range f.Decls {
			switch x := d.(type) {
			case *ast.FuncDecl:
				key := x.Name.Name
				if x.Recv != nil {
					rn, _ := recvTypeName(x)
					if rn == "?" {
						continue // a receiver that is not a plain (pointer to a) named type: never a target
					}
					key = rn + "." + key
				} else if key == "init" || key == "_" {
					continue // may be declared any number of times; never a target
				}
				if _, dup := p.funcs[key]; dup {
					return nil, fmt.Errorf("%s: duplicate declaration of %s", rel, key)
				}
				p.funcs[key] = x
				p.fileOf[key] = sf
			case *ast.GenDecl:
				for _, sp := range x.Specs {
					switch s := sp.(type) {
					case *ast.TypeSpec:
						p.fileOf[s.Name.Name] = sf
						switch tt := s.Type.(type) {
						case *ast.StructType:
							p.structs[s.Name.Name] = tt
						case *ast.FuncType:
							p.ftypes[s.Name.Name] = tt
						case *ast.ArrayType:
							p.atypes[s.Name.Name] = tt
						case *ast.InterfaceType:
							p.ifaces[s.Name.Name] = true
						}
					case *ast.ValueSpec:
						if x.Tok != token.CONST {
							continue
						}
						for i, n := range s.Names {
							if i < len(s.Values) {
								p.consts[n.Name] = s.Values[i]
								p.fileOf[n.Name] = sf
							} else {
								p.consts[n.Name] = nil // iota-style: unsupported when used
							}
						}
					}
				}
			}
		}
	}
	return p, nil
}

// ---------------------------------------------------------------- generator state

// Def is one generated Gallina definition.
type Def struct {
	Pkg, Key string // Go identity
	Name     string // Gallina name
	Pos      string // file:line
	Params   []Param
	Ret      string
	text     string
	ret      typ
	params   []typ    // Go-level parameters after the receiver fields (an SDF parameter is one entry, two binders)
	fields   []string // receiver fields that became the leading parameters
	isConst  bool
	rat      *big.Rat // a constant: its exact value when known
	mutates  []int    // a procedure writing into slice parameters: their indices; the definition returns their final values
	// a function (not a method) with one parameter of a struct type of the package: that parameter is treated as
	// a receiver (the fields it uses are the leading parameters); its position among the Go arguments, else -1
	structArg  int
	recvStruct string
}

type Param struct{ Name, Type string }

type gen struct {
	fset    *token.FileSet
	pkgs    map[string]*pkg // by name
	byPath  map[string]*pkg
	defs    map[string]*Def // pkg.key -> def
	busy    map[string]bool
	order   []*Def
	externs map[string]extern
}

func defName(p, key string) string { return p + "_" + strings.ReplaceAll(key, ".", "_") }

// Coq keywords and every global name the generator emits: a Go local with such a name is renamed.
var reserved = map[string]bool{}

func init() {
	for _, w := range strings.Fields(`O T V2 V3 Box2 Box3 mkV2 mkV3 mkBox2 mkBox3 vx vy wx wy wz b2min b2max b3min b3max
		o0 o1 two half cst sq ofZ negb andb orb bool list nth option Some None fst snd pair
		oadd osub omul odiv oneg oabs osqrt oltb oleb oeqb omin omax otoZ ofloor oceil ofmod osin ocos otan oatan oatan2 oacos
		opi omaxf true false
		as at by cofix else end exists exists2 fix for forall fun if IF in let match mod Prop SProp return Set then Type using where with
		Definition Lemma Theorem Proof Qed Section End Context Import Export Require From`) {
		reserved[w] = true
	}
}

// CoqIdent is the Gallina name of a Go local variable (harness/exprgen uses the same renaming).
func CoqIdent(name string) string { return coqIdent(name) }

func coqIdent(name string) string {
	if reserved[name] || strings.Contains(name, "_") {
		return name + "_"
	}
	return name
}

// ---------------------------------------------------------------- literals

var (
	ratHalf = big.NewRat(1, 2)
	limit53 = new(big.Int).Lsh(big.NewInt(1), 53)
)

func isPow2(r *big.Rat) bool {
	if r == nil || r.Sign() <= 0 {
		return false
	}
	one := func(z *big.Int) bool {
		return z.Sign() > 0 && new(big.Int).And(z, new(big.Int).Sub(z, big.NewInt(1))).Sign() == 0
	}
	return one(r.Num()) && one(r.Denom())
}

// an integer float64 represents exactly: its odd part is below 2^53 (and it is far below 2^1023)
func exactFloat(z *big.Int) bool {
	if z.Sign() == 0 {
		return true
	}
	odd := new(big.Int).Rsh(z, z.TrailingZeroBits())
	return odd.Cmp(limit53) < 0 && z.BitLen() < 1000
}

// the value of math.Pi: the decimal literal of Go's math package (the compiler computes with it exactly)
var ratPi, _ = new(big.Rat).SetString("3.14159265358979323846264338327950288419716939937510582097494459")

func exactOp(op token.Token, a, b *big.Rat) *big.Rat {
	switch op {
	case token.ADD:
		return new(big.Rat).Add(a, b)
	case token.SUB:
		return new(big.Rat).Sub(a, b)
	case token.MUL:
		return new(big.Rat).Mul(a, b)
	case token.QUO:
		if b.Sign() != 0 {
			return new(big.Rat).Quo(a, b)
		}
	}
	return nil
}

// The Go compiler evaluates a constant expression exactly and rounds once; the model rounds the
// operands and applies the float64 operation.  For given constants the two can be compared here.
func sameWhenRounded(op token.Token, a, b *big.Rat) bool {
	if a == nil || b == nil {
		return false
	}
	r := exactOp(op, a, b)
	if r == nil {
		return false
	}
	fa, _ := a.Float64()
	fb, _ := b.Float64()
	want, _ := r.Float64()
	var got float64
	switch op {
	case token.ADD:
		got = fa + fb
	case token.SUB:
		got = fa - fb
	case token.MUL:
		got = fa * fb
	case token.QUO:
		got = fa / fb
	}
	return got == want && !math.IsInf(got, 0) && got != 0
}

// ratCoq prints an exact non-negative decimal constant: 0, 1, 2, 1/2 by name, integers through
// ofZ, other decimals as `cst n 10^k` (= correctly rounded n/10^k, which is how Go rounds the literal).
func ratCoq(r *big.Rat) (string, error) {
	if r.Sign() < 0 {
		s, err := ratCoq(new(big.Rat).Neg(r))
		return "(- " + s + ")", err
	}
	if r.IsInt() {
		n := r.Num()
		switch {
		case n.Sign() == 0:
			return "(o0 O)", nil
		case n.Cmp(big.NewInt(1)) == 0:
			return "(o1 O)", nil
		case n.Cmp(big.NewInt(2)) == 0:
			return "two", nil
		case exactFloat(n):
			return "(ofZ O " + n.String() + ")", nil
		}
		return "", fmt.Errorf("integer constant %s is not exact in float64", n)
	}
	if r.Cmp(ratHalf) == 0 {
		return "half", nil
	}
	if isPow2(new(big.Rat).SetInt(r.Denom())) && exactFloat(r.Num()) && exactFloat(r.Denom()) {
		// a dyadic constant p/2^k: both are exact and so is their float64 quotient
		return fmt.Sprintf("(cst %s %s)", r.Num(), r.Denom()), nil
	}
	d := big.NewInt(1)
	for k := 0; k < 40; k++ {
		n := new(big.Rat).Mul(r, new(big.Rat).SetInt(d))
		if n.IsInt() {
			if !exactFloat(n.Num()) || !exactFloat(d) {
				break
			}
			return fmt.Sprintf("(cst %s %s)", n.Num(), d), nil
		}
		d = new(big.Int).Mul(d, big.NewInt(10))
	}
	return "", fmt.Errorf("constant %s has no exact decimal form n/10^k with n and 10^k exact in float64", r.FloatString(20))
}

// ---------------------------------------------------------------- function context

type binding struct {
	coq  string
	t    typ
	zero bool   // declared with `var x float64`, not assigned yet
	bb   string // an SDF value: the Gallina name of its bounding box
	capt bool   // a variable of the enclosing function seen from inside a closure: read-only
	kval *val   // a function-local constant (`const k = e`): its value is used in place of the name
	// n := len(xs): the slice whose length this int holds (and the Go text of xs), see lenOperand
	lenOf  *val
	lenSrc string
	fresh  bool // a slice nothing else refers to (so xs[i] = e is an update of this variable only)
	// the receiver of a mutator method: a field that has not been assigned is not known (no zero value)
	mutated bool
	// a struct under construction (`s := T{}`): the current value of each field
	structName string
	fields     map[string]*binding
}

type env map[string]*binding

func (e env) clone() env {
	c := env{}
	for k, v := range e {
		b := *v
		if v.fields != nil {
			b.fields = map[string]*binding{}
			for fk, fv := range v.fields {
				fb := *fv
				b.fields[fk] = &fb
			}
		}
		c[k] = &b
	}
	return c
}

type fctx struct {
	g            *gen
	p            *pkg
	file         *srcFile
	key          string
	recv         string // receiver identifier of a struct method ("" otherwise)
	recvStruct   string
	used         map[string]typ // receiver fields used
	results      []typ          // result types: function, then enclosing closures
	named        []string       // named results of the function
	mutator      string         // the receiver name of a mutator method
	structResult string         // the function returns (a pointer to) this struct: a tuple of its fields
	ntmp         int            // temporaries introduced by desugar
	body         *ast.BlockStmt // the body of the function being translated
	skipParam    int            // the struct parameter treated as the receiver (index among the parameter names), else -1
	skipList     *ast.FieldList
}

type val struct {
	s     string
	t     typ
	konst bool     // a Go constant expression
	rat   *big.Rat // its exact value when known
	isInt bool     // an untyped integer constant (1/2 is integer division in Go)
	bb    string   // SDF value: its bounding box
	fresh bool     // a slice value nothing else refers to (make, literal, result of a call)
	pos   string   // the expression is `- pos` (a negated non-constant): see binary
}

func (f *fctx) errf(n ast.Node, format string, a ...interface{}) error {
	if n == nil {
		return fmt.Errorf("sdfgen: %s.%s (%s): %s", f.p.name, f.key, f.file.rel, fmt.Sprintf(format, a...))
	}
	pos := f.g.fset.Position(n.Pos())
	return fmt.Errorf("sdfgen: %s.%s (%s:%d): %s", f.p.name, f.key, f.file.rel, pos.Line, fmt.Sprintf(format, a...))
}

// resolve a Go type expression
func (f *fctx) goType(e ast.Expr) (typ, error) { return f.g.goType(f.p, f.file, e) }

func (g *gen) goType(p *pkg, sf *srcFile, e ast.Expr) (typ, error) {
	switch x := e.(type) {
	case *ast.Ident:
		switch x.Name {
		case "float64":
			return tT, nil
		case "bool":
			return tBool, nil
		case "int":
			return tInt, nil
		}
		return g.namedType(p, x.Name)
	case *ast.SelectorExpr:
		if id, ok := x.X.(*ast.Ident); ok {
			if q := g.byPath[sf.imports[id.Name]]; q != nil {
				return g.namedType(q, x.Sel.Name)
			}
		}
	case *ast.FuncType:
		return g.funcType(p, sf, x)
	case *ast.StarExpr:
		// *Line2: the segment it points to (it is only read)
		t, err := g.goType(p, sf, x.X)
		if err == nil && t.k == kLine2 {
			return t, nil
		}
	case *ast.ArrayType:
		el, err := g.goType(p, sf, x.Elt)
		if err != nil {
			return typ{}, err
		}
		if x.Len == nil {
			return listType(el), nil
		}
		// [4]T: a list of known length (arrays are values: every use is a copy)
		if lit, ok := x.Len.(*ast.BasicLit); ok && lit.Kind == token.INT {
			if n, err := strconv.Atoi(lit.Value); err == nil && n > 0 && n <= 64 {
				return arrayType(el, n), nil
			}
		}
	case *ast.Ellipsis:
		// a variadic parameter is a slice
		el, err := g.goType(p, sf, x.Elt)
		if err != nil {
			return typ{}, err
		}
		return listType(el), nil
	}
	return typ{}, fmt.Errorf("unsupported type %s", exprString(e))
}

// a struct {Min, Max <vec>}: positional literals Box{a, b} mean Min = a, Max = b
func isMinMax(st *ast.StructType) bool {
	var names []string
	for _, fl := range st.Fields.List {
		for _, n := range fl.Names {
			names = append(names, n.Name)
		}
	}
	return len(names) == 2 && names[0] == "Min" && names[1] == "Max"
}

func (g *gen) namedType(p *pkg, name string) (typ, error) {
	switch {
	case (p.name == "v2" || p.name == "v3" || p.name == "p2") && name == "Vec":
		st, ok := p.structs["Vec"]
		want := map[string]string{"v2": "X Y", "v3": "X Y Z", "p2": "R Theta"}[p.name]
		var names []string
		if ok {
			for _, fl := range st.Fields.List {
				for _, n := range fl.Names {
					names = append(names, n.Name)
				}
			}
		}
		if strings.Join(names, " ") != want {
			return typ{}, fmt.Errorf("%s.Vec is not struct{%s float64} any more", p.name, want)
		}
		return map[string]typ{"v2": tV2, "v3": tV3, "p2": tP2}[p.name], nil
	case (p.name == "v2i" || p.name == "v3i") && name == "Vec":
		st, ok := p.structs["Vec"]
		want := map[string]string{"v2i": "X Y", "v3i": "X Y Z"}[p.name]
		var names []string
		if ok {
			for _, fl := range st.Fields.List {
				if id, isId := fl.Type.(*ast.Ident); !isId || id.Name != "int" {
					return typ{}, fmt.Errorf("%s.Vec is not struct{%s int} any more", p.name, want)
				}
				for _, n := range fl.Names {
					names = append(names, n.Name)
				}
			}
		}
		if strings.Join(names, " ") != want {
			return typ{}, fmt.Errorf("%s.Vec is not struct{%s int} any more", p.name, want)
		}
		return map[string]typ{"v2i": tV2i, "v3i": tV3i}[p.name], nil
	case p.name == "sdf" && name == "Interval":
		at, ok := p.atypes[name]
		if ok {
			ln, isLit := at.Len.(*ast.BasicLit)
			el, isId := at.Elt.(*ast.Ident)
			ok = isLit && ln.Value == "2" && isId && el.Name == "float64"
		}
		if !ok {
			return typ{}, fmt.Errorf("sdf.Interval is not [2]float64 any more")
		}
		return tIval, nil
	case p.name == "sdf" && name == "Line2":
		at, ok := p.atypes[name]
		if ok {
			ln, isLit := at.Len.(*ast.BasicLit)
			ok = isLit && ln.Value == "2"
			if ok {
				el, err := g.goType(p, p.fileOf[name], at.Elt)
				ok = err == nil && el.k == kV2
			}
		}
		if !ok {
			return typ{}, fmt.Errorf("sdf.Line2 is not [2]v2.Vec any more")
		}
		return tLine2, nil
	case p.name == "sdf" && name == "M22":
		return tM22, nil
	case p.name == "sdf" && name == "M33":
		return tM33, nil
	case p.name == "sdf" && name == "M44":
		return tM44, nil
	case p.name == "sdf" && (name == "Box2" || name == "Box3"):
		st, ok := p.structs[name]
		if !ok || !isMinMax(st) {
			return typ{}, fmt.Errorf("sdf.%s is not struct{Min, Max} any more", name)
		}
		if name == "Box2" {
			return tBox2, nil
		}
		return tBox3, nil
	case p.name == "sdf" && name == "SDF2" && p.ifaces[name]:
		return ifaceType(tV2), nil
	case p.name == "sdf" && name == "SDF3" && p.ifaces[name]:
		return ifaceType(tV3), nil
	}
	if ft, ok := p.ftypes[name]; ok {
		return g.funcType(p, p.fileOf[name], ft)
	}
	if at, ok := p.atypes[name]; ok {
		return g.goType(p, p.fileOf[name], at)
	}
	return typ{}, fmt.Errorf("unsupported type %s.%s", p.name, name)
}

func (g *gen) funcType(p *pkg, sf *srcFile, ft *ast.FuncType) (typ, error) {
	var args []typ
	for _, fl := range ft.Params.List {
		t, err := g.goType(p, sf, fl.Type)
		if err != nil {
			return typ{}, err
		}
		n := len(fl.Names)
		if n == 0 {
			n = 1
		}
		for i := 0; i < n; i++ {
			args = append(args, t)
		}
	}
	if ft.Results == nil || len(ft.Results.List) != 1 || len(ft.Results.List[0].Names) > 1 {
		return typ{}, fmt.Errorf("function type without exactly one result")
	}
	r, err := g.goType(p, sf, ft.Results.List[0].Type)
	if err != nil {
		return typ{}, err
	}
	return fnType(r, args...), nil
}

func exprString(e ast.Expr) string {
	switch x := e.(type) {
	case *ast.Ident:
		return x.Name
	case *ast.SelectorExpr:
		return exprString(x.X) + "." + x.Sel.Name
	case *ast.StarExpr:
		return "*" + exprString(x.X)
	case *ast.CallExpr:
		return exprString(x.Fun) + "(..)"
	case *ast.BasicLit:
		return x.Value
	}
	return fmt.Sprintf("%T", e)
}

// ---------------------------------------------------------------- expressions

var mathFns = map[string]struct {
	op string
	n  int
}{
	"Abs": {"oabs", 1}, "Sqrt": {"osqrt", 1}, "Floor": {"ofloor", 1}, "Ceil": {"oceil", 1},
	"Sin": {"osin", 1}, "Cos": {"ocos", 1}, "Tan": {"otan", 1}, "Atan": {"oatan", 1}, "Acos": {"oacos", 1},
	"Max": {"omax", 2}, "Min": {"omin", 2}, "Atan2": {"oatan2", 2}, "Mod": {"ofmod", 2},
}

var arith = map[token.Token]string{token.ADD: "+", token.SUB: "-", token.MUL: "*", token.QUO: "/"}

// Go comparison a OP b -> Ops notation (x >? y is oltb y x, x >=? y is oleb y x)
var compare = map[token.Token]string{token.LSS: "<?", token.LEQ: "<=?", token.GTR: ">?", token.GEQ: ">=?", token.EQL: "=?"}

var opAssign = map[token.Token]token.Token{token.ADD_ASSIGN: token.ADD, token.SUB_ASSIGN: token.SUB,
	token.MUL_ASSIGN: token.MUL, token.QUO_ASSIGN: token.QUO}

func (f *fctx) importOf(id *ast.Ident, e env) (string, bool) {
	if _, local := e[id.Name]; local || id.Name == f.recv {
		return "", false
	}
	ip, ok := f.file.imports[id.Name]
	return ip, ok
}

func isNil(x ast.Expr, e env) bool {
	id, ok := x.(*ast.Ident)
	if !ok || id.Name != "nil" {
		return false
	}
	_, shadow := e["nil"]
	return !shadow
}

// an untyped integer constant expression used where Go wants an int
func asInt(v val) (val, bool) {
	if v.t.k == kInt {
		return v, true
	}
	if v.t.k == kT && v.konst && v.isInt && v.rat != nil && v.rat.IsInt() {
		return val{s: "(" + v.rat.Num().String() + ")%Z", t: tInt, konst: true, rat: v.rat, isInt: true}, true
	}
	return v, false
}

var intArith = map[token.Token]string{token.ADD: "Z.add", token.SUB: "Z.sub", token.MUL: "Z.mul", token.QUO: "Z.quot", token.REM: "Z.rem"}

// Go int arithmetic on Z (no overflow: the integers here are loop bounds and counts)
func (f *fctx) intBinary(n ast.Node, op token.Token, a, b val) (val, error) {
	if fn, ok := intArith[op]; ok {
		return val{s: fmt.Sprintf("(%s %s %s)", fn, a.s, b.s), t: tInt}, nil
	}
	switch op {
	case token.LSS:
		return val{s: fmt.Sprintf("(Z.ltb %s %s)", a.s, b.s), t: tBool}, nil
	case token.LEQ:
		return val{s: fmt.Sprintf("(Z.leb %s %s)", a.s, b.s), t: tBool}, nil
	case token.GTR:
		return val{s: fmt.Sprintf("(Z.ltb %s %s)", b.s, a.s), t: tBool}, nil
	case token.GEQ:
		return val{s: fmt.Sprintf("(Z.leb %s %s)", b.s, a.s), t: tBool}, nil
	case token.EQL:
		return val{s: fmt.Sprintf("(Z.eqb %s %s)", a.s, b.s), t: tBool}, nil
	case token.NEQ:
		return val{s: fmt.Sprintf("(negb (Z.eqb %s %s))", a.s, b.s), t: tBool}, nil
	}
	return val{}, f.errf(n, "unsupported operator %s on int", op)
}

func (f *fctx) binary(n ast.Node, op token.Token, a, b val) (val, error) {
	if a.t.k == kInt || b.t.k == kInt {
		ai, oka := asInt(a)
		bi, okb := asInt(b)
		if !oka || !okb {
			return val{}, f.errf(n, "operator %s on %s and %s", op, a.t.goName(), b.t.goName())
		}
		return f.intBinary(n, op, ai, bi)
	}
	if sym, ok := arith[op]; ok {
		if a.t.k != kT || b.t.k != kT {
			return val{}, f.errf(n, "operator %s on %s and %s", op, a.t.goName(), b.t.goName())
		}
		r := val{s: fmt.Sprintf("(%s %s %s)", a.s, sym, b.s), t: tT}
		if (op == token.MUL || op == token.QUO) && (a.pos != "" || b.pos != "") {
			// (-x)*y, x*(-y), (-x)/y, x/(-y) are written -(x*y), -(x/y): the same float64 (rounding is
			// symmetric; only the sign bit of a NaN result can differ), so that `-h/2` and `-(h/2)`
			// (e.g. after hoisting half := h/2) are the same term
			as, bs := a.s, b.s
			if a.pos != "" {
				as = a.pos
			}
			if b.pos != "" {
				bs = b.pos
			}
			inner := fmt.Sprintf("(%s %s %s)", as, sym, bs)
			if a.pos != "" && b.pos != "" {
				return val{s: inner, t: tT}, nil
			}
			return val{s: "(- " + inner + ")", t: tT, pos: inner}, nil
		}
		if a.konst && b.konst {
			// the Go compiler folds constant expressions exactly; only scaling by a power of two
			// is the same thing in float64 arithmetic
			okMul := op == token.MUL && (isPow2(a.rat) || isPow2(b.rat))
			okDiv := op == token.QUO && isPow2(b.rat) && !(a.isInt && b.isInt) // 1/2 == 0 in Go
			if !okMul && !okDiv && !(sameWhenRounded(op, a.rat, b.rat) && !(op == token.QUO && a.isInt && b.isInt)) {
				return val{}, f.errf(n, "constant expression folded exactly by the compiler (modelled: c*2^k, c/2^k, and a product/quotient/sum whose float64 evaluation gives the correctly rounded exact value)")
			}
			r.konst, r.isInt = true, a.isInt && b.isInt
			if a.rat != nil && b.rat != nil {
				r.rat = exactOp(op, a.rat, b.rat)
			}
		}
		return r, nil
	}
	if sym, ok := compare[op]; ok || op == token.NEQ {
		if a.t.k != kT || b.t.k != kT {
			return val{}, f.errf(n, "comparison %s on %s and %s", op, a.t.goName(), b.t.goName())
		}
		if a.konst && b.konst {
			return val{}, f.errf(n, "comparison of two constants")
		}
		if op == token.NEQ {
			return val{s: fmt.Sprintf("(negb (%s =? %s))", a.s, b.s), t: tBool}, nil
		}
		return val{s: fmt.Sprintf("(%s %s %s)", a.s, sym, b.s), t: tBool}, nil
	}
	if op == token.LAND || op == token.LOR {
		if a.t.k != kBool || b.t.k != kBool {
			return val{}, f.errf(n, "operator %s on non-booleans", op)
		}
		sym := "&&"
		if op == token.LOR {
			sym = "||"
		}
		return val{s: fmt.Sprintf("(%s %s %s)", a.s, sym, b.s), t: tBool}, nil
	}
	return val{}, f.errf(n, "unsupported operator %s", op)
}

func (f *fctx) field(n ast.Node, x val, name string) (val, error) {
	var ok bool
	var acc string
	rt := tT
	switch x.t.k {
	case kV2:
		acc, ok = map[string]string{"X": "vx", "Y": "vy"}[name]
	case kV3:
		acc, ok = map[string]string{"X": "wx", "Y": "wy", "Z": "wz"}[name]
	case kBox2:
		acc, ok = map[string]string{"Min": "b2min", "Max": "b2max"}[name]
		rt = tV2
	case kBox3:
		acc, ok = map[string]string{"Min": "b3min", "Max": "b3max"}[name]
		rt = tV3
	case kP2:
		acc, ok = map[string]string{"R": "fst", "Theta": "snd"}[name]
	case kV2i:
		acc, ok = map[string]string{"X": "fst", "Y": "snd"}[name]
		rt = tInt
	case kV3i:
		// (x, y, z) is ((x, y), z)
		switch name {
		case "X":
			return val{s: "(fst (fst " + x.s + "))", t: tInt}, nil
		case "Y":
			return val{s: "(snd (fst " + x.s + "))", t: tInt}, nil
		case "Z":
			return val{s: "(snd " + x.s + ")", t: tInt}, nil
		}
	}
	if !ok {
		return val{}, f.errf(n, "field .%s of %s", name, x.t.goName())
	}
	return val{s: "(" + acc + " " + x.s + ")", t: rt}, nil
}

func (g *gen) structField(p *pkg, sname, name string) (typ, bool, error) {
	st := p.structs[sname]
	if st == nil {
		return typ{}, false, nil
	}
	for _, fl := range st.Fields.List {
		for _, fn := range fl.Names {
			if fn.Name == name {
				t, err := g.goType(p, p.fileOf[sname], fl.Type)
				return t, true, err
			}
		}
	}
	return typ{}, false, nil
}

// receiver field s.name -> parameter s_name
func (f *fctx) recvField(n ast.Node, name string) (val, error) {
	t, ok, err := f.g.structField(f.p, f.recvStruct, name)
	if err != nil {
		return val{}, f.errf(n, "field %s.%s: %v", f.recvStruct, name, err)
	}
	if !ok {
		return val{}, f.errf(n, "%s has no field %s", f.recvStruct, name)
	}
	f.used[name] = t
	return val{s: "s_" + name, t: t}, nil
}

// field of a struct under construction: its current value
func (f *fctx) builtField(n ast.Node, b *binding, goVar, name string) (val, error) {
	t, ok, err := f.g.structField(f.p, b.structName, name)
	if err != nil || !ok {
		return val{}, f.errf(n, "field %s.%s: %v", b.structName, name, err)
	}
	if fb, ok := b.fields[name]; ok && !fb.zero {
		return val{s: fb.coq, t: fb.t, bb: fb.bb, fresh: fb.fresh}, nil
	}
	if z, ok := t.zero(); ok && !t.iface && !b.mutated {
		return val{s: z, t: t}, nil // zero value
	}
	return val{}, f.errf(n, "field %s.%s is read before it is assigned", goVar, name)
}

func (f *fctx) args(n ast.Node, what string, want []typ, as []ast.Expr, e env) ([]string, error) {
	if len(as) != len(want) {
		return nil, f.errf(n, "%s: %d arguments, expected %d", what, len(as), len(want))
	}
	var out []string
	for i, a := range as {
		v, err := f.expr(a, e)
		if err != nil {
			return nil, err
		}
		if want[i].k == kInt {
			v, _ = asInt(v)
		}
		if !v.t.eq(want[i]) {
			return nil, f.errf(a, "%s: argument %d has type %s, expected %s", what, i+1, v.t.goName(), want[i].goName())
		}
		out = append(out, v.s)
		if want[i].iface {
			if v.bb == "" {
				return nil, f.errf(a, "%s: the bounding box of SDF argument %d is not known here", what, i+1)
			}
			out = append(out, v.bb)
		}
	}
	return out, nil
}

func app(fn string, args []string) string {
	if len(args) == 0 {
		return fn
	}
	return "(" + fn + " " + strings.Join(args, " ") + ")"
}

func (f *fctx) callDef(n ast.Node, q *pkg, key string, recv *val, as []ast.Expr, e env) (val, error) {
	if ex, ok := f.g.externs[q.name+"."+key]; ok {
		want := ex.args
		var pre []string
		if recv != nil {
			pre, want = []string{recv.s}, want[1:]
		}
		ss, err := f.args(n, key, want, as, e)
		if err != nil {
			return val{}, err
		}
		return val{s: app(ex.coq, append(pre, ss...)), t: ex.ret}, nil
	}
	d, err := f.g.translate(q, key)
	if err != nil {
		return val{}, err
	}
	if d.structArg >= 0 {
		// helper(s, ..) where helper takes the struct as a parameter: s must be the receiver (or the struct
		// parameter) of the caller; the fields helper uses are passed in its place
		if recv != nil || q != f.p || f.recvStruct != d.recvStruct || d.structArg >= len(as) {
			return val{}, f.errf(n, "call of %s, a function of a %s, outside a method of that struct", key, d.recvStruct)
		}
		sa := as[d.structArg]
		if u, ok := sa.(*ast.UnaryExpr); ok && u.Op == token.AND {
			sa = u.X
		}
		if st, ok := sa.(*ast.StarExpr); ok {
			sa = st.X
		}
		id, ok := sa.(*ast.Ident)
		if _, shadow := e[f.recv]; !ok || id.Name != f.recv || shadow {
			return val{}, f.errf(n, "call of %s: the %s argument is not the receiver", key, d.recvStruct)
		}
		var pre []string
		for _, fn := range d.fields {
			fv, err := f.recvField(n, fn)
			if err != nil {
				return val{}, err
			}
			pre = append(pre, fv.s)
		}
		rest := append(append([]ast.Expr{}, as[:d.structArg]...), as[d.structArg+1:]...)
		ss, err := f.args(n, q.name+"."+key, d.params, rest, e)
		if err != nil {
			return val{}, err
		}
		return val{s: app(d.Name, append(pre, ss...)), t: d.ret, fresh: d.ret.k == kList}, nil
	}
	if len(d.fields) != 0 {
		// s.Method(..) inside another method of the same struct: pass the receiver fields it uses
		if recv != nil || q != f.p || f.recvStruct == "" || !strings.HasPrefix(key, f.recvStruct+".") {
			return val{}, f.errf(n, "call of %s, a method using receiver fields", key)
		}
		var pre []string
		for _, fn := range d.fields {
			fv, err := f.recvField(n, fn)
			if err != nil {
				return val{}, err
			}
			pre = append(pre, fv.s)
		}
		ss, err := f.args(n, q.name+"."+key, d.params, as, e)
		if err != nil {
			return val{}, err
		}
		return val{s: app(d.Name, append(pre, ss...)), t: d.ret}, nil
	}
	want := d.params
	var pre []string
	if recv != nil {
		pre, want = []string{recv.s}, want[1:]
	}
	ss, err := f.args(n, q.name+"."+key, want, as, e)
	if err != nil {
		return val{}, err
	}
	if d.mutates != nil {
		return val{}, f.errf(n, "%s.%s modifies its slice argument: only supported as a statement", q.name, key)
	}
	return val{s: app(d.Name, append(pre, ss...)), t: d.ret, fresh: d.ret.k == kList}, nil
}

func (f *fctx) call(x *ast.CallExpr, e env) (val, error) {
	if x.Ellipsis.IsValid() {
		return val{}, f.errf(x, "variadic call")
	}
	applyFn := func(fn val, what string) (val, error) {
		ss, err := f.args(x, what, fn.t.args, x.Args, e)
		if err != nil {
			return val{}, err
		}
		return val{s: app(fn.s, ss), t: *fn.t.ret}, nil
	}
	switch fn := x.Fun.(type) {
	case *ast.Ident:
		if b, ok := e[fn.Name]; ok {
			if b.t.k != kFn || b.t.iface {
				return val{}, f.errf(x, "call of %s, which is not a function value", fn.Name)
			}
			return applyFn(val{s: b.coq, t: b.t}, fn.Name)
		}
		if _, ok := f.p.funcs[fn.Name]; ok || f.g.externs[f.p.name+"."+fn.Name].coq != "" {
			return f.callDef(x, f.p, fn.Name, nil, x.Args, e)
		}
		if v, ok, err := f.builtin(x, fn.Name, e); ok || err != nil {
			return v, err
		}
		return val{}, f.errf(x, "call of unknown function %s", fn.Name)
	case *ast.SelectorExpr:
		if id, ok := fn.X.(*ast.Ident); ok {
			if ip, isPkg := f.importOf(id, e); isPkg {
				if ip == "math" {
					m, ok := mathFns[fn.Sel.Name]
					if !ok {
						return val{}, f.errf(x, "unsupported math.%s", fn.Sel.Name)
					}
					want := []typ{tT, tT}[:m.n]
					ss, err := f.args(x, "math."+fn.Sel.Name, want, x.Args, e)
					if err != nil {
						return val{}, err
					}
					return val{s: "(" + m.op + " O " + strings.Join(ss, " ") + ")", t: tT}, nil
				}
				if q := f.g.byPath[ip]; q != nil {
					return f.callDef(x, q, fn.Sel.Name, nil, x.Args, e)
				}
				return val{}, f.errf(x, "call into package %s", ip)
			}
			if id.Name == f.recv && f.recv != "" {
				if _, shadow := e[id.Name]; !shadow {
					if _, isMethod := f.p.funcs[f.recvStruct+"."+fn.Sel.Name]; isMethod {
						// s.EvaluateSlow(p): another method of the same struct
						return f.callDef(x, f.p, f.recvStruct+"."+fn.Sel.Name, nil, x.Args, e)
					}
					// s.extrude(p), s.max(a, b): a function-valued receiver field
					fv, err := f.recvField(x, fn.Sel.Name)
					if err != nil {
						return val{}, f.errf(x, "call of method %s on the receiver", fn.Sel.Name)
					}
					if fv.t.k != kFn || fv.t.iface {
						return val{}, f.errf(x, "call of field %s, which is not a function value", fn.Sel.Name)
					}
					return applyFn(fv, exprString(x.Fun))
				}
			}
		}
		recv, err := f.expr(fn.X, e)
		if err != nil {
			return val{}, err
		}
		switch recv.t.k {
		case kFn:
			if !recv.t.iface {
				return val{}, f.errf(x, "method %s on a function value", fn.Sel.Name)
			}
			switch fn.Sel.Name {
			case "Evaluate":
				return applyFn(recv, exprString(fn.X)+".Evaluate")
			case "BoundingBox":
				if len(x.Args) != 0 {
					return val{}, f.errf(x, "BoundingBox with arguments")
				}
				if recv.bb == "" {
					return val{}, f.errf(x, "the bounding box of %s is not a parameter here", exprString(fn.X))
				}
				return val{s: recv.bb, t: boxOf(recv.t.args[0])}, nil
			}
			return val{}, f.errf(x, "method %s of a wrapped SDF", fn.Sel.Name)
		case kV2:
			return f.callDef(x, f.g.pkgs["v2"], "Vec."+fn.Sel.Name, &recv, x.Args, e)
		case kV3:
			return f.callDef(x, f.g.pkgs["v3"], "Vec."+fn.Sel.Name, &recv, x.Args, e)
		case kM22, kM33, kM44, kBox2, kBox3:
			return f.callDef(x, f.g.pkgs["sdf"], recv.t.goName()+"."+fn.Sel.Name, &recv, x.Args, e)
		case kV2i:
			return f.callDef(x, f.g.pkgs["v2i"], "Vec."+fn.Sel.Name, &recv, x.Args, e)
		case kV3i:
			return f.callDef(x, f.g.pkgs["v3i"], "Vec."+fn.Sel.Name, &recv, x.Args, e)
		case kList:
			// v2.VecSet / v3.VecSet methods
			switch recv.t.args[0].k {
			case kV2:
				return f.callDef(x, f.g.pkgs["v2"], "VecSet."+fn.Sel.Name, &recv, x.Args, e)
			case kV3:
				return f.callDef(x, f.g.pkgs["v3"], "VecSet."+fn.Sel.Name, &recv, x.Args, e)
			}
		}
		return val{}, f.errf(x, "method %s on %s", fn.Sel.Name, recv.t.goName())
	}
	return val{}, f.errf(x, "unsupported call %s", exprString(x.Fun))
}

// the element of a slice: an SDF is the pair (Evaluate, BoundingBox)
func (f *fctx) elemString(n ast.Node, v val) (string, error) {
	if v.t.iface {
		if v.bb == "" {
			return "", f.errf(n, "the bounding box of this SDF value is not known here")
		}
		return "(" + v.s + ", " + v.bb + ")", nil
	}
	return v.s, nil
}

// an element read back from a slice
func elemVal(s string, t typ) val {
	if t.iface {
		return val{s: "(fst " + s + ")", t: t, bb: "(snd " + s + ")"}
	}
	return val{s: s, t: t}
}

// float64(x), int(x), len(xs), append(xs, ..), make([]T, n)
func (f *fctx) builtin(x *ast.CallExpr, name string, e env) (val, bool, error) {
	fail := func(format string, a ...interface{}) (val, bool, error) {
		return val{}, true, f.errf(x, format, a...)
	}
	switch name {
	case "float64", "int":
		if len(x.Args) != 1 {
			return fail("%s with %d arguments", name, len(x.Args))
		}
		v, err := f.expr(x.Args[0], e)
		if err != nil {
			return val{}, true, err
		}
		switch {
		case name == "float64" && v.t.k == kInt:
			return val{s: "(ofZ O " + v.s + ")", t: tT}, true, nil
		case name == "float64" && v.t.k == kT:
			v.isInt = false
			return v, true, nil
		case name == "int" && v.t.k == kInt:
			return v, true, nil
		case name == "int" && v.t.k == kT && !v.konst:
			return val{s: "(otoZ O " + v.s + ")", t: tInt}, true, nil
		}
		return fail("%s(%s)", name, v.t.goName())
	case "len":
		if len(x.Args) != 1 {
			return fail("len with %d arguments", len(x.Args))
		}
		v, err := f.expr(x.Args[0], e)
		if err != nil {
			return val{}, true, err
		}
		if v.t.k != kList {
			return fail("len(%s)", v.t.goName())
		}
		return val{s: "(Z.of_nat (length " + v.s + "))", t: tInt}, true, nil
	case "append":
		if len(x.Args) < 2 {
			return fail("append with %d arguments", len(x.Args))
		}
		v, err := f.expr(x.Args[0], e)
		if err != nil {
			return val{}, true, err
		}
		if v.t.k != kList {
			return fail("append to %s", v.t.goName())
		}
		var es []string
		for _, a := range x.Args[1:] {
			var ev val
			if cl, ok := a.(*ast.CompositeLit); ok && cl.Type == nil {
				ev, err = f.composite(cl, &v.t.args[0], e)
			} else {
				ev, err = f.expr(a, e)
			}
			if err != nil {
				return val{}, true, err
			}
			if v.t.args[0].k == kInt {
				ev, _ = asInt(ev)
			}
			if !ev.t.eq(v.t.args[0]) {
				return fail("append of %s to %s", ev.t.goName(), v.t.goName())
			}
			s, err := f.elemString(a, ev)
			if err != nil {
				return val{}, true, err
			}
			es = append(es, s)
		}
		return val{s: "(" + v.s + " ++ [" + strings.Join(es, "; ") + "])", t: v.t, fresh: v.fresh}, true, nil
	case "make":
		if len(x.Args) != 2 && len(x.Args) != 3 {
			return fail("make with %d arguments", len(x.Args))
		}
		t, err := f.goType(x.Args[0])
		if err != nil || t.k != kList {
			return fail("make of a non-slice type")
		}
		n, err := f.expr(x.Args[1], e)
		if err != nil {
			return val{}, true, err
		}
		n, ok := asInt(n)
		if !ok {
			return fail("make with a length of type %s", n.t.goName())
		}
		if n.konst && n.rat != nil && n.rat.Sign() == 0 {
			// make([]T, 0, cap): the capacity is not observable
			return val{s: "[]", t: t, fresh: true}, true, nil
		}
		if len(x.Args) == 3 {
			return fail("make with a non-zero length and a capacity")
		}
		z, ok := t.args[0].zero()
		if !ok {
			return fail("make: no zero value for %s", t.args[0].goName())
		}
		return val{s: "(repeat " + z + " (Z.to_nat " + n.s + "))", t: t, fresh: true}, true, nil
	}
	return val{}, false, nil
}

// composite literal of a vector, box or slice type (implied = element type of an enclosing slice literal)
func (f *fctx) composite(x *ast.CompositeLit, implied *typ, e env) (val, error) {
	var t typ
	if at, ok := x.Type.(*ast.ArrayType); ok && at.Len != nil {
		if _, dots := at.Len.(*ast.Ellipsis); dots {
			// [...]T{a, b, c}: the length is the number of elements
			el, err := f.goType(at.Elt)
			if err != nil {
				return val{}, f.errf(x, "%v", err)
			}
			if len(x.Elts) == 0 {
				return val{}, f.errf(x, "empty array literal")
			}
			t = arrayType(el, len(x.Elts))
		}
	}
	if t.k == kList {
	} else if x.Type != nil {
		var err error
		if t, err = f.goType(x.Type); err != nil {
			return val{}, f.errf(x, "%v", err)
		}
	} else if implied != nil {
		t = *implied
	} else {
		return val{}, f.errf(x, "composite literal without a type")
	}
	elts := x.Elts
	if len(elts) > 0 {
		if _, keyed := elts[0].(*ast.KeyValueExpr); keyed {
			// Box3{Min: a, Max: b}: reorder by field; a missing field is its zero value
			order := map[kind][]string{kV2: {"X", "Y"}, kV3: {"X", "Y", "Z"}, kBox2: {"Min", "Max"}, kBox3: {"Min", "Max"},
				kP2: {"R", "Theta"}, kV2i: {"X", "Y"}, kV3i: {"X", "Y", "Z"}}[t.k]
			if order == nil {
				return val{}, f.errf(x, "keyed %s literal", t.goName())
			}
			byName := map[string]ast.Expr{}
			for _, el := range elts {
				kv, ok := el.(*ast.KeyValueExpr)
				key, isId := (ast.Expr)(nil), false
				var name string
				if ok {
					key = kv.Key
					if id, ok2 := key.(*ast.Ident); ok2 {
						name, isId = id.Name, true
					}
				}
				if !ok || !isId || byName[name] != nil {
					return val{}, f.errf(x, "unsupported keyed %s literal", t.goName())
				}
				byName[name] = kv.Value
			}
			elts = nil
			for _, fn := range order {
				v, ok := byName[fn]
				if !ok {
					return val{}, f.errf(x, "%s literal without the field %s (zero-valued fields are not modelled)", t.goName(), fn)
				}
				elts = append(elts, v)
				delete(byName, fn)
			}
			if len(byName) != 0 {
				return val{}, f.errf(x, "%s literal with an unknown field", t.goName())
			}
		}
	}
	for _, el := range elts {
		if _, keyed := el.(*ast.KeyValueExpr); keyed {
			return val{}, f.errf(x, "keyed %s literal", t.goName())
		}
	}
	elem := func(el ast.Expr, want typ) (string, error) {
		var v val
		var err error
		if cl, ok := el.(*ast.CompositeLit); ok && cl.Type == nil {
			v, err = f.composite(cl, &want, e)
		} else {
			v, err = f.expr(el, e)
		}
		if err != nil {
			return "", err
		}
		if want.k == kInt {
			v, _ = asInt(v)
		}
		if !v.t.eq(want) {
			return "", f.errf(el, "element of type %s in a %s literal", v.t.goName(), t.goName())
		}
		return f.elemString(el, v)
	}
	if t.k == kList {
		if t.n > 0 && len(elts) != t.n {
			return val{}, f.errf(x, "%s literal with %d elements (partial literals are not modelled)", t.goName(), len(elts))
		}
		var es []string
		for _, el := range elts {
			s, err := elem(el, t.args[0])
			if err != nil {
				return val{}, err
			}
			es = append(es, s)
		}
		return val{s: "[" + strings.Join(es, "; ") + "]", t: t, fresh: true}, nil
	}
	shape, ok := map[kind]struct {
		mk string
		n  int
		el typ
	}{kV2: {"mkV2", 2, tT}, kV3: {"mkV3", 3, tT}, kBox2: {"mkBox2", 2, tV2}, kBox3: {"mkBox3", 2, tV3}, kP2: {"pair", 2, tT},
		kV2i: {"", 2, tInt}, kV3i: {"", 3, tInt}, kIval: {"", 2, tT}, kLine2: {"", 2, tV2}}[t.k]
	if !ok {
		return val{}, f.errf(x, "composite literal of %s", t.goName())
	}
	if len(elts) != shape.n {
		return val{}, f.errf(x, "%s literal with %d elements (partial literals are not modelled)", t.goName(), len(elts))
	}
	var es []string
	for _, el := range elts {
		s, err := elem(el, shape.el)
		if err != nil {
			return val{}, err
		}
		es = append(es, s)
	}
	if shape.mk == "" {
		return val{s: "(" + strings.Join(es, ", ") + ")", t: t}, nil
	}
	return val{s: "(" + shape.mk + " " + strings.Join(es, " ") + ")", t: t}, nil
}

func (f *fctx) expr(e0 ast.Expr, e env) (val, error) {
	switch x := e0.(type) {
	case *ast.ParenExpr:
		return f.expr(x.X, e)
	case *ast.BasicLit:
		if x.Kind != token.INT && x.Kind != token.FLOAT {
			return val{}, f.errf(x, "unsupported literal %s", x.Value)
		}
		r, ok := new(big.Rat).SetString(strings.ReplaceAll(x.Value, "_", ""))
		if !ok || strings.HasPrefix(x.Value, "0x") || strings.HasPrefix(x.Value, "0X") ||
			(x.Kind == token.INT && len(x.Value) > 1 && x.Value[0] == '0') {
			return val{}, f.errf(x, "unsupported literal %s", x.Value)
		}
		s, err := ratCoq(r)
		if err != nil {
			return val{}, f.errf(x, "%v", err)
		}
		return val{s: s, t: tT, konst: true, rat: r, isInt: x.Kind == token.INT}, nil
	case *ast.Ident:
		if b, ok := e[x.Name]; ok {
			if b.kval != nil {
				return *b.kval, nil
			}
			if b.fields != nil {
				return val{}, f.errf(x, "struct %s used as a value", x.Name)
			}
			if b.zero {
				z, _ := b.t.zero()
				return val{s: z, t: b.t, fresh: b.fresh || b.t.n > 0}, nil
			}
			return val{s: b.coq, t: b.t, bb: b.bb, fresh: b.fresh || b.t.n > 0}, nil
		}
		if x.Name == f.recv && f.recv != "" {
			return val{}, f.errf(x, "receiver %s used as a value", x.Name)
		}
		switch x.Name {
		case "true", "false":
			return val{s: x.Name, t: tBool}, nil
		}
		if _, ok := f.p.consts[x.Name]; ok {
			return f.g.constant(f.p, x.Name)
		}
		if fd, ok := f.p.funcs[x.Name]; ok && fd.Recv == nil {
			// a package-level function used as a value (s.extrude = NormalExtrude)
			d, err := f.g.translate(f.p, x.Name)
			if err != nil {
				return val{}, err
			}
			return val{s: d.Name, t: fnType(d.ret, d.params...)}, nil
		}
		return val{}, f.errf(x, "unknown identifier %s", x.Name)
	case *ast.SelectorExpr:
		if id, ok := x.X.(*ast.Ident); ok {
			if ip, isPkg := f.importOf(id, e); isPkg {
				if ip == "math" && x.Sel.Name == "Pi" {
					return val{s: "(opi O)", t: tT, konst: true, rat: ratPi}, nil
				}
				if ip == "math" && x.Sel.Name == "MaxFloat64" {
					return val{s: "(omaxf O)", t: tT, konst: true}, nil
				}
				if m, ok := mathFns[x.Sel.Name]; ok && ip == "math" {
					// math.Max as a function value (s.max = math.Max)
					return val{s: "(" + m.op + " O)", t: fnType(tT, []typ{tT, tT}[:m.n]...)}, nil
				}
				if q := f.g.byPath[ip]; q != nil {
					if _, ok := q.consts[x.Sel.Name]; ok {
						return f.g.constant(q, x.Sel.Name)
					}
				}
				return val{}, f.errf(x, "unsupported %s.%s", id.Name, x.Sel.Name)
			}
			if b, ok := e[id.Name]; ok && b.fields != nil {
				return f.builtField(x, b, id.Name, x.Sel.Name)
			}
			if id.Name == f.recv && f.recv != "" {
				if _, shadow := e[id.Name]; !shadow {
					return f.recvField(x, x.Sel.Name)
				}
			}
		}
		v, err := f.expr(x.X, e)
		if err != nil {
			return val{}, err
		}
		return f.field(x, v, x.Sel.Name)
	case *ast.IndexExpr:
		a, err := f.expr(x.X, e)
		if err != nil {
			return val{}, err
		}
		lit, ok := x.Index.(*ast.BasicLit)
		if a.t.k == kList {
			// xs[i]: indices are in range (Go panics otherwise); the default is never reached then
			z, okz := a.t.args[0].zero()
			if !okz {
				return val{}, f.errf(x, "index into a slice of %s", a.t.args[0].goName())
			}
			if ok && lit.Kind == token.INT {
				n, err := strconv.Atoi(lit.Value)
				if err != nil || n < 0 {
					return val{}, f.errf(x, "unsupported index %s", lit.Value)
				}
				return elemVal(fmt.Sprintf("(nth %d %s %s)", n, a.s, z), a.t.args[0]), nil
			}
			iv, err := f.expr(x.Index, e)
			if err != nil {
				return val{}, err
			}
			if iv.t.k != kInt {
				return val{}, f.errf(x, "index of type %s", iv.t.goName())
			}
			return elemVal(fmt.Sprintf("(nth (Z.to_nat %s) %s %s)", iv.s, a.s, z), a.t.args[0]), nil
		}
		if (a.t.k == kIval || a.t.k == kLine2) && ok && lit.Kind == token.INT && (lit.Value == "0" || lit.Value == "1") {
			rt := tT
			if a.t.k == kLine2 {
				rt = tV2
			}
			return val{s: "(" + map[string]string{"0": "fst", "1": "snd"}[lit.Value] + " " + a.s + ")", t: rt}, nil
		}
		size := map[kind]int{kM22: 4, kM33: 9, kM44: 16}[a.t.k]
		if !ok || lit.Kind != token.INT || size == 0 {
			return val{}, f.errf(x, "unsupported index expression")
		}
		i, err := strconv.Atoi(lit.Value)
		if err != nil || i < 0 || i >= size {
			return val{}, f.errf(x, "index %s out of range for %s", lit.Value, a.t.goName())
		}
		return val{s: fmt.Sprintf("(nth %d %s (o0 O))", i, a.s), t: tT}, nil
	case *ast.UnaryExpr:
		v, err := f.expr(x.X, e)
		if err != nil {
			return val{}, err
		}
		switch {
		case x.Op == token.SUB && v.t.k == kT:
			if v.konst && v.rat == nil {
				return val{}, f.errf(x, "negation of a constant whose value is not tracked")
			}
			if v.konst && v.rat.Sign() == 0 {
				return v, nil // the constant -0 is +0 in Go (there is no negative zero constant)
			}
			r := val{s: "(- " + v.s + ")", t: tT, konst: v.konst, isInt: v.isInt}
			if v.rat != nil {
				r.rat = new(big.Rat).Neg(v.rat)
			}
			if !v.konst {
				r.pos = v.s
			}
			return r, nil
		case x.Op == token.ADD && v.t.k == kT:
			return v, nil
		case x.Op == token.NOT && v.t.k == kBool:
			return val{s: "(negb " + v.s + ")", t: tBool}, nil
		}
		return val{}, f.errf(x, "unsupported unary %s on %s", x.Op, v.t.goName())
	case *ast.BinaryExpr:
		if (x.Op == token.EQL || x.Op == token.NEQ) && (isNil(x.X, e) || isNil(x.Y, e)) {
			// sdf == nil: wrapped SDF arguments are assumed non-nil (as the model does)
			other := x.X
			if isNil(x.X, e) {
				other = x.Y
			}
			v, err := f.expr(other, e)
			if err != nil {
				return val{}, err
			}
			if !v.t.iface {
				return val{}, f.errf(x, "comparison of %s with nil", v.t.goName())
			}
			if x.Op == token.EQL {
				return val{s: "false", t: tBool}, nil
			}
			return val{s: "true", t: tBool}, nil
		}
		a, err := f.expr(x.X, e)
		if err != nil {
			return val{}, err
		}
		b, err := f.expr(x.Y, e)
		if err != nil {
			return val{}, err
		}
		return f.binary(x, x.Op, a, b)
	case *ast.CompositeLit:
		return f.composite(x, nil, e)
	case *ast.CallExpr:
		return f.call(x, e)
	case *ast.FuncLit:
		// a closure captures variables by reference: only `return func(..) {..}` is the same thing in Gallina
		return val{}, f.errf(x, "function literal outside a return statement")
	}
	return val{}, f.errf(e0, "unsupported expression %T", e0)
}

func (f *fctx) bindParams(fl *ast.FieldList, e env) ([]Param, []typ, error) {
	var ps []Param
	var ts []typ
	idx := 0
	for _, p := range fl.List {
		if fl == f.skipList && len(p.Names) == 1 && idx == f.skipParam {
			idx++
			continue // the struct parameter that plays the receiver
		}
		t, err := f.goType(p.Type)
		if err != nil {
			return nil, nil, f.errf(p, "%v", err)
		}
		if len(p.Names) == 0 {
			return nil, nil, f.errf(p, "unnamed parameter")
		}
		for _, nm := range p.Names {
			idx++
			if fl == f.skipList && idx-1 == f.skipParam {
				continue
			}
			c := coqIdent(nm.Name)
			b := &binding{coq: c, t: t}
			ps = append(ps, Param{c, t.coq()})
			if t.iface {
				b.bb = c + "_bb"
				ps = append(ps, Param{b.bb, boxOf(t.args[0]).coq()})
			}
			e[nm.Name] = b
			ts = append(ts, t)
		}
	}
	return ps, ts, nil
}

func binders(ps []Param) string {
	var ss []string
	for _, p := range ps {
		ss = append(ss, fmt.Sprintf("(%s : %s)", p.Name, p.Type))
	}
	return strings.Join(ss, " ")
}

func (f *fctx) funcLit(x *ast.FuncLit, e env) (val, error) {
	t, err := f.g.funcType(f.p, f.file, x.Type)
	if err != nil {
		return val{}, f.errf(x, "%v", err)
	}
	for _, a := range t.args {
		if a.iface {
			return val{}, f.errf(x, "closure with an SDF parameter")
		}
	}
	inner := e.clone()
	for _, b := range inner {
		b.capt = true
	}
	ps, _, err := f.bindParams(x.Type.Params, inner)
	if err != nil {
		return val{}, err
	}
	f.results = append(f.results, *t.ret)
	if err := f.desugar(x.Body); err != nil {
		return val{}, err
	}
	body, err := f.stmts(x.Body.List, inner, nil, "      ")
	f.results = f.results[:len(f.results)-1]
	if err != nil {
		return val{}, err
	}
	return val{s: "(fun " + binders(ps) + " =>\n" + body + ")", t: t}, nil
}

// ---------------------------------------------------------------- constructors

// the SDF object a finished struct stands for: (T.Evaluate fields, T.BoundingBox fields)
func (f *fctx) pack(n ast.Node, b *binding, goVar string, pt typ) (string, error) {
	part := func(method string, want typ) (string, error) {
		d, err := f.g.translate(f.p, b.structName+"."+method)
		if err != nil {
			return "", err
		}
		var args []string
		for _, fn := range d.fields {
			v, err := f.builtField(n, b, goVar, fn)
			if err != nil {
				return "", err
			}
			args = append(args, v.s)
		}
		got := d.ret
		if len(d.params) != 0 {
			got = fnType(d.ret, d.params...)
		}
		if !got.eq(want) {
			return "", f.errf(n, "%s.%s has type %s, expected %s", b.structName, method, got.goName(), want.goName())
		}
		return app(d.Name, args), nil
	}
	ev, err := part("Evaluate", fnType(tT, pt))
	if err != nil {
		return "", err
	}
	bb, err := part("BoundingBox", boxOf(pt))
	if err != nil {
		return "", err
	}
	return "Some (" + ev + ", " + bb + ")", nil
}

// T{} / T{f: e, ..} of a struct type of this package: the lets binding its fields, and the struct binding
func (f *fctx) structLit(x *ast.CompositeLit, goVar string, e env, ind string) (string, *binding, error) {
	id, ok := x.Type.(*ast.Ident)
	if !ok || f.p.structs[id.Name] == nil {
		return "", nil, f.errf(x, "not a struct literal of this package")
	}
	b := &binding{coq: coqIdent(goVar), structName: id.Name, fields: map[string]*binding{}}
	var lets strings.Builder
	for _, el := range x.Elts {
		kv, ok := el.(*ast.KeyValueExpr)
		if !ok {
			return "", nil, f.errf(x, "positional %s literal", id.Name)
		}
		key, ok := kv.Key.(*ast.Ident)
		if !ok {
			return "", nil, f.errf(x, "unsupported key in %s literal", id.Name)
		}
		l, err := f.setField(kv, b, goVar, key.Name, kv.Value, e, ind)
		if err != nil {
			return "", nil, err
		}
		lets.WriteString(l)
	}
	return lets.String(), b, nil
}

// s.name = rhs on a struct under construction: `let s_name := rhs in`
func (f *fctx) setField(n ast.Node, b *binding, goVar, name string, rhs ast.Expr, e env, ind string) (string, error) {
	ft, ok, err := f.g.structField(f.p, b.structName, name)
	if err != nil || !ok {
		return "", f.errf(n, "field %s.%s: %v", b.structName, name, err)
	}
	v, err := f.expr(rhs, e)
	if err != nil {
		return "", err
	}
	if ft.k == kInt {
		v, _ = asInt(v)
	}
	if !v.t.eq(ft) {
		return "", f.errf(n, "assignment of %s to field %s.%s of type %s", v.t.goName(), goVar, name, ft.goName())
	}
	if v.t.k == kList && !v.fresh {
		return "", f.errf(n, "assignment of a slice that another variable refers to (aliasing is not modelled)")
	}
	c := b.coq + "_" + name
	b.fields[name] = &binding{coq: c, t: ft, bb: v.bb, fresh: v.fresh}
	return ind + "let " + c + " := " + v.s + " in\n", nil
}

// is the call a call of a constructor of this package (a function returning SDF2/SDF3[, error])?
func (f *fctx) ctorCall(x ast.Expr, e env) (*ast.CallExpr, bool) {
	c, ok := x.(*ast.CallExpr)
	if !ok {
		return nil, false
	}
	id, ok := c.Fun.(*ast.Ident)
	if !ok {
		return nil, false
	}
	if _, local := e[id.Name]; local {
		return nil, false
	}
	fd, ok := f.p.funcs[id.Name]
	if !ok || fd.Recv != nil {
		return nil, false
	}
	_, isCtor := f.g.ctorResult(f.p, f.p.fileOf[id.Name], fd)
	return c, isCtor
}

// result list (SDFn) or (SDFn, error)
func (g *gen) ctorResult(p *pkg, sf *srcFile, fd *ast.FuncDecl) (typ, bool) {
	if fd.Type.Results == nil {
		return typ{}, false
	}
	var ts []ast.Expr
	for _, r := range fd.Type.Results.List {
		if len(r.Names) != 0 {
			return typ{}, false
		}
		ts = append(ts, r.Type)
	}
	if len(ts) == 2 {
		if id, ok := ts[1].(*ast.Ident); !ok || id.Name != "error" {
			return typ{}, false
		}
	} else if len(ts) != 1 {
		return typ{}, false
	}
	t, err := g.goType(p, sf, ts[0])
	if err != nil || !t.iface {
		return typ{}, false
	}
	return objOptType(t.args[0]), true
}

func (f *fctx) ctorReturn(s *ast.ReturnStmt, e env, want typ, ind string) (string, error) {
	if len(s.Results) < 1 || len(s.Results) > 2 {
		return "", f.errf(s, "return of %d values from a constructor", len(s.Results))
	}
	if len(s.Results) == 2 && !isNil(s.Results[1], e) {
		// the error value: ErrMsg(..), errors.New(..), fmt.Errorf(..) - only nil-ness matters
		if _, ok := s.Results[1].(*ast.CallExpr); !ok || !isNil(s.Results[0], e) {
			return "", f.errf(s, "unsupported error result")
		}
	}
	r := s.Results[0]
	if isNil(r, e) {
		return ind + "None", nil
	}
	if c, ok := f.ctorCall(r, e); ok {
		// return Extrude3D(sdf, height), nil / return Cylinder3D(h, r, r): the callee's result
		v, err := f.callDef(c, f.p, c.Fun.(*ast.Ident).Name, nil, c.Args, e)
		if err != nil {
			return "", err
		}
		if !v.t.eq(want) {
			return "", f.errf(s, "return of %s, expected %s", v.t.goName(), want.goName())
		}
		return ind + v.s, nil
	}
	if u, ok := r.(*ast.UnaryExpr); ok && u.Op == token.AND {
		switch x := u.X.(type) {
		case *ast.Ident:
			if b, ok := e[x.Name]; ok && b.fields != nil {
				o, err := f.pack(s, b, x.Name, want.args[0])
				return ind + o, err
			}
		case *ast.CompositeLit:
			lets, b, err := f.structLit(x, "s", e, ind)
			if err != nil {
				return "", err
			}
			o, err := f.pack(s, b, "s", want.args[0])
			return lets + ind + o, err
		}
		return "", f.errf(s, "unsupported constructor result &%s", exprString(u.X))
	}
	v, err := f.expr(r, e)
	if err != nil {
		return "", err
	}
	if !v.t.iface || !v.t.args[0].eq(want.args[0]) || v.bb == "" {
		return "", f.errf(s, "unsupported constructor result of type %s", v.t.goName())
	}
	return ind + "Some (" + v.s + ", " + v.bb + ")", nil
}

// ---------------------------------------------------------------- statements

// tail: the variables a statement list yields when control falls off its end (a branch of an
// if statement or the body of a loop that assigns them); nil = falling off the end is an error
// (function body).  A variable is a local "x" or a field "s.f" of a struct under construction.
type tail struct {
	vars []string
	loop bool // the body of a loop: `continue` yields the variables
	proc bool // the top level of the body of a procedure / mutator: a bare `return` as its last statement ends it
}

// desugar rewrites `switch {case c1: ..; default: ..}` and `switch x {case a, b: ..}` into
// if / else-if chains, in place (cases are tried in order, the default last; Go's switch has no
// implicit fall-through, and break / fallthrough inside a case are refused).
func (f *fctx) desugar(b *ast.BlockStmt) error {
	if b == nil {
		return nil
	}
	var out []ast.Stmt
	for _, st := range b.List {
		n, err := f.desugarStmt(st)
		if err != nil {
			return err
		}
		if blk, ok := n.(*ast.BlockStmt); ok && blk.Lbrace == token.NoPos {
			// a statement that desugars into several (the tag of a switch bound to a temporary first)
			out = append(out, blk.List...)
			continue
		}
		out = append(out, n)
	}
	b.List = out
	return nil
}

func (f *fctx) desugarStmt(st ast.Stmt) (ast.Stmt, error) {
	switch x := st.(type) {
	case *ast.BlockStmt:
		return x, f.desugar(x)
	case *ast.IfStmt:
		if err := f.desugar(x.Body); err != nil {
			return nil, err
		}
		if x.Else != nil {
			n, err := f.desugarStmt(x.Else)
			if err != nil {
				return nil, err
			}
			x.Else = n
		}
		return x, nil
	case *ast.ForStmt:
		return x, f.desugar(x.Body)
	case *ast.RangeStmt:
		return x, f.desugar(x.Body)
	case *ast.IncDecStmt:
		// x++ / x-- on a variable: x += 1 / x -= 1
		tok := token.ADD_ASSIGN
		if x.Tok == token.DEC {
			tok = token.SUB_ASSIGN
		}
		return &ast.AssignStmt{Lhs: []ast.Expr{x.X}, TokPos: x.TokPos, Tok: tok,
			Rhs: []ast.Expr{&ast.BasicLit{ValuePos: x.TokPos, Kind: token.INT, Value: "1"}}}, nil
	case *ast.SwitchStmt:
		var pre []ast.Stmt
		if x.Tag != nil {
			// the tag is evaluated once and compared with each case value: anything but a variable or a
			// field is bound to a temporary first
			switch x.Tag.(type) {
			case *ast.Ident, *ast.SelectorExpr:
			default:
				if x.Init != nil {
					return nil, f.errf(x, "switch with an init clause and a tag that is not a variable or a field")
				}
				f.ntmp++
				tmp := &ast.Ident{NamePos: x.Tag.Pos(), Name: fmt.Sprintf("switchTag%d", f.ntmp)}
				pre = append(pre, &ast.AssignStmt{Lhs: []ast.Expr{tmp}, TokPos: x.Tag.Pos(), Tok: token.DEFINE, Rhs: []ast.Expr{x.Tag}})
				x.Tag = tmp
			}
		}
		var def *ast.CaseClause
		var cases []*ast.CaseClause
		for _, c := range x.Body.List {
			cc := c.(*ast.CaseClause)
			bad := false
			for _, bs := range cc.Body {
				ast.Inspect(bs, func(n ast.Node) bool {
					switch y := n.(type) {
					case *ast.FuncLit, *ast.ForStmt, *ast.RangeStmt:
						return false
					case *ast.BranchStmt:
						if y.Tok == token.BREAK || y.Tok == token.FALLTHROUGH || y.Tok == token.GOTO {
							bad = true
						}
					}
					return true
				})
			}
			if bad {
				return nil, f.errf(cc, "break / fallthrough inside a switch case")
			}
			blk := &ast.BlockStmt{Lbrace: cc.Colon, List: cc.Body, Rbrace: cc.End()}
			if err := f.desugar(blk); err != nil {
				return nil, err
			}
			cc.Body = blk.List
			if cc.List == nil {
				if def != nil {
					return nil, f.errf(cc, "two default clauses")
				}
				def = cc
			} else {
				cases = append(cases, cc)
			}
		}
		var tailStmt ast.Stmt
		if def != nil {
			tailStmt = &ast.BlockStmt{Lbrace: def.Colon, List: def.Body, Rbrace: def.End()}
		}
		for i := len(cases) - 1; i >= 0; i-- {
			cc := cases[i]
			var cond ast.Expr
			for _, v := range cc.List {
				c := v
				if x.Tag != nil {
					c = &ast.BinaryExpr{X: x.Tag, OpPos: v.Pos(), Op: token.EQL, Y: v}
				}
				if cond == nil {
					cond = c
				} else {
					cond = &ast.BinaryExpr{X: cond, OpPos: v.Pos(), Op: token.LOR, Y: c}
				}
			}
			tailStmt = &ast.IfStmt{If: cc.Pos(), Cond: cond, Body: &ast.BlockStmt{Lbrace: cc.Colon, List: cc.Body, Rbrace: cc.End()}, Else: tailStmt}
		}
		if tailStmt == nil {
			tailStmt = &ast.EmptyStmt{Semicolon: x.Pos()}
		}
		if x.Init != nil {
			// switch x := e; .. {..}: x is in scope of the cases only - the same as `if x := e; c {..} else ..`
			ifs, ok := tailStmt.(*ast.IfStmt)
			if !ok {
				return nil, f.errf(x, "switch with an init clause and no case")
			}
			ifs.Init = x.Init
		}
		if pre != nil {
			return &ast.BlockStmt{List: append(pre, tailStmt)}, nil // Lbrace == NoPos: spliced by desugar
		}
		return tailStmt, nil
	}
	return st, nil
}

func stmtList(s ast.Stmt) []ast.Stmt {
	switch x := s.(type) {
	case nil:
		return nil
	case *ast.BlockStmt:
		return x.List
	}
	return []ast.Stmt{s}
}

// every path through the list ends in a return
func terminates(list []ast.Stmt) bool {
	if len(list) == 0 {
		return false
	}
	switch x := list[len(list)-1].(type) {
	case *ast.ReturnStmt:
		return true
	case *ast.BranchStmt:
		return x.Tok == token.CONTINUE && x.Label == nil
	case *ast.IfStmt:
		return x.Else != nil && terminates(x.Body.List) && terminates(stmtList(x.Else))
	}
	return false
}

func containsReturn(list []ast.Stmt) bool {
	found := false
	for _, s := range list {
		ast.Inspect(s, func(n ast.Node) bool {
			switch n.(type) {
			case *ast.FuncLit:
				return false
			case *ast.ReturnStmt:
				found = true
			}
			return true
		})
	}
	return found
}

// the in-place procedure a call statement invokes (a function of this package without results
// that writes into slice parameters), if it is one
func (f *fctx) procCall(s ast.Stmt, e env) (*ast.CallExpr, *Def, error) {
	es, ok := s.(*ast.ExprStmt)
	if !ok {
		return nil, nil, nil
	}
	c, ok := es.X.(*ast.CallExpr)
	if !ok {
		return nil, nil, f.errf(s, "unsupported expression statement")
	}
	id, ok := c.Fun.(*ast.Ident)
	if !ok {
		return nil, nil, f.errf(s, "unsupported call statement %s", exprString(c.Fun))
	}
	if _, local := e[id.Name]; local {
		return nil, nil, f.errf(s, "call statement of the function value %s", id.Name)
	}
	fd, ok := f.p.funcs[id.Name]
	if !ok || fd.Recv != nil || fd.Type.Results != nil {
		return nil, nil, f.errf(s, "call statement %s(..): not a procedure of this package", id.Name)
	}
	d, err := f.g.translate(f.p, id.Name)
	if err != nil {
		return nil, nil, err
	}
	if d.mutates == nil {
		return nil, nil, f.errf(s, "call statement %s(..) without effect", id.Name)
	}
	return c, d, nil
}

// variables of the enclosing scopes assigned by the list, in order of first assignment:
// "x" (also for x[i] = e and for x passed to an in-place procedure) or "s.f"
func (f *fctx) assignedOuter(list []ast.Stmt, declared map[string]bool, e env, out *[]string) error {
	local := map[string]bool{}
	for k := range declared {
		local[k] = true
	}
	add := func(n string) {
		if local[n] {
			return
		}
		for _, o := range *out {
			if o == n {
				return
			}
		}
		*out = append(*out, n)
	}
	for _, s := range list {
		switch x := s.(type) {
		case *ast.AssignStmt:
			for _, l := range x.Lhs {
				switch id := l.(type) {
				case *ast.Ident:
					if x.Tok == token.DEFINE {
						local[id.Name] = true
					} else {
						add(id.Name)
					}
				case *ast.IndexExpr:
					if base, ok := id.X.(*ast.Ident); ok {
						add(base.Name)
					} else {
						add(exprString(l))
					}
				default:
					add(exprString(l))
				}
			}
		case *ast.IncDecStmt:
			add(exprString(x.X))
		case *ast.DeclStmt:
			if gd, ok := x.Decl.(*ast.GenDecl); ok {
				for _, sp := range gd.Specs {
					if vs, ok := sp.(*ast.ValueSpec); ok {
						for _, n := range vs.Names {
							local[n.Name] = true
						}
					}
				}
			}
		case *ast.IfStmt:
			inner := local
			if as, ok := x.Init.(*ast.AssignStmt); ok && as.Tok == token.DEFINE {
				inner = map[string]bool{}
				for k := range local {
					inner[k] = true
				}
				for _, l := range as.Lhs {
					if id, ok := l.(*ast.Ident); ok {
						inner[id.Name] = true
					}
				}
			}
			if err := f.assignedOuter(x.Body.List, inner, e, out); err != nil {
				return err
			}
			if err := f.assignedOuter(stmtList(x.Else), inner, e, out); err != nil {
				return err
			}
		case *ast.ForStmt:
			inner := map[string]bool{}
			for k := range local {
				inner[k] = true
			}
			if as, ok := x.Init.(*ast.AssignStmt); ok && as.Tok == token.DEFINE {
				for _, l := range as.Lhs {
					if id, ok := l.(*ast.Ident); ok {
						inner[id.Name] = true
					}
				}
			}
			if err := f.assignedOuter(x.Body.List, inner, e, out); err != nil {
				return err
			}
		case *ast.RangeStmt:
			inner := map[string]bool{}
			for k := range local {
				inner[k] = true
			}
			if x.Tok == token.DEFINE {
				for _, l := range []ast.Expr{x.Key, x.Value} {
					if id, ok := l.(*ast.Ident); ok {
						inner[id.Name] = true
					}
				}
			}
			if err := f.assignedOuter(x.Body.List, inner, e, out); err != nil {
				return err
			}
		case *ast.ExprStmt:
			c, d, err := f.procCall(x, e)
			if err != nil {
				return err
			}
			for _, i := range d.mutates {
				if id, ok := c.Args[i].(*ast.Ident); ok {
					add(id.Name)
				} else {
					add(exprString(c.Args[i]))
				}
			}
		}
	}
	return nil
}

// the struct type T of this package when the function has the single result T or *T
func (f *fctx) structResultName(fd *ast.FuncDecl) (string, bool) {
	if fd.Type.Results == nil || len(fd.Type.Results.List) != 1 || len(fd.Type.Results.List[0].Names) != 0 {
		return "", false
	}
	t := fd.Type.Results.List[0].Type
	if st, ok := t.(*ast.StarExpr); ok {
		t = st.X
	}
	id, ok := t.(*ast.Ident)
	if !ok || f.p.structs[id.Name] == nil {
		return "", false
	}
	if _, err := f.g.namedType(f.p, id.Name); err == nil {
		return "", false // Box2, Box3, ...: types with a model of their own
	}
	return id.Name, true
}

// the binding of an assignable variable: a local "x" or a field "s.f" of a struct under construction
// (a field that has not been assigned yet holds its zero value)
func (f *fctx) lookupVar(n ast.Node, e env, key string) (*binding, error) {
	if i := strings.Index(key, "."); i >= 0 {
		sb, ok := e[key[:i]]
		name := key[i+1:]
		if !ok || sb.fields == nil || strings.ContainsAny(name, ".[(") {
			return nil, f.errf(n, "assignment to %s: not a variable of this function", key)
		}
		if sb.capt {
			return nil, f.errf(n, "assignment to %s inside a closure", key)
		}
		if fb, ok := sb.fields[name]; ok {
			return fb, nil
		}
		t, ok, err := f.g.structField(f.p, sb.structName, name)
		if err != nil || !ok {
			return nil, f.errf(n, "field %s.%s: %v", sb.structName, name, err)
		}
		if _, hasZero := t.zero(); !hasZero || t.iface || sb.mutated {
			return nil, f.errf(n, "field %s is assigned on some paths only and has no zero value", key)
		}
		fb := &binding{coq: sb.coq + "_" + name, t: t, zero: true, fresh: true}
		sb.fields[name] = fb
		return fb, nil
	}
	b, ok := e[key]
	if !ok || b.fields != nil || b.t.iface || b.kval != nil || strings.ContainsAny(key, "[(*") {
		return nil, f.errf(n, "assignment to %s: not a plain local variable", key)
	}
	if b.capt {
		return nil, f.errf(n, "assignment to %s, a variable of the enclosing function, inside a closure", key)
	}
	return b, nil
}

func (b *binding) cur() string {
	if b.zero {
		z, _ := b.t.zero()
		return z
	}
	return b.coq
}

func tuple(ss []string) string {
	if len(ss) == 1 {
		return ss[0]
	}
	return "(" + strings.Join(ss, ", ") + ")"
}

func pattern(ss []string) string {
	if len(ss) == 1 {
		return ss[0]
	}
	return "'(" + strings.Join(ss, ", ") + ")"
}

func declares(list []ast.Stmt) bool {
	for _, s := range list {
		switch x := s.(type) {
		case *ast.AssignStmt:
			if x.Tok == token.DEFINE {
				return true
			}
		case *ast.DeclStmt:
			return true
		}
	}
	return false
}

func indentMore(s string) string {
	return "  " + strings.ReplaceAll(s, "\n", "\n  ")
}

func sameVars(a, b []string) bool {
	if len(a) != len(b) {
		return false
	}
	for i := range a {
		if a[i] != b[i] {
			return false
		}
	}
	return true
}

// does the expression read one of the variables ("x" or "s.f")?
func mentions(x ast.Expr, vars []string) bool {
	found := false
	ast.Inspect(x, func(n ast.Node) bool {
		switch y := n.(type) {
		case *ast.SelectorExpr:
			for _, v := range vars {
				if exprString(y) == v {
					found = true
				}
			}
		case *ast.Ident:
			for _, v := range vars {
				if y.Name == v {
					found = true
				}
			}
		}
		return true
	})
	return found
}

// does the statement mention the identifier?
func mentions2(st ast.Stmt, name string) bool {
	found := false
	ast.Inspect(st, func(n ast.Node) bool {
		if id, ok := n.(*ast.Ident); ok && id.Name == name {
			found = true
		}
		return true
	})
	return found
}

// the statements change the slice variable `name` by index assignments only (v[k] = e, in-place
// procedures): its length is invariant
func onlyIndexAssigned(list []ast.Stmt, name string) bool {
	ok := true
	for _, st := range list {
		ast.Inspect(st, func(n ast.Node) bool {
			switch x := n.(type) {
			case *ast.AssignStmt:
				for _, l := range x.Lhs {
					if id, isId := l.(*ast.Ident); isId && id.Name == name {
						ok = false
					}
				}
			case *ast.RangeStmt:
				for _, l := range []ast.Expr{x.Key, x.Value} {
					if id, isId := l.(*ast.Ident); isId && id.Name == name {
						ok = false
					}
				}
			case *ast.DeclStmt:
				if gd, isGd := x.Decl.(*ast.GenDecl); isGd {
					for _, sp := range gd.Specs {
						if vs, isVs := sp.(*ast.ValueSpec); isVs {
							for _, nm := range vs.Names {
								if nm.Name == name {
									ok = false
								}
							}
						}
					}
				}
			case *ast.UnaryExpr:
				if id, isId := x.X.(*ast.Ident); isId && x.Op == token.AND && id.Name == name {
					ok = false // &v escapes
				}
			}
			return true
		})
	}
	return ok
}

// how many statements of the function (re)define or assign the variable or field `name` ("x", "s.f"),
// index assignments and in-place procedures included
func countAssignments(root ast.Node, name string) int {
	n := 0
	base := func(x ast.Expr) string {
		for {
			switch y := x.(type) {
			case *ast.IndexExpr:
				x = y.X
				continue
			case *ast.ParenExpr:
				x = y.X
				continue
			case *ast.StarExpr:
				x = y.X
				continue
			}
			return exprString(x)
		}
	}
	ast.Inspect(root, func(nd ast.Node) bool {
		switch x := nd.(type) {
		case *ast.AssignStmt:
			for _, l := range x.Lhs {
				if base(l) == name {
					n++
				}
			}
		case *ast.IncDecStmt:
			if base(x.X) == name {
				n++
			}
		case *ast.RangeStmt:
			for _, l := range []ast.Expr{x.Key, x.Value} {
				if l != nil && base(l) == name {
					n++
				}
			}
		case *ast.DeclStmt:
			if gd, ok := x.Decl.(*ast.GenDecl); ok {
				for _, sp := range gd.Specs {
					if vs, ok := sp.(*ast.ValueSpec); ok {
						for _, nm := range vs.Names {
							if nm.Name == name {
								n++
							}
						}
					}
				}
			}
		case *ast.CallExpr:
			// a slice passed to a function of this package may be written by it; &x escapes
			if id, ok := x.Fun.(*ast.Ident); !ok || (id.Name != "len" && id.Name != "cap") {
				for _, a := range x.Args {
					if base(a) == name {
						n++
					}
				}
			}
		case *ast.UnaryExpr:
			if x.Op == token.AND && base(x.X) == name {
				n++
			}
		}
		return true
	})
	return n
}

// lenOperand: the loop bound is the length of a slice that the loop cannot change - `len(xs)` itself, or a
// local `n` that was defined once as `n := len(xs)` where xs is never assigned in the function (a parameter,
// a receiver field).  Then `for i := 0; i < bound; i++` is a loop over xs.
func (f *fctx) lenOperand(limit ast.Expr, e env, body []ast.Stmt, vars []string) *val {
	isLen := func(x ast.Expr) (ast.Expr, bool) {
		c, ok := x.(*ast.CallExpr)
		if !ok || len(c.Args) != 1 {
			return nil, false
		}
		id, ok := c.Fun.(*ast.Ident)
		if !ok || id.Name != "len" {
			return nil, false
		}
		if _, shadow := e["len"]; shadow {
			return nil, false
		}
		return c.Args[0], true
	}
	if arg, ok := isLen(limit); ok {
		// the operand may be a slice the body writes by index (its length is invariant)
		if mentions(arg, vars) {
			id, isId := arg.(*ast.Ident)
			if !isId || !onlyIndexAssigned(body, id.Name) {
				return nil
			}
		}
		v, err := f.expr(arg, e)
		if err != nil || v.t.k != kList {
			return nil
		}
		return &v
	}
	if id, ok := limit.(*ast.Ident); ok {
		if b := e[id.Name]; b != nil && b.lenOf != nil && f.body != nil &&
			countAssignments(f.body, id.Name) == 1 && countAssignments(f.body, b.lenSrc) == 0 {
			return b.lenOf
		}
	}
	return nil
}

// loop translates
//
//	for _, x := range xs {..}   -> range_loop xs 0 (fun _ x st => ..) st0
//	for i := range xs {..}      -> range_loop xs 0 (fun i _ st => ..) st0
//	for i, x := range xs {..}   -> range_loop xs 0 (fun i x st => ..) st0
//	for i := 0; i < n; i++ {..} -> count_loop (Z.to_nat n) 0 (fun i st => ..) st0
//
// where st is the tuple of the variables of the enclosing scopes the body assigns (Num/Loop.v).
// The range expression / the bound is evaluated once, before the loop (Go re-evaluates the bound:
// it must not depend on anything the body assigns).
func (f *fctx) loop(st ast.Stmt, rest []ast.Stmt, e env, tl *tail, ind string) (string, error) {
	var body []ast.Stmt
	loopVars := map[string]bool{}
	switch s := st.(type) {
	case *ast.RangeStmt:
		if s.Tok != token.DEFINE && (s.Key != nil || s.Value != nil) {
			return "", f.errf(s, "range loop without := variables")
		}
		for _, l := range []ast.Expr{s.Key, s.Value} {
			if l == nil {
				continue
			}
			id, ok := l.(*ast.Ident)
			if !ok {
				return "", f.errf(s, "unsupported range variable")
			}
			loopVars[id.Name] = true
		}
		body = s.Body.List
	case *ast.ForStmt:
		body = s.Body.List
	}
	var vars []string
	if err := f.assignedOuter(body, loopVars, e, &vars); err != nil {
		return "", err
	}
	if len(vars) == 0 {
		return "", f.errf(st, "loop without effect")
	}
	var names, init []string
	for _, v := range vars {
		b, err := f.lookupVar(st, e, v)
		if err != nil {
			return "", err
		}
		names = append(names, b.coq)
		init = append(init, b.cur())
	}
	inner := e.clone()
	for _, v := range vars {
		b, _ := f.lookupVar(st, inner, v)
		b.zero = false
	}
	var head, pre string
	switch s := st.(type) {
	case *ast.RangeStmt:
		xs, err := f.expr(s.X, e)
		if err != nil {
			return "", err
		}
		key, _ := s.Key.(*ast.Ident)
		val, _ := s.Value.(*ast.Ident)
		if xi, isInt := asInt(xs); isInt && xs.t.k != kList {
			// for i := range n (Go 1.22): n iterations, i = 0 .. n-1; n is evaluated once
			if val != nil || mentions(s.X, vars) {
				return "", f.errf(s, "unsupported range over an integer")
			}
			iname := "_"
			if key != nil && key.Name != "_" {
				iname = coqIdent(key.Name)
				inner[key.Name] = &binding{coq: iname, t: tInt}
			}
			head = "count_loop (Z.to_nat " + xi.s + ") 0%Z (fun " + iname + " " + pattern(names) + " =>"
			break
		}
		if xs.t.k != kList {
			return "", f.errf(s, "range over %s", xs.t.goName())
		}
		if key == nil || (key.Name == "_" && (val == nil || val.Name == "_")) {
			return "", f.errf(s, "range loop without variables")
		}
		iname, xname := "_", "_"
		if key.Name != "_" {
			iname = coqIdent(key.Name)
			inner[key.Name] = &binding{coq: iname, t: tInt}
		}
		if val != nil && val.Name != "_" {
			if mentions(s.X, vars) && xs.t.n == 0 {
				// for i, x := range v { .. v[k] = e .. }: the range expression is evaluated once (so the number of
				// iterations is fixed), but x is v[i] as it is when iteration i starts (a slice shares its array).
				// Modelled when v is a local slice whose length the body cannot change (index assignments only).
				id, isId := s.X.(*ast.Ident)
				if !isId || !onlyIndexAssigned(body, id.Name) {
					return "", f.errf(s, "range loop with a value variable over a slice the body re-assigns")
				}
				vb, err := f.lookupVar(s, inner, id.Name)
				if err != nil {
					return "", err
				}
				z, okz := xs.t.args[0].zero()
				if !okz {
					return "", f.errf(s, "range over a slice of %s", xs.t.args[0].goName())
				}
				if iname == "_" {
					iname = "rangeIndex_"
				}
				ev := elemVal(fmt.Sprintf("(nth (Z.to_nat %s) %s %s)", iname, vb.coq, z), xs.t.args[0])
				xc := coqIdent(val.Name)
				if ev.bb != "" {
					return "", f.errf(s, "range with a value variable over a slice of SDFs the body modifies")
				}
				pre = ind + "      let " + xc + " := " + ev.s + " in\n"
				inner[val.Name] = &binding{coq: xc, t: ev.t}
			} else {
				xname = coqIdent(val.Name)
				ev := elemVal(xname, xs.t.args[0])
				inner[val.Name] = &binding{coq: ev.s, t: ev.t, bb: ev.bb}
			}
		}
		// one normal form for every loop over a slice: range_loop (the body may use the index, the element, both)
		head = "range_loop " + xs.s + " 0%Z (fun " + iname + " " + xname + " " + pattern(names) + " =>"
	case *ast.ForStmt:
		// for i := a; i < n; i++   (also `n > i`, `i += 1`, `i = i + 1`)
		as, ok := s.Init.(*ast.AssignStmt)
		var iv *ast.Ident
		if ok && as.Tok == token.DEFINE && len(as.Lhs) == 1 && len(as.Rhs) == 1 {
			iv, _ = as.Lhs[0].(*ast.Ident)
		}
		if iv == nil || iv.Name == "_" {
			return "", f.errf(s, "unsupported for statement (only `for i := a; i < n; i++`)")
		}
		isIv := func(x ast.Expr) bool { id, ok := x.(*ast.Ident); return ok && id.Name == iv.Name }
		var limit ast.Expr
		if cond, _ := s.Cond.(*ast.BinaryExpr); cond != nil {
			switch {
			case cond.Op == token.LSS && isIv(cond.X):
				limit = cond.Y
			case cond.Op == token.GTR && isIv(cond.Y):
				limit = cond.X
			}
		}
		okPost := false
		switch post := s.Post.(type) {
		case *ast.IncDecStmt:
			okPost = post.Tok == token.INC && isIv(post.X)
		case *ast.AssignStmt:
			if len(post.Lhs) == 1 && len(post.Rhs) == 1 && isIv(post.Lhs[0]) {
				one := func(x ast.Expr) bool { l, ok := x.(*ast.BasicLit); return ok && l.Kind == token.INT && l.Value == "1" }
				switch post.Tok {
				case token.ADD_ASSIGN:
					okPost = one(post.Rhs[0])
				case token.ASSIGN:
					be, _ := post.Rhs[0].(*ast.BinaryExpr)
					okPost = be != nil && be.Op == token.ADD && ((isIv(be.X) && one(be.Y)) || (one(be.X) && isIv(be.Y)))
				}
			}
		}
		if limit == nil || !okPost {
			return "", f.errf(s, "unsupported for statement (only `for i := a; i < n; i++`)")
		}
		for _, v := range vars {
			if v == iv.Name {
				return "", f.errf(s, "the loop body assigns the loop counter")
			}
		}
		if mentions(as.Rhs[0], append([]string{iv.Name}, vars...)) {
			return "", f.errf(s, "the start of the loop counter depends on a variable the loop assigns")
		}
		start, err := f.expr(as.Rhs[0], e)
		if err != nil {
			return "", err
		}
		start, isInt := asInt(start)
		if !isInt {
			return "", f.errf(s, "loop counter of type %s", start.t.goName())
		}
		from0 := start.konst && start.rat != nil && start.rat.Sign() == 0
		iname := coqIdent(iv.Name)
		inner[iv.Name] = &binding{coq: iname, t: tInt}
		// i < len(xs), or i < n where n := len(xs) and neither changed since: a loop over the slice xs
		if over := f.lenOperand(limit, e, body, vars); over != nil && from0 {
			head = "range_loop " + over.s + " 0%Z (fun " + iname + " _ " + pattern(names) + " =>"
			break
		}
		if mentions(limit, append([]string{iv.Name}, vars...)) {
			return "", f.errf(s, "the loop bound depends on a variable the loop assigns")
		}
		bound, err := f.expr(limit, e)
		if err != nil {
			return "", err
		}
		bound, isInt = asInt(bound)
		if !isInt {
			return "", f.errf(s, "loop bound of type %s", bound.t.goName())
		}
		if from0 {
			head = "count_loop (Z.to_nat " + bound.s + ") 0%Z (fun " + iname + " " + pattern(names) + " =>"
		} else {
			head = "count_loop (Z.to_nat (Z.sub " + bound.s + " " + start.s + ")) " + start.s + " (fun " + iname + " " + pattern(names) + " =>"
		}
	}
	b, err := f.stmts(body, inner, &tail{vars: vars, loop: true}, ind+"      ")
	if err != nil {
		return "", err
	}
	for _, v := range vars {
		ob, _ := f.lookupVar(st, e, v)
		ob.zero = false
	}
	call := ind + "  " + head + "\n" + pre + b + ")\n" + ind + "    " + tuple(init)
	if len(rest) == 0 && tl != nil && sameVars(tl.vars, vars) {
		return call, nil
	}
	r, err := f.stmts(rest, e, tl, ind)
	if err != nil {
		return "", err
	}
	return ind + "let " + pattern(names) + " :=\n" + call + " in\n" + r, nil
}

// stmts translates a statement list into one Gallina expression; every line is indented by ind.
func (f *fctx) stmts(list []ast.Stmt, e env, tl *tail, ind string) (string, error) {
	if len(list) == 0 {
		if tl == nil {
			return "", fmt.Errorf("sdfgen: %s.%s: control reaches the end of the function without a return", f.p.name, f.key)
		}
		var vs []string
		for _, v := range tl.vars {
			b, err := f.lookupVar(nil, e, v)
			if err != nil {
				return "", err
			}
			vs = append(vs, b.cur())
		}
		return ind + tuple(vs), nil
	}
	st, rest := list[0], list[1:]
	last := func(vars ...string) bool { return len(rest) == 0 && tl != nil && sameVars(tl.vars, vars) }
	switch s := st.(type) {
	case *ast.EmptyStmt:
		return f.stmts(rest, e, tl, ind)

	case *ast.DeclStmt:
		gd, ok := s.Decl.(*ast.GenDecl)
		if !ok || (gd.Tok != token.VAR && gd.Tok != token.CONST) {
			return "", f.errf(s, "unsupported declaration")
		}
		var lets strings.Builder
		for _, sp := range gd.Specs {
			vs := sp.(*ast.ValueSpec)
			var t typ
			if vs.Type != nil {
				var err error
				if t, err = f.goType(vs.Type); err != nil {
					return "", f.errf(s, "%v", err)
				}
			}
			if gd.Tok == token.CONST {
				// const k = e / const k float64 = e: the value stands for the name (as the compiler does)
				if len(vs.Values) != len(vs.Names) {
					return "", f.errf(s, "constant declaration without a value for every name (iota-style)")
				}
				for i, n := range vs.Names {
					v, err := f.expr(vs.Values[i], e)
					if err != nil {
						return "", err
					}
					if !v.konst || v.t.k != kT {
						return "", f.errf(s, "local constant %s is not a numeric constant", n.Name)
					}
					if vs.Type != nil {
						switch t.k {
						case kT:
							v.isInt = false
						case kInt:
							if v, ok = asInt(v); !ok {
								return "", f.errf(s, "local constant %s is not an integer", n.Name)
							}
						default:
							return "", f.errf(s, "local constant of type %s", t.goName())
						}
					}
					kv := v
					e[n.Name] = &binding{coq: coqIdent(n.Name), t: v.t, kval: &kv}
				}
				continue
			}
			if len(vs.Values) != 0 {
				// var x T = e / var x = e / var a, b = e1, e2: declarations with initial values
				if len(vs.Values) != len(vs.Names) {
					return "", f.errf(s, "var declaration initialised by a multi-valued expression")
				}
				var vals []val
				for _, ex := range vs.Values {
					var v val
					var err error
					if cl, ok := ex.(*ast.CompositeLit); ok && cl.Type == nil && vs.Type != nil {
						v, err = f.composite(cl, &t, e)
					} else {
						v, err = f.expr(ex, e)
					}
					if err != nil {
						return "", err
					}
					vals = append(vals, v)
				}
				var lnames, lvals []string
				newb := map[string]*binding{}
				for i, n := range vs.Names {
					v := vals[i]
					if vs.Type != nil {
						switch {
						case t.k == kInt:
							v, _ = asInt(v)
						case t.k == kT && v.t.k == kT:
							v.isInt = false // var x float64 = 1 is a float64
						}
						if !v.t.eq(t) {
							return "", f.errf(s, "var %s %s initialised with %s", n.Name, t.goName(), v.t.goName())
						}
					} else if v.konst && v.isInt {
						v, _ = asInt(v) // var x = 0 declares an int
					}
					if v.t.k == kList && !v.fresh {
						return "", f.errf(s, "assignment of a slice that another variable refers to (aliasing is not modelled)")
					}
					if v.t.k == kFn && !v.t.iface {
						return "", f.errf(s, "var declaration of type %s", v.t.goName())
					}
					if n.Name == "_" {
						continue
					}
					b := &binding{coq: coqIdent(n.Name), t: v.t, bb: v.bb, fresh: v.fresh}
					if v.t.iface {
						b.coq = v.s // an SDF value is two names: an alias
					} else {
						lnames, lvals = append(lnames, b.coq), append(lvals, v.s)
					}
					newb[n.Name] = b
				}
				// all initial values are evaluated before any of the names is in scope
				for k, b := range newb {
					e[k] = b
				}
				if len(lnames) == 1 {
					lets.WriteString(ind + "let " + lnames[0] + " := " + lvals[0] + " in\n")
				} else if len(lnames) > 1 {
					lets.WriteString(ind + "let '(" + strings.Join(lnames, ", ") + ") := (" + strings.Join(lvals, ", ") + ") in\n")
				}
				continue
			}
			if vs.Type == nil {
				return "", f.errf(s, "var declaration without a type")
			}
			if _, ok := t.zero(); !ok || t.iface || t.k == kFn {
				return "", f.errf(s, "var declaration of type %s", t.goName())
			}
			for _, n := range vs.Names {
				e[n.Name] = &binding{coq: coqIdent(n.Name), t: t, zero: true, fresh: true}
			}
		}
		r, err := f.stmts(rest, e, tl, ind)
		if err != nil {
			return "", err
		}
		return lets.String() + r, nil

	case *ast.ForStmt, *ast.RangeStmt:
		return f.loop(st, rest, e, tl, ind)

	case *ast.BranchStmt:
		// continue at the top level of a loop body (or in an `if .. { ..; continue }` there): this
		// iteration ends with the current values of the variables
		if s.Tok != token.CONTINUE || s.Label != nil || tl == nil || !tl.loop {
			return "", f.errf(s, "unsupported %s statement (only `continue` directly in a loop body)", s.Tok)
		}
		if len(rest) != 0 {
			return "", f.errf(rest[0], "statement after continue")
		}
		return f.stmts(nil, e, tl, ind)

	case *ast.ExprStmt:
		// mulVertices2(v, step): a procedure of this package writing into its slice argument
		c, d, err := f.procCall(s, e)
		if err != nil {
			return "", err
		}
		ss, err := f.args(c, d.Key, d.params, c.Args, e)
		if err != nil {
			return "", err
		}
		var names, keys []string
		for _, i := range d.mutates {
			id, ok := c.Args[i].(*ast.Ident)
			if !ok {
				return "", f.errf(s, "%s(..): the slice argument it modifies must be a local variable", d.Key)
			}
			b, err := f.lookupVar(s, e, id.Name)
			if err != nil {
				return "", err
			}
			if !b.fresh {
				return "", f.errf(s, "%s(..) modifies the slice %s, which another variable may refer to", d.Key, id.Name)
			}
			b.zero = false
			names, keys = append(names, b.coq), append(keys, id.Name)
		}
		callStr := app(d.Name, ss)
		if last(keys...) {
			return ind + callStr, nil
		}
		r, err := f.stmts(rest, e, tl, ind)
		if err != nil {
			return "", err
		}
		return ind + "let " + pattern(names) + " := " + callStr + " in\n" + r, nil

	case *ast.AssignStmt:
		if len(s.Lhs) == 2 && len(s.Rhs) == 1 && s.Tok == token.DEFINE && len(f.results) == 1 && f.results[0].k == kObjOpt && tl == nil {
			// x, err := Ctor(..); if err != nil { return nil, err }; ..  (inside a constructor): the callee's
			// result decides - None is passed on, otherwise x is the object it built
			if c, isCtor := f.ctorCall(s.Rhs[0], e); isCtor {
				xid, ok1 := s.Lhs[0].(*ast.Ident)
				eid, ok2 := s.Lhs[1].(*ast.Ident)
				if !ok1 || !ok2 || xid.Name == "_" || eid.Name == "_" || len(rest) == 0 {
					return "", f.errf(s, "unsupported use of a constructor with an error result")
				}
				ifs, ok := rest[0].(*ast.IfStmt)
				okIf := ok && ifs.Init == nil && ifs.Else == nil && len(ifs.Body.List) == 1
				if okIf {
					be, isBin := ifs.Cond.(*ast.BinaryExpr)
					okIf = isBin && be.Op == token.NEQ
					if okIf {
						l, isL := be.X.(*ast.Ident)
						okIf = isL && l.Name == eid.Name && isNil(be.Y, e)
					}
				}
				if okIf {
					ret, isRet := ifs.Body.List[0].(*ast.ReturnStmt)
					okIf = isRet && len(ret.Results) == 2 && isNil(ret.Results[0], e) && !isNil(ret.Results[1], e)
				}
				if !okIf {
					return "", f.errf(s, "a constructor's error result must be checked by `if err != nil { return nil, .. }` straight away")
				}
				for _, later := range rest[1:] {
					if mentions2(later, eid.Name) {
						return "", f.errf(later, "the error variable %s is used after it was found nil", eid.Name)
					}
				}
				v, err := f.callDef(c, f.p, c.Fun.(*ast.Ident).Name, nil, c.Args, e)
				if err != nil {
					return "", err
				}
				if v.t.k != kObjOpt {
					return "", f.errf(s, "assignment of %s to 2 variables", v.t.goName())
				}
				xc := coqIdent(xid.Name)
				inner := e.clone()
				inner[xid.Name] = &binding{coq: xc, t: ifaceType(v.t.args[0]), bb: xc + "_bb"}
				r, err := f.stmts(rest[1:], inner, tl, ind+"    ")
				if err != nil {
					return "", err
				}
				return ind + "match " + v.s + " with\n" + ind + "| None => None\n" + ind + "| Some (" + xc + ", " + xc + "_bb) =>\n" + r + "\n" + ind + "end", nil
			}
		}
		if len(s.Lhs) > 1 && len(s.Rhs) == 1 {
			// a, b := f(..): the results of a translated function
			if s.Tok != token.ASSIGN && s.Tok != token.DEFINE {
				return "", f.errf(s, "unsupported tuple assignment operator %s", s.Tok)
			}
			v, err := f.expr(s.Rhs[0], e)
			if err != nil {
				return "", err
			}
			if v.t.k != kTuple || len(v.t.args) != len(s.Lhs) {
				return "", f.errf(s, "assignment of %s to %d variables", v.t.goName(), len(s.Lhs))
			}
			var names []string
			seen := map[string]bool{}
			for i, l := range s.Lhs {
				id, ok := l.(*ast.Ident)
				if !ok || seen[id.Name] {
					return "", f.errf(s, "unsupported tuple assignment target %s", exprString(l))
				}
				if id.Name == "_" {
					names = append(names, "_")
					continue
				}
				seen[id.Name] = true
				b, exists := e[id.Name]
				if s.Tok == token.DEFINE && !exists {
					b = &binding{coq: coqIdent(id.Name), t: v.t.args[i]}
					e[id.Name] = b
				} else if !exists || b.fields != nil || b.capt || b.t.iface {
					return "", f.errf(s, "assignment to %s, which is not a plain local variable of this function", id.Name)
				}
				if !b.t.eq(v.t.args[i]) {
					return "", f.errf(s, "assignment of %s to %s %s", v.t.args[i].goName(), b.t.goName(), id.Name)
				}
				b.zero, b.fresh = false, v.t.args[i].k == kList
				names = append(names, b.coq)
			}
			r, err := f.stmts(rest, e, tl, ind)
			if err != nil {
				return "", err
			}
			return ind + "let '(" + strings.Join(names, ", ") + ") := " + v.s + " in\n" + r, nil
		}
		if len(s.Lhs) != len(s.Rhs) {
			return "", f.errf(s, "unsupported assignment of a multi-valued expression")
		}
		if len(s.Lhs) > 1 {
			// a, b = e1, e2: all right-hand sides are evaluated before any assignment
			if s.Tok != token.ASSIGN && s.Tok != token.DEFINE {
				return "", f.errf(s, "unsupported tuple assignment operator %s", s.Tok)
			}
			var vs []val
			for _, r := range s.Rhs {
				v, err := f.expr(r, e)
				if err != nil {
					return "", err
				}
				vs = append(vs, v)
			}
			var names, rhs []string
			seen := map[string]bool{}
			for i, l := range s.Lhs {
				id, ok := l.(*ast.Ident)
				if !ok || id.Name == "_" || seen[id.Name] {
					return "", f.errf(s, "unsupported tuple assignment target %s", exprString(l))
				}
				seen[id.Name] = true
				b, exists := e[id.Name]
				if s.Tok == token.DEFINE && !exists {
					if vs[i].konst && vs[i].isInt {
						vs[i], _ = asInt(vs[i])
					}
					b = &binding{coq: coqIdent(id.Name), t: vs[i].t}
					e[id.Name] = b
				} else if !exists || b.fields != nil || b.capt {
					return "", f.errf(s, "assignment to %s, which is not a plain local variable of this function", id.Name)
				}
				if b.t.k == kInt {
					vs[i], _ = asInt(vs[i])
				}
				if !b.t.eq(vs[i].t) {
					return "", f.errf(s, "assignment of %s to %s %s", vs[i].t.goName(), b.t.goName(), id.Name)
				}
				if vs[i].t.k == kList && !vs[i].fresh {
					return "", f.errf(s, "assignment of a slice that another variable refers to (aliasing is not modelled)")
				}
				b.zero, b.bb, b.fresh = false, vs[i].bb, vs[i].fresh
				names, rhs = append(names, b.coq), append(rhs, vs[i].s)
			}
			r, err := f.stmts(rest, e, tl, ind)
			if err != nil {
				return "", err
			}
			return ind + "let '(" + strings.Join(names, ", ") + ") := (" + strings.Join(rhs, ", ") + ") in\n" + r, nil
		}
		if sel, ok := s.Lhs[0].(*ast.SelectorExpr); ok {
			// s.f = e on a struct under construction
			id, ok := sel.X.(*ast.Ident)
			var b *binding
			if ok {
				b = e[id.Name]
			}
			if b == nil || b.fields == nil || s.Tok != token.ASSIGN || b.capt {
				return "", f.errf(s, "unsupported assignment target %s", exprString(s.Lhs[0]))
			}
			l, err := f.setField(s, b, id.Name, sel.Sel.Name, s.Rhs[0], e, ind)
			if err != nil {
				return "", err
			}
			if last(id.Name + "." + sel.Sel.Name) {
				// `let s_f := v in` -> v
				return ind + strings.TrimSuffix(strings.TrimPrefix(l, ind+"let "+b.coq+"_"+sel.Sel.Name+" := "), " in\n"), nil
			}
			r, err := f.stmts(rest, e, tl, ind)
			if err != nil {
				return "", err
			}
			return l + r, nil
		}
		if ix, ok := s.Lhs[0].(*ast.IndexExpr); ok {
			// xs[i] = e on a local slice nothing else refers to
			id, ok := ix.X.(*ast.Ident)
			if !ok || s.Tok != token.ASSIGN {
				return "", f.errf(s, "unsupported assignment target %s", exprString(s.Lhs[0]))
			}
			b, err := f.lookupVar(s, e, id.Name)
			if err != nil {
				return "", err
			}
			if b.t.k != kList {
				return "", f.errf(s, "index assignment into %s", b.t.goName())
			}
			if !b.fresh && b.t.n == 0 {
				return "", f.errf(s, "index assignment into the slice %s, which another variable may refer to", id.Name)
			}
			var idx string
			if lit, ok := ix.Index.(*ast.BasicLit); ok && lit.Kind == token.INT {
				n, err := strconv.Atoi(lit.Value)
				if err != nil || n < 0 {
					return "", f.errf(s, "unsupported index %s", lit.Value)
				}
				idx = strconv.Itoa(n)
			} else {
				iv, err := f.expr(ix.Index, e)
				if err != nil {
					return "", err
				}
				if iv.t.k != kInt {
					return "", f.errf(s, "index of type %s", iv.t.goName())
				}
				idx = "(Z.to_nat " + iv.s + ")"
			}
			var v val
			if cl, ok := s.Rhs[0].(*ast.CompositeLit); ok && cl.Type == nil {
				v, err = f.composite(cl, &b.t.args[0], e)
			} else {
				v, err = f.expr(s.Rhs[0], e)
			}
			if err != nil {
				return "", err
			}
			if b.t.args[0].k == kInt {
				v, _ = asInt(v)
			}
			if !v.t.eq(b.t.args[0]) {
				return "", f.errf(s, "assignment of %s to an element of %s", v.t.goName(), b.t.goName())
			}
			es, err := f.elemString(s, v)
			if err != nil {
				return "", err
			}
			upd := "(list_set " + b.cur() + " " + idx + " " + es + ")"
			b.zero = false
			if last(id.Name) {
				return ind + upd, nil
			}
			r, err := f.stmts(rest, e, tl, ind)
			if err != nil {
				return "", err
			}
			return ind + "let " + b.coq + " := " + upd + " in\n" + r, nil
		}
		id, ok := s.Lhs[0].(*ast.Ident)
		if !ok || id.Name == "_" {
			return "", f.errf(s, "unsupported assignment target %s", exprString(s.Lhs[0]))
		}
		if cl, ok := s.Rhs[0].(*ast.CompositeLit); ok && s.Tok == token.DEFINE {
			if tid, ok := cl.Type.(*ast.Ident); ok && f.p.structs[tid.Name] != nil && f.results[0].k == kObjOpt {
				if _, isVec := map[string]bool{"Box2": true, "Box3": true, "Vec": true}[tid.Name]; !isVec {
					// s := T{..}: a struct under construction
					if tl != nil {
						return "", f.errf(s, "struct construction inside a branch")
					}
					lets, b, err := f.structLit(cl, id.Name, e, ind)
					if err != nil {
						return "", err
					}
					e[id.Name] = b
					r, err := f.stmts(rest, e, tl, ind)
					if err != nil {
						return "", err
					}
					return lets + r, nil
				}
			}
		}
		v, err := f.expr(s.Rhs[0], e)
		if err != nil {
			return "", err
		}
		switch {
		case s.Tok == token.DEFINE:
			if v.konst && v.isInt {
				v, _ = asInt(v) // x := 0 declares an int
			}
			if v.t.k == kList && !v.fresh {
				return "", f.errf(s, "assignment of a slice that another variable refers to (aliasing is not modelled)")
			}
			nb := &binding{coq: coqIdent(id.Name), t: v.t, bb: v.bb, fresh: v.fresh}
			if c, ok := s.Rhs[0].(*ast.CallExpr); ok && len(c.Args) == 1 {
				if fid, ok := c.Fun.(*ast.Ident); ok && fid.Name == "len" && e["len"] == nil {
					switch c.Args[0].(type) {
					case *ast.Ident, *ast.SelectorExpr:
						if lv, err := f.expr(c.Args[0], e); err == nil && lv.t.k == kList {
							nb.lenOf, nb.lenSrc = &lv, exprString(c.Args[0])
						}
					}
				}
			}
			e[id.Name] = nb
		case s.Tok == token.ASSIGN || opAssign[s.Tok] != 0:
			b, ok := e[id.Name]
			if !ok || b.fields != nil {
				return "", f.errf(s, "assignment to %s, which is not a local variable", id.Name)
			}
			if b.capt {
				return "", f.errf(s, "assignment to %s, a variable of the enclosing function, inside a closure", id.Name)
			}
			if op, isOp := opAssign[s.Tok]; isOp {
				cur := val{s: b.cur(), t: b.t}
				if v, err = f.binary(s, op, cur, v); err != nil {
					return "", err
				}
			}
			if b.t.k == kInt {
				v, _ = asInt(v)
			}
			if !b.t.eq(v.t) {
				return "", f.errf(s, "assignment of %s to %s %s", v.t.goName(), b.t.goName(), id.Name)
			}
			if b.t.iface {
				return "", f.errf(s, "re-assignment of the SDF variable %s", id.Name)
			}
			if v.t.k == kList && !v.fresh {
				return "", f.errf(s, "assignment of a slice that another variable refers to (aliasing is not modelled)")
			}
			b.zero, b.fresh = false, v.fresh
		default:
			return "", f.errf(s, "unsupported assignment operator %s", s.Tok)
		}
		if last(id.Name) {
			return ind + v.s, nil
		}
		r, err := f.stmts(rest, e, tl, ind)
		if err != nil {
			return "", err
		}
		if v.t.iface {
			// an SDF value is two names; `x := sdf` is an alias
			e[id.Name].coq, e[id.Name].bb = v.s, v.bb
			return r, nil
		}
		return ind + "let " + e[id.Name].coq + " := " + v.s + " in\n" + r, nil

	case *ast.ReturnStmt:
		if tl != nil && tl.proc && len(s.Results) == 0 && len(rest) == 0 {
			return f.stmts(nil, e, tl, ind) // the trailing `return` of a procedure
		}
		if tl != nil {
			return "", f.errf(s, "return inside a block that can also fall through")
		}
		if len(rest) != 0 {
			return "", f.errf(rest[0], "statement after return")
		}
		want := f.results[len(f.results)-1]
		if want.k == kObjOpt {
			return f.ctorReturn(s, e, want, ind)
		}
		if want.k == kTuple && f.structResult != "" && len(f.results) == 1 {
			// return &T{f: e, ..}
			if len(s.Results) != 1 {
				return "", f.errf(s, "return of %d values", len(s.Results))
			}
			r := s.Results[0]
			if u, ok := r.(*ast.UnaryExpr); ok && u.Op == token.AND {
				r = u.X
			}
			cl, ok := r.(*ast.CompositeLit)
			if tid, isId := cl.Type.(*ast.Ident); !ok || !isId || tid.Name != f.structResult {
				return "", f.errf(s, "the result is not a %s{..} literal", f.structResult)
			}
			vals := map[string]ast.Expr{}
			for _, el := range cl.Elts {
				kv, ok := el.(*ast.KeyValueExpr)
				if !ok {
					return "", f.errf(s, "positional %s literal", f.structResult)
				}
				vals[kv.Key.(*ast.Ident).Name] = kv.Value
			}
			var parts []string
			i := 0
			for _, fl := range f.p.structs[f.structResult].Fields.List {
				for _, nm := range fl.Names {
					ft := want.args[i]
					i++
					ex, ok := vals[nm.Name]
					if !ok {
						z, okz := ft.zero()
						if !okz {
							return "", f.errf(s, "field %s of the result has no zero value", nm.Name)
						}
						parts = append(parts, z)
						continue
					}
					v, err := f.expr(ex, e)
					if err != nil {
						return "", err
					}
					if ft.k == kInt {
						v, _ = asInt(v)
					}
					if !v.t.eq(ft) {
						return "", f.errf(s, "field %s: %s, expected %s", nm.Name, v.t.goName(), ft.goName())
					}
					parts = append(parts, v.s)
					delete(vals, nm.Name)
				}
			}
			if len(vals) != 0 {
				return "", f.errf(s, "%s literal with an unknown field", f.structResult)
			}
			return ind + tuple(parts), nil
		}
		if want.k == kTuple {
			var parts []string
			if len(s.Results) == 0 && len(f.results) == 1 && len(f.named) == len(want.args) {
				// bare return: the named results
				for _, nm := range f.named {
					parts = append(parts, e[nm].cur())
				}
				return ind + tuple(parts), nil
			}
			if len(s.Results) != len(want.args) {
				return "", f.errf(s, "return of %d values, expected %d", len(s.Results), len(want.args))
			}
			for i, r := range s.Results {
				v, err := f.expr(r, e)
				if err != nil {
					return "", err
				}
				if want.args[i].k == kInt {
					v, _ = asInt(v)
				}
				if !v.t.eq(want.args[i]) {
					return "", f.errf(s, "result %d has type %s, expected %s", i+1, v.t.goName(), want.args[i].goName())
				}
				parts = append(parts, v.s)
			}
			return ind + tuple(parts), nil
		}
		if len(s.Results) == 0 && len(f.results) == 1 && len(f.named) == 1 {
			return ind + e[f.named[0]].cur(), nil
		}
		if len(s.Results) != 1 {
			return "", f.errf(s, "return of %d values", len(s.Results))
		}
		var v val
		var err error
		if fl, ok := s.Results[0].(*ast.FuncLit); ok {
			v, err = f.funcLit(fl, e)
		} else {
			v, err = f.expr(s.Results[0], e)
		}
		if err != nil {
			return "", err
		}
		if want.k == kInt {
			v, _ = asInt(v)
		}
		if !v.t.eq(want) {
			return "", f.errf(s, "return of %s, expected %s", v.t.goName(), want.goName())
		}
		return ind + v.s, nil

	case *ast.IfStmt:
		if s.Init != nil {
			// if x := e; c {..}: x is declared just before the if (it must not shadow a variable in scope)
			as, ok := s.Init.(*ast.AssignStmt)
			if !ok || as.Tok != token.DEFINE {
				return "", f.errf(s, "if statement with an init clause that is not `x := e`")
			}
			for _, l := range as.Lhs {
				id, ok := l.(*ast.Ident)
				if !ok {
					return "", f.errf(s, "unsupported init clause")
				}
				if _, shadow := e[id.Name]; shadow && id.Name != "_" {
					return "", f.errf(s, "the init clause of the if statement shadows the variable %s", id.Name)
				}
			}
			plain := *s
			plain.Init = nil
			return f.stmts(append([]ast.Stmt{as, &plain}, rest...), e, tl, ind)
		}
		c, err := f.expr(s.Cond, e)
		if err != nil {
			return "", err
		}
		if c.t.k != kBool {
			return "", f.errf(s, "condition is not boolean")
		}
		thenL, elseL := s.Body.List, stmtList(s.Else)
		tt, et := terminates(thenL), terminates(elseL)
		branch := func(l []ast.Stmt, env env, t *tail) (string, error) { return f.stmts(l, env, t, ind+"  ") }
		switch {
		case tt || et:
			// `if c { ...; return e }` followed by the rest: the rest is the other branch
			// (in a loop body: `if c { ...; continue }`; every path then yields the loop variables)
			if tl != nil && !tl.loop {
				return "", f.errf(s, "return / continue inside a block that can also fall through")
			}
			var a, b string
			if tt && et {
				if len(rest) != 0 {
					return "", f.errf(rest[0], "statement after return")
				}
				if a, err = branch(thenL, e.clone(), tl); err != nil {
					return "", err
				}
				if b, err = f.stmts(elseL, e.clone(), tl, ind); err != nil {
					return "", err
				}
			} else if tt {
				if len(elseL) != 0 && declares(elseL) && len(rest) != 0 {
					return "", f.errf(s, "else block declaring variables before fall-through code")
				}
				if a, err = branch(thenL, e.clone(), tl); err != nil {
					return "", err
				}
				if b, err = f.stmts(append(append([]ast.Stmt{}, elseL...), rest...), e, tl, ind); err != nil {
					return "", err
				}
			} else {
				if declares(thenL) && len(rest) != 0 {
					return "", f.errf(s, "then block declaring variables before fall-through code")
				}
				if b, err = f.stmts(elseL, e.clone(), tl, ind); err != nil {
					return "", err
				}
				if a, err = branch(append(append([]ast.Stmt{}, thenL...), rest...), e, tl); err != nil {
					return "", err
				}
			}
			out := ind + "if " + c.s + " then\n" + a + "\n"
			if strings.HasPrefix(strings.TrimLeft(b, " "), "if ") {
				return out + ind + "else " + strings.TrimLeft(b, " "), nil
			}
			return out + ind + "else\n" + indentMore(b), nil
		default:
			if containsReturn(thenL) || containsReturn(elseL) {
				// returns on some paths, falls through on others: the rest of the block follows each branch
				if tl != nil {
					return "", f.errf(s, "return inside a block that can also fall through")
				}
				for _, l := range [][]ast.Stmt{thenL, elseL} {
					for _, st := range l {
						if as, ok := st.(*ast.AssignStmt); ok && as.Tok == token.DEFINE {
							for _, lhs := range as.Lhs {
								if id, ok := lhs.(*ast.Ident); ok {
									if _, shadow := e[id.Name]; shadow {
										return "", f.errf(s, "a branch that can fall through re-declares %s", id.Name)
									}
								}
							}
						}
					}
				}
				a, err := f.stmts(append(append([]ast.Stmt{}, thenL...), rest...), e.clone(), nil, ind+"  ")
				if err != nil {
					return "", err
				}
				b, err := f.stmts(append(append([]ast.Stmt{}, elseL...), rest...), e.clone(), nil, ind)
				if err != nil {
					return "", err
				}
				out := ind + "if " + c.s + " then\n" + a + "\n"
				if strings.HasPrefix(strings.TrimLeft(b, " "), "if ") {
					return out + ind + "else " + strings.TrimLeft(b, " "), nil
				}
				return out + ind + "else\n" + indentMore(b), nil
			}
			var vars []string
			if err := f.assignedOuter(thenL, nil, e, &vars); err != nil {
				return "", err
			}
			if err := f.assignedOuter(elseL, nil, e, &vars); err != nil {
				return "", err
			}
			if len(vars) == 0 {
				return "", f.errf(s, "if statement without effect")
			}
			for _, v := range vars {
				if _, err := f.lookupVar(s, e, v); err != nil {
					return "", err
				}
			}
			t := &tail{vars: vars}
			a, err := f.stmts(thenL, e.clone(), t, ind+"    ")
			if err != nil {
				return "", err
			}
			b, err := f.stmts(elseL, e.clone(), t, ind+"    ")
			if err != nil {
				return "", err
			}
			wrap := func(x string) string {
				if strings.Contains(x, "\n") || strings.HasPrefix(strings.TrimLeft(x, " "), "let ") || strings.HasPrefix(strings.TrimLeft(x, " "), "if ") {
					tr := strings.TrimLeft(x, " ")
					return x[:len(x)-len(tr)] + "(" + tr + ")"
				}
				return x
			}
			ifx := func(ind string) string {
				return ind + "if " + c.s + " then\n" + wrap(a) + "\n" + ind + "else\n" + wrap(b)
			}
			var names []string
			for _, v := range vars {
				vb, _ := f.lookupVar(s, e, v)
				vb.zero = false
				names = append(names, vb.coq)
			}
			if last(vars...) {
				// re-indent: a and b were laid out for the `let` form
				return strings.ReplaceAll(ifx(ind+"  "), "\n  ", "\n")[2:], nil
			}
			r, err := f.stmts(rest, e, tl, ind)
			if err != nil {
				return "", err
			}
			return ind + "let " + pattern(names) + " :=\n" + ifx(ind+"  ") + " in\n" + r, nil
		}
	}
	return "", f.errf(st, "unsupported statement %T", st)
}

// ---------------------------------------------------------------- definitions

func (g *gen) constant(p *pkg, name string) (val, error) {
	id := p.name + "." + name
	if d, ok := g.defs[id]; ok {
		return val{s: d.Name, t: tT, konst: true, rat: d.rat}, nil
	}
	ex := p.consts[name]
	if ex == nil {
		return val{}, fmt.Errorf("sdfgen: constant %s has no value expression", id)
	}
	if g.busy[id] {
		return val{}, fmt.Errorf("sdfgen: constant %s is defined in terms of itself", id)
	}
	g.busy[id] = true
	defer delete(g.busy, id)
	f := &fctx{g: g, p: p, file: p.fileOf[name], key: name, skipParam: -1}
	v, err := f.expr(ex, env{})
	if err != nil {
		return val{}, err
	}
	if v.t.k != kT || !v.konst {
		return val{}, fmt.Errorf("sdfgen: constant %s is not a float constant", id)
	}
	pos := g.fset.Position(ex.Pos())
	d := &Def{Pkg: p.name, Key: name, Name: defName(p.name, name), Pos: fmt.Sprintf("%s:%d", f.file.rel, pos.Line),
		Ret: "T O", ret: tT, isConst: true, rat: v.rat, structArg: -1}
	d.text = fmt.Sprintf("  (* %s: const %s *)\n  Definition %s : T O := %s.\n", d.Pos, name, d.Name, v.s)
	g.defs[id] = d
	g.order = append(g.order, d)
	return val{s: d.Name, t: tT, konst: true, rat: v.rat}, nil
}

func (g *gen) translate(p *pkg, key string) (*Def, error) {
	id := p.name + "." + key
	if d, ok := g.defs[id]; ok {
		return d, nil
	}
	fd := p.funcs[key]
	if fd == nil {
		return nil, fmt.Errorf("sdfgen: function %s not found in the source", id)
	}
	if g.busy[id] {
		return nil, fmt.Errorf("sdfgen: %s is recursive", id)
	}
	g.busy[id] = true
	defer delete(g.busy, id)
	f := &fctx{g: g, p: p, file: p.fileOf[key], key: key, used: map[string]typ{}, skipParam: -1}
	if fd.Body == nil {
		return nil, f.errf(fd, "no body")
	}
	if fd.Type.TypeParams != nil {
		return nil, f.errf(fd, "generic function")
	}
	e := env{}
	var params []Param
	var ptypes []typ
	if fd.Recv != nil {
		rn, _ := recvTypeName(fd)
		rt, err := g.namedType(p, rn)
		names := fd.Recv.List[0].Names
		switch {
		case err == nil && rt.k != kFn:
			// a value receiver (vector, box, matrix): an ordinary parameter
			if len(names) != 1 {
				return nil, f.errf(fd, "unnamed receiver")
			}
			c := coqIdent(names[0].Name)
			e[names[0].Name] = &binding{coq: c, t: rt}
			params = append(params, Param{c, rt.coq()})
			ptypes = append(ptypes, rt)
		case p.structs[rn] != nil && fd.Type.Results == nil:
			// a mutator (SetMin, SetMax, SetExtrude): the receiver is a struct whose fields are written;
			// the definition returns the new values of the fields it assigns
			if _, ptr := recvTypeName(fd); !ptr || len(names) != 1 {
				return nil, f.errf(fd, "method without results on a value receiver")
			}
			e[names[0].Name] = &binding{coq: "s", structName: rn, fields: map[string]*binding{}, mutated: true}
			f.mutator = names[0].Name
		case p.structs[rn] != nil:
			f.recvStruct = rn
			if len(names) == 1 {
				f.recv = names[0].Name
			}
		default:
			return nil, f.errf(fd, "receiver type %s", rn)
		}
	}
	if fd.Recv == nil {
		// func helper(a *T, ..) with T a struct of this package: a is treated as the receiver of a method of T
		idx, found, sname, pname := 0, -1, "", ""
		for _, fl := range fd.Type.Params.List {
			t := fl.Type
			if st, ok := t.(*ast.StarExpr); ok {
				t = st.X
			}
			id, isId := t.(*ast.Ident)
			isStruct := isId && p.structs[id.Name] != nil
			if isStruct {
				if _, err := g.namedType(p, id.Name); err == nil {
					isStruct = false // Box2, Box3, ...: types with a model of their own
				}
			}
			if isStruct {
				if len(fl.Names) != 1 || found >= 0 {
					found = -2
					break
				}
				found, sname, pname = idx, id.Name, fl.Names[0].Name
			}
			n := len(fl.Names)
			if n == 0 {
				n = 1
			}
			idx += n
		}
		if found >= 0 && pname != "_" {
			f.skipParam, f.skipList, f.recvStruct, f.recv = found, fd.Type.Params, sname, pname
		}
	}
	ps, ts, err := f.bindParams(fd.Type.Params, e)
	if err != nil {
		return nil, err
	}
	rt, isCtor := g.ctorResult(p, f.file, fd)
	var mutates []int
	var procTail *tail
	if f.mutator != "" {
		var vars []string
		if err := f.assignedOuter(fd.Body.List, nil, e, &vars); err != nil {
			return nil, err
		}
		if len(vars) == 0 {
			return nil, f.errf(fd, "mutator without effect")
		}
		var rts []typ
		for _, v := range vars {
			if !strings.HasPrefix(v, f.mutator+".") || strings.Count(v, ".") != 1 {
				return nil, f.errf(fd, "mutator assigning %s, which is not a field of the receiver", v)
			}
			t, ok, err := g.structField(p, e[f.mutator].structName, v[len(f.mutator)+1:])
			if err != nil || !ok {
				return nil, f.errf(fd, "field %s: %v", v, err)
			}
			if t.iface {
				return nil, f.errf(fd, "mutator assigning the SDF field %s", v)
			}
			rts = append(rts, t)
		}
		rt = rts[0]
		if len(rts) > 1 {
			rt = typ{k: kTuple, args: rts}
		}
		procTail = &tail{vars: vars, proc: true}
	} else if fd.Type.Results == nil && fd.Recv == nil {
		// a procedure: it must write into (exactly one of) its slice parameters; the definition
		// returns the final value of that slice
		var vars []string
		if err := f.assignedOuter(fd.Body.List, nil, e, &vars); err != nil {
			return nil, err
		}
		if len(vars) != 1 {
			return nil, f.errf(fd, "procedure assigning %d outer variables (expected one slice parameter)", len(vars))
		}
		idx := 0
		for _, fl := range fd.Type.Params.List {
			for _, nm := range fl.Names {
				if nm.Name == vars[0] {
					mutates = []int{idx}
				}
				idx++
			}
		}
		b := e[vars[0]]
		if mutates == nil || b == nil || b.t.k != kList {
			return nil, f.errf(fd, "procedure assigning %s, which is not a slice parameter", vars[0])
		}
		b.fresh = true // aliasing is the caller's concern (checked at the call)
		rt, procTail = b.t, &tail{vars: vars, proc: true}
	} else if !isCtor {
		// one result, or several (a tuple); named results are local variables holding their zero value
		if fd.Type.Results == nil {
			return nil, f.errf(fd, "method without a result")
		}
		var rts []typ
		if sn, ok := f.structResultName(fd); ok {
			// func .. *T { return &T{f: e, ..} }: the tuple of the fields of T, in the order T declares them
			for _, fl := range p.structs[sn].Fields.List {
				t, err := g.goType(p, p.fileOf[sn], fl.Type)
				if err != nil || t.iface || t.k == kFn {
					return nil, f.errf(fd, "result struct %s: field of an unsupported type", sn)
				}
				for range fl.Names {
					rts = append(rts, t)
				}
			}
			f.structResult = sn
		}
		for _, r := range fd.Type.Results.List {
			if f.structResult != "" {
				break
			}
			t, err := f.goType(r.Type)
			if err != nil {
				return nil, f.errf(fd, "%v", err)
			}
			if t.iface {
				return nil, f.errf(fd, "an SDF among several results")
			}
			n := len(r.Names)
			if n == 0 {
				n = 1
			}
			for i := 0; i < n; i++ {
				rts = append(rts, t)
			}
			for _, nm := range r.Names {
				if _, ok := t.zero(); !ok || t.k == kFn {
					return nil, f.errf(fd, "named result of type %s", t.goName())
				}
				if _, dup := e[nm.Name]; dup {
					return nil, f.errf(fd, "named result %s shadows a parameter", nm.Name)
				}
				e[nm.Name] = &binding{coq: coqIdent(nm.Name), t: t, zero: true, fresh: true}
				f.named = append(f.named, nm.Name)
			}
		}
		if len(rts) == 1 {
			rt = rts[0]
		} else {
			rt = typ{k: kTuple, args: rts}
		}
	} else if fd.Recv != nil {
		return nil, f.errf(fd, "method returning an SDF")
	}
	f.results = []typ{rt}
	f.body = fd.Body
	if err := f.desugar(fd.Body); err != nil {
		return nil, err
	}
	body, err := f.stmts(fd.Body.List, e, procTail, "    ")
	if err != nil {
		return nil, err
	}
	// receiver fields used, in the order the struct declares them, come first
	var fields []string
	if f.recvStruct != "" {
		var fps []Param
		for _, fl := range p.structs[f.recvStruct].Fields.List {
			for _, n := range fl.Names {
				if t, ok := f.used[n.Name]; ok {
					fps = append(fps, Param{"s_" + n.Name, t.coq()})
					fields = append(fields, n.Name)
				}
			}
		}
		params = append(fps, params...)
	}
	params, ptypes = append(params, ps...), append(ptypes, ts...)
	seen := map[string]bool{}
	for _, q := range params {
		if seen[q.Name] {
			return nil, f.errf(fd, "two parameters map to the Gallina name %s", q.Name)
		}
		seen[q.Name] = true
	}
	pos := g.fset.Position(fd.Pos())
	d := &Def{Pkg: p.name, Key: key, Name: defName(p.name, key), Pos: fmt.Sprintf("%s:%d", f.file.rel, pos.Line),
		Params: params, Ret: rt.coq(), ret: rt, params: ptypes, fields: fields, mutates: mutates, structArg: f.skipParam}
	if f.skipParam >= 0 {
		d.recvStruct = f.recvStruct
	}
	goSig := "func " + key
	if fd.Recv != nil {
		rn, ptr := recvTypeName(fd)
		star := ""
		if ptr {
			star = "*"
		}
		rname := "_"
		if ns := fd.Recv.List[0].Names; len(ns) == 1 {
			rname = ns[0].Name
		}
		goSig = fmt.Sprintf("func (%s %s%s) %s", rname, star, rn, fd.Name.Name) // never "(*": it opens a Coq comment
	}
	b := binders(params)
	if b != "" {
		b = " " + b
	}
	d.text = fmt.Sprintf("  (* %s: %s *)\n  Definition %s%s : %s :=\n%s.\n", d.Pos, goSig, d.Name, b, d.Ret, body)
	g.defs[id] = d
	g.order = append(g.order, d)
	return d, nil
}

// Result of one translation run.
type Result struct {
	Defs []*Def // in emission order (callees first)
	Text []byte
}

// Translate runs the translator on the source tree at repo.
func Translate(repo string) (*Result, error) {
	g := &gen{fset: token.NewFileSet(), pkgs: map[string]*pkg{}, byPath: map[string]*pkg{}, defs: map[string]*Def{},
		busy: map[string]bool{}}
	for _, s := range []struct{ name, dir string }{
		{"v2", "vec/v2"}, {"v3", "vec/v3"}, {"p2", "vec/p2"}, {"v2i", "vec/v2i"}, {"v3i", "vec/v3i"}, {"conv", "vec/conv"}, {"sdf", "sdf"},
	} {
		p, err := loadPkg(g.fset, repo, s.name, modPath+s.dir, s.dir)
		if err != nil {
			return nil, fmt.Errorf("sdfgen: %v", err)
		}
		g.pkgs[s.name], g.byPath[modPath+s.dir] = p, p
	}
	// sdf/matrix.go functions translated by harness/exprgen into Generated/MatrixExpr.v
	g.externs = map[string]extern{
		"sdf.Rotate":          {"mk_rotate", []typ{tT}, tM22},
		"sdf.Identity2d":      {"mk_identity2d", nil, tM33},
		"sdf.Identity3d":      {"mk_identity3d", nil, tM44},
		"sdf.M33.Mul":         {"m33_mul", []typ{tM33, tM33}, tM33},
		"sdf.M44.Mul":         {"m44_mul", []typ{tM44, tM44}, tM44},
		"sdf.Scale2d":         {"mk_scale2d", []typ{tV2}, tM33},
		"sdf.Scale3d":         {"mk_scale3d", []typ{tV3}, tM44},
		"sdf.M22.MulPosition": {"m22_mulposition", []typ{tM22, tV2}, tV2},
		"sdf.M33.MulPosition": {"m33_mulposition", []typ{tM33, tV2}, tV2},
		"sdf.M44.MulPosition": {"m44_mulposition", []typ{tM44, tV3}, tV3},
		"sdf.M33.Inverse":     {"m33_inverse", []typ{tM33}, tM33},
		"sdf.M44.Inverse":     {"m44_inverse", []typ{tM44}, tM44},
	}
	for _, t := range Targets() {
		if _, err := g.translate(g.pkgs[t.Pkg], t.Key); err != nil {
			return nil, err
		}
	}
	var b strings.Builder
	b.WriteString("(* GENERATED by harness/sdfgen from the packages vec/v2, vec/v3, vec/p2, vec/v2i, vec/v3i, vec/conv and sdf (every\n")
	b.WriteString("   non-test .go file of each package directory) of the current source tree - do not edit.\n")
	b.WriteString("   One definition per Go function, one `let` per Go statement; receiver fields s.f are the\n")
	b.WriteString("   parameters s_f; a wrapped SDF is its Evaluate function (in constructors: plus its bounding box\n")
	b.WriteString("   x_bb); a constructor returns None where Go returns nil / an error and otherwise\n")
	b.WriteString("   Some (Evaluate, BoundingBox) of the struct it built.\n")
	b.WriteString("   Sdf/GenEq.v proves these equal to the hand-written model (Geo/Vec.v, Geo/Box.v, Geo/Mat.v,\n")
	b.WriteString("   Sdf/Union2.v, Sdf/Shape.v). *)\n")
	b.WriteString("From Coq Require Import ZArith List Bool.\nFrom Sdfx Require Import Num.Ops Num.Loop Geo.Vec Geo.Box Generated.MatrixExpr.\n")
	b.WriteString("Import OpsNotations ListNotations.\nLocal Open Scope ops_scope.\n\nSection SdfExpr.\n  Context {O : Ops}.\n\n")
	for _, d := range g.order {
		b.WriteString(d.text)
		b.WriteString("\n")
	}
	b.WriteString("End SdfExpr.\n\n")
	// every generated definition is registered for `autounfold with sdfgen` (Sdf/GenEqTac.v): the equality
	// proofs look through helper functions, whatever they are called and wherever they were extracted
	b.WriteString("Create HintDb sdfgen.\n#[export] Hint Unfold")
	for i, d := range g.order {
		if i%6 == 0 {
			b.WriteString("\n ")
		}
		b.WriteString(" " + d.Name)
	}
	b.WriteString(" : sdfgen.\n")
	return &Result{Defs: g.order, Text: []byte(b.String())}, nil
}

// Names lists "pkg.Key -> Gallina name" of everything translated, sorted.
func (r *Result) Names() []string {
	var ss []string
	for _, d := range r.Defs {
		ss = append(ss, d.Pkg+"."+d.Key+" -> "+d.Name)
	}
	sort.Strings(ss)
	return ss
}

// Gen is the kit.GenFn producing coq/Generated/SdfExpr.v.
func Gen(c *kit.Ctx) (string, []byte, error) {
	r, err := Translate(c.Repo)
	if err != nil {
		return "", nil, err
	}
	return "SdfExpr.v", r.Text, nil
}
