package marchkit

// Two further dimensions of renderer-value histories (see reuse.go), for all four renderers:
//
//  (a) SameBox2 / SameBox3: families of DIFFERENT fields with exactly the SAME bounding box (hence the same
//      origin, cell size, cell counts and quadtree / octree level count at a given meshCells): whatever a
//      renderer value (or the package) keeps of a render and recognises again by the sample grid - a
//      distance cache, a layer / line cache, a lattice - is stale for the next model.  Feed the lists to
//      Histories2 / Histories3.
//
//  (b) Mutables2 / Mutables3: ONE model value rendered several times and changed IN PLACE in between,
//      the bounding box staying where it is (SetMin / SetMax of unions, arrays, intersections and
//      differences, SetExtrude, a parameter of a user-defined field), or changing with the parameter, or not
//      changed at all but carrying state of its own (CacheSDF2 fills while it is rendered): whatever is
//      kept and recognised by the identity of the model value (Reuse2 / Reuse3 hand the reused renderer the
//      same value every time) is stale.  History() turns a Mutable into steps for Reuse2 / Reuse3.
//
// Every field of both families is 1-Lipschitz (exact distance fields, min / max / polynomial blends of
// them, isometric extrusions) and has its zero set well inside the bounding box: all four renderers are
// claimed for them, and |f(p)| <= (lattice edge) holds at every emitted end point / vertex p (p lies on a
// lattice edge between a point with f < 0 and one with f >= 0).

import (
	"fmt"

	"github.com/deadsy/sdfx/sdf"
	v2 "github.com/deadsy/sdfx/vec/v2"
	"github.com/deadsy/sdfx/vec/v2i"
	v3 "github.com/deadsy/sdfx/vec/v3"
	"github.com/deadsy/sdfx/vec/v3i"
)

// Boxed2 is the field of S with a given bounding box.
type Boxed2 struct {
	S  sdf.SDF2
	BB sdf.Box2
}

func (b *Boxed2) BoundingBox() sdf.Box2     { return b.BB }
func (b *Boxed2) Evaluate(p v2.Vec) float64 { return b.S.Evaluate(p) }

// Boxed3: see Boxed2.
type Boxed3 struct {
	S  sdf.SDF3
	BB sdf.Box3
}

func (b *Boxed3) BoundingBox() sdf.Box3     { return b.BB }
func (b *Boxed3) Evaluate(p v3.Vec) float64 { return b.S.Evaluate(p) }

// Param2 is a user-defined field with a parameter: the circle of radius R about C.  With Follow the
// bounding box is that of the circle (it changes with R), otherwise it is BB.
type Param2 struct {
	C      v2.Vec
	R      float64
	BB     sdf.Box2
	Follow bool
}

func (s *Param2) BoundingBox() sdf.Box2 {
	if s.Follow {
		return sdf.NewBox2(s.C, v2.Vec{X: 2 * s.R, Y: 2 * s.R})
	}
	return s.BB
}
func (s *Param2) Evaluate(p v2.Vec) float64 { return p.Sub(s.C).Length() - s.R }

// Param3: the sphere of radius R about C, see Param2.
type Param3 struct {
	C      v3.Vec
	R      float64
	BB     sdf.Box3
	Follow bool
}

func (s *Param3) BoundingBox() sdf.Box3 {
	if s.Follow {
		return sdf.NewBox3(s.C, v3.Vec{X: 2 * s.R, Y: 2 * s.R, Z: 2 * s.R})
	}
	return s.BB
}
func (s *Param3) Evaluate(p v3.Vec) float64 { return p.Sub(s.C).Length() - s.R }

func circle2(r float64) sdf.SDF2 {
	c, err := sdf.Circle2D(r)
	if err != nil {
		panic(err)
	}
	return c
}
func sphere3(r float64) sdf.SDF3 {
	c, err := sdf.Sphere3D(r)
	if err != nil {
		panic(err)
	}
	return c
}
func box3(x, y, z float64) sdf.SDF3 {
	b, err := sdf.Box3D(v3.Vec{X: x, Y: y, Z: z}, 0)
	if err != nil {
		panic(err)
	}
	return b
}
func at2(s sdf.SDF2, x, y float64) sdf.SDF2 {
	return sdf.Transform2D(s, sdf.Translate2d(v2.Vec{X: x, Y: y}))
}
func at3(s sdf.SDF3, x, y, z float64) sdf.SDF3 {
	return sdf.Transform3D(s, sdf.Translate3d(v3.Vec{X: x, Y: y, Z: z}))
}

// SameBox2 returns models with the bounding box ctr +- a (a square of side 2a) and different fields;
// t in [0,1) varies the sizes.  Consecutive models differ in large parts of the box.
func SameBox2(ctr v2.Vec, a, t float64) []Step2 {
	bb := sdf.NewBox2(ctr, v2.Vec{X: 2 * a, Y: 2 * a})
	mk := func(name string, s sdf.SDF2) Step2 {
		return Step2{Name: fmt.Sprintf("%s in box %v+-%g", name, ctr, a), S: &Boxed2{S: at2(s, ctr.X, ctr.Y), BB: bb}}
	}
	plate := func(hole float64) sdf.SDF2 {
		return sdf.Difference2D(sdf.Box2D(v2.Vec{X: 1.8 * a, Y: 1.8 * a}, 0), circle2(hole*a))
	}
	r1 := 0.55 + 0.35*t
	return []Step2{
		mk(fmt.Sprintf("circle(%.3g a)", r1), circle2(r1*a)),
		mk("plate with hole(0.3 a)", plate(0.3)),
		mk(fmt.Sprintf("rect(%.3g a, 1.2 a)@(0.125 a, 0)", 0.5+t), at2(sdf.Box2D(v2.Vec{X: (0.5 + t) * a, Y: 1.2 * a}, 0), 0.125*a, 0)),
		mk("plate with hole(0.6 a)", plate(0.6)),
		mk("two circles", sdf.Union2D(at2(circle2(0.45*a), -0.4*a, 0.1*a), at2(circle2((0.3+0.2*t)*a), 0.45*a, -0.2*a))),
		mk("circle(0.25 a)@(-0.5 a, 0.5 a)", at2(circle2(0.25*a), -0.5*a, 0.5*a)),
	}
}

// SameBox3 returns models with the bounding box ctr +- a (a cube of side 2a) and different fields.
func SameBox3(ctr v3.Vec, a, t float64) []Step3 {
	bb := sdf.NewBox3(ctr, v3.Vec{X: 2 * a, Y: 2 * a, Z: 2 * a})
	mk := func(name string, s sdf.SDF3) Step3 {
		return Step3{Name: fmt.Sprintf("%s in box %v+-%g", name, ctr, a), S: &Boxed3{S: at3(s, ctr.X, ctr.Y, ctr.Z), BB: bb}}
	}
	block := func(hole float64) sdf.SDF3 {
		return sdf.Difference3D(box3(1.8*a, 1.8*a, 1.2*a), sphere3(hole*a))
	}
	r1 := 0.55 + 0.35*t
	return []Step3{
		mk(fmt.Sprintf("sphere(%.3g a)", r1), sphere3(r1*a)),
		mk("block with spherical hole(0.5 a)", block(0.5)),
		mk(fmt.Sprintf("box(%.3g a, 1.2 a, a)@(0.125 a, 0, 0)", 0.5+t), at3(box3((0.5+t)*a, 1.2*a, a), 0.125*a, 0, 0)),
		mk("block with spherical hole(0.8 a)", block(0.8)),
		mk("two spheres", sdf.Union3D(at3(sphere3(0.45*a), -0.4*a, 0.1*a, 0), at3(sphere3((0.3+0.2*t)*a), 0.45*a, -0.2*a, 0.1*a))),
		mk("sphere(0.25 a)@(-0.5 a, 0.5 a, 0.25 a)", at3(sphere3(0.25*a), -0.5*a, 0.5*a, 0.25*a)),
	}
}

// State is one state of a mutable model: Set puts the model value into it (absolutely, whatever the
// state before).
type State struct {
	Name string
	Set  func()
}

// Mutable2 is ONE model value with the states it is put into in place.  States[0] is the state the
// value is built in (its Set is never called: the first render sees the value as the constructor left it).
type Mutable2 struct {
	Name   string
	S      sdf.SDF2
	States []State
}

// Mutable3: see Mutable2.
type Mutable3 struct {
	Name   string
	S      sdf.SDF3
	States []State
}

// History: render as built, change in place, render, Info only, change, render, ..., back to state 0, render.
func (m Mutable2) History() []Step2 {
	var h []Step2
	for i, st := range m.States {
		set := st.Set
		if i == 0 {
			set = nil
		}
		h = append(h, Step2{Name: m.Name + " [" + st.Name + "]", S: m.S, Before: set})
		if i == 1 {
			h = append(h, Step2{Name: m.Name + " [" + st.Name + "]", S: m.S, InfoOnly: true})
		}
	}
	return append(h, Step2{Name: m.Name + " [" + m.States[0].Name + " again]", S: m.S, Before: m.States[0].Set})
}

// History: see Mutable2.History.
func (m Mutable3) History() []Step3 {
	var h []Step3
	for i, st := range m.States {
		set := st.Set
		if i == 0 {
			set = nil
		}
		h = append(h, Step3{Name: m.Name + " [" + st.Name + "]", S: m.S, Before: set})
		if i == 1 {
			h = append(h, Step3{Name: m.Name + " [" + st.Name + "]", S: m.S, InfoOnly: true})
		}
	}
	return append(h, Step3{Name: m.Name + " [" + m.States[0].Name + " again]", S: m.S, Before: m.States[0].Set})
}

func nop() {}

// Mutables2 builds fresh mutable model values inside the box ctr +- a (call it once per history run: the
// values carry state).  k in (0,1] scales the blending radii.
func Mutables2(ctr v2.Vec, a, k float64) []Mutable2 {
	bb := sdf.NewBox2(ctr, v2.Vec{X: 2 * a, Y: 2 * a})
	boxed := func(s sdf.SDF2) sdf.SDF2 { return &Boxed2{S: at2(s, ctr.X, ctr.Y), BB: bb} }
	k1, k2 := 0.25*k*a, 0.6*k*a
	mins := func(set func(sdf.MinFunc)) []State {
		return []State{
			{"min", func() { set(sdf.MinFunc(minf)) }},
			{fmt.Sprintf("SetMin(PolyMin(%.3g))", k2), func() { set(sdf.PolyMin(k2)) }},
			{fmt.Sprintf("SetMin(PolyMin(%.3g))", k1), func() { set(sdf.PolyMin(k1)) }},
		}
	}
	maxs := func(set func(sdf.MaxFunc)) []State {
		return []State{
			{"max", func() { set(sdf.MaxFunc(maxf)) }},
			{fmt.Sprintf("SetMax(PolyMax(%.3g))", k2), func() { set(sdf.PolyMax(k2)) }},
			{fmt.Sprintf("SetMax(PolyMax(%.3g))", k1), func() { set(sdf.PolyMax(k1)) }},
		}
	}
	var ms []Mutable2
	u := sdf.Union2D(at2(circle2(0.4*a), -0.25*a, 0), at2(circle2(0.35*a), 0.3*a, 0.1*a)).(*sdf.UnionSDF2)
	ms = append(ms, Mutable2{"union of two circles", boxed(u), mins(u.SetMin)})
	d := sdf.Difference2D(sdf.Box2D(v2.Vec{X: 1.3 * a, Y: 1.1 * a}, 0), at2(circle2(0.4*a), 0.5*a, 0.4*a)).(*sdf.DifferenceSDF2)
	ms = append(ms, Mutable2{"difference(rect, circle)", boxed(d), maxs(d.SetMax)})
	is := sdf.Intersect2D(at2(circle2(0.6*a), -0.25*a, 0), at2(circle2(0.6*a), 0.25*a, 0.1*a)).(*sdf.IntersectionSDF2)
	ms = append(ms, Mutable2{"intersection of two circles", boxed(is), maxs(is.SetMax)})
	ar := sdf.Array2D(at2(circle2(0.28*a), -0.4*a, -0.4*a), v2i.Vec{X: 2, Y: 2}, v2.Vec{X: 0.5 * a, Y: 0.5 * a}).(*sdf.ArraySDF2)
	ms = append(ms, Mutable2{"2x2 array of circles", boxed(ar), mins(ar.SetMin)})
	p := &Param2{C: ctr.Add(v2.Vec{X: 0.1 * a, Y: -0.05 * a}), R: 0.4 * a, BB: bb}
	ms = append(ms, Mutable2{"user-defined circle, fixed box", p, []State{
		{"R=0.4 a", func() { p.R = 0.4 * a }}, {"R=0.75 a", func() { p.R = 0.75 * a }}, {"R=0.55 a", func() { p.R = 0.55 * a }}}})
	q := &Param2{C: ctr, R: 0.5 * a, Follow: true}
	ms = append(ms, Mutable2{"user-defined circle, box follows the radius", q, []State{
		{"R=0.5 a", func() { q.R = 0.5 * a }}, {"R=a", func() { q.R = a }}, {"R=0.8 a", func() { q.R = 0.8 * a }}}})
	cs := sdf.Cache2D(at2(sdf.Difference2D(sdf.Box2D(v2.Vec{X: 1.6 * a, Y: 1.2 * a}, 0.1*a), circle2(0.3*a)), ctr.X, ctr.Y))
	ms = append(ms, Mutable2{"CacheSDF2(rounded plate with hole)", cs, []State{{"empty cache", nop}, {"cache filled by one render", nop}, {"cache filled by two renders", nop}}})
	return ms
}

// Mutables3: see Mutables2.
func Mutables3(ctr v3.Vec, a, k float64) []Mutable3 {
	bb := sdf.NewBox3(ctr, v3.Vec{X: 2 * a, Y: 2 * a, Z: 2 * a})
	boxed := func(s sdf.SDF3) sdf.SDF3 { return &Boxed3{S: at3(s, ctr.X, ctr.Y, ctr.Z), BB: bb} }
	k1, k2 := 0.25*k*a, 0.6*k*a
	mins := func(set func(sdf.MinFunc)) []State {
		return []State{
			{"min", func() { set(sdf.MinFunc(minf)) }},
			{fmt.Sprintf("SetMin(PolyMin(%.3g))", k2), func() { set(sdf.PolyMin(k2)) }},
			{fmt.Sprintf("SetMin(PolyMin(%.3g))", k1), func() { set(sdf.PolyMin(k1)) }},
		}
	}
	maxs := func(set func(sdf.MaxFunc)) []State {
		return []State{
			{"max", func() { set(sdf.MaxFunc(maxf)) }},
			{fmt.Sprintf("SetMax(PolyMax(%.3g))", k2), func() { set(sdf.PolyMax(k2)) }},
			{fmt.Sprintf("SetMax(PolyMax(%.3g))", k1), func() { set(sdf.PolyMax(k1)) }},
		}
	}
	var ms []Mutable3
	u := sdf.Union3D(at3(sphere3(0.4*a), -0.25*a, 0, 0), at3(sphere3(0.35*a), 0.3*a, 0.1*a, -0.05*a)).(*sdf.UnionSDF3)
	ms = append(ms, Mutable3{"union of two spheres", boxed(u), mins(u.SetMin)})
	d := sdf.Difference3D(box3(1.3*a, 1.1*a, 0.9*a), at3(sphere3(0.4*a), 0.5*a, 0.4*a, 0.3*a)).(*sdf.DifferenceSDF3)
	ms = append(ms, Mutable3{"difference(box, sphere)", boxed(d), maxs(d.SetMax)})
	is := sdf.Intersect3D(at3(sphere3(0.6*a), -0.25*a, 0, 0), at3(sphere3(0.6*a), 0.25*a, 0.1*a, 0)).(*sdf.IntersectionSDF3)
	ms = append(ms, Mutable3{"intersection of two spheres", boxed(is), maxs(is.SetMax)})
	ar := sdf.Array3D(at3(sphere3(0.28*a), -0.4*a, -0.4*a, 0), v3i.Vec{X: 2, Y: 2, Z: 1}, v3.Vec{X: 0.5 * a, Y: 0.5 * a, Z: a}).(*sdf.ArraySDF3)
	ms = append(ms, Mutable3{"2x2x1 array of spheres", boxed(ar), mins(ar.SetMin)})
	// an extrusion whose extrude function is replaced by other isometries of the plane
	prof := &Boxed2{S: sdf.Box2D(v2.Vec{X: 0.9 * a, Y: 0.5 * a}, 0.1*a), BB: sdf.NewBox2(v2.Vec{}, v2.Vec{X: 2 * a, Y: 2 * a})}
	ex := sdf.Extrude3D(prof, 1.2*a).(*sdf.ExtrudeSDF3)
	shift := func(p v3.Vec) v2.Vec { return v2.Vec{X: p.X - 0.3*a, Y: p.Y + 0.2*a} }
	turn := func(p v3.Vec) v2.Vec { return v2.Vec{X: 0.6*p.X + 0.8*p.Y, Y: -0.8*p.X + 0.6*p.Y} }
	ms = append(ms, Mutable3{"extrusion of a rounded rectangle", boxed(ex), []State{
		{"NormalExtrude", func() { ex.SetExtrude(sdf.NormalExtrude) }},
		{"SetExtrude(shift by (0.3 a, -0.2 a))", func() { ex.SetExtrude(shift) }},
		{"SetExtrude(rotation)", func() { ex.SetExtrude(turn) }}}})
	p := &Param3{C: ctr.Add(v3.Vec{X: 0.1 * a, Y: -0.05 * a, Z: 0.05 * a}), R: 0.4 * a, BB: bb}
	ms = append(ms, Mutable3{"user-defined sphere, fixed box", p, []State{
		{"R=0.4 a", func() { p.R = 0.4 * a }}, {"R=0.75 a", func() { p.R = 0.75 * a }}, {"R=0.55 a", func() { p.R = 0.55 * a }}}})
	q := &Param3{C: ctr, R: 0.5 * a, Follow: true}
	ms = append(ms, Mutable3{"user-defined sphere, box follows the radius", q, []State{
		{"R=0.5 a", func() { q.R = 0.5 * a }}, {"R=a", func() { q.R = a }}, {"R=0.8 a", func() { q.R = 0.8 * a }}}})
	cs := sdf.Cache2D(sdf.Difference2D(sdf.Box2D(v2.Vec{X: 1.6 * a, Y: 1.2 * a}, 0.1*a), circle2(0.3*a)))
	ce := sdf.Extrude3D(cs, 1.2*a)
	ms = append(ms, Mutable3{"extrusion of CacheSDF2(rounded plate with hole)", at3(ce, ctr.X, ctr.Y, ctr.Z), []State{{"empty cache", nop}, {"cache filled by one render", nop}, {"cache filled by two renders", nop}}})
	return ms
}

func minf(a, b float64) float64 {
	if a < b {
		return a
	}
	return b
}
func maxf(a, b float64) float64 {
	if a > b {
		return a
	}
	return b
}
