// Package marchkit: shared machinery of the C05 (marching cubes) and C08 (marching squares)
// harnesses: lattice-lookup fields that drive any sign pattern through the REAL renderers,
// learning of the lattice a renderer samples, mapping of emitted vertices back to lattice
// edges, and the direct closedness / orientation oracles on emitted meshes.
package marchkit

import (
	"fmt"
	"math"
	"math/big"
	"sort"
	"sync"

	"github.com/deadsy/sdfx/render"
	"github.com/deadsy/sdfx/sdf"
	v2 "github.com/deadsy/sdfx/vec/v2"
	v3 "github.com/deadsy/sdfx/vec/v3"
)

// ---------------------------------------------------------------- lattices

// distinct sorted values, merging values closer than tol
func distinct(xs []float64, tol float64) []float64 {
	sort.Float64s(xs)
	var out []float64
	for _, x := range xs {
		if len(out) == 0 || x-out[len(out)-1] > tol {
			out = append(out, x)
		}
	}
	return out
}

// nearest index in sorted xs and the distance to it
func nearest(xs []float64, x float64) (int, float64) {
	i := sort.SearchFloat64s(xs, x)
	best, bd := -1, math.Inf(1)
	for _, j := range []int{i - 1, i} {
		if j >= 0 && j < len(xs) {
			if d := math.Abs(xs[j] - x); d < bd {
				best, bd = j, d
			}
		}
	}
	return best, bd
}

// Lattice3 is the set of lattice lines a 3D renderer samples (coordinates of the cell corners).
type Lattice3 struct {
	X, Y, Z []float64
	H       float64 // smallest spacing
}

func (l *Lattice3) Dims() (int, int, int) { return len(l.X) - 1, len(l.Y) - 1, len(l.Z) - 1 }
func (l *Lattice3) Index(ix, iy, iz int) int {
	return (ix*len(l.Y)+iy)*len(l.Z) + iz
}
func (l *Lattice3) Points() int { return len(l.X) * len(l.Y) * len(l.Z) }

func minSpacing(xs []float64) float64 {
	h := math.Inf(1)
	for i := 1; i < len(xs); i++ {
		h = math.Min(h, xs[i]-xs[i-1])
	}
	return h
}

// Lookup3 is an SDF3 whose value at a lattice point is a table entry (nearest lattice index);
// elsewhere (and while learning) it returns Def (> 0, small).
type Lookup3 struct {
	BB   sdf.Box3
	Lat  *Lattice3
	Vals []float64
	Def  float64
	mu   sync.Mutex
	pts  []v3.Vec
	// OffLattice counts evaluations that were not within tolerance of a lattice point
	OffLattice int
}

func (s *Lookup3) BoundingBox() sdf.Box3 { return s.BB }
func (s *Lookup3) Evaluate(p v3.Vec) float64 {
	if s.Lat == nil {
		s.mu.Lock()
		s.pts = append(s.pts, p)
		s.mu.Unlock()
		return s.Def
	}
	tol := 1e-6 * s.Lat.H
	ix, dx := nearest(s.Lat.X, p.X)
	iy, dy := nearest(s.Lat.Y, p.Y)
	iz, dz := nearest(s.Lat.Z, p.Z)
	if dx > tol || dy > tol || dz > tol {
		s.mu.Lock()
		s.OffLattice++
		s.mu.Unlock()
		return s.Def
	}
	return s.Vals[s.Lat.Index(ix, iy, iz)]
}

// Learn3 runs renderer r over a constant positive field with bounding box bb and returns the
// lattice of cell corners it samples.  halfLattice: the renderer also samples cell centres
// (octree: cube centres at odd half-cell indices), every second line is a corner line.
func Learn3(bb sdf.Box3, r render.Render3, def float64, halfLattice bool) (*Lattice3, error) {
	s := &Lookup3{BB: bb, Def: def}
	ts := render.ToTriangles(s, r)
	if len(ts) != 0 {
		return nil, fmt.Errorf("learning render of a constant positive field emitted %d triangles", len(ts))
	}
	var xs, ys, zs []float64
	for _, p := range s.pts {
		xs, ys, zs = append(xs, p.X), append(ys, p.Y), append(zs, p.Z)
	}
	if len(xs) == 0 {
		return nil, fmt.Errorf("renderer evaluated no point")
	}
	size := bb.Size()
	tol := 1e-9 * math.Max(size.X, math.Max(size.Y, size.Z))
	l := &Lattice3{X: distinct(xs, tol), Y: distinct(ys, tol), Z: distinct(zs, tol)}
	if halfLattice {
		ev := func(a []float64) ([]float64, error) {
			if len(a)%2 == 0 {
				return nil, fmt.Errorf("octree lattice has an even number (%d) of sampled coordinates", len(a))
			}
			var o []float64
			for i := 0; i < len(a); i += 2 {
				o = append(o, a[i])
			}
			return o, nil
		}
		var err error
		if l.X, err = ev(l.X); err != nil {
			return nil, err
		}
		if l.Y, err = ev(l.Y); err != nil {
			return nil, err
		}
		if l.Z, err = ev(l.Z); err != nil {
			return nil, err
		}
	}
	if len(l.X) < 2 || len(l.Y) < 2 || len(l.Z) < 2 {
		return nil, fmt.Errorf("degenerate lattice %dx%dx%d", len(l.X), len(l.Y), len(l.Z))
	}
	l.H = math.Min(minSpacing(l.X), math.Min(minSpacing(l.Y), minSpacing(l.Z)))
	return l, nil
}

// GV is an abstract vertex: lattice edge (base index, axis 0..2) or lattice point (axis 3).
type GV struct{ X, Y, Z, A int }

func (g GV) Coq() string { return fmt.Sprintf("(%d, %d, %d, %d)", g.X, g.Y, g.Z, g.A) }

// classify one coordinate: on lattice line i (frac=false) or strictly between i and i+1
func classify(xs []float64, x, tol float64) (i int, frac bool, ok bool) {
	j, d := nearest(xs, x)
	if d <= tol {
		return j, false, true
	}
	k := sort.SearchFloat64s(xs, x) // first index with xs[k] >= x
	if k <= 0 || k >= len(xs) {
		return 0, false, false
	}
	return k - 1, true, true
}

// Vertex3 maps an emitted vertex to its abstract name.
func (l *Lattice3) Vertex3(p v3.Vec) (GV, error) {
	tol := 1e-6 * l.H
	ix, fx, okx := classify(l.X, p.X, tol)
	iy, fy, oky := classify(l.Y, p.Y, tol)
	iz, fz, okz := classify(l.Z, p.Z, tol)
	if !okx || !oky || !okz {
		return GV{}, fmt.Errorf("vertex %v outside the sampled lattice", p)
	}
	n := 0
	a := 3
	if fx {
		n, a = n+1, 0
	}
	if fy {
		n, a = n+1, 1
	}
	if fz {
		n, a = n+1, 2
	}
	if n > 1 {
		return GV{}, fmt.Errorf("vertex %v does not lie on a lattice edge", p)
	}
	return GV{ix, iy, iz, a}, nil
}

// ---------------------------------------------------------------- clustering (union-find over a grid hash)

type uf struct{ p []int }

func newUF(n int) *uf {
	u := &uf{make([]int, n)}
	for i := range u.p {
		u.p[i] = i
	}
	return u
}
func (u *uf) find(i int) int {
	for u.p[i] != i {
		u.p[i] = u.p[u.p[i]]
		i = u.p[i]
	}
	return i
}
func (u *uf) union(a, b int) {
	a, b = u.find(a), u.find(b)
	if a != b {
		u.p[b] = a
	}
}

// Cluster3 identifies points closer than tol (transitively); returns a cluster id per point.
func Cluster3(ps []v3.Vec, tol float64) []int {
	u := newUF(len(ps))
	type key [3]int64
	grid := map[key][]int{}
	k := func(p v3.Vec) key {
		return key{int64(math.Floor(p.X / tol)), int64(math.Floor(p.Y / tol)), int64(math.Floor(p.Z / tol))}
	}
	for i, p := range ps {
		c := k(p)
		for dx := int64(-1); dx <= 1; dx++ {
			for dy := int64(-1); dy <= 1; dy++ {
				for dz := int64(-1); dz <= 1; dz++ {
					for _, j := range grid[key{c[0] + dx, c[1] + dy, c[2] + dz}] {
						q := ps[j]
						if math.Abs(p.X-q.X) <= tol && math.Abs(p.Y-q.Y) <= tol && math.Abs(p.Z-q.Z) <= tol {
							u.union(i, j)
						}
					}
				}
			}
		}
		grid[c] = append(grid[c], i)
	}
	out := make([]int, len(ps))
	for i := range ps {
		out[i] = u.find(i)
	}
	return out
}

// Cluster2 is Cluster3 in the plane.
func Cluster2(ps []v2.Vec, tol float64) []int {
	q := make([]v3.Vec, len(ps))
	for i, p := range ps {
		q[i] = v3.Vec{X: p.X, Y: p.Y}
	}
	return Cluster3(q, tol)
}

// ---------------------------------------------------------------- oracles on a triangle mesh

// MeshResult is what the direct oracles of C05 observe on one emitted mesh.
type MeshResult struct {
	Triangles        int
	IdenticalVertex  int    // triangles with two bit-identical vertices (must be 0)
	CollapsedByIdent int    // triangles with two vertices in one cluster (dropped before balancing)
	Unbalanced       int    // directed cluster edges a->b whose count differs from b->a
	VolumeSign       int    // sign of the exact signed volume (sum of det/6)
	Volume           float64
	FirstUnbalanced  string
}

func rat(x float64) *big.Rat { return new(big.Rat).SetFloat64(x) }

// exact sign of sum over triangles of det(t0,t1,t2) (relative to origin o)
func volume6(ts []*sdf.Triangle3, o v3.Vec) *big.Rat {
	sum := new(big.Rat)
	mul := func(a, b *big.Rat) *big.Rat { return new(big.Rat).Mul(a, b) }
	sub := func(a, b *big.Rat) *big.Rat { return new(big.Rat).Sub(a, b) }
	for _, t := range ts {
		var m [3][3]*big.Rat
		for i := 0; i < 3; i++ {
			m[i][0] = sub(rat(t[i].X), rat(o.X))
			m[i][1] = sub(rat(t[i].Y), rat(o.Y))
			m[i][2] = sub(rat(t[i].Z), rat(o.Z))
		}
		det := new(big.Rat)
		det.Add(det, mul(m[0][0], sub(mul(m[1][1], m[2][2]), mul(m[1][2], m[2][1]))))
		det.Sub(det, mul(m[0][1], sub(mul(m[1][0], m[2][2]), mul(m[1][2], m[2][0]))))
		det.Add(det, mul(m[0][2], sub(mul(m[1][0], m[2][1]), mul(m[1][1], m[2][0]))))
		sum.Add(sum, det)
	}
	return sum
}

// CheckMesh3 runs the direct oracles: after identifying vertices closer than tol every directed
// edge a->b is matched by b->a equally often; no triangle has two identical vertices; sign of
// the enclosed signed volume.
func CheckMesh3(ts []*sdf.Triangle3, tol float64) MeshResult {
	res := MeshResult{Triangles: len(ts)}
	idx := map[v3.Vec]int{}
	var ps []v3.Vec
	id := func(p v3.Vec) int {
		if p.X == 0 {
			p.X = 0 // -0 == +0
		}
		if p.Y == 0 {
			p.Y = 0
		}
		if p.Z == 0 {
			p.Z = 0
		}
		if i, ok := idx[p]; ok {
			return i
		}
		idx[p] = len(ps)
		ps = append(ps, p)
		return len(ps) - 1
	}
	tri := make([][3]int, len(ts))
	for i, t := range ts {
		for k := 0; k < 3; k++ {
			tri[i][k] = id(t[k])
		}
		if t[0] == t[1] || t[1] == t[2] || t[2] == t[0] {
			res.IdenticalVertex++
		}
	}
	cl := Cluster3(ps, tol)
	type de [2]int
	cnt := map[de]int{}
	for _, t := range tri {
		a, b, c := cl[t[0]], cl[t[1]], cl[t[2]]
		if a == b || b == c || c == a {
			res.CollapsedByIdent++
			continue
		}
		cnt[de{a, b}]++
		cnt[de{b, c}]++
		cnt[de{c, a}]++
	}
	keys := make([]de, 0, len(cnt))
	for e := range cnt {
		keys = append(keys, e)
	}
	sort.Slice(keys, func(i, j int) bool {
		if keys[i][0] != keys[j][0] {
			return keys[i][0] < keys[j][0]
		}
		return keys[i][1] < keys[j][1]
	})
	for _, e := range keys {
		if cnt[e] != cnt[de{e[1], e[0]}] {
			res.Unbalanced++
			if res.FirstUnbalanced == "" {
				res.FirstUnbalanced = fmt.Sprintf("%v -> %v occurs %d times, the reverse %d times", ps[e[0]], ps[e[1]], cnt[e], cnt[de{e[1], e[0]}])
			}
		}
	}
	if len(ts) > 0 {
		// float64 first (relative to a vertex of the mesh); exact rationals only when the sum is not
		// clearly away from zero compared with the magnitude of its terms
		o := ts[0][0]
		sum, mag := 0.0, 0.0
		for _, t := range ts {
			a, b, c := t[0].Sub(o), t[1].Sub(o), t[2].Sub(o)
			d := a.X*(b.Y*c.Z-b.Z*c.Y) - a.Y*(b.X*c.Z-b.Z*c.X) + a.Z*(b.X*c.Y-b.Y*c.X)
			sum += d
			mag += math.Abs(a.X*b.Y*c.Z) + math.Abs(a.X*b.Z*c.Y) + math.Abs(a.Y*b.X*c.Z) + math.Abs(a.Y*b.Z*c.X) + math.Abs(a.Z*b.X*c.Y) + math.Abs(a.Z*b.Y*c.X)
		}
		if math.Abs(sum) > 1e-9*mag {
			res.Volume = sum / 6
			if sum > 0 {
				res.VolumeSign = 1
			} else {
				res.VolumeSign = -1
			}
		} else {
			v := volume6(ts, o)
			res.VolumeSign = v.Sign()
			f, _ := v.Float64()
			res.Volume = f / 6
		}
	}
	return res
}
