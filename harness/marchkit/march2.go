package marchkit

import (
	"fmt"
	"math"
	"sort"
	"sync"

	"github.com/deadsy/sdfx/render"
	"github.com/deadsy/sdfx/sdf"
	v2 "github.com/deadsy/sdfx/vec/v2"
)

// ToLines collects the segments a 2D renderer emits (through sdf.NewLine2Buffer, as ToDXF does).
func ToLines(s sdf.SDF2, r render.Render2) []*sdf.Line2 {
	var lines []*sdf.Line2
	var wg sync.WaitGroup
	ch := make(chan []*sdf.Line2)
	wg.Add(1)
	go func() {
		defer wg.Done()
		for ls := range ch {
			lines = append(lines, ls...)
		}
	}()
	r.Render(s, sdf.NewLine2Buffer(ch))
	close(ch)
	wg.Wait()
	return lines
}

// Lattice2 is the set of lattice lines a 2D renderer samples.
type Lattice2 struct {
	X, Y []float64
	H    float64
}

func (l *Lattice2) Dims() (int, int)      { return len(l.X) - 1, len(l.Y) - 1 }
func (l *Lattice2) Index(ix, iy int) int { return ix*len(l.Y) + iy }
func (l *Lattice2) Points() int          { return len(l.X) * len(l.Y) }

// Lookup2 is the 2D lattice-lookup field.
type Lookup2 struct {
	BB         sdf.Box2
	Lat        *Lattice2
	Vals       []float64
	Def        float64
	mu         sync.Mutex
	pts        []v2.Vec
	OffLattice int
}

func (s *Lookup2) BoundingBox() sdf.Box2 { return s.BB }
func (s *Lookup2) Evaluate(p v2.Vec) float64 {
	if s.Lat == nil {
		s.mu.Lock()
		s.pts = append(s.pts, p)
		s.mu.Unlock()
		return s.Def
	}
	tol := 1e-6 * s.Lat.H
	ix, dx := nearest(s.Lat.X, p.X)
	iy, dy := nearest(s.Lat.Y, p.Y)
	if dx > tol || dy > tol {
		s.mu.Lock()
		s.OffLattice++
		s.mu.Unlock()
		return s.Def
	}
	return s.Vals[s.Lat.Index(ix, iy)]
}

// Learn2: see Learn3.
func Learn2(bb sdf.Box2, r render.Render2, def float64, halfLattice bool) (*Lattice2, error) {
	s := &Lookup2{BB: bb, Def: def}
	ls := ToLines(s, r)
	if len(ls) != 0 {
		return nil, fmt.Errorf("learning render of a constant positive field emitted %d segments", len(ls))
	}
	var xs, ys []float64
	for _, p := range s.pts {
		xs, ys = append(xs, p.X), append(ys, p.Y)
	}
	if len(xs) == 0 {
		return nil, fmt.Errorf("renderer evaluated no point")
	}
	size := bb.Size()
	tol := 1e-9 * math.Max(size.X, size.Y)
	l := &Lattice2{X: distinct(xs, tol), Y: distinct(ys, tol)}
	if halfLattice {
		ev := func(a []float64) ([]float64, error) {
			if len(a)%2 == 0 {
				return nil, fmt.Errorf("quadtree lattice has an even number (%d) of sampled coordinates", len(a))
			}
			var o []float64
			for i := 0; i < len(a); i += 2 {
				o = append(o, a[i])
			}
			return o, nil
		}
		var err error
		if l.X, err = ev(l.X); err != nil {
			return nil, err
		}
		if l.Y, err = ev(l.Y); err != nil {
			return nil, err
		}
	}
	if len(l.X) < 2 || len(l.Y) < 2 {
		return nil, fmt.Errorf("degenerate lattice %dx%d", len(l.X), len(l.Y))
	}
	l.H = math.Min(minSpacing(l.X), minSpacing(l.Y))
	return l, nil
}

// GV2 is an abstract 2D vertex: lattice edge (base index, axis 0..1) or lattice point (axis 3).
type GV2 struct{ X, Y, A int }

func (g GV2) Coq() string { return fmt.Sprintf("(%d, %d, %d)", g.X, g.Y, g.A) }

// Vertex2 maps an emitted end point to its abstract name.
func (l *Lattice2) Vertex2(p v2.Vec) (GV2, error) {
	tol := 1e-6 * l.H
	ix, fx, okx := classify(l.X, p.X, tol)
	iy, fy, oky := classify(l.Y, p.Y, tol)
	if !okx || !oky {
		return GV2{}, fmt.Errorf("end point %v outside the sampled lattice", p)
	}
	if fx && fy {
		return GV2{}, fmt.Errorf("end point %v does not lie on a lattice edge", p)
	}
	a := 3
	if fx {
		a = 0
	}
	if fy {
		a = 1
	}
	return GV2{ix, iy, a}, nil
}

// LinesResult is what the direct oracles of C08 observe on one emitted segment set.
type LinesResult struct {
	Segments      int
	ZeroLength    int // segments with bit-identical end points (must be 0)
	Collapsed     int // segments whose end points fall in one cluster (dropped before counting)
	OddPoints     int // clusters with odd degree (must be 0)
	MaxDegree     int
	DegreeHist    map[int]int
	FirstOdd      string
	Length        float64
}

// CheckLines2: after identifying end points closer than tol every point has even degree; no
// segment has zero length.
func CheckLines2(ls []*sdf.Line2, tol float64) LinesResult {
	res := LinesResult{Segments: len(ls), DegreeHist: map[int]int{}}
	idx := map[v2.Vec]int{}
	var ps []v2.Vec
	id := func(p v2.Vec) int {
		if p.X == 0 {
			p.X = 0
		}
		if p.Y == 0 {
			p.Y = 0
		}
		if i, ok := idx[p]; ok {
			return i
		}
		idx[p] = len(ps)
		ps = append(ps, p)
		return len(ps) - 1
	}
	seg := make([][2]int, len(ls))
	for i, l := range ls {
		seg[i] = [2]int{id(l[0]), id(l[1])}
		if l[0] == l[1] {
			res.ZeroLength++
		}
		res.Length += l[1].Sub(l[0]).Length()
	}
	cl := Cluster2(ps, tol)
	deg := map[int]int{}
	for _, s := range seg {
		a, b := cl[s[0]], cl[s[1]]
		if a == b {
			res.Collapsed++
			continue
		}
		deg[a]++
		deg[b]++
	}
	keys := make([]int, 0, len(deg))
	for k := range deg {
		keys = append(keys, k)
	}
	sort.Ints(keys)
	for _, k := range keys {
		d := deg[k]
		res.DegreeHist[d]++
		if d > res.MaxDegree {
			res.MaxDegree = d
		}
		if d%2 != 0 {
			res.OddPoints++
			if res.FirstOdd == "" {
				res.FirstOdd = fmt.Sprintf("point %v is the end of %d segments", ps[k], d)
			}
		}
	}
	return res
}
