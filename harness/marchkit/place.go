package marchkit

// Placement of models as a generated dimension (added after mutation testing, round 4):
//
//   - Offsets3 / Offsets2: translations that put the bounding box away from the origin: Min > 0 (or
//     Max < 0) on one, two, three axes, by 2x .. 1000x the size of the model.  Anything in a renderer
//     that is computed from absolute coordinates instead of (centre, size) - a box scaled about the
//     origin instead of about its centre, a lattice origin rounded absolutely, a tolerance that is
//     absolute - is invisible for models that straddle the origin.
//   - CheckScaled3 / CheckScaled2: the box the hierarchical renderers enlarge by 1 % must stay centred
//     on the bounding box (computed here from centre and size, not with the code under test).
//   - FeaturesOnLattice3 / FeaturesOnLattice2: CSG of axis-aligned boxes whose inner faces, edges and
//     corners lie exactly on (or within the snapping window 1e-12 of) the layers of a given sampling
//     lattice: through-holes, L-shapes, steps, pockets.  The field is exactly zero at whole rows of
//     lattice points along edges of the solid, so several crossings of a cell snap onto one corner
//     and the degenerate-triangle filter is what keeps the mesh free of zero-area triangles.

import (
	"fmt"
	"math"

	"github.com/deadsy/sdfx/sdf"
	v2 "github.com/deadsy/sdfx/vec/v2"
	v3 "github.com/deadsy/sdfx/vec/v3"
	sk "verifharness/samplekit"
)

// Offset is one translation in units of the model size (the largest extent of its bounding box).
type Offset struct {
	Name string
	V    [3]float64
	Axes int // number of axes on which the bounding box no longer contains the origin
}

// Offsets3 lists, for every non-empty subset of the axes and every factor 2, 10, 100, 1000, one
// translation by factor*size along the axes of the subset; sign(i) chooses the direction per use
// (+1: Min > 0, -1: Max < 0).  28 entries.
func Offsets3(sign func() float64) []Offset {
	var out []Offset
	for _, k := range []float64{2, 10, 100, 1000} {
		for m := 1; m < 8; m++ {
			o := Offset{}
			nm := ""
			for a := 0; a < 3; a++ {
				if m&(1<<uint(a)) != 0 {
					s := sign()
					o.V[a] = s * k
					o.Axes++
					nm += map[float64]string{1: "+", -1: "-"}[s] + string("xyz"[a])
				}
			}
			o.Name = fmt.Sprintf("%s/%gx", nm, k)
			out = append(out, o)
		}
	}
	return out
}

// Offsets2: the same for two axes (12 entries).
func Offsets2(sign func() float64) []Offset {
	var out []Offset
	for _, k := range []float64{2, 10, 100, 1000} {
		for m := 1; m < 4; m++ {
			o := Offset{}
			nm := ""
			for a := 0; a < 2; a++ {
				if m&(1<<uint(a)) != 0 {
					s := sign()
					o.V[a] = s * k
					o.Axes++
					nm += map[float64]string{1: "+", -1: "-"}[s] + string("xy"[a])
				}
			}
			o.Name = fmt.Sprintf("%s/%gx", nm, k)
			out = append(out, o)
		}
	}
	return out
}

// Scaled3 is the box of factor k about the centre of bb, from centre and size.
func Scaled3(bb sdf.Box3, k float64) (lo, hi v3.Vec) {
	c := v3.Vec{X: 0.5*bb.Min.X + 0.5*bb.Max.X, Y: 0.5*bb.Min.Y + 0.5*bb.Max.Y, Z: 0.5*bb.Min.Z + 0.5*bb.Max.Z}
	h := v3.Vec{X: 0.5 * k * (bb.Max.X - bb.Min.X), Y: 0.5 * k * (bb.Max.Y - bb.Min.Y), Z: 0.5 * k * (bb.Max.Z - bb.Min.Z)}
	return c.Sub(h), c.Add(h)
}

func Scaled2(bb sdf.Box2, k float64) (lo, hi v2.Vec) {
	c := v2.Vec{X: 0.5*bb.Min.X + 0.5*bb.Max.X, Y: 0.5*bb.Min.Y + 0.5*bb.Max.Y}
	h := v2.Vec{X: 0.5 * k * (bb.Max.X - bb.Min.X), Y: 0.5 * k * (bb.Max.Y - bb.Min.Y)}
	return c.Sub(h), c.Add(h)
}

// CheckScaled3: the box the octree renderer starts from, bb.ScaleAboutCenter(1.01), is the bounding box
// enlarged by 0.5 % of its size on every side (tolerance: 1e-9 of the size plus the rounding of the
// coordinates themselves).  "" = as expected.
func CheckScaled3(bb sdf.Box3) string {
	got := bb.ScaleAboutCenter(1.01)
	lo, hi := Scaled3(bb, 1.01)
	size := bb.Max.Sub(bb.Min)
	mag := math.Max(bb.Min.Abs().MaxComponent(), bb.Max.Abs().MaxComponent())
	tol := 1e-9*size.MaxComponent() + 1e-14*mag
	if got.Min.Sub(lo).Abs().MaxComponent() > tol || got.Max.Sub(hi).Abs().MaxComponent() > tol {
		return fmt.Sprintf("the 1.01-scaled box of the bounding box [%v,%v] is [%v,%v]: not centred on the bounding box (expected [%v,%v]: 0.5 %% of the size added on every side); the octree lattice starts at its Min, so part of the bounding box is outside the sampled cube or the margins are unequal",
			bb.Min, bb.Max, got.Min, got.Max, lo, hi)
	}
	return ""
}

func CheckScaled2(bb sdf.Box2) string {
	got := bb.ScaleAboutCenter(1.01)
	lo, hi := Scaled2(bb, 1.01)
	size := bb.Max.Sub(bb.Min)
	mag := math.Max(math.Max(math.Abs(bb.Min.X), math.Abs(bb.Min.Y)), math.Max(math.Abs(bb.Max.X), math.Abs(bb.Max.Y)))
	tol := 1e-9*math.Max(size.X, size.Y) + 1e-14*mag
	d := math.Max(math.Max(math.Abs(got.Min.X-lo.X), math.Abs(got.Min.Y-lo.Y)), math.Max(math.Abs(got.Max.X-hi.X), math.Abs(got.Max.Y-hi.Y)))
	if d > tol {
		return fmt.Sprintf("the 1.01-scaled box of the bounding box [%v,%v] is [%v,%v]: not centred on the bounding box (expected [%v,%v]: 0.5 %% of the size added on every side); the quadtree lattice starts at its Min, so part of the bounding box is outside the sampled square or the margins are unequal",
			bb.Min, bb.Max, got.Min, got.Max, lo, hi)
	}
	return ""
}

// ---------------------------------------------------------------- features on lattice layers

// NamedField3 is a replayable field (absolute coordinates) with a name for the stratum.
type NamedField3 struct {
	Name string
	F    *sk.Field
}

type NamedField2 struct {
	Name string
	F    *sk.Field
}

// interior layers of one axis: strictly inside (lo, hi) with a margin of m
func interior(xs []float64, lo, hi, m float64) []float64 {
	var o []float64
	for _, x := range xs {
		if x > lo+m && x < hi-m {
			o = append(o, x)
		}
	}
	return o
}

// two distinct layers a < b of ls (at least 2 layers), chosen by pick
func twoLayers(ls []float64, pick func(n int) int) (float64, float64) {
	i := pick(len(ls) - 1)
	j := i + 1 + pick(len(ls)-1-i)
	return ls[i], ls[j]
}

func boxLoHi(lo, hi [3]float64) *sk.Field {
	return &sk.Field{Kind: "box",
		C: []float64{0.5*lo[0] + 0.5*hi[0], 0.5*lo[1] + 0.5*hi[1], 0.5*lo[2] + 0.5*hi[2]},
		H: []float64{0.5 * (hi[0] - lo[0]), 0.5 * (hi[1] - lo[1]), 0.5 * (hi[2] - lo[2])}}
}

func rectLoHi(lo, hi [2]float64) *sk.Field {
	return &sk.Field{Kind: "rect",
		C: []float64{0.5*lo[0] + 0.5*hi[0], 0.5*lo[1] + 0.5*hi[1]},
		H: []float64{0.5 * (hi[0] - lo[0]), 0.5 * (hi[1] - lo[1])}}
}

// FeaturesOnLattice3: xs, ys, zs are the corner layers of the sampling lattice of (bb, renderer); the block
// is the bounding box itself.  pick(n) returns 0..n-1; jitter() returns the offset of a face from its layer
// (0, or a few 1e-13: inside the snapping window).  nil when the lattice has fewer than 2 interior layers
// (one cell from the faces of the box) on some axis.
func FeaturesOnLattice3(xs, ys, zs []float64, bb sdf.Box3, pick func(n int) int, jitter func() float64) []NamedField3 {
	size := bb.Max.Sub(bb.Min)
	big := 2 * size.MaxComponent()
	mn := [3]float64{bb.Min.X, bb.Min.Y, bb.Min.Z}
	mx := [3]float64{bb.Max.X, bb.Max.Y, bb.Max.Z}
	var in [3][]float64
	for a, ls := range [][]float64{xs, ys, zs} {
		h := minSpacing(ls)
		in[a] = interior(ls, mn[a], mx[a], 0.99*h)
		if len(in[a]) < 2 {
			return nil
		}
	}
	block := boxLoHi(mn, mx)
	var lo, hi [3]float64
	for a := 0; a < 3; a++ {
		lo[a], hi[a] = twoLayers(in[a], pick)
		lo[a] += jitter()
		hi[a] += jitter()
	}
	var out []NamedField3
	// through-holes along each axis: cross-section on lattice layers, open at both ends
	for a := 0; a < 3; a++ {
		l, h := lo, hi
		l[a], h[a] = mn[a]-big, mx[a]+big
		out = append(out, NamedField3{fmt.Sprintf("through-hole-%c", "xyz"[a]), &sk.Field{Kind: "diff", A: block, B: boxLoHi(l, h)}})
	}
	// L-shape: a quadrant removed along one axis (re-entrant edge on a lattice line)
	for a := 0; a < 3; a++ {
		l := [3]float64{lo[0], lo[1], lo[2]}
		h := [3]float64{mx[0] + big, mx[1] + big, mx[2] + big}
		l[a] = mn[a] - big
		out = append(out, NamedField3{fmt.Sprintf("L-shape-%c", "xyz"[a]), &sk.Field{Kind: "diff", A: block, B: boxLoHi(l, h)}})
	}
	// step: an octant removed (re-entrant corner at a lattice point, three re-entrant edges)
	out = append(out, NamedField3{"octant-notch", &sk.Field{Kind: "diff", A: block,
		B: boxLoHi(lo, [3]float64{mx[0] + big, mx[1] + big, mx[2] + big})}})
	// pocket: blind hole from one face down to a lattice layer
	{
		a := pick(3)
		l, h := lo, hi
		h[a] = mx[a] + big
		out = append(out, NamedField3{fmt.Sprintf("pocket-%c", "xyz"[a]), &sk.Field{Kind: "diff", A: block, B: boxLoHi(l, h)}})
	}
	// (the shapes below need a lattice point strictly inside: at least two cells thick on every axis)
	for a, ls := range [][]float64{xs, ys, zs} {
		if hi[a]-lo[a] < 1.5*minSpacing(ls) {
			return out
		}
	}
	// all six faces on lattice layers
	out = append(out, NamedField3{"block-on-layers", boxLoHi(lo, hi)})
	// two overlapping blocks (stairs): convex and re-entrant edges on lattice lines
	{
		a := pick(3)
		l2, h2 := lo, hi
		l2[a] = mn[a]
		h2[a] = lo[a] + 0.5*(hi[a]-lo[a])
		b := (a + 1) % 3
		l2[b] = mn[b]
		out = append(out, NamedField3{"stairs", &sk.Field{Kind: "union", A: boxLoHi(lo, hi), B: boxLoHi(l2, h2)}})
	}
	return out
}

// FeaturesOnLattice2: the same in the plane (slot, L-shape, notch, block).
func FeaturesOnLattice2(xs, ys []float64, bb sdf.Box2, pick func(n int) int, jitter func() float64) []NamedField2 {
	big := 2 * math.Max(bb.Max.X-bb.Min.X, bb.Max.Y-bb.Min.Y)
	mn := [2]float64{bb.Min.X, bb.Min.Y}
	mx := [2]float64{bb.Max.X, bb.Max.Y}
	var in [2][]float64
	for a, ls := range [][]float64{xs, ys} {
		h := minSpacing(ls)
		in[a] = interior(ls, mn[a], mx[a], 0.99*h)
		if len(in[a]) < 2 {
			return nil
		}
	}
	block := rectLoHi(mn, mx)
	var lo, hi [2]float64
	for a := 0; a < 2; a++ {
		lo[a], hi[a] = twoLayers(in[a], pick)
		lo[a] += jitter()
		hi[a] += jitter()
	}
	var out []NamedField2
	for a := 0; a < 2; a++ {
		l, h := lo, hi
		l[a], h[a] = mn[a]-big, mx[a]+big
		out = append(out, NamedField2{fmt.Sprintf("slot-%c", "xy"[a]), &sk.Field{Kind: "diff", A: block, B: rectLoHi(l, h)}})
	}
	out = append(out, NamedField2{"L-shape", &sk.Field{Kind: "diff", A: block, B: rectLoHi(lo, [2]float64{mx[0] + big, mx[1] + big})}})
	out = append(out, NamedField2{"window", &sk.Field{Kind: "diff", A: block, B: rectLoHi(lo, hi)}})
	{
		a := pick(2)
		l, h := lo, hi
		h[a] = mx[a] + big
		out = append(out, NamedField2{fmt.Sprintf("notch-%c", "xy"[a]), &sk.Field{Kind: "diff", A: block, B: rectLoHi(l, h)}})
	}
	if hi[0]-lo[0] >= 1.5*minSpacing(xs) && hi[1]-lo[1] >= 1.5*minSpacing(ys) {
		out = append(out, NamedField2{"block-on-layers", rectLoHi(lo, hi)})
	}
	return out
}

// ---------------------------------------------------------------- moved models

// Moved3 is S translated by D (evaluated as S(p - D); the bounding box moves with it).  Independent of the
// library's own transform code.
type Moved3 struct {
	S sdf.SDF3
	D v3.Vec
}

func (m Moved3) Evaluate(p v3.Vec) float64 { return m.S.Evaluate(p.Sub(m.D)) }
func (m Moved3) BoundingBox() sdf.Box3 {
	b := m.S.BoundingBox()
	return sdf.Box3{Min: b.Min.Add(m.D), Max: b.Max.Add(m.D)}
}

type Moved2 struct {
	S sdf.SDF2
	D v2.Vec
}

func (m Moved2) Evaluate(p v2.Vec) float64 { return m.S.Evaluate(p.Sub(m.D)) }
func (m Moved2) BoundingBox() sdf.Box2 {
	b := m.S.BoundingBox()
	return sdf.Box2{Min: b.Min.Add(m.D), Max: b.Max.Add(m.D)}
}
