package marchkit

// Renderer reuse: ONE renderer value (the *MarchingCubesOctree / *MarchingSquaresUniform / ... a caller
// keeps around) handles a HISTORY of models - different shapes, different bounding boxes, Info calls and
// renders interleaved - and every render is compared with what a FRESH renderer value from the same
// constructor emits for the same model.  A renderer is a function of (model, constructor arguments): any
// state a renderer value keeps between calls (a memoised cell size, a cached lattice, a distance cache,
// level count, ...) shows up as a difference.  The reused renderer runs under an evaluation budget (a
// multiple of what the fresh renderer needed) so that stale state which makes the lattice far too fine
// is reported instead of exhausting time and memory.

import (
	"fmt"
	"sync"
	"sync/atomic"

	"github.com/deadsy/sdfx/render"
	"github.com/deadsy/sdfx/sdf"
	v2 "github.com/deadsy/sdfx/vec/v2"
	v3 "github.com/deadsy/sdfx/vec/v3"
)

// Step3 is one call of a history: Info(S) and Render(S), or Info(S) only.
type Step3 struct {
	Name     string
	S        sdf.SDF3
	InfoOnly bool // only Info is called (the output routines call Info, then Render)
	// Before (may be nil) runs before the calls of this step: an in-place change of the model value S
	// (SetMin, SetExtrude, a parameter of a user-defined field, ...).  See mutate.go.
	Before func()
}

// Step2: see Step3.
type Step2 struct {
	Name     string
	S        sdf.SDF2
	InfoOnly bool
	Before   func()
}

// ReuseDiff is one discrepancy between the reused and a fresh renderer value.
type ReuseDiff struct {
	Step int
	Name string
	What string
}

// Counted3 counts evaluations (N); beyond Max (> 0) it answers "far away" without calling the field
// (both renderer families then finish quickly).
type Counted3 struct {
	S      sdf.SDF3
	N, Max int64
	// OnExceed (may be nil) is called once, by the goroutine whose evaluation goes over the budget (the
	// uniform renderer evaluates in worker goroutines and cannot be stopped from inside Evaluate: a caller
	// that cannot afford the remaining constant answers records the input and ends the process here)
	OnExceed func()
	once     sync.Once
}

func (c *Counted3) BoundingBox() sdf.Box3 { return c.S.BoundingBox() }
func (c *Counted3) Evaluate(p v3.Vec) float64 {
	if k := atomic.AddInt64(&c.N, 1); c.Max > 0 && k > c.Max {
		if c.OnExceed != nil {
			c.once.Do(c.OnExceed)
		}
		return 1e300
	}
	return c.S.Evaluate(p)
}

// Exceeded: the budget was used up (the render is not the render of S).
func (c *Counted3) Exceeded() bool { return c.Max > 0 && atomic.LoadInt64(&c.N) > c.Max }

// Counted2: see Counted3.
type Counted2 struct {
	S      sdf.SDF2
	N, Max int64
}

func (c *Counted2) BoundingBox() sdf.Box2 { return c.S.BoundingBox() }
func (c *Counted2) Evaluate(p v2.Vec) float64 {
	if k := atomic.AddInt64(&c.N, 1); c.Max > 0 && k > c.Max {
		return 1e300
	}
	return c.S.Evaluate(p)
}
func (c *Counted2) Exceeded() bool { return c.Max > 0 && atomic.LoadInt64(&c.N) > c.Max }

// budget of the reused renderer relative to the evaluations of the fresh one
func budget(fresh int64) int64 { return 30*fresh + 100000 }

// sameValue: a == b for interface values, false when the dynamic type is not comparable.
func sameValue(a, b interface{}) (eq bool) {
	defer func() {
		if recover() != nil {
			eq = false
		}
	}()
	return a == b
}

func safely(f func()) (msg string) {
	defer func() {
		if e := recover(); e != nil {
			msg = fmt.Sprint(e)
		}
	}()
	f()
	return ""
}

// Reuse3 runs the steps in order on ONE renderer value made by mk.  For every step Info is called and
// (unless InfoOnly) the triangle sequence is compared, bit for bit and in order, with that of a
// fresh renderer value made by mk for the same model.  visit (may be nil) receives every render of the
// reused renderer together with the model, for the caller's own oracles.
//
// The reused renderer value is handed the SAME value (one counting wrapper per distinct st.S, kept for the
// whole history) whenever a model recurs, the fresh renderer value a wrapper of its own: a renderer (or the
// package) that recognises a model it has seen before by identity - and keeps what it evaluated although the
// model was changed in place by st.Before since - differs from the fresh one.
func Reuse3(mk func() render.Render3, steps []Step3, visit func(i int, st Step3, ts []*sdf.Triangle3)) []ReuseDiff {
	var out []ReuseDiff
	reused := mk()
	type held struct {
		s sdf.SDF3
		c *Counted3
	}
	var wrappers []held
	wrapper := func(s sdf.SDF3) *Counted3 {
		for _, h := range wrappers {
			if sameValue(h.s, s) {
				return h.c
			}
		}
		c := &Counted3{S: s}
		wrappers = append(wrappers, held{s, c})
		return c
	}
	for i, st := range steps {
		bad := func(f string, a ...interface{}) {
			out = append(out, ReuseDiff{i, st.Name, fmt.Sprintf(f, a...)})
		}
		if st.Before != nil {
			st.Before()
		}
		fresh := mk()
		// Info is called as the output routines do (it is a step of the history); its text is not an
		// observable of the mesh properties and is not compared
		cr := wrapper(st.S)
		if msg := safely(func() { reused.Info(cr) }); msg != "" {
			bad("Info panicked: %s", msg)
		}
		if st.InfoOnly {
			continue
		}
		cf := &Counted3{S: st.S}
		want := render.ToTriangles(cf, fresh)
		atomic.StoreInt64(&cr.N, 0)
		cr.Max = budget(cf.N)
		var got []*sdf.Triangle3
		if msg := safely(func() { got = render.ToTriangles(cr, reused) }); msg != "" {
			bad("Render panicked: %s", msg)
			continue
		}
		if cr.Exceeded() {
			bad("the reused renderer value evaluated the model more than %d times, a fresh one %d times", cr.Max, cf.N)
			continue
		}
		same := len(got) == len(want)
		first := -1
		for k := 0; same && k < len(got); k++ {
			if *got[k] != *want[k] {
				same, first = false, k
			}
		}
		if !same {
			if first >= 0 {
				bad("%d triangles (%d evaluations) as a fresh renderer value emits, but triangle %d is %v instead of %v", len(got), cr.N, first, *got[first], *want[first])
			} else {
				bad("%d triangles from %d evaluations; a fresh renderer value emits %d triangles from %d evaluations", len(got), cr.N, len(want), cf.N)
			}
		}
		if visit != nil {
			visit(i, st, got)
		}
	}
	return out
}

// Reuse2 is Reuse3 for the 2D renderers (segments collected through sdf.NewLine2Buffer).
func Reuse2(mk func() render.Render2, steps []Step2, visit func(i int, st Step2, ls []*sdf.Line2)) []ReuseDiff {
	var out []ReuseDiff
	reused := mk()
	type held struct {
		s sdf.SDF2
		c *Counted2
	}
	var wrappers []held
	wrapper := func(s sdf.SDF2) *Counted2 {
		for _, h := range wrappers {
			if sameValue(h.s, s) {
				return h.c
			}
		}
		c := &Counted2{S: s}
		wrappers = append(wrappers, held{s, c})
		return c
	}
	for i, st := range steps {
		bad := func(f string, a ...interface{}) {
			out = append(out, ReuseDiff{i, st.Name, fmt.Sprintf(f, a...)})
		}
		if st.Before != nil {
			st.Before()
		}
		fresh := mk()
		// Info is called as the output routines do (it is a step of the history); its text is not an
		// observable of the mesh properties and is not compared
		cr := wrapper(st.S)
		if msg := safely(func() { reused.Info(cr) }); msg != "" {
			bad("Info panicked: %s", msg)
		}
		if st.InfoOnly {
			continue
		}
		cf := &Counted2{S: st.S}
		want := ToLines(cf, fresh)
		atomic.StoreInt64(&cr.N, 0)
		cr.Max = budget(cf.N)
		var got []*sdf.Line2
		if msg := safely(func() { got = ToLines(cr, reused) }); msg != "" {
			bad("Render panicked: %s", msg)
			continue
		}
		if cr.Exceeded() {
			bad("the reused renderer value evaluated the model more than %d times, a fresh one %d times", cr.Max, cf.N)
			continue
		}
		same := len(got) == len(want)
		first := -1
		for k := 0; same && k < len(got); k++ {
			if *got[k] != *want[k] {
				same, first = false, k
			}
		}
		if !same {
			if first >= 0 {
				bad("%d segments (%d evaluations) as a fresh renderer value emits, but segment %d is %v instead of %v", len(got), cr.N, first, *got[first], *want[first])
			} else {
				bad("%d segments from %d evaluations; a fresh renderer value emits %d segments from %d evaluations", len(got), cr.N, len(want), cf.N)
			}
		}
		if visit != nil {
			visit(i, st, got)
		}
	}
	return out
}

// Histories3 builds the standard histories over a family of models of different absolute size: for the
// model list ms (name, model) it returns sequences in which a model is preceded by a bigger one, by a
// smaller one (size ratio as given by the list), by an Info-only call on another model, and repeated.
//
//	big -> small,  Info(big) -> small,  small -> big,  a -> b -> a,  Info(a), Info(b) -> a
//
// ms should hold at least three models whose bounding boxes differ in their longest side.
func Histories3(ms []Step3) [][]Step3 {
	info := func(s Step3) Step3 { s.InfoOnly = true; return s }
	var hs [][]Step3
	n := len(ms)
	for i := 0; i < n; i++ {
		a, b, c := ms[i], ms[(i+1)%n], ms[(i+2)%n]
		switch i % 4 {
		case 0:
			hs = append(hs, []Step3{a, b, c, a})
		case 1:
			hs = append(hs, []Step3{info(a), b, info(c), a})
		case 2:
			hs = append(hs, []Step3{info(a), info(b), c, c})
		default:
			hs = append(hs, []Step3{a, info(b), info(a), b, a})
		}
	}
	return hs
}

// Histories2: see Histories3.
func Histories2(ms []Step2) [][]Step2 {
	info := func(s Step2) Step2 { s.InfoOnly = true; return s }
	var hs [][]Step2
	n := len(ms)
	for i := 0; i < n; i++ {
		a, b, c := ms[i], ms[(i+1)%n], ms[(i+2)%n]
		switch i % 4 {
		case 0:
			hs = append(hs, []Step2{a, b, c, a})
		case 1:
			hs = append(hs, []Step2{info(a), b, info(c), a})
		case 2:
			hs = append(hs, []Step2{info(a), info(b), c, c})
		default:
			hs = append(hs, []Step2{a, info(b), info(a), b, a})
		}
	}
	return hs
}
