// Package exprgen translates the straight-line arithmetic functions on the matrix types of package sdf
// (determinants, cofactor inverses, products, constructors; in sdf/matrix.go today, but the whole
// package directory is read: a declaration may live in any file) from the Go AST of the CURRENT
// source into Gallina over the Ops record (coq/Generated/MatrixExpr.v).
// Supported: functions whose body is a sequence of single assignments (`x := e`, `x = e`, `var x T = e`,
// `var x = e`) and local constant declarations followed by one return;
// expressions over + - * /, unary minus, a[i], v.X/.Y/.Z, literals, composite literals of
// M22/M33/M44/v2.Vec/v3.Vec, math.Sin/Cos, method calls on matrices/vectors that are themselves
// translated (or Normalize).  Anything else is an error (= broken tie), never skipped.
package exprgen

import (
	"fmt"
	"go/ast"
	"go/parser"
	"go/token"
	"path/filepath"
	"strconv"
	"strings"

	"verifharness/kit"
	"verifharness/sdfgen"
)

// the functions translated, in dependency order
var targets = []string{
	"M44.Determinant", "M33.Determinant", "M22.Determinant",
	"M44.Inverse", "M33.Inverse", "M22.Inverse",
	"M44.Mul", "M33.Mul", "M22.Mul",
	"M44.MulPosition", "M33.MulPosition", "M22.MulPosition",
	"M33.Add", "M33.MulScalar",
	"Identity3d", "Identity2d", "Identity",
	"Translate3d", "Translate2d", "Scale3d", "Scale2d",
	"Rotate3d", "RotateX", "RotateY", "RotateZ",
	"MirrorXY", "MirrorXZ", "MirrorYZ", "MirrorXeqY", "MirrorX", "MirrorY",
	"Rotate2d", "Rotate",
}

type typ string

const (
	tT   typ = "T"
	tV2  typ = "V2"
	tV3  typ = "V3"
	tM22 typ = "M22"
	tM33 typ = "M33"
	tM44 typ = "M44"
)

func coqType(t typ) string {
	switch t {
	case tT:
		return "T O"
	case tV2:
		return "V2 O"
	case tV3:
		return "V3 O"
	}
	return "list (T O)"
}

type tr struct {
	env map[string]typ
	ret map[string]typ // translated function -> result type
}

func goType(e ast.Expr) (typ, error) {
	switch x := e.(type) {
	case *ast.Ident:
		switch x.Name {
		case "float64":
			return tT, nil
		case "M22":
			return tM22, nil
		case "M33":
			return tM33, nil
		case "M44":
			return tM44, nil
		}
	case *ast.SelectorExpr:
		if id, ok := x.X.(*ast.Ident); ok && x.Sel.Name == "Vec" {
			if id.Name == "v2" {
				return tV2, nil
			}
			if id.Name == "v3" {
				return tV3, nil
			}
		}
	}
	return "", fmt.Errorf("unsupported type %T", e)
}

func coqName(recv, name string) string {
	if recv != "" {
		return strings.ToLower(recv) + "_" + strings.ToLower(name)
	}
	return "mk_" + strings.ToLower(name)
}

func (t *tr) lit(b *ast.BasicLit) (string, error) {
	switch b.Kind {
	case token.INT:
		switch b.Value {
		case "0":
			return "(o0 O)", nil
		case "1":
			return "(o1 O)", nil
		}
		return "(ofZ O " + b.Value + ")", nil
	case token.FLOAT:
		f, err := strconv.ParseFloat(b.Value, 64)
		if err != nil {
			return "", err
		}
		// exact dyadic decimals only (0.5, 2.0, ...)
		for d := int64(1); d <= 1<<20; d *= 2 {
			if n := f * float64(d); n == float64(int64(n)) {
				if d == 1 {
					return fmt.Sprintf("(ofZ O %d)", int64(n)), nil
				}
				return fmt.Sprintf("(cst %d %d)", int64(n), d), nil
			}
		}
	}
	return "", fmt.Errorf("unsupported literal %s", b.Value)
}

func (t *tr) expr(e ast.Expr) (string, typ, error) {
	switch x := e.(type) {
	case *ast.BasicLit:
		s, err := t.lit(x)
		return s, tT, err
	case *ast.Ident:
		ty, ok := t.env[x.Name]
		if !ok {
			return "", "", fmt.Errorf("unknown identifier %s", x.Name)
		}
		return sdfgen.CoqIdent(x.Name), ty, nil
	case *ast.ParenExpr:
		s, ty, err := t.expr(x.X)
		return "(" + s + ")", ty, err
	case *ast.UnaryExpr:
		s, ty, err := t.expr(x.X)
		if err != nil {
			return "", "", err
		}
		if x.Op == token.SUB && ty == tT {
			return "(oneg O " + s + ")", tT, nil
		}
		return "", "", fmt.Errorf("unsupported unary %s", x.Op)
	case *ast.BinaryExpr:
		a, ta, err := t.expr(x.X)
		if err != nil {
			return "", "", err
		}
		b, tb, err := t.expr(x.Y)
		if err != nil {
			return "", "", err
		}
		if ta != tT || tb != tT {
			return "", "", fmt.Errorf("binary operator on non-scalars")
		}
		op := map[token.Token]string{token.ADD: "oadd", token.SUB: "osub", token.MUL: "omul", token.QUO: "odiv"}[x.Op]
		if op == "" {
			return "", "", fmt.Errorf("unsupported operator %s", x.Op)
		}
		return fmt.Sprintf("(%s O %s %s)", op, a, b), tT, nil
	case *ast.IndexExpr:
		a, ta, err := t.expr(x.X)
		if err != nil {
			return "", "", err
		}
		lit, ok := x.Index.(*ast.BasicLit)
		if !ok || (ta != tM22 && ta != tM33 && ta != tM44) {
			return "", "", fmt.Errorf("unsupported index expression")
		}
		return fmt.Sprintf("(nth %s %s (o0 O))", lit.Value, a), tT, nil
	case *ast.SelectorExpr:
		a, ta, err := t.expr(x.X)
		if err != nil {
			return "", "", err
		}
		pre := map[typ]string{tV2: "v", tV3: "w"}[ta]
		if pre == "" {
			return "", "", fmt.Errorf("field access on %s", ta)
		}
		return fmt.Sprintf("(%s%s %s)", pre, strings.ToLower(x.Sel.Name), a), tT, nil
	case *ast.CompositeLit:
		ty, err := goType(x.Type)
		if err != nil {
			return "", "", err
		}
		var es []string
		for _, el := range x.Elts {
			s, te, err := t.expr(el)
			if err != nil {
				return "", "", err
			}
			if te != tT {
				return "", "", fmt.Errorf("non-scalar element in composite literal")
			}
			es = append(es, s)
		}
		switch ty {
		case tV2:
			if len(es) != 2 {
				return "", "", fmt.Errorf("v2.Vec literal with %d elements", len(es))
			}
			return "(mkV2 " + strings.Join(es, " ") + ")", ty, nil
		case tV3:
			if len(es) != 3 {
				return "", "", fmt.Errorf("v3.Vec literal with %d elements", len(es))
			}
			return "(mkV3 " + strings.Join(es, " ") + ")", ty, nil
		}
		want := map[typ]int{tM22: 4, tM33: 9, tM44: 16}[ty]
		if len(es) != want {
			return "", "", fmt.Errorf("%s literal with %d elements", ty, len(es))
		}
		return "[" + strings.Join(es, ";\n      ") + "]", ty, nil
	case *ast.CallExpr:
		var args []string
		for _, a := range x.Args {
			s, _, err := t.expr(a)
			if err != nil {
				return "", "", err
			}
			args = append(args, s)
		}
		switch f := x.Fun.(type) {
		case *ast.Ident: // plain function of this file
			name := coqName("", f.Name)
			rt, ok := t.ret[name]
			if !ok {
				return "", "", fmt.Errorf("call of untranslated function %s", f.Name)
			}
			return "(" + name + " " + strings.Join(args, " ") + ")", rt, nil
		case *ast.SelectorExpr:
			if id, ok := f.X.(*ast.Ident); ok && id.Name == "math" {
				fn := map[string]string{"Sin": "osin", "Cos": "ocos"}[f.Sel.Name]
				if fn == "" {
					return "", "", fmt.Errorf("unsupported math.%s", f.Sel.Name)
				}
				return "(" + fn + " O " + args[0] + ")", tT, nil
			}
			recv, tr0, err := t.expr(f.X)
			if err != nil {
				return "", "", err
			}
			if f.Sel.Name == "Normalize" && tr0 == tV3 {
				return "(v3normalize " + recv + ")", tV3, nil
			}
			name := coqName(string(tr0), f.Sel.Name)
			rt, ok := t.ret[name]
			if !ok {
				return "", "", fmt.Errorf("call of untranslated method %s.%s", tr0, f.Sel.Name)
			}
			return "(" + name + " " + recv + " " + strings.Join(args, " ") + ")", rt, nil
		}
	}
	return "", "", fmt.Errorf("unsupported expression %T", e)
}

// Gen is the kit.GenFn producing coq/Generated/MatrixExpr.v.
func Gen(c *kit.Ctx) (string, []byte, error) {
	fset := token.NewFileSet()
	dir := filepath.Join(c.Repo, "sdf")
	names, err := sdfgen.GoFiles(dir)
	if err != nil {
		return "", nil, fmt.Errorf("exprgen: %v", err)
	}
	decls := map[string]*ast.FuncDecl{}
	for _, fn := range names {
		file, err := parser.ParseFile(fset, filepath.Join(dir, fn), nil, 0)
		if err != nil {
			return "", nil, err
		}
		for _, d := range file.Decls {
			fd, ok := d.(*ast.FuncDecl)
			if !ok {
				continue
			}
			key := fd.Name.Name
			if fd.Recv != nil && len(fd.Recv.List) == 1 {
				rt := fd.Recv.List[0].Type
				if st, ok := rt.(*ast.StarExpr); ok {
					rt = st.X
				}
				id, ok := rt.(*ast.Ident)
				if !ok {
					continue
				}
				key = id.Name + "." + key
			} else if key == "init" || key == "_" {
				continue
			}
			if _, dup := decls[key]; dup {
				return "", nil, fmt.Errorf("exprgen: sdf/%s: duplicate declaration of %s", fn, key)
			}
			decls[key] = fd
		}
	}
	var b strings.Builder
	b.WriteString("(* GENERATED by harness/exprgen from the matrix functions of package sdf (sdf/matrix.go) - do not edit. *)\n")
	b.WriteString("From Coq Require Import ZArith List.\nFrom Sdfx Require Import Num.Ops Geo.Vec.\nImport ListNotations.\n\nSection MatrixExpr.\n  Context {O : Ops}.\n\n")
	t := &tr{ret: map[string]typ{}}
	for _, key := range targets {
		fd := decls[key]
		if fd == nil {
			return "", nil, fmt.Errorf("exprgen: function %s not found in package sdf", key)
		}
		t.env = map[string]typ{}
		recv := ""
		var params []string
		if fd.Recv != nil {
			rt, err := goType(fd.Recv.List[0].Type)
			if err != nil {
				return "", nil, fmt.Errorf("exprgen: %s: %v", key, err)
			}
			recv = string(rt)
			n := fd.Recv.List[0].Names[0].Name
			t.env[n] = rt
			params = append(params, fmt.Sprintf("(%s : %s)", sdfgen.CoqIdent(n), coqType(rt)))
		}
		for _, p := range fd.Type.Params.List {
			pt, err := goType(p.Type)
			if err != nil {
				return "", nil, fmt.Errorf("exprgen: %s: %v", key, err)
			}
			for _, n := range p.Names {
				t.env[n.Name] = pt
				params = append(params, fmt.Sprintf("(%s : %s)", sdfgen.CoqIdent(n.Name), coqType(pt)))
			}
		}
		if fd.Type.Results == nil || len(fd.Type.Results.List) != 1 {
			return "", nil, fmt.Errorf("exprgen: %s: expected one result", key)
		}
		rt, err := goType(fd.Type.Results.List[0].Type)
		if err != nil {
			return "", nil, fmt.Errorf("exprgen: %s: %v", key, err)
		}
		name := coqName(recv, fd.Name.Name)
		var body strings.Builder
		done := false
		for _, st := range fd.Body.List {
			if done {
				return "", nil, fmt.Errorf("exprgen: %s: statement after return", key)
			}
			switch s := st.(type) {
			case *ast.AssignStmt:
				if len(s.Lhs) == len(s.Rhs) && len(s.Lhs) > 1 && (s.Tok == token.DEFINE || s.Tok == token.ASSIGN) {
					// a, b := e1, e2: every right-hand side is evaluated before any assignment
					var names, vals []string
					var tys []typ
					for i, l := range s.Lhs {
						id, ok := l.(*ast.Ident)
						if !ok {
							return "", nil, fmt.Errorf("exprgen: %s: unsupported assignment target", key)
						}
						e, te, err := t.expr(s.Rhs[i])
						if err != nil {
							return "", nil, fmt.Errorf("exprgen: %s: %v", key, err)
						}
						names, vals, tys = append(names, sdfgen.CoqIdent(id.Name)), append(vals, e), append(tys, te)
					}
					for i, l := range s.Lhs {
						t.env[l.(*ast.Ident).Name] = tys[i]
					}
					fmt.Fprintf(&body, "    let '(%s) := (%s) in\n", strings.Join(names, ", "), strings.Join(vals, ", "))
					continue
				}
				if len(s.Lhs) != 1 || len(s.Rhs) != 1 || (s.Tok != token.DEFINE && s.Tok != token.ASSIGN) {
					return "", nil, fmt.Errorf("exprgen: %s: unsupported assignment", key)
				}
				id, ok := s.Lhs[0].(*ast.Ident)
				if !ok {
					return "", nil, fmt.Errorf("exprgen: %s: unsupported assignment target", key)
				}
				e, te, err := t.expr(s.Rhs[0])
				if err != nil {
					return "", nil, fmt.Errorf("exprgen: %s: %v", key, err)
				}
				t.env[id.Name] = te
				fmt.Fprintf(&body, "    let %s := %s in\n", sdfgen.CoqIdent(id.Name), e)
			case *ast.DeclStmt:
				// var x T = e / var x = e / const k = e: a single assignment
				gd, ok := s.Decl.(*ast.GenDecl)
				if !ok || (gd.Tok != token.VAR && gd.Tok != token.CONST) {
					return "", nil, fmt.Errorf("exprgen: %s: unsupported declaration", key)
				}
				for _, sp := range gd.Specs {
					vs, ok := sp.(*ast.ValueSpec)
					if !ok || len(vs.Names) != len(vs.Values) {
						return "", nil, fmt.Errorf("exprgen: %s: declaration without a value for every name", key)
					}
					for i, n := range vs.Names {
						e, te, err := t.expr(vs.Values[i])
						if err != nil {
							return "", nil, fmt.Errorf("exprgen: %s: %v", key, err)
						}
						if vs.Type != nil {
							if dt, err := goType(vs.Type); err != nil || dt != te {
								return "", nil, fmt.Errorf("exprgen: %s: declaration of %s: type mismatch", key, n.Name)
							}
						}
						t.env[n.Name] = te
						fmt.Fprintf(&body, "    let %s := %s in\n", sdfgen.CoqIdent(n.Name), e)
					}
				}
			case *ast.ReturnStmt:
				if len(s.Results) != 1 {
					return "", nil, fmt.Errorf("exprgen: %s: unsupported return", key)
				}
				e, te, err := t.expr(s.Results[0])
				if err != nil {
					return "", nil, fmt.Errorf("exprgen: %s: %v", key, err)
				}
				if te != rt {
					return "", nil, fmt.Errorf("exprgen: %s: result type %s, expected %s", key, te, rt)
				}
				fmt.Fprintf(&body, "    %s", e)
				done = true
			default:
				return "", nil, fmt.Errorf("exprgen: %s: unsupported statement %T", key, st)
			}
		}
		if !done {
			return "", nil, fmt.Errorf("exprgen: %s: no return", key)
		}
		fmt.Fprintf(&b, "  (* %s *)\n  Definition %s %s : %s :=\n%s.\n\n", key, name, strings.Join(params, " "), coqType(rt), body.String())
		t.ret[name] = rt
	}
	b.WriteString("End MatrixExpr.\n")
	return "MatrixExpr.v", []byte(b.String()), nil
}
