package samplekit

// Replayable descriptions of fields: a Field is a small expression tree (JSON) that is built
// against a concrete lattice, so that a surface can be placed relative to the cubes of the
// lattice the real renderer chose (tangent to a cube, through its corners, thinner than a cell).

import (
	"fmt"
	"math"
	"math/big"

	v2 "github.com/deadsy/sdfx/vec/v2"
	v3 "github.com/deadsy/sdfx/vec/v3"
)

type Field struct {
	Kind string    `json:"kind"`        // 3D: sphere box plane | 2D: circle rect line | union diff inter scale quant table
	C    []float64 `json:"c,omitempty"` // centre (sphere, box) or normal (plane)
	H    []float64 `json:"h,omitempty"` // half sizes (box)
	R    float64   `json:"r,omitempty"` // radius / plane offset / scale factor / quantum
	Rel  bool      `json:"rel,omitempty"`
	// Rel: C, H, R are in lattice units: centre = origin + C*res, radius = R*res, half sizes = H*res;
	// for a plane the offset is n.(origin + C0*res) + R*res where C0 = H (a point in lattice units)
	Hd   int       `json:"hd,omitempty"`  // radius = hdiag[Hd] of the real table (plus Ulp ulps) instead of R
	Ulp  int       `json:"ulp,omitempty"` // radius moved by this many ulps
	Eps  float64   `json:"eps,omitempty"` // radius multiplied by 1+Eps
	A    *Field    `json:"a,omitempty"`
	B    *Field    `json:"b,omitempty"`
	Vals []float64 `json:"vals,omitempty"` // table: values at the lattice points, repeated cyclically
}

func ulps(x float64, n int) float64 {
	for ; n > 0; n-- {
		x = math.Nextafter(x, math.Inf(1))
	}
	for ; n < 0; n++ {
		x = math.Nextafter(x, math.Inf(-1))
	}
	return x
}

func (f *Field) String() string {
	switch f.Kind {
	case "union", "diff", "inter":
		return fmt.Sprintf("%s(%s,%s)", f.Kind, f.A, f.B)
	case "scale", "quant":
		return fmt.Sprintf("%s[%g](%s)", f.Kind, f.R, f.A)
	case "table":
		return fmt.Sprintf("table[%d]", len(f.Vals))
	}
	s := fmt.Sprintf("%s(c=%v", f.Kind, f.C)
	if f.H != nil {
		s += fmt.Sprintf(",h=%v", f.H)
	}
	if f.Hd > 0 {
		s += fmt.Sprintf(",r=hdiag[%d]", f.Hd)
	} else {
		s += fmt.Sprintf(",r=%g", f.R)
	}
	if f.Ulp != 0 {
		s += fmt.Sprintf("%+dulp", f.Ulp)
	}
	if f.Eps != 0 {
		s += fmt.Sprintf("*(1%+g)", f.Eps)
	}
	if f.Rel {
		s += ",rel"
	}
	return s + ")"
}

func (f *Field) radius(res float64, hdiag []float64) float64 {
	r := f.R
	if f.Rel {
		r = f.R * res
	}
	if f.Hd > 0 && f.Hd < len(hdiag) {
		r = hdiag[f.Hd]
	}
	return ulps(r*(1+f.Eps), f.Ulp)
}

// Build3 builds the field against the lattice g with n lattice units per side.
func (f *Field) Build3(g Grid3, n int, hdiag []float64) (F3, error) {
	pt := func(c []float64) v3.Vec {
		if len(c) < 3 {
			return v3.Vec{}
		}
		if f.Rel {
			return v3.Vec{X: g.Origin.X + c[0]*g.Res, Y: g.Origin.Y + c[1]*g.Res, Z: g.Origin.Z + c[2]*g.Res}
		}
		return v3.Vec{X: c[0], Y: c[1], Z: c[2]}
	}
	switch f.Kind {
	case "sphere":
		return Sphere(pt(f.C), f.radius(g.Res, hdiag)), nil
	case "box":
		h := v3.Vec{X: f.H[0], Y: f.H[1], Z: f.H[2]}
		if f.Rel {
			h = h.MulScalar(g.Res)
		}
		return Box(pt(f.C), h), nil
	case "plane":
		nrm := v3.Vec{X: f.C[0], Y: f.C[1], Z: f.C[2]}
		d := f.R
		if f.Rel {
			d = nrm.Normalize().Dot(pt(f.H)) + f.R*g.Res
		}
		return Plane(nrm, d), nil
	case "union", "diff", "inter":
		a, err := f.A.Build3(g, n, hdiag)
		if err != nil {
			return F3{}, err
		}
		b, err := f.B.Build3(g, n, hdiag)
		if err != nil {
			return F3{}, err
		}
		switch f.Kind {
		case "union":
			return Union(a, b), nil
		case "diff":
			return Diff(a, b), nil
		}
		return Inter(a, b), nil
	case "scale":
		a, err := f.A.Build3(g, n, hdiag)
		if err != nil {
			return F3{}, err
		}
		return Scale(a, f.R), nil
	case "quant", "table":
		t, err := f.Table3(g, n, hdiag)
		if err != nil {
			return F3{}, err
		}
		l := &Lookup3{T: t, Def: 1}
		return F3{f.String(), l.Evaluate}, nil
	}
	return F3{}, fmt.Errorf("unknown 3D field kind %q", f.Kind)
}

// Table3 of a quant / table field: quant = 0.9*A rounded to multiples of the quantum R.
func (f *Field) Table3(g Grid3, n int, hdiag []float64) (*Table3, error) {
	t := NewTable3(g, n)
	switch f.Kind {
	case "table":
		if len(f.Vals) == 0 {
			return nil, fmt.Errorf("empty table")
		}
		for i := range t.Vals {
			t.Vals[i] = f.Vals[i%len(f.Vals)]
		}
	case "quant":
		a, err := f.A.Build3(g, n, hdiag)
		if err != nil {
			return nil, err
		}
		q := f.R
		for i := 0; i <= n; i++ {
			for j := 0; j <= n; j++ {
				for k := 0; k <= n; k++ {
					t.Set(i, j, k, math.Round(0.9*a.F(g.Point(i, j, k))/q)*q+0)
				}
			}
		}
	default:
		return nil, fmt.Errorf("not a table field")
	}
	return t, nil
}

func (f *Field) IsTable() bool { return f.Kind == "quant" || f.Kind == "table" }

func (f *Field) Build2(g Grid2, n int, hdiag []float64) (F2, error) {
	pt := func(c []float64) v2.Vec {
		if len(c) < 2 {
			return v2.Vec{}
		}
		if f.Rel {
			return v2.Vec{X: g.Origin.X + c[0]*g.Res, Y: g.Origin.Y + c[1]*g.Res}
		}
		return v2.Vec{X: c[0], Y: c[1]}
	}
	switch f.Kind {
	case "circle":
		return Circle(pt(f.C), f.radius(g.Res, hdiag)), nil
	case "rect":
		h := v2.Vec{X: f.H[0], Y: f.H[1]}
		if f.Rel {
			h = h.MulScalar(g.Res)
		}
		return Rect(pt(f.C), h), nil
	case "line":
		nrm := v2.Vec{X: f.C[0], Y: f.C[1]}
		d := f.R
		if f.Rel {
			d = nrm.Normalize().Dot(pt(f.H)) + f.R*g.Res
		}
		return Line(nrm, d), nil
	case "union", "diff":
		a, err := f.A.Build2(g, n, hdiag)
		if err != nil {
			return F2{}, err
		}
		b, err := f.B.Build2(g, n, hdiag)
		if err != nil {
			return F2{}, err
		}
		if f.Kind == "union" {
			return Union2(a, b), nil
		}
		return Diff2(a, b), nil
	case "scale":
		a, err := f.A.Build2(g, n, hdiag)
		if err != nil {
			return F2{}, err
		}
		return Scale2(a, f.R), nil
	case "quant", "table":
		t, err := f.Table2(g, n, hdiag)
		if err != nil {
			return F2{}, err
		}
		l := &Lookup2{T: t, Def: 1}
		return F2{f.String(), l.Evaluate}, nil
	}
	return F2{}, fmt.Errorf("unknown 2D field kind %q", f.Kind)
}

func (f *Field) Table2(g Grid2, n int, hdiag []float64) (*Table2, error) {
	t := NewTable2(g, n)
	switch f.Kind {
	case "table":
		if len(f.Vals) == 0 {
			return nil, fmt.Errorf("empty table")
		}
		for i := range t.Vals {
			t.Vals[i] = f.Vals[i%len(f.Vals)]
		}
	case "quant":
		a, err := f.A.Build2(g, n, hdiag)
		if err != nil {
			return nil, err
		}
		q := f.R
		for i := 0; i <= n; i++ {
			for j := 0; j <= n; j++ {
				t.Set(i, j, math.Round(0.9*a.F(g.Point(i, j))/q)*q+0)
			}
		}
	default:
		return nil, fmt.Errorf("not a table field")
	}
	return t, nil
}

// ---------------------------------------------------------------- exact Lipschitz test of tables

func rat(x float64) *big.Rat { return new(big.Rat).SetFloat64(x) }

// LipOnTree3: for every cube of the octree over 0..n (n a power of two, all levels >= 1) and every
// lattice point u of the closed cube, |v(centre) - v(u)| <= res*|centre - u| (exactly, in
// rational arithmetic).  This is all the theorem needs of a 1-Lipschitz field.
func LipOnTree3(t *Table3) bool {
	res2 := new(big.Rat).Mul(rat(t.G.Res), rat(t.G.Res))
	for side := 2; side <= t.N; side *= 2 {
		h := side / 2
		for ci := h; ci < t.N; ci += side {
			for cj := h; cj < t.N; cj += side {
				for ck := h; ck < t.N; ck += side {
					vc := rat(t.At(ci, cj, ck))
					for i := ci - h; i <= ci+h; i++ {
						for j := cj - h; j <= cj+h; j++ {
							for k := ck - h; k <= ck+h; k++ {
								d := new(big.Rat).Sub(vc, rat(t.At(i, j, k)))
								d.Mul(d, d)
								m := int64((i-ci)*(i-ci) + (j-cj)*(j-cj) + (k-ck)*(k-ck))
								lim := new(big.Rat).Mul(res2, new(big.Rat).SetInt64(m))
								if d.Cmp(lim) > 0 {
									return false
								}
							}
						}
					}
				}
			}
		}
	}
	return true
}

func LipOnTree2(t *Table2) bool {
	res2 := new(big.Rat).Mul(rat(t.G.Res), rat(t.G.Res))
	for side := 2; side <= t.N; side *= 2 {
		h := side / 2
		for ci := h; ci < t.N; ci += side {
			for cj := h; cj < t.N; cj += side {
				vc := rat(t.At(ci, cj))
				for i := ci - h; i <= ci+h; i++ {
					for j := cj - h; j <= cj+h; j++ {
						d := new(big.Rat).Sub(vc, rat(t.At(i, j)))
						d.Mul(d, d)
						m := int64((i-ci)*(i-ci) + (j-cj)*(j-cj))
						lim := new(big.Rat).Mul(res2, new(big.Rat).SetInt64(m))
						if d.Cmp(lim) > 0 {
							return false
						}
					}
				}
			}
		}
	}
	return true
}
