// Package samplekit: helpers shared by the C06 / C07 harnesses (sampling lattices of the
// marching-cubes / marching-squares renderers): collectors, recording wrappers, lattice-lookup
// fields, analytic 1-Lipschitz fields, exhaustive cell evaluation, multiset comparison.
package samplekit

import (
	"fmt"
	"math"
	"sort"
	"strings"
	"sync"

	"github.com/deadsy/sdfx/render"
	"github.com/deadsy/sdfx/sdf"
	v2 "github.com/deadsy/sdfx/vec/v2"
	v3 "github.com/deadsy/sdfx/vec/v3"
	"verifharness/kit"
)

// ---------------------------------------------------------------- collectors

type TriCollector struct{ T []sdf.Triangle3 }

func (c *TriCollector) Write(in []*sdf.Triangle3) error {
	for _, t := range in {
		c.T = append(c.T, *t)
	}
	return nil
}
func (c *TriCollector) Close() error { return nil }

type LineCollector struct{ L []sdf.Line2 }

func (c *LineCollector) Write(in []*sdf.Line2) error {
	for _, l := range in {
		c.L = append(c.L, *l)
	}
	return nil
}
func (c *LineCollector) Close() error { return nil }

// ---------------------------------------------------------------- plain function fields

type Fn3 struct {
	F  func(v3.Vec) float64
	BB sdf.Box3
}

func (s *Fn3) Evaluate(p v3.Vec) float64 { return s.F(p) }
func (s *Fn3) BoundingBox() sdf.Box3     { return s.BB }

type Fn2 struct {
	F  func(v2.Vec) float64
	BB sdf.Box2
}

func (s *Fn2) Evaluate(p v2.Vec) float64 { return s.F(p) }
func (s *Fn2) BoundingBox() sdf.Box2     { return s.BB }

// Recorder3 records every evaluation of the wrapped field (points and values, in call order;
// the order is only meaningful for single-threaded callers).
type Recorder3 struct {
	S  sdf.SDF3
	mu sync.Mutex
	P  []v3.Vec
	V  []float64
}

func (r *Recorder3) BoundingBox() sdf.Box3 { return r.S.BoundingBox() }
func (r *Recorder3) Evaluate(p v3.Vec) float64 {
	v := r.S.Evaluate(p)
	r.mu.Lock()
	r.P = append(r.P, p)
	r.V = append(r.V, v)
	r.mu.Unlock()
	return v
}

type Recorder2 struct {
	S  sdf.SDF2
	mu sync.Mutex
	P  []v2.Vec
	V  []float64
}

func (r *Recorder2) BoundingBox() sdf.Box2 { return r.S.BoundingBox() }
func (r *Recorder2) Evaluate(p v2.Vec) float64 {
	v := r.S.Evaluate(p)
	r.mu.Lock()
	r.P = append(r.P, p)
	r.V = append(r.V, v)
	r.mu.Unlock()
	return v
}

// ---------------------------------------------------------------- the octree / quadtree lattice

// Grid3 is the half-resolution lattice of dcache3: point(i,j,k) = origin + (i,j,k)*res, computed
// with the operations of dcache3.evaluate.
type Grid3 struct {
	Origin v3.Vec
	Res    float64
}

func (g Grid3) Point(i, j, k int) v3.Vec {
	return v3.Vec{X: g.Origin.X + float64(i)*g.Res, Y: g.Origin.Y + float64(j)*g.Res, Z: g.Origin.Z + float64(k)*g.Res}
}

// Index recovers the lattice index of a point (ok = the point is bit-for-bit that lattice point).
func (g Grid3) Index(p v3.Vec) (i, j, k int, ok bool) {
	i = int(math.Round((p.X - g.Origin.X) / g.Res))
	j = int(math.Round((p.Y - g.Origin.Y) / g.Res))
	k = int(math.Round((p.Z - g.Origin.Z) / g.Res))
	return i, j, k, g.Point(i, j, k) == p
}

type Grid2 struct {
	Origin v2.Vec
	Res    float64
}

func (g Grid2) Point(i, j int) v2.Vec {
	return v2.Vec{X: g.Origin.X + float64(i)*g.Res, Y: g.Origin.Y + float64(j)*g.Res}
}
func (g Grid2) Index(p v2.Vec) (i, j int, ok bool) {
	i = int(math.Round((p.X - g.Origin.X) / g.Res))
	j = int(math.Round((p.Y - g.Origin.Y) / g.Res))
	return i, j, g.Point(i, j) == p
}

// Table3 holds field values at the lattice points 0..N per axis, index (i*(N+1)+j)*(N+1)+k.
type Table3 struct {
	G    Grid3
	N    int
	Vals []float64
}

func (t *Table3) At(i, j, k int) float64 { return t.Vals[(i*(t.N+1)+j)*(t.N+1)+k] }
func (t *Table3) Set(i, j, k int, v float64) {
	t.Vals[(i*(t.N+1)+j)*(t.N+1)+k] = v
}
func NewTable3(g Grid3, n int) *Table3 {
	return &Table3{G: g, N: n, Vals: make([]float64, (n+1)*(n+1)*(n+1))}
}

// Sample3 fills a table with the values of s at the lattice points.
func Sample3(s sdf.SDF3, g Grid3, n int) *Table3 {
	t := NewTable3(g, n)
	for i := 0; i <= n; i++ {
		for j := 0; j <= n; j++ {
			for k := 0; k <= n; k++ {
				t.Set(i, j, k, s.Evaluate(g.Point(i, j, k)))
			}
		}
	}
	return t
}

// Lookup3 is the SDF3 that returns the table value at lattice points (default elsewhere).
type Lookup3 struct {
	T    *Table3
	BB   sdf.Box3
	Def  float64
	mu   sync.Mutex
	Miss int
}

func (s *Lookup3) BoundingBox() sdf.Box3 { return s.BB }
func (s *Lookup3) Evaluate(p v3.Vec) float64 {
	i, j, k, ok := s.T.G.Index(p)
	if !ok || i < 0 || j < 0 || k < 0 || i > s.T.N || j > s.T.N || k > s.T.N {
		s.mu.Lock()
		s.Miss++
		s.mu.Unlock()
		return s.Def
	}
	return s.T.At(i, j, k)
}

type Table2 struct {
	G    Grid2
	N    int
	Vals []float64
}

func (t *Table2) At(i, j int) float64     { return t.Vals[i*(t.N+1)+j] }
func (t *Table2) Set(i, j int, v float64) { t.Vals[i*(t.N+1)+j] = v }
func NewTable2(g Grid2, n int) *Table2 {
	return &Table2{G: g, N: n, Vals: make([]float64, (n+1)*(n+1))}
}
func Sample2(s sdf.SDF2, g Grid2, n int) *Table2 {
	t := NewTable2(g, n)
	for i := 0; i <= n; i++ {
		for j := 0; j <= n; j++ {
			t.Set(i, j, s.Evaluate(g.Point(i, j)))
		}
	}
	return t
}

type Lookup2 struct {
	T    *Table2
	BB   sdf.Box2
	Def  float64
	mu   sync.Mutex
	Miss int
}

func (s *Lookup2) BoundingBox() sdf.Box2 { return s.BB }
func (s *Lookup2) Evaluate(p v2.Vec) float64 {
	i, j, ok := s.T.G.Index(p)
	if !ok || i < 0 || j < 0 || i > s.T.N || j > s.T.N {
		s.mu.Lock()
		s.Miss++
		s.mu.Unlock()
		return s.Def
	}
	return s.T.At(i, j)
}

// ---------------------------------------------------------------- exhaustive evaluation

var CornerOff3 = [8][3]int{{0, 0, 0}, {1, 0, 0}, {1, 1, 0}, {0, 1, 0}, {0, 0, 1}, {1, 0, 1}, {1, 1, 1}, {0, 1, 1}}
var CornerOff2 = [4][2]int{{0, 0}, {1, 0}, {1, 1}, {0, 1}}

// Uniform3 evaluates every finest cell (side 2 lattice units) of the cube 0..n of the table
// through the real mcToTriangles, in row-major order.
func Uniform3(t *Table3) []sdf.Triangle3 {
	var out []sdf.Triangle3
	for i := 0; i < t.N; i += 2 {
		for j := 0; j < t.N; j += 2 {
			for k := 0; k < t.N; k += 2 {
				out = append(out, Cell3(t, i, j, k)...)
			}
		}
	}
	return out
}

// Cell3: the triangles of the finest cell with origin (i,j,k).
func Cell3(t *Table3, i, j, k int) []sdf.Triangle3 {
	var ps [8]v3.Vec
	var vs [8]float64
	for c, o := range CornerOff3 {
		ps[c] = t.G.Point(i+2*o[0], j+2*o[1], k+2*o[2])
		vs[c] = t.At(i+2*o[0], j+2*o[1], k+2*o[2])
	}
	var out []sdf.Triangle3
	for _, tr := range render.VerifMcToTriangles(ps, vs, 0) {
		out = append(out, *tr)
	}
	return out
}

func Uniform2(t *Table2) []sdf.Line2 {
	var out []sdf.Line2
	for i := 0; i < t.N; i += 2 {
		for j := 0; j < t.N; j += 2 {
			out = append(out, Cell2(t, i, j)...)
		}
	}
	return out
}
func Cell2(t *Table2, i, j int) []sdf.Line2 {
	var ps [4]v2.Vec
	var vs [4]float64
	for c, o := range CornerOff2 {
		ps[c] = t.G.Point(i+2*o[0], j+2*o[1])
		vs[c] = t.At(i+2*o[0], j+2*o[1])
	}
	var out []sdf.Line2
	for _, l := range render.VerifMsToLines(ps, vs, 0) {
		out = append(out, *l)
	}
	return out
}

// ---------------------------------------------------------------- multisets

func TriKey(t sdf.Triangle3) string {
	var b strings.Builder
	for _, p := range t {
		fmt.Fprintf(&b, "%x,%x,%x;", math.Float64bits(p.X), math.Float64bits(p.Y), math.Float64bits(p.Z))
	}
	return b.String()
}
func LineKey(l sdf.Line2) string {
	return fmt.Sprintf("%x,%x;%x,%x", math.Float64bits(l[0].X), math.Float64bits(l[0].Y), math.Float64bits(l[1].X), math.Float64bits(l[1].Y))
}

// DiffTris compares two triangle lists as multisets (bit-exact vertices, vertex order included):
// returns the triangles only in a, only in b.
func DiffTris(a, b []sdf.Triangle3) (onlyA, onlyB []sdf.Triangle3) {
	m := map[string]int{}
	for _, t := range a {
		m[TriKey(t)]++
	}
	for _, t := range b {
		k := TriKey(t)
		if m[k] > 0 {
			m[k]--
		} else {
			onlyB = append(onlyB, t)
		}
	}
	for _, t := range a {
		k := TriKey(t)
		if m[k] > 0 {
			m[k]--
			onlyA = append(onlyA, t)
		}
	}
	return
}
func DiffLines(a, b []sdf.Line2) (onlyA, onlyB []sdf.Line2) {
	m := map[string]int{}
	for _, t := range a {
		m[LineKey(t)]++
	}
	for _, t := range b {
		k := LineKey(t)
		if m[k] > 0 {
			m[k]--
		} else {
			onlyB = append(onlyB, t)
		}
	}
	for _, t := range a {
		k := LineKey(t)
		if m[k] > 0 {
			m[k]--
			onlyA = append(onlyA, t)
		}
	}
	return
}

// ---------------------------------------------------------------- Coq printing

func CF3(p v3.Vec) string {
	return fmt.Sprintf("(%s, %s, %s)", kit.CF(p.X), kit.CF(p.Y), kit.CF(p.Z))
}
func CF2(p v2.Vec) string { return fmt.Sprintf("(%s, %s)", kit.CF(p.X), kit.CF(p.Y)) }
func CFloats(xs []float64) string {
	s := make([]string, len(xs))
	for i, x := range xs {
		s[i] = kit.CF(x)
	}
	return kit.CList(s)
}
func CTris(ts []sdf.Triangle3) string {
	s := make([]string, len(ts))
	for i, t := range ts {
		s[i] = fmt.Sprintf("(%s, %s, %s)", CF3(t[0]), CF3(t[1]), CF3(t[2]))
	}
	return kit.CList(s)
}
func CLines(ls []sdf.Line2) string {
	s := make([]string, len(ls))
	for i, l := range ls {
		s[i] = fmt.Sprintf("(%s, %s)", CF2(l[0]), CF2(l[1]))
	}
	return kit.CList(s)
}

// ---------------------------------------------------------------- analytic 1-Lipschitz fields

// F3 is an analytic field with a description.
type F3 struct {
	Name string
	F    func(v3.Vec) float64
}

func Sphere(c v3.Vec, r float64) F3 {
	return F3{fmt.Sprintf("sphere(%v,%v)", c, r), func(p v3.Vec) float64 { return p.Sub(c).Length() - r }}
}

// Box: exact distance to the axis-aligned box with centre c and half sizes h.
func Box(c, h v3.Vec) F3 {
	return F3{fmt.Sprintf("box(%v,%v)", c, h), func(p v3.Vec) float64 {
		d := p.Sub(c).Abs().Sub(h)
		out := v3.Vec{X: math.Max(d.X, 0), Y: math.Max(d.Y, 0), Z: math.Max(d.Z, 0)}.Length()
		in := math.Min(math.Max(d.X, math.Max(d.Y, d.Z)), 0)
		return out + in
	}}
}

// Plane: n.p - d with |n| = 1 (n is normalised here).
func Plane(n v3.Vec, d float64) F3 {
	n = n.Normalize()
	return F3{fmt.Sprintf("plane(%v,%v)", n, d), func(p v3.Vec) float64 { return p.Dot(n) - d }}
}
func Union(a, b F3) F3 {
	return F3{"union(" + a.Name + "," + b.Name + ")", func(p v3.Vec) float64 { return math.Min(a.F(p), b.F(p)) }}
}
func Diff(a, b F3) F3 {
	return F3{"diff(" + a.Name + "," + b.Name + ")", func(p v3.Vec) float64 { return math.Max(a.F(p), -b.F(p)) }}
}
func Inter(a, b F3) F3 {
	return F3{"inter(" + a.Name + "," + b.Name + ")", func(p v3.Vec) float64 { return math.Max(a.F(p), b.F(p)) }}
}
func Scale(a F3, k float64) F3 {
	return F3{fmt.Sprintf("%v*", k) + a.Name, func(p v3.Vec) float64 { return k * a.F(p) }}
}

type F2 struct {
	Name string
	F    func(v2.Vec) float64
}

func Circle(c v2.Vec, r float64) F2 {
	return F2{fmt.Sprintf("circle(%v,%v)", c, r), func(p v2.Vec) float64 { return p.Sub(c).Length() - r }}
}
func Rect(c, h v2.Vec) F2 {
	return F2{fmt.Sprintf("rect(%v,%v)", c, h), func(p v2.Vec) float64 {
		d := p.Sub(c).Abs().Sub(h)
		out := v2.Vec{X: math.Max(d.X, 0), Y: math.Max(d.Y, 0)}.Length()
		in := math.Min(math.Max(d.X, d.Y), 0)
		return out + in
	}}
}
func Line(n v2.Vec, d float64) F2 {
	n = n.Normalize()
	return F2{fmt.Sprintf("line(%v,%v)", n, d), func(p v2.Vec) float64 { return p.Dot(n) - d }}
}
func Union2(a, b F2) F2 {
	return F2{"union(" + a.Name + "," + b.Name + ")", func(p v2.Vec) float64 { return math.Min(a.F(p), b.F(p)) }}
}
func Diff2(a, b F2) F2 {
	return F2{"diff(" + a.Name + "," + b.Name + ")", func(p v2.Vec) float64 { return math.Max(a.F(p), -b.F(p)) }}
}
func Scale2(a F2, k float64) F2 {
	return F2{fmt.Sprintf("%v*", k) + a.Name, func(p v2.Vec) float64 { return k * a.F(p) }}
}

// SortedDistinct returns the distinct values of xs in increasing order.
func SortedDistinct(xs []float64) []float64 {
	ys := append([]float64(nil), xs...)
	sort.Float64s(ys)
	var o []float64
	for i, y := range ys {
		if i == 0 || y != ys[i-1] {
			o = append(o, y)
		}
	}
	return o
}
