// Package tabgen translates the marching-cubes / marching-squares case tables and the
// constants they are used with from the CURRENT sdfx source tree into Coq data
// (coq/Generated/MarchTables.v).  Tables are data, so the translation is total: every
// element is evaluated with go/constant, arrays are padded to their declared length with
// zero values exactly as the Go compiler would.  Anything the translator does not
// understand is an error (reported by the driver as a broken tie), never skipped.
package tabgen

import (
	"fmt"
	"go/ast"
	"go/constant"
	"go/parser"
	"go/token"
	"math"
	"math/big"
	"os"
	"path/filepath"
	"sort"
	"strconv"
	"strings"
)

type pkgSrc struct {
	fset   *token.FileSet
	files  []string
	vars   map[string]*ast.ValueSpec // package level var name -> spec
	varIdx map[string]int
	consts map[string]ast.Expr // package level const name -> expression
	funcs  map[string]*ast.FuncDecl
}

func loadPkg(dir string) (*pkgSrc, error) {
	ents, err := os.ReadDir(dir)
	if err != nil {
		return nil, err
	}
	p := &pkgSrc{fset: token.NewFileSet(), vars: map[string]*ast.ValueSpec{}, varIdx: map[string]int{},
		consts: map[string]ast.Expr{}, funcs: map[string]*ast.FuncDecl{}}
	for _, e := range ents {
		n := e.Name()
		if e.IsDir() || !strings.HasSuffix(n, ".go") || strings.HasSuffix(n, "_test.go") || strings.HasPrefix(n, "verif_hooks") {
			continue
		}
		path := filepath.Join(dir, n)
		f, err := parser.ParseFile(p.fset, path, nil, 0)
		if err != nil {
			return nil, fmt.Errorf("tabgen: cannot parse %s: %v", path, err)
		}
		p.files = append(p.files, n)
		for _, d := range f.Decls {
			switch d := d.(type) {
			case *ast.FuncDecl:
				if d.Recv == nil {
					p.funcs[d.Name.Name] = d
				}
			case *ast.GenDecl:
				for _, s := range d.Specs {
					vs, ok := s.(*ast.ValueSpec)
					if !ok {
						continue
					}
					for i, nm := range vs.Names {
						switch d.Tok {
						case token.VAR:
							p.vars[nm.Name] = vs
							p.varIdx[nm.Name] = i
						case token.CONST:
							if i < len(vs.Values) {
								p.consts[nm.Name] = vs.Values[i]
							}
						}
					}
				}
			}
		}
	}
	sort.Strings(p.files)
	return p, nil
}

func (p *pkgSrc) pos(n ast.Node) string { return p.fset.Position(n.Pos()).String() }

// eval evaluates a constant expression: literals, parentheses, unary and binary operators and
// references to package-level constants.
func (p *pkgSrc) eval(e ast.Expr, depth int) (constant.Value, error) {
	if depth > 50 {
		return nil, fmt.Errorf("%s: constant expression too deep", p.pos(e))
	}
	switch e := e.(type) {
	case *ast.BasicLit:
		v := constant.MakeFromLiteral(e.Value, e.Kind, 0)
		if v.Kind() == constant.Unknown {
			return nil, fmt.Errorf("%s: bad literal %s", p.pos(e), e.Value)
		}
		return v, nil
	case *ast.ParenExpr:
		return p.eval(e.X, depth+1)
	case *ast.UnaryExpr:
		x, err := p.eval(e.X, depth+1)
		if err != nil {
			return nil, err
		}
		if e.Op != token.SUB && e.Op != token.ADD {
			return nil, fmt.Errorf("%s: unsupported unary operator %s", p.pos(e), e.Op)
		}
		return constant.UnaryOp(e.Op, x, 0), nil
	case *ast.BinaryExpr:
		x, err := p.eval(e.X, depth+1)
		if err != nil {
			return nil, err
		}
		y, err := p.eval(e.Y, depth+1)
		if err != nil {
			return nil, err
		}
		switch e.Op {
		case token.SHL, token.SHR:
			s, ok := constant.Uint64Val(y)
			if !ok || s > 1000 {
				return nil, fmt.Errorf("%s: bad shift count", p.pos(e))
			}
			return constant.Shift(x, e.Op, uint(s)), nil
		case token.ADD, token.SUB, token.MUL, token.AND, token.OR, token.XOR:
			return constant.BinaryOp(x, e.Op, y), nil
		case token.QUO:
			if constant.Sign(y) == 0 {
				return nil, fmt.Errorf("%s: division by zero", p.pos(e))
			}
			op := token.QUO
			if x.Kind() == constant.Int && y.Kind() == constant.Int {
				op = token.QUO_ASSIGN // integer division
			}
			return constant.BinaryOp(x, op, y), nil
		}
		return nil, fmt.Errorf("%s: unsupported binary operator %s", p.pos(e), e.Op)
	case *ast.Ident:
		if c, ok := p.consts[e.Name]; ok {
			return p.eval(c, depth+1)
		}
		return nil, fmt.Errorf("%s: %s is not a package-level constant", p.pos(e), e.Name)
	}
	return nil, fmt.Errorf("%s: unsupported constant expression %T", p.pos(e), e)
}

func (p *pkgSrc) evalNat(e ast.Expr) (uint64, error) {
	v, err := p.eval(e, 0)
	if err != nil {
		return 0, err
	}
	v = constant.ToInt(v)
	n, ok := constant.Uint64Val(v)
	if v.Kind() != constant.Int || !ok {
		return 0, fmt.Errorf("%s: table entry is not a non-negative integer: %s", p.pos(e), v)
	}
	return n, nil
}

func (p *pkgSrc) varLit(name string) (*ast.CompositeLit, error) {
	vs, ok := p.vars[name]
	if !ok {
		return nil, fmt.Errorf("tabgen: package-level variable %s not found in %v", name, p.files)
	}
	i := p.varIdx[name]
	if i >= len(vs.Values) {
		return nil, fmt.Errorf("tabgen: %s has no initialiser", name)
	}
	cl, ok := vs.Values[i].(*ast.CompositeLit)
	if !ok {
		return nil, fmt.Errorf("%s: %s is not initialised with a composite literal", p.pos(vs.Values[i]), name)
	}
	return cl, nil
}

// declared length of an array type ([N]T), -1 for a slice or [...]T
func (p *pkgSrc) arrayLen(t ast.Expr) (int, ast.Expr, error) {
	at, ok := t.(*ast.ArrayType)
	if !ok {
		return 0, nil, fmt.Errorf("%s: expected an array or slice type", p.pos(t))
	}
	if at.Len == nil {
		return -1, at.Elt, nil
	}
	if _, ok := at.Len.(*ast.Ellipsis); ok {
		return -1, at.Elt, nil
	}
	n, err := p.evalNat(at.Len)
	if err != nil {
		return 0, nil, err
	}
	return int(n), at.Elt, nil
}

func isIntType(t ast.Expr) bool {
	id, ok := t.(*ast.Ident)
	return ok && (id.Name == "int" || id.Name == "uint" || id.Name == "int32" || id.Name == "int64" || id.Name == "uint32" || id.Name == "uint64" || id.Name == "uint16" || id.Name == "uint8" || id.Name == "byte")
}

// elements of a composite literal in index order (keys `i: v` are honoured), padded to n
func (p *pkgSrc) elems(cl *ast.CompositeLit, n int) ([]ast.Expr, error) {
	var out []ast.Expr
	idx := 0
	for _, e := range cl.Elts {
		if kv, ok := e.(*ast.KeyValueExpr); ok {
			k, err := p.evalNat(kv.Key)
			if err != nil {
				return nil, err
			}
			idx = int(k)
			e = kv.Value
		}
		if idx > 1<<20 {
			return nil, fmt.Errorf("%s: index too large", p.pos(e))
		}
		for len(out) <= idx {
			out = append(out, nil)
		}
		out[idx] = e
		idx++
	}
	if n >= 0 {
		if len(out) > n {
			return nil, fmt.Errorf("%s: %d elements in an array of length %d", p.pos(cl), len(out), n)
		}
		for len(out) < n {
			out = append(out, nil) // zero value
		}
	}
	return out, nil
}

// IntTable1 evaluates `var name = [N]int{...}`.
func (p *pkgSrc) IntTable1(name string) ([]uint64, error) {
	cl, err := p.varLit(name)
	if err != nil {
		return nil, err
	}
	n, elt, err := p.arrayLen(cl.Type)
	if err != nil {
		return nil, err
	}
	if !isIntType(elt) {
		return nil, fmt.Errorf("%s: %s is not a table of integers", p.pos(cl), name)
	}
	return p.intRow(cl, n)
}

func (p *pkgSrc) intRow(cl *ast.CompositeLit, n int) ([]uint64, error) {
	es, err := p.elems(cl, n)
	if err != nil {
		return nil, err
	}
	out := make([]uint64, len(es))
	for i, e := range es {
		if e == nil {
			continue
		}
		if out[i], err = p.evalNat(e); err != nil {
			return nil, err
		}
	}
	return out, nil
}

// IntTable2 evaluates `var name = [N][M]int{...}` or `[N][]int{...}`.
func (p *pkgSrc) IntTable2(name string) ([][]uint64, error) {
	cl, err := p.varLit(name)
	if err != nil {
		return nil, err
	}
	n, elt, err := p.arrayLen(cl.Type)
	if err != nil {
		return nil, err
	}
	m, elt2, err := p.arrayLen(elt)
	if err != nil {
		return nil, err
	}
	if !isIntType(elt2) {
		return nil, fmt.Errorf("%s: %s is not a table of integer rows", p.pos(cl), name)
	}
	es, err := p.elems(cl, n)
	if err != nil {
		return nil, err
	}
	out := make([][]uint64, len(es))
	for i, e := range es {
		if e == nil {
			if m > 0 {
				out[i] = make([]uint64, m)
			}
			continue
		}
		row, ok := e.(*ast.CompositeLit)
		if !ok {
			return nil, fmt.Errorf("%s: row %d of %s is not a composite literal", p.pos(e), i, name)
		}
		if out[i], err = p.intRow(row, m); err != nil {
			return nil, err
		}
	}
	return out, nil
}

// Const evaluates a package-level numeric constant exactly.
func (p *pkgSrc) Const(name string) (*big.Rat, error) {
	e, ok := p.consts[name]
	if !ok {
		return nil, fmt.Errorf("tabgen: constant %s not found in %v", name, p.files)
	}
	return p.ratOf(e)
}

func (p *pkgSrc) ratOf(e ast.Expr) (*big.Rat, error) {
	v, err := p.eval(e, 0)
	if err != nil {
		return nil, err
	}
	return valRat(v, p.pos(e))
}

func valRat(v constant.Value, where string) (*big.Rat, error) {
	switch v.Kind() {
	case constant.Int, constant.Float:
		n, d := constant.Num(v), constant.Denom(v)
		if n.Kind() != constant.Int || d.Kind() != constant.Int {
			return nil, fmt.Errorf("%s: constant %s has no exact rational form", where, v)
		}
		bn, ok1 := new(big.Int).SetString(n.ExactString(), 10)
		bd, ok2 := new(big.Int).SetString(d.ExactString(), 10)
		if !ok1 || !ok2 || bd.Sign() == 0 {
			return nil, fmt.Errorf("%s: constant %s has no exact rational form", where, v)
		}
		return new(big.Rat).SetFrac(bn, bd), nil
	}
	return nil, fmt.Errorf("%s: constant %s is not numeric", where, v)
}

// CallArg finds, inside function fn, the unique call `<recv>.method(args...)` (or plain
// `method(args...)`) and evaluates its argument number arg as a constant.
func (p *pkgSrc) CallArg(fn, method string, arg int) (*big.Rat, error) {
	fd, ok := p.funcs[fn]
	if !ok || fd.Body == nil {
		return nil, fmt.Errorf("tabgen: function %s not found in %v", fn, p.files)
	}
	var found []*ast.CallExpr
	ast.Inspect(fd.Body, func(n ast.Node) bool {
		if c, ok := n.(*ast.CallExpr); ok {
			switch f := c.Fun.(type) {
			case *ast.SelectorExpr:
				if f.Sel.Name == method {
					found = append(found, c)
				}
			case *ast.Ident:
				if f.Name == method {
					found = append(found, c)
				}
			}
		}
		return true
	})
	if len(found) != 1 {
		return nil, fmt.Errorf("tabgen: expected exactly one call of %s in %s, found %d", method, fn, len(found))
	}
	if arg >= len(found[0].Args) {
		return nil, fmt.Errorf("%s: call of %s has no argument %d", p.pos(found[0]), method, arg)
	}
	return p.ratOf(found[0].Args[arg])
}

// ---------------------------------------------------------------- Coq output

func coqF(x float64) string {
	switch {
	case x == 0 && math.Signbit(x):
		return "(-0x0p+0)%float"
	case x == 0:
		return "0x0p+0%float"
	}
	s := strconv.FormatFloat(math.Abs(x), 'x', -1, 64)
	if x < 0 {
		return "(-" + s + ")%float"
	}
	return s + "%float"
}

func nList(xs []uint64) string {
	ss := make([]string, len(xs))
	for i, x := range xs {
		ss[i] = strconv.FormatUint(x, 10)
	}
	return "[" + strings.Join(ss, "; ") + "]"
}

func emitConst(b *strings.Builder, name string, r *big.Rat, comment string) {
	f, _ := r.Float64() // nearest float64: what the Go compiler stores for a float64 use of the constant
	fmt.Fprintf(b, "(* %s *)\n", comment)
	fmt.Fprintf(b, "Definition %s_num : Z := (%s)%%Z.\n", name, r.Num().String())
	fmt.Fprintf(b, "Definition %s_den : Z := (%s)%%Z.\n", name, r.Denom().String())
	fmt.Fprintf(b, "Definition %s_f : float := %s.\n\n", name, coqF(f))
}

// Tables holds everything translated (also used directly by the harnesses).
type Tables struct {
	McPair, MsPair         [][]uint64
	McEdge, MsEdge         []uint64
	McTriangle, MsLine     [][]uint64
	Epsilon, Tolerance     *big.Rat
	McDegenTol, MsDegenTol *big.Rat
	Files                  []string
}

// Load translates the tables of the source tree at repo.
func Load(repo string) (*Tables, error) {
	p, err := loadPkg(filepath.Join(repo, "render"))
	if err != nil {
		return nil, err
	}
	t := &Tables{Files: p.files}
	if t.McPair, err = p.IntTable2("mcPairTable"); err != nil {
		return nil, err
	}
	if t.McEdge, err = p.IntTable1("mcEdgeTable"); err != nil {
		return nil, err
	}
	if t.McTriangle, err = p.IntTable2("mcTriangleTable"); err != nil {
		return nil, err
	}
	if t.MsPair, err = p.IntTable2("msPairTable"); err != nil {
		return nil, err
	}
	if t.MsEdge, err = p.IntTable1("msEdgeTable"); err != nil {
		return nil, err
	}
	if t.MsLine, err = p.IntTable2("msLineTable"); err != nil {
		return nil, err
	}
	if t.Epsilon, err = p.Const("epsilon"); err != nil {
		return nil, err
	}
	if t.Tolerance, err = p.Const("tolerance"); err != nil {
		return nil, err
	}
	if t.McDegenTol, err = p.CallArg("mcToTriangles", "Degenerate", 0); err != nil {
		return nil, err
	}
	if t.MsDegenTol, err = p.CallArg("msToLines", "Degenerate", 0); err != nil {
		return nil, err
	}
	for _, row := range t.McPair {
		if len(row) != 2 {
			return nil, fmt.Errorf("tabgen: mcPairTable row is not a pair")
		}
	}
	for _, row := range t.MsPair {
		if len(row) != 2 {
			return nil, fmt.Errorf("tabgen: msPairTable row is not a pair")
		}
	}
	return t, nil
}

// Coq renders the tables as coq/Generated/MarchTables.v.
func (t *Tables) Coq() []byte {
	var b strings.Builder
	b.WriteString("(* GENERATED by harness/tabgen from render/{march3.go,march2.go,utils.go} of the current\n   source tree on every run of check C05 / C08.  Do not edit. *)\n")
	b.WriteString("From Coq Require Import List ZArith NArith Floats.\nImport ListNotations.\nLocal Open Scope N_scope.\n\n")
	pairs := func(name string, rows [][]uint64) {
		fmt.Fprintf(&b, "Definition %s : list (N * N) := [\n", name)
		for i, r := range rows {
			sep := ";"
			if i == len(rows)-1 {
				sep = ""
			}
			fmt.Fprintf(&b, "  (%d, %d)%s\n", r[0], r[1], sep)
		}
		b.WriteString("].\n\n")
	}
	flat := func(name string, xs []uint64) {
		fmt.Fprintf(&b, "Definition %s : list N := [\n", name)
		for i := 0; i < len(xs); i += 8 {
			j := i + 8
			if j > len(xs) {
				j = len(xs)
			}
			ss := make([]string, j-i)
			for k := i; k < j; k++ {
				ss[k-i] = strconv.FormatUint(xs[k], 10)
			}
			sep := ";"
			if j == len(xs) {
				sep = ""
			}
			fmt.Fprintf(&b, "  %s%s\n", strings.Join(ss, "; "), sep)
		}
		b.WriteString("].\n\n")
	}
	rows := func(name string, rs [][]uint64) {
		fmt.Fprintf(&b, "Definition %s : list (list N) := [\n", name)
		for i, r := range rs {
			sep := ";"
			if i == len(rs)-1 {
				sep = ""
			}
			fmt.Fprintf(&b, "  %s%s  (* %d *)\n", nList(r), sep, i)
		}
		b.WriteString("].\n\n")
	}
	pairs("mcPairTable", t.McPair)
	flat("mcEdgeTable", t.McEdge)
	rows("mcTriangleTable", t.McTriangle)
	pairs("msPairTable", t.MsPair)
	flat("msEdgeTable", t.MsEdge)
	rows("msLineTable", t.MsLine)
	emitConst(&b, "epsilon", t.Epsilon, "render/utils.go: const epsilon (exact value; nearest float64)")
	emitConst(&b, "tolerance", t.Tolerance, "render/utils.go: const tolerance")
	emitConst(&b, "mcDegenerateTol", t.McDegenTol, "the argument of t.Degenerate(...) in mcToTriangles")
	emitConst(&b, "msDegenerateTol", t.MsDegenTol, "the argument of l.Degenerate(...) in msToLines")
	return []byte(b.String())
}

// Gen is the kit.GenFn body: (file name, content, error).
func Gen(repo string) (string, []byte, error) {
	t, err := Load(repo)
	if err != nil {
		return "", nil, err
	}
	return "MarchTables.v", t.Coq(), nil
}
