#!/bin/bash
# seedtest.sh <ID> <k> : verify seeded mutation /tmp/seed/<ID>/m<k>.diff and run the check against it
set -u
ID=$1; K=$2; D=/tmp/seed/$ID; WT=$D/wt
export GOFLAGS=-mod=mod GOPROXY=off GOSUMDB=off GOTOOLCHAIN=local
HEAD=$(git -C /repo rev-parse HEAD)
git -C $WT checkout -q -- . ; git -C $WT clean -fdq; git -C $WT checkout -q --detach $HEAD
demo=$(python3 -c "import json;d=json.load(open('$D/m$K.json'));print(d['demo'] if isinstance(d['demo'],str) else json.dumps(d['demo']))")
pkg=$(grep -m1 -o "copy to [a-z/0-9]*" $D/m${K}_demo_test.go | awk '{print $3}' | sed 's#/$##')
tname=$(grep -m1 -o "func Test[A-Za-z0-9_]*" $D/m${K}_demo_test.go | awk '{print $2}')
echo "== $ID m$K pkg=$pkg test=$tname"
# demo on clean tree
cp $D/m${K}_demo_test.go $WT/$pkg/zz_demo_test.go
(cd $WT && go test -vet=off -count=1 -run "^$tname\$" ./$pkg/ 2>&1 | tail -2) | sed 's/^/clean: /'
rm -f $WT/$pkg/zz_demo_test.go
if ! git -C $WT apply $D/m$K.diff; then echo "PATCH DOES NOT APPLY"; exit 2; fi
(cd $WT && go build ./... && go test -vet=off -count=1 ./render/ ./sdf/ ./vec/v3/ 2>&1 | tail -3) | sed 's/^/suite: /'
cp $D/m${K}_demo_test.go $WT/$pkg/zz_demo_test.go
(cd $WT && go test -vet=off -count=1 -run "^$tname\$" ./$pkg/ 2>&1 | tail -3) | sed 's/^/mutated: /'
rm -f $WT/$pkg/zz_demo_test.go
cd /verif && VERIF_REPO=$WT ./check $ID quick 2>&1 | grep -v "^KNOWN" | tail -3 | sed 's/^/check: /'
cp /verif/replays/${ID}_violation.json $D/m${K}_replay.json 2>/dev/null || cp /verif/replays/${ID}_broken.json $D/m${K}_replay.json 2>/dev/null
git -C $WT checkout -q -- . ; git -C $WT clean -fdq
