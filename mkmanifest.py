#!/usr/bin/env python3
"""Regenerates MANIFEST.json from the table below (kept in one place so it always validates)."""
import json, os
V = os.path.dirname(os.path.abspath(__file__))
import glob
claimed = {os.path.basename(f)[:-5]: json.load(open(f)) for f in glob.glob(os.path.join(V, "claims", "C*.json"))}
props = [json.loads(l)["id"] for l in open(os.path.join(V, "properties.jsonl"))]
checks = []
for pid in props:
    c = claimed.get(pid)
    if not c or c.get("not_applicable"):
        continue
    checks.append({
        "property_id": pid,
        "quick_cmd": "./check %s quick" % pid,
        "thorough_cmd": "./check %s thorough" % pid,
        "evidence_file": "/verif/evidence/%s.json" % pid,
        "replay_cmd_template": "./check %s --replay {path}" % pid,
        "engine": "coq-proof+correspondence",
        "level_claimed": {"category": "proof", "text": c["text"], "design_ref": "DESIGN.md section 6, " + pid},
        "level_note": c["note"],
        "technique": c["technique"],
    })
na = [{"property_id": pid, "reason": (claimed.get(pid) or {}).get("not_applicable", "check not built yet in this round; see DESIGN.md section 9 (staging)")}
      for pid in props if not claimed.get(pid) or claimed[pid].get("not_applicable")]
m = {
    "version": 1,
    "setup_cmd": "./check setup",
    "hooks": {
        "guard": "verif",
        "enable": "go build -tags verif (harness module /verif/harness with replace github.com/deadsy/sdfx => /repo)",
        "baseline_off_cmd": "cd /repo && GOFLAGS=-mod=mod GOPROXY=off GOSUMDB=off GOTOOLCHAIN=local go test -vet=off -count=1 ./render/ ./sdf/ ./vec/v3/",
        "source_commits": json.load(open(os.path.join(V, "hooks.json"))) if os.path.exists(os.path.join(V, "hooks.json")) else [],
        "add_only": True,
    },
    "engines": [{"name": "coq-proof+correspondence", "path": "/verif/check",
                 "serves_properties": [c["property_id"] for c in checks],
                 "kind_free_text": "Coq 8.16.1 theorems over a Gallina model (coq/), tied to /repo by translators (harness gen -> coq/Generated) and by differential execution of the model inside coqc against the Go implementation (harness/cmd/vcheck)"}],
    "checks": checks,
    "not_applicable": na,
    "notes": "See DESIGN.md. Known findings and repaired defects: known_findings.jsonl.",
}
json.dump(m, open(os.path.join(V, "MANIFEST.json"), "w"), indent=1)
print("claimed", len(checks), "not_applicable", len(na))
