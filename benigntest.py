#!/usr/bin/env python3
"""benigntest.py <G> <k> [ids...]
Runs the registered checks against a behaviour-preserving refactoring produced by an independent
sub-agent (files /tmp/benign/<G>/r<k>.{diff,json}) in the scratch worktree /tmp/benign/<G>/wt:
  1. worktree reset to /repo's HEAD, patch applies, `go build ./...` and the baseline test packages pass
  2. for every property the refactoring touches: `VERIF_REPO=<wt> ./check <id> quick`; expected: exit 0
and stores it as /verif/benign/<G>-r<k>/ (patch.diff, meta.json).  /repo itself is never touched."""
import sys, os, json, subprocess, shutil, time

G, K = sys.argv[1], sys.argv[2]
D = "/tmp/benign/%s" % G
WT = D + "/wt"
ENV = dict(os.environ, GOFLAGS="-mod=mod", GOPROXY="off", GOSUMDB="off", GOTOOLCHAIN="local")

def sh(cmd, cwd=None, env=ENV, timeout=7200):
    p = subprocess.run(cmd, shell=True, cwd=cwd, env=env, stdout=subprocess.PIPE, stderr=subprocess.STDOUT, text=True, timeout=timeout)
    return p.returncode, p.stdout

def reset():
    sh("git checkout -q -- . ; git clean -fdq", cwd=WT)

head = sh("git -C /repo rev-parse HEAD")[1].strip()
reset()
sh("git checkout -q --detach %s" % head, cwd=WT)
meta = json.load(open("%s/r%s.json" % (D, K)))
ids = sys.argv[3:] or [i for i in meta.get("touches", []) if isinstance(i, str) and i[:1] == "C"]
res = {"group": G, "k": K, "repo_head": head, "ids": ids, "bit_identical": meta.get("bit_identical")}
rc, out = sh("git apply %s/r%s.diff" % (D, K), cwd=WT)
res["patch_applies"] = rc == 0
if rc == 0:
    rc, out = sh("go build ./... && go test -vet=off -count=1 ./render/ ./sdf/ ./vec/v3/", cwd=WT)
    res["suite_on_changed"] = "pass" if rc == 0 else "FAIL"
    if rc: res["suite_out"] = out[-1500:]
    res["checks"] = {}
    for cid in ids:
        t0 = time.time()
        rc, out = sh("./check %s quick" % cid, cwd="/verif", env=dict(os.environ, VERIF_REPO=WT))
        lines = [l for l in out.split("\n") if l and not l.startswith("KNOWN-FINDING")]
        e = {"exit": rc, "last": lines[-1][:300] if lines else "", "alarm": rc != 0 or any(l.startswith("VIOLATION") for l in lines),
             "wall_s": round(time.time() - t0, 1)}
        if e["alarm"]:
            e["lines"] = lines[-6:]
            for f in ("/verif/replays/%s_violation.json" % cid, "/verif/replays/%s_broken.json" % cid):
                if os.path.exists(f) and os.path.getmtime(f) > t0:
                    try:
                        rp = json.load(open(f))
                        fi = rp.get("failing_inputs") or []
                        e["replay_first"] = (json.dumps(fi[0])[:700] if fi else json.dumps(rp.get("no_longer_checks", [])[:3])[:900])
                    except Exception as ex:
                        e["replay_first"] = str(ex)
        res["checks"][cid] = e
reset()
res["alarms"] = sorted(c for c, e in res.get("checks", {}).items() if e["alarm"])
print(json.dumps(res, indent=1))
if res.get("patch_applies") and res.get("suite_on_changed") == "pass":
    out = "/verif/benign/%s-r%s" % (G, K)
    os.makedirs(out, exist_ok=True)
    shutil.copy("%s/r%s.diff" % (D, K), out + "/patch.diff")
    json.dump({"from_author": meta, "summary": meta.get("summary"), "bit_identical": meta.get("bit_identical"),
               "run": {k: v for k, v in res.items() if k != "suite_out"}}, open(out + "/meta.json", "w"), indent=1)
