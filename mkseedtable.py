#!/usr/bin/env python3
"""Rewrites section 11.3 of DESIGN.md (between the markers) from /verif/seeded/*/meta.json."""
import json, glob, os, re
V = os.path.dirname(os.path.abspath(__file__))
# what had to be strengthened before the check caught the change (hand-maintained)
STRENGTHENED = {
 "C03f-m2": "short-edge and tiny-polygon families (edge / extent 1e-9..1e-15 at extents 1e-3..1e6) in the C03 polygon stratum, Mesh2D / Mesh2DSlow evaluated directly, a rejected simple polygon is a failing input",
 "C02f-m1": "arrays / rotate-unions / rotate-copies against the fold over ALL copies computed in the harness (1..20 copies per axis, disjoint and overlapping, blends with k up to 10x the pitch incl. harness-defined blends, stretched operands probed far outside)",
 "C02f-m2": "aliasing histories on caller-owned operand slices with the pointwise-minimum oracle",
 "C18f-m1": "conversion programs on ThreadParameters values (lookup / new / copy / conv / set) run next to a value model: mutate the returned struct, convert again, copy after conversion, alternate entries",
 "C09f-m1": "custom sinks through the public buffer constructors (buffered channels of capacity 1, 2, 64; readers lagging k batches or sleeping) compared with a prompt unbuffered reader",
 "C09f-m2": "deep trees (12-14 levels: long thin shapes at 520..2100 cells) with evaluation-time skew aligned to the tree, exact sequences compared across skews and GOMAXPROCS",
 "C01e-m1": "look-alike transform matrices (determinant exactly / nearly +-1 but not orthogonal, shears, unimodular, rotation plus tiny shear) under Transform and RotateUnion in the tree generator, with a parameter-derived probe oracle",
 "C02e-m1": "operands with flat / point bounding boxes under every box-building combinator; box-free pointwise-minimum reference computed from the leaves",
 "C03e-m1": "polygon families on the split lines of their own quadtree (stairs, steps, skylines, hulls of grid crossings) with the exact signed-distance and Lipschitz oracles",
 "C03e-m3": "operand lists with nil entries in every position (literal nil and every constructor that returns nil), compared with the nil-free call",
 "C16e-m3": "nil-argument union strata (see C03e-m3)",
 "C04e-m2": "the oracle is built from the VERTEX LIST, never from VertexToLine; short-edge strata (1e-9..few ulp of the extent), tiny polygons; a refused simple polygon is a failing input",
 "C06e-m2": "features exactly on (and within 4e-13 of) the lattice the renderer really samples: through-holes, L-shapes, notches, stairs; no emitted triangle may have identical or collinear vertices; normals on CSG shapes",
 "C07e-m1": "independent scaled-box and cube-covers-box oracles computed in the harness; every family again translated 2x..1000x away from the origin on 1-3 axes",
 "C10e-m2": "aliased-construction groups (shapes built from one another, all still in use, hammered together) and a read-only heap walk reporting a map / slice / channel held by two structs with no mutex in common",
 "C12e-m2": "20 kinds of odd output paths (empty, trailing slash, '.', parent is a file, too long, NUL, read-only, symlink loops, /proc, /sys ...) as single calls and in goroutine-count histories",
 "C15e-m1": "write schedules around the buffer thresholds for To3MF / ToDXF / ToSVG (large write while pending, size sweep, renderer-owned slices, nested and concurrent writers)",
 "C18e-m1": "3D points whose distance from the axis equals a profile vertex ordinate or quadtree cut bit for bit (and 1 ulp either side), judged by the exact crossing number; the 2D profiles on vertex-level grids",
 "C19e-m1": "sharp features (cone tips, spikes, pyramids, wedges, fins; apex on / near lattice points, edges, faces) and a triangle-level stratum on caller-positioned vertex buffers (collinear and coincident quad vertices)",
 "C20e-m3": "synthetic index-triple sets over the whole int range (2^21, 2^31, 2^42, 2^53, 2^62 boundaries, negative), engineered carry pairs, all reorderings / rotations, changed copies that must compare unequal; Less must be a strict total order",
 "C01d-m1": "aliasing histories: shapes built from caller-owned slices / pointer lists / Parms structs which the caller then overwrites, re-slices, appends to or zeroes, compared with a twin built from a private copy",
 "C01d-m2": "parameter-regime strata for every primitive without a model (spiral, cams, flange, rack, spline, voxel, meshes) with oracles that take their region from the constructor's PARAMETERS (witness points along the whole parameter range, outline tracing) and a wider box-relative search (4x, 12x)",
 "C04d-m1": "build histories in one process: caller-owned segment slices re-used after other builds, earlier meshes re-evaluated, two meshes evaluated alternately; caller data must stay bit-identical",
 "C06d-m1": "the same model VALUE rendered twice by one renderer value with an in-place change in between (SetMin/SetMax/SetExtrude, user field parameter, filling CacheSDF2), and histories of different fields with the SAME box and cell count; shared kit, so also C05, C07, C08",
 "C08d-m1": "same-box histories (see C06d-m1)",
 "C09d-m3": "layers 2.5x..100x (thorough 400x) larger than what can be in flight, with FORCED schedules (evaluations held until N others have started: hold-first, starve-all-but-one, rolling lag), concurrent layers, a 490k-points-per-layer render",
 "C11d-m1": "file histories for every sink and entry point (prior longer / shorter / garbage file, same path twice, drawing objects saved twice and extended)",
 "C11d-m3": "producers that own and re-use their scratch slice (refill, poison, windows) with late-decoding direct sinks",
 "C15d-m1": "one-process export histories (failing calls followed by successful ones on meshes sharing vertices, interleaved exports)",
 "C16d-m1": "operation histories on one union value (Evaluate / EvaluateSlow / SetMin with every blend and back, repeated and alternating points) against unions built from scratch in the configuration of each step",
 "C16d-m2": "interval pairs with gaps / overlaps of 0, 1..16 ulps, 1e-15..1e-9 relative and absolute at every decade 1e-12..1e12, also produced by MinMaxDist2 of tiny and huge boxes; the same sweeps for MinMaxDist2 and the pruning oracle",
 "C17d-m2": "curves and polygons with extent/offset from 3e-6 down to 1e-16 and scales 2^-500..2^500, judged per axis by the exact de Casteljau point with a tolerance relative to the axis magnitude plus exactly the coefficient drops the 1e-12 rule permits",
 "C19d-m1": "all shapes rendered by one renderer value share ONE explicit sampled box and cell count (same lattice points), compared with fresh values",
 "C19d-m3": "construction paths: struct literal, zero value, fields assigned afterwards, copies of fresh and used values, for V1 and V2 with their knobs",
 "C20d-m2": "near-collinear hull clusters (defect 1e-3..1e-12, spacing 1e-1..1e-4 of the extent) squeezed by bisection to the boundary of an exact, scale-aware general-position class (big-integer predicates against the specified super triangle)",
 "C02c-m1": "exact-seam points on every n-ary node (box-edge arrangement, bisection to exact zeros, dyadic layouts in every operand order); same stratum in C16",
 "C06c-m2": "over-estimating sign-correct fields (gain 2/10/1000, constant or growing) for the uniform renderers, with a metamorphic triangle-count / vertex oracle; also in C05, C08",
 "C06c-m3": "one renderer value over a history of models of different size and cell count, Info-only steps, compared bit for bit with fresh values; every triangle inside one lattice cell; also in C05, C07, C08, C09",
 "C12c-m3": "one-process histories with GOMAXPROCS lowered / raised between and during renders, concurrent renders, GC and idle gaps; flat-after-warm-up oracle independent of NumCPU",
 "C13c-m1": "write schedules laid out around tBufferSize (single writes >= threshold onto a non-empty buffer, re-used scratch slices, re-entrant and concurrent writers) compared with SaveSTL byte for byte",
 "C13c-m3": "file histories for SaveSTL and ToSTL (path holding a longer / shorter / garbage / ASCII file, same path twice by every pair of writers)",
 "C16c-m1": "re-entrant and gated operand probes (an operand whose Evaluate makes another evaluation of the enclosing shape happen) over 64 operand holders, operand counts 1..300; shared with C10, which now reports such changes with a failing input",
 "C17c-m3": "every builder value rendered as a history (Vertices()/Polygon()/Mesh2D() 2-5 times, staged Add/Close/Reverse in between) against the model run as a state machine (Sdf/C17Hist.v)",
 "C02-m2": "cache histories now include near-duplicate queries (points equal to ~1e-10 / one ulp)",
 "C09-m1": "layer cases larger than the evaluation queue (109x109, 127x127 points)",
 "C09-m2": "render-history stratum (two models with the same envelope back to back); a render that never evaluates its model is a failing input, not a harness error",
 "C11-m3": "every 7th scripted triangle is degenerate (two equal vertices): sinks must deliver those too",
 "C12-m1": "a child that dies or must be killed is a failing input (the call did not return), not a harness error",
 "C12-m2": "write failure early in a large mesh (300 full batches, mcu 60 / octree 80 cells) to /dev/full and under RLIMIT_FSIZE",
 "C12-m3": "goroutine histories with growing resolution (each render larger than any before)",
 "C18-m1": "the harness oracles keep running when the translator cannot read the edited source (the failing input is then found by the idempotence oracle)",
 "C18-m2": "reports are NaN-safe (the harness crashed writing a NaN into its report)",
 "C20-m3": "elongated point sets (aspect 20-200 along x and along y) and a bit-exact correspondence of superTriangle through a hook",
 "C03-m1": "polygon stratum in C03 (exact rational crossing number + squared distance on vertex-level grids); the same change is caught by C04",
 "C05-m3": "large-lattice octree stratum (long thin shapes above 512 / 1024 cells)",
 "C08-m3": "renders collected through the real sdf.NewLine2Buffer with many saddle cells",
 "C07-m2": "very fine quadtree lattices (> 65536 half-cells) on thin shapes with a bounding-box-restricted exhaustive reference",
 "C07-m3": "renderer-reuse stratum (one renderer value renders A, B, C)",
 "C06-m1": "renderer-reuse stratum (shared with C07)",
 "C19-m2": "same renderer value rendering twice / sequences A then B compared with fresh renderers; field-state scan",
 "C19-m3": "grid-aligned, non-dyadic boxes (faces on lattice planes)",
 "C04-m1": "staircase polygons whose short walls lie on split lines of every level, rows of those walls queried near and far",
 "C01b-m3": "spiral parts with a negative polar radius (through the centre, negative slope, negative angles)",
 "C10b-m1": "uniform render with more batches per layer than queue capacity + workers (GOMAXPROCS 16 vs 1)",
 "C10b-m2": "octree/uniform renders of different shapes at the same time against the renders alone",
 "C10b-m3": "many-copy blended array/union families; two fresh instances disagreeing sequentially is a failing input",
 "C16b-m2": "nested unions (inner plain union under a blended outer one; inner blend set after the outer was built) against the fold over the operands passed",
 "C16b-m3": "belongs to C10 (concurrent Evaluate): caught by ./check C10",
 "C02b-m3": "belongs to C18 (screw periodicity for multi-start threads): caught by ./check C18",
 "C04b-m2": "absolute scale as a generated dimension of the polygon strata (1e-6..1e6) and facetted discs with 500-2000 very short edges",
 "C05b-m3": "render histories in one process (fine, then coarser renders of other shapes and sizes; recurring pairs compared bit for bit)",
 "C06b-m2": "mcInterpolate correspondence with end values log-uniform in 1e-13..1e-3; scale strata (1e-5..1e3); planes 1e-9..1e-6 off a lattice layer",
 "C06b-m3": "non-cubic lattices (all 6 orderings of three different extents); a panic inside a render is a failing input",
 "C09b-m1": "fresh process per GOMAXPROCS in 1,2,3,8,16; 2D renders at 100-400 cells compared as exact segment sequences",
 "C09b-m2": "file histories for all eight writers (render over a longer / equal / shorter pre-existing file vs a fresh path)",
 "C09b-m3": "octree renders at 33-128 cells compared as exact triangle sequences and STL bytes across processes and repetitions",
 "C11b-m2": "scripted segment streams (end-to-end collinear unit steps, reversed, overlapping, repeated, zero-length) through every 2D sink; also caught by C15's new collinear chains",
 "C12b-m1": "one-process histories: warm-up, the same failing call 40 times, then good calls of every entry point",
 "C12b-m2": "goroutine counts over histories of failing renders for every writer x failure kind (/dev/full, RLIMIT_FSIZE at several offsets, create failures)",
 "C14b-m1": "long-line files (64 KiB-1 .. 3 MiB, three layouts) under a per-file watchdog; not returning is a failing input",
 "C15b-m2": "DXF drawing-object operation histories (Line/Lines/Points/Triangle/Box in any order) against a fold_left model (Io/ExportOps.v, two new theorems)",
 "C17b-m2": "closed Bezier curves whose control points coincide with end points (last Mid on the first vertex, teardrops)",
 "C17b-m3": "multi-arc polygons (stadium, lens, scalloped, ring; 2-6 arcs, arcs late in the list) with a per-arc oracle",
 "C18b-m1": "generator histories: database snapshot bit-identical after every obj generator call, and re-compared with the translated table",
 "C19b-m2": "V2 vertex solver called through a hook on singular / rank-deficient / scaled plane systems, bit-exact against a float model (Geo/DCSolve.v); renders with CenterPush = 0 and other knob settings",
 "C19b-m3": "non-Lipschitz sign-correct fields (shrinking scales, fast twists, strong tapers) and a cell-exhaustive reference (one quad per sign-changing edge)",
}
rows = []
for f in sorted(glob.glob(os.path.join(V, "seeded", "*", "meta.json"))):
    name = os.path.basename(os.path.dirname(f))
    m = json.load(open(f))
    c = m.get("confirmation", {})
    summ = (m.get("summary") or (m.get("from_seeder") or {}).get("summary") or "")
    summ = re.sub(r"\s+", " ", str(summ))[:230]
    needs = re.sub(r"\s+", " ", str(m.get("needs") or ""))[:200]
    if c.get("detected") and c.get("with_failing_input"):
        verdict = "caught, failing input"
    elif c.get("detected"):
        verdict = "caught (no-failing-input-found)"
    else:
        verdict = "MISSED"
    rows.append("| %s | %s | %s | %s: %s | %s |" % (name, summ.replace("|", "/"), needs.replace("|", "/"),
                m.get("checked_with"), verdict, STRENGTHENED.get(name, "-")))
tab = ("| seeded change | what was changed | needs, to manifest | check and verdict (last run) | strengthened first |\n|---|---|---|---|---|\n"
       + "\n".join(rows))
p = os.path.join(V, "DESIGN.md")
s = open(p).read()
a, b = "<!-- SEEDED-TABLE-BEGIN -->", "<!-- SEEDED-TABLE-END -->"
if a not in s:
    s += "\n### 11.3 Seeded changes and which checks catch them\n\n" + \
         "Each change below was written by a fresh sub-agent that saw only the property text and its own\n" \
         "scratch worktree (nothing of /verif), compiles, passes the 37 baseline tests, and comes with a\n" \
         "demonstration test that fails with it and passes without it; each was confirmed here in a scratch\n" \
         "worktree (`seedtest.py`: demo passes on the clean tree, patch applies, baseline passes, demo fails)\n" \
         "and then the registered check was run against that worktree (`VERIF_REPO=<wt> ./check <id> quick`).\n" \
         "Patch, demonstration and run record are in `/verif/seeded/<id>-m<k>/`.  'strengthened first' says what\n" \
         "was added to a harness after the change was first missed; the verdict column is the last run.\n\n" + a + "\n" + b + "\n"
s = s[:s.index(a) + len(a)] + "\n" + tab + "\n" + s[s.index(b):]
open(p, "w").write(s)
print(len(rows), "seeded changes;", sum("MISSED" in r for r in rows), "missed")
