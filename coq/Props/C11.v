(* C11 - nothing written by a renderer is lost, duplicated or reordered before the sink.
   Theorems only; see DESIGN.md section 6 (C11).  Models: Sys/Buffer.v (the
   Triangle3Buffer / Line2Buffer state machine and the consumer loops) and
   Sys/Pipeline.v (producer, rendezvous channel, writer goroutine, main).
   Tie to the source: Generated/SysProgs.v holds the statement skeleton of the Write / Close
   methods and of the To* / writeXXX functions extracted from the current Go source
   (harness/sysgen); Sys/BufferProg.v and Sys/PipeProg.v give those programs a small-step
   meaning; the C11_source_* theorems below are about the GENERATED programs. *)
From Coq Require Import List Arith NArith Permutation.
From Sdfx Require Import Sys.SysLang.
From Sdfx Require Import Sys.Buffer.
From Sdfx Require Import Sys.Pipeline.
From Sdfx Require Import Sys.BufferProg Sys.PipeProg.
From Sdfx Require Import Generated.BufferConsts Generated.SysProgs.
From Sdfx Require Import Sys.SysProgsC11 Sys.SysProgsC12.
Import ListNotations.

(* At every moment, after ANY sequence of Write / Close operations (empty writes,
   writes after Close, sizes straddling the threshold N, any N): what the consumer
   holds followed by what is still buffered is exactly what was written, in order. *)
Theorem C11_buffer_invariant : forall (A : Type) (N : nat) (ops : list (op A)),
  concat (sent (run N ops)) ++ buf (run N ops) = writes_of ops.
Proof. exact buffer_invariant. Qed.
Print Assumptions C11_buffer_invariant.

(* After the closing flush nothing is left behind, whatever happened before. *)
Theorem C11_delivered_after_close : forall (A : Type) (N : nat) (ops : list (op A)),
  delivered (run N (ops ++ [Close])) = writes_of ops.
Proof. exact delivered_after_close. Qed.
Print Assumptions C11_delivered_after_close.

(* One producer: the sink receives the concatenation of the writes, in order. *)
Theorem C11_single_producer : forall (A : Type) (N : nat) (ws : list (list A)),
  delivered (run N (map Write ws ++ [Close])) = concat ws.
Proof. exact single_producer. Qed.
Print Assumptions C11_single_producer.

(* Several producers, each Write atomic under the mutex: for EVERY interleaving m of
   the producers' Write sequences the sink receives the writes in the order they
   took the lock, i.e. a permutation of all items in which every producer's items
   appear in their own order. *)
Theorem C11_multi_producer : forall (A : Type) (N : nat) (pss : list (list (list A))) (m : list (list A)),
  Merge pss m ->
  let d := delivered (run N (map Write m ++ [Close])) in
  d = concat m /\
  Permutation (concat (map (@concat A) pss)) d /\
  Forall (fun ps => Subseq (concat ps) d) pss.
Proof. exact multi_producer. Qed.
Print Assumptions C11_multi_producer.

(* Shape of the traffic on the channel: never an empty batch, never N or more items
   kept back; batches sent by Write hold at least N items. *)
Theorem C11_batches_shape : forall (A : Type) (N : nat) (ops : list (op A)), 1 <= N ->
  length (buf (run N ops)) < N /\ Forall (fun b => b <> []) (sent (run N ops)).
Proof. exact batches_shape. Qed.
Print Assumptions C11_batches_shape.

Theorem C11_writes_send_full_batches : forall (A : Type) (N : nat) (ws : list (list A)),
  Forall (fun b => N <= length b) (sent (run N (map Write ws))).
Proof. exact writes_send_full. Qed.
Print Assumptions C11_writes_send_full_batches.

(* The consumer goroutine under every interleaving with the producer and main: once
   it has finished, it has written exactly the batches, in order, and the count it
   stores is their number (no write failure injected; either protocol; fin_ok: the
   finalisation - header rewrite, encode, save - succeeds, otherwise no count is stored). *)
Theorem C11_consumer_all_interleavings : forall (A : Type) (P : proto) (fin_ok : bool) (batches : list (list A)) (s : st A),
  reachable P None fin_ok (init batches) s -> con s = Done ->
  out s = concat batches /\ hdr s = if fin_ok then Some (length (concat batches)) else None.
Proof. exact consumer_all_interleavings. Qed.
Print Assumptions C11_consumer_all_interleavings.

(* The uint32 count of the STL header, incremented once per triangle written. *)
Theorem C11_stl_count_field : forall (A : Type) (items : list A),
  stl_count items = (N.of_nat (length items) mod 2 ^ 32)%N.
Proof. exact (@stl_count_field). Qed.
Print Assumptions C11_stl_count_field.

(* The decision procedure the cases files apply to what the real sinks delivered
   accepts only sequences allowed by C11_multi_producer. *)
Theorem C11_checker_sound : forall pss d m,
  reconstruct pss d = Some m ->
  Merge (drop_empty pss) m /\ concat m = d /\
  Permutation (concat (map (@concat N) pss)) d /\
  Forall (fun ps => Subseq (concat ps) d) pss.
Proof. exact checker_sound. Qed.
Print Assumptions C11_checker_sound.

(* ------------------------------------------------------------------ tie to the source by translation *)

(* The Write and Close methods found in the source are  Lock; body; Unlock; return  where the
   body contains buffer statements only, and the uninterrupted run of the body IS the step
   function of Buffer.v, for every state and argument, with the threshold of the source. *)
Theorem C11_source_Triangle3Buffer_is_model :
  (exists bw, strip T3_Write = Do PLock :: bw ++ [Do PUnlock; Return] /\ plain bw = true /\
              forall A (s : Buffer.state A) (items : list A),
                seqs items bw (buf s, sent s) = (buf (Buffer.step tBufferSize s (Write items)), sent (Buffer.step tBufferSize s (Write items)))) /\
  (exists bc, strip T3_Close = Do PLock :: bc ++ [Do PUnlock; Return] /\ plain bc = true /\
              forall A (s : Buffer.state A),
                seqs [] bc (buf s, sent s) = (buf (Buffer.step tBufferSize s Close), sent (Buffer.step tBufferSize s Close))).
Proof. exact T3_source_ok. Qed.
Print Assumptions C11_source_Triangle3Buffer_is_model.

Theorem C11_source_Line2Buffer_is_model :
  (exists bw, strip L2_Write = Do PLock :: bw ++ [Do PUnlock; Return] /\ plain bw = true /\
              forall A (s : Buffer.state A) (items : list A),
                seqs items bw (buf s, sent s) = (buf (Buffer.step lBufferSize s (Write items)), sent (Buffer.step lBufferSize s (Write items)))) /\
  (exists bc, strip L2_Close = Do PLock :: bc ++ [Do PUnlock; Return] /\ plain bc = true /\
              forall A (s : Buffer.state A),
                seqs [] bc (buf s, sent s) = (buf (Buffer.step lBufferSize s Close), sent (Buffer.step lBufferSize s Close))).
Proof. exact L2_source_ok. Qed.
Print Assumptions C11_source_Line2Buffer_is_model.

(* Atomicity of Write / Close derived from the program text: any number of goroutines call the
   extracted methods on one buffer, their statements interleaved by an ARBITRARY scheduler (a
   statement of a goroutine that does not hold the mutex may run between any two statements of
   the one that does).  Whenever the mutex is free the buffer and the channel traffic are
   Buffer.run of the calls in the order in which they took the mutex, and when all goroutines
   have finished that order is an interleaving of their call sequences. *)
Theorem C11_source_Triangle3Buffer_calls_atomic : forall (A : Type) (opss : list (list (op A))) (sched : list nat),
  let c := run_sched (strip T3_Write) (strip T3_Close) sched (init_cfg opss) in
  (c_lock c = None -> c_buf c = buf (Buffer.run tBufferSize (map snd (c_log c))) /\
                      c_sent c = sent (Buffer.run tBufferSize (map snd (c_log c)))) /\
  (finished c -> c_lock c = None /\ Merge opss (map snd (c_log c))).
Proof. exact T3_calls_atomic. Qed.
Print Assumptions C11_source_Triangle3Buffer_calls_atomic.

Theorem C11_source_Line2Buffer_calls_atomic : forall (A : Type) (opss : list (list (op A))) (sched : list nat),
  let c := run_sched (strip L2_Write) (strip L2_Close) sched (init_cfg opss) in
  (c_lock c = None -> c_buf c = buf (Buffer.run lBufferSize (map snd (c_log c))) /\
                      c_sent c = sent (Buffer.run lBufferSize (map snd (c_log c)))) /\
  (finished c -> c_lock c = None /\ Merge opss (map snd (c_log c))).
Proof. exact L2_calls_atomic. Qed.
Print Assumptions C11_source_Line2Buffer_calls_atomic.

(* Several producers writing concurrently through the extracted Write, every schedule: when
   they have finished the buffer is Buffer.run of an interleaving m of their Writes, and the
   closing flush delivers concat m - a permutation of all items, each producer's in order. *)
Theorem C11_source_Triangle3Buffer_multi_producer : forall (A : Type) (pss : list (list (list A))) (sched : list nat),
  let c := run_sched (strip T3_Write) (strip T3_Close) sched (init_cfg (map (map (@Write A)) pss)) in
  finished c ->
  exists m : list (list A),
    Merge pss m /\
    c_buf c = buf (Buffer.run tBufferSize (map (@Write A) m)) /\ c_sent c = sent (Buffer.run tBufferSize (map (@Write A) m)) /\
    let d := delivered (Buffer.run tBufferSize (map (@Write A) m ++ [Close])) in
    d = concat m /\ Permutation (concat (map (@concat A) pss)) d /\ Forall (fun ps => Subseq (concat ps) d) pss.
Proof. exact T3_multi_producer. Qed.
Print Assumptions C11_source_Triangle3Buffer_multi_producer.

Theorem C11_source_Line2Buffer_multi_producer : forall (A : Type) (pss : list (list (list A))) (sched : list nat),
  let c := run_sched (strip L2_Write) (strip L2_Close) sched (init_cfg (map (map (@Write A)) pss)) in
  finished c ->
  exists m : list (list A),
    Merge pss m /\
    c_buf c = buf (Buffer.run lBufferSize (map (@Write A) m)) /\ c_sent c = sent (Buffer.run lBufferSize (map (@Write A) m)) /\
    let d := delivered (Buffer.run lBufferSize (map (@Write A) m ++ [Close])) in
    d = concat m /\ Permutation (concat (map (@concat A) pss)) d /\ Forall (fun ps => Subseq (concat ps) d) pss.
Proof. exact L2_multi_producer. Qed.
Print Assumptions C11_source_Line2Buffer_multi_producer.

(* The five sinks: the extracted driver and writer function (with its writer goroutine) parse
   as a call of Sys/PipeProg.v, and when nothing fails every maximal execution of that call -
   any interleaving of caller, renderer sends and writer goroutine - ends with the caller
   returned, the goroutine gone, and the sink holding exactly the batches, in order. *)
Theorem C11_source_sinks_deliver : forall (A : Type),
  Forall (fun dw : list stmt * list stmt =>
    exists d w, parse_driver (strip (fst dw)) = Some d /\ parse_writer (strip (snd dw)) = Some w /\
      forall (batches : list (list A)) (c : ist A),
        ireach (w_cons w) (w_opens w) (d_returns d) None (fun _ => false) None (iinit batches) c ->
        istuck (w_cons w) (w_opens w) (d_returns d) None (fun _ => false) None c ->
        i_m c = MRet /\ i_k c = Some KExit /\ i_wg c = 0 /\ i_out c = concat batches)
    [(ToTriangles, WriteTriangles); (ToSTL, writeSTL); (To3MF, write3MF); (ToDXF, writeDXF); (ToSVG, writeSVG)].
Proof. exact sinks_deliver. Qed.
Print Assumptions C11_source_sinks_deliver.

(* Buffer and sink composed, from the extracted programs only: one renderer writes ws through
   the buffer with the source's threshold and closes it; whatever the interleaving of caller,
   renderer sends and writer goroutine, the call ends with the sink holding concat ws. *)
Theorem C11_source_end_to_end : forall (A : Type),
  Forall (fun dwn : list stmt * list stmt * nat =>
    exists d w, parse_driver (strip (fst (fst dwn))) = Some d /\ parse_writer (strip (snd (fst dwn))) = Some w /\
      forall (ws : list (list A)) (c : ist A),
        let batches := sent (Buffer.run (snd dwn) (map (@Write A) ws ++ [Close])) in
        ireach (w_cons w) (w_opens w) (d_returns d) None (fun _ => false) None (iinit batches) c ->
        istuck (w_cons w) (w_opens w) (d_returns d) None (fun _ => false) None c ->
        i_m c = MRet /\ i_k c = Some KExit /\ i_wg c = 0 /\ i_out c = concat ws)
    [(ToTriangles, WriteTriangles, tBufferSize); (ToSTL, writeSTL, tBufferSize); (To3MF, write3MF, tBufferSize);
     (ToDXF, writeDXF, lBufferSize); (ToSVG, writeSVG, lBufferSize)].
Proof. exact end_to_end. Qed.
Print Assumptions C11_source_end_to_end.

(* non-vacuity: the thresholds found in the source satisfy 1 <= N, a two-producer
   interleaving exists, and the model flushes at the threshold. *)
Example C11_real_thresholds : 1 <= tBufferSize /\ 1 <= lBufferSize.
Proof. split; apply Nat.leb_le; vm_compute; reflexivity. Qed.

Example C11_merge_example : Merge [[[1; 2]; [3]]; [[10]; []]] [[10]; [1; 2]; []; [3]].
Proof.
  apply (Merge_pick [[[1; 2]; [3]]] [10] [[]] []).
  apply (Merge_pick [] [1; 2] [[3]] [[[]]]).
  apply (Merge_pick [[[3]]] [] [] []).
  apply (Merge_pick [] [3] [] [[]]).
  constructor. repeat constructor.
Qed.

Example C11_flush_at_threshold :
  map (@length nat) (sent (run 3 [Write [1; 2]; Write [3]; Write [4; 5; 6; 7]; Write []; Write [8]; Close; Close])) = [3; 4; 1].
Proof. reflexivity. Qed.

(* non-vacuity of the source-level theorems: two goroutines through the extracted Write/Close,
   the scheduler alternating between them statement by statement; both finish, 5 calls logged *)
Example C11_source_schedule_finishes :
  let c := run_sched (strip T3_Write) (strip T3_Close) demo_sched
                     (init_cfg [[Write [1; 2]; Write [3]]; [Write [10]; Write []; Close]]) in
  (forall i, i < 2 -> match c_th c i with Some t => t_k t = [] /\ t_cur t = None /\ t_todo t = [] | None => False end) /\
  c_lock c = None /\ length (c_log c) = 5.
Proof. exact demo_finishes. Qed.

(* ---- inventory of mutable state (DESIGN.md 2.3).  The models above are functions of their arguments; they are
   faithful only as long as the code keeps no state between calls beyond what they mention.  The package-level
   variables and struct fields in the scope of C11 (and which of them are written outside construction, from which
   entry points) are regenerated from the current source on every run (harness/stategen -> Generated/StateInv.v)
   and contain no state beyond the expected, reviewed inventory of Sys/StateInvSpec.v, where every piece of state
   that legitimately exists names the model component that accounts for it.  Breaks when a written package-level
   variable, a struct field, or a write of a field outside its constructor is added in scope (coqc then prints the
   differences); tolerates moved declarations, reordered fields, renamed locals, new helpers / constants / tables
   nothing writes. *)
From Sdfx Require Sys.StateInvSpec Sys.StateInvC11.
Theorem C11_state_inventory : Sdfx.Sys.StateInvSpec.state_ok_C11 = true.
Proof. exact Sdfx.Sys.StateInvC11.C11_state_inventory. Qed.
Print Assumptions C11_state_inventory.
