(* C11 - nothing written by a renderer is lost, duplicated or reordered before the sink.
   Theorems only; see DESIGN.md section 6 (C11).  Models: Sys/Buffer.v (the
   Triangle3Buffer / Line2Buffer state machine and the consumer loops) and
   Sys/Pipeline.v (producer, rendezvous channel, writer goroutine, main). *)
From Coq Require Import List Arith NArith Permutation.
From Sdfx Require Import Sys.Buffer.
From Sdfx Require Import Sys.Pipeline.
From Sdfx Require Import Generated.BufferConsts.
Import ListNotations.

(* At every moment, after ANY sequence of Write / Close operations (empty writes,
   writes after Close, sizes straddling the threshold N, any N): what the consumer
   holds followed by what is still buffered is exactly what was written, in order. *)
Theorem C11_buffer_invariant : forall (A : Type) (N : nat) (ops : list (op A)),
  concat (sent (run N ops)) ++ buf (run N ops) = writes_of ops.
Proof. exact buffer_invariant. Qed.
Print Assumptions C11_buffer_invariant.

(* After the closing flush nothing is left behind, whatever happened before. *)
Theorem C11_delivered_after_close : forall (A : Type) (N : nat) (ops : list (op A)),
  delivered (run N (ops ++ [Close])) = writes_of ops.
Proof. exact delivered_after_close. Qed.
Print Assumptions C11_delivered_after_close.

(* One producer: the sink receives the concatenation of the writes, in order. *)
Theorem C11_single_producer : forall (A : Type) (N : nat) (ws : list (list A)),
  delivered (run N (map Write ws ++ [Close])) = concat ws.
Proof. exact single_producer. Qed.
Print Assumptions C11_single_producer.

(* Several producers, each Write atomic under the mutex: for EVERY interleaving m of
   the producers' Write sequences the sink receives the writes in the order they
   took the lock, i.e. a permutation of all items in which every producer's items
   appear in their own order. *)
Theorem C11_multi_producer : forall (A : Type) (N : nat) (pss : list (list (list A))) (m : list (list A)),
  Merge pss m ->
  let d := delivered (run N (map Write m ++ [Close])) in
  d = concat m /\
  Permutation (concat (map (@concat A) pss)) d /\
  Forall (fun ps => Subseq (concat ps) d) pss.
Proof. exact multi_producer. Qed.
Print Assumptions C11_multi_producer.

(* Shape of the traffic on the channel: never an empty batch, never N or more items
   kept back; batches sent by Write hold at least N items. *)
Theorem C11_batches_shape : forall (A : Type) (N : nat) (ops : list (op A)), 1 <= N ->
  length (buf (run N ops)) < N /\ Forall (fun b => b <> []) (sent (run N ops)).
Proof. exact batches_shape. Qed.
Print Assumptions C11_batches_shape.

Theorem C11_writes_send_full_batches : forall (A : Type) (N : nat) (ws : list (list A)),
  Forall (fun b => N <= length b) (sent (run N (map Write ws))).
Proof. exact writes_send_full. Qed.
Print Assumptions C11_writes_send_full_batches.

(* The consumer goroutine under every interleaving with the producer and main: once
   it has finished, it has written exactly the batches, in order, and the count it
   stores is their number (no failure injected; either protocol). *)
Theorem C11_consumer_all_interleavings : forall (A : Type) (P : proto) (batches : list (list A)) (s : st A),
  reachable P None (init batches) s -> con s = Done ->
  out s = concat batches /\ hdr s = Some (length (concat batches)).
Proof. exact consumer_all_interleavings. Qed.
Print Assumptions C11_consumer_all_interleavings.

(* The uint32 count of the STL header, incremented once per triangle written. *)
Theorem C11_stl_count_field : forall (A : Type) (items : list A),
  stl_count items = (N.of_nat (length items) mod 2 ^ 32)%N.
Proof. exact (@stl_count_field). Qed.
Print Assumptions C11_stl_count_field.

(* The decision procedure the cases files apply to what the real sinks delivered
   accepts only sequences allowed by C11_multi_producer. *)
Theorem C11_checker_sound : forall pss d m,
  reconstruct pss d = Some m ->
  Merge (drop_empty pss) m /\ concat m = d /\
  Permutation (concat (map (@concat N) pss)) d /\
  Forall (fun ps => Subseq (concat ps) d) pss.
Proof. exact checker_sound. Qed.
Print Assumptions C11_checker_sound.

(* non-vacuity: the thresholds found in the source satisfy 1 <= N, a two-producer
   interleaving exists, and the model flushes at the threshold. *)
Example C11_real_thresholds : 1 <= tBufferSize /\ 1 <= lBufferSize.
Proof. split; apply Nat.leb_le; vm_compute; reflexivity. Qed.

Example C11_merge_example : Merge [[[1; 2]; [3]]; [[10]; []]] [[10]; [1; 2]; []; [3]].
Proof.
  apply (Merge_pick [[[1; 2]; [3]]] [10] [[]] []).
  apply (Merge_pick [] [1; 2] [[3]] [[[]]]).
  apply (Merge_pick [[[3]]] [] [] []).
  apply (Merge_pick [] [3] [] [[]]).
  constructor. repeat constructor.
Qed.

Example C11_flush_at_threshold :
  map (@length nat) (sent (run 3 [Write [1; 2]; Write [3]; Write [4; 5; 6; 7]; Write []; Write [8]; Close; Close])) = [3; 4; 1].
Proof. reflexivity. Qed.
