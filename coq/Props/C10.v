(* C10 - theorems only.  See DESIGN.md section 6, C10.
   Model: coq/Sys/Lockset.v; regenerated data: coq/Generated/Effects.v (harness/effsum). *)
From Coq Require Import List String Bool Arith.
From Sdfx Require Import Sys.Lockset Generated.Effects Sys.EffectsC10.
Import ListNotations.
Local Open Scope string_scope.

(* The lockset discipline is sound for the interleaving semantics: if no two accesses of
   different threads conflict with disjoint lock sets, then under EVERY schedule no state is
   reached in which two threads are about to perform conflicting accesses. *)
Theorem C10_lockset_discipline_sound : forall s0,
  excl s0 -> ~ lockset_race s0 -> forall st, reach s0 st -> ~ racy st.
Proof. exact lockset_discipline_sound. Qed.
Print Assumptions C10_lockset_discipline_sound.

(* no writes => no race, for any number of threads and any interleaving *)
Theorem C10_readonly_race_free : forall p : nat -> list ev,
  (forall i x, ~ In (Wr x) (p i)) -> forall st, reach (init p) st -> ~ racy st.
Proof. exact readonly_race_free. Qed.
Print Assumptions C10_readonly_race_free.

(* every access to a location that is written anywhere holds that location's lock => no race *)
Theorem C10_guarded_race_free : forall (p : nat -> list ev) (G : loc -> lock),
  (forall i j w x H H', In (w, x, H) (accs [] (p i)) -> In (true, x, H') (accs [] (p j)) -> In (G x) H) ->
  forall st, reach (init p) st -> ~ racy st.
Proof. exact guarded_race_free. Qed.
Print Assumptions C10_guarded_race_free.

(* soundness of the decidable check that is run over the summaries *)
Theorem C10_safe_sound : forall (ss : list summary) (p : nat -> list ev),
  forallb (safe_in (all_effects ss)) ss = true ->
  (forall i, exists s, In s ss /\ conforms (snd s) (p i)) ->
  forall st, reach (init p) st -> ~ racy st.
Proof. exact safe_sound. Qed.
Print Assumptions C10_safe_sound.

(* the reflection fact over the summaries regenerated from the current Go source: every
   Evaluate method of sdf, obj, render and render/dc passes the check *)
Theorem C10_all_evaluate_safe :
  forallb (safe_in (all_effects evaluate_summaries)) evaluate_summaries = true.
Proof. exact all_evaluate_safe. Qed.
Print Assumptions C10_all_evaluate_safe.

Theorem C10_evaluate_race_free : forall p : nat -> list ev,
  (forall i, exists s, In s evaluate_summaries /\ conforms (snd s) (p i)) ->
  forall st, reach (init p) st -> ~ racy st.
Proof. exact evaluate_race_free. Qed.
Print Assumptions C10_evaluate_race_free.

(* A cache whose whole Evaluate is one critical section: in every interleaving of the micro
   steps (load/store of the counters, map read, child evaluation, map write) of any number of
   callers, every returned value is f p, and whenever the mutex is free the map and the two
   counters are those of the atomic calls executed in the order in which they returned. *)
Theorem C10_guarded_cache_linearizable :
  forall (P V : Type) (P_dec : forall a b : P, {a = b} + {a <> b}) (f : P -> V)
         (todo : nat -> list P) (s : cache_state P V),
    creach P V P_dec f (cinit P V todo) s ->
    (forall i p d, In (i, p, d) (c_log P V s) -> d = f p) /\
    (c_owner P V s = None ->
       (c_map P V s, c_reads P V s, c_hits P V s) = abs P V P_dec f (c_log P V s) /\
       c_reads P V s = List.length (c_log P V s) /\
       c_hits P V s + List.length (c_map P V s) = c_reads P V s /\
       consistent P V P_dec f (c_map P V s)).
Proof. exact guarded_cache_linearizable. Qed.
Print Assumptions C10_guarded_cache_linearizable.

(* The CacheSDF2.Evaluate of the pinned commit (unguarded map and counters) fails the check,
   and two callers reach a state in which one is about to write the map while the other is
   about to read it (repaired in /repo by a fix: commit; the regenerated summary must now
   pass C10_all_evaluate_safe). *)
Theorem C10_cache_refuted :
  safe_in (snd pinned_cache_summary) pinned_cache_summary = false /\
  reach (init pinned_two_callers) pinned_race_state /\
  racy_on "sdf.CacheSDF2.cache{}" pinned_race_state.
Proof. exact pinned_cache_refuted. Qed.
Print Assumptions C10_cache_refuted.

(* non-vacuity: the thread that performs the accesses of the guarded cache summary under its
   mutex conforms to that summary; the summaries are not empty *)
Example C10_hyp_satisfiable :
  conforms guarded_cache_effects (thread_of guarded_cache_effects) /\ evaluate_summaries <> [].
Proof. split; [exact thread_of_conforms_example | exact summaries_not_empty]. Qed.

(* non-vacuity of the cache theorem: a caller can run through a whole call *)
Example C10_cache_run :
  exists s, creach nat nat Nat.eq_dec (fun p => p + 1) (cinit nat nat (fun i => if Nat.eqb i 0 then [7] else [])) s /\
            c_log nat nat s = [(0, 7, 8)] /\ c_owner nat nat s = None /\ c_reads nat nat s = 1 /\ c_hits nat nat s = 0.
Proof. exact cache_run_example. Qed.

(* ---- inventory of mutable state (DESIGN.md 2.3).  The models above are functions of their arguments; they are
   faithful only as long as the code keeps no state between calls beyond what they mention.  The package-level
   variables and struct fields in the scope of C10 (and which of them are written outside construction, from which
   entry points) are regenerated from the current source on every run (harness/stategen -> Generated/StateInv.v)
   and contain no state beyond the expected, reviewed inventory of Sys/StateInvSpec.v, where every piece of state
   that legitimately exists names the model component that accounts for it.  Breaks when a written package-level
   variable, a struct field, or a write of a field outside its constructor is added in scope (coqc then prints the
   differences); tolerates moved declarations, reordered fields, renamed locals, new helpers / constants / tables
   nothing writes. *)
From Sdfx Require Sys.StateInvSpec Sys.StateInvC10.
Theorem C10_state_inventory : Sdfx.Sys.StateInvSpec.state_ok_C10 = true.
Proof. exact Sdfx.Sys.StateInvC10.C10_state_inventory. Qed.
Print Assumptions C10_state_inventory.
