(* C16 - theorems only.  See DESIGN.md section 6, C16. *)
From Coq Require Import Reals List Lra.
From Sdfx Require Import Num.Ops Num.RInst Geo.Vec Geo.Box Geo.BoxR Sdf.Union2 Sdf.Union2R.
From Sdfx Require Import Sdf.Shape Generated.SdfExpr Sdf.GenEq Sdf.GenEqR.
Import ListNotations.
Open Scope R_scope.

(* Box2.MinMaxDist2 returns exactly the pair (nearest, farthest) squared distance... *)
Theorem C16_box2_interval_is_spec : forall b p, ordered2 b -> box2_minmax b p = spec2_minmax b p.
Proof. exact box2_minmax_exact. Qed.
Print Assumptions C16_box2_interval_is_spec.

(* ... where the specification pair bounds the squared distance to every point of the box and
   both bounds are attained by points of the box. *)
Theorem C16_box2_spec_exact : forall b p, ordered2 b ->
  (forall q, in_box2 b q -> fst (spec2_minmax b p) <= dist2_2 p q <= snd (spec2_minmax b p)) /\
  (exists q, in_box2 b q /\ dist2_2 p q = fst (spec2_minmax b p)) /\
  (exists q, in_box2 b q /\ dist2_2 p q = snd (spec2_minmax b p)).
Proof. exact spec2_is_distance_interval. Qed.
Print Assumptions C16_box2_spec_exact.

Theorem C16_box3_interval_is_spec : forall b p, ordered3 b -> box3_minmax b p = spec3_minmax b p.
Proof. exact box3_minmax_exact. Qed.
Print Assumptions C16_box3_interval_is_spec.

Theorem C16_box3_spec_exact : forall b p, ordered3 b ->
  (forall q, in_box3 b q -> fst (spec3_minmax b p) <= dist2_3 p q <= snd (spec3_minmax b p)) /\
  (exists q, in_box3 b q /\ dist2_3 p q = fst (spec3_minmax b p)) /\
  (exists q, in_box3 b q /\ dist2_3 p q = snd (spec3_minmax b p)).
Proof. exact spec3_is_distance_interval. Qed.
Print Assumptions C16_box3_spec_exact.

(* two (sorted) intervals overlap iff they share a value *)
Theorem C16_overlap_iff : forall a b : Interval ROps, fst a <= snd a -> fst b <= snd b ->
  (iv_overlap a b = true <-> exists x, fst a <= x <= snd a /\ fst b <= x <= snd b).
Proof. exact overlap_iff. Qed.
Print Assumptions C16_overlap_iff.

(* Pruned evaluation = exhaustive evaluation with the plain minimum, for every operand list:
   each operand is (squared distance interval of its box at the query point, its value there). *)
Theorem C16_union_prune_eq : forall ops : list (Interval ROps * R),
  ops <> [] -> Forall iv_ok ops -> Forall lower_ok ops -> Forall upper_ok ops ->
  @evaluate ROps false Rmin ops = @evaluate_slow ROps Rmin ops.
Proof. exact union_prune_eq. Qed.
Print Assumptions C16_union_prune_eq.

(* The repaired pruning (bound = the evaluated value of the operand with the closest box) needs only
   the lower bound, i.e. the C01 fact that the value is at least the distance to the operand's box. *)
Theorem C16_union_prune_eq_strong : forall ops : list (Interval ROps * R),
  ops <> [] -> Forall iv_ok ops -> Forall lower_ok ops ->
  @evaluate ROps false Rmin ops = @evaluate_slow ROps Rmin ops.
Proof. exact union_prune_eq_strong. Qed.
Print Assumptions C16_union_prune_eq_strong.

(* The pinned algorithm pruned by overlap of the box distance intervals and was wrong for an operand
   with no solid point in its box (e.g. an intersection that removes everything). *)
Theorem C16_union_prune_pinned_refuted :
  Forall iv_ok pinned_witness /\ Forall lower_ok pinned_witness /\
  @evaluate_pinned ROps Rmin pinned_witness = 5 /\ @evaluate_slow ROps Rmin pinned_witness = 5 / 2.
Proof. split; [apply pinned_witness_hyps | split; [apply pinned_witness_hyps | exact union_prune_pinned_refuted]]. Qed.
Print Assumptions C16_union_prune_pinned_refuted.

(* With any blend function installed the repaired Evaluate is the exhaustive evaluation. *)
Theorem C16_union_blend_eq : forall minf (ops : list (Interval ROps * R)),
  @evaluate ROps true minf ops = @evaluate_slow ROps minf ops.
Proof. exact union_blend_eq. Qed.
Print Assumptions C16_union_blend_eq.

(* non-vacuity: two operands, the far one is pruned *)
Example C16_hyp_satisfiable :
  let ops : list (Interval ROps * R) := [((1, 9), 2); ((100, 400), 15)] in
  ops <> [] /\ Forall iv_ok ops /\ Forall lower_ok ops /\ Forall upper_ok ops.
Proof.
  cbv zeta. split; [discriminate|]. unfold iv_ok, lower_ok, upper_ok.
  repeat split; repeat constructor; cbn; try lra; intros; lra.
Qed.

(* ---- The tie to the Go source.  Generated/SdfExpr.v is re-translated from the Go AST of the
   current source tree on every run (harness/sdfgen); the definitions generated from
   Box2/Box3.MinMaxDist2 (the vertex loop, side / face / edge cases) and from UnionSDF2.Evaluate /
   EvaluateSlow (both operand loops, the closest-box bound) are equal to the model functions the
   theorems above are about, for all arguments (Sdf/GenEq.v: by computation for the boxes, by
   induction over the operand list for the union).  A semantic edit of one of these Go functions
   breaks one of the obligations below. *)
Theorem C16_go_box2_minmax_is_model : forall (b : Box2 ROps) (p : V2 ROps),
  @sdf_Box2_MinMaxDist2 ROps b p = box2_minmax b p.
Proof. exact (@Box2_MinMaxDist2_eq ROps). Qed.
Print Assumptions C16_go_box2_minmax_is_model.

Theorem C16_go_box3_minmax_is_model : forall (b : Box3 ROps) (p : V3 ROps),
  @sdf_Box3_MinMaxDist2 ROps b p = box3_minmax b p.
Proof. exact (@Box3_MinMaxDist2_eq ROps). Qed.
Print Assumptions C16_go_box3_minmax_is_model.

(* an operand list is a list of objects; the Go slice s.sdf is the list of their (Evaluate, BoundingBox) *)
Theorem C16_go_union_evaluate_is_model : forall mk (l : list (Obj2 ROps)) (p : V2 ROps), (0 < length l)%nat ->
  @sdf_UnionSDF2_Evaluate ROps (map pf2 l) (min_apply mk) (min_is_blend mk) p =
  evaluate (min_is_blend mk) (min_apply mk) (map (fun x => (box2_minmax (bb2 x) p, ev2 x p)) l).
Proof. exact (@Union2_eval_eq ROps). Qed.
Print Assumptions C16_go_union_evaluate_is_model.

Theorem C16_go_union_evaluateslow_is_model : forall minf (l : list (Obj2 ROps)) (p : V2 ROps),
  @sdf_UnionSDF2_EvaluateSlow ROps (map pf2 l) minf p =
  evaluate_slow minf (map (fun x => (box2_minmax (bb2 x) p, ev2 x p)) l).
Proof. exact (@UnionSlow2_eq ROps). Qed.
Print Assumptions C16_go_union_evaluateslow_is_model.

(* Hence, about the translated Go code itself: with the plain minimum the pruned Evaluate equals
   EvaluateSlow at every point, for every non-empty operand list whose operands have ordered boxes
   and values that are at least the distance to their own box (iv_ok / lower_ok at that point). *)
Theorem C16_go_union_prune_eq : forall (l : list (Obj2 ROps)) (p : V2 ROps),
  l <> [] ->
  Forall iv_ok (map (fun x => (box2_minmax (bb2 x) p, ev2 x p)) l) ->
  Forall lower_ok (map (fun x => (box2_minmax (bb2 x) p, ev2 x p)) l) ->
  @sdf_UnionSDF2_Evaluate ROps (map pf2 l) Rmin false p = @sdf_UnionSDF2_EvaluateSlow ROps (map pf2 l) Rmin p.
Proof. exact go_union_prune_eq. Qed.
Print Assumptions C16_go_union_prune_eq.

(* ... and SetMin (the only way to install a blend) sets the flag that makes the translated Evaluate
   the exhaustive EvaluateSlow, for every blend function, operand list and point. *)
Theorem C16_go_union_setmin_blend : forall (minf : R -> R -> R) (l : list (Obj2 ROps)) (p : V2 ROps),
  @sdf_UnionSDF2_SetMin ROps minf = (minf, true) /\
  @sdf_UnionSDF2_Evaluate ROps (map pf2 l) (fst (@sdf_UnionSDF2_SetMin ROps minf)) (snd (@sdf_UnionSDF2_SetMin ROps minf)) p =
  @sdf_UnionSDF2_EvaluateSlow ROps (map pf2 l) minf p.
Proof. exact go_union_setmin_blend. Qed.
Print Assumptions C16_go_union_setmin_blend.

(* ---- inventory of mutable state (DESIGN.md 2.3).  The models above are functions of their arguments; they are
   faithful only as long as the code keeps no state between calls beyond what they mention.  The package-level
   variables and struct fields in the scope of C16 (and which of them are written outside construction, from which
   entry points) are regenerated from the current source on every run (harness/stategen -> Generated/StateInv.v)
   and contain no state beyond the expected, reviewed inventory of Sys/StateInvSpec.v, where every piece of state
   that legitimately exists names the model component that accounts for it.  Breaks when a written package-level
   variable, a struct field, or a write of a field outside its constructor is added in scope (coqc then prints the
   differences); tolerates moved declarations, reordered fields, renamed locals, new helpers / constants / tables
   nothing writes. *)
From Sdfx Require Sys.StateInvSpec Sys.StateInvC16.
Theorem C16_state_inventory : Sdfx.Sys.StateInvSpec.state_ok_C16 = true.
Proof. exact Sdfx.Sys.StateInvC16.C16_state_inventory. Qed.
Print Assumptions C16_state_inventory.
