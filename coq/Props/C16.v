(* C16 - theorems only.  See DESIGN.md section 6, C16. *)
From Coq Require Import Reals List Lra.
From Sdfx Require Import Num.Ops Num.RInst Geo.Vec Geo.Box Geo.BoxR Sdf.Union2 Sdf.Union2R.
Import ListNotations.
Open Scope R_scope.

(* Box2.MinMaxDist2 returns exactly the pair (nearest, farthest) squared distance... *)
Theorem C16_box2_interval_is_spec : forall b p, ordered2 b -> box2_minmax b p = spec2_minmax b p.
Proof. exact box2_minmax_exact. Qed.
Print Assumptions C16_box2_interval_is_spec.

(* ... where the specification pair bounds the squared distance to every point of the box and
   both bounds are attained by points of the box. *)
Theorem C16_box2_spec_exact : forall b p, ordered2 b ->
  (forall q, in_box2 b q -> fst (spec2_minmax b p) <= dist2_2 p q <= snd (spec2_minmax b p)) /\
  (exists q, in_box2 b q /\ dist2_2 p q = fst (spec2_minmax b p)) /\
  (exists q, in_box2 b q /\ dist2_2 p q = snd (spec2_minmax b p)).
Proof. exact spec2_is_distance_interval. Qed.
Print Assumptions C16_box2_spec_exact.

Theorem C16_box3_interval_is_spec : forall b p, ordered3 b -> box3_minmax b p = spec3_minmax b p.
Proof. exact box3_minmax_exact. Qed.
Print Assumptions C16_box3_interval_is_spec.

Theorem C16_box3_spec_exact : forall b p, ordered3 b ->
  (forall q, in_box3 b q -> fst (spec3_minmax b p) <= dist2_3 p q <= snd (spec3_minmax b p)) /\
  (exists q, in_box3 b q /\ dist2_3 p q = fst (spec3_minmax b p)) /\
  (exists q, in_box3 b q /\ dist2_3 p q = snd (spec3_minmax b p)).
Proof. exact spec3_is_distance_interval. Qed.
Print Assumptions C16_box3_spec_exact.

(* two (sorted) intervals overlap iff they share a value *)
Theorem C16_overlap_iff : forall a b : Interval ROps, fst a <= snd a -> fst b <= snd b ->
  (iv_overlap a b = true <-> exists x, fst a <= x <= snd a /\ fst b <= x <= snd b).
Proof. exact overlap_iff. Qed.
Print Assumptions C16_overlap_iff.

(* Pruned evaluation = exhaustive evaluation with the plain minimum, for every operand list:
   each operand is (squared distance interval of its box at the query point, its value there). *)
Theorem C16_union_prune_eq : forall ops : list (Interval ROps * R),
  ops <> [] -> Forall iv_ok ops -> Forall lower_ok ops -> Forall upper_ok ops ->
  @evaluate ROps false Rmin ops = @evaluate_slow ROps Rmin ops.
Proof. exact union_prune_eq. Qed.
Print Assumptions C16_union_prune_eq.

(* The repaired pruning (bound = the evaluated value of the operand with the closest box) needs only
   the lower bound, i.e. the C01 fact that the value is at least the distance to the operand's box. *)
Theorem C16_union_prune_eq_strong : forall ops : list (Interval ROps * R),
  ops <> [] -> Forall iv_ok ops -> Forall lower_ok ops ->
  @evaluate ROps false Rmin ops = @evaluate_slow ROps Rmin ops.
Proof. exact union_prune_eq_strong. Qed.
Print Assumptions C16_union_prune_eq_strong.

(* The pinned algorithm pruned by overlap of the box distance intervals and was wrong for an operand
   with no solid point in its box (e.g. an intersection that removes everything). *)
Theorem C16_union_prune_pinned_refuted :
  Forall iv_ok pinned_witness /\ Forall lower_ok pinned_witness /\
  @evaluate_pinned ROps Rmin pinned_witness = 5 /\ @evaluate_slow ROps Rmin pinned_witness = 5 / 2.
Proof. split; [apply pinned_witness_hyps | split; [apply pinned_witness_hyps | exact union_prune_pinned_refuted]]. Qed.
Print Assumptions C16_union_prune_pinned_refuted.

(* With any blend function installed the repaired Evaluate is the exhaustive evaluation. *)
Theorem C16_union_blend_eq : forall minf (ops : list (Interval ROps * R)),
  @evaluate ROps true minf ops = @evaluate_slow ROps minf ops.
Proof. exact union_blend_eq. Qed.
Print Assumptions C16_union_blend_eq.

(* non-vacuity: two operands, the far one is pruned *)
Example C16_hyp_satisfiable :
  let ops : list (Interval ROps * R) := [((1, 9), 2); ((100, 400), 15)] in
  ops <> [] /\ Forall iv_ok ops /\ Forall lower_ok ops /\ Forall upper_ok ops.
Proof.
  cbv zeta. split; [discriminate|]. unfold iv_ok, lower_ok, upper_ok.
  repeat split; repeat constructor; cbn; try lra; intros; lra.
Qed.
